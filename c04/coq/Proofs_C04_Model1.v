(** C04 — model = specification (Broadcast.v vs BroadcastSpec.v), part 1: the fragment, ranges and carries inside it,
    the leaf step, masks, the projection of one input by the option step.
    Fragment [jag]: 1-d integer NumpyArray leaves under ListOffsetArray / ListArray (any index width, any
    offset origin, gaps, unreachable data) and IndexedOptionArray (not directly inside another one). *)
From AwkV Require Import LayoutInd Proofs_Lists Proofs_ToList Proofs_Typing Proofs_Carry Proofs_AtAxisOps Proofs_C05.
From AwkBroadcast Require Import Broadcast Proofs_C04.
From Coq Require Import Lia ZifyBool.

Definition is_dz (d : datum) : bool := match d with DZ _ => true | _ => false end.
Fixpoint jag (c : content) : bool :=
  match c with
  | Numpy _ [_] data => forallb is_dz data
  | ListOffset _ _ c' | ListA _ _ _ c' => jag c'
  | IndexedOption _ _ c' => jag c' && negb (is_option_node c')
  | _ => false
  end.
(* number of nodes of the chain *)
Fixpoint csize (c : content) : nat :=
  match c with
  | ListOffset _ _ c' | ListA _ _ _ c' | IndexedOption _ _ c' => S (csize c')
  | _ => 1%nat
  end.

(* ------------------------------------------------------------------ generic list facts *)
Lemma firstn_In' {A} (x : A) n : forall l, In x (firstn n l) -> In x l.
Proof. induction n as [|n IH]; intros [|a l]; cbn; try tauto. intros [->|H]; [now left|right; now apply IH]. Qed.
Lemma mapM_slice {A B} (f : A -> res B) l ys a b sl :
  mapM f l = Ok ys -> slice l a b = Ok sl -> mapM f sl = slice ys a b.
Proof.
  intros H Hs. pose proof (slice_inv _ _ _ _ Hs) as Hb.
  rewrite <- (gather_range l a b) in Hs by lia.
  rewrite (mapM_gather_ok f l ys (range a b) sl H Hs).
  apply gather_range; try lia. rewrite (mapM_zlen _ _ _ H). lia.
Qed.

Lemma pairs_skipn k : forall o, pairs (skipn k o) = skipn k (pairs o).
Proof.
  induction k as [|k IH]; [reflexivity|]. intros [|a [|b o]].
  - reflexivity.
  - destruct k; reflexivity.
  - change (skipn (S k) (a :: b :: o)) with (skipn k (b :: o)). rewrite IH. reflexivity.
Qed.
Lemma pairs_firstn k : forall o, pairs (firstn (S k) o) = firstn k (pairs o).
Proof.
  induction k as [|k IH]; intros o.
  - destruct o as [|a [|b o]]; reflexivity.
  - destruct o as [|a [|b o]]; try reflexivity.
    change (firstn (S (S k)) (a :: b :: o)) with (a :: b :: firstn k o).
    change (pairs (a :: b :: firstn k o)) with ((a, b) :: pairs (firstn (S k) (b :: o))).
    rewrite IH. reflexivity.
Qed.
Lemma pairs_slice o a b sl :
  slice o a (b + 1) = Ok sl -> a <= b -> slice (pairs o) a b = Ok (pairs sl).
Proof.
  intros Hs Hab. pose proof (slice_inv _ _ _ _ Hs) as Hb. rewrite slice_ok in Hs by lia. inversion Hs; subst.
  assert (Hne : o <> []) by (intros ->; cbn in Hb; lia).
  rewrite slice_ok; try lia.
  - f_equal. unfold take, drop.
    replace (Z.to_nat (b + 1 - a)) with (S (Z.to_nat (b - a))) by lia. rewrite pairs_firstn, pairs_skipn. reflexivity.
  - rewrite zlen_pairs by exact Hne. lia.
Qed.

Lemma firstn_zip {A B} n : forall (s : list A) (e : list B), firstn n (zip s e) = zip (firstn n s) (firstn n e).
Proof.
  induction n as [|n IH]; [reflexivity|]. intros [|a s] [|b e]; cbn; try reflexivity; now rewrite IH.
Qed.
Lemma take_as_slice {A} (l : list A) k : 0 <= k <= zlen l -> slice l 0 k = Ok (take k l).
Proof. intros H. rewrite slice_ok by lia. unfold drop. cbn [Z.to_nat skipn]. now rewrite Z.sub_0_r. Qed.

(* ------------------------------------------------------------------ ranges and gathers inside the fragment *)
Lemma jag_type_list c : jag c = true -> is_list_node c = true -> type_of c = TList None None (type_of (match list_content c with Some x => x | None => c end)).
Proof. destruct c; try discriminate; reflexivity. Qed.

Lemma grange0_jag c : forall vs k,
  jag c = true -> to_list c = Ok vs -> 0 <= k <= clen c ->
  exists c', grange c 0 k = Ok c' /\ jag c' = true /\ to_list c' = Ok (take k vs) /\
             type_of c' = type_of c /\ csize c' = csize c /\ clen c' = k /\
             is_option_node c' = is_option_node c /\ is_list_node c' = is_list_node c /\ is_numpy_node c' = is_numpy_node c.
Proof.
  intros vs k Hj Hl Hk. pose proof (to_list_len _ _ Hl) as Hlen.
  assert (Hguard : negb ((0 <=? 0) && (0 <=? k) && (k <=? clen c)) = false) by lia.
  destruct c as [dt shape data| |w o c'|w s e c'|c' size zl|w ix c'|w ix c'|m vw c'|m vw lsb n c'|c'|w t ix cs|cs ks n|arr rn c'];
    try discriminate.
  - (* Numpy, 1-d *)
    destruct shape as [|n [|d ds]]; try discriminate. cbn [jag] in Hj. cbn [clen] in Hk.
    cbn [grange]. rewrite Hguard. cbn [prodZ fold_right].
    rewrite to_list_Numpy in Hl. cbn [existsb prodZ fold_right] in Hl.
    destruct (n <? 0) eqn:En; [discriminate|]. cbn [orb] in Hl.
    replace (n * 1) with n in Hl by lia. destruct (zlen data <? n) eqn:Ed; [discriminate|]. cbn [nest] in Hl. inversion Hl; subst vs.
    eexists. split; [reflexivity|]. repeat split.
    + cbn [jag]. apply forallb_forall. intros x Hx. rewrite forallb_forall in Hj. apply Hj.
      unfold take, drop in Hx. cbn [Z.to_nat skipn] in Hx. now apply firstn_In' in Hx.
    + rewrite to_list_Numpy. cbn [existsb prodZ fold_right].
      replace ((k - 0) * 1) with k by lia. replace (k - 0) with k by lia.
      destruct (k <? 0) eqn:Ek; [lia|]. cbn [orb]. unfold drop. replace (0 * 1) with 0 by lia. cbn [Z.to_nat skipn].
      rewrite zlen_take by lia. destruct (k <? k) eqn:E2; [lia|]. cbn [nest]. f_equal.
      rewrite <- map_take. f_equal.
      unfold take. rewrite !firstn_firstn. f_equal. lia.
    + cbn [clen]. lia.
  - (* ListOffset *)
    cbn [jag] in Hj. cbn [clen] in Hk. cbn [grange]. rewrite Hguard.
    rewrite to_list_ListOffset in Hl. apply bind_Ok in Hl as (vs0 & Hl0 & Hl). apply rmap_Ok in Hl as (ls & Hc & ->).
    unfold cut in Hc. destruct o as [|o0 o]; [discriminate|]. set (oo := o0 :: o) in *.
    assert (Hzo : zlen oo = clen (ListOffset w oo c') + 1) by (cbn [clen]; lia). cbn [clen] in Hzo.
    destruct (slice oo 0 (k + 1)) as [o'|] eqn:Es; [|rewrite slice_ok in Es by lia; discriminate].
    cbn [bind]. eexists. split; [reflexivity|]. repeat split.
    + exact Hj.
    + rewrite to_list_ListOffset, Hl0. cbn [bind]. unfold cut.
      pose proof (slice_zlen _ _ _ _ Es) as Hzo'.
      destruct o' as [|x o']; [cbn in Hzo'; lia|].
      pose proof (pairs_slice oo 0 k _ Es ltac:(lia)) as Hp.
      rewrite (mapM_slice _ _ _ 0 k _ Hc Hp). rewrite take_as_slice.
      * cbn [rmap]. now rewrite map_take.
      * rewrite (mapM_zlen _ _ _ Hc), zlen_pairs by discriminate. lia.
    + cbn [clen]. rewrite (slice_zlen _ _ _ _ Es). lia.
  - (* ListA *)
    cbn [jag] in Hj. cbn [clen] in Hk. cbn [grange]. rewrite Hguard.
    rewrite to_list_ListA in Hl. apply bind_Ok in Hl as (vs0 & Hl0 & Hl). apply rmap_Ok in Hl as (ls & Hc & ->).
    unfold cut2 in Hc. destruct (zlen e <? zlen s) eqn:E0; [discriminate|].
    rewrite !take_as_slice by lia. cbn [bind]. eexists. split; [reflexivity|]. repeat split.
    + exact Hj.
    + rewrite to_list_ListA, Hl0. cbn [bind]. unfold cut2. rewrite !zlen_take by lia.
      destruct (k <? k) eqn:E1; [lia|].
      assert (Hz : slice (zip s e) 0 k = Ok (zip (take k s) (take k e))).
      { rewrite take_as_slice by (rewrite zlen_zip; lia). f_equal. unfold take. apply firstn_zip. }
      rewrite (mapM_slice _ _ _ 0 k _ Hc Hz). rewrite take_as_slice.
      * cbn [rmap]. now rewrite map_take.
      * rewrite (mapM_zlen _ _ _ Hc), zlen_zip. lia.
    + cbn [clen]. rewrite zlen_take by lia. reflexivity.
  - (* IndexedOption *)
    cbn [jag] in Hj. cbn [clen] in Hk. cbn [grange]. rewrite Hguard.
    rewrite to_list_IndexedOption in Hl. apply bind_Ok in Hl as (vs0 & Hl0 & Hl).
    rewrite take_as_slice by lia. cbn [bind]. eexists. split; [reflexivity|]. repeat split.
    + exact Hj.
    + rewrite to_list_IndexedOption, Hl0. cbn [bind].
      rewrite (mapM_slice _ _ _ 0 k _ Hl (take_as_slice ix k ltac:(lia))). apply take_as_slice.
      rewrite (mapM_zlen _ _ _ Hl). lia.
    + cbn [clen]. rewrite zlen_take by lia. reflexivity.
Qed.

Lemma skipn_In' {A} (x : A) n : forall l, In x (skipn n l) -> In x l.
Proof. induction n as [|n IH]; intros [|a l]; cbn; try tauto. intros H. right. now apply IH. Qed.
Lemma slice_In {A} (l r : list A) a b x : slice l a b = Ok r -> In x r -> In x l.
Proof.
  intros Hs Hx. pose proof (slice_inv _ _ _ _ Hs). rewrite slice_ok in Hs by lia. inversion Hs; subst.
  unfold take, drop in Hx. apply firstn_In' in Hx. now apply skipn_In' in Hx.
Qed.

Lemma carry_jag c : forall vs ix,
  jag c = true -> to_list c = Ok vs -> Forall (fun i => 0 <= i < clen c) ix ->
  exists c', carry c ix = Ok c' /\ jag c' = true /\ to_list c' = mapM (get vs) ix /\
             type_of c' = type_of c /\ csize c' = csize c /\ clen c' = zlen ix /\
             is_option_node c' = is_option_node c /\ is_list_node c' = is_list_node c /\ is_numpy_node c' = is_numpy_node c.
Proof.
  intros vs ix Hj Hl Hix.
  destruct c as [dt shape data| |w o c'|w s e c'|c' size zl|w ix0 c'|w ix0 c'|m vw c'|m vw lsb n c'|c'|w t ix0 cs|cs ks n|arr rn c'];
    try discriminate.
  - (* Numpy *)
    destruct shape as [|n [|d ds]]; try discriminate. cbn [jag] in Hj.
    destruct (carry_numpy dt [n] data vs ix Hl Hix) as (c' & Hc & Hl' & Hn).
    exists c'. split; [exact Hc|]. cbn [carry] in Hc. apply bind_Ok in Hc as (rows & Hrows & Hc). inversion Hc; subst c'.
    repeat split; try assumption.
    cbn [jag]. apply forallb_forall. intros x Hx. apply in_concat in Hx as (r & Hr & Hx).
    destruct (mapM_In_inv _ _ _ _ Hrows Hr) as (i & _ & Hi).
    destruct ((0 <=? i) && (i <? n)); [|discriminate]. rewrite forallb_forall in Hj. apply Hj. eapply slice_In; eassumption.
  - (* ListOffset *)
    cbn [jag] in Hj.
    rewrite to_list_ListOffset in Hl. apply bind_Ok in Hl as (vs0 & Hl0 & Hl). apply rmap_Ok in Hl as (ls & Hc & ->).
    unfold cut in Hc. destruct o as [|a o]; [discriminate|]. set (oo := a :: o) in *.
    assert (Hne : oo <> []) by discriminate. cbn [clen] in Hix.
    destruct (gather_ok (removelast oo) ix) as [s Hs]; [rewrite zlen_removelast by exact Hne; exact Hix|].
    destruct (gather_ok (tl oo) ix) as [e He]; [rewrite zlen_tl by exact Hne; exact Hix|].
    cbn [carry]. unfold gather. rewrite Hs, He. cbn [bind]. eexists. split; [reflexivity|].
    pose proof (mapM_zlen _ _ _ Hs) as Hls. pose proof (mapM_zlen _ _ _ He) as Hle.
    repeat split; try exact Hj; try (cbn [clen]; exact Hls).
    rewrite to_list_ListA, Hl0. cbn [bind]. unfold cut2. destruct (zlen e <? zlen s) eqn:E; [lia|].
    rewrite gather_map. f_equal. rewrite pairs_zip in Hc.
    apply (mapM_gather_ok _ _ _ ix (zip s e) Hc). rewrite gather_zip, Hs, He. reflexivity.
  - (* ListA *)
    cbn [jag] in Hj.
    rewrite to_list_ListA in Hl. apply bind_Ok in Hl as (vs0 & Hl0 & Hl). apply rmap_Ok in Hl as (ls & Hc & ->).
    unfold cut2 in Hc. destruct (zlen e <? zlen s) eqn:E0; [discriminate|]. cbn [clen] in Hix.
    destruct (gather_ok s ix) as [s' Hs]; [exact Hix|].
    destruct (gather_ok e ix) as [e' He]; [eapply Forall_impl; [|exact Hix]; cbv beta; intros; lia|].
    cbn [carry]. unfold gather. rewrite Hs, He. cbn [bind]. eexists. split; [reflexivity|].
    pose proof (mapM_zlen _ _ _ Hs) as Hls. pose proof (mapM_zlen _ _ _ He) as Hle.
    repeat split; try exact Hj; try (cbn [clen]; exact Hls).
    rewrite to_list_ListA, Hl0. cbn [bind]. unfold cut2. destruct (zlen e' <? zlen s') eqn:E; [lia|].
    rewrite gather_map. f_equal.
    apply (mapM_gather_ok _ _ _ ix (zip s' e') Hc). rewrite gather_zip, Hs, He. reflexivity.
  - (* IndexedOption *)
    cbn [jag] in Hj.
    rewrite to_list_IndexedOption in Hl. apply bind_Ok in Hl as (vs0 & Hl0 & Hl). cbn [clen] in Hix.
    destruct (gather_ok ix0 ix Hix) as [j Hjx]. cbn [carry]. unfold gather. rewrite Hjx. cbn [bind].
    eexists. split; [reflexivity|]. repeat split; try exact Hj; try (cbn [clen]; apply (mapM_zlen _ _ _ Hjx)).
    rewrite to_list_IndexedOption, Hl0. cbn [bind]. apply (mapM_gather_ok _ _ _ ix j Hl Hjx).
Qed.

Lemma list_eqb_eq l m : list_eqb Z.eqb l m = true -> l = m.
Proof.
  revert m. induction l as [|x l IH]; intros [|y m]; cbn; try discriminate; [reflexivity|].
  intros H. apply andb_prop in H as [H1 H2]. apply Z.eqb_eq in H1. subst. f_equal. now apply IH.
Qed.
Lemma range0_iota k : range 0 k = iota k.
Proof. unfold range, iota. now rewrite Z.sub_0_r. Qed.
Lemma gather_prefix {A} (l : list A) k : 0 <= k <= zlen l -> mapM (get l) (iota k) = Ok (take k l).
Proof. intros H. rewrite <- range0_iota, gather_range by lia. now apply take_as_slice. Qed.

(* Content::carry with its identity short-cut *)
Lemma ccarry_jag c : forall vs ix,
  jag c = true -> to_list c = Ok vs -> Forall (fun i => 0 <= i < clen c) ix ->
  exists c', ccarry c ix = Ok c' /\ jag c' = true /\ to_list c' = mapM (get vs) ix /\
             type_of c' = type_of c /\ csize c' = csize c /\ clen c' = zlen ix /\
             is_option_node c' = is_option_node c /\ is_list_node c' = is_list_node c /\ is_numpy_node c' = is_numpy_node c.
Proof.
  intros vs ix Hj Hl Hix. unfold ccarry.
  destruct (list_eqb Z.eqb ix (iota (zlen ix))) eqn:E; [|now apply carry_jag].
  apply list_eqb_eq in E. pose proof (to_list_len _ _ Hl) as Hlen.
  assert (Hk : 0 <= zlen ix <= clen c).
  { split; [apply zlen_nonneg|]. destruct (Z.eq_dec (zlen ix) 0) as [->|Hne]; [rewrite <- Hlen; apply zlen_nonneg|].
    pose proof (zlen_nonneg ix).
    assert (Hin : In (zlen ix - 1) ix).
    { remember (zlen ix) as k eqn:Hkk. rewrite E. apply iota_In'. lia. }
    rewrite Forall_forall in Hix. specialize (Hix _ Hin). lia. }
  destruct (zlen ix =? clen c) eqn:Ec.
  - exists c. split; [reflexivity|]. repeat split; try assumption; try lia.
    rewrite E, gather_prefix by lia. rewrite take_all by lia. exact Hl.
  - destruct (grange0_jag c vs (zlen ix) Hj Hl Hk) as (c' & Hc & Hj' & Hl' & Ht & Hs & Hn & H1 & H2 & H3).
    exists c'. split; [exact Hc|]. repeat split; try assumption.
    rewrite Hl'. rewrite E at 2. rewrite gather_prefix by lia. reflexivity.
Qed.

(* ------------------------------------------------------------------ which branch of apply a pair of fragment inputs takes *)
Lemma jag_nodes c : jag c = true ->
  is_empty_node c = false /\ is_numpy_nd c = false /\ is_indexed_node c = false /\ is_union_node c = false /\
  is_record_node c = false /\ is_regular_node c = false /\
  (is_list_node c = true -> pl_isreg c = false) /\
  (is_numpy_node c = true \/ is_option_node c = true \/ is_list_node c = true).
Proof.
  destruct c as [dt shape data| |w o c'|w s e c'|c' size zl|w ix0 c'|w ix0 c'|m vw c'|m vw lsb n c'|c'|w t ix0 cs|cs ks n|arr rn c'];
    try discriminate; cbn [jag]; intros H; repeat split; try reflexivity; try discriminate; auto.
  - destruct shape as [|n [|d ds]]; try discriminate; reflexivity.
Qed.

Lemma jag_rcond c1 c2 : jag c1 = true -> jag c2 = true ->
  (let cs := [c1; c2] in
   let md := fold_right Z.max (-1) (map pl_depth cs) in
   existsb is_list_node cs && (0 <? md) && forallb pl_isreg cs && existsb (fun c => pl_depth c <? md) cs) = false.
Proof.
  intros H1 H2. cbv zeta. cbn [existsb forallb].
  destruct (jag_nodes c1 H1) as (_ & _ & _ & _ & _ & _ & R1 & _).
  destruct (jag_nodes c2 H2) as (_ & _ & _ & _ & _ & _ & R2 & _).
  destruct (is_list_node c1) eqn:L1; [rewrite (R1 eq_refl); cbn; now rewrite !andb_false_r|].
  destruct (is_list_node c2) eqn:L2; [rewrite (R2 eq_refl); cbn; now rewrite !andb_false_r|].
  reflexivity.
Qed.

Lemma reg_chain_jag c : jag c = true -> reg_chain c = None.
Proof. destruct c; try discriminate; reflexivity. Qed.
Lemma to_nparr_jag_other c : jag c = true -> is_numpy_node c = false -> to_nparr (MC c) = Ok None.
Proof.
  intros Hj Hn. unfold to_nparr, deregulate. rewrite (reg_chain_jag c Hj). cbn [bind].
  destruct c; try discriminate; reflexivity.
Qed.

Definition undz (d : datum) : Z := match d with DZ z => z | _ => 0 end.
Lemma datum_z_all l : forallb is_dz l = true -> mapM datum_z l = Ok (map undz l).
Proof.
  induction l as [|d l IH]; [reflexivity|]. cbn [forallb]. intros H. apply andb_prop in H as [Hd Hl].
  cbn [mapM map]. destruct d; try discriminate. cbn. now rewrite (IH Hl).
Qed.
Lemma forallb_firstn {A} (p : A -> bool) n l : forallb p l = true -> forallb p (firstn n l) = true.
Proof. intros H. apply forallb_forall. intros x Hx. rewrite forallb_forall in H. apply H. eapply firstn_In'; eassumption. Qed.

(* integer view of a 1-d leaf *)
Definition leaf_z (dt : dtype) (d : datum) : Z := if dt_isbool dt then b2z (negb (undz d =? 0)) else undz d.
Lemma to_nparr_jag_numpy dt n data :
  forallb is_dz data = true -> n <= zlen data ->
  to_nparr (MC (Numpy dt [n] data)) = Ok (Some (dt_isbool dt, ([n], map (leaf_z dt) (take n data)))).
Proof.
  intros Hd Hn. unfold to_nparr, deregulate. cbn [reg_chain bind prodZ fold_right].
  replace (n * 1) with n by lia. destruct (zlen data <? n) eqn:E; [lia|].
  rewrite datum_z_all by (unfold take; now apply forallb_firstn). cbn [bind]. rewrite map_map. reflexivity.
Qed.

(* ------------------------------------------------------------------ the leaves: NumPy on two 1-d buffers of equal length *)
Definition rows2 (t1 t2 : ty) (vs1 vs2 : list value) : list (list sarg) :=
  map (fun xy : value * value => [(t1, fst xy); (t2, snd xy)]) (zip vs1 vs2).

Lemma mapM_iota_zip {A B C} (g : Z -> res C) (h : A * B -> C) (l : list A) (m : list B) n :
  zlen l = n -> zlen m = n ->
  (forall i x y, get l i = Ok x -> get m i = Ok y -> g i = Ok (h (x, y))) ->
  mapM g (iota n) = Ok (map h (zip l m)).
Proof.
  intros Hl Hm Hg. pose proof (zlen_nonneg l) as Hn.
  destruct (mapM_total g (iota n)) as [ys Hys].
  { intros i Hi. apply iota_In' in Hi.
    destruct (get_ok l i ltac:(lia)) as [x Hx]. destruct (get_ok m i ltac:(lia)) as [y Hy]. eauto. }
  rewrite Hys. f_equal. apply get_ext.
  - rewrite (mapM_zlen _ _ _ Hys), zlen_iota, zlen_map, zlen_zip by lia. lia.
  - intros i Hi. rewrite (mapM_zlen _ _ _ Hys), zlen_iota in Hi by lia.
    rewrite (mapM_get _ _ _ i Hys), get_iota by lia. cbn [bind]. rewrite get_map, get_zip.
    destruct (get_ok l i ltac:(lia)) as [x Hx]. destruct (get_ok m i ltac:(lia)) as [y Hy].
    rewrite Hx, Hy. cbn. now apply Hg.
Qed.

Lemma nd_apply_1d op b1 b2 zs1 zs2 n :
  zlen zs1 = n -> zlen zs2 = n ->
  nd_apply op [(b1, ([n], zs1)); (b2, ([n], zs2))] =
  Ok (Numpy (if lk op [b1; b2] then DBool else DInt64) [n]
        (map (fun xy : Z * Z => DZ (lf op [b1; b2] [fst xy; snd xy])) (zip zs1 zs2))).
Proof.
  intros H1 H2. pose proof (zlen_nonneg zs1) as Hn. unfold nd_apply.
  cbn [map fst snd length fold_right Nat.max pad_shape Nat.sub repeat app].
  change (transpose 1 [[n]; [n]]) with [[n; n]]. cbn [mapM].
  assert (Hd : dim_target [n; n] = Ok n).
  { unfold dim_target. cbn [filter]. destruct (n =? 1) eqn:E; cbn [negb]; [f_equal; lia|].
    cbn [forallb]. now rewrite Z.eqb_refl. }
  rewrite Hd. cbn [bind multi]. 
  assert (Hm : flat_map (fun i : Z => map (cons i) [[]]) (iota n) = map (fun i => [i]) (iota n)).
  { induction (iota n) as [|i l IH]; [reflexivity|]. cbn [flat_map map app]. f_equal; try exact IH. }
  rewrite Hm, mapM_map.
  rewrite (mapM_iota_zip _ (fun xy : Z * Z => DZ (lf op [b1; b2] [fst xy; snd xy])) zs1 zs2 n H1 H2); [reflexivity|].
  intros i x y Hx Hy. cbn [zip mapM fst snd flat_ix].
  pose proof (get_range _ _ _ Hx) as Hi.
  assert (Hix : 0 * n + (if n =? 1 then 0 else i) = i) by (destruct (n =? 1) eqn:E; lia).
  rewrite Hix, Hx, Hy. reflexivity.
Qed.

Lemma leaf_value_zb dt d : is_dz d = true -> leaf_zb (TNum dt, leaf dt d) = Ok (dt_isbool dt, leaf_z dt d).
Proof. destruct d; try discriminate. intros _. unfold leaf_zb, leaf, leaf_z. cbn [snd undz]. destruct dt; cbn; try reflexivity; now destruct (z =? 0). Qed.

Lemma spec_leaf_row op ar fuel dt1 dt2 d1 d2 :
  is_dz d1 = true -> is_dz d2 = true ->
  spec_v op ar (S fuel) [(TNum dt1, leaf dt1 d1); (TNum dt2, leaf dt2 d2)] =
  Ok (mk_leaf (lk op [dt_isbool dt1; dt_isbool dt2]) (lf op [dt_isbool dt1; dt_isbool dt2] [leaf_z dt1 d1; leaf_z dt2 d2])).
Proof.
  intros H1 H2. rewrite spec_v_S. cbv zeta. unfold rpad. cbn [map fst]. unfold rpad_cond. cbn [existsb is_listT orb andb].
  cbn [map fst existsb badT is_optT is_listT is_recT orb mapM].
  rewrite (leaf_value_zb dt1 d1 H1), (leaf_value_zb dt2 d2 H2). reflexivity.
Qed.

Lemma to_list_numpy1 dt n data vs :
  to_list (Numpy dt [n] data) = Ok vs -> 0 <= n /\ n <= zlen data /\ vs = map (leaf dt) (take n data).
Proof.
  intros H. apply to_list_Numpy_inv in H as (n' & dims & E & Hs & Hd & Hn). inversion E; subst n' dims.
  cbn [prodZ fold_right] in *. replace (n * 1) with n in * by lia. cbn [nest] in Hn. inversion Hn.
  inversion Hs; subst. repeat split; auto.
Qed.
Lemma to_list_numpy1_ok dt n data : 0 <= n -> n <= zlen data -> to_list (Numpy dt [n] data) = Ok (map (leaf dt) (take n data)).
Proof.
  intros H0 Hn. rewrite to_list_Numpy. cbn [existsb prodZ fold_right]. destruct (n <? 0) eqn:E; [lia|]. cbn [orb].
  replace (n * 1) with n by lia. destruct (zlen data <? n) eqn:E2; [lia|]. reflexivity.
Qed.

(* the whole leaf step: model result, its value, and the specification's value *)
Lemma leaf_case op rec fuel dt1 dt2 n1 n2 d1 d2 vs1 vs2 :
  jag (Numpy dt1 [n1] d1) = true -> jag (Numpy dt2 [n2] d2) = true ->
  to_list (Numpy dt1 [n1] d1) = Ok vs1 -> to_list (Numpy dt2 [n2] d2) = Ok vs2 -> zlen vs1 = zlen vs2 ->
  exists out, dispatch op None rec [MC (Numpy dt1 [n1] d1); MC (Numpy dt2 [n2] d2)] = Ok out /\
              jag out = true /\ is_option_node out = false /\
              exists ys, to_list out = Ok ys /\
                         mapM (spec_v op false (S fuel))
                              (rows2 (type_of (Numpy dt1 [n1] d1)) (type_of (Numpy dt2 [n2] d2)) vs1 vs2) = Ok ys.
Proof.
  intros Hj1 Hj2 Hl1 Hl2 Hz.
  pose proof (to_list_len _ _ Hl1) as Hc1. pose proof (to_list_len _ _ Hl2) as Hc2. cbn [clen] in Hc1, Hc2.
  assert (E : n2 = n1) by lia. rewrite E in *. clear E Hc1 Hc2 Hz. rename n1 into n.
  set (c1 := Numpy dt1 [n] d1) in *. set (c2 := Numpy dt2 [n] d2) in *.
  destruct (to_list_numpy1 _ _ _ _ Hl1) as (Hn0 & Hd1 & ->). destruct (to_list_numpy1 _ _ _ _ Hl2) as (_ & Hd2 & ->).
  cbn [jag c1 c2] in Hj1, Hj2.
  set (t1 := take n d1) in *. set (t2 := take n d2) in *.
  assert (Ht1 : zlen t1 = n) by (unfold t1; apply zlen_take; lia).
  assert (Ht2 : zlen t2 = n) by (unfold t2; apply zlen_take; lia).
  set (ks := [dt_isbool dt1; dt_isbool dt2]).
  set (outd := map (fun xy : datum * datum => DZ (lf op ks [leaf_z dt1 (fst xy); leaf_z dt2 (snd xy)])) (zip t1 t2)).
  set (rdt := if lk op ks then DBool else DInt64).
  exists (Numpy rdt [n] outd).
  assert (Hzo : zlen outd = n) by (unfold outd; rewrite zlen_map, zlen_zip; lia).
  split; [|split; [|split; [reflexivity|]]].
  - unfold dispatch. cbn [contents_of flat_map app]. pose proof (jag_rcond c1 c2 Hj1 Hj2) as Hr. cbv zeta in Hr. cbv zeta. rewrite Hr.
    unfold checklength, all_eq. cbn [map clen c1 c2 forallb]. rewrite Z.eqb_refl. cbn [andb negb].
    unfold getfunction. cbn [mapM]. unfold c1, c2.
    rewrite (to_nparr_jag_numpy dt1 n d1 Hj1 Hd1), (to_nparr_jag_numpy dt2 n d2 Hj2 Hd2). cbn [bind all_somes].
    fold t1 t2. rewrite nd_apply_1d by (rewrite zlen_map; assumption). cbn [rmap bind].
    do 3 f_equal. unfold outd. rewrite zip_map, map_map. reflexivity.
  - cbn [jag]. unfold outd. apply forallb_forall. intros x Hx. apply in_map_iff in Hx as (xy & <- & _). reflexivity.
  - assert (Hto : to_list (Numpy rdt [n] outd) = Ok (map (leaf rdt) outd)).
    { rewrite to_list_numpy1_ok by lia. now rewrite take_all by lia. }
    exists (map (leaf rdt) outd). split; [exact Hto|]. clear Hto.
    unfold rows2. cbn [type_of type_of_p c1 c2 tl numpy_ty]. rewrite zip_map, map_map, mapM_map.
    unfold outd. rewrite map_map.
    rewrite (mapM_ext_in _ (fun xy : datum * datum =>
                              Ok (leaf rdt (DZ (lf op ks [leaf_z dt1 (fst xy); leaf_z dt2 (snd xy)]))))).
    + apply mapM_pure.
    + intros [x y] Hin. cbn [fst snd].
      apply zip_In in Hin as [Hx Hy].
      assert (Hdx : is_dz x = true) by (rewrite forallb_forall in Hj1; apply Hj1; unfold t1, take in Hx; eapply firstn_In'; eassumption).
      assert (Hdy : is_dz y = true) by (rewrite forallb_forall in Hj2; apply Hj2; unfold t2, take in Hy; eapply firstn_In'; eassumption).
      rewrite (spec_leaf_row op false fuel dt1 dt2 x y Hdx Hdy). f_equal. fold ks.
      unfold mk_leaf, leaf, rdt. destruct (lk op ks); reflexivity.
Qed.

(* ------------------------------------------------------------------ types and values of the fragment *)
Fixpoint jagT (t : ty) : bool :=
  match t with
  | TNum _ => true
  | TList None None t' => jagT t'
  | TOpt t' => jagT t' && negb (is_optT t')
  | _ => false
  end.
Lemma type_of_jag c : jag c = true -> jagT (type_of c) = true /\ is_optT (type_of c) = is_option_node c /\
                                       is_listT (type_of c) = is_list_node c.
Proof.
  unfold type_of.
  induction c as [dt shape data| |w o c IHc|w s e c IHc|c size zl IHc|w ix c IHc|w ix c IHc|m vw c IHc
                 |m vw lsb n c IHc|c IHc|w t ix cs IHcs|cs ks n IHcs|arr rn c IHc] using content_ind';
    try discriminate; cbn [jag type_of_p strflag].
  - destruct shape as [|n [|d ds]]; try discriminate. intros _. cbn. auto.
  - intros H. destruct (IHc H) as (H1 & _ & _). cbn [jagT is_optT is_listT is_option_node is_list_node]. auto.
  - intros H. destruct (IHc H) as (H1 & _ & _). cbn [jagT is_optT is_listT is_option_node is_list_node]. auto.
  - intros H. apply andb_prop in H as [Hj Hn]. destruct (IHc Hj) as (H1 & H2 & _).
    cbn [jagT is_optT is_listT is_option_node is_list_node]. rewrite H1, H2, Hn. auto.
Qed.

Lemma jagT_rpad t1 t2 : jagT t1 = true -> jagT t2 = true -> rpad_cond [t1; t2] = false.
Proof.
  intros H1 H2. unfold rpad_cond. cbn [existsb forallb].
  assert (P : forall t, jagT t = true -> is_listT t = true -> pure_reg t = false).
  { intros t Ht Hl. destruct t as [| |[z|] [b|] t0| | |]; try discriminate; reflexivity. }
  destruct (is_listT t1) eqn:L1; [rewrite (P t1 H1 L1); cbn; reflexivity|].
  destruct (is_listT t2) eqn:L2; [rewrite (P t2 H2 L2); cbn; now rewrite andb_false_r|]. reflexivity.
Qed.
Lemma jagT_notbad t : jagT t = true -> badT t = false.
Proof. destruct t as [| |[z|] [b|] t0| | |]; try discriminate; reflexivity. Qed.

(* values of a non-option node are never None *)
Lemma jag_nonopt_values c vs :
  jag c = true -> is_option_node c = false -> to_list c = Ok vs -> Forall (fun v => is_none v = false) vs.
Proof.
  intros Hj Ho Hl.
  destruct c as [dt shape data| |w o c'|w s e c'|c' size zl|w ix0 c'|w ix0 c'|m vw c'|m vw lsb n c'|c'|w t ix0 cs|cs ks n|arr rn c'];
    try discriminate.
  - destruct shape as [|n [|d ds]]; try discriminate. destruct (to_list_numpy1 _ _ _ _ Hl) as (_ & _ & ->).
    apply Forall_forall. intros v Hv. apply in_map_iff in Hv as (d & <- & _). unfold leaf. destruct dt; try reflexivity. now destruct d.
  - rewrite to_list_ListOffset in Hl. apply bind_Ok in Hl as (vs0 & _ & Hl). apply rmap_Ok in Hl as (ls & _ & ->).
    apply Forall_forall. intros v Hv. apply in_map_iff in Hv as (l & <- & _). reflexivity.
  - rewrite to_list_ListA in Hl. apply bind_Ok in Hl as (vs0 & _ & Hl). apply rmap_Ok in Hl as (ls & _ & ->).
    apply Forall_forall. intros v Hv. apply in_map_iff in Hv as (l & <- & _). reflexivity.
Qed.

(* ------------------------------------------------------------------ masks *)
Fixpoint scatter (mask : list bool) (xs : list value) : list value :=
  match mask with
  | [] => []
  | true :: m => VNone :: scatter m xs
  | false :: m => match xs with x :: r => x :: scatter m r | [] => [] end
  end.
Definition nfalse (mask : list bool) : Z := zlen (filter negb mask).

Lemma kept_cons {A} (x : A) l b m : kept (x :: l) (b :: m) = (if b then [] else [x]) ++ kept l m.
Proof. reflexivity. Qed.
Lemma kept_nil_l {A} m : @kept A [] m = [].
Proof. reflexivity. Qed.
Lemma zlen_kept {A} (l : list A) : forall m, length m = length l -> zlen (kept l m) = nfalse m.
Proof.
  unfold nfalse. induction l as [|x l IH]; intros [|b m] H; try discriminate; [reflexivity|].
  rewrite kept_cons. cbn [filter]. destruct b; cbn [negb app]; [apply IH; cbn in H; lia|].
  rewrite !zlen_cons. rewrite IH by (cbn in H; lia). reflexivity.
Qed.
Lemma kept_map {A B} (f : A -> B) l : forall m, kept (map f l) m = map f (kept l m).
Proof.
  induction l as [|x l IH]; intros [|b m]; try reflexivity. cbn [map]. rewrite !kept_cons, IH, map_app.
  now destruct b.
Qed.
Lemma kept_zip {A B} (l : list A) : forall (l' : list B) m, kept (zip l l') m = zip (kept l m) (kept l' m).
Proof.
  induction l as [|x l IH]; intros [|y l'] [|b m]; try reflexivity.
  - cbn [zip]. rewrite kept_nil_l. now destruct (kept (x :: l) (b :: m)).
  - cbn [zip]. rewrite !kept_cons, IH. now destruct b.
Qed.

Lemma or_masks_length a : forall b, length a = length b -> length (or_masks a b) = length a.
Proof. induction a as [|x a IH]; intros [|y b] H; try discriminate; [reflexivity|]. cbn. f_equal. apply IH. cbn in H. lia. Qed.
Lemma or_masks_false_r a : forall b, length a = length b -> forallb negb b = true -> or_masks a b = a.
Proof.
  induction a as [|x a IH]; intros [|y b] H Hb; try discriminate; [reflexivity|]. cbn in *.
  apply andb_prop in Hb as [Hy Hb]. destruct y; [discriminate|]. rewrite orb_false_r. f_equal. apply IH; [lia|exact Hb].
Qed.
Lemma or_masks_false_l a : forall b, length a = length b -> forallb negb a = true -> or_masks a b = b.
Proof.
  induction a as [|x a IH]; intros [|y b] H Ha; try discriminate; [reflexivity|]. cbn in *.
  apply andb_prop in Ha as [Hx Ha]. destruct x; [discriminate|]. cbn. f_equal. apply IH; [lia|exact Ha].
Qed.

(* the index that puts the results back under the mask *)
Lemma count_index_scatter outvs : forall mask pre,
  nfalse mask = zlen outvs ->
  mapM (fun i => pick_opt (pre ++ outvs) (0 <=? i) i) (count_index (zlen pre) mask) = Ok (scatter mask outvs).
Proof.
  unfold nfalse. induction outvs as [|x outvs IH].
  - induction mask as [|b mask IHm]; intros pre H; [reflexivity|]. destruct b.
    + cbn [count_index mapM scatter]. cbn [filter negb] in H. unfold pick_opt at 1. cbn. rewrite (IHm pre H). reflexivity.
    + cbn [filter negb] in H. rewrite zlen_cons, zlen_nil in H. pose proof (zlen_nonneg (filter negb mask)). lia.
  - induction mask as [|b mask IHm]; intros pre H.
    + cbn [filter] in H. rewrite zlen_cons, zlen_nil in H. pose proof (zlen_nonneg outvs). lia.
    + destruct b.
      * cbn [count_index mapM scatter]. cbn [filter negb] in H. unfold pick_opt at 1. cbn. rewrite (IHm pre H). reflexivity.
      * cbn [count_index mapM scatter]. cbn [filter negb] in H. rewrite !zlen_cons in H.
        pose proof (zlen_nonneg pre). unfold pick_opt at 1. destruct (0 <=? zlen pre) eqn:E; [|lia].
        rewrite get_app2 by lia. replace (zlen pre - zlen pre) with 0 by lia. cbn [get bind]. rewrite get_cons_0. cbn [bind].
        specialize (IH mask (pre ++ [x])).
        assert (Hz : zlen (pre ++ [x]) = zlen pre + 1) by (rewrite zlen_app, zlen_cons, zlen_nil; lia).
        assert (Ha : (pre ++ [x]) ++ outvs = pre ++ x :: outvs) by (rewrite <- app_assoc; reflexivity).
        rewrite Hz, Ha in IH. rewrite IH by lia. reflexivity.
Qed.

(* rows with a missing value give None, the others are looked at without their options *)
Lemma mapM_scatter {A} (g h : A -> res value) (isn : A -> bool) rows :
  (forall r, In r rows -> g r = if isn r then Ok VNone else h r) ->
  match mapM h (kept rows (map isn rows)) with
  | Ok ys => mapM g rows = Ok (scatter (map isn rows) ys)
  | Err e => mapM g rows = Err e
  end.
Proof.
  induction rows as [|r rows IH]; intros Hg; [reflexivity|].
  cbn [map]. rewrite kept_cons. pose proof (Hg r (or_introl eq_refl)) as Hr.
  assert (Hg' : forall r0, In r0 rows -> g r0 = if isn r0 then Ok VNone else h r0) by (intros; apply Hg; now right).
  specialize (IH Hg'). destruct (isn r) eqn:E.
  - cbn [app]. destruct (mapM h (kept rows (map isn rows))) as [ys|e].
    + rewrite mapM_cons, Hr. cbn [bind]. rewrite IH. reflexivity.
    + rewrite mapM_cons, Hr. cbn [bind]. rewrite IH. reflexivity.
  - cbn [app]. rewrite (mapM_cons h). destruct (h r) as [y|e] eqn:Ehr; cbn [bind].
    + destruct (mapM h (kept rows (map isn rows))) as [ys|e]; cbn [bind].
      * rewrite mapM_cons, Hr. cbn [bind]. rewrite IH. reflexivity.
      * rewrite mapM_cons, Hr. cbn [bind]. rewrite IH. reflexivity.
    + rewrite mapM_cons, Hr. reflexivity.
Qed.

(* ------------------------------------------------------------------ the option step, one input at a time *)
Definition opt_proj (mask : list bool) (c : content) : res content :=
  if is_option_node c then do oi <- option_index c; ccarry (snd oi) (kept (fst oi) mask)
  else ccarry c (kept (iota (zlen mask)) mask).
Definition normix (i : Z) : Z := if i <? 0 then -1 else i.

Lemma pick_kept vs' : forall idx vs mask,
  mapM (fun i => pick_opt vs' (0 <=? i) i) idx = Ok vs ->
  Forall2 (fun (v : value) (b : bool) => is_none v = true -> b = true) vs mask ->
  Forall (fun v => is_none v = false) vs' ->
  mapM (get vs') (kept (map normix idx) mask) = Ok (kept vs mask) /\
  Forall (fun i => 0 <= i < zlen vs') (kept (map normix idx) mask).
Proof.
  induction idx as [|i idx IH]; intros vs mask Hm Hsub Hnn.
  - cbn in Hm. inversion Hm; subst. inversion Hsub; subst. split; [reflexivity|constructor].
  - rewrite mapM_cons in Hm. apply bind_Ok in Hm as (v & Hv & Hm). apply bind_Ok in Hm as (vs0 & Hvs & Hm). inversion Hm; subst.
    inversion Hsub as [|? b ? mask' Hb Hsub']; subst. destruct (IH _ _ Hvs Hsub' Hnn) as [IH1 IH2].
    cbn [map]. rewrite !kept_cons. destruct b; cbn [app]; [split; assumption|].
    unfold pick_opt in Hv. destruct (0 <=? i) eqn:E.
    + assert (Hni : normix i = i) by (unfold normix; destruct (i <? 0) eqn:E2; lia). rewrite Hni.
      rewrite mapM_cons, Hv. cbn [bind]. rewrite IH1. split; [reflexivity|].
      constructor; [|exact IH2]. apply get_range in Hv. exact Hv.
    + inversion Hv; subst v. specialize (Hb eq_refl). discriminate.
Qed.

Lemma own_mask vs' : forall idx vs,
  mapM (fun i => pick_opt vs' (0 <=? i) i) idx = Ok vs -> Forall (fun v => is_none v = false) vs' ->
  map (fun i => normix i <? 0) idx = map is_none vs.
Proof.
  induction idx as [|i idx IH]; intros vs Hm Hnn.
  - cbn in Hm. now inversion Hm.
  - rewrite mapM_cons in Hm. apply bind_Ok in Hm as (v & Hv & Hm). apply bind_Ok in Hm as (vs0 & Hvs & Hm). inversion Hm; subst.
    cbn [map]. rewrite (IH _ Hvs Hnn). f_equal. unfold pick_opt in Hv. unfold normix. destruct (0 <=? i) eqn:E.
    + destruct (i <? 0) eqn:E2; [lia|]. rewrite Forall_forall in Hnn.
      assert (In v vs') by (unfold get in Hv; destruct (i <? 0); [discriminate|]; destruct (nth_error vs' (Z.to_nat i)) eqn:En; [|discriminate]; inversion Hv; subst; eapply nth_error_In; eassumption).
      rewrite (Hnn v H). lia.
    + inversion Hv; subst. destruct (i <? 0) eqn:E2; [reflexivity|lia].
Qed.

Lemma bytemask_jag w idx c' vs :
  jag (IndexedOption w idx c') = true -> to_list (IndexedOption w idx c') = Ok vs ->
  bytemask_of (IndexedOption w idx c') = Ok (map is_none vs).
Proof.
  intros Hj Hl. cbn [jag] in Hj. apply andb_prop in Hj as [Hj Ho]. apply negb_true_iff in Ho.
  rewrite to_list_IndexedOption in Hl. apply bind_Ok in Hl as (vs' & Hl' & Hl).
  pose proof (jag_nonopt_values _ _ Hj Ho Hl') as Hnn.
  unfold bytemask_of, option_index. cbn [bind fst]. rewrite map_map. f_equal. apply (own_mask vs' idx vs Hl Hnn).
Qed.

Lemma gather_kept_iota {A} (l : list A) : forall (mask : list bool) (pre : list A),
  length mask = length l ->
  mapM (get (pre ++ l)) (kept (iota_nat (zlen pre) (length l)) mask) = Ok (kept l mask).
Proof.
  induction l as [|x l IH]; intros [|b mask] pre H; try discriminate; [reflexivity|].
  cbn [length iota_nat]. rewrite !kept_cons.
  assert (Hz : zlen (pre ++ [x]) = zlen pre + 1) by (rewrite zlen_app, zlen_cons, zlen_nil; lia).
  assert (Ha : (pre ++ [x]) ++ l = pre ++ x :: l) by (rewrite <- app_assoc; reflexivity).
  specialize (IH mask (pre ++ [x]) ltac:(cbn in H; lia)). rewrite Hz, Ha in IH.
  destruct b; cbn [app]; [exact IH|].
  rewrite mapM_cons. pose proof (zlen_nonneg pre). rewrite get_app2 by lia. replace (zlen pre - zlen pre) with 0 by lia.
  rewrite get_cons_0. cbn [bind]. rewrite IH. reflexivity.
Qed.

Lemma kept_in {A} (x : A) l : forall m, In x (kept l m) -> In x l.
Proof.
  induction l as [|y l IH]; intros [|b m] H; try contradiction. rewrite kept_cons in H.
  apply in_app_or in H as [H|H]; [destruct b; [contradiction|]; destruct H; [now left|contradiction]|right; eapply IH; eassumption].
Qed.

(* what the option step hands down for ONE input: the elements at the positions that are present in all inputs *)
Lemma opt_next c vs mask :
  jag c = true -> to_list c = Ok vs ->
  Forall2 (fun (v : value) (b : bool) => is_none v = true -> b = true) vs mask ->
  exists next, opt_proj mask c = Ok next /\ jag next = true /\ is_option_node next = false /\
               to_list next = Ok (kept vs mask) /\ type_of next = strip_opt_t (type_of c) /\
               (csize next <= csize c)%nat /\ (is_option_node c = true -> (csize next < csize c)%nat).
Proof.
  intros Hj Hl Hsub. unfold opt_proj. pose proof (to_list_len _ _ Hl) as Hlen.
  assert (Hml : length mask = length vs) by (clear -Hsub; induction Hsub; cbn; congruence).
  destruct (is_option_node c) eqn:Ho.
  - destruct c as [dt shape data| |w o c'|w s e c'|c' size zl|w ix0 c'|w ix0 c'|m vw c'|m vw lsb n c'|c'|w t ix0 cs|cs ks n|arr rn c'];
      try discriminate.
    cbn [option_index bind fst snd]. pose proof Hj as Hj0. cbn [jag] in Hj. apply andb_prop in Hj as [Hj Hno]. apply negb_true_iff in Hno.
    rewrite to_list_IndexedOption in Hl. apply bind_Ok in Hl as (vs' & Hl' & Hl).
    pose proof (jag_nonopt_values _ _ Hj Hno Hl') as Hnn.
    destruct (pick_kept vs' ix0 vs mask Hl Hsub Hnn) as [Hg Hr].
    change (map (fun i : Z => if i <? 0 then -1 else i) ix0) with (map normix ix0).
    destruct (ccarry_jag c' vs' (kept (map normix ix0) mask) Hj Hl') as (next & Hc & Hjn & Hln & Htn & Hsn & _ & Hon & _ & _).
    { rewrite <- (to_list_len _ _ Hl'). exact Hr. }
    exists next. rewrite Hc. split; [reflexivity|]. split; [exact Hjn|]. split; [congruence|]. split; [now rewrite Hln|].
    split; [unfold type_of in *; cbn [type_of_p strip_opt_t]; exact Htn|]. split; [cbn [csize]; lia|intros _; cbn [csize]; lia].
  - destruct (ccarry_jag c vs (kept (iota (zlen mask)) mask) Hj Hl) as (next & Hc & Hjn & Hln & Htn & Hsn & _ & Hon & _ & _).
    { apply Forall_forall. intros i Hi. apply kept_in in Hi. apply iota_In' in Hi. unfold zlen in *. lia. }
    exists next. rewrite Hc. split; [reflexivity|]. split; [exact Hjn|]. split; [congruence|]. split; [|split; [|split; [lia|discriminate]]].
    + rewrite Hln. unfold iota. replace (Z.to_nat (zlen mask)) with (length vs) by (unfold zlen; lia).
      exact (gather_kept_iota vs mask [] Hml).
    + rewrite Htn. destruct (type_of_jag c Hj) as (_ & Ht & _). rewrite Ho in Ht.
      destruct (type_of c); try reflexivity. discriminate.
Qed.

