Json.vo Json.glob Json.v.beautified Json.required_vo: Json.v /verif/coq/Base.vo
Json.vio: Json.v /verif/coq/Base.vio
Json.vos Json.vok Json.required_vos: Json.v /verif/coq/Base.vos
Forms.vo Forms.glob Forms.v.beautified Forms.required_vo: Forms.v /verif/coq/Base.vo /verif/coq/Layout.vo /verif/coq/Valid.vo /verif/coq/Types.vo Json.vo
Forms.vio: Forms.v /verif/coq/Base.vio /verif/coq/Layout.vio /verif/coq/Valid.vio /verif/coq/Types.vio Json.vio
Forms.vos Forms.vok Forms.required_vos: Forms.v /verif/coq/Base.vos /verif/coq/Layout.vos /verif/coq/Valid.vos /verif/coq/Types.vos Json.vos
TypeStr.vo TypeStr.glob TypeStr.v.beautified TypeStr.required_vo: TypeStr.v /verif/coq/Base.vo /verif/coq/Layout.vo /verif/coq/Valid.vo /verif/coq/Types.vo Json.vo Forms.vo
TypeStr.vio: TypeStr.v /verif/coq/Base.vio /verif/coq/Layout.vio /verif/coq/Valid.vio /verif/coq/Types.vio Json.vio Forms.vio
TypeStr.vos TypeStr.vok TypeStr.required_vos: TypeStr.v /verif/coq/Base.vos /verif/coq/Layout.vos /verif/coq/Valid.vos /verif/coq/Types.vos Json.vos Forms.vos
Typing.vo Typing.glob Typing.v.beautified Typing.required_vo: Typing.v /verif/coq/Base.vo /verif/coq/Layout.vo /verif/coq/Valid.vo /verif/coq/Types.vo Json.vo Forms.vo
Typing.vio: Typing.v /verif/coq/Base.vio /verif/coq/Layout.vio /verif/coq/Valid.vio /verif/coq/Types.vio Json.vio Forms.vio
Typing.vos Typing.vok Typing.required_vos: Typing.v /verif/coq/Base.vos /verif/coq/Layout.vos /verif/coq/Valid.vos /verif/coq/Types.vos Json.vos Forms.vos
Proofs_Depth.vo Proofs_Depth.glob Proofs_Depth.v.beautified Proofs_Depth.required_vo: Proofs_Depth.v /verif/coq/Base.vo /verif/coq/Layout.vo /verif/coq/LayoutInd.vo /verif/coq/Valid.vo /verif/coq/Types.vo Json.vo Forms.vo
Proofs_Depth.vio: Proofs_Depth.v /verif/coq/Base.vio /verif/coq/Layout.vio /verif/coq/LayoutInd.vio /verif/coq/Valid.vio /verif/coq/Types.vio Json.vio Forms.vio
Proofs_Depth.vos Proofs_Depth.vok Proofs_Depth.required_vos: Proofs_Depth.v /verif/coq/Base.vos /verif/coq/Layout.vos /verif/coq/LayoutInd.vos /verif/coq/Valid.vos /verif/coq/Types.vos Json.vos Forms.vos
Proofs_Types.vo Proofs_Types.glob Proofs_Types.v.beautified Proofs_Types.required_vo: Proofs_Types.v /verif/coq/Base.vo /verif/coq/Layout.vo /verif/coq/LayoutInd.vo /verif/coq/Valid.vo /verif/coq/Types.vo /verif/coq/Carry.vo Json.vo Forms.vo TypeStr.vo Proofs_Depth.vo
Proofs_Types.vio: Proofs_Types.v /verif/coq/Base.vio /verif/coq/Layout.vio /verif/coq/LayoutInd.vio /verif/coq/Valid.vio /verif/coq/Types.vio /verif/coq/Carry.vio Json.vio Forms.vio TypeStr.vio Proofs_Depth.vio
Proofs_Types.vos Proofs_Types.vok Proofs_Types.required_vos: Proofs_Types.v /verif/coq/Base.vos /verif/coq/Layout.vos /verif/coq/LayoutInd.vos /verif/coq/Valid.vos /verif/coq/Types.vos /verif/coq/Carry.vos Json.vos Forms.vos TypeStr.vos Proofs_Depth.vos
Extract_C17.vo Extract_C17.glob Extract_C17.v.beautified Extract_C17.required_vo: Extract_C17.v /verif/coq/Layout.vo /verif/coq/Valid.vo /verif/coq/Types.vo /verif/coq/Carry.vo Json.vo Forms.vo TypeStr.vo Typing.vo
Extract_C17.vio: Extract_C17.v /verif/coq/Layout.vio /verif/coq/Valid.vio /verif/coq/Types.vio /verif/coq/Carry.vio Json.vio Forms.vio TypeStr.vio Typing.vio
Extract_C17.vos Extract_C17.vok Extract_C17.required_vos: Extract_C17.v /verif/coq/Layout.vos /verif/coq/Valid.vos /verif/coq/Types.vos /verif/coq/Carry.vos Json.vos Forms.vos TypeStr.vos Typing.vos
