Forth.vo Forth.glob Forth.v.beautified Forth.required_vo: Forth.v 
Forth.vio: Forth.v 
Forth.vos Forth.vok Forth.required_vos: Forth.v 
Extract_C19.vo Extract_C19.glob Extract_C19.v.beautified Extract_C19.required_vo: Extract_C19.v Forth.vo
Extract_C19.vio: Extract_C19.v Forth.vio
Extract_C19.vos Extract_C19.vok Extract_C19.required_vos: Extract_C19.v Forth.vos
