(** C12 (memory safety half), part 5: part 4 generalised to integer-array items.  Slicing with ALL item kinds
    (integer, range, newaxis, ellipsis, field, fields, integer arrays -- any number, any order) on the wide fragment
    [good] never ends in [Err EOob], provided the integer arrays have one common length L ([arrays_len L items]:
    the arrays are given as already broadcast, which the C++ ensures in Slice::become_sealed; without it the
    statement is false, Proofs_Safety4.getitem_unbroadcast_arrays_refuted).
    The invariant of the "advanced" index handed from one array item to the next ([adv_ok]): one entry per element
    of the current node, each a position in the index arrays. *)
From Coq Require Import ZArith List Bool Lia ZifyBool.
From AwkV Require Import Base Layout LayoutInd Valid Types AtAxis Carry Ops_Struct Ops_Getitem Ops_Fields
                         Typing Proofs_Typing Proofs_C11 Proofs_C01 Proofs_Lists Proofs_ToList Proofs_Carry Proofs_CarryValid
                         Proofs_AtAxis Proofs_AtAxisOps Proofs_C12 Proofs_Closure Proofs_Closure2 Proofs_Closure6
                         Proofs_Safety Proofs_Safety2 Proofs_Safety4.
Import ListNotations.
Open Scope Z_scope.

Definition arr_len (L : Z) (it : item) : bool := match it with IArray ix => zlen ix =? L | _ => true end.
Definition arrays_len (L : Z) (items : list item) : bool := forallb (arr_len L) items.

Definition adv_ok (L : Z) (adv : option (list Z)) (n : Z) : Prop :=
  match adv with None => True | Some av => zlen av = n /\ Forall (fun a => 0 <= a < L) av end.

(* ---------------------------------------------------------------- lengths of the transformed advanced index *)
Lemma adv_range_ok L adv (picked : list (list Z)) :
  adv_ok L adv (zlen picked) -> adv_ok L (adv_range adv (map zlen picked)) (zlen (concat picked)).
Proof.
  destruct adv as [av|]; [|intros _; exact I]. cbn [adv_ok adv_range]. intros [Hn Hav]. revert av Hn Hav.
  induction picked as [|l ls IH]; intros av Hn Hav.
  - destruct av; [|rewrite zlen_cons, zlen_nil in Hn; pose proof (zlen_nonneg av); lia]. split; [reflexivity|constructor].
  - destruct av as [|a av']; [rewrite zlen_cons, zlen_nil in Hn; pose proof (zlen_nonneg ls); lia|].
    rewrite !zlen_cons in Hn. inversion Hav as [|? ? Ha Hav']; subst.
    destruct (IH av' ltac:(lia) Hav') as [E F]. cbn [map zip concat fst snd]. split.
    + rewrite !zlen_app, E, zlen_repeat, Z2Nat.id by apply zlen_nonneg. reflexivity.
    + apply Forall_app. split; [|exact F]. apply Forall_forall. intros x Hx. apply repeat_spec in Hx. subst x. exact Ha.
Qed.

Lemma adv_present_ok L adv ix :
  adv_ok L adv (zlen ix) -> adv_ok L (adv_present adv ix) (zlen (filter (fun i => 0 <=? i) ix)).
Proof.
  destruct adv as [av|]; [|intros _; exact I]. cbn [adv_ok adv_present]. intros [Hn Hav]. revert av Hn Hav.
  induction ix as [|i ix' IH]; intros av Hn Hav.
  - destruct av; [|rewrite zlen_cons, zlen_nil in Hn; pose proof (zlen_nonneg av); lia]. split; [reflexivity|constructor].
  - destruct av as [|a av']; [rewrite zlen_cons, zlen_nil in Hn; pose proof (zlen_nonneg ix'); lia|].
    rewrite !zlen_cons in Hn. inversion Hav as [|? ? Ha Hav']; subst.
    destruct (IH av' ltac:(lia) Hav') as [E F]. cbn [zip flat_map filter fst snd]. destruct (0 <=? i).
    + cbn [app]. rewrite !zlen_cons, E. split; [reflexivity|constructor; assumption].
    + cbn [app]. split; assumption.
Qed.

Lemma adv_new_ok (ix : list Z) (bs : list (Z * Z)) :
  adv_ok (zlen ix) (Some (concat (map (fun _ => iota (zlen ix)) bs))) (zlen bs * zlen ix).
Proof.
  cbn [adv_ok]. pose proof (zlen_nonneg ix) as Hn. split.
  - rewrite (zlen_concat_const _ (zlen ix)); [rewrite zlen_map; reflexivity|].
    apply Forall_forall. intros l Hl. apply in_map_iff in Hl as (ab & <- & _). apply zlen_iota, Hn.
  - apply Forall_forall. intros a Ha. apply in_concat in Ha as (l & Hl & Ha). apply in_map_iff in Hl as (ab & <- & _).
    apply iota_In' in Ha. exact Ha.
Qed.

Lemma arrays_len_cons L it items : arrays_len L (it :: items) = true -> arr_len L it = true /\ arrays_len L items = true.
Proof. unfold arrays_len. cbn [forallb]. apply andb_true_iff. Qed.

Section Step.
  Variable L : Z.
  Variable f : nat.
  Hypothesis IH : forall c items adv, good c -> arrays_len L items = true -> adv_ok L adv (clen c) -> nb (gn f c items adv).

  Lemma list_facts c bs cc : good c -> list_bounds c = Ok (bs, cc) ->
    good cc /\ zlen bs = clen c /\ Forall (pair_ok (clen cc)) bs.
  Proof.
    intros Hg Hb. destruct (good_list _ _ _ Hg Hb) as (Hgc & _). pose proof Hg as (HV & _).
    destruct (list_bounds_valid _ _ _ _ HV Hb) as (_ & _ & Hpo & _).
    split; [exact Hgc|]. split; [|exact Hpo]. eapply list_bounds_len; [exact HV|exact Hb|apply good_clen, Hgc].
  Qed.

  Lemma astep_list_IAt c i tail adv : good c -> lnode c = true -> arrays_len L tail = true -> adv_ok L adv (clen c) ->
    nb (gn (S f) c (IAt i :: tail) adv).
  Proof.
    intros Hg Hl Ht Ha. rewrite gn_list_IAt by exact Hl. apply nb_bind; [apply nb_clean, list_bounds_clean|]. intros [bs cc] Hb. cbn [fst snd].
    apply nb_bind; [unfold szchk; destruct (rsize c) as [z|]; [pose proof (wrap_at_nb z i) as W; destruct (wrap_at z i); [exact I|exact W]|exact I]|]. intros _ _.
    apply nb_bind; [apply nb_mapM; intros ab _; pose proof (wrap_at_nb (snd ab - fst ab) i) as W; destruct (wrap_at (snd ab - fst ab) i); [exact I|exact W]|].
    intros nx Hnx. destruct (list_facts _ _ _ Hg Hb) as (Hgc & Hnb & Hpo).
    destruct (carry_good_total cc nx Hgc) as [nc Hnc].
    { apply Forall_forall. intros x Hx. destruct (mapM_In_inv _ _ _ _ Hnx Hx) as (ab & Hab & Hx').
      apply bind_Ok in Hx' as (j & Hj & Hx'). inversion Hx'; subst x. apply wrap_at_in in Hj.
      rewrite Forall_forall in Hpo. specialize (Hpo ab Hab). unfold pair_ok in Hpo. lia. }
    rewrite Hnc. cbn [bind]. destruct (carry_good _ _ _ Hgc Hnc) as (Hgn & Hcn & _).
    apply IH; [exact Hgn|exact Ht|]. rewrite Hcn, (mapM_zlen _ _ _ Hnx), Hnb. exact Ha.
  Qed.

  Lemma astep_list_IRange c s e st tail adv : good c -> lnode c = true -> arrays_len L tail = true -> adv_ok L adv (clen c) ->
    nb (gn (S f) c (IRange s e st :: tail) adv).
  Proof.
    intros Hg Hl Ht Ha. rewrite gn_list_IRange by exact Hl. apply nb_bind; [apply nb_clean, list_bounds_clean|]. intros [bs cc] Hb. cbn [fst snd].
    cbv zeta. destruct (stepof st =? 0) eqn:Est; [exact I|].
    destruct (list_facts _ _ _ Hg Hb) as (Hgc & Hnb & Hpo).
    set (picked := map (fun ab : Z * Z => map (fun j => fst ab + j) (py_indices (snd ab - fst ab) s e (stepof st))) bs).
    destruct (carry_good_total cc (concat picked) Hgc) as [nc Hnc].
    { apply Forall_forall. intros x Hx. apply in_concat in Hx as (l & Hl' & Hx). apply in_map_iff in Hl' as (ab & <- & Hab).
      apply in_map_iff in Hx as (j & <- & Hj). rewrite Forall_forall in Hpo. specialize (Hpo ab Hab). unfold pair_ok in Hpo.
      destruct (Z_le_gt_dec 0 (snd ab - fst ab)) as [Hn|Hn].
      - apply py_indices_in_range in Hj; [lia|exact Hn|lia].
      - lia. }
    rewrite Hnc. cbn [bind]. apply nb_bind; [|intros; exact I]. destruct (carry_good _ _ _ Hgc Hnc) as (Hgn & Hcn & _).
    apply IH; [exact Hgn|exact Ht|]. rewrite Hcn. apply adv_range_ok. unfold picked. rewrite zlen_map, Hnb. exact Ha.
  Qed.

  Lemma astep_list_IArray c ix tail adv : good c -> lnode c = true -> zlen ix = L -> arrays_len L tail = true -> adv_ok L adv (clen c) ->
    nb (gn (S f) c (IArray ix :: tail) adv).
  Proof.
    intros Hg Hl Hix Ht Ha. rewrite gn_list_IArray by exact Hl. apply nb_bind; [apply nb_clean, list_bounds_clean|]. intros [bs cc] Hb. cbn [fst snd].
    apply nb_bind; [destruct (rsize c) as [z|]; [|exact I]; apply nb_clean, clean_rmap, clean_mapM; intros; apply Proofs_Safety.wrap_at_clean|]. intros _ _.
    destruct (list_facts _ _ _ Hg Hb) as (Hgc & Hnb & Hpo).
    destruct adv as [av|].
    - destruct Ha as [Hav Hin]. destruct (negb (zlen av =? zlen bs)) eqn:Ez; [lia|].
      apply nb_bind.
      { apply nb_mapM. intros [ab a] Hx. apply zip_In in Hx as [_ Hx]. rewrite Forall_forall in Hin. specialize (Hin a Hx). cbn [fst snd].
        destruct (get_ok ix a) as [i Hi]; [lia|]. rewrite Hi. cbn [bind].
        pose proof (wrap_at_nb (snd ab - fst ab) i) as W; destruct (wrap_at (snd ab - fst ab) i); [exact I|exact W]. }
      intros nx Hnx. destruct (carry_good_total cc nx Hgc) as [nc Hnc].
      { apply Forall_forall. intros x Hx. destruct (mapM_In_inv _ _ _ _ Hnx Hx) as ([ab a] & Hab & Hx'). cbn [fst snd] in Hx'.
        apply bind_Ok in Hx' as (i & _ & Hx'). apply bind_Ok in Hx' as (j & Hj & Hx'). inversion Hx'; subst x. apply wrap_at_in in Hj.
        apply zip_In in Hab as [Hab _]. rewrite Forall_forall in Hpo. specialize (Hpo ab Hab). unfold pair_ok in Hpo. lia. }
      rewrite Hnc. cbn [bind]. destruct (carry_good _ _ _ Hgc Hnc) as (Hgn & Hcn & _).
      apply IH; [exact Hgn|exact Ht|]. cbn [adv_ok]. split; [|exact Hin]. rewrite Hcn, (mapM_zlen _ _ _ Hnx), zlen_zip. lia.
    - apply nb_bind.
      { apply nb_mapM. intros ab _. apply nb_mapM. intros i _.
        pose proof (wrap_at_nb (snd ab - fst ab) i) as W; destruct (wrap_at (snd ab - fst ab) i); [exact I|exact W]. }
      intros picked Hp. destruct (carry_good_total cc (concat picked) Hgc) as [nc Hnc].
      { apply Forall_forall. intros x Hx. apply in_concat in Hx as (l & Hl' & Hx). destruct (mapM_In_inv _ _ _ _ Hp Hl') as (ab & Hab & Hl'').
        destruct (mapM_In_inv _ _ _ _ Hl'' Hx) as (i & _ & Hx'). apply bind_Ok in Hx' as (j & Hj & Hx'). inversion Hx'; subst x.
        apply wrap_at_in in Hj. rewrite Forall_forall in Hpo. specialize (Hpo ab Hab). unfold pair_ok in Hpo. lia. }
      rewrite Hnc. cbn [bind]. apply nb_bind; [|intros; exact I]. destruct (carry_good _ _ _ Hgc Hnc) as (Hgn & Hcn & _).
      apply IH; [exact Hgn|exact Ht|]. rewrite Hcn.
      assert (Hz : zlen (concat picked) = zlen bs * zlen ix).
      { rewrite (zlen_concat_const picked (zlen ix)); [rewrite (mapM_zlen _ _ _ Hp); reflexivity|].
        apply Forall_forall. intros l Hl'. destruct (mapM_In_inv _ _ _ _ Hp Hl') as (ab & _ & Hab). apply (mapM_zlen _ _ _ Hab). }
      rewrite Hz, <- Hix. apply adv_new_ok.
  Qed.

  Lemma astep_option c head tail adv :
    positional head = true -> is_opt c = true -> good c -> arrays_len L (head :: tail) = true -> adv_ok L adv (clen c) ->
    nb (gn (S f) c (head :: tail) adv).
  Proof.
    intros Hp Hop Hg Ht Ha. rewrite gn_option by assumption. pose proof (good_clen c Hg) as Hcl. destruct Hg as (HV & Hs & Hf).
    apply nb_bind; [apply nb_clean, (option_index_clean _ _ HV)|]. intros [ix c0] Hoi. cbn [fst].
    destruct (option_index_valid _ _ _ HV Hoi) as (HVc & _ & Hn & Hix). pose proof (option_index_len _ _ _ _ HV Hoi Hcl) as Hlen.
    assert (Hc0 : c0 = opt_content c /\ nostr c0 = true /\ nopt c0 = true).
    { unfold nostr in *. destruct c; try discriminate Hop; cbn [option_index] in Hoi; cbn [allnodes kind_of] in Hs; cbn [gi_frag] in Hf;
        apply andb_true_iff in Hs as [_ Hs]; try (apply bind_Ok in Hoi as (? & _ & Hoi)); inversion Hoi; subst; auto. }
    destruct Hc0 as (-> & Hs0 & Ho0).
    assert (Hgc : good (opt_content c)) by (split; [exact HVc|split; [exact Hs0|apply nopt_gi_frag, Ho0]]).
    destruct (carry_good_total (opt_content c) (filter (fun i => 0 <=? i) ix) Hgc) as [p Hpc].
    { apply Forall_forall. intros i Hi. apply filter_In in Hi as [Hi Hpos]. rewrite Forall_forall in Hix. specialize (Hix i Hi). lia. }
    rewrite Hpc. cbn [bind]. apply nb_bind; [|intros; exact I]. destruct (carry_good _ _ _ Hgc Hpc) as (Hgp & Hcp & _).
    apply IH; [exact Hgp|exact Ht|]. rewrite Hcp. apply adv_present_ok. rewrite Hlen. exact Ha.
  Qed.

  Lemma astep_positional c head tail adv :
    positional head = true -> is_nd c = false -> good c -> arrays_len L (head :: tail) = true -> adv_ok L adv (clen c) ->
    nb (gn (S f) c (head :: tail) adv).
  Proof.
    intros Hp Hnd Hg Ht Ha. pose proof Hg as (HV & Hs & Hf). destruct (arrays_len_cons _ _ _ Ht) as [Hh Htl].
    destruct c as [dt sh data| |w o c|w s e c|c size zl|w ix c|w ix c|m vw c|m vw lsb n c|c|w t ix cs|cs ks n|arr rn c].
    - rewrite gn_numpy1; [exact I|exact Hp|]. destruct sh as [|? [|? ?]]; try reflexivity. discriminate Hnd.
    - rewrite gn_empty by exact Hp. exact I.
    - destruct head; try discriminate Hp; [apply astep_list_IAt|apply astep_list_IRange|apply astep_list_IArray];
        solve [exact Hg|exact Htl|exact Ha|reflexivity|cbn [arr_len] in Hh; lia].
    - destruct head; try discriminate Hp; [apply astep_list_IAt|apply astep_list_IRange|apply astep_list_IArray];
        solve [exact Hg|exact Htl|exact Ha|reflexivity|cbn [arr_len] in Hh; lia].
    - destruct head; try discriminate Hp; [apply astep_list_IAt|apply astep_list_IRange|apply astep_list_IArray];
        solve [exact Hg|exact Htl|exact Ha|reflexivity|cbn [arr_len] in Hh; lia].
    - (* Indexed *)
      rewrite gn_Indexed by exact Hp. inversion HV; subst. cbn [gi_frag] in Hf.
      unfold nostr in Hs. cbn [allnodes kind_of] in Hs. apply andb_true_iff in Hs as [_ Hs].
      assert (Hgc : good c) by (split; [assumption|split; [exact Hs|apply nopt_gi_frag, Hf]]).
      destruct (carry_good_total c ix Hgc) as [p Hpc]; [assumption|]. rewrite Hpc. cbn [bind].
      destruct (carry_good _ _ _ Hgc Hpc) as (Hgp & Hcp & _). apply IH; [exact Hgp|exact Ht|]. rewrite Hcp. exact Ha.
    - apply astep_option; [exact Hp|reflexivity|exact Hg|exact Ht|exact Ha].
    - apply astep_option; [exact Hp|reflexivity|exact Hg|exact Ht|exact Ha].
    - apply astep_option; [exact Hp|reflexivity|exact Hg|exact Ht|exact Ha].
    - apply astep_option; [exact Hp|reflexivity|exact Hg|exact Ht|exact Ha].
    - rewrite gn_Union_pos by exact Hp. exact I.
    - (* Record *)
      rewrite gn_Record_pos by exact Hp. inversion HV; subst.
      match goal with HVs : Forall (Valid None) cs, Hn : Forall (fun x => n <= clen x) cs |- _ => rewrite Forall_forall in HVs, Hn; rename HVs into HVs0; rename Hn into Hn0 end.
      unfold nostr in Hs. cbn [allnodes kind_of] in Hs. apply andb_true_iff in Hs as [_ Hs]. rewrite allnodes_all, forallb_forall in Hs.
      cbn [gi_frag] in Hf. rewrite gi_frag_all, forallb_forall in Hf.
      assert (Hgx : forall x, In x cs -> good x) by (intros x Hx; split; [apply HVs0, Hx|split; [apply Hs, Hx|apply Hf, Hx]]).
      assert (Hcr : forall x, In x cs -> exists ft, crange x 0 n = Ok ft).
      { intros x Hx. unfold crange. apply carry_good_total; [apply Hgx, Hx|]. apply Forall_forall. intros i Hi. apply range_In in Hi.
        specialize (Hn0 x Hx). lia. }
      cbn [clen] in Ha.
      apply nb_bind.
      + apply nb_mapM. intros x Hx. destruct (Hcr x Hx) as [ft Hft]. rewrite Hft. cbn [bind].
        unfold crange in Hft. destruct (carry_good _ _ _ (Hgx x Hx) Hft) as (Hgt & Hct & _). rewrite zlen_range in Hct by lia.
        apply IH; [exact Hgt|unfold arrays_len; cbn [forallb]; rewrite Hh; reflexivity|]. rewrite Hct, Z.sub_0_r. exact Ha.
      + intros cs' Hcs'.
        assert (HF : Forall2 (fun x y => good y /\ n <= clen y /\ (nopt x = true -> nopt y = true)) cs cs').
        { eapply mapM_Forall2_P; [exact Hcs'|]. cbv beta. intros x y Hx Hy. apply bind_Ok in Hy as (ft & Hft & Hy).
          unfold crange in Hft. destruct (carry_good _ _ _ (Hgx x Hx) Hft) as (Hgt & Hct & Hot). rewrite zlen_range in Hct by lia.
          destruct (gn_good _ _ _ _ _ Hgt Hy) as (A & B & C). split; [exact A|]. split; [lia|]. rewrite <- Hot. exact C. }
        destruct (good_Record cs ks n cs' Hg HF) as [Hgr _]. apply IH; [exact Hgr|exact Htl|exact Ha].
    - (* Par *)
      rewrite gn_Par by exact Hp.
      unfold nostr in Hs. cbn [allnodes kind_of] in Hs. apply andb_true_iff in Hs as [Hk Hs]. destruct arr as [a|]; [discriminate|].
      inversion HV; subst. assert (Hgc : good c) by (split; [assumption|split; assumption]).
      apply nb_bind; [apply IH; [exact Hgc|exact Ht|exact Ha]|]. intros r0 _. cbn [strflag]. destruct head; try destruct tail; exact I.
  Qed.
End Step.

Lemma gn_nb_arrays L : forall f c items adv,
  good c -> arrays_len L items = true -> adv_ok L adv (clen c) -> nb (gn f c items adv).
Proof.
  induction f as [|f IH]; intros c items adv Hg Ht Ha; [rewrite gn_0; exact I|].
  destruct items as [|head tail]; [rewrite gn_nil; exact I|].
  destruct (is_nd c) eqn:Hnd.
  - rewrite gn_nd by exact Hnd. destruct (good_expand_nd c Hnd Hg) as [Hge _]. apply IH; [exact Hge|exact Ht|].
    rewrite clen_expand. exact Ha.
  - destruct (arrays_len_cons _ _ _ Ht) as [Hh Htl]. destruct head.
    + apply (astep_positional L f IH c (IAt i) tail adv eq_refl Hnd Hg Ht Ha).
    + apply (astep_positional L f IH c (IRange start stop step) tail adv eq_refl Hnd Hg Ht Ha).
    + (* IEllipsis *)
      rewrite gn_IEllipsis by (apply nd_not, Hnd). destruct (minmax (type_of c)) as [mn mx]. cbv zeta.
      destruct tail as [|t0 tail']; [exact I|].
      destruct ((mn - 1 =? dim_items (t0 :: tail')) && (mx - 1 =? dim_items (t0 :: tail'))); [apply IH; assumption|].
      destruct ((mn - 1 =? dim_items (t0 :: tail')) || (mx - 1 =? dim_items (t0 :: tail'))); [exact I|].
      apply IH; [exact Hg| |exact Ha]. unfold arrays_len in *. cbn [forallb arr_len andb] in *. exact Htl.
    + (* INewAxis *)
      rewrite gn_INewAxis by (apply nd_not, Hnd). apply nb_bind; [apply IH; assumption|]. intros; exact I.
    + apply (astep_positional L f IH c (IArray ix) tail adv eq_refl Hnd Hg Ht Ha).
    + (* IField *)
      rewrite gn_IField by exact Hnd. destruct (good_value c Hg) as [vs Hl]. pose proof Hg as (HV & Hs & Hf).
      apply nb_bind; [apply nb_iff, (field_never_out_of_bounds k c vs HV Hl)|]. intros f0 Hf0.
      destruct (field_content_valid_all k c false vs f0 HV Hl (gi_fc_frag k c false Hf ltac:(discriminate)) Hf0) as (X1 & X2 & _).
      apply IH; [|exact Htl|rewrite X2; exact Ha].
      split; [exact X1|]. split; [apply (field_content_allnodes _ _ _ _ Hf0 Hs)|apply (field_content_gi _ _ _ Hf0 Hf)].
    + (* IFields *)
      rewrite gn_IFields by exact Hnd. pose proof Hg as (HV & Hs & Hf).
      apply nb_bind; [apply nb_iff, (fields_never_out_of_bounds ks c HV)|]. intros f0 Hf0.
      destruct (fields_content_valid_all ks c f0 HV Hf0) as (X1 & X2 & _).
      apply IH; [|exact Htl|rewrite X2; exact Ha].
      split; [exact X1|]. split; [apply (fields_content_allnodes _ _ _ _ Hf0 Hs)|apply (fields_content_gi _ _ _ Hf0 Hf)].
Qed.

(* all item kinds; the integer arrays have a common length *)
Theorem getitem_never_out_of_bounds_arrays : forall L items c,
  arrays_len L items = true -> Valid None c -> nostr c = true -> gi_frag c = true ->
  getitem_model items c <> Err EOob.
Proof.
  intros L items c Ht HV Hs Hf. apply nb_iff. unfold getitem_model.
  assert (Hg : good c) by (split; [exact HV|split; assumption]).
  apply (gn_nb_arrays L); [|exact Ht|exact I].
  split; [constructor; [exact I|apply good_clen, Hg|lia|intros _; exact HV]|]. split; [|exact Hf].
  unfold nostr in *. cbn [allnodes kind_of Tstr andb]. exact Hs.
Qed.

Example getitem_arrays_ex :
  let c := ListOffset I64 [0; 2; 3]
             (ByteMasked [1; 0; 1] true
                (Record [Regular (Numpy DInt64 [3; 2] [DZ 1; DZ 2; DZ 3; DZ 4; DZ 5; DZ 6]) 1 3;
                         Union I64 [0; 1; 0] [0; 0; 1] [Numpy DFloat64 [2] [DZ 7; DNaN]; Numpy DBool [1] [DZ 1]]]
                        (Some [[120]; [121]]) 3)) in
  let items := [IArray [1; 0; 0]; IArray [0; 0; 1]; IField [120]; IRange None None None; IArray [1; 1; 0]] in
  valid_b c = true /\ nostr c = true /\ gi_frag c = true /\ arrays_len 3 items = true /\
  obs (getitem_model items c) = Ok [VList [VList [VNum (DZ 6)]; VList [VNum (DZ 2)]; VNone]] /\
  getitem_model [IArray [1; 0; 0]; IArray [0; 0; 2]] c = Err EValue.
Proof. vm_compute. repeat split. Qed.
