(** C15 — to_json: the text level (layout-level condition for an exactly representable text, non-finite numbers
    through the chosen strings), balancedness of the event stream, and the exclusions of [frag15] witnessed.
    New file; uses Proofs_C15.v and Proofs_C15b.v. *)
From Coq Require Import ZArith List Bool Lia ZifyBool.
From AwkV Require Import Base Layout LayoutInd Valid Proofs_ToList.
From AwkJson Require Import Json Proofs_C15 Proofs_C15b.
Import ListNotations.
Open Scope Z_scope.

(* ================================================================== balanced: brackets match, keys only in objects *)
(** An independent, stack-based reading of "well-formed": [CArr] inside an array, [CKey] inside an object where a
    key (or the end) is due, [CVal] inside an object after a key.  [Some []] = the root value is due, [None] = done. *)
Inductive ctx := CArr | CKey | CVal.
Definition value_ok (st : list ctx) : bool := match st with CKey :: _ => false | _ => true end.
Definition after_value (st : list ctx) : option (list ctx) :=
  match st with [] => None | CVal :: t => Some (CKey :: t) | _ => Some st end.
Fixpoint bal (s : option (list ctx)) (evs : list ev) : bool :=
  match evs with
  | [] => match s with None => true | Some _ => false end
  | e :: r =>
      match s with
      | None => false                                   (* something after the root value *)
      | Some st =>
          match e with
          | ENull | EBool _ | EInt _ | EReal _ | EStr _ => value_ok st && bal (after_value st) r
          | ESA => value_ok st && bal (Some (CArr :: st)) r
          | ESO => value_ok st && bal (Some (CKey :: st)) r
          | EEA => match st with CArr :: t => bal (after_value t) r | _ => false end
          | EEO => match st with CKey :: t => bal (after_value t) r | _ => false end
          | EKey _ => match st with CKey :: t => bal (Some (CVal :: t)) r | _ => false end
          end
      end
  end.
Definition balanced (evs : list ev) : bool := bal (Some []) evs.

Lemma bal_wf :
  (forall e, wfv e -> forall st r, value_ok st = true -> bal (Some st) (e ++ r) = bal (after_value st) r) /\
  (forall es, wfvs es -> forall t r, bal (Some (CArr :: t)) (es ++ r) = bal (Some (CArr :: t)) r) /\
  (forall es, wfkvs es -> forall t r, bal (Some (CKey :: t)) (es ++ r) = bal (Some (CKey :: t)) r).
Proof.
  apply wf_mutind; intros; cbn [app bal]; try (rewrite H; reflexivity).
  - rewrite H1. cbn [andb]. rewrite <- app_assoc. rewrite H0. reflexivity.
  - rewrite H1. cbn [andb]. rewrite <- app_assoc. rewrite H0. reflexivity.
  - reflexivity.
  - rewrite <- app_assoc. rewrite H0 by reflexivity. cbn [after_value]. apply H2.
  - reflexivity.
  - rewrite <- app_assoc. rewrite H0 by reflexivity. cbn [after_value]. apply H2.
Qed.

Lemma wf_balanced evs : wf evs = true -> balanced evs = true.
Proof.
  intros W. apply wf_iff in W. unfold balanced.
  pose proof (proj1 bal_wf evs W [] [] eq_refl) as E. rewrite app_nil_r in E. exact E.
Qed.

(** (a) for every valid layout to_json succeeds and its event stream is well-formed and balanced *)
Theorem tojson_wellformed_lemma o c : Valid None c -> bytes_ok c = true -> u64ok c = true -> chars_ok c = true ->
  exists evs, tojson_events o c = Ok evs /\ wf evs = true /\ balanced evs = true.
Proof.
  intros V B U C. destruct (valid_to_list_total_partial c None V C) as (vs & T).
  destruct (tojson_value_full o c vs V B U T) as (evs & E & _).
  exists evs. pose proof (events_wellformed_strong o c evs E) as W. auto using wf_balanced.
Qed.

(* without assuming validity: whatever to_json emits is balanced *)
Theorem events_balanced_lemma o c evs : tojson_events o c = Ok evs -> balanced evs = true.
Proof. intros H. apply wf_balanced. eapply events_wellformed_strong; exact H. Qed.

(* ================================================================== layouts whose text is exact *)
(** every leaf is carried exactly by the text under the options [o] (int64 integers, integer-valued doubles up to
    2^53, non-finite doubles only if a string was chosen for them), record keys are byte strings *)
Fixpoint text_exact (o : jopts) (c : content) : bool :=
  match c with
  | Numpy dt _ data => forallb (fun d => printable_ev (scalar_ev o dt d)) data
  | Empty => true
  | ListOffset _ _ c' | ListA _ _ _ c' | Regular c' _ _ | Indexed _ _ c' | IndexedOption _ _ c'
  | ByteMasked _ _ c' | BitMasked _ _ _ _ c' | Unmasked c' | Par _ _ c' => text_exact o c'
  | Union _ _ _ cs =>
      (fix all (l : list content) : bool := match l with [] => true | x :: xs => text_exact o x && all xs end) cs
  | Record cs ks _ =>
      match ks with Some k => forallb (forallb is_byte) k | None => true end &&
      (fix all (l : list content) : bool := match l with [] => true | x :: xs => text_exact o x && all xs end) cs
  end.

Lemma In_firstn {A} (x : A) n : forall l, In x (firstn n l) -> In x l.
Proof. induction n; intros [|a l] H; cbn in *; try tauto. destruct H; auto. Qed.
Lemma In_skipn {A} (x : A) n : forall l, In x (skipn n l) -> In x l.
Proof. induction n; intros [|a l] H; cbn in *; try tauto. auto. Qed.
Lemma slice_incl {A} (l : list A) a b s x : slice l a b = Ok s -> In x s -> In x l.
Proof.
  intros H Hx. destruct (slice_inv _ _ _ _ H) as (_ & _ & _ & ->). unfold take, drop in Hx.
  eapply In_skipn, In_firstn; exact Hx.
Qed.

Lemma printable_concat xs : Forall (fun x => printable x = true) xs -> printable (concat xs) = true.
Proof. induction 1 as [|x xs Hx _ IH]; [reflexivity|]. cbn [concat]. rewrite printable_app, Hx, IH. reflexivity. Qed.

Lemma printable_arr es : printable es = true -> printable (ESA :: es ++ [EEA]) = true.
Proof. intros H. change (ESA :: es ++ [EEA]) with ([ESA] ++ es ++ [EEA]). rewrite !printable_app, H. reflexivity. Qed.
Lemma printable_obj es : printable es = true -> printable (ESO :: es ++ [EEO]) = true.
Proof. intros H. change (ESO :: es ++ [EEO]) with ([ESO] ++ es ++ [EEO]). rewrite !printable_app, H. reflexivity. Qed.

Lemma byte_of_byte dt d y : byte_of dt d = Ok y -> is_byte y = true.
Proof.
  unfold byte_of, is_byte. destruct dt, d; intros H; try discriminate; injection H as <-;
    pose proof (Z.mod_pos_bound z 256 ltac:(lia)); lia.
Qed.

Lemma str_of_printable dt ds e : str_of dt ds = Ok e -> printable e = true.
Proof.
  unfold str_of. intros H. inv_bind H. injection H as <-. cbn [printable forallb printable_ev]. rewrite andb_true_r.
  apply forallb_forall. intros y Hy.
  pose proof (mapM_ok_Forall (byte_of dt) (fun y => is_byte y = true) ds x E (byte_of_byte dt)) as F.
  rewrite Forall_forall in F. auto.
Qed.

Lemma np_block_printable o chars dt dims : forall ds e,
  (forall d, In d ds -> printable_ev (scalar_ev o dt d) = true) ->
  np_block o chars dt dims ds = Ok e -> printable e = true.
Proof.
  induction dims as [|n dims IH]; intros ds e Hd H; cbn [np_block] in H.
  - destruct ds as [|d ds]; [discriminate|]. destruct chars.
    + eapply str_of_printable; exact H.
    + injection H as <-. cbn [printable forallb]. rewrite Hd by (left; reflexivity). reflexivity.
  - assert (G : (exists s, slice ds 0 n = Ok s /\ str_of dt s = Ok e) \/
                (exists xs, mapM (fun k => do sub <- slice ds (k * prodZ dims) ((k + 1) * prodZ dims);
                                            np_block o chars dt dims sub) (iota n) = Ok xs /\
                            e = ESA :: concat xs ++ [EEA])).
    { destruct dims as [|m dims']; [destruct chars|].
      - left. inv_bind H. eauto.
      - right. inv_bind H. injection H as <-. eauto.
      - right. inv_bind H. injection H as <-. eauto. }
    destruct G as [(s & _ & G) | (xs & G & ->)]; [eapply str_of_printable; exact G|].
    apply printable_arr, printable_concat. eapply mapM_ok_Forall; [exact G|].
    intros k y Hy. cbn beta in Hy. inv_bind Hy. eapply IH; [|exact Hy].
    intros d Hin. apply Hd. eapply slice_incl; eassumption.
Qed.

Lemma range_events_printable it chars a b e : (forall i x, it i = Ok x -> printable x = true) ->
  range_events it chars a b = Ok e -> printable e = true.
Proof.
  intros Hit H. unfold range_events in H. destruct chars as [[dt data]|].
  - destruct (a =? b); [injection H as <-; reflexivity|]. inv_bind H. eapply str_of_printable; exact H.
  - inv_bind H. injection H as <-. apply printable_arr, printable_concat.
    eapply mapM_ok_Forall; [exact E|]. intros; eapply Hit; eassumption.
Qed.

Lemma fields_ev_printable f cs : Forall (fun c => forall e, f c = Ok e -> printable e = true) cs ->
  forall kl body, Forall (fun k => forallb is_byte k = true) kl -> fields_ev f cs kl = Ok body -> printable body = true.
Proof.
  induction 1 as [|c cs Hc _ IH]; intros kl body Hk H; cbn [fields_ev] in H.
  - injection H as <-. reflexivity.
  - destruct kl as [|k kl]; [discriminate|]. inv_bind H. inv_bind H. injection H as <-.
    inversion Hk as [|? ? Hk1 Hk2]; subst. change (EKey k :: x ++ x0) with ([EKey k] ++ x ++ x0). rewrite !printable_app.
    rewrite (Hc _ E), (IH _ _ Hk2 E0). cbn [printable forallb printable_ev]. rewrite Hk1. reflexivity.
Qed.

Lemma dec_bytes z : forallb is_byte (dec z) = true.
Proof.
  apply forallb_forall. intros c Hc. pose proof (dec_plain z) as P.
  assert (D : forall n, 0 <= n -> forall c, In c (dec_nat n) -> is_byte c = true).
  { intros n Hn c0 H0. pose proof (dec_nat_digits n Hn) as F. rewrite Forall_forall in F.
    specialize (F c0 H0). apply is_digit_iff in F. unfold is_byte. lia. }
  unfold dec in Hc. destruct (z <? 0) eqn:E.
  - destruct Hc as [<- | Hc]; [reflexivity | eapply D; [|exact Hc]; lia].
  - eapply D; [|exact Hc]. lia.
Qed.

Lemma tuple_keys_bytes n : Forall (fun k => forallb is_byte k = true) (tuple_keys n).
Proof. unfold tuple_keys. apply Forall_forall. intros k Hk. apply in_map_iff in Hk. destruct Hk as (z & <- & _). apply dec_bytes. Qed.

Lemma item_printable o c : forall q idx out, text_exact o c = true -> item o q c idx = Ok out -> printable out = true.
Proof.
  induction c as [dt shape data| |w offs c IHc|w ss se c IHc|c size zl IHc|w ix c IHc|w ix c IHc|m vw c IHc|m vw lsb n c IHc|c IHc|w tags ix cs IHcs|cs ks n IHcs|arr rn c IHc] using content_ind';
    intros q idx out X H; cbn [item] in H; cbn [text_exact] in X.
  - destruct shape as [|n dims]; [discriminate|]. inv_bind H. eapply np_block_printable; [|exact H].
    intros d Hd. rewrite forallb_forall in X. apply X. eapply slice_incl; eassumption.
  - discriminate.
  - inv_bind H. inv_bind H. eapply range_events_printable; [|exact H]. intros; eapply IHc; eassumption.
  - inv_bind H. inv_bind H. eapply range_events_printable; [|exact H]. intros; eapply IHc; eassumption.
  - eapply range_events_printable; [|exact H]. intros; eapply IHc; eassumption.
  - inv_bind H. eapply IHc; eassumption.
  - inv_bind H. destruct (x <? 0); [injection H as <-; reflexivity | eapply IHc; eassumption].
  - inv_bind H. destruct (Bool.eqb _ _); [eapply IHc; eassumption | injection H as <-; reflexivity].
  - inv_bind H. destruct (Bool.eqb _ _); [eapply IHc; eassumption | injection H as <-; reflexivity].
  - eapply IHc; eassumption.
  - inv_bind H. inv_bind H. destruct (x <? 0); [discriminate|].
    apply frag_all_Forall in X.
    eapply (pick_nth_prop _ (fun out => printable out = true)); [|exact H].
    rewrite Forall_forall in *. intros c Hc y Hy. eapply IHcs; eauto.
  - apply andb_true_iff in X. destruct X as [Xk Xc]. apply frag_all_Forall in Xc.
    inv_bind H. injection H as <-. apply printable_obj.
    eapply fields_ev_printable; [| |exact E].
    + rewrite Forall_forall in *. intros c Hc y Hy. eapply IHcs; eauto.
    + destruct ks as [k|]; [apply forallb_Forall_true; exact Xk | apply tuple_keys_bytes].
  - eapply IHc; eassumption.
Qed.

Lemma tojson_printable o c evs : text_exact o c = true -> tojson_events o c = Ok evs -> printable evs = true.
Proof.
  intros X H. unfold tojson_events in H. eapply range_events_printable; [|exact H].
  intros; eapply item_printable; eassumption.
Qed.

(** (b)+(c) at the TEXT level: the text to_json writes for an array parses (completely) back to the events, and these
    fold into to_list up to the documented rendering jv — on every node class, for leaves the text carries exactly *)
Theorem tojson_text_value_lemma o c vs : frag15 c = true -> u64ok c = true -> text_exact o c = true ->
  to_list c = Ok vs ->
  exists evs, tojson_events o c = Ok evs /\ parse (render evs) = Ok (evs, []) /\
              json_value evs = Ok (VList (map (jv o) vs), []).
Proof.
  intros F U X T. destruct (tojson_value_frag o c vs F U T) as (evs & E & J).
  exists evs. split; [exact E|]. split; [|exact J].
  apply parse_render_lemma; [eapply events_wellformed_strong; exact E | eapply tojson_printable; eassumption].
Qed.

(* ================================================================== non-finite numbers through the chosen strings *)
Definition opts_chosen (o : jopts) : bool :=
  match nan_s o, inf_s o, minf_s o with
  | Some a, Some b, Some c => forallb is_byte a && forallb is_byte b && forallb is_byte c
  | _, _, _ => false
  end.
Definition nonfinite (d : datum) : bool := match d with DZ _ => false | _ => true end.
Definition rnum_of (d : datum) : rnum := match d with DZ z => RZ z | DNaN => RNaN | DInf n => RInf n end.

(** a NaN / +inf / -inf leaf is written as the chosen string, the text of that string parses back to the same
    string event, whose value is the documented rendering of the leaf *)
Theorem tojson_nonfinite_strings_lemma o d : opts_chosen o = true -> nonfinite d = true ->
  exists s, real_ev o d = EStr s /\ Some s = match d with DNaN => nan_s o | DInf false => inf_s o | _ => minf_s o end /\
            parse (render [real_ev o d]) = Ok ([EStr s], []) /\
            json_value [real_ev o d] = Ok (jv o (VNum d), []).
Proof.
  unfold opts_chosen. intros Ho Hd.
  destruct (nan_s o) as [a|] eqn:Ea; [|discriminate]. destruct (inf_s o) as [b|] eqn:Eb; [|discriminate].
  destruct (minf_s o) as [c|] eqn:Ec; [|discriminate].
  apply andb_true_iff in Ho. destruct Ho as [Ho Hc]. apply andb_true_iff in Ho. destruct Ho as [Ha Hb].
  destruct d as [z| |[|]]; try discriminate Hd; cbn [real_ev jv]; rewrite ?Ea, ?Eb, ?Ec;
    eexists; (split; [reflexivity|]); (split; [reflexivity|]);
    (split; [apply parse_render_lemma; [reflexivity | cbn [printable forallb printable_ev]; rewrite ?Ha, ?Hb, ?Hc; reflexivity]
            | reflexivity]).
Qed.

(** float arrays of any shape whose finite items are integers up to 2^53 are text-exact once the three strings
    are chosen (the layout-level hypothesis of tojson_text_value is satisfiable with NaN and +-inf inside) *)
Definition float_item_ok (d : datum) : bool :=
  match d with DZ z => (-9007199254740992 <=? z) && (z <=? 9007199254740992) | _ => true end.
Lemma float_text_exact o dt sh data : opts_chosen o = true -> dt = DFloat32 \/ dt = DFloat64 ->
  forallb float_item_ok data = true -> text_exact o (Numpy dt sh data) = true.
Proof.
  unfold opts_chosen. intros Ho Hdt Hd. cbn [text_exact].
  destruct (nan_s o) as [a|] eqn:Ea; [|discriminate]. destruct (inf_s o) as [b|] eqn:Eb; [|discriminate].
  destruct (minf_s o) as [c|] eqn:Ec; [|discriminate].
  apply andb_true_iff in Ho. destruct Ho as [Ho Hc]. apply andb_true_iff in Ho. destruct Ho as [Ha Hb].
  apply forallb_forall. intros d Hin. rewrite forallb_forall in Hd. specialize (Hd d Hin).
  assert (R : printable_ev (real_ev o d) = true).
  { destruct d as [z| |[|]]; cbn [real_ev]; rewrite ?Ea, ?Eb, ?Ec; cbn [printable_ev]; assumption. }
  destruct Hdt as [-> | ->]; exact R.
Qed.

(** from_json with the same (NUL-free, pairwise different) strings turns them back into the numbers *)
Definition nulfree (s : bytes) : bool := forallb (fun c => negb (c =? 0)) s.
Definition opts_distinct (o : jopts) : bool :=
  match nan_s o, inf_s o, minf_s o with
  | Some a, Some b, Some c =>
      nulfree a && nulfree b && nulfree c &&
      negb (list_eqb Z.eqb b a) && negb (list_eqb Z.eqb c a) && negb (list_eqb Z.eqb c b)
  | _, _, _ => false
  end.
Lemma cstr_nulfree' k : nulfree k = true -> cstr k = k.
Proof.
  unfold nulfree. induction k as [|c k IH]; [reflexivity|]. cbn [forallb cstr]. intros H.
  apply andb_true_iff in H. destruct H as [Hc Hk]. destruct (c =? 0); [discriminate|]. rewrite IH by exact Hk. reflexivity.
Qed.
Lemma list_eqb_refl s : list_eqb Z.eqb s s = true.
Proof. induction s as [|c s IH]; [reflexivity|]. cbn [list_eqb]. rewrite Z.eqb_refl, IH. reflexivity. Qed.

Theorem fromjson_restores_nonfinite_lemma o d : opts_distinct o = true ->
  handler o (real_ev o d) = EReal (rnum_of d).
Proof.
  unfold opts_distinct. intros Ho.
  destruct (nan_s o) as [a|] eqn:Ea; [|discriminate]. destruct (inf_s o) as [b|] eqn:Eb; [|discriminate].
  destruct (minf_s o) as [c|] eqn:Ec; [|discriminate].
  repeat (apply andb_true_iff in Ho; let H := fresh "H" in destruct Ho as [Ho H]).
  apply negb_true_iff in H, H0, H1.
  destruct d as [z| |[|]]; cbn [real_ev rnum_of]; rewrite ?Ea, ?Eb, ?Ec; [reflexivity | | | ];
    cbn [handler]; rewrite ?Ea, ?Eb, ?Ec; unfold is_opt;
    rewrite ?(cstr_nulfree' a), ?(cstr_nulfree' b), ?(cstr_nulfree' c) by assumption;
    rewrite ?list_eqb_refl, ?H, ?H0, ?H1; reflexivity.
Qed.

(* ================================================================== examples and the exclusions of frag15, witnessed *)
Definition ex_opts3 : jopts :=
  {| nan_s := Some [78; 97; 78]; inf_s := Some [105; 110; 102]; minf_s := Some [45; 105; 110; 102] |}.

(* [{x: nan, y: [1.0, inf]}, None, {x: -inf, y: []}] *)
Definition ex_nonfinite : content :=
  IndexedOption I64 [0; -1; 1]
    (Record [Numpy DFloat64 [2] [DNaN; DInf true];
             ListOffset I64 [0; 2; 2] (Numpy DFloat32 [2] [DZ 1; DInf false])]
            (Some [[120]; [121]]) 2).

Example tojson_text_value_ex :
  frag15 ex_nonfinite = true /\ u64ok ex_nonfinite = true /\ text_exact ex_opts3 ex_nonfinite = true /\
  opts_chosen ex_opts3 = true /\ opts_distinct ex_opts3 = true /\
  to_list ex_nonfinite = Ok [VRec [([120], VNum DNaN); ([121], VList [VNum (DZ 1); VNum (DInf false)])]; VNone;
                            VRec [([120], VNum (DInf true)); ([121], VList [])]] /\
  (do e <- tojson_events ex_opts3 ex_nonfinite; json_value e) =
    Ok (VList [VRec [([120], VStr true [78; 97; 78]); ([121], VList [VNum (DZ 1); VStr true [105; 110; 102]])]; VNone;
               VRec [([120], VStr true [45; 105; 110; 102]); ([121], VList [])]], []) /\
  (do e <- tojson_events ex_opts3 ex_nonfinite; Ok (do_parse ex_opts3 (render e))) =
    Ok (JDocs [[ESA; ESO; EKey [120]; EReal RNaN; EKey [121]; ESA; EReal (RZ 1); EReal (RInf false); EEA; EEO; ENull;
                ESO; EKey [120]; EReal (RInf true); EKey [121]; ESA; EEA; EEO; EEA]]).
Proof. vm_compute. repeat split. Qed.

(* no string chosen (the Python default): the element is dropped from the text, which is not JSON
   (known finding c15-nonfinite-without-substitution) — [text_exact] fails and the text does not parse *)
Example tojson_nonfinite_default_refuted :
  let o := {| nan_s := None; inf_s := None; minf_s := None |} in
  let c := Numpy DFloat64 [2] [DZ 1; DNaN] in
  frag15 c = true /\ u64ok c = true /\ text_exact o c = false /\
  tojson_events o c = Ok [ESA; EReal (RZ 1); EReal RNaN; EEA] /\
  render [ESA; EReal (RZ 1); EReal RNaN; EEA] = [91; 49; 46; 48; 44; 93] /\             (* [1.0,] *)
  parse [91; 49; 46; 48; 44; 93] = Err EValue.
Proof. vm_compute. repeat split. Qed.

(* the exclusions of frag15 (none of them is a valid layout: validityerror rejects all three):
   1. a char / byte tag on a NumpyArray that is not the content of a string: to_json writes ONE string,
      to_list gives the numbers *)
Example tojson_value_char_outside_string_refuted :
  let c := Par (Some AChar) None (Numpy DUInt8 [2] [DZ 104; DZ 105]) in
  frag15 c = false /\ to_list c = Ok [VNum (DZ 104); VNum (DZ 105)] /\
  (do e <- tojson_events ex_opts c; json_value e) = Ok (VStr true [104; 105], []).
Proof. vm_compute. repeat split. Qed.

(*  2. __array__ = "string" on a list whose content is not tagged char: to_list gives the string, to_json the
      list of numbers *)
Example tojson_value_string_untagged_refuted :
  let c := Par (Some AString) None (ListOffset I64 [0; 2] (Numpy DUInt8 [2] [DZ 104; DZ 105])) in
  frag15 c = false /\ to_list c = Ok [VStr true [104; 105]] /\
  (do e <- tojson_events ex_opts c; json_value e) = Ok (VList [VList [VNum (DZ 104); VNum (DZ 105)]], []).
Proof. vm_compute. repeat split. Qed.

(*  3. the char tag on an n-d NumpyArray inside a string: rows become strings of the last dimension *)
Example tojson_value_char_nd_refuted :
  let c := ListOffset I64 [0; 2] (Par (Some AChar) None (Numpy DUInt8 [2; 2] [DZ 97; DZ 98; DZ 99; DZ 100])) in
  frag15 c = false /\
  to_list c = Ok [VList [VList [VNum (DZ 97); VNum (DZ 98)]; VList [VNum (DZ 99); VNum (DZ 100)]]] /\
  (do e <- tojson_events ex_opts c; json_value e) = Ok (VList [VList [VStr true [97; 98]; VStr true [99; 100]]], []).
Proof. vm_compute. repeat split. Qed.
