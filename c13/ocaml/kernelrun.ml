(* kernelrun: runs the extracted Gallina kernel models.
   input  line: (id KERNEL (T0 T1 ...) ARG0 ARG1 ...)   Ti in b i8 u8 i16 u16 i32 u32 i64 u64 f32 f64 (one per argument)
                ARG ::= integer | (i0 i1 ...) | (ll (..) (..) ...)
   output line: (id ok OUT0 OUT1 ...) | (id err MSG) | (id oob) | (id bad TEXT)            OUT as ARG *)
open Kmodel

let rec pos_of_int (n : int) : positive =
  if n = 1 then XH else if n land 1 = 0 then XO (pos_of_int (n lsr 1)) else XI (pos_of_int (n lsr 1))
let z_of_int (n : int) : z = if n = 0 then Z0 else if n > 0 then Zpos (pos_of_int n) else Zneg (pos_of_int (-n))
let ten = z_of_int 10
let z_of_string (s : string) : z =
  let n = String.length s in
  if n = 0 then failwith "empty number";
  let neg = s.[0] = '-' in
  let start = if neg || s.[0] = '+' then 1 else 0 in
  if n - start <= 17 then z_of_int (int_of_string s)
  else begin
    let acc = ref Z0 in
    for i = start to n - 1 do
      let c = s.[i] in
      if c < '0' || c > '9' then failwith ("bad number " ^ s);
      acc := Z.add (Z.mul !acc ten) (z_of_int (Char.code c - 48))
    done;
    if neg then Z.opp !acc else !acc
  end
let rec int_of_pos = function XH -> 1 | XO p -> 2 * int_of_pos p | XI p -> 2 * int_of_pos p + 1
let rec pos_bits = function XH -> 1 | XO p -> 1 + pos_bits p | XI p -> 1 + pos_bits p
let rec string_of_pos (p : positive) : string =
  if pos_bits p <= 61 then string_of_int (int_of_pos p)
  else
    let x = Zpos p in
    let q = Z.div x ten and r = Z.modulo x ten in
    (match q with Zpos q' -> string_of_pos q' | _ -> "") ^ (match r with Z0 -> "0" | Zpos r' -> string_of_int (int_of_pos r') | _ -> "?")
let string_of_z = function Z0 -> "0" | Zpos p -> string_of_pos p | Zneg p -> "-" ^ string_of_pos p

let ity_of = function
  | "b" -> TB | "i8" -> TI (z_of_int 8) | "u8" -> TU (z_of_int 8) | "i16" -> TI (z_of_int 16) | "u16" -> TU (z_of_int 16)
  | "i32" -> TI (z_of_int 32) | "u32" -> TU (z_of_int 32) | "i64" -> TI (z_of_int 64) | "u64" -> TU (z_of_int 64)
  | "f32" | "f64" -> TIdeal
  | s -> failwith ("unknown type " ^ s)

let val_of (x : Sx.t) : val0 =
  match x with
  | Sx.A a -> VI (z_of_string a)
  | Sx.L (Sx.A "ll" :: rows) ->
      VLL (List.map (function Sx.L r -> List.map (function Sx.A a -> z_of_string a | _ -> failwith "nested") r
                            | _ -> failwith "row expected") rows)
  | Sx.L l -> VL (List.map (function Sx.A a -> z_of_string a | _ -> failwith "nested list") l)

let zs l = "(" ^ String.concat " " (List.map string_of_z l) ^ ")"
let string_of_val = function
  | VI z -> string_of_z z
  | VL l -> zs l
  | VLL ll -> "(ll" ^ String.concat "" (List.map (fun l -> " " ^ zs l) ll) ^ ")"

let string_of_msg = function
  | MIndexOutOfRange -> "index out of range"
  | MStopsLtStarts -> "stops[i] < starts[i]"
  | MStopsGtLen -> "stops[i] > len(content)"
  | MOffsetsNotMonotone -> "broadcast's offsets must be monotonically increasing"
  | MCannotBroadcast -> "cannot broadcast nested list"
  | MStartGtStop -> "start[i] > stop[i]"
  | MStartLt0 -> "start[i] < 0"
  | MStopGtLen -> "stop[i] > len(content)"
  | MIndexLt0 -> "index[i] < 0"
  | MIndexGeLen -> "index[i] >= len(content)"
  | MTagsLt0 -> "tags[i] < 0"
  | MTagsGeLen -> "tags[i] >= len(contents)"
  | MIndexGeLenTag -> "index[i] >= len(content[tags[i]])"
  | MFlatteningOffset -> "flattening offset out of range"
  | MFuel -> "MODEL-FUEL"
  | MBadArgs -> "MODEL-BADARGS"

let string_of_msg2 = function
  | MOld m -> string_of_msg m
  | MMaxIndexGtLen -> "max(index) > len(content)"
  | MMaxStopGtLen -> "max(stop) > len(content)"
  | MMinIndexLt0 -> "min(index) < 0"
  | MJaggedStopsLtStarts -> "jagged slice's stops[i] < starts[i]"
  | MJaggedBeyond -> "jagged slice's offsets extend beyond its content"
  | MJaggedInnerDiffers -> "jagged slice inner length differs from array inner length"
  | MJaggedCannotFit -> "cannot fit jagged slice into nested list"
  | MOffsetsMonotone -> "offsets must be monotonically increasing"
  | MNotRegular -> "cannot convert to RegularArray because subarray lengths are not regular"
  | MFixmeCombinations -> "FIXME: awkward_combinations"
  | MFailedSort -> "failed to sort an array"

(* kernel-specification.yml kernel name -> model *)
let table : (string * kname) list = [
  "awkward_ListArray_num", K_ListArray_num;
  "awkward_RegularArray_num", K_RegularArray_num;
  "awkward_ListOffsetArray_flatten_offsets", K_ListOffsetArray_flatten_offsets;
  "awkward_ListArray_compact_offsets", K_ListArray_compact_offsets;
  "awkward_ListOffsetArray_compact_offsets", K_ListOffsetArray_compact_offsets;
  "awkward_RegularArray_compact_offsets", K_RegularArray_compact_offsets;
  "awkward_ListArray_broadcast_tooffsets", K_ListArray_broadcast_tooffsets;
  "awkward_RegularArray_broadcast_tooffsets", K_RegularArray_broadcast_tooffsets;
  "awkward_RegularArray_broadcast_tooffsets_size1", K_RegularArray_broadcast_tooffsets_size1;
  "awkward_ListArray_validity", K_ListArray_validity;
  "awkward_IndexedArray_validity", K_IndexedArray_validity;
  "awkward_UnionArray_validity", K_UnionArray_validity;
  "awkward_regularize_arrayslice", K_regularize_arrayslice;
  "awkward_ListArray_getitem_next_at", K_ListArray_getitem_next_at;
  "awkward_ListArray_getitem_next_range", K_ListArray_getitem_next_range;
  "awkward_ListArray_getitem_next_range_carrylength", K_ListArray_getitem_next_range_carrylength;
  "awkward_ListArray_getitem_next_range_counts", K_ListArray_getitem_next_range_counts;
  "awkward_ListArray_getitem_next_range_spreadadvanced", K_ListArray_getitem_next_range_spreadadvanced;
  "awkward_ListArray_getitem_next_array", K_ListArray_getitem_next_array;
  "awkward_ListArray_getitem_next_array_advanced", K_ListArray_getitem_next_array_advanced;
  "awkward_ListArray_getitem_carry", K_ListArray_getitem_carry;
  "awkward_RegularArray_getitem_next_at", K_RegularArray_getitem_next_at;
  "awkward_RegularArray_getitem_next_range", K_RegularArray_getitem_next_range;
  "awkward_RegularArray_getitem_next_range_spreadadvanced", K_RegularArray_getitem_next_range_spreadadvanced;
  "awkward_RegularArray_getitem_next_array", K_RegularArray_getitem_next_array;
  "awkward_RegularArray_getitem_next_array_advanced", K_RegularArray_getitem_next_array_advanced;
  "awkward_RegularArray_getitem_next_array_regularize", K_RegularArray_getitem_next_array_regularize;
  "awkward_RegularArray_getitem_carry", K_RegularArray_getitem_carry;
  "awkward_IndexedArray_getitem_nextcarry", K_IndexedArray_getitem_nextcarry;
  "awkward_IndexedArray_getitem_nextcarry_outindex", K_IndexedArray_getitem_nextcarry_outindex;
  "awkward_IndexedArray_getitem_nextcarry_outindex_mask", K_IndexedArray_getitem_nextcarry_outindex;
  "awkward_IndexedArray_flatten_nextcarry", K_IndexedArray_flatten_nextcarry;
  "awkward_IndexedArray_flatten_none2empty", K_IndexedArray_flatten_none2empty;
  "awkward_IndexedArray_numnull", K_IndexedArray_numnull;
  "awkward_ByteMaskedArray_getitem_nextcarry", K_ByteMaskedArray_getitem_nextcarry;
  "awkward_ByteMaskedArray_getitem_nextcarry_outindex", K_ByteMaskedArray_getitem_nextcarry_outindex;
  "awkward_ByteMaskedArray_toIndexedOptionArray", K_ByteMaskedArray_toIndexedOptionArray;
  "awkward_BitMaskedArray_to_ByteMaskedArray", K_BitMaskedArray_to_ByteMaskedArray;
  "awkward_BitMaskedArray_to_IndexedOptionArray", K_BitMaskedArray_to_IndexedOptionArray;
  "awkward_UnionArray_fillna", K_UnionArray_fillna;
  "awkward_IndexedArray_local_preparenext_64", K_IndexedArray_local_preparenext;
  "awkward_ListArray_localindex", K_ListArray_localindex;
  "awkward_localindex", K_localindex;
  "awkward_carry_arange", K_localindex;
  "awkward_new_Identities", K_localindex;
  "awkward_RegularArray_localindex", K_RegularArray_localindex;
  "awkward_ListArray_min_range", K_ListArray_min_range;
  "awkward_ListArray_rpad_and_clip_length_axis1", K_ListArray_rpad_and_clip_length_axis1;
  "awkward_ListArray_rpad_axis1", K_ListArray_rpad_axis1;
  "awkward_ListOffsetArray_rpad_length_axis1", K_ListOffsetArray_rpad_length_axis1;
  "awkward_ListOffsetArray_rpad_axis1", K_ListOffsetArray_rpad_axis1;
  "awkward_ListOffsetArray_rpad_and_clip_axis1", K_ListOffsetArray_rpad_and_clip_axis1;
  "awkward_RegularArray_rpad_and_clip_axis1", K_RegularArray_rpad_and_clip_axis1;
  "awkward_index_rpad_and_clip_axis0", K_index_rpad_and_clip_axis0;
  "awkward_index_rpad_and_clip_axis1", K_index_rpad_and_clip_axis1;
  "awkward_ListArray_combinations_length", K_ListArray_combinations_length;
  "awkward_ListArray_combinations", K_ListArray_combinations;
  "awkward_RegularArray_combinations_64", K_RegularArray_combinations;
  "awkward_ListOffsetArray_reduce_local_nextparents_64", K_reduce_local_nextparents;
  "awkward_ListOffsetArray_reduce_local_outoffsets_64", K_reduce_local_outoffsets;
  "awkward_ListOffsetArray_reduce_nonlocal_maxcount_offsetscopy_64", K_reduce_nonlocal_maxcount_offsetscopy;
  "awkward_ListOffsetArray_reduce_nonlocal_preparenext_64", K_reduce_nonlocal_preparenext;
  "awkward_ListOffsetArray_reduce_nonlocal_nextstarts_64", K_reduce_nonlocal_nextstarts;
  "awkward_ListOffsetArray_reduce_nonlocal_findgaps_64", K_reduce_nonlocal_findgaps;
  "awkward_ListOffsetArray_reduce_nonlocal_nextshifts_64", K_reduce_nonlocal_nextshifts;
  "awkward_sorting_ranges", K_sorting_ranges;
  "awkward_sorting_ranges_length", K_sorting_ranges_length;
  "awkward_reduce_count_64", K_reduce_count;
  "awkward_reduce_sum", K_reduce_sum;
  "awkward_reduce_prod", K_reduce_prod;
  "awkward_reduce_countnonzero", K_reduce_countnonzero;
  "awkward_reduce_sum_int32_bool_64", K_reduce_countnonzero;
  "awkward_reduce_sum_int64_bool_64", K_reduce_countnonzero;
  "awkward_reduce_sum_bool", K_reduce_sum_bool;
  "awkward_reduce_prod_bool", K_reduce_prod_bool;
  "awkward_reduce_min", K_reduce_min;
  "awkward_reduce_max", K_reduce_max;
  "awkward_reduce_argmin", K_reduce_argmin;
  "awkward_reduce_argmax", K_reduce_argmax;
  "awkward_NumpyArray_fill", K_NumpyArray_fill;
  "awkward_IndexedArray_fill", K_IndexedArray_fill;
  "awkward_UnionArray_filltags", K_UnionArray_filltags;
  "awkward_UnionArray_fillindex", K_UnionArray_fillindex;
  "awkward_ListArray_fill", K_ListArray_fill;
  "awkward_unique", K_unique;
  "awkward_ListOffsetArray_reduce_nonlocal_outstartsstops_64", K_reduce_nonlocal_outstartsstops;
  "awkward_NumpyArray_copy", K_NumpyArray_copy;
  "awkward_NumpyArray_contiguous_copy", K_NumpyArray_contiguous_copy;
  "awkward_NumpyArray_getitem_next_null", K_NumpyArray_getitem_next_null;
  "awkward_NumpyArray_fill_tocomplex", K_NumpyArray_fill_tocomplex;
  "awkward_NumpyArray_fill_fromcomplex", K_NumpyArray_fill_fromcomplex;
  "awkward_NumpyArray_rearrange_shifted", K_NumpyArray_rearrange_shifted;
  "awkward_NumpyArray_subrange_equal", K_NumpyArray_subrange_equal;
  "awkward_reduce_sum_complex", K_reduce_sum_complex;
  "awkward_reduce_prod_complex", K_reduce_prod_complex;
  "awkward_reduce_min_complex", K_reduce_min_complex;
  "awkward_reduce_max_complex", K_reduce_max_complex;
  "awkward_reduce_argmin_complex", K_reduce_argmin_complex;
  "awkward_reduce_argmax_complex", K_reduce_argmax_complex;
  "awkward_reduce_countnonzero_complex", K_reduce_countnonzero_complex;
  "awkward_reduce_sum_bool_complex", K_reduce_sum_bool_complex;
  "awkward_reduce_prod_bool_complex", K_reduce_prod_bool_complex;
  "awkward_content_reduce_zeroparents_64", K_content_reduce_zeroparents;
  "awkward_reduce_argmax_bool_64", K_reduce_argmax;
  "awkward_reduce_argmin_bool_64", K_reduce_argmin;
]

(* models of Kernels2.v *)
let table2 : (string * kname2) list = [
  "awkward_ByteMaskedArray_getitem_carry", K2_ByteMaskedArray_getitem_carry;
  "awkward_ByteMaskedArray_mask", K2_ByteMaskedArray_mask;
  "awkward_ByteMaskedArray_numnull", K2_ByteMaskedArray_numnull;
  "awkward_ByteMaskedArray_overlay_mask", K2_ByteMaskedArray_overlay_mask;
  "awkward_ByteMaskedArray_reduce_next_64", K2_ByteMaskedArray_reduce_next;
  "awkward_ByteMaskedArray_reduce_next_nonlocal_nextshifts_64", K2_ByteMaskedArray_nextshifts;
  "awkward_ByteMaskedArray_reduce_next_nonlocal_nextshifts_fromshifts_64", K2_ByteMaskedArray_nextshifts_fromshifts;
  "awkward_IndexedArray_reduce_next_nonlocal_nextshifts_64", K2_IndexedArray_nextshifts;
  "awkward_IndexedArray_reduce_next_nonlocal_nextshifts_fromshifts_64", K2_IndexedArray_nextshifts_fromshifts;
  "awkward_Content_getitem_next_missing_jagged_getmaskstartstop", K2_Content_getmaskstartstop;
  "awkward_MaskedArray_getitem_next_jagged_project", K2_MaskedArray_jagged_project;
  "awkward_Index_iscontiguous", K2_Index_iscontiguous;
  "awkward_Index_to_Index64", K2_Index_to_Index64;
  "awkward_IndexedArray_fill_count", K2_IndexedArray_fill_count;
  "awkward_IndexedArray_getitem_adjust_outindex", K2_IndexedArray_getitem_adjust_outindex;
  "awkward_IndexedArray_getitem_carry", K2_IndexedArray_getitem_carry;
  "awkward_IndexedArray_mask", K2_IndexedArray_mask;
  "awkward_IndexedArray_index_of_nulls", K2_IndexedArray_index_of_nulls;
  "awkward_IndexedArray_overlay_mask", K2_IndexedArray_overlay_mask;
  "awkward_IndexedArray_reduce_next_64", K2_IndexedArray_reduce_next;
  "awkward_IndexedArray_reduce_next_fix_offsets_64", K2_IndexedArray_reduce_next_fix_offsets;
  "awkward_IndexedArray_simplify", K2_IndexedArray_simplify;
  "awkward_IndexedArray_ranges_next_64", K2_IndexedArray_ranges_next;
  "awkward_IndexedArray_ranges_carry_next_64", K2_IndexedArray_ranges_carry_next;
  "awkward_IndexedOptionArray_rpad_and_clip_mask_axis1", K2_IndexedOptionArray_rpad_and_clip_mask_axis1;
  "awkward_index_carry", K2_index_carry;
  "awkward_index_carry_nocheck", K2_index_carry_nocheck;
  "awkward_Index_nones_as_index", K2_Index_nones_as_index;
  "awkward_carry_SliceMissing64_outindex", K2_carry_SliceMissing64_outindex;
  "awkward_missing_repeat", K2_missing_repeat;
  "awkward_slicemissing_check_same", K2_slicemissing_check_same;
  "awkward_one_mask", K2_one_mask;
  "awkward_zero_mask", K2_zero_mask;
  "awkward_ListArray_getitem_jagged_apply", K2_jagged_apply;
  "awkward_ListArray_getitem_jagged_carrylen", K2_jagged_carrylen;
  "awkward_ListArray_getitem_jagged_descend", K2_jagged_descend;
  "awkward_ListArray_getitem_jagged_expand", K2_jagged_expand;
  "awkward_ListArray_getitem_jagged_numvalid", K2_jagged_numvalid;
  "awkward_ListArray_getitem_jagged_shrink", K2_jagged_shrink;
  "awkward_ListOffsetArray_getitem_adjust_offsets", K2_adjust_offsets;
  "awkward_ListOffsetArray_getitem_adjust_offsets_index", K2_adjust_offsets_index;
  "awkward_ListOffsetArray_reduce_global_startstop_64", K2_reduce_global_startstop;
  "awkward_ListOffsetArray_toRegularArray", K2_toRegularArray;
  "awkward_RegularArray_getitem_jagged_expand", K2_RegularArray_jagged_expand;
  "awkward_SliceVarNewAxis_to_SliceJagged64", K2_SliceVarNewAxis;
  "awkward_carry_SliceJagged64_offsets", K2_SliceJagged64_offsets;
  "awkward_carry_SliceJagged64_nextcarry", K2_SliceJagged64_nextcarry;
  "awkward_combinations", K2_combinations;
  "awkward_NumpyArray_contiguous_copy_from_many", K2_contiguous_copy_from_many;
  "awkward_NumpyArray_contiguous_init", K2_contiguous_init;
  "awkward_NumpyArray_contiguous_next", K2_contiguous_next;
  "awkward_NumpyArray_fill_frombool", K2_fill_frombool;
  "awkward_NumpyArray_fill_tobool", K2_fill_tobool;
  "awkward_NumpyArray_fill_scaled", K2_fill_scaled;
  "awkward_NumpyArray_getitem_boolean_nonzero", K2_boolean_nonzero;
  "awkward_NumpyArray_getitem_boolean_numtrue", K2_boolean_numtrue;
  "awkward_NumpyArray_getitem_next_array", K2_Numpy_next_array;
  "awkward_NumpyArray_getitem_next_array_advanced", K2_Numpy_next_array_advanced;
  "awkward_NumpyArray_getitem_next_at", K2_Numpy_next_at;
  "awkward_NumpyArray_getitem_next_range", K2_Numpy_next_range;
  "awkward_NumpyArray_getitem_next_range_advanced", K2_Numpy_next_range_advanced;
  "awkward_NumpyArray_reduce_adjust_starts_64", K2_reduce_adjust_starts;
  "awkward_NumpyArray_reduce_adjust_starts_shifts_64", K2_reduce_adjust_starts_shifts;
  "awkward_NumpyArray_reduce_mask_ByteMaskedArray_64", K2_reduce_mask_ByteMaskedArray;
  "awkward_reduce_prod_int32_bool_64", K2_reduce_prod_int_bool;
  "awkward_reduce_prod_int64_bool_64", K2_reduce_prod_int_bool;
  "awkward_slicearray_ravel", K2_slicearray_ravel;
  "awkward_UnionArray_fillindex_count", K2_fillindex_count;
  "awkward_UnionArray_filltags_const", K2_filltags_const;
  "awkward_UnionArray_flatten_length", K2_flatten_length;
  "awkward_UnionArray_flatten_combine", K2_flatten_combine;
  "awkward_UnionArray_nestedfill_tags_index", K2_nestedfill_tags_index;
  "awkward_UnionArray_project", K2_project;
  "awkward_UnionArray_regular_index", K2_regular_index;
  "awkward_UnionArray_regular_index_getsize", K2_regular_index_getsize;
  "awkward_UnionArray_simplify", K2_simplify;
  "awkward_UnionArray_simplify_one", K2_simplify_one;
  "awkward_argsort", K2_argsort;
  "awkward_sort", K2_sort;
  "awkward_ListOffsetArray_local_preparenext_64", K2_local_preparenext;
  "awkward_ListOffsetArray_argsort_strings", K2_argsort_strings;
  "awkward_NumpyArray_sort_asstrings_uint8", K2_sort_asstrings;
  "awkward_NumpyArray_unique_strings", K2_unique_strings;
  "awkward_quick_sort", K2_quick_sort;
  "awkward_quick_argsort", K2_quick_argsort;
  "awkward_Identities32_to_Identities64", K2_Identities32_to_64;
  "awkward_Identities_extend", K2_Identities_extend;
  "awkward_Identities_from_IndexedArray", K2_Identities_from_IndexedArray;
  "awkward_Identities_from_ListArray", K2_Identities_from_ListArray;
  "awkward_Identities_from_ListOffsetArray", K2_Identities_from_ListOffsetArray;
  "awkward_Identities_from_RegularArray", K2_Identities_from_RegularArray;
  "awkward_Identities_from_UnionArray", K2_Identities_from_UnionArray;
  "awkward_Identities_getitem_carry", K2_Identities_getitem_carry;
]

let handle (line : string) : string =
  match Sx.parse line with
  | Sx.L (Sx.A id :: Sx.A kn :: Sx.L tys :: args) ->
      (try
        let ts = List.map (function Sx.A t -> ity_of t | _ -> failwith "type atom expected") tys in
        let a = List.map val_of args in
        let ok outs = "(" ^ id ^ " ok" ^ String.concat "" (List.map (fun v -> " " ^ string_of_val v) outs) ^ ")" in
        (match List.assoc_opt kn table with
         | Some k ->
             (match run k ts a with
              | KOk outs -> ok outs
              | KErr m -> "(" ^ id ^ " err " ^ string_of_msg m ^ ")"
              | KOob -> "(" ^ id ^ " oob)")
         | None ->
             let k = try List.assoc kn table2 with Not_found -> failwith ("no model for " ^ kn) in
             (match run2 k ts a with
              | XOk outs -> ok outs
              | XErr m -> "(" ^ id ^ " err " ^ string_of_msg2 m ^ ")"
              | XOob -> "(" ^ id ^ " oob)"))
      with Failure m -> "(" ^ id ^ " bad " ^ m ^ ")"
         | Stack_overflow -> "(" ^ id ^ " bad stack overflow)")
  | _ -> "(? bad unparsable line)"
  | exception Sx.Parse m -> "(? bad " ^ m ^ ")"

let () =
  if Array.length Sys.argv > 1 && Sys.argv.(1) = "--list" then
    (List.iter (fun (n, _) -> print_endline n) table; List.iter (fun (n, _) -> print_endline n) table2)
  else
    try
      while true do
        let line = input_line stdin in
        if String.trim line <> "" then print_endline (handle line)
      done
    with End_of_file -> ()
