(** C17b, the element of a list-type array AS AN ARRAY: for the three list node classes, element i is the
    range slice of the content between the node's bounds; that array is valid, its elements are the element's
    list, and its type WITH parameters is the type that [item_types] lists as the array's IArray item
    (what Content::getitem_at returns for ListOffsetArray / ListArray / RegularArray). *)
From Coq Require Import ZArith List Bool Lia ZifyBool String.
From AwkV Require Import Base Layout LayoutInd Valid Types Carry AtAxis Proofs_Lists Proofs_ToList
                         Proofs_Carry Proofs_CarryValid Proofs_AtAxis Proofs_AtAxisOps Proofs_Closure Proofs_C11.
From AwkTypes Require Import Json Forms TypeStr Typing Proofs_Depth Proofs_Types Proofs_Typing Examples_C17
                             Proofs_C17b_Elem Proofs_C17b_ElemRange.
Import ListNotations.
Open Scope Z_scope.
Ltac Zify.zify_post_hook ::= Z.to_euclidean_division_equations.

(* specification-level: getitem_at(i) of a list node = content[start_i : stop_i] *)
Definition elem_array (c : content) (i : Z) : res content :=
  do bc <- list_bounds c; do ab <- get (fst bc) i; crange (snd bc) (fst ab) (snd ab).

Lemma item_types_list_node ts c cc :
  list_content c = Some cc -> item_types ts (form_of c) = do t <- type_of_form ts (form_of cc); Ok [TypeStr.IArray t].
Proof. intros H. destruct c; try discriminate H; cbn [list_content] in H; inversion H; subst; reflexivity. Qed.

Theorem list_element_is_array_thm c cc vs i v :
  Valid None c -> list_content c = Some cc -> to_list c = Ok vs -> get vs i = Ok v ->
  exists e l, elem_array c i = Ok e /\ Valid None e /\ to_list e = Ok l /\ v = VList l /\
    type_of e = type_of cc /\
    (forall ts, type_of_form ts (form_of e) = type_of_form ts (form_of cc)) /\
    (forall ts, item_types ts (form_of c) = do t <- type_of_form ts (form_of e); Ok [TypeStr.IArray t]).
Proof.
  intros HV Hc Hl Hg.
  destruct (list_bounds_spec c cc vs Hc Hl) as (bs & vs0 & ls & Hb & Hl0 & Hcut & ->).
  destruct (list_bounds_valid None c bs cc HV Hb) as (_ & _ & Hpo & HVc). specialize (HVc eq_refl).
  rewrite get_map in Hg. apply rmap_Ok in Hg as (l & Hgl & ->).
  rewrite (mapM_get _ _ _ i Hcut) in Hgl. apply bind_Ok in Hgl as ([a b] & Hab & Hcl).
  rewrite Forall_forall in Hpo. pose proof (Hpo _ (get_In _ _ _ Hab)) as Hp. unfold pair_ok in Hp. cbn [fst snd] in Hp.
  unfold elem_array. rewrite Hb. cbn [bind fst snd]. rewrite Hab. cbn [bind fst snd].
  assert (He : exists e, crange cc a b = Ok e /\ Valid None e /\ to_list e = Ok l).
  { unfold cut1 in Hcl. destruct (a =? b) eqn:E.
    - inversion Hcl; subst l. unfold crange. rewrite range_empty by lia.
      destruct (carry_spec cc vs0 [] HVc Hl0 (Forall_nil _)) as (e & He & Hle & _).
      exists e. split; [exact He|]. split; [exact (carry_valid cc vs0 [] e HVc Hl0 (Forall_nil _) He)|exact Hle].
    - assert (Hr : 0 <= a /\ a <= b /\ b <= clen cc) by lia. destruct Hr as (H1 & H2 & H3).
      destruct (crange_spec cc vs0 a b HVc Hl0 H1 H2 H3) as (e & He & Hle & _).
      exists e. split; [exact He|]. split; [exact (crange_valid cc vs0 a b e HVc Hl0 H1 H2 H3 He)|]. congruence. }
  destruct He as (e & He & HVe & Hle). exists e, l. split; [exact He|]. split; [exact HVe|]. split; [exact Hle|].
  split; [reflexivity|]. split; [exact (carry_preserves_type cc None _ _ He)|].
  split; [intros ts; exact (crange_preserves_rtype_thm ts cc a b e He)|].
  intros ts. rewrite (crange_preserves_rtype_thm ts cc a b e He). exact (item_types_list_node ts c cc Hc).
Qed.

(* ---------------------------------------------------------------- n-d NumpyArray: the element as a (d-1)-dimensional array *)
(* specification-level: getitem_at(i) of an n-d NumpyArray = the i-th block of the buffer with the inner shape *)
Definition numpy_elem (c : content) (i : Z) : res content :=
  match c with
  | Numpy dt (_ :: ((_ :: _) as dims)) data =>
      do row <- slice data (i * prodZ dims) ((i + 1) * prodZ dims); Ok (Numpy dt dims row)
  | _ => Err EValue
  end.

Lemma chunks_one {A} (inner : list A) d ch : chunks inner d 1 = Ok ch -> zlen inner = d -> ch = [inner].
Proof.
  intros H Hz. pose proof (chunks_zlen _ _ _ _ H) as [Hs Hl].
  assert (Hl1 : zlen ch = 1).
  { destruct (d =? 0) eqn:E; [lia|]. rewrite Hl, Hz. apply Z.div_same. lia. }
  destruct ch as [|l0 ch]; [rewrite zlen_nil in Hl1; lia|].
  destruct ch as [|l1 ch]; [|rewrite !zlen_cons in Hl1; pose proof (zlen_nonneg ch); lia].
  assert (Hr0 : 0 <= 0 < zlen [l0]) by (rewrite zlen_cons; pose proof (zlen_nonneg (@nil (list A))); lia).
  pose proof (chunks_get inner d 1 [l0] 0 H Hr0) as Hg. rewrite get_cons_0 in Hg.
  rewrite slice_ok in Hg by lia.
  replace ((0 + 1) * d - 0 * d) with d in Hg by ring. replace (0 * d) with 0 in Hg by ring.
  change (drop 0 inner) with inner in Hg. rewrite take_all in Hg by lia. congruence.
Qed.

Theorem numpy_element_is_array_thm dt n d rest data vs i v :
  to_list (Numpy dt (n :: d :: rest) data) = Ok vs -> get vs i = Ok v ->
  exists e l, numpy_elem (Numpy dt (n :: d :: rest) data) i = Ok e /\ to_list e = Ok l /\ v = VList l /\
    type_of e = numpy_ty dt rest /\
    forall ts, item_types ts (form_of (Numpy dt (n :: d :: rest) data)) =
               do t <- type_of_form ts (form_of e); Ok [TypeStr.IArray t].
Proof.
  intros Hl Hg. apply to_list_Numpy_inv in Hl as (n' & dims & Hsh & Hs & Hd & Hn). inversion Hsh; subst n' dims.
  inversion Hs as [|? ? Hn0 Hds]; subst. set (dims := d :: rest) in *.
  set (rs := prodZ dims) in *. assert (Hrs : 0 <= rs) by (apply prodZ_nonneg, Hds).
  rewrite prodZ_cons in Hd, Hn. fold rs in Hd, Hn.
  set (w := map (leaf dt) (take (n * rs) data)) in *.
  assert (Hw : zlen w = n * rs) by (unfold w; rewrite zlen_map, zlen_take; [reflexivity|nia]).
  assert (Hvs : zlen vs = n) by (eapply nest_zlen; [exact Hn|exact Hds|lia|exact Hw]).
  pose proof (get_range _ _ _ Hg) as Hi. rewrite Hvs in Hi.
  destruct (nest_get dims n w vs i Hds Hi Hw Hn) as (y & Hy & Hgy). fold rs in Hy.
  rewrite Hg in Hgy. inversion Hgy; subst y.
  set (row := take rs (drop (i * rs) data)).
  assert (Hrow : slice data (i * rs) ((i + 1) * rs) = Ok row).
  { rewrite slice_ok by nia. unfold row. do 2 f_equal. ring. }
  assert (Hzr : zlen row = rs) by (unfold row; rewrite zlen_take; [reflexivity|]; rewrite zlen_drop by nia; nia).
  assert (Hblk : take rs (drop (i * rs) w) = map (leaf dt) row).
  { unfold w, row. rewrite !map_take, map_drop. rewrite take_drop_take by nia. reflexivity. }
  rewrite Hblk in Hy.
  inversion Hds as [|? ? Hd0 Hrest]; subst.
  unfold dims in Hy. cbn [nest] in Hy. apply bind_Ok in Hy as (inner & Hinner & Hy). apply bind_Ok in Hy as (ch & Hch & Hy).
  replace (1 * d) with d in Hinner by lia.
  assert (Hzi : zlen inner = d).
  { eapply nest_zlen; [exact Hinner|exact Hrest|lia|]. rewrite zlen_map, Hzr. unfold rs, dims. rewrite prodZ_cons. reflexivity. }
  rewrite (chunks_one inner d ch Hch Hzi) in Hy. cbn [map] in Hy. inversion Hy; subst v.
  exists (Numpy dt dims row), inner. split.
  { unfold numpy_elem. fold dims. fold rs. rewrite Hrow. reflexivity. }
  split.
  { unfold dims. rewrite to_list_Numpy. rewrite Forall_nonneg_existsb by exact Hds. fold dims. fold rs.
    destruct (zlen row <? rs) eqn:E; [lia|]. rewrite take_all by lia. exact Hinner. }
  split; [reflexivity|]. split; [reflexivity|]. intros ts. reflexivity.
Qed.

(* ---------------------------------------------------------------- examples *)
Example ex_elem_array :
  exists e t, elem_array ex_layout 0 = Ok e /\
    to_list e = Ok [VRec [([120], VNum (DZ 1)); ([121], VStr true [97; 98])]; VRec [([120], VNum (DZ 2)); ([121], VNone)]] /\
    type_of_form [(s_string, p_string)] (form_of e) = Ok t /\
    item_types [(s_string, p_string)] (form_of ex_layout) = Ok [TypeStr.IArray t] /\
    type_tostring t = bytes_of_string "{""x"": int64, ""y"": option[string]}"%string.
Proof. do 2 eexists. split; [vm_compute; reflexivity|]. split; [vm_compute; reflexivity|].
  split; [vm_compute; reflexivity|]. split; vm_compute; reflexivity. Qed.

Example ex_elem_array_thm : forall i v, get [VList [VRec [([120], VNum (DZ 1)); ([121], VStr true [97; 98])];
             VRec [([120], VNum (DZ 2)); ([121], VNone)]]; VList []] i = Ok v ->
  exists e l, elem_array ex_layout i = Ok e /\ Valid None e /\ to_list e = Ok l /\ v = VList l.
Proof.
  intros i v Hg.
  destruct (list_element_is_array_thm ex_layout _ _ i v ex_valid eq_refl ex_to_list Hg) as (e & l & H1 & H2 & H3 & H4 & _).
  exists e, l. auto.
Qed.

(* RegularArray of size 0: every element is the empty slice, still an array of the content's type *)
Example ex_elem_array_regular0 :
  elem_array (Regular (Numpy DInt64 [3; 2] [DZ 1; DZ 2; DZ 3; DZ 4; DZ 5; DZ 6]) 0 4) 3 = Ok (Numpy DInt64 [0; 2] []) /\
  item_types [] (form_of (Regular (Numpy DInt64 [3; 2] [DZ 1; DZ 2; DZ 3; DZ 4; DZ 5; DZ 6]) 0 4)) =
    rmap (fun t => [TypeStr.IArray t]) (type_of_form [] (form_of (Numpy DInt64 [0; 2] []))).
Proof. split; vm_compute; reflexivity. Qed.

Example ex_numpy_elem :
  numpy_elem (Numpy DInt64 [3; 2] [DZ 1; DZ 2; DZ 3; DZ 4; DZ 5; DZ 6]) 1 = Ok (Numpy DInt64 [2] [DZ 3; DZ 4]) /\
  numpy_elem (Numpy DInt64 [2; 0; 3] []) 1 = Ok (Numpy DInt64 [0; 3] []) /\
  item_types [] (form_of (Numpy DInt64 [2; 0; 3] [])) =
    rmap (fun t => [TypeStr.IArray t]) (type_of_form [] (form_of (Numpy DInt64 [0; 3] []))) /\
  rmap type_tostring (type_of_form [] (form_of (Numpy DInt64 [0; 3] []))) = Ok (bytes_of_string "3 * int64"%string).
Proof. vm_compute. repeat split. Qed.
