(** C03 property theorems (proofs in Proofs_C03.v), about the reducer specification
    ([leaf_reduce] for one group of leaves, [zipred] across lists). The layout-level model [zl]
    and the implementation are tied to it by correspondence. *)
From AwkV Require Import Layout Ops_Reduce Proofs_C03.

(* an empty group yields the identity ... *)
Theorem empty_group_yields_identity : forall dt,
  leaf_reduce RCount false dt [] = Some (VNum (DZ 0)) /\
  leaf_reduce RCountNonzero false dt [] = Some (VNum (DZ 0)) /\
  leaf_reduce RSum false dt [] = Some (VNum (DZ (wrap_acc dt 0))) /\
  leaf_reduce RProd false dt [] = Some (VNum (DZ (wrap_acc dt 1))) /\
  leaf_reduce RAny false dt [] = Some (VBool false) /\
  leaf_reduce RAll false dt [] = Some (VBool true) /\
  leaf_reduce RArgmin false dt [] = Some (VNum (DZ (-1))) /\
  leaf_reduce RArgmax false dt [] = Some (VNum (DZ (-1))).
Proof. exact empty_group_identity. Qed.
Print Assumptions empty_group_yields_identity.

(* ... or None under mask_identity, for every reducer *)
Theorem empty_group_is_none_under_mask : forall r dt, leaf_reduce r true dt [] = None.
Proof. exact empty_group_masked. Qed.
Print Assumptions empty_group_is_none_under_mask.

Theorem count_is_group_size : forall mask dt l,
  leaf_reduce RCount mask dt l = (match l, mask with [], true => None | _, _ => Some (VNum (DZ (zlen l))) end).
Proof. exact count_counts. Qed.
Print Assumptions count_is_group_size.

Theorem sum_is_wrapped_sum : forall mask dt x xs,
  leaf_reduce RSum mask dt (map (fun v => (0, v)) (x :: xs)) =
  Some (VNum (DZ (wrap_acc dt (fold_left Z.add (x :: xs) 0)))).
Proof. exact sum_is_sum. Qed.
Print Assumptions sum_is_wrapped_sum.

Theorem accumulator_does_not_wrap_small_values : forall dt z,
  - two63 <= z < two63 -> is_unsigned dt = false -> wrap_acc dt z = z.
Proof. exact wrap_acc_small. Qed.
Print Assumptions accumulator_does_not_wrap_small_values.

(* argmin gives the position within the group of the FIRST minimal element
   (positions are those handed in, i.e. they count skipped missing values) *)
Theorem argmin_first_extremum : forall l j,
  leaf_reduce RArgmin false DInt64 l = Some (VNum (DZ j)) -> l <> [] ->
  exists x pre post, l = pre ++ (j, x) :: post /\
                     (forall j' x', In (j', x') l -> x <= x') /\
                     (forall j' x', In (j', x') pre -> x < x').
Proof. exact argmin_is_first_minimum. Qed.
Print Assumptions argmin_first_extremum.

(* reducing across lists of unequal length: one output per position of the longest list *)
Theorem nonlocal_result_length : forall r mask sz t' xs out,
  zipred r mask (TList sz None t') xs = Ok (VList out) ->
  exists ls, mapM (fun jv : Z * value => match snd jv with VList l => Ok (fst jv, l) | _ => Err EValue end) xs = Ok ls /\
             zlen out = fold_left Z.max (map (fun jl : Z * list value => zlen (snd jl)) ls) 0.
Proof. exact zipred_list_shape. Qed.
Print Assumptions nonlocal_result_length.

(* the group at position p consists exactly of the p-th elements of the lists long enough, in order *)
Theorem group_is_column : forall p (ls : list (Z * list value)),
  column p ls = flat_map (fun jl : Z * list value =>
                            match nth_error (snd jl) (Z.to_nat p) with
                            | Some v => if p <? 0 then [] else [(fst jl, v)]
                            | None => []
                            end) ls.
Proof. exact column_spec. Qed.
Print Assumptions group_is_column.
