(** C08 model: concatenate / merge / simplify / numbers_to_type.
    MODEL ONLY (no proofs).  Follows /repo/src/libawkward (Content.cpp, array/*.cpp) per node class and
    the axis=0 branch of ak.concatenate (src/awkward/operations/structure.py). *)
From AwkV Require Export Carry AtAxis.

(* ================================================================ dtypes *)
Definition dt_idx (d : dtype) : Z :=
  match d with
  | DBool => 0 | DInt8 => 1 | DInt16 => 2 | DInt32 => 3 | DInt64 => 4
  | DUInt8 => 5 | DUInt16 => 6 | DUInt32 => 7 | DUInt64 => 8 | DFloat32 => 9 | DFloat64 => 10
  end.
Definition dt_eqb (a b : dtype) : bool := dt_idx a =? dt_idx b.

(* util::is_signed *)
Definition is_signed (d : dtype) : bool :=
  match d with DInt8 | DInt16 | DInt32 | DInt64 => true | _ => false end.
Definition in4 (d : dtype) : bool :=      (* uint64 / int64 / uint32 / int32 *)
  match d with DUInt64 | DInt64 | DUInt32 | DInt32 => true | _ => false end.

(* NumpyArray::mergemany, the "handle booleans and numbers" if-chain, restricted to the 11 modelled
   dtypes (float16/float128/complex/datetime branches cannot fire).  [n] = nextdtype, [t] = thatdtype. *)
Definition promote (n t : dtype) : dtype :=
  let is := dt_eqb in
  if is n DFloat64 || is t DFloat64 then DFloat64
  else if (is n DFloat32 && in4 t) || (is t DFloat32 && in4 n) then DFloat64
  else if is n DFloat32 || is t DFloat32 then DFloat32
  else if (is n DUInt64 && is_signed t) || (is t DUInt64 && is_signed n) then DFloat64
  else if is n DUInt64 || is t DUInt64 then DUInt64
  else if is n DInt64 || is t DInt64 then DInt64
  else if (is n DUInt32 && is_signed t) || (is t DUInt32 && is_signed n) then DInt64
  else if is n DUInt32 || is t DUInt32 then DUInt32
  else if is n DInt32 || is t DInt32 then DInt32
  else if (is n DUInt16 && is_signed t) || (is t DUInt16 && is_signed n) then DInt32
  else if is n DUInt16 || is t DUInt16 then DUInt16
  else if is n DInt16 || is t DInt16 then DInt16
  else if (is n DUInt8 && is_signed t) || (is t DUInt8 && is_signed n) then DInt16
  else if is n DUInt8 || is t DUInt8 then DUInt8
  else if is n DInt8 || is t DInt8 then DInt8
  else if is n DBool && is t DBool then DBool
  else n.

(* NumPy's promotion (numpy.result_type / what numpy.concatenate uses) for the same 11 dtypes, written
   from NumPy's rules: by kind (b < u,i < f) and item size. *)
Inductive nkind := KB | KI | KU | KF.
Definition kind_of (d : dtype) : nkind :=
  match d with
  | DBool => KB
  | DInt8 | DInt16 | DInt32 | DInt64 => KI
  | DUInt8 | DUInt16 | DUInt32 | DUInt64 => KU
  | DFloat32 | DFloat64 => KF
  end.
Definition bits_of (d : dtype) : Z :=
  match d with
  | DBool => 8
  | DInt8 | DUInt8 => 8 | DInt16 | DUInt16 => 16 | DInt32 | DUInt32 | DFloat32 => 32
  | DInt64 | DUInt64 | DFloat64 => 64
  end.
Definition sint (bits : Z) : dtype :=
  if bits <=? 8 then DInt8 else if bits <=? 16 then DInt16 else if bits <=? 32 then DInt32 else DInt64.
Definition uint (bits : Z) : dtype :=
  if bits <=? 8 then DUInt8 else if bits <=? 16 then DUInt16 else if bits <=? 32 then DUInt32 else DUInt64.
Definition flt (bits : Z) : dtype := if bits <=? 32 then DFloat32 else DFloat64.
(* smallest signed integer holding both a signed of [s] bits and an unsigned of [u] bits; float64 when none *)
Definition mix_su (s u : Z) : dtype :=
  if u <? s then sint s else if 64 <=? u then DFloat64 else sint (2 * u).
(* smallest float holding an integer of [i] bits exactly enough for NumPy: 8/16 -> float32, 32/64 -> float64 *)
Definition flt_for_int (i : Z) : Z := if i <=? 16 then 32 else 64.
Definition numpy_promote (a b : dtype) : dtype :=
  match kind_of a, kind_of b with
  | KB, _ => b
  | _, KB => a
  | KI, KI => sint (Z.max (bits_of a) (bits_of b))
  | KU, KU => uint (Z.max (bits_of a) (bits_of b))
  | KI, KU => mix_su (bits_of a) (bits_of b)
  | KU, KI => mix_su (bits_of b) (bits_of a)
  | KF, KF => flt (Z.max (bits_of a) (bits_of b))
  | KF, _ => flt (Z.max (bits_of a) (flt_for_int (bits_of b)))
  | _, KF => flt (Z.max (bits_of b) (flt_for_int (bits_of a)))
  end.

(* the per-target lists of accepted source dtypes in the fill switch of NumpyArray::mergemany *)
Definition fill_ok (src dst : dtype) : bool :=
  match dst with
  | DBool => match src with DBool => true | _ => false end
  | DInt8 => match src with DBool | DInt8 => true | _ => false end
  | DInt16 => match src with DBool | DInt8 | DInt16 | DUInt8 => true | _ => false end
  | DInt32 => match src with DBool | DInt8 | DInt16 | DInt32 | DUInt8 | DUInt16 => true | _ => false end
  | DInt64 => match src with DBool | DInt8 | DInt16 | DInt32 | DInt64 | DUInt8 | DUInt16 | DUInt32 => true | _ => false end
  | DUInt8 => match src with DBool | DUInt8 => true | _ => false end
  | DUInt16 => match src with DBool | DUInt8 | DUInt16 => true | _ => false end
  | DUInt32 => match src with DBool | DUInt8 | DUInt16 | DUInt32 => true | _ => false end
  | DUInt64 => match src with DBool | DUInt8 | DUInt16 | DUInt32 | DUInt64 => true | _ => false end
  | DFloat32 => match src with DBool | DInt8 | DInt16 | DUInt8 | DUInt16 | DFloat32 => true | _ => false end
  | DFloat64 => true
  end.

(* a stored boolean is 0/1; every widening accepted by [fill_ok] is exact on the integers the model
   carries, so the only visible cast is bool -> number *)
Definition bool_datum (d : datum) : datum :=
  match d with DZ z => DZ (if z =? 0 then 0 else 1) | _ => DZ 1 end.
Definition fill_datum (src : dtype) (d : datum) : datum :=
  match src with DBool => bool_datum d | _ => d end.

(* ================================================================ parameters (__array__, __record__) *)
Definition pars := (option akind * option name)%type.
Definition nopar : pars := (None, None).
Definition akind_eqb (a b : akind) : bool :=
  match a, b with
  | AString, AString | ABytestring, ABytestring | AChar, AChar | AByte, AByte | ACategorical, ACategorical => true
  | _, _ => false
  end.
Definition nm_eqb (a b : name) : bool := list_eqb Z.eqb a b.
(* util::parameters_equal(check_all = false) *)
Definition pars_eqb (p q : pars) : bool :=
  opt_eqb akind_eqb (fst p) (fst q) && opt_eqb nm_eqb (snd p) (snd q).
(* util::merge_parameters: a key survives iff the other side has an equal value *)
Definition merge_pars (p q : pars) : pars :=
  ((if opt_eqb akind_eqb (fst p) (fst q) then fst p else None),
   (if opt_eqb nm_eqb (snd p) (snd q) then snd p else None)).
Definition params (c : content) : pars := match c with Par a r _ => (a, r) | _ => nopar end.
Definition body (c : content) : content := match c with Par _ _ c' => c' | _ => c end.
Definition mkpar (p : pars) (c : content) : content :=
  match p with (None, None) => c | (a, r) => Par a r c end.
Definition is_chars_par (p : pars) : bool :=
  match fst p with Some AChar | Some AByte => true | _ => false end.

Definition is_ixopt (c : content) : bool :=
  match body c with
  | Indexed _ _ _ | IndexedOption _ _ _ | ByteMasked _ _ _ | BitMasked _ _ _ _ _ | Unmasked _ => true
  | _ => false
  end.
Definition is_union (c : content) : bool := match body c with Union _ _ _ _ => true | _ => false end.

(* ================================================================ mergeable *)
(* sorted key lists are compared (std::sort on std::string = bytewise lexicographic) *)
Fixpoint name_ltb (a b : name) : bool :=
  match a, b with
  | [], [] => false
  | [], _ :: _ => true
  | _ :: _, [] => false
  | x :: xs, y :: ys => if x <? y then true else if y <? x then false else name_ltb xs ys
  end.
Fixpoint insert_name (k : name) (l : list name) : list name :=
  match l with
  | [] => [k]
  | x :: xs => if name_ltb k x then k :: l else x :: insert_name k xs
  end.
Definition sort_names (l : list name) : list name := fold_right insert_name [] l.
Definition same_keys (ks ks' : list name) : bool := list_eqb nm_eqb (sort_names ks) (sort_names ks').

(* RecordArray::field(key): first field with that name *)
Fixpoint find_field (k : name) (ks : list name) (cs : list content) : option content :=
  match ks, cs with
  | k' :: ks', c :: cs' => if nm_eqb k k' then Some c else find_field k ks' cs'
  | _, _ => None
  end.

(* what a non-indexed class does with [other] before looking at its own class: parameter check, then
   EmptyArray / UnionArray => true, indexed / option node => retry with its content *)
Inductive peeled := PFalse | PTrue | PNode (b : content).
Fixpoint peel (pa pb : pars) (b : content) {struct b} : peeled :=
  match b with
  | Par x r b' => match pb with (None, None) => peel pa (x, r) b' | _ => PFalse end
  | Empty | Union _ _ _ _ => if pars_eqb pa pb then PTrue else PFalse
  | Indexed _ _ b' | IndexedOption _ _ b' | ByteMasked _ _ b' | BitMasked _ _ _ _ b' | Unmasked b' =>
      if pars_eqb pa pb then peel pa nopar b' else PFalse
  | _ => if pars_eqb pa pb then PNode b else PFalse
  end.

Definition numpy_mergeable (mb : bool) (dt : dtype) (sh : list Z) (b : content) : bool :=
  match sh with
  | [] => false
  | _ :: dims =>
      match b with
      | Numpy dt' sh' _ =>
          Nat.eqb (length sh) (length sh') &&
          negb (negb mb && negb (dt_eqb dt dt') && (dt_eqb dt DBool || dt_eqb dt' DBool)) &&
          list_eqb Z.eqb dims (tl sh')
      | _ => false
      end
  end.

Fixpoint mg (mb : bool) (pa : pars) (a : content) {struct a} : content -> bool :=
  match a with
  | Par x r a' => match pa with (None, None) => mg mb (x, r) a' | _ => fun _ => false end
  | Empty | Union _ _ _ _ => fun b => pars_eqb pa (params b)
  | Numpy dt sh _ => fun b =>
      match peel pa nopar b with
      | PFalse => false | PTrue => true
      | PNode b' => numpy_mergeable mb dt sh b'
      end
  | ListOffset _ _ ca | ListA _ _ _ ca | Regular ca _ _ => fun b =>
      match peel pa nopar b with
      | PFalse => false | PTrue => true
      | PNode b' =>
          match b' with
          | ListOffset _ _ cb | ListA _ _ _ cb | Regular cb _ _ => mg mb nopar ca cb
          | _ => false
          end
      end
  | Record cs ks _ => fun b =>
      match peel pa nopar b with
      | PFalse => false | PTrue => true
      | PNode b' =>
          match b' with
          | Record cs' ks' _ =>
              match ks, ks' with
              | None, None =>
                  (fix go (l l' : list content) : bool :=
                     match l, l' with
                     | [], [] => true
                     | x :: xs, y :: ys => mg mb nopar x y && go xs ys
                     | _, _ => false
                     end) cs cs'
              | Some k, Some k' =>
                  same_keys k k' &&
                  (fix go (l : list content) (kl : list name) : bool :=
                     match l, kl with
                     | [], _ => true
                     | x :: xs, kx :: kr =>
                         match find_field kx k' cs' with
                         | Some y => mg mb nopar x y && go xs kr
                         | None => false
                         end
                     | _ :: _, [] => false
                     end) cs k
              | _, _ => false
              end
          | _ => false
          end
      end
  | Indexed _ _ ca | IndexedOption _ _ ca | ByteMasked _ _ ca | BitMasked _ _ _ _ ca | Unmasked ca => fun b =>
      if negb (pars_eqb pa (params b)) then false else
      match body b with
      | Empty | Union _ _ _ _ => true
      | Indexed _ _ cb | IndexedOption _ _ cb | ByteMasked _ _ cb | BitMasked _ _ _ _ cb | Unmasked cb =>
          mg mb nopar ca cb
      | _ => mg mb nopar ca b
      end
  end.
Definition mergeable (mb : bool) (a b : content) : bool := mg mb nopar a b.
