(** Proofs_C13f.v -- further k_safe / k_spec theorems for the kernel models of Kernels2.v:
    kernels in the [xres] monad (new error messages), kernels with two output buffers in nested loops,
    and the insertion sort that models std::stable_sort *)
From Coq Require Import ZArith List Bool Lia ZifyBool.
From Coq Require Export Permutation Sorted.
From AwkV Require Import Base.
From AwkKernels Require Import Kernels KLemmas Proofs_C13 Proofs_C13b Proofs_C13c.
From AwkKernels Require Export Kernels2.
From AwkKernels Require Import Proofs_C13e.
Import ListNotations.
Open Scope Z_scope.

Ltac Zify.zify_post_hook ::= Z.to_euclidean_division_equations.

(* ================================================================================================ *)
(** * the [xres] monad *)
Lemma xget_at l i : 0 <= i < zlen l -> xget l i = XOk (at_ l i).
Proof. intros H. unfold xget. now rewrite kget_at. Qed.
Lemma xupd_ok l i v : 0 <= i < zlen l -> xupd l i v = XOk (set_nth l (Z.to_nat i) v).
Proof. intros H. unfold xupd. now rewrite kupd_ok. Qed.
Lemma lift_noob {A} (r : kres A) : r <> KOob -> lift r <> XOob.
Proof. destruct r; cbn; congruence. Qed.
Lemma xcheck_noob b m : xcheck b m <> XOob.
Proof. destruct b; cbn; congruence. Qed.

Section XFor.
  Context {S : Type}.
  Variable body : Z -> S -> xres S.

  Lemma xfor_nat_noob (P : Z -> S -> Prop) n i s :
    P i s ->
    (forall j s, i <= j < i + Z.of_nat n -> P j s ->
       body j s <> XOob /\ forall s', body j s = XOk s' -> P (j + 1) s') ->
    xfor_nat n i body s <> XOob /\
    forall s', xfor_nat n i body s = XOk s' -> P (i + Z.of_nat n) s'.
  Proof.
    revert i s; induction n; intros i s H0 Hstep.
    - cbn [xfor_nat]. split; [congruence|]. intros s' E; inversion E; subst.
      now replace (i + Z.of_nat 0) with i by lia.
    - cbn [xfor_nat]. destruct (Hstep i s) as (N & Pn); [lia|auto|].
      destruct (body i s) as [s1| |] eqn:E; cbn [xbind]; [|split; congruence|congruence].
      destruct (IHn (i + 1) s1 (Pn _ eq_refl)) as (N' & P').
      + intros j s0 Hj. apply Hstep. lia.
      + split; auto. intros s' E'. replace (i + Z.of_nat (Datatypes.S n)) with (i + 1 + Z.of_nat n) by lia. auto.
  Qed.

  Lemma xfor_noob (P : Z -> S -> Prop) lo hi s :
    P lo s ->
    (forall j s, lo <= j < hi -> P j s ->
       body j s <> XOob /\ forall s', body j s = XOk s' -> P (j + 1) s') ->
    xfor lo hi body s <> XOob /\
    forall s', xfor lo hi body s = XOk s' -> lo <= hi -> P hi s'.
  Proof.
    intros H0 Hstep. unfold xfor.
    destruct (xfor_nat_noob P (Z.to_nat (hi - lo)) lo s H0) as (N & P').
    - intros j s0 Hj. apply Hstep. lia.
    - split; auto. intros s' E Hle. specialize (P' s' E).
      assert (Q : lo + Z.of_nat (Z.to_nat (hi - lo)) = hi) by lia. now rewrite Q in P'.
  Qed.

  Lemma xfor_nat_inv (P : Z -> S -> Prop) n i s :
    P i s ->
    (forall j s, i <= j < i + Z.of_nat n -> P j s -> exists s', body j s = XOk s' /\ P (j + 1) s') ->
    exists s', xfor_nat n i body s = XOk s' /\ P (i + Z.of_nat n) s'.
  Proof.
    revert i s; induction n; intros i s H0 Hstep.
    - exists s. cbn [xfor_nat]. split; auto. now replace (i + Z.of_nat 0) with i by lia.
    - cbn [xfor_nat]. destruct (Hstep i s) as (s' & E & P'); [lia|auto|].
      rewrite E. cbn [xbind].
      destruct (IHn (i + 1) s' P') as (s'' & E' & P'').
      + intros j s0 Hj. apply Hstep. lia.
      + exists s''. split; auto. now replace (i + Z.of_nat (Datatypes.S n)) with (i + 1 + Z.of_nat n) by lia.
  Qed.

  Lemma xfor_inv (P : Z -> S -> Prop) lo hi s :
    lo <= hi -> P lo s ->
    (forall j s, lo <= j < hi -> P j s -> exists s', body j s = XOk s' /\ P (j + 1) s') ->
    exists s', xfor lo hi body s = XOk s' /\ P hi s'.
  Proof.
    intros Hle H0 Hstep. unfold xfor.
    destruct (xfor_nat_inv P (Z.to_nat (hi - lo)) lo s H0) as (s' & E & P').
    - intros j s0 Hj. apply Hstep. lia.
    - exists s'. split; auto.
      assert (Q : lo + Z.of_nat (Z.to_nat (hi - lo)) = hi) by lia. now rewrite Q in P'.
  Qed.
End XFor.

Ltac xstep :=
  repeat first
    [ rewrite xget_at by lia
    | rewrite xupd_ok by (rewrite ?zlen_set_nth; lia)
    | progress cbn [xbind fst snd] ].
Ltac xdone :=
  split; [congruence | let E := fresh "E" in intros ? E; inversion E; subst; cbn [fst snd]; rewrite ?zlen_set_nth; repeat split; lia].

(* ================================================================================================ *)
(** * awkward_ListOffsetArray_toRegularArray *)

Theorem ListOffsetArray_toRegularArray_safe size fromoffsets offsetslength :
  offsetslength <= zlen fromoffsets -> 1 <= zlen size ->
  ListOffsetArray_toRegularArray size fromoffsets offsetslength <> XOob.
Proof.
  intros H1 H2. unfold ListOffsetArray_toRegularArray. xstep.
  match goal with |- context [xfor ?lo ?hi ?bb ?ss] =>
    destruct (xfor_noob bb (fun _ s => zlen s = zlen size) lo hi ss) as (N & P) end.
  - apply zlen_set_nth.
  - intros j s Hj L. xstep.
    destruct (at_ fromoffsets (j + 1) - at_ fromoffsets j <? 0); cbn [xcheck xbind]; [split; congruence|].
    xstep. destruct (at_ s 0 =? -1); xstep; [xdone|].
    destruct (negb (at_ s 0 =? at_ fromoffsets (j + 1) - at_ fromoffsets j)); cbn [xcheck xbind]; [split; congruence|].
    xdone.
  - match goal with |- context [xfor ?lo ?hi ?bb ?ss] => destruct (xfor lo hi bb ss) as [s'| |] eqn:E end;
      cbn [xbind]; try congruence.
    destruct (Z_le_gt_dec 0 (offsetslength - 1)).
    + specialize (P s' eq_refl l). xstep. destruct (at_ s' 0 =? -1); xstep; congruence.
    + unfold xfor in E. replace (Z.to_nat (offsetslength - 1 - 0)) with O in E by lia. cbn in E. inversion E; subst.
      rewrite xget_at by (rewrite zlen_set_nth; lia). cbn [xbind].
      destruct (at_ _ 0 =? -1); [rewrite xupd_ok by (rewrite zlen_set_nth; lia)|]; congruence.
Qed.

(** a list of [n >= 1] sublists that all have [c >= 0] elements is regular with size [c] *)
Theorem ListOffsetArray_toRegularArray_spec x fromoffsets c :
  2 <= zlen fromoffsets -> 0 <= c ->
  (forall i, 0 <= i < zlen fromoffsets - 1 -> at_ fromoffsets (i + 1) - at_ fromoffsets i = c) ->
  ListOffsetArray_toRegularArray [x] fromoffsets (zlen fromoffsets) = XOk [c].
Proof.
  intros Hn Hc Hreg. unfold ListOffsetArray_toRegularArray. cbn [xupd kupd lift zlen length Z.of_nat].
  change (xupd [x] 0 (-1)) with (XOk [-1]). cbn [xbind].
  destruct (xfor_inv
    (fun i s =>
       let+ a := xget fromoffsets (i + 1) in
       let+ b := xget fromoffsets i in
       let+ _ := xcheck (a - b <? 0) MOffsetsMonotone in
       let+ cur := xget s 0 in
       if cur =? -1 then xupd s 0 (a - b)
       else let+ _ := xcheck (negb (cur =? a - b)) MNotRegular in XOk s)
    (fun j s => s = [if j =? 0 then -1 else c]) 0 (zlen fromoffsets - 1) [-1]) as (s' & E & P); try lia.
  - reflexivity.
  - intros j s Hj ->. rewrite !xget_at by lia. cbn [xbind]. rewrite (Hreg j Hj).
    replace (c <? 0) with false by lia. cbn [xcheck xbind].
    rewrite xget_at by (cbn; lia). cbn [xbind]. change (at_ [if j =? 0 then -1 else c] 0) with (if j =? 0 then -1 else c).
    destruct (j =? 0) eqn:J.
    + cbn. eexists; split; [reflexivity|]. replace (j + 1 =? 0) with false by lia. reflexivity.
    + replace (c =? -1) with false by lia. replace (negb (c =? c)) with false by lia. cbn [xcheck xbind].
      eexists; split; [reflexivity|]. replace (j + 1 =? 0) with false by lia. reflexivity.
  - rewrite E. cbn [xbind]. subst s'. replace (zlen fromoffsets - 1 =? 0) with false by lia.
    rewrite xget_at by (cbn; lia). cbn [xbind]. change (at_ [c] 0) with c. replace (c =? -1) with false by lia. reflexivity.
Qed.

(* ================================================================================================ *)
(** * kernels with two output buffers written in nested loops *)

(** [for j in lo..hi: (a, b)[idx j] = (va j, vb j)] reading two constant cells first: total, lengths preserved *)
Lemma kfor_upd2_total lo hi (body : Z -> list Z * list Z -> kres (list Z * list Z)) La Lb (st : list Z * list Z) :
  zlen (fst st) = La -> zlen (snd st) = Lb ->
  (forall j s, lo <= j < hi -> zlen (fst s) = La -> zlen (snd s) = Lb ->
     exists s', body j s = KOk s' /\ zlen (fst s') = La /\ zlen (snd s') = Lb) ->
  exists st', kfor lo hi body st = KOk st' /\ zlen (fst st') = La /\ zlen (snd st') = Lb.
Proof.
  intros H1 H2 H. destruct (Z_le_gt_dec lo hi) as [Hle|Hgt].
  - destruct (kfor_inv body (fun _ s => zlen (fst s) = La /\ zlen (snd s) = Lb) lo hi st) as (s' & E & P); auto.
    + intros j s Hj (A & B). destruct (H j s Hj A B) as (s' & E & P). eauto.
    + eauto.
  - exists st. rewrite kfor_empty by lia. auto.
Qed.

Theorem NumpyArray_getitem_next_array_safe nextcarryptr nextadvancedptr carryptr flatheadptr lencarry lenflathead skip :
  0 <= lencarry <= zlen carryptr -> 0 <= lenflathead <= zlen flatheadptr ->
  lencarry * lenflathead <= zlen nextcarryptr -> lencarry * lenflathead <= zlen nextadvancedptr ->
  NumpyArray_getitem_next_array nextcarryptr nextadvancedptr carryptr flatheadptr lencarry lenflathead skip <> KOob.
Proof.
  intros H1 H2 H3 H4. unfold NumpyArray_getitem_next_array.
  apply (kfor_noob _ (fun _ (s : list Z * list Z) =>
           zlen (fst s) = zlen nextcarryptr /\ zlen (snd s) = zlen nextadvancedptr) 0 lencarry); auto.
  intros i s Hi (L1 & L2).
  match goal with |- context [kfor 0 lenflathead ?b s] =>
    destruct (kfor_upd2_total 0 lenflathead b (zlen nextcarryptr) (zlen nextadvancedptr) s L1 L2) as (s' & E & A & B) end.
  - intros j [nc na] Hj A B. cbn [fst snd] in *. kstep.
    rewrite kupd_ok by nia. cbn [kbind]. rewrite kupd_ok by nia. cbn [kbind].
    eexists; split; [reflexivity|]. cbn [fst snd]. rewrite !zlen_set_nth. auto.
  - rewrite E. split; [congruence|]. intros s'' Es; inversion Es; subst. auto.
Qed.

Theorem NumpyArray_getitem_next_range_advanced_safe nextcarryptr nextadvancedptr carryptr advancedptr lencarry lenhead skip start step :
  0 <= lencarry <= zlen carryptr -> lencarry <= zlen advancedptr -> 0 <= lenhead ->
  lencarry * lenhead <= zlen nextcarryptr -> lencarry * lenhead <= zlen nextadvancedptr ->
  NumpyArray_getitem_next_range_advanced nextcarryptr nextadvancedptr carryptr advancedptr lencarry lenhead skip start step
  <> KOob.
Proof.
  intros H1 H2 H0 H3 H4. unfold NumpyArray_getitem_next_range_advanced.
  apply (kfor_noob _ (fun _ (s : list Z * list Z) =>
           zlen (fst s) = zlen nextcarryptr /\ zlen (snd s) = zlen nextadvancedptr) 0 lencarry); auto.
  intros i s Hi (L1 & L2).
  match goal with |- context [kfor 0 lenhead ?b s] =>
    destruct (kfor_upd2_total 0 lenhead b (zlen nextcarryptr) (zlen nextadvancedptr) s L1 L2) as (s' & E & A & B) end.
  - intros j [nc na] Hj A B. cbn [fst snd] in *. kstep.
    rewrite kupd_ok by nia. cbn [kbind]. kstep. rewrite kupd_ok by nia. cbn [kbind].
    eexists; split; [reflexivity|]. cbn [fst snd]. rewrite !zlen_set_nth. auto.
  - rewrite E. split; [congruence|]. intros s'' Es; inversion Es; subst. auto.
Qed.

Theorem RegularArray_getitem_jagged_expand_safe multistarts multistops singleoffsets regularsize regularlength :
  0 <= regularsize < zlen singleoffsets -> 0 <= regularlength ->
  regularlength * regularsize <= zlen multistarts -> regularlength * regularsize <= zlen multistops ->
  RegularArray_getitem_jagged_expand multistarts multistops singleoffsets regularsize regularlength <> KOob.
Proof.
  intros H1 H2 H3 H4. unfold RegularArray_getitem_jagged_expand.
  apply (kfor_noob _ (fun _ (s : list Z * list Z) =>
           zlen (fst s) = zlen multistarts /\ zlen (snd s) = zlen multistops) 0 regularlength); auto.
  intros i s Hi (L1 & L2).
  match goal with |- context [kfor 0 regularsize ?b s] =>
    destruct (kfor_upd2_total 0 regularsize b (zlen multistarts) (zlen multistops) s L1 L2) as (s' & E & A & B) end.
  - intros j [ms mp] Hj A B. cbn [fst snd] in *. kstep.
    rewrite kupd_ok by nia. cbn [kbind]. kstep. rewrite kupd_ok by nia. cbn [kbind].
    eexists; split; [reflexivity|]. cbn [fst snd]. rewrite !zlen_set_nth. auto.
  - rewrite E. split; [congruence|]. intros s'' Es; inversion Es; subst. auto.
Qed.

(* ================================================================================================ *)
(** * UnionArray: regular_index_getsize, regular_index, project *)

Theorem UnionArray_regular_index_getsize_safe size fromtags n :
  n <= zlen fromtags -> 1 <= zlen size -> UnionArray_regular_index_getsize size fromtags n <> KOob.
Proof.
  intros H1 H2. unfold UnionArray_regular_index_getsize. rewrite kupd_ok by lia. cbn [kbind].
  match goal with |- context [kfor ?lo ?hi ?bb ?ss] =>
    destruct (kfor_noob bb (fun _ s => zlen s = zlen size) lo hi ss) as (N & P) end.
  - apply zlen_set_nth.
  - intros j s Hj L. kstep. destruct (at_ s 0 <? at_ fromtags j); kstep; kdone.
  - match goal with |- context [kfor ?lo ?hi ?bb ?ss] => destruct (kfor lo hi bb ss) as [s'| |] eqn:E end;
      cbn [kbind]; try congruence.
    assert (L : zlen s' = zlen size).
    { destruct (Z_le_gt_dec 0 n); [apply P; auto|].
      rewrite kfor_empty in E by lia. inversion E; subst. apply zlen_set_nth. }
    kstep. congruence.
Qed.

Theorem UnionArray_regular_index_safe tI toindex current size fromtags n :
  0 <= size <= zlen current -> n <= zlen fromtags -> n <= zlen toindex ->
  (forall i, 0 <= i < n -> 0 <= at_ fromtags i < zlen current) ->
  UnionArray_regular_index tI toindex current size fromtags n <> KOob.
Proof.
  intros H1 H2 H3 Ht. unfold UnionArray_regular_index.
  destruct (kfor_upd_total 0 size (fun k => k) (fun _ _ => 0) current) as (c0 & E & L0).
  { intros j Hj. lia. }
  rewrite E. cbn [kbind].
  apply (kfor_noob _ (fun _ (s : list Z * list Z) => zlen (fst s) = zlen toindex /\ zlen (snd s) = zlen current) 0 n).
  - cbn [fst snd]. auto.
  - intros j [ti cur] Hj (A & B). cbn [fst snd] in *. specialize (Ht j Hj). kstep. kdone.
Qed.

Theorem UnionArray_project_safe lenout tocarry fromtags fromindex n which :
  n <= zlen fromtags -> n <= zlen fromindex -> n <= zlen tocarry -> 1 <= zlen lenout ->
  UnionArray_project lenout tocarry fromtags fromindex n which <> KOob.
Proof.
  intros H1 H2 H3 H4. unfold UnionArray_project. rewrite kupd_ok by lia. cbn [kbind].
  apply (kfor_noob _ (fun j (s : list Z * list Z) =>
           zlen (fst s) = zlen lenout /\ zlen (snd s) = zlen tocarry /\ 0 <= at_ (fst s) 0 <= j) 0 n).
  - cbn [fst snd]. rewrite zlen_set_nth. repeat split; auto; rewrite at_set_nth by (unfold zlen in H4; lia); cbn; lia.
  - intros j [lo tc] Hj (A & B & K). cbn [fst snd] in *. kstep.
    destruct (at_ fromtags j =? which); [|split; [congruence|]; intros s' E; inversion E; subst; cbn [fst snd]; repeat split; lia].
    kstep. split; [congruence|]. intros s' E; inversion E; subst. cbn [fst snd]. rewrite !zlen_set_nth.
    repeat split; auto; rewrite at_set_nth by (unfold zlen in *; lia); cbn; lia.
Qed.

(* ================================================================================================ *)
(** * reduce_adjust_starts, Identities_extend, Identities_getitem_carry *)

Lemma NumpyArray_reduce_adjust_starts_generic_safe toptr outlength parents starts shifts :
  outlength <= zlen toptr ->
  (forall k, 0 <= k < outlength -> 0 <= at_ toptr k ->
     at_ toptr k < zlen parents /\ 0 <= at_ parents (at_ toptr k) < zlen starts /\
     forall s, shifts = Some s -> at_ toptr k < zlen s) ->
  NumpyArray_reduce_adjust_starts_generic toptr outlength parents starts shifts <> KOob.
Proof.
  intros H1 Hp. unfold NumpyArray_reduce_adjust_starts_generic.
  apply (kfor_noob _ (fun k o => zlen o = zlen toptr /\ forall q, k <= q -> at_ o q = at_ toptr q) 0 outlength).
  - auto.
  - intros k o Hk (L & A). kstep. rewrite (A k) by lia.
    destruct (0 <=? at_ toptr k) eqn:E.
    + destruct (Hp k Hk) as (P1 & P2 & P3); [lia|]. kstep.
      destruct shifts as [s|]; [specialize (P3 s eq_refl)|]; kstep;
        (split; [congruence|]; intros s' Es; inversion Es; subst; rewrite zlen_set_nth; split; auto;
         intros q Hq; rewrite at_set_nth by (unfold zlen in *; lia); replace (q =? Z.of_nat (Z.to_nat k)) with false by lia;
         apply A; lia).
    + split; [congruence|]. intros s' Es; inversion Es; subst. split; auto. intros q Hq. apply A. lia.
Qed.

Theorem NumpyArray_reduce_adjust_starts_safe toptr outlength parents starts :
  outlength <= zlen toptr ->
  (forall k, 0 <= k < outlength -> 0 <= at_ toptr k ->
     at_ toptr k < zlen parents /\ 0 <= at_ parents (at_ toptr k) < zlen starts) ->
  NumpyArray_reduce_adjust_starts toptr outlength parents starts <> KOob.
Proof.
  intros H Hp. apply NumpyArray_reduce_adjust_starts_generic_safe; auto.
  intros k Hk Hv. destruct (Hp k Hk Hv). repeat split; auto; try lia. discriminate.
Qed.

Theorem NumpyArray_reduce_adjust_starts_shifts_safe toptr outlength parents starts shifts :
  outlength <= zlen toptr ->
  (forall k, 0 <= k < outlength -> 0 <= at_ toptr k ->
     at_ toptr k < zlen parents /\ 0 <= at_ parents (at_ toptr k) < zlen starts /\ at_ toptr k < zlen shifts) ->
  NumpyArray_reduce_adjust_starts_shifts toptr outlength parents starts shifts <> KOob.
Proof.
  intros H Hp. apply NumpyArray_reduce_adjust_starts_generic_safe; auto.
  intros k Hk Hv. destruct (Hp k Hk Hv) as (A & B & C). repeat split; auto; try lia.
  intros s E; inversion E; subst; auto.
Qed.

Theorem Identities_extend_safe tID toptr fromptr fromlength tolength :
  fromlength <= zlen fromptr -> fromlength <= zlen toptr -> tolength <= zlen toptr ->
  Identities_extend tID toptr fromptr fromlength tolength <> KOob.
Proof.
  intros H1 H2 H3. unfold Identities_extend.
  destruct (kfor_get_upd_total 0 fromlength fromptr (fun j => j) (fun j => j) (fun _ x => x) toptr) as (o & E & L).
  { intros j Hj; lia. } { intros j Hj; lia. }
  rewrite E. cbn [kbind].
  destruct (kfor_upd_total (Z.max 0 fromlength) tolength (fun j => j) (fun _ _ => wrap tID (-1)) o) as (o' & E' & L').
  { intros j Hj. lia. }
  rewrite E'. congruence.
Qed.

Theorem Identities_getitem_carry_safe newidentitiesptr identitiesptr carryptr lencarry width length :
  0 <= width -> 0 <= lencarry <= zlen carryptr -> lencarry * width <= zlen newidentitiesptr ->
  length * width <= zlen identitiesptr ->
  (forall i, 0 <= i < lencarry -> 0 <= at_ carryptr i) ->
  Identities_getitem_carry newidentitiesptr identitiesptr carryptr lencarry width length <> KOob.
Proof.
  intros Hw H1 H2 H3 Hc. unfold Identities_getitem_carry.
  apply (kfor_noob _ (fun _ o => zlen o = zlen newidentitiesptr) 0 lencarry); auto.
  intros i s Hi Ls. specialize (Hc i Hi). kstep. unfold kcheck.
  destruct (length <=? at_ carryptr i) eqn:E; cbn [kbind]; [split; congruence|].
  destruct (kfor_get_upd_total 0 width identitiesptr (fun j => width * at_ carryptr i + j) (fun j => width * i + j)
              (fun _ v => v) s) as (o' & E' & L').
  { intros j Hj. nia. } { intros j Hj. rewrite Ls. nia. }
  rewrite E'. split; [congruence|]. intros s' Es; inversion Es; subst. lia.
Qed.

(* ================================================================================================ *)
(** * the stable insertion sort that models std::stable_sort (awkward_sort, awkward_argsort,
      awkward_ListOffsetArray_local_preparenext_64, the string sorts) *)

Lemma sinsert_perm {A} (lt : A -> A -> bool) x l : Permutation (sinsert lt x l) (x :: l).
Proof.
  induction l as [|y t IH]; cbn [sinsert]; auto.
  destruct (lt y x); auto. rewrite IH. apply perm_swap.
Qed.

(** the result is a rearrangement of the input *)
Theorem sort_isort_perm_spec :
  forall (A : Type) (lt : A -> A -> bool) (l : list A), Permutation (isort lt l) l.
Proof.
  intros A lt l.
  unfold isort. induction l as [|x t IH]; cbn [fold_right]; auto.
  rewrite sinsert_perm. now constructor.
Qed.

Lemma sinsert_sorted {A} (lt : A -> A -> bool) x l :
  (forall a b, lt a b = true -> lt b a = false) ->
  Sorted (fun a b => lt b a = false) l -> Sorted (fun a b => lt b a = false) (sinsert lt x l).
Proof.
  intros Asym S. induction S as [|y t St IH Hd]; cbn [sinsert].
  - repeat constructor.
  - destruct (lt y x) eqn:E.
    + constructor; auto.
      destruct t as [|z t']; cbn [sinsert].
      * constructor. now apply Asym.
      * destruct (lt z x) eqn:E2; constructor; [now inversion Hd|now apply Asym].
    + constructor; [constructor; auto|constructor; auto].
Qed.

(** the result is in order: no element is strictly before its predecessor *)
Theorem sort_isort_sorted_spec :
  forall (A : Type) (lt : A -> A -> bool) (l : list A),
  (forall a b, lt a b = true -> lt b a = false) ->
  Sorted (fun a b => lt b a = false) (isort lt l).
Proof.
  intros A lt l.
  intros Asym. unfold isort. induction l as [|x t IH]; cbn [fold_right]; [constructor|].
  now apply sinsert_sorted.
Qed.

(** stability: elements that are not ordered by [lt] keep their input order.  Stated on the projection to any
    class [p] that is closed under "equivalent keys": filtering the sorted list gives the filtered input when all
    members of the class are mutually unordered *)
Lemma sinsert_filter {A} (lt : A -> A -> bool) (p : A -> bool) x l :
  (forall a b, p a = true -> p b = true -> lt a b = false) ->
  filter p (sinsert lt x l) = filter p (x :: l).
Proof.
  intros Heq. induction l as [|y t IH]; cbn [sinsert]; auto.
  destruct (lt y x) eqn:E; auto.
  cbn [filter] in *. rewrite IH.
  destruct (p y) eqn:Py, (p x) eqn:Px; auto. rewrite (Heq y x Py Px) in E. discriminate.
Qed.

Theorem sort_isort_stable_spec :
  forall (A : Type) (lt : A -> A -> bool) (p : A -> bool) (l : list A),
  (forall a b, p a = true -> p b = true -> lt a b = false) ->
  filter p (isort lt l) = filter p l.
Proof.
  intros A lt p l.
  intros Heq. unfold isort. induction l as [|x t IH]; cbn [fold_right]; auto.
  rewrite sinsert_filter by auto. cbn [filter]. now rewrite IH.
Qed.

(** the comparators of the kernels are asymmetric *)
Lemma sort_lt_asym asc a b : sort_lt asc a b = true -> sort_lt asc b a = false.
Proof. unfold sort_lt. destruct asc; lia. Qed.

(* ================================================================================================ *)
(** * awkward_sort on one segment: the output is the (stable) sort of the input *)

Lemma kmapM_ok {A B} (f : A -> kres B) (g : A -> B) l :
  (forall x, In x l -> f x = KOk (g x)) -> kmapM f l = KOk (map g l).
Proof.
  unfold kmapM. induction l as [|x t IH]; intros H; cbn [fold_right map]; auto.
  rewrite (H x) by (left; auto). cbn [kbind]. rewrite IH by (intros y Hy; apply H; right; auto). reflexivity.
Qed.

Lemma sinsert_map_fst (lt : Z -> Z -> bool) (x : Z * Z) l :
  map fst (sinsert (fun p q : Z * Z => lt (fst p) (fst q)) x l) = sinsert lt (fst x) (map fst l).
Proof.
  induction l as [|y t IH]; cbn [sinsert map]; auto.
  destruct (lt (fst y) (fst x)); cbn [map]; [now rewrite IH|reflexivity].
Qed.

Lemma isort_map_fst (lt : Z -> Z -> bool) (l : list (Z * Z)) :
  map fst (isort (fun p q : Z * Z => lt (fst p) (fst q)) l) = isort lt (map fst l).
Proof.
  unfold isort. induction l as [|x t IH]; cbn [fold_right map]; auto.
  now rewrite sinsert_map_fst, IH.
Qed.

Lemma zlen_iota n : 0 <= n -> zlen (iota n) = n.
Proof. intros H. unfold zlen. rewrite iota_length. lia. Qed.

Theorem sort_spec toptr fromptr asc stable :
  zlen fromptr <= zlen toptr ->
  sort toptr fromptr (zlen fromptr) [0; zlen fromptr] 2 (zlen fromptr) asc stable
  = KOk (isort (sort_lt asc) fromptr ++ skipn (length fromptr) toptr).
Proof.
  intros Hcap. pose proof (zlen_nonneg fromptr) as Hn. set (n := zlen fromptr) in *.
  assert (Zi : zlen (iota n) = n) by (apply zlen_iota; lia).
  (* the keyed list and its sort *)
  set (keyed := map (fun ix => (at_ fromptr ix, ix)) (iota n)).
  set (ltp := fun p q : Z * Z => sort_lt asc (fst p) (fst q)).
  assert (Kfst : map fst keyed = fromptr).
  { unfold keyed. rewrite map_map. cbn [fst].
    exact (eq_trans (map_iota_list (fun x => x) fromptr) (map_id fromptr)). }
  assert (Kin : forall p, In p (isort ltp keyed) -> at_ fromptr (snd p) = fst p /\ 0 <= snd p < n).
  { intros p Hp. apply (Permutation_in _ (sort_isort_perm_spec _ ltp keyed)) in Hp.
    unfold keyed in Hp. apply in_map_iff in Hp. destruct Hp as (ix & <- & Hix). apply in_iota in Hix. cbn [fst snd]. auto. }
  assert (Sidx : forall sorted, sorted = map snd (isort ltp keyed) ->
            zlen sorted = n /\ map (at_ fromptr) sorted = isort (sort_lt asc) fromptr /\
            forall i, 0 <= i < n -> 0 <= at_ sorted i < n).
  { intros sorted ->. split; [|split].
    - rewrite zlen_map. unfold zlen. rewrite (Permutation_length (sort_isort_perm_spec _ ltp keyed)).
      unfold keyed. rewrite map_length, iota_length. lia.
    - rewrite map_map. transitivity (map fst (isort ltp keyed)).
      + apply map_ext_in. intros p Hp. now apply Kin.
      + unfold ltp. rewrite isort_map_fst. now rewrite Kfst.
    - intros i Hi. unfold at_.
      assert (Li : (Z.to_nat i < length (isort ltp keyed))%nat).
      { rewrite (Permutation_length (sort_isort_perm_spec _ ltp keyed)). unfold keyed. rewrite map_length, iota_length. lia. }
      rewrite nth_indep with (d' := snd (0, 0)) by (rewrite map_length; auto). rewrite map_nth.
      apply Kin. apply nth_In. auto. }
  (* the index vector computed by the kernel is [map snd (isort ltp keyed')] where keyed' = keyed when n >= 2 *)
  assert (Idx : sorted_index false fromptr n [0; n] 2 asc = KOk (map snd (isort ltp keyed))).
  { unfold sorted_index, kfor. change (Z.to_nat (2 - 1 - 0)) with 1%nat. cbn [kfor_nat].
    rewrite (kget_at [0; n] 0) by (unfold zlen; cbn [length]; lia). cbn [kbind].
    rewrite (kget_at [0; n] (0 + 1)) by (unfold zlen; cbn [length]; lia). cbn [kbind].
    change (at_ [0; n] 0) with 0. change (at_ [0; n] (0 + 1)) with n.
    unfold sort_segment. rewrite Zi.
    replace (negb ((0 <=? 0) && (0 <=? n) && (n <=? n))) with false by lia.
    change (Z.to_nat 0) with O. cbn [skipn firstn app].
    rewrite firstn_all2 by (rewrite iota_length; lia).
    assert (Hk : (if n - 0 <? 2 then KOk (map (fun ix => (0, ix)) (iota n))
                  else kmapM (fun ix => let* k := kget fromptr ix in KOk (k, ix)) (iota n))
                 = KOk (if n <? 2 then map (fun ix => (0, ix)) (iota n) else keyed)).
    { replace (n - 0) with n by lia. destruct (n <? 2); auto.
      unfold keyed. apply kmapM_ok. intros x Hx. apply in_iota in Hx. now rewrite (kget_at fromptr) by lia. }
    rewrite Hk. cbn [kbind].
    assert (Same : map snd (isort ltp (if n <? 2 then map (fun ix => (0, ix)) (iota n) else keyed))
                   = map snd (isort ltp keyed)).
    { destruct (n <? 2) eqn:E; auto.
      assert (C : n = 0 \/ n = 1) by lia. unfold keyed. destruct C as [-> | ->]; reflexivity. }
    fold ltp. rewrite Same. rewrite skipn_all2 by (rewrite iota_length; lia). rewrite app_nil_r.
    cbn iota. now rewrite map_id. }
  unfold sort. rewrite Idx. cbn [kbind].
  destruct (Sidx _ eq_refl) as (Ls & Ms & Rs). set (sorted := map snd (isort ltp keyed)) in *.
  rewrite (kfill_spec 0 n _ (fun i => at_ fromptr (at_ sorted i))); try lia.
  - rewrite Z.max_r by lia. rewrite filled_0_prefix by lia. f_equal. f_equal.
    + rewrite <- Ms. rewrite <- Ls. apply (map_iota_list (at_ fromptr)).
    + f_equal. unfold n, zlen. lia.
  - intros i Hi. rewrite (kget_at sorted) by lia. cbn [kbind]. specialize (Rs i Hi). now rewrite (kget_at fromptr) by lia.
Qed.

Theorem sort_safe toptr fromptr asc stable :
  zlen fromptr <= zlen toptr ->
  sort toptr fromptr (zlen fromptr) [0; zlen fromptr] 2 (zlen fromptr) asc stable <> KOob.
Proof. intros H. rewrite sort_spec by auto. congruence. Qed.

(** the stable argsort of a list: positions ordered by key, equal keys in input order *)
Definition stable_argsort (lt : Z -> Z -> bool) (l : list Z) : list Z :=
  map snd (isort (fun p q : Z * Z => lt (fst p) (fst q)) (map (fun ix => (at_ l ix, ix)) (iota (zlen l)))).

Lemma sorted_index_single localise fromptr asc :
  sorted_index localise fromptr (zlen fromptr) [0; zlen fromptr] 2 asc
  = KOk (stable_argsort (sort_lt asc) fromptr).
Proof.
  pose proof (zlen_nonneg fromptr) as Hn. unfold stable_argsort. set (n := zlen fromptr) in *.
  assert (Zi : zlen (iota n) = n) by (apply zlen_iota; lia).
  set (keyed := map (fun ix => (at_ fromptr ix, ix)) (iota n)).
  set (ltp := fun p q : Z * Z => sort_lt asc (fst p) (fst q)).
  unfold sorted_index, kfor. change (Z.to_nat (2 - 1 - 0)) with 1%nat. cbn [kfor_nat].
  rewrite (kget_at [0; n] 0) by (unfold zlen; cbn [length]; lia). cbn [kbind].
  rewrite (kget_at [0; n] (0 + 1)) by (unfold zlen; cbn [length]; lia). cbn [kbind].
  change (at_ [0; n] 0) with 0. change (at_ [0; n] (0 + 1)) with n.
  unfold sort_segment. rewrite Zi.
  replace (negb ((0 <=? 0) && (0 <=? n) && (n <=? n))) with false by lia.
  change (Z.to_nat 0) with O. cbn [skipn firstn app].
  rewrite firstn_all2 by (rewrite iota_length; lia).
  assert (Hk : (if n - 0 <? 2 then KOk (map (fun ix => (0, ix)) (iota n))
                else kmapM (fun ix => let* k := kget fromptr ix in KOk (k, ix)) (iota n))
               = KOk (if n <? 2 then map (fun ix => (0, ix)) (iota n) else keyed)).
  { replace (n - 0) with n by lia. destruct (n <? 2); auto.
    unfold keyed. apply kmapM_ok. intros x Hx. apply in_iota in Hx. now rewrite (kget_at fromptr) by lia. }
  rewrite Hk. cbn [kbind].
  assert (Same : map snd (isort ltp (if n <? 2 then map (fun ix => (0, ix)) (iota n) else keyed))
                 = map snd (isort ltp keyed)).
  { destruct (n <? 2) eqn:E; auto.
    assert (C : n = 0 \/ n = 1) by lia. unfold keyed. destruct C as [-> | ->]; reflexivity. }
  fold ltp. rewrite Same. rewrite skipn_all2 by (rewrite iota_length; lia). rewrite app_nil_r.
  f_equal. rewrite <- (map_id (map snd (isort ltp keyed))) at 2. apply map_ext. intros j. destruct localise; lia.
Qed.

Lemma stable_argsort_props lt l :
  zlen (stable_argsort lt l) = zlen l /\ forall i, 0 <= i < zlen l -> 0 <= at_ (stable_argsort lt l) i < zlen l.
Proof.
  unfold stable_argsort.
  set (keyed := map (fun ix => (at_ l ix, ix)) (iota (zlen l))).
  set (ltp := fun p q : Z * Z => lt (fst p) (fst q)).
  pose proof (zlen_nonneg l) as Hn.
  assert (Len : length (isort ltp keyed) = Z.to_nat (zlen l)).
  { rewrite (Permutation_length (sort_isort_perm_spec _ ltp keyed)). unfold keyed. now rewrite map_length, iota_length. }
  split.
  - rewrite zlen_map. unfold zlen at 1. rewrite Len. lia.
  - intros i Hi. unfold at_ at 1 2.
    rewrite nth_indep with (d' := snd (0, 0)) by (rewrite map_length; lia). rewrite map_nth.
    assert (Hin : In (nth (Z.to_nat i) (isort ltp keyed) (0, 0)) keyed).
    { apply (Permutation_in _ (sort_isort_perm_spec _ ltp keyed)). apply nth_In. lia. }
    subst keyed. apply in_map_iff in Hin. destruct Hin as (ix & <- & Hix). apply in_iota in Hix. cbn [snd]. auto.
Qed.

(** awkward_argsort on one segment returns the stable argsort (for std::sort: one of the argsorts) *)
Theorem argsort_spec toptr fromptr asc stable :
  zlen fromptr <= zlen toptr ->
  argsort toptr fromptr (zlen fromptr) [0; zlen fromptr] 2 asc stable
  = KOk (stable_argsort (sort_lt asc) fromptr ++ skipn (length fromptr) toptr).
Proof.
  intros Hcap. pose proof (zlen_nonneg fromptr) as Hn. unfold argsort. rewrite sorted_index_single. cbn [kbind].
  destruct (stable_argsort_props (sort_lt asc) fromptr) as (L & R).
  set (sa := stable_argsort (sort_lt asc) fromptr) in *.
  rewrite <- L. rewrite (kfill_map_spec (fun x => x) sa); try lia.
  - rewrite map_id. do 3 f_equal. unfold zlen in L. lia.
  - intros i Hi. now rewrite (kget_at sa) by lia.
Qed.

Theorem argsort_safe toptr fromptr asc stable :
  zlen fromptr <= zlen toptr ->
  argsort toptr fromptr (zlen fromptr) [0; zlen fromptr] 2 asc stable <> KOob.
Proof. intros H. rewrite argsort_spec by auto. congruence. Qed.

(** awkward_ListOffsetArray_local_preparenext_64 is the ascending argsort of fromindex *)
Theorem ListOffsetArray_local_preparenext_spec tocarry fromindex :
  zlen fromindex <= zlen tocarry ->
  ListOffsetArray_local_preparenext tocarry fromindex (zlen fromindex)
  = KOk (stable_argsort Z.ltb fromindex ++ skipn (length fromindex) tocarry).
Proof.
  intros Hcap. pose proof (zlen_nonneg fromindex) as Hn. unfold ListOffsetArray_local_preparenext.
  pose proof (sorted_index_single false fromindex true) as S.
  unfold sorted_index, kfor in S. change (Z.to_nat (2 - 1 - 0)) with 1%nat in S. cbn [kfor_nat] in S.
  rewrite (kget_at [0; zlen fromindex] 0) in S by (unfold zlen; cbn [length]; lia). cbn [kbind] in S.
  rewrite (kget_at [0; zlen fromindex] (0 + 1)) in S by (unfold zlen; cbn [length]; lia). cbn [kbind] in S.
  change (at_ [0; zlen fromindex] 0) with 0 in S. change (at_ [0; zlen fromindex] (0 + 1)) with (zlen fromindex) in S.
  change (sort_lt true) with Z.ltb in S. rewrite Z.max_r by lia.
  destruct (sort_segment Z.ltb fromindex (iota (zlen fromindex)) 0 (zlen fromindex)) as [r| |]; cbn [kbind] in S; try discriminate.
  injection S as S'. cbn [kbind].
  assert (Er : r = stable_argsort Z.ltb fromindex).
  { rewrite <- S'. change (Z.to_nat 0) with O. cbn [firstn app]. rewrite skipn_all2 by (rewrite iota_length; lia).
    rewrite app_nil_r. cbn iota. now rewrite map_id. }
  rewrite Er. destruct (stable_argsort_props Z.ltb fromindex) as (L & R).
  set (sa := stable_argsort Z.ltb fromindex) in *.
  rewrite <- L. rewrite (kfill_map_spec (fun x => x) sa); try lia.
  - rewrite map_id. do 3 f_equal. unfold zlen in L. lia.
  - intros i Hi. now rewrite (kget_at sa) by lia.
Qed.

Theorem ListOffsetArray_local_preparenext_safe tocarry fromindex :
  zlen fromindex <= zlen tocarry ->
  ListOffsetArray_local_preparenext tocarry fromindex (zlen fromindex) <> KOob.
Proof. intros H. rewrite ListOffsetArray_local_preparenext_spec by auto. congruence. Qed.
