(** C17b, queries part 4/5: internal consistency of the depth queries (forms, transported to layouts), and the
    layout's minmax_depth = that of its type. *)
From Coq Require Import ZArith List Bool Lia String.
From AwkV Require Import Base Layout LayoutInd Valid Types Proofs_Lists Proofs_C11.
From AwkTypes Require Import Json Forms TypeStr Typing Proofs_Depth Proofs_Types Proofs_Typing Proofs_Json Proofs_Parse
                             Proofs_C17b_Query.
Import ListNotations.
Open Scope Z_scope.

Lemma mapM_id_Forall {A B} (q : A -> res B) (P : B -> Prop) cs : forall l,
  mapM_id (map q cs) = Ok l -> Forall (fun f => forall x, q f = Ok x -> P x) cs -> Forall P l.
Proof.
  induction cs as [|c cs IH]; intros l Hl HF; simpl in Hl.
  - inversion Hl. constructor.
  - destruct (q c) as [x|e] eqn:Ex; simpl in Hl; [|discriminate].
    destruct (mapM_id (map q cs)) as [l'|e] eqn:El; simpl in Hl; [|discriminate].
    inversion Hl; subst. inversion HF; subst. constructor; auto.
Qed.

Lemma minmax_fold_le l : Forall (fun mm : Z * Z => fst mm <= snd mm) l -> fst (minmax_fold l) <= snd (minmax_fold l).
Proof.
  intros HF. destruct l as [|x l]; [simpl; lia|]. inversion HF; subst.
  destruct (minmax_fold_bounds (x :: l) x (or_introl eq_refl)) as [B1 B2]. lia.
Qed.

(* ------------------------------------------------------------------ min <= max, every form class *)
Theorem minmax_depth_ordered f : forall mm, f_minmax_depth f = Ok mm -> fst mm <= snd mm.
Proof.
  induction f as [m inner isz fmt dt|m|m o c IH|m s e c IH|m c size IH|m i c IH|m i c IH|m k0 c vw IH|m k0 c vw lsb IH
                 |m c IH|m tg i cs IH|m rk cs IH|m hl|m g hl IH] using form_ind'; intros mm H; cbn [f_minmax_depth] in H; eauto.
  - inversion H; subst. simpl. lia.
  - inversion H; subst. simpl. lia.
  - destruct (is_string_params (m_params m)); [inversion H; simpl; lia|].
    destruct (f_minmax_depth c) as [mm'|er]; cbn [bind] in H; [|discriminate]. inversion H; subst. specialize (IH _ eq_refl). simpl. lia.
  - destruct (is_string_params (m_params m)); [inversion H; simpl; lia|].
    destruct (f_minmax_depth c) as [mm'|er]; cbn [bind] in H; [|discriminate]. inversion H; subst. specialize (IH _ eq_refl). simpl. lia.
  - destruct (is_string_params (m_params m)); [inversion H; simpl; lia|].
    destruct (f_minmax_depth c) as [mm'|er]; cbn [bind] in H; [|discriminate]. inversion H; subst. specialize (IH _ eq_refl). simpl. lia.
  - destruct (mapM_id (map f_minmax_depth cs)) as [l|er] eqn:El; cbn [bind] in H; [|discriminate]. inversion H; subst.
    apply minmax_fold_le. exact (mapM_id_Forall f_minmax_depth _ cs l El IH).
  - destruct (mapM_id (map f_minmax_depth cs)) as [l|er] eqn:El; cbn [bind] in H; [|discriminate]. inversion H; subst.
    apply minmax_fold_le. exact (mapM_id_Forall f_minmax_depth _ cs l El IH).
  - discriminate.
Qed.

Theorem c_minmax_depth_ordered c : np_ok c = true -> fst (c_minmax_depth None c) <= snd (c_minmax_depth None c).
Proof. intros H. apply (minmax_depth_ordered (form_of c)). apply minmax_depth_agree, H. Qed.

(* ------------------------------------------------------------------ pure list forms: the three depth queries coincide *)
(* no record and no union anywhere *)
Fixpoint f_pure (f : form) : bool :=
  match f with
  | FNumpy _ _ _ _ _ | FEmpty _ | FVirtual _ None _ => true
  | FListOffset _ _ c | FList _ _ _ c | FRegular _ c _ | FIndexed _ _ c | FIndexedOption _ _ c
  | FByteMasked _ _ c _ | FBitMasked _ _ c _ _ | FUnmasked _ c => f_pure c
  | FVirtual _ (Some g) _ => f_pure g
  | FUnion _ _ _ _ | FRecord _ _ _ => false
  end.

Theorem pure_depths_coincide f : f_pure f = true ->
  f_minmax_depth f = (do d <- f_purelist_depth f; Ok (d, d)) /\
  f_branch_depth f = (do d <- f_purelist_depth f; Ok (false, d)) /\
  (forall d, f_purelist_depth f = Ok d -> 1 <= d).
Proof.
  induction f as [m inner isz fmt dt|m|m o c IH|m s e c IH|m c size IH|m i c IH|m i c IH|m k0 c vw IH|m k0 c vw lsb IH
                 |m c IH|m tg i cs IH|m rk cs IH|m hl|m g hl IH] using form_ind'; intros Hp; cbn [f_pure] in Hp;
    try discriminate; cbn [f_minmax_depth f_branch_depth f_purelist_depth]; auto.
  - repeat split. intros d H. inversion H. pose proof (zlen_nonneg inner). lia.
  - repeat split. intros d H. inversion H. lia.
  - destruct (is_string_params (m_params m)); [repeat split; intros d H; inversion H; lia|].
    destruct (IH Hp) as (H1 & H2 & H3). rewrite H1, H2.
    destruct (f_purelist_depth c) as [d0|er]; cbn [bind fst snd]; repeat split; try discriminate.
    intros d H. inversion H. specialize (H3 _ eq_refl). lia.
  - destruct (is_string_params (m_params m)); [repeat split; intros d H; inversion H; lia|].
    destruct (IH Hp) as (H1 & H2 & H3). rewrite H1, H2.
    destruct (f_purelist_depth c) as [d0|er]; cbn [bind fst snd]; repeat split; try discriminate.
    intros d H. inversion H. specialize (H3 _ eq_refl). lia.
  - destruct (is_string_params (m_params m)); [repeat split; intros d H; inversion H; lia|].
    destruct (IH Hp) as (H1 & H2 & H3). rewrite H1, H2.
    destruct (f_purelist_depth c) as [d0|er]; cbn [bind fst snd]; repeat split; try discriminate.
    intros d H. inversion H. specialize (H3 _ eq_refl). lia.
  - repeat split. discriminate.
Qed.

(* ------------------------------------------------------------------ purelist_depth >= 1 unless a union is on the way *)
Fixpoint f_union_free_path (f : form) : bool :=
  match f with
  | FUnion _ _ _ _ => false
  | FListOffset _ _ c | FList _ _ _ c | FRegular _ c _ | FIndexed _ _ c | FIndexedOption _ _ c
  | FByteMasked _ _ c _ | FBitMasked _ _ c _ _ | FUnmasked _ c => f_union_free_path c
  | FVirtual _ (Some g) _ => f_union_free_path g
  | _ => true
  end.

Theorem purelist_depth_positive f : f_union_free_path f = true -> forall d, f_purelist_depth f = Ok d -> 1 <= d.
Proof.
  induction f as [m inner isz fmt dt|m|m o c IH|m s e c IH|m c size IH|m i c IH|m i c IH|m k0 c vw IH|m k0 c vw lsb IH
                 |m c IH|m tg i cs IH|m rk cs IH|m hl|m g hl IH] using form_ind'; intros Hp d H;
    cbn [f_union_free_path f_purelist_depth] in *; try discriminate; eauto.
  - inversion H. pose proof (zlen_nonneg inner). lia.
  - inversion H. lia.
  - destruct (is_string_params (m_params m)); [inversion H; lia|].
    destruct (f_purelist_depth c) as [d0|er]; cbn [bind] in H; [|discriminate]. inversion H. specialize (IH Hp _ eq_refl). lia.
  - destruct (is_string_params (m_params m)); [inversion H; lia|].
    destruct (f_purelist_depth c) as [d0|er]; cbn [bind] in H; [|discriminate]. inversion H. specialize (IH Hp _ eq_refl). lia.
  - destruct (is_string_params (m_params m)); [inversion H; lia|].
    destruct (f_purelist_depth c) as [d0|er]; cbn [bind] in H; [|discriminate]. inversion H. specialize (IH Hp _ eq_refl). lia.
  - inversion H. lia.
Qed.

(* ------------------------------------------------------------------ natural laws that FAIL *)
Definition f_rec0 : form := FRecord meta0 (Some []) [].
Definition f_lu : form := FListOffset meta0 Fi64 (FUnion meta0 Fi8 Fi64 [f_i64; FListOffset meta0 Fi64 f_i64]).
Definition f_uu : form := FUnion meta0 Fi8 Fi64 [FListOffset meta0 Fi64 f_lu; f_i64].
Example depth_laws_refuted :
  (* a record without fields: minmax (0,0), but purelist_depth 1 and branch_depth (false, 1): purelist_depth is
     not within minmax_depth, and "no branching" does not give minmax = (d, d) *)
  (f_purelist_depth f_rec0 = Ok 1 /\ f_minmax_depth f_rec0 = Ok (0, 0) /\ f_branch_depth f_rec0 = Ok (false, 1)) /\
  (* branch_depth says "not branching" although min <> max *)
  (f_branch_depth (FUnion meta0 Fi8 Fi64 [f_rec0; f_i64]) = Ok (false, 1) /\
   f_minmax_depth (FUnion meta0 Fi8 Fi64 [f_rec0; f_i64]) = Ok (0, 1)) /\
  (* purelist_depth = -1 is not "the" mixed-depth marker: a list above a mixed union answers 0, two lists 1, ... *)
  (f_purelist_depth f_lu = Ok 0 /\ f_purelist_depth (FListOffset meta0 Fi64 f_lu) = Ok 1 /\
   f_minmax_depth (FListOffset meta0 Fi64 f_lu) = Ok (3, 4)) /\
  (* ... so a union can answer a positive purelist_depth that is not the depth of its leaves *)
  (f_purelist_depth f_uu = Ok 1 /\ f_minmax_depth f_uu = Ok (1, 4) /\ f_branch_depth f_uu = Ok (true, 1)) /\
  (* and an empty union answers -1 with minmax (0,0) *)
  (f_purelist_depth (FUnion meta0 Fi8 Fi64 []) = Ok (-1) /\ f_minmax_depth (FUnion meta0 Fi8 Fi64 []) = Ok (0, 0)).
Proof. vm_compute. repeat split. Qed.

Example pure_depths_example :
  let f := FListOffset meta0 Fi64 (FIndexedOption meta0 Fi64 (FRegular meta0 (FVirtual meta0 (Some f_i64_23) true) 2)) in
  f_pure f = true /\ f_purelist_depth f = Ok 5 /\ f_minmax_depth f = Ok (5, 5) /\ f_branch_depth f = Ok (false, 5).
Proof. vm_compute. repeat split. Qed.

(* ------------------------------------------------------------------ 5. minmax_depth of a layout = of its type *)
Theorem c_minmax_is_type_minmax c : Valid None c -> c_minmax_depth None c = minmax_ty (type_of c).
Proof. exact (minmax_content_type c None). Qed.

(* ------------------------------------------------------------------ t_minmax_depth is minmax_ty of the erased type *)
Lemma strflag_params_string p : match strflag_params p with Some _ => is_string_params p = true | None => is_string_params p = false end.
Proof.
  unfold strflag_params, is_string_params.
  destruct (param_is_str p k_array s_string); [reflexivity|].
  destruct (param_is_str p k_array s_bytestring); reflexivity.
Qed.

Theorem t_minmax_erase t : t_minmax_depth t = minmax_ty (erase t).
Proof.
  induction t as [p s dt|p s|p s t' IH|p s n t' IH|p s t' IH|p s ks l IH|p s l IH] using rty_ind';
    cbn [t_minmax_depth erase minmax_ty].
  - destruct dt as [d| | | | | | | |]; reflexivity.
  - reflexivity.
  - pose proof (strflag_params_string p) as Hs. destruct (strflag_params p); rewrite Hs; [reflexivity|]. rewrite IH. reflexivity.
  - pose proof (strflag_params_string p) as Hs. destruct (strflag_params p); rewrite Hs; [reflexivity|]. rewrite IH. reflexivity.
  - exact IH.
  - rewrite map_map. f_equal. apply map_ext_in. intros x Hx. rewrite Forall_forall in IH. auto.
  - rewrite map_map. f_equal. apply map_ext_in. intros x Hx. rewrite Forall_forall in IH. auto.
Qed.

(* ------------------------------------------------------------------ 5. the core AwkV.Types.minmax vs the C++ loop minmax_ty *)
Lemma zmin_list_le d l : zmin_list d l <= d /\ forall x, In x l -> zmin_list d l <= x.
Proof.
  induction l as [|a l [H1 H2]]; simpl; [split; [lia|intros x []]|].
  split; [lia|]. intros x [->|Hx]; [lia|]. specialize (H2 x Hx). lia.
Qed.
Lemma zmax_list_ge d l : d <= zmax_list d l /\ forall x, In x l -> x <= zmax_list d l.
Proof.
  induction l as [|a l [H1 H2]]; simpl; [split; [lia|intros x []]|].
  split; [lia|]. intros x [->|Hx]; [lia|]. specialize (H2 x Hx). lia.
Qed.
Lemma zmin_list_swap l : forall d d', Z.min d' (zmin_list d l) = Z.min d (zmin_list d' l).
Proof. induction l as [|a l IH]; intros d d'; simpl; [lia|]. specialize (IH d d'). lia. Qed.
Lemma zmax_list_swap l : forall d d', Z.max d' (zmax_list d l) = Z.max d (zmax_list d' l).
Proof. induction l as [|a l IH]; intros d d'; simpl; [lia|]. specialize (IH d d'). lia. Qed.

Lemma zmin_list_base l d d' x : In x l -> x <= d -> x <= d' -> zmin_list d l = zmin_list d' l.
Proof.
  intros Hx H1 H2. pose proof (zmin_list_swap l d d') as Hs.
  destruct (zmin_list_le d l) as [_ A]. destruct (zmin_list_le d' l) as [_ B]. specialize (A x Hx). specialize (B x Hx). lia.
Qed.
Lemma zmax_list_base l d d' x : In x l -> d <= x -> d' <= x -> zmax_list d l = zmax_list d' l.
Proof.
  intros Hx H1 H2. pose proof (zmax_list_swap l d d') as Hs.
  destruct (zmax_list_ge d l) as [_ A]. destruct (zmax_list_ge d' l) as [_ B]. specialize (A x Hx). specialize (B x Hx). lia.
Qed.

Lemma minmax_fold_step l : forall a0 b0,
  fold_left (fun acc mm : Z * Z => ((if fst mm <? fst acc then fst mm else fst acc),
                                    (if snd acc <? snd mm then snd mm else snd acc))) l (a0, b0) =
  (zmin_list a0 (map fst l), zmax_list b0 (map snd l)).
Proof.
  induction l as [|x l IH]; intros a0 b0; cbn [fold_left map]; [reflexivity|]. cbn [fst snd]. rewrite IH.
  cbn [zmin_list zmax_list fold_right].
  assert (E1 : (if fst x <? a0 then fst x else a0) = Z.min (fst x) a0) by (destruct (fst x <? a0) eqn:E; [apply Z.ltb_lt in E|apply Z.ltb_ge in E]; lia).
  assert (E2 : (if b0 <? snd x then snd x else b0) = Z.max (snd x) b0) by (destruct (b0 <? snd x) eqn:E; [apply Z.ltb_lt in E|apply Z.ltb_ge in E]; lia).
  rewrite E1, E2. f_equal.
  - pose proof (zmin_list_swap (map fst l) a0 (fst x)) as Hs. fold (zmin_list (Z.min (fst x) a0) (map fst l)). fold (zmin_list a0 (map fst l)).
    pose proof (zmin_list_swap (map fst l) (Z.min (fst x) a0) a0).
    destruct (zmin_list_le (Z.min (fst x) a0) (map fst l)) as [A _]. destruct (zmin_list_le a0 (map fst l)) as [B _].
    pose proof (zmin_list_swap (map fst l) (Z.min (fst x) a0) (fst x)). pose proof (zmin_list_le (fst x) (map fst l)) as [C _]. lia.
  - fold (zmax_list (Z.max (snd x) b0) (map snd l)). fold (zmax_list b0 (map snd l)).
    pose proof (zmax_list_swap (map snd l) (Z.max (snd x) b0) b0).
    destruct (zmax_list_ge (Z.max (snd x) b0) (map snd l)) as [A _]. destruct (zmax_list_ge b0 (map snd l)) as [B _].
    pose proof (zmax_list_swap (map snd l) (Z.max (snd x) b0) (snd x)). pose proof (zmax_list_ge (snd x) (map snd l)) as [C _]. lia.
Qed.

(* the C++ loop starts from (kMaxInt64, 0): it is the plain min / max as soon as some depth is within [0, kMaxInt64] *)
Lemma minmax_fold_core m0 ms : fst m0 <= kMaxInt64 -> 0 <= snd m0 ->
  minmax_fold (m0 :: ms) = (zmin_list (fst m0) (map fst (m0 :: ms)), zmax_list (snd m0) (map snd (m0 :: ms))).
Proof.
  intros H1 H2. unfold minmax_fold. rewrite minmax_fold_step. f_equal.
  - apply (zmin_list_base _ _ _ (fst m0)); [left; reflexivity|exact H1|lia].
  - apply (zmax_list_base _ _ _ (snd m0)); [left; reflexivity|exact H2|lia].
Qed.

Lemma core_minmax_snd_nonneg t : 0 <= snd (minmax t).
Proof.
  induction t as [dt| |sz str t IH|t IH|ks ts IH|ts IH] using ty_ind'; cbn [minmax]; try (simpl; lia); auto.
  - destruct str; [simpl; lia|]. destruct (minmax t) as [a b0]. simpl in *. lia.
  - destruct ts as [|t0 rest]; [simpl; lia|]. cbn [snd]. inversion IH; subst.
    destruct (zmax_list_ge (snd (minmax t0)) (map snd (map minmax (t0 :: rest)))) as [A _]. lia.
  - destruct ts as [|t0 rest]; [simpl; lia|]. cbn [snd]. inversion IH; subst.
    destruct (zmax_list_ge (snd (minmax t0)) (map snd (map minmax (t0 :: rest)))) as [A _]. lia.
Qed.

(* the fragment: the first alternative / field of every union / record has a minimum depth that fits an int64
   (always the case for a type that exists in memory; not provable for all terms of the inductive type) *)
Fixpoint ty_depth_ok (t : ty) : bool :=
  match t with
  | TNum _ | TUnk => true
  | TList _ _ t' | TOpt t' => ty_depth_ok t'
  | TRec _ ts | TUnion ts =>
      forallb ty_depth_ok ts && match ts with t0 :: _ => fst (minmax t0) <=? kMaxInt64 | [] => true end
  end.

Theorem core_minmax_is_minmax_ty_partial t : ty_depth_ok t = true -> minmax t = minmax_ty t.
Proof.
  induction t as [dt| |sz str t IH|t IH|ks ts IH|ts IH] using ty_ind'; intros Hok; cbn [ty_depth_ok] in Hok;
    cbn [minmax minmax_ty]; auto.
  - destruct str; [reflexivity|]. rewrite <- (IH Hok). destruct (minmax t); reflexivity.
  - apply andb_true_iff in Hok as [Ha Hb].
    assert (Hm : map minmax_ty ts = map minmax ts).
    { apply map_ext_in. intros x Hx. rewrite Forall_forall in IH. rewrite forallb_forall in Ha. symmetry. auto. }
    rewrite Hm. destruct ts as [|t0 rest]; [reflexivity|]. apply Z.leb_le in Hb.
    cbn [map]. rewrite (minmax_fold_core (minmax t0) (map minmax rest) Hb (core_minmax_snd_nonneg t0)). reflexivity.
  - apply andb_true_iff in Hok as [Ha Hb].
    assert (Hm : map minmax_ty ts = map minmax ts).
    { apply map_ext_in. intros x Hx. rewrite Forall_forall in IH. rewrite forallb_forall in Ha. symmetry. auto. }
    rewrite Hm. destruct ts as [|t0 rest]; [reflexivity|]. apply Z.leb_le in Hb.
    cbn [map]. rewrite (minmax_fold_core (minmax t0) (map minmax rest) Hb (core_minmax_snd_nonneg t0)). reflexivity.
Qed.

(* layout = core type = C++ loop *)
Theorem c_minmax_is_core_minmax c : Valid None c -> ty_depth_ok (type_of c) = true ->
  c_minmax_depth None c = minmax (type_of c) /\ minmax (type_of c) = minmax_ty (type_of c).
Proof.
  intros HV Hok. rewrite (core_minmax_is_minmax_ty_partial _ Hok). split; [|reflexivity]. apply c_minmax_is_type_minmax, HV.
Qed.

Example core_minmax_examples :
  minmax (TRec None []) = minmax_ty (TRec None []) /\ minmax (TUnion []) = minmax_ty (TUnion []) /\
  let t := TUnion [TList None None (TNum DInt64); TOpt (TNum DInt64); TRec None []; TList None (Some true) TUnk;
                   TRec (Some [[97]]) [TList (Some 3) None (TList None None TUnk)]] in
  ty_depth_ok t = true /\ minmax t = (0, 3) /\ minmax_ty t = (0, 3).
Proof. vm_compute. repeat split. Qed.

(* without the fragment the two differ -- on a type nested deeper than 2^63 - 1 lists, which exists as a term only
   (never as an array): the loop's initial minimum kMaxInt64 is then smaller than every depth *)
Fixpoint nest (n : nat) (t : ty) : ty := match n with O => t | S n' => TList None None (nest n' t) end.
Lemma minmax_nest n : minmax (nest n TUnk) = (Z.of_nat n + 1, Z.of_nat n + 1).
Proof.
  induction n as [|n IH]; [reflexivity|]. cbn [nest minmax]. rewrite IH. f_equal; lia.
Qed.
Lemma minmax_ty_nest n : minmax_ty (nest n TUnk) = (Z.of_nat n + 1, Z.of_nat n + 1).
Proof.
  induction n as [|n IH]; [reflexivity|]. cbn [nest minmax_ty]. rewrite IH. cbn [fst snd]. f_equal; lia.
Qed.
Lemma deep_record_differs N : Z.of_nat N = kMaxInt64 -> minmax (TRec None [nest N TUnk]) <> minmax_ty (TRec None [nest N TUnk]).
Proof.
  intros HN. cbn [minmax minmax_ty map]. rewrite minmax_ty_nest, minmax_nest.
  unfold minmax_fold. cbn [fold_left fst snd zmin_list zmax_list map fold_right]. rewrite HN.
  replace (kMaxInt64 + 1 <? kMaxInt64) with false by (symmetry; apply Z.ltb_ge; lia).
  intros H. apply (f_equal fst) in H. cbn [fst] in H. lia.
Qed.
Example core_minmax_is_minmax_ty_refuted : exists t, minmax t <> minmax_ty t.
Proof.
  assert (HN : exists N : nat, Z.of_nat N = kMaxInt64).
  { exists (Z.to_nat kMaxInt64). apply Z2Nat.id. unfold kMaxInt64. lia. }
  destruct HN as (N & HN). exists (TRec None [nest N TUnk]). apply deep_record_differs, HN.
Qed.

(* ------------------------------------------------------------------ record-free, union-free layouts: purelist_depth is
   the exact depth of every leaf of the nested-list value *)
Definition pure_layout (c : content) : bool := f_pure (form_of c).

Theorem pure_layout_depths c : np_ok c = true -> pure_layout c = true ->
  c_minmax_depth None c = (c_purelist_depth None c, c_purelist_depth None c) /\
  c_branch_depth None c = (false, c_purelist_depth None c) /\ 1 <= c_purelist_depth None c.
Proof.
  intros Hnp Hp. destruct (pure_depths_coincide (form_of c) Hp) as (H1 & H2 & H3).
  unfold form_of in *. rewrite (purelist_depth_agree c None None Hnp) in *.
  rewrite (minmax_depth_agree c None None Hnp) in H1. rewrite (branch_depth_agree c None None Hnp) in H2.
  cbn [bind] in *. split; [congruence|]. split; [congruence|]. apply H3. reflexivity.
Qed.

Theorem pure_layout_leaf_depth c vs : Valid None c -> to_list c = Ok vs -> pure_layout c = true ->
  Forall (fun v => leaf_depth_in (c_purelist_depth None c) (c_purelist_depth None c) v = true) vs.
Proof.
  intros HV Hl Hp. pose proof (minmax_is_value_depth_thm c vs HV Hl) as H.
  destruct (pure_layout_depths c (valid_np_ok c None HV) Hp) as (H1 & _ & _). rewrite H1 in H. exact H.
Qed.

(* [[1, None], []] with a 2-dimensional leaf: var * option[2 * int64] *)
Definition ex_pure : content :=
  ListOffset I64 [0; 2; 2] (IndexedOption I64 [0; -1] (Numpy DInt64 [1; 2] [DZ 1; DZ 2])).
Example ex_pure_leaf_depth :
  Valid None ex_pure /\ pure_layout ex_pure = true /\ c_purelist_depth None ex_pure = 3 /\
  to_list ex_pure = Ok [VList [VList [VNum (DZ 1); VNum (DZ 2)]; VNone]; VList []].
Proof. split; [apply (validity_exact_gen ex_pure None); vm_compute; reflexivity|]. vm_compute. repeat split. Qed.

(* purelist_depth of a layout is >= 1 unless a union lies on the way *)
Theorem c_purelist_depth_positive c : np_ok c = true -> f_union_free_path (form_of c) = true -> 1 <= c_purelist_depth None c.
Proof. intros Hnp Hp. apply (purelist_depth_positive (form_of c) Hp). apply purelist_depth_agree, Hnp. Qed.
