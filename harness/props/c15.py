"""C15: JSON output parses back to the array's value; JSON input builds what it says.

Three voters per case:
  implementation  /repo's libawkward through impl/drv/jsondrv (Content::tojson string + FILE* forms,
                  FromJsonString + FromJsonFile, ArrayBuilder fed directly)
  specification   Python's json module (strict RFC 8259 settings) + the generator's / an independent Python
                  to_list of the layout
  model           the extracted Rocq model c15/coq/Json.v through .build/c15/jsonrun
"""
import json
import math
import os
import re
import subprocess
import time

import common as C
import gen as G

THEOREMS = ['dec_roundtrip',
            'string_roundtrip',
            'events_wellformed',
            'parse_render',
            'parse_render_ws',
            'concat_docs',
            'tojson_value',
            'tojson_value_partial',
            'truncation_errors_partial',
            'roundtrip_events',
            'parse_total',
            'parse_sound',
            'render_skeleton',
            'do_parse_docs_wellformed',
            'do_parse_total',
            'truncation_errors',
            'truncation_int_exact',
            'truncation_real_exact',
            'truncated_last_document',
            'single_byte_corruption_partial',
            'fromiter_encoding_inverse',
            'fromjson_is_fromiter_doc',
            'fromjson_is_fromiter',
            'fromjson_is_fromiter_dict',
            'fromjson_is_fromiter_dupkeys_refuted',
            'fromjson_of_tojson',
            'tojson_wellformed',
            'events_balanced',
            'tojson_value_wide',
            'frag15_in_frag15w',
            'tojson_text_value',
            'tojson_nonfinite_strings',
            'fromjson_restores_nonfinite',
            'tojson_nonfinite_default_refuted',
            'tojson_value_char_outside_string_refuted',
            'tojson_value_string_untagged_refuted',
            'tojson_value_char_nd_refuted',
            'tojson_uint64_as_int64',
            'tojson_value_uint64_exact',
            'tojson_value_uint64_refuted',
            'structural_byte_replaced',
            'structural_byte_deleted',
            'nonstructural_byte_corruption_refuted']
COQ_DIR = os.path.join(C.VERIF, 'c15', 'coq')
COQ_LOGICAL = '-R %s/coq AwkV -R . AwkJson' % C.VERIF
NEEDS_SAN = True
DRIVERS = ('jsondrv',)
B15 = os.path.join(C.BUILD, 'c15')

RULE = ('tojson: value-first random layouts (all node classes and widths, strings with escapes / control bytes / '
        'multi-byte UTF-8, bytestrings with arbitrary bytes, records with keys needing escapes, tuples, all option '
        'encodings, unions, n-d numpy, extreme int64/uint64, nan/inf with and without substitution strings, complex) x '
        '(compact | pretty); texts: random JSON values serialised with random spellings and whitespace, 1-4 concatenated '
        'documents, truncation at sampled (quick) / all (thorough) byte positions, single-byte replace/insert/delete '
        'corruptions; every tojson output is also fed back to from_json (round trip). non-trivial = the layout has a '
        'non-empty list or record / the text has a container or is rejected inside one; distinct by case text')
ASSUMPTIONS = [
    'RapidJSON is absent from this sandbox: tokenising, number parsing/formatting and string escaping are done by the '
    'clean-room substitute impl/rapidjson_shim, NOT by RapidJSON; the check covers awkward\'s own logic (event '
    'emission per node class, ToJson*/Handler classes, do_parse loop, substitution strings) on top of it',
    'numbers in texts: integers within int64 and doubles; integers in [2^63, 2^64) are the known finding '
    'c15-uint64-wraps; other out-of-range numbers are only checked for absence of crashes and model agreement',
    'objects with duplicate keys are excluded (counted); lone UTF-16 surrogate escapes are excluded (RFC 8259 leaves them open)',
    'bytes >= 0x80 are passed through unvalidated in both directions (RapidJSON without kParseValidateEncodingFlag): '
    'output is UTF-8 only if the strings are; the Python voter reads such texts as latin-1',
    'doubles with a fractional part are compared between implementation and Python only (the model abstracts them)',
    'theorems: parse_render / parse_render_ws / concat_docs / truncation_errors_partial / roundtrip_events need '
    'printable leaves (int64 integers, integer-valued doubles up to 2^53, byte strings); tojson_value holds for every '
    'valid layout whose uint64 items are below 2^63 (the known finding c15-uint64-wraps is exactly the excluded case) '
    'and is stated up to the documented rendering jv (tuples as objects keyed 0,1,..; nan/inf as the chosen strings); '
    'complex numbers, pretty printing and maxdecimals are outside the Rocq model (checked against Python only); '
    'the composition with the ArrayBuilder model (C14) is checked by differential testing only, not proved',
    'error messages are not compared; the incomplete/invalid split of do_parse is reported as a statistic only',
    'src/python/*.cpp (pybind11 glue of ak.to_json / ak.from_json) and from_iter itself cannot be built here: '
    'from_iter(json.loads(text)) is represented by awkward::ArrayBuilder driven with the event walk of the parsed value',
]
TRUSTED_BASE = [
    'Rocq kernel: coqc 8.16.1 (vm_compute used in Examples only; native_compute not used)',
    'no axioms: every property theorem is closed under the global context (parsed from Print Assumptions on this run)',
    'extraction: ExtrOcamlBasic only, no Extract Constant, Z/positive/nat kept inductive; OCaml 4.13.1; hand-written '
    'reader/printer (ocaml/rd.ml, sx.ml, c15/ocaml/jsonrun.ml)',
    'correspondence harness: harness/props/c15.py (generators, Python reference reader built on the json module, '
    'verdict logic), C++ driver impl/drv/jsondrv.cpp + drv_common.h',
    'lexical layer under test is the RapidJSON SUBSTITUTE impl/rapidjson_shim (Reader/Writer/PrettyWriter/streams), '
    'not RapidJSON: tokenising, number formatting/parsing and escaping are the shim\'s',
    'model vs code: c15/coq/Json.v is a hand-written model of tojson_part (array/*.cpp), io/json.cpp and the shim\'s '
    'Reader/Writer; tied by differential testing only',
]

U63 = 1 << 63
U64 = 1 << 64


# ===================================================================== S-expressions
TOK = re.compile(r'[()]|[^\s()]+')


def sx_parse(s):
    stack = [[]]
    for t in TOK.findall(s):
        if t == '(':
            stack.append([])
        elif t == ')':
            x = stack.pop()
            stack[-1].append(x)
        else:
            stack[-1].append(t)
    if len(stack) != 1 or len(stack[0]) != 1:
        raise ValueError('sx: ' + s[:80])
    return stack[0][0]


def blist(bs):
    return ' '.join(str(b) for b in bs)


# ===================================================================== layouts -> Python values (to_list semantics)
FLOATS = ('float32', 'float64')


def atom_num(a, dt):
    if dt == 'bool':
        return a not in ('0', 'false')
    if a == 'nan':
        return float('nan')
    if a == 'inf':
        return float('inf')
    if a == '-inf':
        return float('-inf')
    if a.startswith('f:'):
        return float.fromhex(a[2:])
    v = int(a)
    return float(v) if dt in FLOATS else v


def eff(p, a):
    return p if p is not None else (None if a == 'none' else a)


def ints(l):
    return [int(x) for x in l]


def nd(flat, shape):
    """nested lists of a contiguous row-major block"""
    if len(shape) == 1:
        return flat[:shape[0]]
    step = 1
    for d in shape[1:]:
        step *= d
    return [nd(flat[i * step:(i + 1) * step], shape[1:]) for i in range(shape[0])]


def values(node, p=None):
    """ak.to_list of a layout tree (parsed S-expression); strings become bytes"""
    h = node[0]
    if h == 'par':
        return values(node[3], eff(p, node[1]))
    if h == 'np':
        dt = node[1]
        shape = ints(node[2])
        total = 1
        for d in shape:
            total *= d
        flat = [atom_num(a, dt) for a in node[3][:total]]
        return nd(flat, shape)
    if h == 'npc':
        shape = ints(node[2])
        d = [atom_num(a, 'float64') for a in node[3]]
        flat = [complex(d[2 * i], d[2 * i + 1]) for i in range(len(d) // 2)]
        return nd(flat, shape)
    if h == 'empty':
        return []
    if h in ('lo', 'la', 'reg'):
        if h == 'lo':
            o = ints(node[2])
            ab = list(zip(o[:-1], o[1:]))
            vs = values(node[3])
        elif h == 'la':
            s, e = ints(node[2]), ints(node[3])
            ab = list(zip(s, e[:len(s)]))
            vs = values(node[4])
        else:
            size, n = int(node[1]), int(node[2])
            ab = [(i * size, (i + 1) * size) for i in range(n)]
            vs = values(node[3])
        items = [[] if a == b else vs[a:b] for a, b in ab]
        if p in ('string', 'bytestring'):
            return [bytes(x & 255 for x in it) for it in items]
        return items
    if h == 'ix':
        vs = values(node[3])
        return [vs[i] for i in ints(node[2])]
    if h == 'ixo':
        vs = values(node[3])
        return [None if i < 0 else vs[i] for i in ints(node[2])]
    if h == 'bym':
        vs = values(node[3])
        vw = node[2] not in ('0', 'false')
        return [vs[i] if ((m != 0) == vw) else None for i, m in enumerate(ints(node[1]))]
    if h == 'bim':
        vs = values(node[5])
        mask = ints(node[1])
        vw = node[2] not in ('0', 'false')
        lsb = node[3] not in ('0', 'false')
        out = []
        for i in range(int(node[4])):
            byte = mask[i // 8] & 255
            k = i % 8
            bit = (byte >> (k if lsb else 7 - k)) & 1
            out.append(vs[i] if (bit == 1) == vw else None)
        return out
    if h == 'unm':
        return values(node[1])
    if h == 'un':
        alts = [values(c) for c in node[4:]]
        return [alts[t][i] for t, i in zip(ints(node[2]), ints(node[3]))]
    if h == 'rec':
        n = int(node[1])
        cols = [values(c) for c in node[3:]]
        if node[2] == 'tuple':
            return [tuple(col[i] for col in cols) for i in range(n)]
        if node[2] and node[2][0] == 'keys':
            keys = [bytes(ints(k[1:])) for k in node[2][1:]]
        else:
            keys = [k.encode('utf-8') for k in node[2]]
        return [{k: col[i] for k, col in zip(keys, cols)} for i in range(n)]
    raise ValueError('values: ' + str(node)[:80])


def result_value(r):
    """value of a FromJson result dump (array, or the unwrapped single document)"""
    h = r[0]
    if h == 'scalar':
        return atom_num(r[2], r[1])
    if h == 'none':
        return None
    if h == 'record':
        return values(r[2])[int(r[1])]
    if h == 'par' and r[1] in ('char', 'byte') and r[3][0] == 'np':
        return bytes(x & 255 for x in values(r[3]))
    return values(r)


# ===================================================================== expected JSON value of an array value
def jsonify(v, o):
    """what the parsed JSON text must be (strings as bytes, object keys as bytes), per the documented rendering:
    records -> objects, tuples -> objects keyed "0","1",..., strings/bytestrings -> strings, None -> null,
    non-finite -> the chosen strings, complex -> {real: , imag: }"""
    if v is None or isinstance(v, (bool, bytes, int)):
        return v
    if isinstance(v, float):
        if math.isnan(v):
            return o['nan'] if o['nan'] is not None else v
        if math.isinf(v):
            k = 'inf' if v > 0 else 'minf'
            return o[k] if o[k] is not None else v
        return v
    if isinstance(v, complex):
        return {o['creal']: jsonify(v.real, o), o['cimag']: jsonify(v.imag, o)}
    if isinstance(v, list):
        return [jsonify(x, o) for x in v]
    if isinstance(v, tuple):
        return {str(i).encode(): jsonify(x, o) for i, x in enumerate(v)}
    if isinstance(v, dict):
        return {k: jsonify(x, o) for k, x in v.items()}
    raise ValueError(v)


def same(a, b):
    """exact equality of two JSON values (int and float are different kinds; nan equals nan)"""
    if type(a) is not type(b):
        return False
    if isinstance(a, float):
        return a == b or (math.isnan(a) and math.isnan(b))
    if isinstance(a, list):
        return len(a) == len(b) and all(same(x, y) for x, y in zip(a, b))
    if isinstance(a, dict):
        return a.keys() == b.keys() and all(same(a[k], b[k]) for k in a)
    return a == b


def unifies(p, v):
    """v (value of the built array) equals the parsed JSON value p up to ArrayBuilder's documented unification:
    integers next to reals become reals, missing record fields become None"""
    if p is None:
        return v is None
    if isinstance(p, bool):
        return isinstance(v, bool) and p == v
    if isinstance(p, (int, float)):
        if isinstance(v, bool) or not isinstance(v, (int, float)):
            return False
        if isinstance(p, float) and math.isnan(p):
            return isinstance(v, float) and math.isnan(v)
        if isinstance(p, int) and isinstance(v, float):
            return float(p) == v                 # the integer was converted to a double by the builder
        return p == v
    if isinstance(p, bytes):
        return isinstance(v, bytes) and p == v
    if isinstance(p, list):
        return isinstance(v, list) and len(p) == len(v) and all(unifies(x, y) for x, y in zip(p, v))
    if isinstance(p, dict):
        if not isinstance(v, dict):
            return False
        for k, x in p.items():
            if k not in v or not unifies(x, v[k]):
                return False
        return all(v[k] is None for k in v if k not in p)
    return False


def contains(v, pred):
    if pred(v):
        return True
    if isinstance(v, (list, tuple)):
        return any(contains(x, pred) for x in v)
    if isinstance(v, dict):
        return any(pred(k) or contains(x, pred) for k, x in v.items())
    return False


# ===================================================================== Python reference reader (RFC 8259, strict)
class Obj(list):
    pass


def _no_constant(name):
    raise ValueError('constant ' + name)


_DEC = json.JSONDecoder(strict=True, parse_constant=_no_constant, object_pairs_hook=Obj)
WS = ' \t\n\r'


def ref_parse(text):
    """-> dict(status='ok'|'malformed', docs=[...], flags=set()) ; docs canonical (str -> bytes, objects -> dict)"""
    flags = set()
    try:
        s = text.decode('utf-8')
        utf8 = True
    except UnicodeDecodeError:
        s = text.decode('latin-1')
        utf8 = False
        flags.add('not-utf8')
    idx, n, raw = 0, len(s), []
    while True:
        while idx < n and s[idx] in WS:
            idx += 1
        if idx >= n:
            break
        try:
            obj, idx = _DEC.raw_decode(s, idx)
        except (ValueError, RecursionError):
            return dict(status='malformed', docs=None, flags=flags, fail_at=idx)
        raw.append(obj)

    def canon(x):
        if isinstance(x, Obj):
            d = {}
            for k, v in x:
                kb = canon(k)
                if kb in d:
                    flags.add('dup-key')
                d[kb] = canon(v)
            return d
        if isinstance(x, list):
            return [canon(y) for y in x]
        if isinstance(x, str):
            if any(0xD800 <= ord(ch) <= 0xDFFF for ch in x):
                flags.add('lone-surrogate')
                return x.encode('utf-8', 'surrogatepass')
            if '\x00' in x:
                flags.add('nul')
            if utf8:
                return x.encode('utf-8')
            try:
                return x.encode('latin-1')
            except UnicodeEncodeError:       # \u escape above 0xFF in a text that is not UTF-8: values are not compared
                return x.encode('utf-8', 'surrogatepass')
        if isinstance(x, bool) or x is None:
            return x
        if isinstance(x, int):
            if U63 <= x < U64:
                flags.add('uint64')
            elif not (-U63 <= x < U63):
                flags.add('bigint')
            return x
        if isinstance(x, float):
            if math.isinf(x):
                flags.add('float-overflow')
            if not x.is_integer():
                flags.add('frac')
            return x
        raise ValueError(x)
    docs = [canon(x) for x in raw]
    return dict(status='ok', docs=docs, flags=flags, fail_at=None)


def cstr(b):
    i = b.find(b'\x00')
    return b if i < 0 else b[:i]


def doc_events(doc, o, out):
    """the handler-level event walk of a parsed document (what Handler passes to ArrayBuilder)"""
    if doc is None:
        out.append(('null',))
    elif isinstance(doc, bool):
        out.append(('bool', doc))
    elif isinstance(doc, int):
        if -U63 <= doc < U63:
            out.append(('int', doc))
        elif U63 <= doc < U64:
            out.append(('int', doc - U64))          # Handler::Uint64 casts (known finding c15-uint64-wraps)
        else:
            out.append(('real', float(doc)))
    elif isinstance(doc, float):
        out.append(('real', doc))
    elif isinstance(doc, bytes):
        c = cstr(doc)                               # Handler::String uses strcmp (known finding c15-nul-...)
        if o['nan'] is not None and c == o['nan']:
            out.append(('real', float('nan')))
        elif o['inf'] is not None and c == o['inf']:
            out.append(('real', float('inf')))
        elif o['minf'] is not None and c == o['minf']:
            out.append(('real', float('-inf')))
        else:
            out.append(('str', doc))
    elif isinstance(doc, list):
        out.append(('sa',))
        for x in doc:
            doc_events(x, o, out)
        out.append(('ea',))
    elif isinstance(doc, dict):
        out.append(('so',))
        for k, x in doc.items():
            out.append(('key', cstr(k)))
            doc_events(x, o, out)
        out.append(('eo',))
    else:
        raise ValueError(doc)


def fmt_real(f):
    if math.isnan(f):
        return 'nan'
    if math.isinf(f):
        return 'inf' if f > 0 else '-inf'
    if f.is_integer() and abs(f) < 2 ** 53:
        return str(int(f))
    return 'f:' + f.hex()


def ev_sx(e):
    """event -> build-events syntax of jsondrv"""
    k = e[0]
    if k == 'null':
        return 'null'
    if k == 'bool':
        return '(bool %d)' % (1 if e[1] else 0)
    if k == 'int':
        return '(int %d)' % e[1]
    if k == 'real':
        return '(real %s)' % fmt_real(e[1])
    if k == 'str':
        return '(str %s)' % blist(e[1]) if e[1] else '(str)'
    if k == 'key':
        return '(field %s)' % blist(e[1]) if e[1] else '(field)'
    return {'sa': 'beginlist', 'ea': 'endlist', 'so': 'beginrecord', 'eo': 'endrecord'}[k]


def model_ev_matches(m, e):
    """m: parsed model event (atom or list), e: python event tuple"""
    k = e[0]
    if isinstance(m, str):
        return (m, k) in (('null', 'null'), ('sa', 'sa'), ('ea', 'ea'), ('so', 'so'), ('eo', 'eo'))
    h = m[0]
    if h == 'bool':
        return k == 'bool' and (m[1] == '1') == e[1]
    if h == 'int':
        return k == 'int' and int(m[1]) == e[1]
    if h == 'real':
        if k != 'real':
            return False
        f = e[1]
        if m[1] == 'nan':
            return math.isnan(f)
        if m[1] == 'inf':
            return f == float('inf')
        if m[1] == '-inf':
            return f == float('-inf')
        if m[1] == 'frac':
            return True                      # the model abstracts non-integral doubles
        try:
            return float(int(m[1])) == f
        except OverflowError:
            return False
    if h == 'str':
        return k == 'str' and bytes(ints(m[1:])) == e[1]
    if h == 'key':
        return k == 'key' and bytes(ints(m[1:])) == e[1]
    return False


# ===================================================================== model value syntax -> canonical JSON value
def model_value(v):
    if isinstance(v, str):
        if v == 'none':
            return None
        if v == 'true':
            return True
        if v == 'false':
            return False
        if v == 'nan':
            return float('nan')
        if v == 'inf':
            return float('inf')
        if v == '-inf':
            return float('-inf')
        return int(v)
    h = v[0]
    if h == 'l':
        return [model_value(x) for x in v[1:]]
    if h in ('s', 'b'):
        return bytes(ints(v[1:]))
    if h == 'r':
        return _model_rec(v)
    if h == 't':
        return tuple(model_value(x) for x in v[1:])
    raise ValueError(v)


def _model_rec(v):
    # (r (KEY VALUE)...) ; KEY is printed raw by rd.ml, so only atom-safe keys reach this point
    return {kv[0].encode('utf-8', 'surrogateescape'): model_value(kv[1]) for kv in v[1:]}


def num_equal_loose(a, b):
    """model values do not distinguish int from integer-valued real"""
    if isinstance(a, bool) or isinstance(b, bool) or a is None or b is None:
        return a is b or (isinstance(a, bool) and isinstance(b, bool) and a == b)
    if isinstance(a, (int, float)) and isinstance(b, (int, float)):
        if isinstance(a, float) and math.isnan(a):
            return isinstance(b, float) and math.isnan(b)
        return a == b
    if isinstance(a, bytes) and isinstance(b, bytes):
        return a == b
    if isinstance(a, list) and isinstance(b, list):
        return len(a) == len(b) and all(num_equal_loose(x, y) for x, y in zip(a, b))
    if isinstance(a, dict) and isinstance(b, dict):
        return a.keys() == b.keys() and all(num_equal_loose(a[k], b[k]) for k in a)
    return False


# ===================================================================== generators: layouts
KEY_ALPHABET = ['a', 'b', 'c', 'x', 'y', 'pt', 'k"q', 'b\\s', 'sl/', 'é', '€', 'A_1', '0', '1', 'nan', '-', 'tuple2']
STR_PIECES = ([[c] for c in b'abcXYZ 019'] * 2 + [[34], [92], [47], [8], [12], [10], [13], [9], [1], [31], [127], [0]] +
              [list('é'.encode()), list('€'.encode()), list('\U0001F600'.encode()), list('߿'.encode()),
               list('￿'.encode())])
OPT_STRINGS = dict(nan=[b'NaN', b'nan', b'N\xc3\xa4N', b'not a "number"'], inf=[b'Infinity', b'inf', b'+\\inf'],
                   minf=[b'-Infinity', b'-inf'], creal=[b'real', b'r', b're"al'], cimag=[b'imag', b'i'])


def gen_string(rng, isstr, opts):
    while True:
        n = rng.choice([0, 1, 1, 2, 3, 5, 9])
        out = []
        for _ in range(n):
            if isstr or rng.random() < 0.6:
                out.extend(rng.choice(STR_PIECES))
            else:
                out.append(rng.randint(0, 255))
        b = bytes(out)
        if cstr(b) not in [x for x in (opts['nan'], opts['inf'], opts['minf']) if x is not None]:
            return out


def gen_leaf(rng, dt, opts, probes):
    if dt == 'bool':
        return rng.random() < 0.5
    if dt in FLOATS:
        r = rng.random()
        if r < 0.07 and (opts['nan'] is not None or probes):
            return float('nan')
        if r < 0.11 and (opts['inf'] is not None or probes):
            return float('inf')
        if r < 0.15 and (opts['minf'] is not None or probes):
            return float('-inf')
        if r < 0.25:
            lim = 2 ** 24 if dt == 'float32' else 2 ** 53
            return rng.choice([lim, -lim, lim - 1, 1000000, -123456, 100, 4096])
        return rng.randint(-9, 9)
    lo, hi = {'int8': (-128, 127), 'int16': (-2 ** 15, 2 ** 15 - 1), 'int32': (-2 ** 31, 2 ** 31 - 1),
              'int64': (-2 ** 63, 2 ** 63 - 1), 'uint8': (0, 255), 'uint16': (0, 2 ** 16 - 1),
              'uint32': (0, 2 ** 32 - 1), 'uint64': (0, 2 ** 64 - 1)}[dt]
    if dt == 'uint64' and not probes:
        hi = U63 - 1
    r = rng.random()
    if r < 0.12:
        return rng.choice([lo, hi, hi - 1, lo + 1])
    if r < 0.2:
        return rng.randint(lo, hi)
    return rng.randint(max(lo, -9), min(hi, 99))


def gen_value(rng, t, opts, probes, maxlen=4):
    k = t[0]
    if k == 'leaf':
        return gen_leaf(rng, t[1], opts, probes)
    if k == 'str':
        return ('$str', t[1], gen_string(rng, t[1], opts))
    if k == 'list':
        n = rng.choice([0, 0, 1, 2, 2, 3, maxlen])
        return [gen_value(rng, t[1], opts, probes, maxlen) for _ in range(n)]
    if k == 'opt':
        return None if rng.random() < 0.3 else gen_value(rng, t[1], opts, probes, maxlen)
    if k == 'rec':
        return ('$rec', [gen_value(rng, ft, opts, probes, maxlen) for _, ft in t[1]])
    if k == 'union':
        i = rng.randrange(len(t[1]))
        return ('$un', i, gen_value(rng, t[1][i], opts, probes, maxlen))
    raise ValueError(t)


def rename_keys(rng, t):
    k = t[0]
    if k in ('leaf', 'str'):
        return t
    if k in ('list', 'opt'):
        return (k, rename_keys(rng, t[1]))
    if k == 'rec':
        names = rng.sample(KEY_ALPHABET, len(t[1]))
        return ('rec', [(names[i], rename_keys(rng, ft)) for i, (_, ft) in enumerate(t[1])], t[2])
    if k == 'union':
        return ('union', [rename_keys(rng, a) for a in t[1]])
    raise ValueError(t)


def to_nd(rng, lay):
    """turn (reg size n (np dt (size*n) data)) into an n-d NumpyArray now and then"""
    if not isinstance(lay, list) or not lay or not isinstance(lay[0], str):
        return lay
    if (lay[0] == 'reg' and isinstance(lay[3], list) and lay[3][0] == 'np' and len(lay[3][2]) == 1 and lay[1] > 0
            and lay[3][2][0] == lay[1] * lay[2] and rng.random() < 0.6):
        return ['np', lay[3][1], [lay[2], lay[1]], lay[3][3]]
    return [to_nd(rng, x) if isinstance(x, list) and x and isinstance(x[0], str) else x for x in lay]


def pyval(t, v):
    """the generator's own view of the value (strings as bytes, records dict with bytes keys, tuples)"""
    k = t[0]
    if v is None:
        return None
    if k == 'leaf':
        if t[1] in FLOATS and not isinstance(v, float):
            return float(v)
        return v
    if k == 'str':
        return bytes(v[2])
    if k == 'list':
        return [pyval(t[1], x) for x in v]
    if k == 'opt':
        return pyval(t[1], v)
    if k == 'rec':
        if t[2]:
            return tuple(pyval(ft, x) for (_, ft), x in zip(t[1], v[1]))
        return {n.encode('utf-8'): pyval(ft, x) for (n, ft), x in zip(t[1], v[1])}
    if k == 'union':
        return pyval(t[1][v[1]], v[2])
    raise ValueError(t)


def optsx(name, v):
    return '(%s %s)' % (name, 'none' if v is None else blist(v))


def gen_opts(rng, allset=False):
    o = {}
    for k in ('nan', 'inf', 'minf'):
        o[k] = rng.choice(OPT_STRINGS[k]) if (allset or rng.random() < 0.7) else None
    both = rng.random() < 0.8
    o['creal'] = rng.choice(OPT_STRINGS['creal']) if both else None
    o['cimag'] = rng.choice(OPT_STRINGS['cimag']) if both else None
    return o


def tojson_args(o, pretty, maxdec):
    return '(opts %d %d %s %s %s %s %s)' % (1 if pretty else 0, maxdec, optsx('nan', o['nan']), optsx('inf', o['inf']),
                                          optsx('minf', o['minf']), optsx('creal', o['creal']), optsx('cimag', o['cimag']))


def fromjson_args(o, rng):
    return '(opts %s %s %s %d %d %d)' % (optsx('nan', o['nan']), optsx('inf', o['inf']), optsx('minf', o['minf']),
                                       rng.choice([1, 8, 1024]), rng.choice([150, 200]), rng.choice([1, 2, 3, 7, 64, 4096]))


def gen_tojson_case(rng, cid, probes):
    o = gen_opts(rng)
    r = rng.random()
    pretty = rng.random() < 0.2
    maxdec = rng.choice([-1, -1, 0, 3, 10])
    tags = {}
    if r < 0.04:
        # complex leaves below a few list / option / record nodes
        n = rng.randint(0, 4)
        data = []
        for _ in range(n):
            data += [rng.randint(-9, 9), rng.randint(-9, 9)]
        lay = ['npc', rng.choice(['complex128', 'complex64']), [n], data]
        if rng.random() < 0.5:
            offs = sorted(rng.randint(0, n) for _ in range(rng.randint(1, 3)))
            lay = ['lo', 'i64', [0] + offs, lay]
        tags['complex'] = 1
        exp = values(sx_parse(G.sx(lay)))
        return C.Case(cid, 'tojson', [tojson_args(o, pretty, maxdec)], [G.sx(lay)], dict(tags=tags, nontrivial=n > 0, gen_value=exp))
    if r < 0.07:
        # deep nesting
        depth = rng.randint(20, 60)
        lay = ['np', 'int64', [1], [rng.randint(-5, 5)]]
        for _ in range(depth):
            lay = rng.choice([['lo', 'i64', [0, 1], lay], ['reg', 1, 1, lay], ['la', 'i32', [0], [1], lay]])
        tags['deep'] = 1
        return C.Case(cid, 'tojson', [tojson_args(o, pretty, maxdec)], [G.sx(lay)], dict(tags=tags, nontrivial=True))
    t = rename_keys(rng, G.gen_type(rng, rng.choice([1, 2, 3, 3, 4])))
    n = rng.choice([0, 1, 2, 3, 3, 4, 5])
    vals = [gen_value(rng, t, o, probes) for _ in range(n)]
    enc = G.Enc(rng)
    lay = to_nd(rng, G.encode(enc, t, vals))
    for k in enc.stats:
        tags['enc_' + k] = 1
    gv = [pyval(t, v) for v in vals]
    nontriv = any(isinstance(v, (list, dict, tuple)) and len(v) > 0 for v in gv)
    return C.Case(cid, 'tojson', [tojson_args(o, pretty, maxdec)], [G.sx(lay)], dict(tags=tags, nontrivial=nontriv, gen_value=gv))


# ===================================================================== generators: texts
CHARS = (list('abcxyzAZ09 _-') * 2 + ['"', '\\', '/', '\b', '\f', '\n', '\r', '\t', '\x01', '\x1f', '\x7f',
                                        'é', '€', '߿', '￿', '\U0001F600', '\U00010000'])


def gen_pystr(rng, nul=False):
    n = rng.choice([0, 1, 1, 2, 3, 6])
    s = ''.join(rng.choice(CHARS) for _ in range(n))
    if nul:
        s = s[:1] + '\x00' + s[1:]
    return s


def gen_pyvalue(rng, depth, kind=None, nul=False, u64=False):
    kind = kind or rng.choice(['null', 'bool', 'int', 'int', 'real', 'str', 'list', 'list', 'dict', 'dict'] if depth > 0
                              else ['null', 'bool', 'int', 'int', 'real', 'str'])
    if kind == 'null':
        return None
    if kind == 'bool':
        return rng.random() < 0.5
    if kind == 'int':
        r = rng.random()
        if u64 and r < 0.5:
            return rng.choice([U63, U64 - 1, rng.randint(U63, U64 - 1)])
        if r < 0.1:
            return rng.choice([-U63, U63 - 1, -U63 + 1, 2 ** 31, -2 ** 31 - 1, 2 ** 32, 2 ** 53 + 1])
        if r < 0.2:
            return rng.randint(-U63, U63 - 1)
        return rng.randint(-20, 200)
    if kind == 'real':
        r = rng.random()
        if r < 0.5:
            return float(rng.randint(-50, 50))
        if r < 0.7:
            return rng.randint(-4000, 4000) / 8.0
        if r < 0.8:
            return float(rng.choice([2 ** 53, -2 ** 53, 10 ** 15, 123456789]))
        if r < 0.9:
            return rng.choice([1e300, -2.5e-300, 1.7976931348623157e308, 5e-324, 0.1, 1 / 3.0])
        return rng.uniform(-1000, 1000)
    if kind == 'str':
        return gen_pystr(rng, nul and rng.random() < 0.5)
    if kind == 'list':
        n = rng.choice([0, 1, 2, 3, 4])
        if rng.random() < 0.65:
            ek = rng.choice(['null', 'bool', 'int', 'real', 'str', 'list', 'dict'] if depth > 1 else ['bool', 'int', 'real', 'str'])
            return [gen_pyvalue(rng, depth - 1, ek, nul, u64) for _ in range(n)]
        return [gen_pyvalue(rng, depth - 1, None, nul, u64) for _ in range(n)]
    if kind == 'dict':
        n = rng.choice([0, 1, 2, 3])
        d = {}
        for _ in range(n):
            k = gen_pystr(rng, nul and rng.random() < 0.5) if rng.random() < 0.3 else rng.choice(['a', 'b', 'c', 'x', 'y'])
            d[k] = gen_pyvalue(rng, depth - 1, None, nul, u64)
        return d
    raise ValueError(kind)


def ws(rng):
    r = rng.random()
    if r < 0.6:
        return ''
    if r < 0.85:
        return rng.choice([' ', '\n', '\t', '\r'])
    return ''.join(rng.choice(WS) for _ in range(rng.randint(1, 4)))


SHORT = {'"': '\\"', '\\': '\\\\', '/': '\\/', '\b': '\\b', '\f': '\\f', '\n': '\\n', '\r': '\\r', '\t': '\\t'}


def hex4(rng, n):
    s = '%04x' % n
    return ''.join(ch.upper() if rng.random() < 0.5 else ch for ch in s)


def ser_str(rng, s):
    out = ['"']
    for ch in s:
        c = ord(ch)
        must = c < 0x20 or ch in '"\\'
        r = rng.random()
        if ch in SHORT and (r < 0.6 or (must and r < 0.8)):
            out.append(SHORT[ch])
        elif must or r < 0.15:
            if c >= 0x10000:
                c2 = c - 0x10000
                out.append('\\u' + hex4(rng, 0xD800 + (c2 >> 10)) + '\\u' + hex4(rng, 0xDC00 + (c2 & 0x3FF)))
            else:
                out.append('\\u' + hex4(rng, c))
        else:
            out.append(ch)
    out.append('"')
    return ''.join(out)


def ser_real(rng, f):
    if f.is_integer() and abs(f) < 1e15:
        i = int(f)
        r = rng.random()
        if r < 0.4:
            return '%d.0' % i
        if r < 0.55:
            return '%de0' % i
        if r < 0.7:
            return '%d.00E+0' % i
        if r < 0.8:
            return '%d0e-1' % i if i != 0 else '0.0e-5'
        if r < 0.9 and i % 10 == 0 and i != 0:
            return '%de1' % (i // 10)
        return repr(f)
    r = repr(f)
    if rng.random() < 0.3:
        r = r.replace('e', 'E')
    return r


def ser(rng, v):
    if v is None:
        return 'null'
    if v is True:
        return 'true'
    if v is False:
        return 'false'
    if isinstance(v, int):
        return str(v)
    if isinstance(v, float):
        return ser_real(rng, v)
    if isinstance(v, str):
        return ser_str(rng, v)
    if isinstance(v, list):
        return '[' + ws(rng) + (',' + ws(rng)).join(ser(rng, x) + ws(rng) for x in v) + ']'
    if isinstance(v, dict):
        return '{' + ws(rng) + (',' + ws(rng)).join(ser_str(rng, k) + ws(rng) + ':' + ws(rng) + ser(rng, x) + ws(rng)
                                                    for k, x in v.items()) + '}'
    raise ValueError(v)


def gen_text(rng, nul=False, u64=False):
    """a well-formed text of 1-4 documents (bytes) and the number of documents"""
    k = rng.choice([1, 1, 1, 2, 3, 4])
    parts = [ws(rng)]
    prev = None
    for i in range(k):
        d = ser(rng, gen_pyvalue(rng, rng.choice([0, 1, 2, 2, 3]), None, nul, u64))
        if prev is not None:
            glue = ws(rng)
            if glue == '' and not (prev[-1] in ']}"' or d[0] in '[{"'):
                glue = rng.choice(WS)
            parts.append(glue)
        parts.append(d)
        prev = d
    parts.append(ws(rng))
    return ''.join(parts).encode('utf-8'), k


CORRUPT_BYTES = list(b'[]{},:"\\ 0123456789-+.eEtrufalsn/x\t\n') + [1, 31, 127, 128, 200, 255, 0xC3, 0xA9, 0xED, 0xA0]


def corrupt(rng, text):
    if not text:
        return bytes([rng.choice(CORRUPT_BYTES)])
    i = rng.randrange(len(text))
    b = rng.choice(CORRUPT_BYTES)
    r = rng.random()
    if r < 0.5:
        return text[:i] + bytes([b]) + text[i + 1:]
    if r < 0.75:
        return text[:i] + bytes([b]) + text[i:]
    return text[:i] + text[i + 1:]


def text_case(cid, text, o, rng, kind):
    return C.Case(cid, 'fromjson', [fromjson_args(o, rng), '(text %s)' % blist(text) if text else '(text)'], [],
                  dict(tags=dict(kind=kind), nontrivial=(b'[' in text or b'{' in text)))


# ===================================================================== corpus / cases
def corpus_cases():
    out = []
    d = os.path.join(C.VERIF, 'corpus', 'C15')
    if not os.path.isdir(d):
        return out
    for fn in sorted(os.listdir(d)):
        if fn.endswith('.case'):
            out += replay_cases(os.path.join(d, fn), prefix='corpus-' + fn[:-5] + '-')
    return out


def replay_cases(path, prefix=''):
    cases = []
    for ln in open(path):
        ln = ln.strip()
        if not ln or ln.startswith('#'):
            continue
        x = sx_parse(ln)
        cid, op = x[0], x[1]
        if op == 'tojson':
            cases.append(C.Case(prefix + cid, op, [G.sx(x[2])], [G.sx(x[3])], dict(tags=dict(kind='replay'), nontrivial=True)))
        elif op == 'fromjson':
            cases.append(C.Case(prefix + cid, op, [G.sx(x[2]), G.sx(x[3])], [], dict(tags=dict(kind='replay'), nontrivial=True)))
    return cases


def probe_cases(rng, n):
    """inputs of the three open known findings, at a low rate (so that each is reproduced from generated inputs)"""
    out = []
    none5 = dict(nan=None, inf=None, minf=None, creal=None, cimag=None)
    for i in range(n):
        # D2: uint64 above 2^63-1, output and input
        big = rng.choice([U64 - 1, U63, rng.randint(U63, U64 - 1)])
        k = rng.randint(1, 3)
        data = [rng.randint(0, 9) for _ in range(k)]
        data[rng.randrange(k)] = big
        lay = ['np', 'uint64', [k], data]
        if rng.random() < 0.5:
            lay = ['lo', 'i64', [0, k], lay]
        out.append(C.Case('pu%d' % i, 'tojson', [tojson_args(gen_opts(rng), False, -1)], [G.sx(lay)], dict(tags=dict(kind='probe-uint64'))))
        text = ('[%d, %d]' % (rng.randint(0, 9), big)).encode()
        out.append(text_case('pv%d' % i, text, gen_opts(rng), rng, 'probe-uint64'))
        # D3: non-finite without its substitution string
        o = gen_opts(rng, allset=True)
        which = rng.choice(['nan', 'inf', 'minf'])
        o[which] = None
        bad = {'nan': 'nan', 'inf': 'inf', 'minf': '-inf'}[which]
        data = [rng.randint(-5, 5), bad, rng.randint(-5, 5)]
        out.append(C.Case('pn%d' % i, 'tojson', [tojson_args(o, rng.random() < 0.3, -1)],
                          [G.sx(['np', rng.choice(FLOATS), [3], data])], dict(tags=dict(kind='probe-nonfinite'))))
        # D4: NUL inside a key / inside a string that starts with the nan string
        o = gen_opts(rng, allset=True)
        if rng.random() < 0.5:
            text = b'{"a\\u0000b": %d}' % rng.randint(0, 9)
        else:
            text = b'[' + json.dumps(o['nan'].decode('utf-8')).encode()[:-1] + b'\\u0000x"]'
        out.append(text_case('pz%d' % i, text, o, rng, 'probe-nul'))
    return out


def cases(rng, tier):
    quick = tier != 'thorough'
    out = corpus_cases()
    n_lay = 1500 if quick else 30000
    for i in range(n_lay):
        out.append(gen_tojson_case(rng, 'j%d' % i, probes=(rng.random() < 0.03)))
    out += probe_cases(rng, 4 if quick else 40)
    # texts
    n_base = 330 if quick else 2600
    n_alltrunc = 0 if quick else 550
    tid = 0
    for i in range(n_base):
        r = rng.random()
        o = gen_opts(rng, allset=rng.random() < 0.5)
        text, k = gen_text(rng, nul=(r < 0.03), u64=(0.03 <= r < 0.06))
        if rng.random() < 0.1 and o['nan'] is not None:
            text = b'[1.5, ' + json.dumps(o['nan'].decode('utf-8')).encode() + b', 2]' + text
        out.append(text_case('t%d' % tid, text, o, rng, 'valid%d' % min(k, 2)))
        tid += 1
        if i < n_alltrunc:
            cuts = range(len(text))
        else:
            cuts = sorted(set(rng.randrange(len(text)) for _ in range(2))) if text else []
        for c in cuts:
            out.append(text_case('t%d' % tid, text[:c], o, rng, 'trunc'))
            tid += 1
        for _ in range(2 if quick else 3):
            out.append(text_case('t%d' % tid, corrupt(rng, text), o, rng, 'corrupt'))
            tid += 1
    return out


# ===================================================================== running
def build():
    t = time.time()
    lock = open(os.path.join(C.BUILD, '.lock-c15'), 'w')
    import fcntl
    fcntl.flock(lock, fcntl.LOCK_EX)
    try:
        r = C.sh('cd %s && ([ -f Makefile.coq ] || coq_makefile -f _CoqProject -o Makefile.coq) >/dev/null '
                 '&& timeout 1500 make -f Makefile.coq -j8 2>&1 | tail -30' % COQ_DIR)
        if r.returncode != 0 or 'Error' in r.stdout:
            raise C.BuildError('Rocq build of c15/coq failed:\n' + r.stdout[-3000:])
        r = C.sh('make -s -C %s/c15/ocaml VERIF=%s' % (C.VERIF, C.VERIF))
        if r.returncode != 0:
            raise C.BuildError('jsonrun build failed:\n' + r.stdout[-3000:])
        C.log('c15 model build ok in %.1fs' % (time.time() - t))
    finally:
        fcntl.flock(lock, fcntl.LOCK_UN)
        lock.close()


def run_jsonrun(lines):
    exe = os.path.join(B15, 'jsonrun')
    p = subprocess.run('ulimit -s unlimited 2>/dev/null; exec ' + exe, shell=True, input='\n'.join(lines) + '\n',
                       stdout=subprocess.PIPE, stderr=subprocess.PIPE, text=True, timeout=3600)
    out = {}
    for ol in p.stdout.splitlines():
        m = C.LINE_ID.match(ol)
        if m:
            out[m.group(1)] = ol[len(m.group(1)) + 2:-1]
    if p.returncode != 0:
        raise RuntimeError('jsonrun failed rc=%s: %s' % (p.returncode, p.stderr[-2000:]))
    return out


def parse_opts_tojson(a):
    x = sx_parse(a)

    def ob(e):
        return None if e[1:] == ['none'] else bytes(ints(e[1:]))
    return dict(pretty=x[1] != '0', maxdec=int(x[2]), nan=ob(x[3]), inf=ob(x[4]), minf=ob(x[5]), creal=ob(x[6]), cimag=ob(x[7]))


def parse_opts_fromjson(a):
    x = sx_parse(a)

    def ob(e):
        return None if e[1:] == ['none'] else bytes(ints(e[1:]))
    return dict(nan=ob(x[1]), inf=ob(x[2]), minf=ob(x[3]), creal=None, cimag=None)


def load_json_latin1(b):
    """strict parse of an output text; strings -> bytes (latin-1 keeps every byte)"""
    s = b.decode('latin-1')
    dups = []

    def hook(pairs):
        d = {}
        for k, v in pairs:
            if k in d:
                dups.append(k)
            d[k] = v
        return d
    v = json.loads(s, strict=True, parse_constant=_no_constant, object_pairs_hook=hook)
    if dups:
        raise ValueError('duplicate keys')

    def canon(x):
        if isinstance(x, str):
            return x.encode('latin-1')
        if isinstance(x, list):
            return [canon(y) for y in x]
        if isinstance(x, dict):
            return {k.encode('latin-1'): canon(y) for k, y in x.items()}
        return x
    return canon(v)


def tojson_signature(exp, o):
    """known-finding signature of a tojson input, from its (reachable) value"""
    if contains(exp, lambda x: isinstance(x, float) and ((math.isnan(x) and o['nan'] is None) or
                                                       (x == float('inf') and o['inf'] is None) or
                                                       (x == float('-inf') and o['minf'] is None))):
        return 'c15-nonfinite-without-substitution'
    if contains(exp, lambda x: isinstance(x, complex) and any(
            (math.isnan(p) and o['nan'] is None) or (p == float('inf') and o['inf'] is None) or
            (p == float('-inf') and o['minf'] is None) for p in (x.real, x.imag))):
        return 'c15-nonfinite-without-substitution'
    if contains(exp, lambda x: isinstance(x, int) and not isinstance(x, bool) and x >= U63):
        return 'c15-uint64-wraps'
    return None


def fromjson_signature(ref):
    if ref and 'uint64' in ref['flags']:
        return 'c15-uint64-wraps'
    if ref and 'nul' in ref['flags']:
        return 'c15-nul-in-string-or-key'
    return None


def run(cases, tier, rng):
    t0 = time.time()
    san = tier == 'thorough'
    lines = [c.line() for c in cases]
    impl, errs = C.run_driver(lines, drv='jsondrv')
    C.log('implementation: %d cases in %.1fs' % (len(lines), time.time() - t0))
    t1 = time.time()
    model = run_jsonrun(lines)
    C.log('model: %.1fs' % (time.time() - t1))

    verd, dist, samples, distinct = {}, {}, [], set()
    agree_ids = []
    findings = []
    corr = {'corr:tojson': True, 'corr:tojson-value': True, 'corr:fromjson': True, 'corr:fromjson-builder': True,
            'corr:roundtrip': True, 'corr:theorem-instances': True}
    stats = dict(errkind_agree=0, errkind_differ=0, python_rejects_impl_rejects=0, python_accepts_impl_accepts=0,
                 skipped_flags={}, roundtrips=0, pretty=0, file_forms_compared=0)

    def add(kind, c, what, sig=None, extra=None, obl=None):
        verd[kind] = verd.get(kind, 0) + 1
        if kind == 'agree':
            agree_ids.append(c.id)
        if kind in ('agree', 'skip'):
            return
        no_input = kind in ('modeldiff', 'bad')
        if obl and not (sig and any(k.get('signature') == sig and k.get('status') != 'fixed' for k in KNOWN15)):
            corr[obl] = False
        findings.append(dict(kind=kind, what=what, case_lines=[c.line()] + ['# ' + x for x in (extra or [])],
                             signature=sig, no_input=no_input, size=len(c.line())))

    # ---------------- second batch: builder fed directly + round trips
    second = []
    plan = {}
    for c in cases:
        r = impl.get(c.id, 'crash missing')
        if c.op == 'fromjson':
            text = bytes(ints(sx_parse(c.args[1])[1:]))
            o = parse_opts_fromjson(c.args[0])
            ref = ref_parse(text)
            ent = dict(text=text, o=o, ref=ref)
            if ref['status'] == 'ok' and not (ref['flags'] & {'dup-key', 'lone-surrogate', 'float-overflow', 'not-utf8'}):
                evs = []
                try:
                    for d in ref['docs']:
                        doc_events(d, o, evs)
                    ent['events'] = evs
                    ent['perdoc'] = []
                    for d in ref['docs']:
                        e1 = []
                        doc_events(d, o, e1)
                        ent['perdoc'].append(e1)
                    ox = sx_parse(c.args[0])
                    second.append('(%s-b build-events (opts %s %s) (at0 %d) (events %s))' % (
                        c.id, ox[4], ox[5], 1 if len(ref['docs']) == 1 else 0, ' '.join(ev_sx(e) for e in evs)))
                except OverflowError:
                    ref['flags'].add('float-overflow')
            plan[c.id] = ent
        elif c.op == 'tojson':
            o = parse_opts_tojson(c.args[0])
            lay = sx_parse(c.layouts[0])
            try:
                exp = values(lay)
            except Exception as e:           # the harness' own to_list failed: fail closed
                plan[c.id] = dict(o=o, bad='values(): %r' % e)
                continue
            ent = dict(o=o, exp=exp)
            gv = c.meta.get('gen_value')
            if gv is not None and not same(jsonify(gv, dict(o, creal=b'r', cimag=b'i')), jsonify(exp, dict(o, creal=b'r', cimag=b'i'))):
                ent['bad'] = 'generator value and harness to_list disagree'
            if r.startswith('ok (bytes') and not o['pretty']:
                text = bytes(ints(sx_parse(r[3:])[1:]))
                second.append('(%s-r fromjson (opts %s %s %s 8 150 5) (text %s))' % (
                    c.id, optsx('nan', o['nan']), optsx('inf', o['inf']), optsx('minf', o['minf']), blist(text)))
            plan[c.id] = ent
    t2 = time.time()
    impl2, errs2 = C.run_driver(second, drv='jsondrv') if second else ({}, {})
    C.log('second batch (builder + round trips): %d cases in %.1fs' % (len(second), time.time() - t2))
    if san:
        t3 = time.time()
        simpl, serrs = C.run_driver(lines, drv='jsondrv', san=True)
        C.log('sanitizer build: %d cases in %.1fs' % (len(lines), time.time() - t3))
    else:
        simpl, serrs = {}, {}

    for c in cases:
        r = impl.get(c.id, 'crash missing')
        m = model.get(c.id, 'bad (model gave no answer)')
        ent = plan.get(c.id, {})
        for k2, v2 in (c.meta.get('tags') or {}).items():
            dist.setdefault(k2, {})
            dist[k2][str(v2)] = dist[k2].get(str(v2), 0) + 1
        if r.startswith('crash') or r.startswith('timeout'):
            add('crash', c, '%s: implementation crashed/hung (%s)' % (c.op, r), None, [errs.get(c.id, '')[-800:]], 'corr:' + c.op)
            continue
        if san:
            sr = simpl.get(c.id, 'crash missing')
            if sr != r:
                add('crash', c, '%s: sanitizer build differs or reports (%s)' % (c.op, sr[:100]), None,
                    [serrs.get(c.id, '')[-1500:]], 'corr:' + c.op)
                continue
        if r.startswith('bad') or 'bad' in ent:
            add('bad', c, 'correspondence corr:%s could not be evaluated: %s' % (c.op, ent.get('bad') or r[:300]), None, None, 'corr:' + c.op)
            continue
        if c.op == 'tojson':
            verdict_tojson(c, r, m, ent, impl2, add, stats)
        else:
            verdict_fromjson(c, r, m, ent, impl2, add, stats)
    # bookkeeping of agreeing, non-trivial, distinct cases
    byid = {c.id: c for c in cases}
    for cid in agree_ids:
        c = byid[cid]
        if c.meta.get('nontrivial', True):
            distinct.add(c.body())
            if len(samples) < 6 and len(c.line()) < 600:
                samples.append(c.line()[:400])
    best = {}
    for f in findings:
        key = (f['kind'], f['what'].split('[')[0][:80], str(f['signature']))
        if key not in best or f['size'] < best[key]['size']:
            best[key] = f
    fl = sorted(best.values(), key=lambda f: (f.get('no_input', False), f['size']))
    # keep new failures
    keep_failures(fl)
    return dict(findings=fl, corr_obligations=corr, evaluations=len(cases) + len(second), distinct_nontrivial=len(distinct),
                samples=samples, distribution=dist, verdicts=verd, extra=dict(c15_statistics=stats))


KNOWN15 = [k for k in C.load_known() if k.get('property') == 'C15']


def keep_failures(fl):
    d = os.path.join(C.VERIF, 'corpus', 'C15')
    try:
        os.makedirs(d, exist_ok=True)
        for i, f in enumerate(fl[:5]):
            if f.get('signature') or f['kind'] == 'bad':
                continue
            p = os.path.join(d, 'failure-%s-%d.case' % (f['kind'], i))
            with open(p, 'w') as fh:
                fh.write('# kept automatically: %s\n' % f['what'][:300].replace('\n', ' '))
                fh.write(f['case_lines'][0] + '\n')
    except OSError:
        pass


def verdict_tojson(c, r, m, ent, impl2, add, stats):
    o, exp = ent['o'], ent['exp']
    sig = tojson_signature(exp, o)
    has_complex = contains(exp, lambda x: isinstance(x, complex))
    if r.startswith('err'):
        if has_complex and (o['creal'] is None or o['cimag'] is None) and r == 'err value':
            return add('agree', c, '')
        return add('viol', c, 'tojson: implementation raised (%s) on a valid array' % r, sig, None, 'corr:tojson')
    if has_complex and (o['creal'] is None or o['cimag'] is None):
        return add('viol', c, 'tojson: complex numbers without complex_record_fields must raise', sig, [r[:200]], 'corr:tojson')
    text = bytes(ints(sx_parse(r[3:])[1:]))
    stats['file_forms_compared'] += 1
    # ---- specification: Python's json module on the produced text
    want = jsonify(exp, o)
    try:
        got = load_json_latin1(text)
    except (ValueError, RecursionError) as e:
        return add('viol', c, 'tojson: output is not well-formed JSON (%s)' % str(e)[:80], sig, ['impl text: %r' % text[:300]], 'corr:tojson')
    if not same(got, want):
        return add('viol', c, 'tojson: parsed output differs from to_list [want %r got %r]' % (str(want)[:150], str(got)[:150]),
                   sig, ['impl text: %r' % text[:300]], 'corr:tojson')
    if o['pretty']:
        stats['pretty'] += 1
    # ---- model
    if m.startswith('skip'):
        pass
    elif not m.startswith('ok'):
        return add('modeldiff', c, 'correspondence corr:tojson broken: model %s, implementation produced a text' % m[:100], None, None, 'corr:tojson')
    else:
        mx = sx_parse('(' + m + ')')
        mbytes = bytes(ints(mx[1][1:]))
        flags = {x[0]: x[1] for x in mx[2:]}
        if not o['pretty'] and mbytes != text:
            return add('modeldiff', c, 'correspondence corr:tojson broken: model text %r, implementation %r' % (mbytes[:120], text[:120]),
                       None, None, 'corr:tojson')
        if flags.get('wf') != '1' or flags.get('rt') != '1':
            return add('modeldiff', c, 'correspondence corr:theorem-instances broken: wf=%s parse(render)=%s on model events' % (
                flags.get('wf'), flags.get('rt')), None, None, 'corr:theorem-instances')
        try:
            mv = model_value(mx[2][1])
            ok = num_equal_loose(mv, want)
        except (ValueError, IndexError, UnicodeError):
            ok = None
        if ok is False:
            return add('modeldiff', c, 'correspondence corr:tojson-value broken: model json_value %r, expected %r' % (str(mv)[:120], str(want)[:120]),
                       None, None, 'corr:tojson-value')
    # ---- round trip through from_json (compact texts only)
    rr = impl2.get(c.id + '-r')
    if rr is not None and not has_complex:
        stats['roundtrips'] += 1
        if not rr.startswith('ok (res'):
            return add('viol', c, 'roundtrip: from_json rejects the text produced by to_json (%s)' % rr[:80], sig,
                       ['text: %r' % text[:300]], 'corr:roundtrip')
        back = result_value(sx_parse(rr[3:])[1])
        rt_want = jsonify(exp, dict(nan=None, inf=None, minf=None, creal=None, cimag=None))
        # a one-element top-level array comes back as that array itself (single document)
        if not unifies(rt_want, back):
            return add('viol', c, 'roundtrip: from_json(to_json(a)) differs from a [want %r got %r]' % (str(rt_want)[:150], str(back)[:150]),
                       sig, ['text: %r' % text[:300]], 'corr:roundtrip')
    add('agree', c, '')


def verdict_fromjson(c, r, m, ent, impl2, add, stats):
    ref, o, text = ent['ref'], ent['o'], ent['text']
    sig = fromjson_signature(ref)
    accepted = r.startswith('ok (res')
    failed = r.startswith('ok (fail')
    if not (accepted or failed):
        return add('viol', c, 'fromjson: unexpected outcome %s' % r[:100], sig, None, 'corr:fromjson')
    # ---- model vs implementation: accept/reject and (statistic) the error kind
    if m.startswith('docs'):
        m_ok = True
    elif m.startswith('fail') and 'fuel' not in m:
        m_ok = False
    else:
        return add('bad', c, 'correspondence corr:fromjson could not be evaluated: model says %s' % m[:100], None, None, 'corr:fromjson')
    if failed and not m_ok:
        if m.split()[1] == r[9:-1]:
            stats['errkind_agree'] += 1
        else:
            stats['errkind_differ'] += 1
    # ---- specification
    skip = ref['flags'] & {'dup-key', 'lone-surrogate', 'float-overflow', 'bigint'}
    if ref['status'] == 'malformed':
        if accepted:
            return add('viol', c, 'fromjson: malformed or truncated text accepted [%r -> %s]' % (text[:100], r[:150]), sig,
                       ['python: rejected at char %s' % ref['fail_at']], 'corr:fromjson')
        if m_ok:
            return add('modeldiff', c, 'correspondence corr:fromjson broken: model accepts a text that implementation and Python reject', None, None, 'corr:fromjson')
        stats['python_rejects_impl_rejects'] += 1
        return add('agree', c, '')
    if skip:
        for f in skip:
            stats['skipped_flags'][f] = stats['skipped_flags'].get(f, 0) + 1
        if accepted != m_ok and 'dup-key' not in skip:
            return add('modeldiff', c, 'correspondence corr:fromjson broken on an out-of-scope text (%s): model %s, implementation %s' % (
                ','.join(sorted(skip)), m[:60], r[:60]), None, None, 'corr:fromjson')
        return add('skip', c, '')
    # well-formed, in scope
    if failed:
        if r == 'ok (fail builder)':
            return add('viol', c, 'fromjson: the builder rejected a well-formed text [%r]' % text[:100], sig, None, 'corr:fromjson')
        return add('viol', c, 'fromjson: well-formed text rejected [%r -> %s]' % (text[:100], r), sig, None, 'corr:fromjson')
    if not m_ok:
        return add('modeldiff', c, 'correspondence corr:fromjson broken: model rejects (%s) a text that implementation and Python accept' % m, None, None, 'corr:fromjson')
    stats['python_accepts_impl_accepts'] += 1
    docs = ref['docs']
    # model events per document == handler-level walk of Python's parse
    mx = sx_parse('(' + m + ')')
    mdocs = [d[1:] for d in mx[1:]]
    perdoc = ent.get('perdoc')
    if perdoc is not None:
        okm = len(mdocs) == len(perdoc) and all(
            len(a) == len(b) and all(model_ev_matches(x, y) for x, y in zip(a, b)) for a, b in zip(mdocs, perdoc))
        if not okm:
            return add('modeldiff' if sig is None else 'viol', c,
                       'correspondence corr:fromjson broken: model events differ from the walk of json.loads(text) [model %s]' % m[:200],
                       sig, None, 'corr:fromjson')
    if 'not-utf8' in ref['flags']:
        return add('agree', c, '')
    # implementation == ArrayBuilder fed with the walk of json.loads(text)
    rb = impl2.get(c.id + '-b')
    if rb is None or rb.startswith('crash') or rb.startswith('bad') or rb.startswith('timeout'):
        return add('bad', c, 'correspondence corr:fromjson-builder could not be evaluated: %s' % str(rb)[:200], None, None, 'corr:fromjson-builder')
    if rb != r:
        return add('viol', c, 'fromjson: result differs from ArrayBuilder fed with json.loads(text) [from_json %s, builder %s]' % (r[:200], rb[:200]),
                   sig, None, 'corr:fromjson-builder')
    # value voter: to_list of the result == json.loads(text) up to the builder's unification
    try:
        got = result_value(sx_parse(r[3:])[1])
    except Exception as e:
        return add('bad', c, 'correspondence corr:fromjson could not be evaluated: result dump unreadable (%r)' % e, None, None, 'corr:fromjson')
    want = docs[0] if len(docs) == 1 else docs
    want = apply_handler(want, o)
    if not unifies(want, got):
        return add('viol', c, 'fromjson: value differs from json.loads(text) [want %r got %r]' % (str(want)[:150], str(got)[:150]),
                   sig, None, 'corr:fromjson')
    if sig == 'c15-uint64-wraps':
        return add('viol', c, 'fromjson: an integer in [2^63, 2^64) wrapped to a negative int64', sig, None, 'corr:fromjson')
    add('agree', c, '')


def apply_handler(v, o):
    """documented substitutions on input: the chosen strings read back as nan / +-inf"""
    if isinstance(v, bytes):
        if o['nan'] is not None and v == o['nan']:
            return float('nan')
        if o['inf'] is not None and v == o['inf']:
            return float('inf')
        if o['minf'] is not None and v == o['minf']:
            return float('-inf')
        return v
    if isinstance(v, list):
        return [apply_handler(x, o) for x in v]
    if isinstance(v, dict):
        return {k: apply_handler(x, o) for k, x in v.items()}
    return v


def signature(c, impl, v):
    return None
