(* C19 — fault freedom, part 7: the public API on checked programs. *)
From Coq Require Import ZArith Bool List Lia ZifyBool.
From AwkForth Require Import Forth Proofs_C19 Proofs_C19_SafeDefs Proofs_C19_Safe Proofs_C19_Safe2 Proofs_C19_Safe3
     Proofs_C19_Words Proofs_C19_Safe4 Proofs_C19_Safe5 Proofs_C19_Safe6.
Import ListNotations.
Open Scope Z_scope.

Lemma zlen_map : forall A B (f : A -> B) l, zlen (map f l) = zlen l.
Proof. intros. unfold zlen. rewrite map_length. reflexivity. Qed.

Lemma forallb_zeros : forall A (l : list A), forallb (fun x => 0 <=? x) (zeros l) = true.
Proof. induction l; [reflexivity|]. cbn. assumption. Qed.

Section Api.
  Variables (c : list sctx) (p : prog) (e : env).
  Hypothesis Hc : check_prog c p = true.

  (* the state between API calls: unless an error is pending or the machine is not ready (then nothing runs),
     the invariant holds and every target depth lies below the current depth *)
  Definition api_ok (m : machine) : Prop :=
    m_err m = E_none -> m_ready m = true -> inv c p e m = true /\ below_depth m = true.

  (* outcome of an API call: a state that is again api_ok, or the one modelled undefined behaviour that checked
     programs can reach (F_count: repeat count * item size overflows int64), or — for fuelled calls — OutOfFuel *)
  Definition api_good (r : result machine) : Prop :=
    match r with Ok m1 => api_ok m1 | Fault k => k = F_count | OutOfFuel => True end.

  Lemma below_depth_tlt : forall m, below_depth m = true -> tlt (m_targets m) (depth m).
  Proof. intros m H t Ht. unfold below_depth in H. rewrite forallb_forall in H. specialize (H t Ht). lia. Qed.

  Lemma pop_target_ok : forall m1, m_targets m1 <> [] -> (m_err m1 = E_none -> inv c p e m1 = true) ->
    api_good (pop_target m1).
  Proof.
    intros m1 Hne Hi. unfold pop_target. destruct (m_targets m1) as [|t r] eqn:Et; [contradiction|].
    cbn. intros He Hr.
    assert (Hi1 : inv c p e m1 = true) by (apply Hi; destruct (depth m1 =? t); exact He).
    assert (Hr1 : m_ready m1 = true) by (destruct (depth m1 =? t); exact Hr).
    destruct (inv_parts c p e _ Hi1) as [Hs [F [D T]]]. rewrite Hr1, Et in T. rewrite Et in F.
    destruct (depth m1 =? t) eqn:Ed.
    - split.
      + apply inv_mk; [exact Hs|]. cbn [m_frames m_dos m_targets m_ready set_targets]. rewrite Hr1.
        split; [eapply frames_ok_ts_tl; eassumption|]. split; [assumption|].
        cbn [chain_ok] in T. eapply chain_ok_mono; [|apply Z.le_refl].
        eapply chain_ok_mono with (n := t - 1); [|clear - T; unfold depth in *; lia]. clear - T. lia.
      + unfold below_depth, depth in *. cbn [m_targets set_targets m_frames]. apply forallb_forall. intros x Hx.
        cbn [chain_ok] in T. assert (Hr' : chain_ok 0 r (t - 1) = true) by (clear - T; lia).
        pose proof (chain_ok_all _ _ _ Hr' x Hx) as Hx'. cbv beta. clear - Hx' Ed. lia.
    - split; [assumption|]. unfold below_depth. rewrite Et. apply forallb_forall. intros x Hx.
      assert (Htl : tlt (t :: r) (zlen (m_frames m1))).
      { apply tlt_of_chain; [assumption|]. intros t0 r0 E. inv E. unfold depth in Ed. clear - Ed. lia. }
      specialize (Htl x Hx). unfold depth. clear - Htl. lia.
  Qed.

  Lemma run_and_pop_ok : forall f single m, inv c p e m = true -> m_ready m = true -> m_targets m <> [] ->
    api_good (run_and_pop f true single p e m).
  Proof.
    intros f single m H Hr Hne. unfold run_and_pop. destruct (m_targets m) as [|t ts] eqn:Et; [contradiction|].
    pose proof (irun_good c p e Hc f single m t ts H Hr Et) as G.
    destruct (internal_run f true single p e t m) as [m1|k|]; [|exact G|exact I].
    destruct G as [G1 G2]. apply pop_target_ok; assumption.
  Qed.

  Lemma api_ok_err : forall m z, z <> E_none -> api_ok (set_err m z).
  Proof. intros m z Hz He. cbn in He. contradiction. Qed.

  Theorem api_step_safe : forall m, api_ok m -> api_good (api_step true p e m).
  Proof.
    intros m H. unfold api_step. destruct (m_ready m) eqn:Hr; cbn [negb]; [|apply api_ok_err; discriminate].
    destruct (m_targets m) as [|t ts] eqn:Et; [apply api_ok_err; discriminate|].
    destruct (m_err m =? E_none) eqn:He; cbn [negb]; [|intros He'; rewrite He' in He; discriminate].
    destruct (H ltac:(lia) Hr) as [Hi _]. apply run_and_pop_ok; [assumption|assumption|rewrite Et; discriminate].
  Qed.

  Theorem api_resume_safe : forall f m, api_ok m -> api_good (api_resume f true p e m).
  Proof.
    intros f m H. unfold api_resume. destruct (m_ready m) eqn:Hr; cbn [negb]; [|apply api_ok_err; discriminate].
    destruct (m_targets m) as [|t ts] eqn:Et; [apply api_ok_err; discriminate|].
    destruct (m_err m =? E_none) eqn:He; cbn [negb]; [|intros He'; rewrite He' in He; discriminate].
    destruct (H ltac:(lia) Hr) as [Hi _]. apply run_and_pop_ok; [assumption|assumption|rewrite Et; discriminate].
  Qed.

  (* begin(): the freshly attached machine satisfies the invariant (the inputs found are those declared) *)
  Theorem api_begin_safe : forall m, zlen (m_vars m) = zlen (p_vars p) -> zlen (e_inputs e) = zlen (p_ins p) ->
    exists m', api_begin p e m = Ok m' /\ inv c p e m' = true /\ below_depth m' = true /\ api_ok m'.
  Proof.
    intros m Hv Hi. unfold api_begin. pose proof (Hrec c p Hc) as Hr. replace (p_rec_max p <? 1) with false by lia.
    eexists. split; [reflexivity|].
    assert (Hinv : inv c p e (mkM [] (zeros (m_vars m)) (zeros (e_inputs e)) (map (fun _ => []) (p_outs p)) [(0, 0)] [] [0] true E_none) = true).
    { apply inv_mk.
      - apply shape_pack; cbn [m_vars m_inpos m_outs]; unfold zeros; rewrite ?zlen_map; try assumption; try reflexivity.
        apply forallb_zeros.
      - cbn [m_frames m_dos m_targets m_ready ddepths map]. split; [|split; reflexivity].
        pose proof Hc as Hc'. unfold check_prog in Hc'. destruct c as [|s0 c']; [bsplit; discriminate|]. bsplit.
        pose proof (zero_boundary (s0 :: c') p H 0 s0 eq_refl) as Hz.
        unfold frames_ok, frame_ok. rewrite znth_0. cbn [memz existsb]. rewrite Hz.
        change (zlen [(0, 0)]) with 1. cbn [forallb]. unfold below. cbn [filter]. change (zlen (@nil Z)) with 0.
        clear - H1 H2. lia. }
    split; [exact Hinv|]. split; [reflexivity|]. intros _ _. split; [exact Hinv|reflexivity].
  Qed.

  Theorem api_run_safe : forall f m, zlen (m_vars m) = zlen (p_vars p) -> zlen (e_inputs e) = zlen (p_ins p) ->
    api_good (api_run f true p e m).
  Proof.
    intros f m Hv Hi. unfold api_run. destruct (api_begin_safe m Hv Hi) as [m' [Hb [Hinv _]]]. rewrite Hb.
    apply run_and_pop_ok; [assumption| |]; unfold api_begin in Hb; destruct (p_rec_max p <? 1); inv Hb; [reflexivity|discriminate].
  Qed.
End Api.
