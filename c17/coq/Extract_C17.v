(** Extraction of the executable C17 model (ExtrOcamlBasic only; Z stays inductive). *)
From Coq Require Import Extraction ExtrOcamlBasic.
From AwkV Require Import Layout Valid Types Carry.
From AwkTypes Require Import Json Forms TypeStr Typing Lark.
Extraction Language OCaml.
Extraction "c17model.ml" Z.add Z.mul Z.sub Z.div Z.modulo Z.eqb Z.ltb Z.leb Z.of_nat Z.to_nat Z.opp
  to_list value_eqb valid_b clen type_of crange
  json_print dec_of_Z bytes_eqb
  form_of form_tojson form_fromjson form_wf
  f_purelist_depth f_minmax_depth f_branch_depth f_purelist_isregular f_keys f_numfields
  c_purelist_depth c_minmax_depth c_branch_depth c_purelist_isregular c_keys c_numfields np_ok
  type_of_form type_tostring erase item_types type_parse printable dtype_to_name t_string t_bytes t_char t_byte
  has_typeb leaf_depth_in minmax_ty
  lark_parse_full lark_parse lark_ok.
