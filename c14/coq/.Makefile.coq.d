Builder.vo Builder.glob Builder.v.beautified Builder.required_vo: Builder.v /verif/coq/Base.vo /verif/coq/Layout.vo
Builder.vio: Builder.v /verif/coq/Base.vio /verif/coq/Layout.vio
Builder.vos Builder.vok Builder.required_vos: Builder.v /verif/coq/Base.vos /verif/coq/Layout.vos
Spec.vo Spec.glob Spec.v.beautified Spec.required_vo: Spec.v /verif/coq/Base.vo /verif/coq/Layout.vo Builder.vo
Spec.vio: Spec.v /verif/coq/Base.vio /verif/coq/Layout.vio Builder.vio
Spec.vos Spec.vok Spec.required_vos: Spec.v /verif/coq/Base.vos /verif/coq/Layout.vos Builder.vos
Extract_C14.vo Extract_C14.glob Extract_C14.v.beautified Extract_C14.required_vo: Extract_C14.v /verif/coq/Layout.vo /verif/coq/Valid.vo /verif/coq/Types.vo Builder.vo Spec.vo
Extract_C14.vio: Extract_C14.v /verif/coq/Layout.vio /verif/coq/Valid.vio /verif/coq/Types.vio Builder.vio Spec.vio
Extract_C14.vos Extract_C14.vok Extract_C14.required_vos: Extract_C14.v /verif/coq/Layout.vos /verif/coq/Valid.vos /verif/coq/Types.vos Builder.vos Spec.vos
