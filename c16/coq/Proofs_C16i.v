(** C16 proofs, part 10: a computable criterion on the buffers for "the pinned from_buffers does what the repaired one
    does" that covers both earlier sufficient conditions (contents that come back whole, nodes asked exactly). *)
From Coq Require Import ZArith List Bool Lia ZifyBool.
From AwkV Require Import Base Layout LayoutInd Valid Types Proofs_Lists Proofs_C11 Proofs_Typing Proofs_ToList Proofs_Carry.
From AwkBuffers Require Import Buffers Proofs_C16 Proofs_C16b Proofs_C16c Proofs_C16f Proofs_C16g.
Import ListNotations.
Open Scope Z_scope.

Definition last_or0 (o : list Z) : Z := match last_z o with Ok x => x | Err _ => 0 end.
Definition need_tix (ix : list Z) : Z := match ix with [] => 0 | _ => max_or0 ix + 1 end.
Definition need_tixo (ix : list Z) : Z := match ix with [] => 0 | _ => Z.max 0 (max_or0 ix + 1) end.
Definition need_tun (tg ix : list Z) (k i : Z) : Z := match mine (take k tg) (take k ix) i with [] => 0 | l' => max_or0 l' + 1 end.
Definition need_tl (s e : list Z) (k : Z) : Z := max_or0 (live_stops (take k s) (take k e)).

(* [safe_tree t l1 l2]: the pinned code asks the node for l1, the repaired code for l2 >= l1, and they build the same
   layout: wherever the rebuilt node depends on the length it is asked for (RecordArray, RegularArray, BitMaskedArray,
   EmptyArray, NumpyArray of zero-size items) the two lengths are equal *)
Fixpoint safe_tree (t : ftree) (l1 l2 : Z) {struct t} : bool :=
  (l1 <=? l2) &&
  match t with
  | TNumpy _ inner _ => negb (prodZ inner =? 0) || (l1 =? l2)
  | TEmpty => l1 =? l2
  | TListOffset _ o t' => safe_tree t' (last_or0 o) (last_or0 o)
  | TList _ s e t' => safe_tree t' (need_tl s e l1) (need_tl s e (zlen s))
  | TRegular t' size => (l1 =? l2) && safe_tree t' (l1 * size) (l2 * size)
  | TIndexed _ ix t' => safe_tree t' (need_tix ix) (need_tix ix)
  | TIndexedOption _ ix t' => safe_tree t' (need_tixo ix) (need_tixo ix)
  | TByteMasked m _ t' => safe_tree t' l1 (zlen m)
  | TBitMasked _ _ _ t' => (l1 =? l2) && safe_tree t' l1 l2
  | TUnmasked t' | TPar _ _ t' => safe_tree t' l1 l2
  | TUnion _ tg ix ts =>
      (fix all (l : list ftree) (i : Z) : bool :=
         match l with [] => true | x :: xs => safe_tree x (need_tun tg ix l1 i) (need_tun tg ix (zlen tg) i) && all xs (i + 1) end) ts 0
  | TRecord ts _ =>
      (l1 =? l2) && (fix all (l : list ftree) : bool := match l with [] => true | x :: xs => safe_tree x l1 l2 && all xs end) ts
  end.

Fixpoint safe_un (tg ix : list Z) (l1 : Z) (l : list ftree) (i : Z) : bool :=
  match l with [] => true | x :: xs => safe_tree x (need_tun tg ix l1 i) (need_tun tg ix (zlen tg) i) && safe_un tg ix l1 xs (i + 1) end.
Lemma safe_tree_Union w tg ix ts l1 l2 : safe_tree (TUnion w tg ix ts) l1 l2 = (l1 <=? l2) && safe_un tg ix l1 ts 0.
Proof.
  cbn [safe_tree]. f_equal. generalize 0. induction ts as [|x xs IH]; intros i; [reflexivity|]. cbn [safe_un]. rewrite <- IH. reflexivity.
Qed.
Lemma safe_tree_Record ts ks l1 l2 :
  safe_tree (TRecord ts ks) l1 l2 = (l1 <=? l2) && ((l1 =? l2) && forallb (fun x => safe_tree x l1 l2) ts).
Proof. cbn [safe_tree]. f_equal. Qed.

Ltac ifse H := repeat match type of H with
                      | (if ?b then _ else _) = Ok _ => destruct b eqn:?; [try discriminate H|try discriminate H]
                      end.

Definition safe_at (t : ftree) : Prop :=
  forall l1 l2 c', safe_tree t l1 l2 = true -> of_ftree true t l2 = Ok c' -> of_ftree false t l1 = Ok c'.

Lemma of_ftree_safe t : safe_at t.
Proof.
  induction t using ftree_ind'; intros l1 l2 c' Hs Q.
  - cbn [safe_tree] in Hs. apply andb_true_iff in Hs as [Hle Hs]. cbn [of_ftree] in *.
    destruct (prodZ inner =? 0) eqn:Ez.
    + cbn [negb orb] in Hs. replace l1 with l2 by lia. exact Q.
    + ifse Q. injection Q as <-. replace (zlen data / prodZ inner <? l1) with false by lia. reflexivity.
  - cbn [safe_tree] in Hs. apply andb_true_iff in Hs as [Hle Hs]. replace l1 with l2 by lia. exact Q.
  - cbn [safe_tree] in Hs. apply andb_true_iff in Hs as [Hle Hs]. cbn [of_ftree] in *. ifse Q.
    replace (zlen o - 1 <? l1) with false by lia. unfold last_or0 in Hs. destruct (last_z o) as [d|e]; [|discriminate Q]. cbn [bind] in *.
    apply bind_Ok in Q as (c & Hc & Q). rewrite (IHt _ _ c Hs Hc). exact Q.
  - cbn [safe_tree] in Hs. apply andb_true_iff in Hs as [Hle Hs]. cbn [of_ftree] in *. ifse Q.
    replace (zlen s <? l1) with false by lia. replace (zlen e <? l1) with false by lia.
    apply bind_Ok in Q as (c & Hc & Q). unfold need_tl in Hs. rewrite (IHt _ _ c Hs Hc). exact Q.
  - cbn [safe_tree] in Hs. apply andb_true_iff in Hs as [Hle Hs]. apply andb_true_iff in Hs as [He Hs]. cbn [of_ftree] in *.
    apply bind_Ok in Q as (c & Hc & Q). rewrite (IHt _ _ c Hs Hc). cbn [bind]. replace l1 with l2 by lia. exact Q.
  - cbn [safe_tree] in Hs. apply andb_true_iff in Hs as [Hle Hs]. cbn [of_ftree] in *. ifse Q.
    replace (zlen ix <? l1) with false by lia. apply bind_Ok in Q as (c & Hc & Q). unfold need_tix in Hs. rewrite (IHt _ _ c Hs Hc). exact Q.
  - cbn [safe_tree] in Hs. apply andb_true_iff in Hs as [Hle Hs]. cbn [of_ftree] in *. ifse Q.
    replace (zlen ix <? l1) with false by lia. apply bind_Ok in Q as (c & Hc & Q). unfold need_tixo in Hs. rewrite (IHt _ _ c Hs Hc). exact Q.
  - cbn [safe_tree] in Hs. apply andb_true_iff in Hs as [Hle Hs]. cbn [of_ftree] in *. ifse Q.
    replace (zlen m <? l1) with false by lia. apply bind_Ok in Q as (c & Hc & Q). rewrite (IHt _ _ c Hs Hc). exact Q.
  - cbn [safe_tree] in Hs. apply andb_true_iff in Hs as [Hle Hs]. apply andb_true_iff in Hs as [He Hs]. cbn [of_ftree] in *.
    apply bind_Ok in Q as (c & Hc & Q). rewrite (IHt _ _ c Hs Hc). cbn [bind]. replace l1 with l2 by lia. exact Q.
  - cbn [safe_tree] in Hs. apply andb_true_iff in Hs as [Hle Hs]. cbn [of_ftree] in *.
    apply bind_Ok in Q as (c & Hc & Q). rewrite (IHt _ _ c Hs Hc). exact Q.
  - rewrite safe_tree_Union in Hs. apply andb_true_iff in Hs as [Hle Hs]. rewrite of_ftree_Union in *. ifse Q. cbv zeta in *.
    replace (zlen tg <? l1) with false by lia. replace (zlen ix <? l1) with false by lia.
    apply bind_Ok in Q as (cs & Hcs & Q).
    assert (E : forall i cs, safe_un tg ix l1 ts i = true ->
                of_all_un true (take (zlen tg) tg) (take (zlen tg) ix) ts i = Ok cs -> of_all_un false (take l1 tg) (take l1 ix) ts i = Ok cs).
    { clear - H. induction H as [|x xs Hx _ IH]; intros i cs Hu Q; [exact Q|]. cbn [safe_un] in Hu. apply andb_true_iff in Hu as [E1 E2].
      cbn [of_all_un] in *. apply bind_Ok in Q as (c & Hc & Q). apply bind_Ok in Q as (cs0 & Hcs0 & Q).
      unfold need_tun in E1. rewrite (Hx _ _ c E1 Hc). cbn [bind]. rewrite (IH _ _ E2 Hcs0). exact Q. }
    rewrite (E 0 cs Hs Hcs). exact Q.
  - rewrite safe_tree_Record in Hs. apply andb_true_iff in Hs as [Hle Hs]. apply andb_true_iff in Hs as [He Hs].
    rewrite of_ftree_Record in *. apply bind_Ok in Q as (cs & Hcs & Q).
    assert (E : of_all_rec false ts l1 = Ok cs).
    { clear - H Hs Hcs. revert cs Hcs. induction H as [|x xs Hx _ IH]; intros cs Q; [exact Q|]. cbn [forallb] in Hs. apply andb_true_iff in Hs as [E1 E2].
      cbn [of_all_rec] in *. apply bind_Ok in Q as (c & Hc & Q). apply bind_Ok in Q as (cs0 & Hcs0 & Q).
      rewrite (Hx _ _ c E1 Hc). cbn [bind]. rewrite (IH E2 _ Hcs0). exact Q. }
    rewrite E. cbn [bind]. replace l1 with l2 by lia. exact Q.
  - cbn [safe_tree] in Hs. apply andb_true_iff in Hs as [Hle Hs]. cbn [of_ftree] in *.
    apply bind_Ok in Q as (c & Hc & Q). rewrite (IHt _ _ c Hs Hc). exact Q.
Qed.

(** if the buffers of c are safe, whatever the repaired from_buffers returns the pinned one returns too *)
Theorem pinned_is_fixed_when_safe_thm c c' :
  safe_tree (to_ftree c None) (clen c) (clen c) = true ->
  from_buffers_gen true (to_buffers c) = Ok c' -> from_buffers (to_buffers c) = Ok c'.
Proof. unfold from_buffers. rewrite !from_buffers_is_of_ftree. apply of_ftree_safe. Qed.

(** the pinned round trip on safe buffers *)
Theorem buffers_roundtrip_safe_partial_thm c :
  Valid None c -> offs_in c = true -> chars_ok c = true -> safe_tree (to_ftree c None) (clen c) (clen c) = true ->
  exists c', from_buffers (to_buffers c) = Ok c' /\ to_list c' = to_list c /\ type_of c' = type_of c /\ clen c' = clen c.
Proof.
  intros HV Ho Hch Hs. destruct (buffers_roundtrip_fixed_partial_thm c HV Ho Hch) as (c' & H & R).
  exists c'. split; [exact (pinned_is_fixed_when_safe_thm c c' Hs H)|exact R].
Qed.

(* neither in fragG false (a record below a ByteMaskedArray) nor exact (a ListArray asked for fewer lists than it
   keeps, over a content that comes back whole), but safe; and every refutation witness of Proofs_C16g.v is unsafe *)
Example buffers_roundtrip_safe_ex :
  let c := Record [ByteMasked [1; 0; 1] true R5;
                   ListOffset I64 [0; 1; 1; 2] (ListA I64 [3; 0; 1] [5; 2; 2] N5);
                   ListOffset I64 [0; 2; 2; 3] (Union I64 [0; 1; 0; 1] [0; 0; 4; 1] [N5; Numpy DBool [2] [DZ 1; DZ 0]])]
                  (Some [[97]; [98]; [99]]) 3 in
  validb None c = true /\ fragG false false c = false /\ exact_tree (to_ftree c None) (clen c) = false /\
  offs_in c = true /\ chars_ok c = true /\ safe_tree (to_ftree c None) (clen c) (clen c) = true /\
  exists c', from_buffers (to_buffers c) = Ok c' /\ to_list c' = to_list c /\ c' <> c /\ exists vs, to_list c = Ok vs.
Proof.
  cbv zeta. split; [vm_compute; reflexivity|]. split; [vm_compute; reflexivity|]. split; [vm_compute; reflexivity|].
  split; [vm_compute; reflexivity|]. split; [vm_compute; reflexivity|]. split; [vm_compute; reflexivity|].
  eexists. split; [vm_compute; reflexivity|]. split; [vm_compute; reflexivity|]. split; [discriminate|].
  eexists. vm_compute. reflexivity.
Qed.
Example refutation_witnesses_unsafe :
  let unsafe c := negb (safe_tree (to_ftree c None) (clen c) (clen c)) in
  unsafe (Regular (ByteMasked [1; 1; 0; 1; 1] true R5) 2 0) = true /\
  unsafe (ListOffset I64 [0; 1] (ListA I64 [0; 3] [2; 5] R5)) = true /\
  unsafe (ListOffset I64 [0; 1] (Union I64 [0; 1; 0] [0; 0; 4] [R5; Numpy DBool [1] [DZ 1]])) = true /\
  unsafe (ListOffset I64 [0; 1] (ByteMasked [1; 0] true (Regular N5 0 4))) = true /\
  unsafe (ListOffset I64 [0; 2] (ByteMasked [1; 1; 1] true (Numpy DInt64 [3; 0] []))) = true /\
  unsafe (ListOffset I64 [0; 2] (Record [BitMasked [27] true true 5 R5] (Some [[121]]) 4)) = true.
Proof. vm_compute. repeat split. Qed.
