(** "Apply at an axis": the descent shared by num / local_index / pad / combinations / ...
    [spec_ax]  : on (type, value), the specification
    [model_ax] : on layouts, following the node classes
    No proofs here. *)
From AwkV Require Export Types.

(* ---------------------------------------------------------------- specification *)
Section Spec.
  (* action on the elements of one list at the axis; [t] is the element type *)
  Variable f : ty -> list value -> res value.
  (* may the axis point below an unknown-type (EmptyArray) leaf? *)
  Variable unk_ok : bool.
  (* requirement on the element type at the axis (e.g. flatten needs lists there) *)
  Variable fchk : ty -> bool.
  (* may the action apply to the characters of a string node? *)
  Variable str_ok : bool.

  (* type-level check: is the axis reachable in every branch?  (fuel = size of the type) *)
  Fixpoint check_ax (t : ty) (d axis : Z) {struct t} : res unit :=
    do ax <- resolve_axis t d axis;
    match t with
    | TNum _ => Err EValue
    | TUnk => if unk_ok then Ok tt else Err EValue
    | TList _ str t' =>
        if ax =? d + 1 then
          (if fchk t' && (str_ok || match str with None => true | Some _ => false end) then Ok tt else Err EValue)
        else check_ax t' (d + 1) ax
    | TOpt t' => check_ax t' d ax
    | TRec _ ts =>
        (fix all (l : list ty) : res unit :=
           match l with [] => Ok tt | x :: xs => do _ <- check_ax x d ax; all xs end) ts
    | TUnion ts =>
        (fix all (l : list ty) : res unit :=
           match l with [] => Ok tt | x :: xs => do _ <- check_ax x d ax; all xs end) ts
    end.

  Definition chars_of (s : list Z) : list value := map (fun z => VNum (DZ z)) s.

  (* value-level: v is one element of an array of type t sitting at depth d *)
  Fixpoint spec_v (t : ty) (d axis : Z) (v : value) {struct t} : res value :=
    do ax <- resolve_axis t d axis;
    match t with
    | TNum _ | TUnk => Err EValue
    | TList _ _ t' =>
        let go (l : list value) :=
          if ax =? d + 1 then f t' l
          else rmap VList (mapM (spec_v t' (d + 1) ax) l) in
        match v with
        | VList l => go l
        | VStr _ s => go (chars_of s)
        | _ => Err EValue
        end
    | TOpt t' => match v with VNone => Ok VNone | _ => spec_v t' d ax v end
    | TRec _ ts =>
        match v with
        | VRec fs =>
            rmap VRec
              ((fix go (ts : list ty) (fs : list (name * value)) : res (list (name * value)) :=
                  match ts, fs with
                  | [], [] => Ok []
                  | t1 :: ts', (k, x) :: fs' =>
                      do y <- spec_v t1 d ax x; do ys <- go ts' fs'; Ok ((k, y) :: ys)
                  | _, _ => Err EValue
                  end) ts fs)
        | VTup xs =>
            rmap VTup
              ((fix go (ts : list ty) (xs : list value) : res (list value) :=
                  match ts, xs with
                  | [], [] => Ok []
                  | t1 :: ts', x :: xs' =>
                      do y <- spec_v t1 d ax x; do ys <- go ts' xs'; Ok (y :: ys)
                  | _, _ => Err EValue
                  end) ts xs)
        | _ => Err EValue
        end
    | TUnion _ => Err EValue      (* unions: outside the specified fragment *)
    end.

  Definition spec_ax (t : ty) (axis : Z) (vs : list value) : res (list value) :=
    do _ <- check_ax t 0 axis;
    mapM (spec_v t 0 axis) vs.
End Spec.

(* ---------------------------------------------------------------- model on layouts *)
(* n-d NumpyArray leaves are first turned into RegularArray chains, as the C++ does
   (toRegularArray) at the start of every structural operation *)
Fixpoint np_regular (dt : dtype) (n : Z) (dims : list Z) (data : list datum) : content :=
  match dims with
  | [] => Numpy dt [n] data
  | d :: ds => Regular (np_regular dt (n * d) ds data) d n
  end.

Fixpoint expand (c : content) : content :=
  match c with
  | Numpy dt (n :: dims) data => np_regular dt n dims (take (prodZ (n :: dims)) data)
  | Numpy _ [] _ => c
  | Empty => Empty
  | ListOffset w o c' => ListOffset w o (expand c')
  | ListA w s e c' => ListA w s e (expand c')
  | Regular c' size zl => Regular (expand c') size zl
  | Indexed w ix c' => Indexed w ix (expand c')
  | IndexedOption w ix c' => IndexedOption w ix (expand c')
  | ByteMasked m vw c' => ByteMasked m vw (expand c')
  | BitMasked m vw lsb n c' => BitMasked m vw lsb n (expand c')
  | Unmasked c' => Unmasked (expand c')
  | Union w t ix cs => Union w t ix (map expand cs)
  | Record cs ks n => Record (map expand cs) ks n
  | Par a r c' => Par a r (expand c')
  end.

Section Model.
  (* action on a list node (ListOffset / ListA / Regular) at the axis; gets the node's
     __array__ parameter *)
  Variable g : option akind -> content -> res content.
  (* result below an EmptyArray when the axis is deeper *)
  Variable unk : res content.
  Variable str_ok : bool.
  Definition gs (p : option akind) (c : content) : res content :=
    if is_strk p && negb str_ok then Err EValue else g p c.

  Fixpoint model_axp (p : option akind) (c : content) (d axis : Z) {struct c} : res content :=
    do ax <- resolve_axis (type_of_p p c) d axis;
    match c with
    | Numpy _ _ _ => Err EValue
    | Empty => unk
    | ListOffset w o c' =>
        if ax =? d + 1 then gs p c else rmap (ListOffset w o) (model_axp None c' (d + 1) ax)
    | ListA w s e c' =>
        if ax =? d + 1 then gs p c else rmap (ListA w s e) (model_axp None c' (d + 1) ax)
    | Regular c' size zl =>
        if ax =? d + 1 then gs p c else rmap (fun x => Regular x size zl) (model_axp None c' (d + 1) ax)
    | Indexed w ix c' => rmap (Indexed w ix) (model_axp None c' d ax)
    | IndexedOption w ix c' => rmap (IndexedOption w ix) (model_axp None c' d ax)
    | ByteMasked m vw c' => rmap (ByteMasked m vw) (model_axp None c' d ax)
    | BitMasked m vw lsb n c' => rmap (BitMasked m vw lsb n) (model_axp None c' d ax)
    | Unmasked c' => rmap Unmasked (model_axp None c' d ax)
    | Union w t ix cs =>
        rmap (Union w t ix)
          ((fix all (l : list content) : res (list content) :=
              match l with
              | [] => Ok []
              | x :: xs => do y <- model_axp None x d ax; do ys <- all xs; Ok (y :: ys)
              end) cs)
    | Record cs ks n =>
        rmap (fun cs' => Record cs' ks n)
          ((fix all (l : list content) : res (list content) :=
              match l with
              | [] => Ok []
              | x :: xs => do y <- model_axp None x d ax; do ys <- all xs; Ok (y :: ys)
              end) cs)
    | Par a r c' => model_axp a c' d ax      (* results carry no parameters *)
    end.

  Definition model_ax (c : content) (axis : Z) : res content := model_axp None (expand c) 0 axis.
End Model.

(* common pieces of the actions: the (start, stop) pairs of a list node *)
Definition list_bounds (c : content) : res (list (Z * Z) * content) :=
  match c with
  | ListOffset _ o c' => match o with [] => Err EValue | _ => Ok (pairs o, c') end
  | ListA _ s e c' => if zlen e <? zlen s then Err EValue else Ok (zip s e, c')
  | Regular c' size zl =>
      if size <? 0 then Err EValue else
      let n := (if size =? 0 then zl else clen c' / size) in
      Ok (map (fun i => (i * size, (i + 1) * size)) (iota n), c')
  | _ => Err EValue
  end.
Definition np64 (l : list Z) : content := Numpy DInt64 [zlen l] (map DZ l).
Fixpoint offsets_from (start : Z) (lens : list Z) : list Z :=
  match lens with [] => [start] | n :: ns => start :: offsets_from (start + n) ns end.
