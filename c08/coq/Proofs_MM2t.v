(** C08: semantics of [trim] (getitem_range_nowrap(0, n)) on the classes it visits below a record field. *)
From Coq Require Import ZArith List Bool Lia ZifyBool.
From AwkV Require Import Base Layout LayoutInd Valid Types Carry Proofs_C11 Proofs_ToList Proofs_Carry.
From AwkMerge Require Import Merge Lemmas_C08 Proofs_C08 Proofs_MM Proofs_Simplify Proofs_MML Proofs_MM2.
Import ListNotations.
Open Scope Z_scope.

Lemma andb4 a b c d : a && b && c && d = true -> a = true /\ b = true /\ c = true /\ d = true.
Proof. destruct a, b, c, d; cbn; intros; try discriminate; auto. Qed.

Lemma pick_take (vs : list value) v n i : i < n -> pick_opt (take n vs) v i = pick_opt vs v i.
Proof. intros H. unfold pick_opt. destruct v; [|reflexivity]. apply Proofs_Lists.get_take. exact H. Qed.

Lemma row_take ks vss n i : i < n -> row ks (map (take n) vss) i = row ks vss i.
Proof.
  intros H. unfold row. rewrite mapM_map.
  replace (mapM (fun x : list value => get (take n x) i) vss) with (mapM (fun col : list value => get col i) vss); [reflexivity|].
  apply mapM_ext. intros col _. symmetry. apply Proofs_Lists.get_take. exact H.
Qed.

(* what [trim] keeps of the shape *)
Definition keeps (x x' : content) : Prop :=
  trimmable x' = true /\ (forall s, hasS s x = true -> hasS s x' = true) /\ (forall s, hasL s x = true -> hasL s x' = true).
Ltac keeps_simple :=
  split; [reflexivity|]; split; intros s0 Hs0;
  (destruct s0 as [so|? ?]; [destruct so|]; cbn in Hs0 |- *; auto; discriminate).

Definition trim_ok (c : content) : Prop :=
  forall q vs, trimmable c = true -> valid_b c = true -> to_list c = Ok vs -> 0 <= q <= clen c ->
  exists c', trim q c = Ok c' /\ to_list c' = Ok (take q vs) /\ valid_b c' = true /\ optionlike c' = optionlike c /\
             keeps c c'.

Lemma all2_keepS ss : forall cs cs', Forall2 keeps cs cs' -> all2 hasS ss cs = true -> all2 hasS ss cs' = true.
Proof.
  induction ss as [|s1 sr IH]; intros cs cs' HF H; destruct HF as [|x x' xs xs' Hk HF]; cbn in *; auto; try discriminate.
  apply andb_true_iff in H. destruct H as [Ha Hb]. destruct Hk as (_ & HS & _). rewrite (HS _ Ha). cbn. eapply IH; eauto.
Qed.
Lemma all2_keepL ss : forall cs cs', Forall2 keeps cs cs' -> all2 hasL ss cs = true -> all2 hasL ss cs' = true.
Proof.
  induction ss as [|s1 sr IH]; intros cs cs' HF H; destruct HF as [|x x' xs xs' Hk HF]; cbn in *; auto; try discriminate.
  apply andb_true_iff in H. destruct H as [Ha Hb]. destruct Hk as (_ & _ & HL). rewrite (HL _ Ha). cbn. eapply IH; eauto.
Qed.
Lemma find_field_keeps k ks : forall cs cs' f, Forall2 keeps cs cs' -> find_field k ks cs = Some f ->
  exists f', find_field k ks cs' = Some f' /\ keeps f f'.
Proof.
  induction ks as [|k1 kr IH]; intros cs cs' f HF H; [discriminate|].
  destruct HF as [|x x' xs xs' Hk HF]; cbn in H; [discriminate|]. cbn. destruct (nm_eqb k k1).
  - inversion H; subst. eauto.
  - eapply IH; eauto.
Qed.
Lemma all2_keepLn ss : forall k k' cs cs', Forall2 keeps cs cs' ->
  all2 (fun s1 kx => match find_field kx k' cs with Some f => hasL s1 f | None => false end) ss k = true ->
  all2 (fun s1 kx => match find_field kx k' cs' with Some f => hasL s1 f | None => false end) ss k = true.
Proof.
  induction ss as [|s1 sr IH]; intros k k' cs cs' HF H; destruct k as [|kx kr]; cbn in *; auto.
  apply andb_true_iff in H. destruct H as [H1 H2].
  destruct (find_field kx k' cs) as [f|] eqn:E; [|discriminate].
  destruct (find_field_keeps _ _ _ _ _ HF E) as (f' & -> & (_ & _ & HL)). rewrite (HL _ H1). cbn. eapply IH; eauto.
Qed.
Lemma keeps_trimmable cs cs' : Forall2 keeps cs cs' -> forallb trimmable cs' = true.
Proof. induction 1 as [|x x' xs xs' (H & _) _ IH]; cbn; auto. now rewrite H, IH. Qed.

Lemma trim_fields cs : Forall trim_ok cs -> forall q vss,
  forallb trimmable cs = true -> forallb valid_b cs = true -> mapM to_list cs = Ok vss -> 0 <= q ->
  forallb (fun x => q <=? clen x) cs = true ->
  exists cs', mapM (trim q) cs = Ok cs' /\ mapM to_list cs' = Ok (map (take q) vss) /\ forallb valid_b cs' = true /\
              forallb (fun x => q <=? clen x) cs' = true /\ length cs' = length cs /\ Forall2 keeps cs cs'.
Proof.
  induction 1 as [|x xs Hx _ IH]; intros q vss Ht Hv Hl Hq Hc.
  - cbn in Hl. inversion Hl; subst. exists []. repeat split; try reflexivity. constructor.
  - cbn [forallb] in Ht, Hv, Hc. apply andb_true_iff in Ht. destruct Ht as [Ht1 Ht2].
    apply andb_true_iff in Hv. destruct Hv as [Hv1 Hv2]. apply andb_true_iff in Hc. destruct Hc as [Hc1 Hc2].
    cbn [mapM] in Hl. apply bind_ok in Hl. destruct Hl as (vx & Hvx & Hl). apply bind_ok in Hl. destruct Hl as (vr & Hvr & Hl).
    inversion Hl; subst vss. clear Hl.
    destruct (Hx q vx Ht1 Hv1 Hvx) as (x' & Hx1 & Hx2 & Hx3 & _ & Hx4); [lia|].
    destruct (IH q vr Ht2 Hv2 Hvr Hq Hc2) as (xs' & Hs1 & Hs2 & Hs3 & Hs4 & Hs5 & Hs6).
    exists (x' :: xs'). cbn [mapM map forallb length]. rewrite Hx1, Hs1, Hx2, Hs2, Hx3, Hs3, Hs4, Hs5. cbn [bind].
    split; [reflexivity|]. split; [reflexivity|]. split; [reflexivity|].
    split; [|split; [reflexivity|constructor; assumption]]. rewrite andb_true_r.
    pose proof (to_list_len _ _ Hx2) as HL. pose proof (to_list_len _ _ Hvx) as HL2.
    rewrite Proofs_Lists.zlen_take in HL by lia. lia.
Qed.

Lemma trim_spec_all c : trim_ok c.
Proof.
  induction c using content_ind'; unfold trim_ok; intros q vs Htr Hv Hl Hn; cbn [trimmable] in Htr; try discriminate.
  - (* Numpy *)
    destruct (to_list_Numpy_inv _ _ _ _ Hl) as (n0 & dims & -> & Hsh & Hlen & Hnest).
    cbn [clen] in Hn. cbn [trim]. eexists. split; [reflexivity|].
    inversion Hsh as [|? ? Hn0 Hdims]; subst.
    pose proof (prodZ_nonneg _ Hdims) as HP. rewrite prodZ_cons in *.
    assert (Hle : q * prodZ dims <= n0 * prodZ dims) by nia.
    split; [|split; [|split; [reflexivity|keeps_simple]]].
    + rewrite to_list_Numpy.
      replace (existsb (fun d => d <? 0) (q :: dims)) with false
        by (symmetry; apply Forall_nonneg_existsb; constructor; [lia|assumption]).
      rewrite prodZ_cons. replace (zlen data <? q * prodZ dims) with false by lia.
      set (L := map (leaf dt) (take (n0 * prodZ dims) data)) in *.
      assert (HLz : zlen L = n0 * prodZ dims) by (unfold L; rewrite zlen_map, Proofs_Lists.zlen_take; lia).
      assert (HLs : map (leaf dt) (take (q * prodZ dims) data) = take (q * prodZ dims) L).
      { unfold L. rewrite <- Proofs_Lists.map_take. rewrite take_take by lia. reflexivity. }
      rewrite HLs.
      destruct (nest_total dims q (take (q * prodZ dims) L)) as [x Hx]; [assumption|lia|].
      destruct (nest_total dims (n0 - q) (drop (q * prodZ dims) L)) as [y Hy]; [assumption|lia|].
      assert (Hxy : nest dims (q + (n0 - q)) (take (q * prodZ dims) L ++ drop (q * prodZ dims) L) = Ok (x ++ y)).
      { apply nest_app; try assumption; try lia.
        - rewrite Proofs_Lists.zlen_take; lia.
        - rewrite zlen_drop by lia. lia. }
      rewrite Proofs_Lists.take_drop_id in Hxy. replace (q + (n0 - q)) with n0 in Hxy by lia.
      rewrite Hnest in Hxy. inversion Hxy; subst vs.
      rewrite Hx. f_equal. symmetry. apply Proofs_Lists.take_app_exact.
      eapply Proofs_ToList.nest_zlen; [exact Hx|assumption|lia|]. rewrite Proofs_Lists.zlen_take; lia.
    + assert (Hfd : forallb (fun d => 0 <=? d) dims = true).
      { apply forallb_forall. intros d Hd. rewrite Forall_forall in Hdims. specialize (Hdims d Hd). lia. }
      unfold valid_b. cbn [validb paramcheck forallb andb]. rewrite Hfd, prodZ_cons. lia.
  - (* Empty *)
    cbn [trim]. eexists. split; [reflexivity|]. cbn in Hl. inversion Hl; subst.
    split; [unfold take; now rewrite firstn_nil|]. split; [assumption|]. split; [reflexivity|].
    split; [reflexivity|]. split; intros s0 Hs0; exact Hs0.
  - (* ListOffset *)
    cbn [clen] in Hn. cbn [trim]. rewrite slice0 by lia. cbn [bind]. eexists. split; [reflexivity|].
    rewrite to_list_ListOffset in Hl. apply bind_ok in Hl. destruct Hl as (vc & Hc & Hl).
    apply rmap_ok in Hl. destruct Hl as (r & Hr & ->).
    unfold cut in Hr. destruct o as [|o0 ot] eqn:Eo; [discriminate|]. rewrite <- Eo in *.
    split; [|split; [|split; [reflexivity|keeps_simple]]].
    + rewrite to_list_ListOffset, Hc. cbn [bind]. unfold cut.
      assert (Hne : take (q + 1) o <> []).
      { rewrite Eo. unfold take. replace (Z.to_nat (q + 1)) with (S (Z.to_nat q)) by lia. discriminate. }
      destruct (take (q + 1) o) eqn:Et; [congruence|]. rewrite <- Et.
      rewrite pairs_take by lia. rewrite (mapM_take _ _ _ q Hr). cbn [rmap].
      rewrite Proofs_Lists.map_take. reflexivity.
    + unfold valid_b in *. cbn [validb paramcheck is_strk] in *.
      apply andb_true_iff in Hv. destruct Hv as [Hv Hvc]. apply andb_true_iff in Hv. destruct Hv as [Hv1 Hv2].
      rewrite Hvc, andb_true_r. rewrite pairs_take by lia. rewrite forallb_take by exact Hv2.
      rewrite Proofs_Lists.zlen_take by lia. cbn. lia.
  - (* ListA *)
    cbn [clen] in Hn.
    rewrite to_list_ListA in Hl. apply bind_ok in Hl. destruct Hl as (vc & Hc & Hl).
    apply rmap_ok in Hl. destruct Hl as (r & Hr & ->).
    unfold cut2 in Hr. destruct (zlen e <? zlen s) eqn:E; [discriminate|].
    cbn [trim]. rewrite !slice0 by lia. cbn [bind]. eexists. split; [reflexivity|].
    split; [|split; [|split; [reflexivity|keeps_simple]]].
    + rewrite to_list_ListA, Hc. cbn [bind]. unfold cut2.
      rewrite !Proofs_Lists.zlen_take by lia. rewrite Z.ltb_irrefl.
      rewrite zip_take, (mapM_take _ _ _ q Hr). cbn [rmap]. rewrite Proofs_Lists.map_take. reflexivity.
    + unfold valid_b in *. cbn [validb paramcheck is_strk] in *.
      apply andb_true_iff in Hv. destruct Hv as [Hv Hvc]. apply andb_true_iff in Hv. destruct Hv as [Hv1 Hv2].
      rewrite Hvc, andb_true_r. rewrite zip_take, forallb_take by exact Hv2.
      rewrite !Proofs_Lists.zlen_take by lia. cbn. lia.
  - (* Indexed *)
    cbn [clen] in Hn. rewrite to_list_Indexed in Hl. apply bind_ok in Hl. destruct Hl as (vc & Hc & Hl).
    cbn [trim]. rewrite slice0 by lia. cbn [bind]. eexists. split; [reflexivity|].
    split; [|split; [|split; [reflexivity|keeps_simple]]].
    + rewrite to_list_Indexed, Hc. cbn [bind]. apply mapM_take. exact Hl.
    + unfold valid_b in *. cbn [validb paramcheck] in *.
      apply andb_true_iff in Hv. destruct Hv as [Hv Hvc]. apply andb_true_iff in Hv. destruct Hv as [Hv1 Hv2].
      rewrite Hvc, Hv2, !andb_true_r. apply forallb_take. exact Hv1.
  - (* IndexedOption *)
    cbn [clen] in Hn. rewrite to_list_IndexedOption in Hl. apply bind_ok in Hl. destruct Hl as (vc & Hc & Hl).
    cbn [trim]. rewrite slice0 by lia. cbn [bind]. eexists. split; [reflexivity|].
    split; [|split; [|split; [reflexivity|keeps_simple]]].
    + rewrite to_list_IndexedOption, Hc. cbn [bind]. apply mapM_take. exact Hl.
    + unfold valid_b in *. cbn [validb paramcheck] in *.
      apply andb_true_iff in Hv. destruct Hv as [Hv Hvc]. apply andb_true_iff in Hv. destruct Hv as [Hv1 Hv2].
      rewrite Hvc, Hv2, !andb_true_r. apply forallb_take. exact Hv1.
  - (* ByteMasked *)
    cbn [clen] in Hn. rewrite to_list_ByteMasked in Hl. apply bind_ok in Hl. destruct Hl as (vc & Hc & Hl).
    unfold valid_b in Hv. cbn [validb paramcheck] in Hv. cbn [andb] in Hv.
    apply andb_true_iff in Hv. destruct Hv as [Hv Hvc]. apply andb_true_iff in Hv. destruct Hv as [Hv1 Hv2].
    destruct (IHc q vc Htr Hvc Hc) as (c' & Ht & Hl' & Hv' & Ho' & (Hk1 & Hk2 & Hk3)); [lia|].
    cbn [trim]. rewrite slice0 by lia. cbn [bind]. rewrite Ht. cbn [bind]. eexists. split; [reflexivity|].
    pose proof (to_list_len _ _ Hl') as Hlen'. pose proof (to_list_len _ _ Hc) as Hlenc.
    rewrite Proofs_Lists.zlen_take in Hlen' by lia.
    split; [|split; [|split; [reflexivity|]]].
    + rewrite to_list_ByteMasked, Hl'. cbn [bind]. rewrite Proofs_Lists.zlen_take by lia.
      transitivity (mapM (fun im : Z * Z => let (i, b) := im in pick_opt vc (Bool.eqb (negb (b =? 0)) vw) i)
                         (zip (iota q) (take q m))).
      { apply mapM_ext. intros [i b] Hin. apply in_zip_l in Hin. apply iota_In in Hin. apply pick_take. lia. }
      rewrite <- (take_iota q (zlen m)) by lia. rewrite zip_take. apply mapM_take. exact Hl.
    + unfold valid_b. cbn [validb paramcheck]. cbn [andb]. fold (valid_b c'). rewrite Hv', Ho', Hv2.
      rewrite Proofs_Lists.zlen_take by lia. lia.
    + split; [exact Hk1|]. split; intros s0 Hs0; (destruct s0 as [so|? ?]; [destruct so|]; cbn in Hs0 |- *; try discriminate;
      first [apply (Hk2 (KOld _)); exact Hs0 | apply (Hk3 (KOld _)); exact Hs0 | auto]).
  - (* Unmasked *)
    cbn [clen] in Hn. rewrite to_list_Unmasked in Hl.
    unfold valid_b in Hv. cbn [validb paramcheck] in Hv. cbn [andb] in Hv.
    apply andb_true_iff in Hv. destruct Hv as [Hv1 Hvc].
    destruct (IHc q vs Htr Hvc Hl Hn) as (c' & Ht & Hl' & Hv' & Ho' & (Hk1 & Hk2 & Hk3)).
    cbn [trim]. rewrite Ht. cbn [bind]. eexists. split; [reflexivity|].
    split; [rewrite to_list_Unmasked; exact Hl'|]. split; [|split; [reflexivity|]].
    + unfold valid_b. cbn [validb paramcheck]. cbn [andb]. fold (valid_b c'). rewrite Hv', Ho', Hv1. reflexivity.
    + split; [exact Hk1|]. split; intros s0 Hs0; (destruct s0 as [so|? ?]; [destruct so|]; cbn in Hs0 |- *; try discriminate;
      first [apply (Hk2 (KOld _)); exact Hs0 | apply (Hk3 (KOld _)); exact Hs0 | auto]).
  - (* Record *)
    rename H into IHcs. cbn [clen] in Hn. rewrite (all_fix_forallb' trimmable) in Htr.
    rewrite valid_Record in Hv. apply andb4 in Hv. destruct Hv as (Hv1 & Hv2 & Hv3 & Hv4).
    rewrite to_list_Record' in Hl. apply bind_ok in Hl. destruct Hl as (vss & Hvss & Hl).
    destruct (n <? 0) eqn:En; [discriminate|].
    assert (Hrows : mapM (row ks vss) (iota q) = Ok (take q vs)).
    { rewrite <- (take_iota q n) by lia. apply mapM_take. exact Hl. }
    pose proof (mapM_zlen _ _ _ Hl) as Hzl. rewrite zlen_iota in Hzl by lia.
    destruct cs as [|c0 cr] eqn:Ecs.
    + cbn [trim]. eexists. split; [reflexivity|]. cbn in Hvss. inversion Hvss; subst vss.
      split; [|split; [|split; [reflexivity|]]].
      * rewrite to_list_Record'. cbn [mapM bind]. replace (q <? 0) with false by lia. exact Hrows.
      * rewrite valid_Record. cbn [forallb]. rewrite Hv3. lia.
      * split; [reflexivity|]. split; intros s0 Hs0; (destruct s0 as [so|? ?]; [destruct so|]; cbn in Hs0 |- *; try discriminate;
      first [apply (Hk2 (KOld _)); exact Hs0 | apply (Hk3 (KOld _)); exact Hs0 | auto]).
    + rewrite <- Ecs in *.
      assert (Htrim : trim q (Record cs ks n) =
                      if q =? n then Ok (Record cs ks n) else do cs' <- mapM (trim q) cs; Ok (Record cs' ks q)).
      { cbn [trim]. rewrite (all_fix_mapM (trim q)). rewrite Ecs. rewrite <- Ecs. reflexivity. }
      rewrite Htrim. destruct (q =? n) eqn:Eq.
      * eexists. split; [reflexivity|]. assert (q = n) by lia. subst q.
        rewrite take_all by lia. split; [|split; [|split; [reflexivity|]]].
        -- rewrite to_list_Record', Hvss. cbn [bind]. rewrite En. exact Hl.
        -- rewrite valid_Record, Hv2, Hv3, Hv4. lia.
        -- split; [cbn [trimmable]; rewrite (all_fix_forallb' trimmable); exact Htr|]. split; intros s0 Hs0; exact Hs0.
      * assert (Hc : forallb (fun x => q <=? clen x) cs = true).
        { apply forallb_forall. intros x Hx. eapply forallb_forall in Hv2; eauto. lia. }
        destruct (trim_fields cs IHcs q vss Htr Hv4 Hvss ltac:(lia) Hc) as (cs' & H1 & H2 & H3 & H4 & H5 & H6).
        rewrite H1. cbn [bind]. eexists. split; [reflexivity|]. split; [|split; [|split; [reflexivity|]]].
        -- rewrite to_list_Record', H2. cbn [bind]. replace (q <? 0) with false by lia.
           rewrite <- Hrows. apply mapM_ext. intros i Hi. apply iota_In in Hi. apply row_take. lia.
        -- rewrite valid_Record, H3, H4, H5, Hv3. lia.
        -- pose proof (keeps_trimmable _ _ H6) as Htr'.
           split; [cbn [trimmable]; rewrite (all_fix_forallb' trimmable); exact Htr'|].
           split; intros s0 Hs0; (destruct s0 as [so|ks0 ss0]; [destruct so; cbn in Hs0; discriminate|]);
             cbn [hasS hasL] in Hs0 |- *.
           ++ apply andb_true_iff in Hs0. destruct Hs0 as [Hs0 Ha].
              rewrite Hs0, (all2_keepS _ _ _ H6 Ha). reflexivity.
           ++ apply andb_true_iff in Hs0. destruct Hs0 as [_ Ha]. rewrite Htr'. cbn [andb].
              destruct ks0 as [k|], ks as [k'|]; try discriminate.
              ** apply andb_true_iff in Ha. destruct Ha as [Ha1 Ha2]. apply andb_true_iff in Ha1. destruct Ha1 as [Ha0 Ha1].
                 rewrite Ha0, (all2_keepLn _ _ _ _ _ H6 Ha2). rewrite H5. rewrite Ha1. reflexivity.
              ** eapply all2_keepL; eauto.
Qed.
