# setup: build everything the checks need (offline). Checks rebuild incrementally themselves.
setup:
	cd coq && coq_makefile -f _CoqProject -o Makefile.coq >/dev/null && $(MAKE) -f Makefile.coq -j16
	$(MAKE) -C ocaml
	$(MAKE) -s -C impl -j16
clean:
	rm -rf .build coq/*.vo coq/*.vok coq/*.vos coq/*.glob coq/Makefile.coq*
.PHONY: setup clean
