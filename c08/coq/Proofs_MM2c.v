(** C08: mergemany on record / tuple operands: the theorem. *)
From Coq Require Import ZArith List Bool Lia ZifyBool.
From AwkV Require Import Base Layout LayoutInd Valid Types Carry Proofs_C11 Proofs_ToList Proofs_Carry.
From AwkMerge Require Import Merge Lemmas_C08 Proofs_C08 Proofs_MM Proofs_Simplify Proofs_MML Proofs_Concat
  Proofs_MM2 Proofs_MM2t Proofs_MM2b.
Import ListNotations.
Open Scope Z_scope.

Lemma all2_of_nth {A B} (f : A -> B -> bool) da db : forall l m, length l = length m ->
  (forall i, (i < length l)%nat -> f (nth i l da) (nth i m db) = true) -> all2 f l m = true.
Proof.
  induction l as [|x l IH]; destruct m as [|y m]; cbn; intros HL H; try discriminate; [reflexivity|].
  rewrite (H O ltac:(lia)). cbn. apply IH; [lia|]. intros i Hi. apply (H (S i)). lia.
Qed.
Lemma mapM_of_nth {A B} (g : A -> res B) (h : nat -> B) d : forall ms s,
  (forall i, (i < length ms)%nat -> g (nth i ms d) = Ok (h (s + i)%nat)) -> mapM g ms = Ok (map h (seq s (length ms))).
Proof.
  induction ms as [|x ms IH]; intros s H; [reflexivity|]. cbn [mapM length seq map].
  pose proof (H O ltac:(cbn; lia)) as H0. cbn [nth] in H0. rewrite H0. cbn [bind]. rewrite Nat.add_0_r.
  rewrite (IH (S s)); [reflexivity|]. intros i Hi. specialize (H (S i) ltac:(cbn; lia)). rewrite Nat.add_succ_r in H. exact H.
Qed.
Lemma keys_eqb_refl (k : list name) : list_eqb nm_eqb k k = true.
Proof. induction k; cbn; [reflexivity|]. now rewrite nm_eqb_refl. Qed.

Definition tcol (ks : option (list name)) (i : nat) (x : content) : content :=
  match trim (clen x) (colf ks i x) with Ok t => t | Err _ => Empty end.

Lemma record_parts cs ks n : valid_b (Record cs ks n) = true -> tl_ok (Record cs ks n) ->
  0 <= n /\ forall f, In f cs -> valid_b f = true /\ tl_ok f /\ n <= clen f.
Proof.
  intros Hv [vx Ht]. rewrite valid_Record in Hv. apply andb4 in Hv. destruct Hv as (Hv1 & Hv2 & Hv3 & Hv4).
  rewrite to_list_Record' in Ht. apply bind_ok in Ht. destruct Ht as (vss & Hvss & Ht).
  split; [lia|]. intros f Hf. rewrite forallb_forall in Hv2, Hv4. specialize (Hv2 f Hf). specialize (Hv4 f Hf).
  repeat split; auto; [|lia]. destruct (Proofs_Lists.mapM_Ok_In _ _ _ _ Hvss Hf) as (y & Hy & _). eexists; eauto.
Qed.

Lemma tcol_ok ks ss x i :
  hasL (KRec ks ss) x = true -> valid_b x = true -> tl_ok x -> (i < length ss)%nat -> keys_ok ks (length ss) ->
  trim (clen x) (colf ks i x) = Ok (tcol ks i x) /\ hasL (nth i ss (KOld SNum)) (tcol ks i x) = true /\
  valid_b (tcol ks i x) = true /\ trimmable (tcol ks i x) = true /\
  to_list (tcol ks i x) = Ok (take (clen x) (vals (colf ks i x))) /\ clen x <= zlen (vals (colf ks i x)) /\ 0 <= clen x /\
  (forall s, hasS s (colf ks i x) = true -> hasS s (tcol ks i x) = true).
Proof.
  intros HL Hv Ht Hi Hk. destruct (operand_cols _ _ _ _ HL Hv Ht Hi Hk) as (Hc1 & Hc2 & (cs & ks' & len & -> & _)).
  cbn [rfields] in Hc2. destruct (record_parts _ _ _ Hv Ht) as [Hn Hf]. destruct (Hf _ Hc2) as (Hfv & [vf Hft] & Hfl).
  assert (Htr : trimmable (colf ks i (Record cs ks' len)) = true).
  { cbn [hasL] in HL. apply andb_true_iff in HL. destruct HL as [HL _]. rewrite forallb_forall in HL. auto. }
  cbn [clen] in *.
  destruct (trim_spec_all _ len vf Htr Hfv Hft ltac:(lia)) as (c' & H1 & H2 & H3 & _ & (H4 & H5 & H6)).
  unfold tcol. cbn [clen]. rewrite H1. rewrite (vals_ok _ _ Hft).
  pose proof (to_list_len _ _ Hft). repeat split; auto; lia.
Qed.

(* the column loop of RecordArray::mergemany, named *)
Fixpoint cols_loop (rec : list content -> res content) (tuple : bool) (nf : nat) (myks : list name) (head : list content)
         (n : Z) (i : nat) (l : list content) (kl : list name) {struct l} : res (list content) :=
  match l with
  | [] => Ok []
  | f :: fs =>
      let k := hd [] kl in
      do t0 <- trim n f;
      do rest <- mapM (rec_column tuple nf myks i k) head;
      do m <- rec (t0 :: concat rest);
      do ms <- cols_loop rec tuple nf myks head n (S i) fs (tl kl);
      Ok (m :: ms)
  end.

Lemma hd_skipn {A} (d : A) : forall l i, hd d (skipn i l) = nth i l d.
Proof. induction l as [|x l IH]; intros [|i]; cbn; auto. Qed.
Lemma tl_skipn {A} : forall (l : list A) i, tl (skipn i l) = skipn (S i) l.
Proof.
  intros l i. revert l. induction i as [|i IH]; intros [|x l]; try reflexivity.
  change (skipn (S i) (x :: l)) with (skipn i l). rewrite IH. reflexivity.
Qed.
Lemma skipn_cons_nth {A} (d : A) : forall l i x r, skipn i l = x :: r -> x = nth i l d /\ r = skipn (S i) l /\ (i < length l)%nat.
Proof.
  induction l as [|y l IH]; intros [|i] x r H; cbn in *; try discriminate.
  - inversion H; subst. repeat split; lia.
  - destruct (IH _ _ _ H) as (H1 & H2 & H3). repeat split; auto. lia.
Qed.
