
val negb : bool -> bool

type nat =
| O
| S of nat

val fst : ('a1 * 'a2) -> 'a1

val snd : ('a1 * 'a2) -> 'a2

val length : 'a1 list -> nat

type comparison =
| Eq
| Lt
| Gt

val compOpp : comparison -> comparison

val add : nat -> nat -> nat

type positive =
| XI of positive
| XO of positive
| XH

type z =
| Z0
| Zpos of positive
| Zneg of positive

val eqb : bool -> bool -> bool

module Pos :
 sig
  val succ : positive -> positive

  val add : positive -> positive -> positive

  val add_carry : positive -> positive -> positive

  val pred_double : positive -> positive

  val mul : positive -> positive -> positive

  val iter : ('a1 -> 'a1) -> 'a1 -> positive -> 'a1

  val compare_cont : comparison -> positive -> positive -> comparison

  val compare : positive -> positive -> comparison

  val eqb : positive -> positive -> bool

  val iter_op : ('a1 -> 'a1 -> 'a1) -> positive -> 'a1 -> 'a1

  val to_nat : positive -> nat

  val of_succ_nat : nat -> positive
 end

module Z :
 sig
  val double : z -> z

  val succ_double : z -> z

  val pred_double : z -> z

  val pos_sub : positive -> positive -> z

  val add : z -> z -> z

  val opp : z -> z

  val sub : z -> z -> z

  val mul : z -> z -> z

  val pow_pos : z -> positive -> z

  val pow : z -> z -> z

  val compare : z -> z -> comparison

  val leb : z -> z -> bool

  val ltb : z -> z -> bool

  val eqb : z -> z -> bool

  val abs : z -> z

  val to_nat : z -> nat

  val of_nat : nat -> z

  val pos_div_eucl : positive -> z -> z * z

  val div_eucl : z -> z -> z * z

  val div : z -> z -> z

  val modulo : z -> z -> z

  val odd : z -> bool
 end

val nth : nat -> 'a1 list -> 'a1 -> 'a1

val nth_error : 'a1 list -> nat -> 'a1 option

val fold_left : ('a1 -> 'a2 -> 'a1) -> 'a2 list -> 'a1 -> 'a1

type err =
| EValue
| EOob
| EFuel

type 'a res =
| Ok of 'a
| Err of err

val zlen : 'a1 list -> z

val get : 'a1 list -> z -> 'a1 res

val iota_nat : z -> nat -> z list

val iota : z -> z list

type msg =
| MIndexOutOfRange
| MStopsLtStarts
| MStopsGtLen
| MOffsetsNotMonotone
| MCannotBroadcast
| MStartGtStop
| MStartLt0
| MStopGtLen
| MIndexLt0
| MIndexGeLen
| MTagsLt0
| MTagsGeLen
| MIndexGeLenTag
| MFlatteningOffset
| MFuel
| MBadArgs

type 'a kres =
| KOk of 'a
| KErr of msg
| KOob

val kbind : 'a1 kres -> ('a1 -> 'a2 kres) -> 'a2 kres

val kmap : ('a1 -> 'a2) -> 'a1 kres -> 'a2 kres

val kcheck : bool -> msg -> unit kres

val kget : z list -> z -> z kres

val set_nth : z list -> nat -> z -> z list

val kupd : z list -> z -> z -> z list kres

type ity =
| TB
| TI of z
| TU of z
| TIdeal

val wrap : ity -> z -> z

val i64 : ity

val kfor_nat : nat -> z -> (z -> 'a1 -> 'a1 kres) -> 'a1 -> 'a1 kres

val kfor : z -> z -> (z -> 'a1 -> 'a1 kres) -> 'a1 -> 'a1 kres

val kwhile : nat -> ('a1 -> bool) -> ('a1 -> 'a1 kres) -> 'a1 -> 'a1 kres

val kfill : z -> z -> (z -> z kres) -> z list -> z list kres

val kchecks : z -> (z -> unit kres) -> unit kres

val kpush : (z list * z) -> z -> (z list * z) kres

val listArray_num :
  ity -> ity -> z list -> z list -> z list -> z -> z list kres

val regularArray_num : ity -> z list -> z -> z -> z list kres

val listOffsetArray_flatten_offsets :
  ity -> z list -> z list -> z -> z list -> z list kres

val listArray_compact_offsets :
  ity -> ity -> z list -> z list -> z list -> z -> z list kres

val listOffsetArray_compact_offsets :
  ity -> z list -> z list -> z -> z list kres

val regularArray_compact_offsets : ity -> z list -> z -> z -> z list kres

val listArray_broadcast_tooffsets :
  ity -> z list -> z list -> z -> z list -> z list -> z -> z list kres

val regularArray_broadcast_tooffsets : ity -> z list -> z -> z -> unit kres

val regularArray_broadcast_tooffsets_size1 :
  ity -> z list -> z list -> z -> z list kres

val listArray_validity : z list -> z list -> z -> z -> unit kres

val indexedArray_validity : z list -> z -> z -> bool -> unit kres

val unionArray_validity : z list -> z list -> z -> z -> z list -> unit kres

val regularize_rangeslice : z -> z -> bool -> bool -> bool -> z -> z * z

val kSliceNone : z

val regularize_arrayslice : ity -> z list -> z -> z -> z list kres

val listArray_getitem_next_at :
  ity -> ity -> z list -> z list -> z list -> z -> z -> z list kres

val range_fuel : z -> z -> nat

val listArray_getitem_next_range :
  ity -> ity -> z list -> z list -> z list -> z list -> z -> z -> z -> z ->
  (z list * z list) kres

val listArray_getitem_next_range_carrylength :
  ity -> z list -> z list -> z list -> z -> z -> z -> z -> z list kres

val listArray_getitem_next_range_counts :
  ity -> z list -> z list -> z -> z list kres

val listArray_getitem_next_range_spreadadvanced :
  ity -> z list -> z list -> z list -> z -> z list kres

val listArray_getitem_next_array :
  z list -> z list -> z list -> z list -> z list -> z -> z -> z -> (z
  list * z list) kres

val listArray_getitem_next_array_advanced :
  z list -> z list -> z list -> z list -> z list -> z list -> z -> z -> z ->
  (z list * z list) kres

val listArray_getitem_carry :
  ity -> z list -> z list -> z list -> z list -> z list -> z -> z -> (z
  list * z list) kres

val regularArray_getitem_next_at : z list -> z -> z -> z -> z list kres

val regularArray_getitem_next_range :
  z list -> z -> z -> z -> z -> z -> z list kres

val regularArray_getitem_next_range_spreadadvanced :
  z list -> z list -> z -> z -> z list kres

val regularArray_getitem_next_array :
  z list -> z list -> z list -> z -> z -> z -> (z list * z list) kres

val regularArray_getitem_next_array_advanced :
  z list -> z list -> z list -> z list -> z -> z -> z -> (z list * z list)
  kres

val regularArray_getitem_next_array_regularize :
  z list -> z list -> z -> z -> z list kres

val regularArray_getitem_carry : z list -> z list -> z -> z -> z list kres

val indexedArray_getitem_nextcarry : z list -> z list -> z -> z -> z list kres

val indexedArray_getitem_nextcarry_outindex :
  ity -> z list -> z list -> z list -> z -> z -> (z list * z list) kres

val indexedArray_flatten_nextcarry : z list -> z list -> z -> z -> z list kres

val indexedArray_flatten_none2empty :
  ity -> z list -> z list -> z -> z list -> z -> z list kres

val indexedArray_numnull : z list -> z list -> z -> z list kres

val byteMaskedArray_getitem_nextcarry :
  z list -> z list -> z -> bool -> z list kres

val byteMaskedArray_getitem_nextcarry_outindex :
  z list -> z list -> z list -> z -> bool -> (z list * z list) kres

val byteMaskedArray_toIndexedOptionArray :
  z list -> z list -> z -> bool -> z list kres

val bit : z -> z -> bool

val bitMaskedArray_to_ByteMaskedArray :
  z list -> z list -> z -> bool -> bool -> z list kres

val bitMaskedArray_to_IndexedOptionArray :
  z list -> z list -> z -> bool -> bool -> z list kres

val unionArray_fillna : ity -> z list -> z list -> z -> z list kres

val indexedArray_local_preparenext :
  z list -> z list -> z list -> z -> z list -> z -> z list kres

val listArray_localindex : z list -> z list -> z -> z list kres

val localindex : ity -> z list -> z -> z list kres

val regularArray_localindex : z list -> z -> z -> z list kres

val listArray_min_range :
  ity -> z list -> z list -> z list -> z -> z list kres

val listArray_rpad_and_clip_length_axis1 :
  ity -> z list -> z list -> z list -> z -> z -> z list kres

val listArray_rpad_axis1 :
  ity -> z list -> z list -> z list -> z list -> z list -> z -> z -> ((z
  list * z list) * z list) kres

val listOffsetArray_rpad_length_axis1 :
  ity -> z list -> z list -> z -> z -> z list -> (z list * z list) kres

val listOffsetArray_rpad_axis1 : z list -> z list -> z -> z -> z list kres

val listOffsetArray_rpad_and_clip_axis1 :
  z list -> z list -> z -> z -> z list kres

val regularArray_rpad_and_clip_axis1 : z list -> z -> z -> z -> z list kres

val index_rpad_and_clip_axis0 : z list -> z -> z -> z list kres

val index_rpad_and_clip_axis1 :
  z list -> z list -> z -> z -> (z list * z list) kres

val combinations_count : z -> z -> z

val listArray_combinations_length :
  ity -> z list -> z list -> z -> bool -> z list -> z list -> z -> (z
  list * z list) kres

type cstate = (z list list * z list) * z list

val set_row : z list list -> nat -> z list -> z list list

val krow : z list list -> z -> z list kres

val comb_emit : z -> cstate -> cstate kres

val comb_step : nat -> nat -> z -> z -> z -> bool -> cstate -> cstate kres

val listArray_combinations :
  z list list -> z list -> z list -> z -> bool -> z list -> z list -> z ->
  cstate kres

val regularArray_combinations :
  z list list -> z list -> z list -> z -> bool -> z -> z -> cstate kres

val reduce_local_nextparents : z list -> z list -> z -> z list kres

val reduce_local_outoffsets : z list -> z list -> z -> z -> z list kres

val reduce_nonlocal_maxcount_offsetscopy :
  z list -> z list -> z list -> z -> (z list * z list) kres

val reduce_nonlocal_preparenext :
  z list -> z list -> z -> z list -> z list -> z -> z list -> z list -> z ->
  z list -> z -> ((((z list * z list) * z list) * z list) * z list) kres

val reduce_nonlocal_nextstarts : z list -> z list -> z -> z list kres

val reduce_nonlocal_findgaps : z list -> z list -> z -> z list kres

val reduce_nonlocal_nextshifts :
  z list -> z list -> z list -> z list -> z -> z list -> z list -> z -> z ->
  z list -> ((z list * z list) * z list) kres

val sorting_ranges_length : z list -> z list -> z -> z list kres

val sorting_ranges : z list -> z -> z list -> z -> z list kres

val reduce_generic :
  ity -> z -> (z -> z -> z -> z) -> z list -> z list -> z list -> z -> z -> z
  list kres

val reduce_count : z list -> z list -> z -> z -> z list kres

val reduce_sum : ity -> z list -> z list -> z list -> z -> z -> z list kres

val reduce_prod : ity -> z list -> z list -> z list -> z -> z -> z list kres

val reduce_countnonzero : z list -> z list -> z list -> z -> z -> z list kres

val reduce_sum_bool : z list -> z list -> z list -> z -> z -> z list kres

val reduce_prod_bool : z list -> z list -> z list -> z -> z -> z list kres

val reduce_min :
  ity -> z -> z list -> z list -> z list -> z -> z -> z list kres

val reduce_max :
  ity -> z -> z list -> z list -> z list -> z -> z -> z list kres

val reduce_arg :
  (z -> z -> bool) -> z list -> z list -> z list -> z -> z -> z list kres

val reduce_argmin : z list -> z list -> z list -> z -> z -> z list kres

val reduce_argmax : z list -> z list -> z list -> z -> z -> z list kres

val numpyArray_fill : ity -> z list -> z -> z list -> z -> z list kres

val indexedArray_fill : ity -> z list -> z -> z list -> z -> z -> z list kres

val unionArray_filltags :
  ity -> z list -> z -> z list -> z -> z -> z list kres

val unionArray_fillindex : ity -> z list -> z -> z list -> z -> z list kres

val listArray_fill :
  ity -> z list -> z -> z list -> z -> z list -> z list -> z -> z -> (z
  list * z list) kres

val unique : z list -> z -> z list -> (z list * z list) kres

val reduce_nonlocal_outstartsstops :
  z list -> z list -> z list -> z -> z -> (z list * z list) kres

val numpyArray_copy : z list -> z list -> z -> z list kres

val numpyArray_contiguous_copy :
  z list -> z list -> z -> z -> z list -> z list kres

val numpyArray_getitem_next_null :
  z list -> z list -> z -> z -> z list -> z list kres

val numpyArray_fill_tocomplex : z list -> z -> z list -> z -> z list kres

val numpyArray_fill_fromcomplex :
  ity -> z list -> z -> z list -> z -> z list kres

val numpyArray_rearrange_shifted :
  z list -> z list -> z -> z list -> z -> z list -> z list -> z list kres

val numpyArray_subrange_equal :
  z list -> z list -> z list -> z -> z list -> z list kres

val reduce_sum_complex : z list -> z list -> z list -> z -> z -> z list kres

val reduce_prod_complex : z list -> z list -> z list -> z -> z -> z list kres

val reduce_minmax_complex :
  bool -> z -> z list -> z list -> z list -> z -> z -> z list kres

val reduce_arg_complex :
  bool -> z list -> z list -> z list -> z -> z -> z list kres

val reduce_bool_complex :
  ity -> z -> (z -> bool -> z) -> z list -> z list -> z list -> z -> z -> z
  list kres

val reduce_countnonzero_complex :
  z list -> z list -> z list -> z -> z -> z list kres

val reduce_sum_bool_complex :
  z list -> z list -> z list -> z -> z -> z list kres

val reduce_prod_bool_complex :
  z list -> z list -> z list -> z -> z -> z list kres

val content_reduce_zeroparents : z list -> z -> z list kres

type val0 =
| VI of z
| VL of z list
| VLL of z list list

type kname =
| K_ListArray_num
| K_RegularArray_num
| K_ListOffsetArray_flatten_offsets
| K_ListArray_compact_offsets
| K_ListOffsetArray_compact_offsets
| K_RegularArray_compact_offsets
| K_ListArray_broadcast_tooffsets
| K_RegularArray_broadcast_tooffsets
| K_RegularArray_broadcast_tooffsets_size1
| K_ListArray_validity
| K_IndexedArray_validity
| K_UnionArray_validity
| K_regularize_arrayslice
| K_ListArray_getitem_next_at
| K_ListArray_getitem_next_range
| K_ListArray_getitem_next_range_carrylength
| K_ListArray_getitem_next_range_counts
| K_ListArray_getitem_next_range_spreadadvanced
| K_ListArray_getitem_next_array
| K_ListArray_getitem_next_array_advanced
| K_ListArray_getitem_carry
| K_RegularArray_getitem_next_at
| K_RegularArray_getitem_next_range
| K_RegularArray_getitem_next_range_spreadadvanced
| K_RegularArray_getitem_next_array
| K_RegularArray_getitem_next_array_advanced
| K_RegularArray_getitem_next_array_regularize
| K_RegularArray_getitem_carry
| K_IndexedArray_getitem_nextcarry
| K_IndexedArray_getitem_nextcarry_outindex
| K_IndexedArray_flatten_nextcarry
| K_IndexedArray_flatten_none2empty
| K_IndexedArray_numnull
| K_ByteMaskedArray_getitem_nextcarry
| K_ByteMaskedArray_getitem_nextcarry_outindex
| K_ByteMaskedArray_toIndexedOptionArray
| K_BitMaskedArray_to_ByteMaskedArray
| K_BitMaskedArray_to_IndexedOptionArray
| K_UnionArray_fillna
| K_IndexedArray_local_preparenext
| K_ListArray_localindex
| K_localindex
| K_RegularArray_localindex
| K_ListArray_min_range
| K_ListArray_rpad_and_clip_length_axis1
| K_ListArray_rpad_axis1
| K_ListOffsetArray_rpad_length_axis1
| K_ListOffsetArray_rpad_axis1
| K_ListOffsetArray_rpad_and_clip_axis1
| K_RegularArray_rpad_and_clip_axis1
| K_index_rpad_and_clip_axis0
| K_index_rpad_and_clip_axis1
| K_ListArray_combinations_length
| K_ListArray_combinations
| K_RegularArray_combinations
| K_reduce_local_nextparents
| K_reduce_local_outoffsets
| K_reduce_nonlocal_maxcount_offsetscopy
| K_reduce_nonlocal_preparenext
| K_reduce_nonlocal_nextstarts
| K_reduce_nonlocal_findgaps
| K_reduce_nonlocal_nextshifts
| K_sorting_ranges
| K_sorting_ranges_length
| K_reduce_count
| K_reduce_sum
| K_reduce_prod
| K_reduce_countnonzero
| K_reduce_sum_bool
| K_reduce_prod_bool
| K_reduce_min
| K_reduce_max
| K_reduce_argmin
| K_reduce_argmax
| K_NumpyArray_fill
| K_IndexedArray_fill
| K_UnionArray_filltags
| K_UnionArray_fillindex
| K_ListArray_fill
| K_unique
| K_reduce_nonlocal_outstartsstops
| K_NumpyArray_copy
| K_NumpyArray_contiguous_copy
| K_NumpyArray_getitem_next_null
| K_NumpyArray_fill_tocomplex
| K_NumpyArray_fill_fromcomplex
| K_NumpyArray_rearrange_shifted
| K_NumpyArray_subrange_equal
| K_reduce_sum_complex
| K_reduce_prod_complex
| K_reduce_min_complex
| K_reduce_max_complex
| K_reduce_argmin_complex
| K_reduce_argmax_complex
| K_reduce_countnonzero_complex
| K_reduce_sum_bool_complex
| K_reduce_prod_bool_complex
| K_content_reduce_zeroparents

val ty : ity list -> nat -> ity

val vb : z -> bool

val o1 : z list kres -> val0 list kres

val o2 : (z list * z list) kres -> val0 list kres

val o0 : unit kres -> val0 list kres

val run : kname -> ity list -> val0 list -> val0 list kres
