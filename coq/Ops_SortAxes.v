(** sort (values) along a NON-innermost axis: layout-level model of the non-local branch of
    ListOffsetArray64::sort_next (src/libawkward/array/ListOffsetArray.cpp).

    C++ bookkeeping                                   here
    -------------------------------------------------------------------------------------------
    negaxis < depth  (nodes above the axis):          the at-axis descent [model_ax] (AtAxis.v): every list
      local branch, nextparents[k] = list holding k     keeps its own elements, option / indexed nodes are
                                                        passed through
    negaxis = depth  (the node at the axis and        [sax]: the node receives [groups] -- for every parent the
      every list node below it): non-local branch       (row number within the parent, position in this node) of
      parents[i] = parent of list i                     its rows -- and splits every group into columns:
      nextparents[k] = parents[i]*maxcount + q          column q of a group = the positions start+q of its rows
      for element q of list i                           that are longer than q (the run of equal nextparents);
      content.sort_next(negaxis-1, nextparents)         recursion into the content with the columns as groups
      outcarry = inverse of nextcarry,                  [sax_back]: where element q of row j went (looked up by
      outcontent.carry(outcarry), compact offsets       row number in the numbered columns), [carry], compact
                                                        offsets
    leaves (NumpyArray / option nodes over it):       keys read through the option/indexed nodes ([leaf_keys]),
      stable sort of every run of equal parents,        every group sorted by [sort_keys] (missing values last),
      IndexedOptionArray puts the missing ones last     result rebuilt by [content_of_keys]

    The kernel enumerates the columns position-major (q = 0 for all parents, then q = 1, ...), [sax] parent-major
    (all columns of the first parent, then of the second, ...): the runs of equal nextparents are the same sets in
    both enumerations and the gathering back undoes either, so the result does not depend on it.  Columns beyond
    the longest row of a parent are empty runs and are not enumerated (as in the reducer model [zl]).

    Declined (answer [Err EFuel], see [sort_axes_modelled] in Proofs_SortAxes.v): element types below the axis
    other than lists over (optional) numbers -- option-type lists, strings, unknown type --, and a string node
    at the axis.  argsort is not modelled here at all.  No proofs in this file. *)
From AwkV Require Export Ops_Sort.

(* element types handled at and below the axis: lists (not strings) over numbers, option only on the leaves *)
Fixpoint saxty (t : ty) : bool :=
  match t with
  | TNum _ => true
  | TOpt (TNum _) => true
  | TList _ None t' => saxty t'
  | _ => false
  end.

(* one group of rows of a list node: (row number within the parent, (start, stop)) *)
Definition sax_maxlen (sub : list (Z * (Z * Z))) : Z :=
  fold_left Z.max (map (fun jse : Z * (Z * Z) => snd (snd jse) - fst (snd jse)) sub) 0.
Definition sax_col (q : Z) (sub : list (Z * (Z * Z))) : list (Z * Z) :=
  flat_map (fun jse : Z * (Z * Z) => let s := fst (snd jse) in let e := snd (snd jse) in
                                      if s + q <? e then [(fst jse, s + q)] else []) sub.
Definition sax_cols (sub : list (Z * (Z * Z))) : list (list (Z * Z)) :=
  map (fun q => sax_col q sub) (iota (sax_maxlen sub)).

(* the content's answer lists the groups it was given one after the other, each in its own order:
   number the entries of consecutive groups from [base] on, keeping the row numbers *)
Fixpoint sax_number (base : Z) (cols : list (list (Z * Z))) : list (list (Z * Z)) :=
  match cols with
  | [] => []
  | g :: r => zip (map fst g) (iota_nat base (length g)) :: sax_number (base + zlen g) r
  end.
Definition sax_total (cols : list (list (Z * Z))) : Z := sumZ (map zlen cols).

(* outcarry: for every group, every row of it, every element q of the row: the place of (row, q) in the
   content's answer = the entry of this row in the numbered column q *)
Fixpoint sax_back (base : Z) (subs : list (list (Z * (Z * Z)))) : res (list Z) :=
  match subs with
  | [] => Ok []
  | sub :: r =>
      let cols := sax_cols sub in
      let nc := sax_number base cols in
      do rows <- mapM (fun jse : Z * (Z * Z) =>
                         mapM (fun qc : Z * list (Z * Z) => assocZ (fst jse) (snd qc))
                              (zip (iota (snd (snd jse) - fst (snd jse))) nc)) sub;
      do rest <- sax_back (base + sax_total cols) r;
      Ok (concat rows ++ rest)
  end.

(* [groups]: for each parent the (row number, position in c) of its rows.  The answer lists, group after group
   and row after row, the rows with their columns sorted. *)
Fixpoint sax (asc : bool) (p : option akind) (c : content) (groups : list (list (Z * Z))) {struct c} : res content :=
  match c with
  | ListOffset _ _ c' | ListA _ _ _ c' | Regular c' _ _ =>
      if is_strk p then Err EValue else
      do bc <- list_bounds c;
      let b := fst bc in
      do subs <- mapM (fun G => mapM (fun jp : Z * Z => do se <- get b (snd jp); Ok (fst jp, se)) G) groups;
      do inner <- sax asc None c' (concat (map sax_cols subs));
      do outcarry <- sax_back 0 subs;
      do out <- carry inner outcarry;
      Ok (ListOffset I64
            (offsets_from 0 (map (fun jse : Z * (Z * Z) => snd (snd jse) - fst (snd jse)) (concat subs))) out)
  | Indexed _ ix c' =>
      do gs <- mapM (fun G => mapM (fun jp : Z * Z => do i <- get ix (snd jp); Ok (fst jp, i)) G) groups;
      sax asc None c' gs
  | Numpy _ _ _ | Empty | IndexedOption _ _ _ | ByteMasked _ _ _ | BitMasked _ _ _ _ _ | Unmasked _ =>
      do ks <- leaf_keys None c;
      do per <- mapM (fun G => do seg <- mapM (fun jp : Z * Z => get ks (snd jp)) G;
                               Ok (sort_keys asc false (leaf_dtype c) seg)) groups;
      Ok (content_of_keys (leaf_dtype c) (concat per))
  | Par a _ c' => sax asc a c' groups
  | Union _ _ _ _ | Record _ _ _ => Err EValue
  end.

(* the list node at the axis: its lists are the parents, their elements the rows
   (n-d NumpyArray leaves below it as RegularArray chains: NumpyArray::sort_next calls toRegularArray) *)
Definition sort_axes_g (asc : bool) (_ : option akind) (c : content) : res content :=
  do bc <- list_bounds c;
  if negb (saxty (type_of (snd bc))) then Err EValue else
  let groups := map (fun se : Z * Z => map (fun j => (j, fst se + j)) (iota (snd se - fst se))) (fst bc) in
  do out <- sax asc None (expand (snd bc)) groups;
  Ok (ListOffset I64 (offsets_from 0 (map zlen groups)) out).

Definition sort_axes_model (asc : bool) (axis : Z) (c : content) : res content :=
  let t := type_of c in
  do ax <- resolve_axis t 0 axis;
  if negb (sortable t) then Err EValue
  else if ax =? 0 then
    (if saxty t
     then let c' := expand c in sax asc None c' [map (fun j => (j, j)) (iota (clen c'))]
     else Err EFuel)                                   (* declined *)
  else
    match model_ax (sort_axes_g asc) (Ok Empty) false c ax with
    | Ok r => Ok r
    | Err EValue => (match check_ax true sortable true t 0 ax with
                     | Ok _ => Err EFuel               (* legal axis, element type / string node declined *)
                     | Err e => Err e
                     end)
    | Err e => Err e
    end.

(* sort / argsort for every axis: [sort_model] (innermost axis; argsort) answers [Err EFuel] exactly when the
   axis is legal but not the innermost one; those cases go to [sort_axes_model] for sort, and stay declined
   for argsort *)
Definition sort_model_all (asc argsort : bool) (axis : Z) (c : content) : res content :=
  if argsort then sort_model asc argsort axis c
  else match sort_model asc argsort axis c with
       | Err EFuel => sort_axes_model asc axis c
       | r => r
       end.
