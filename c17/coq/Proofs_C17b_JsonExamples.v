(** C17b, Form -> JSON -> Form, part 2: the theorems at work on a non-trivial form, and one counter-example per
    shape excluded from [form_wf] (the round trip really fails there), covering every form class. *)
From Coq Require Import ZArith List Bool.
From AwkV Require Import Base Layout.
From AwkTypes Require Import Json Forms Proofs_Json Examples_C17 Proofs_C17b_Json.
Import ListNotations.
Open Scope Z_scope.

Ltac both := intros v; destruct v; vm_compute; (split; [reflexivity|congruence]).
Ltac comes_back_as := intros v; destruct v; vm_compute; reflexivity.

(* ---------------------------------------------------------------- the theorems on ex_form (Examples_C17) *)
Example ex_char : form_fromjson (form_tojson true ex_form) = Ok (form_canon ex_form) /\ form_canon ex_form = ex_form.
Proof. rewrite form_roundtrip_char. split; [reflexivity|exact (proj2 (wf_parses_canon _ ex_form_wf))]. Qed.

Example ex_injective : forall g w, form_wf g = true -> form_tojson true ex_form = form_tojson w g -> ex_form = g.
Proof. intros g w Hg. exact (form_json_injective_thm ex_form g true w ex_form_wf Hg). Qed.

Example ex_verbose_compact : form_fromjson (form_tojson true ex_form) = form_fromjson (form_tojson false ex_form).
Proof. exact (form_json_verbose_compact_thm ex_form). Qed.

Example ex_exact : form_wf ex_form = true.
Proof. exact (form_roundtrip_exact_thm ex_form false ex_form_roundtrip). Qed.

(* every class at once, all flag values, nested arbitrary JSON parameters, form keys, identities: well-formed *)
Definition pj : params :=
  [(k_array, JStr s_categorical);
   ([97], JObj [([0; 1], JArr [JNull; JDbl [49; 101; 51]; JObj []]); ([0; 1], JBool false)]);
   ([122; 122], JArr [JArr []; JInt (-5000000000)])].
Definition mj (hid : bool) : fmeta := mkmeta hid pj (Some [107; 101; 121]).
Definition np64 : form := FNumpy meta0 [] 8 [108] (FD DInt64).
Definition ex_all : form :=
  FRecord (mj true) None
    [FVirtual (mj false) None true; FVirtual meta0 (Some np64) false; FVirtual meta0 (Some (FVirtual (mj true) None false)) true;
     FBitMasked (mj false) Fu8 np64 true true; FBitMasked meta0 Fi64 np64 true false;
     FBitMasked meta0 Fu8 np64 false true; FBitMasked meta0 Fi8 np64 false false;
     FByteMasked (mj true) Fi8 np64 true; FByteMasked meta0 Fu32 np64 false; FUnmasked (mj false) np64;
     FUnion (mj true) Fi8 Fi32 [np64; FEmpty (mj false)]; FUnion meta0 Fi8 Fu32 []; FUnion meta0 Fi8 Fi64 [FEmpty meta0];
     FListOffset (mj false) Fi32 np64; FListOffset meta0 Fu32 np64; FListOffset meta0 Fi64 np64;
     FList (mj true) Fi32 Fi32 np64; FList meta0 Fu32 Fu32 np64; FList meta0 Fi64 Fi64 np64;
     FRegular (mj false) np64 0; FRegular meta0 np64 (-1); FRegular meta0 np64 2147483647;
     FIndexed (mj true) Fi32 np64; FIndexed meta0 Fu32 np64; FIndexed meta0 Fi64 np64;
     FIndexedOption (mj false) Fi32 np64; FIndexedOption meta0 Fi64 np64;
     FRecord (mj true) (Some [[]; [120; 34; 92]]) [np64; FEmpty meta0]; FRecord meta0 (Some []) []; FRecord meta0 None [];
     FNumpy (mj true) [3; -2147483648; 0] 16 [90; 100] FComplex128; FNumpy meta0 [] 8 [77] FDatetime64;
     FNumpy meta0 [] 1 [63] (FD DBool); FNumpy meta0 [] 2 [101] FFloat16].

Example ex_all_wf : form_wf ex_all = true.
Proof. vm_compute. reflexivity. Qed.
Example ex_all_roundtrip : forall v, form_fromjson (form_tojson v ex_all) = Ok ex_all.
Proof. intros v. exact (form_json_roundtrip_thm ex_all v ex_all_wf). Qed.
Example ex_all_idempotent : forall v f', form_fromjson (form_tojson v ex_all) = Ok f' -> form_wf f' = true.
Proof. intros v f' H. exact (proj1 (form_roundtrip_idempotent_thm _ _ _ H)). Qed.

(* ---------------------------------------------------------------- excluded shapes: the form does not come back *)
(* OPEN FINDING form-roundtrip-noncanonical-format: int64 given with format "q" comes back with "l" *)
Example form_noncanonical_format_refuted : forall v,
  form_fromjson (form_tojson v (FNumpy meta0 [] 8 [113] (FD DInt64))) = Ok (FNumpy meta0 [] 8 [108] (FD DInt64)) /\
  Ok (FNumpy meta0 [] 8 [108] (FD DInt64)) <> Ok (FNumpy meta0 [] 8 [113] (FD DInt64)).
Proof. both. Qed.
(* "<l" and "=q" likewise *)
Example form_byteorder_format_refuted : forall v,
  form_fromjson (form_tojson v (FNumpy meta0 [] 8 [60; 108] (FD DInt64))) = Ok (FNumpy meta0 [] 8 [108] (FD DInt64)) /\
  form_fromjson (form_tojson v (FNumpy meta0 [] 8 [61; 113] (FD DInt64))) = Ok (FNumpy meta0 [] 8 [108] (FD DInt64)).
Proof. intros v; destruct v; vm_compute; split; reflexivity. Qed.
(* itemsize inconsistent with the dtype: the primitive name wins, the itemsize is recomputed *)
Example form_itemsize_inconsistent_refuted : forall v,
  form_fromjson (form_tojson v (FNumpy meta0 [] 4 [108] (FD DInt64))) = Ok (FNumpy meta0 [] 8 [108] (FD DInt64)) /\
  Ok (FNumpy meta0 [] 8 [108] (FD DInt64)) <> Ok (FNumpy meta0 [] 4 [108] (FD DInt64)).
Proof. both. Qed.
(* format of another dtype ("d" on an int64 form): replaced *)
Example form_format_inconsistent_refuted : forall v,
  form_fromjson (form_tojson v (FNumpy meta0 [] 8 [100] (FD DInt64))) = Ok (FNumpy meta0 [] 8 [108] (FD DInt64)) /\
  Ok (FNumpy meta0 [] 8 [108] (FD DInt64)) <> Ok (FNumpy meta0 [] 8 [100] (FD DInt64)).
Proof. both. Qed.
(* a NumpyForm whose dtype is NOT_PRIMITIVE prints "unknown", which is rejected *)
Example form_not_primitive_refuted : forall v, form_fromjson (form_tojson v (FNumpy meta0 [] 0 [] FNotPrimitive)) = Err EValue.
Proof. comes_back_as. Qed.
(* inner_shape entry outside int32: rejected *)
Example form_inner_shape_int64_refuted : forall v,
  form_fromjson (form_tojson v (FNumpy meta0 [2147483648] 8 [108] (FD DInt64))) = Err EValue.
Proof. comes_back_as. Qed.
(* RegularForm size outside int32: rejected *)
Example form_regular_size_int64_refuted : forall v, form_fromjson (form_tojson v (FRegular meta0 np64 2147483648)) = Err EValue.
Proof. comes_back_as. Qed.
(* parameters not sorted: come back sorted *)
Example form_params_unsorted_refuted : forall v,
  form_fromjson (form_tojson v (FEmpty (mkmeta false [([98], JInt 1); ([97], JInt 2)] None))) =
    Ok (FEmpty (mkmeta false [([97], JInt 2); ([98], JInt 1)] None)) /\
  Ok (FEmpty (mkmeta false [([97], JInt 2); ([98], JInt 1)] None)) <> Ok (FEmpty (mkmeta false [([98], JInt 1); ([97], JInt 2)] None)).
Proof. both. Qed.
(* duplicate parameter keys: the last one wins *)
Example form_params_duplicate_refuted : forall v,
  form_fromjson (form_tojson v (FEmpty (mkmeta false [([97], JInt 1); ([97], JInt 2)] None))) =
    Ok (FEmpty (mkmeta false [([97], JInt 2)] None)) /\
  Ok (FEmpty (mkmeta false [([97], JInt 2)] None)) <> Ok (FEmpty (mkmeta false [([97], JInt 1); ([97], JInt 2)] None)).
Proof. both. Qed.
(* NUL in a parameter key: cut there *)
Example form_params_nul_refuted : forall v,
  form_fromjson (form_tojson v (FEmpty (mkmeta false [([97; 0; 98], JInt 1)] None))) = Ok (FEmpty (mkmeta false [([97], JInt 1)] None)) /\
  Ok (FEmpty (mkmeta false [([97], JInt 1)] None)) <> Ok (FEmpty (mkmeta false [([97; 0; 98], JInt 1)] None)).
Proof. both. Qed.
(* NUL in a form key: cut there *)
Example form_key_nul_refuted : forall v,
  form_fromjson (form_tojson v (FEmpty (mkmeta false [] (Some [107; 0; 1])))) = Ok (FEmpty (mkmeta false [] (Some [107]))) /\
  Ok (FEmpty (mkmeta false [] (Some [107]))) <> Ok (FEmpty (mkmeta false [] (Some [107; 0; 1]))).
Proof. both. Qed.
(* NUL in a record key: cut there *)
Example form_record_key_nul_refuted : forall v,
  form_fromjson (form_tojson v (FRecord meta0 (Some [[120; 0; 121]]) [np64])) = Ok (FRecord meta0 (Some [[120]]) [np64]) /\
  Ok (FRecord meta0 (Some [[120]]) [np64]) <> Ok (FRecord meta0 (Some [[120; 0; 121]]) [np64]).
Proof. both. Qed.
(* more record keys than contents, or fewer: the writer stops at the shorter *)
Example form_record_more_keys_refuted : forall v,
  form_fromjson (form_tojson v (FRecord meta0 (Some [[120]; [121]]) [np64])) = Ok (FRecord meta0 (Some [[120]]) [np64]) /\
  Ok (FRecord meta0 (Some [[120]]) [np64]) <> Ok (FRecord meta0 (Some [[120]; [121]]) [np64]).
Proof. both. Qed.
Example form_record_fewer_keys_refuted : forall v,
  form_fromjson (form_tojson v (FRecord meta0 (Some [[120]]) [np64; FEmpty meta0])) = Ok (FRecord meta0 (Some [[120]]) [np64]) /\
  Ok (FRecord meta0 (Some [[120]]) [np64]) <> Ok (FRecord meta0 (Some [[120]]) [np64; FEmpty meta0]).
Proof. both. Qed.
(* ListForm with starts <> stops: rejected (the class name fixes both) *)
Example form_list_starts_stops_refuted : forall v, form_fromjson (form_tojson v (FList meta0 Fi32 Fi64 np64)) = Err EValue.
Proof. comes_back_as. Qed.
(* index widths of no existing array class: the writer prints class "Unrecognized...", rejected *)
Example form_listoffset_i8_refuted : forall v, form_fromjson (form_tojson v (FListOffset meta0 Fi8 np64)) = Err EValue.
Proof. comes_back_as. Qed.
Example form_listoffset_u8_refuted : forall v, form_fromjson (form_tojson v (FListOffset meta0 Fu8 np64)) = Err EValue.
Proof. comes_back_as. Qed.
Example form_list_u8_refuted : forall v, form_fromjson (form_tojson v (FList meta0 Fu8 Fu8 np64)) = Err EValue.
Proof. comes_back_as. Qed.
Example form_indexed_i8_refuted : forall v, form_fromjson (form_tojson v (FIndexed meta0 Fi8 np64)) = Err EValue.
Proof. comes_back_as. Qed.
Example form_indexedoption_u32_refuted : forall v, form_fromjson (form_tojson v (FIndexedOption meta0 Fu32 np64)) = Err EValue.
Proof. comes_back_as. Qed.
Example form_indexedoption_u8_refuted : forall v, form_fromjson (form_tojson v (FIndexedOption meta0 Fu8 np64)) = Err EValue.
Proof. comes_back_as. Qed.
Example form_union_index_i8_refuted : forall v, form_fromjson (form_tojson v (FUnion meta0 Fi8 Fi8 [np64])) = Err EValue.
Proof. comes_back_as. Qed.
Example form_union_tags_refuted : forall v,
  form_fromjson (form_tojson v (FUnion meta0 Fu8 Fi64 [np64])) = Err EValue /\
  form_fromjson (form_tojson v (FUnion meta0 Fi64 Fi64 [np64])) = Err EValue.
Proof. intros v; destruct v; vm_compute; split; reflexivity. Qed.
(* a defect anywhere below makes the whole form unreadable: in a VirtualForm's form, a mask's content, a union/record content *)
Example form_nested_defect_refuted : forall v,
  form_fromjson (form_tojson v (FVirtual meta0 (Some (FBitMasked meta0 Fu8 (FUnion meta0 Fi8 Fi64
      [np64; FRecord meta0 (Some [[120]]) [FByteMasked meta0 Fi8 (FUnmasked meta0 (FRegular meta0 np64 2147483648)) true]]) true false)) true)) = Err EValue.
Proof. comes_back_as. Qed.
(* ... unless it sits in a record content cut off by a shorter key list *)
Example form_defect_cut_off : forall v,
  form_fromjson (form_tojson v (FRecord meta0 (Some [[120]]) [np64; FRegular meta0 np64 2147483648])) = Ok (FRecord meta0 (Some [[120]]) [np64]).
Proof. comes_back_as. Qed.
(* NOT excluded: the mask index type of ByteMasked/BitMasked forms is free (any of the five survives) *)
Example form_mask_iform_free : forall v k vw lsb,
  form_fromjson (form_tojson v (FBitMasked meta0 k np64 vw lsb)) = Ok (FBitMasked meta0 k np64 vw lsb) /\
  form_fromjson (form_tojson v (FByteMasked meta0 k np64 vw)) = Ok (FByteMasked meta0 k np64 vw).
Proof. intros v k vw lsb. split; apply form_json_roundtrip_thm; reflexivity. Qed.

(* ---------------------------------------------------------------- text level *)
(* Injectivity does NOT lift to the printed text in this model: [JDbl] carries the number's text unconstrained, so
   a parameter value JDbl "1" and JInt 1 print alike; two distinct well-formed forms then have the same JSON text.
   (An artefact of the JSON value model - a rapidjson double never prints as "1" - not a defect of the C++.) *)
Example form_text_injective_refuted : forall v,
  let f := FEmpty (mkmeta false [([97], JDbl [49])] None) in
  let g := FEmpty (mkmeta false [([97], JInt 1)] None) in
  form_wf f = true /\ form_wf g = true /\ json_print (form_tojson v f) = json_print (form_tojson v g) /\ f <> g.
Proof. intros v; destruct v; vm_compute; repeat split; congruence. Qed.
