// lbdrv: drives awkward::LayoutBuilder (the Form-driven builder: include/awkward/layoutbuilder/*.h,
// src/libawkward/layoutbuilder/*.cpp; it compiles the Form into an AwkwardForth program and feeds the commands to a
// ForthMachine32) of /repo's libawkward with command sessions (property C14).
// One session per line on stdin:
//   (id lb (opts INITIAL RESIZE_PERCENT) (form FORM) (cmds CMD...))
//   FORM ::= (np DTYPE) | (empty) | (lo W FORM) | (la W FORM) | (reg SIZE FORM) | (ix W FORM) | (ixo W FORM)
//          | (bym VALIDWHEN FORM) | (bim VALIDWHEN LSB FORM) | (unm FORM) | (un W FORM...) | (rec (KEY...)|tuple FORM...)
//          | (par ARRAY|none RECORD|none FORM)      parameters __array__ / __record__ on the node below
//          | (key NAME FORM)                        an explicit form_key on the node below (default: none, the builder
//                                                   then invents "node-idN")
//          W ::= i32 | u32 | i64  (Index::Form of offsets / starts+stops / index; tags are always i8; masks i8/u8)
//   CMD ::= null | (bool 0|1) | (int N) | (real N) | (complex RE IM) | (str B...) | (bytes B...) | beginlist | endlist
//         | (tag N) | (index N) | snapshot
//   These are exactly the public mutators of LayoutBuilder in 1.4.0 (null, boolean, int64, float64, complex,
//   bytestring(std::string), string(std::string), begin_list, end_list, tag, index) plus snapshot().
// Output: (id ok (events EV...) (final (POS LEN DUMP)...))      or   (id err CLASS) when the constructor throws
//   EV ::= (e POS value|runtime|other)      command number POS threw (the session goes on)
//        | (s POS BLEN LEN DUMP)            snapshot taken at command POS: LayoutBuilder::length(), the snapshot's own
//                                           length() and the layout dumped AT THAT MOMENT
//   final: every snapshot (all kept alive during the session) dumped AGAIN after the last command, so that a later
//   append that wrote into an earlier snapshot's buffers is visible.
// Only public headers of /repo/include are used.
#include "drv_common.h"
#include "awkward/layoutbuilder/LayoutBuilder.h"
#include "awkward/builder/ArrayBuilderOptions.h"
#include <complex>

using namespace drv;

static Index::Form width(const Sx& x) {
  if (x.is("i32")) return Index::Form::i32;
  if (x.is("u32")) return Index::Form::u32;
  if (x.is("i64")) return Index::Form::i64;
  if (x.is("i8")) return Index::Form::i8;
  if (x.is("u8")) return Index::Form::u8;
  throw std::logic_error("index width expected: " + x.str());
}

static FormPtr mkform(const Sx& x, util::Parameters ps, FormKey key) {
  const std::string h = x.head();
  if (h == "par") {
    if (!x[1].is("none")) ps["__array__"] = quoted(x[1].a);
    if (!x[2].is("none")) ps["__record__"] = quoted(x[2].is("%empty") ? std::string("") : x[2].a);
    return mkform(x[3], ps, key);
  }
  if (h == "key") return mkform(x[2], ps, std::make_shared<std::string>(x[1].a));
  const util::Parameters np;
  const FormKey nk(nullptr);
  if (h == "np") {
    util::dtype d = dtype_of(x[1].a);
    return std::make_shared<NumpyForm>(false, ps, key, std::vector<int64_t>(), util::dtype_to_itemsize(d),
                                       util::dtype_to_format(d), d);
  }
  if (h == "empty") return std::make_shared<EmptyForm>(false, ps, key);
  if (h == "lo") return std::make_shared<ListOffsetForm>(false, ps, key, width(x[1]), mkform(x[2], np, nk));
  if (h == "la") return std::make_shared<ListForm>(false, ps, key, width(x[1]), width(x[1]), mkform(x[2], np, nk));
  if (h == "reg") return std::make_shared<RegularForm>(false, ps, key, mkform(x[2], np, nk), to_i64(x[1]));
  if (h == "ix") return std::make_shared<IndexedForm>(false, ps, key, width(x[1]), mkform(x[2], np, nk));
  if (h == "ixo") return std::make_shared<IndexedOptionForm>(false, ps, key, width(x[1]), mkform(x[2], np, nk));
  if (h == "bym") return std::make_shared<ByteMaskedForm>(false, ps, key, Index::Form::i8, mkform(x[2], np, nk), to_i64(x[1]) != 0);
  if (h == "bim") return std::make_shared<BitMaskedForm>(false, ps, key, Index::Form::u8, mkform(x[3], np, nk), to_i64(x[1]) != 0, to_i64(x[2]) != 0);
  if (h == "unm") return std::make_shared<UnmaskedForm>(false, ps, key, mkform(x[1], np, nk));
  if (h == "un") {
    std::vector<FormPtr> cs;
    for (size_t i = 2; i < x.size(); i++) cs.push_back(mkform(x[i], np, nk));
    return std::make_shared<UnionForm>(false, ps, key, Index::Form::i8, width(x[1]), cs);
  }
  if (h == "rec") {
    util::RecordLookupPtr lookup(nullptr);
    if (!x[1].is("tuple")) {
      lookup = std::make_shared<util::RecordLookup>();
      for (auto& k : x[1].l) lookup->push_back(k.a);
    }
    std::vector<FormPtr> cs;
    for (size_t i = 2; i < x.size(); i++) cs.push_back(mkform(x[i], np, nk));
    return std::make_shared<RecordForm>(false, ps, key, lookup, cs);
  }
  throw std::logic_error("form: unknown node " + x.str());
}

static std::string bytes_of(const Sx& c) {
  std::string s;
  for (size_t i = 1; i < c.size(); i++) s.push_back((char)(unsigned char)to_i64(c[i]));
  return s;
}

static void apply(LayoutBuilder& b, const Sx& c) {
  if (c.atom) {
    if (c.a == "null") { b.null(); return; }
    if (c.a == "beginlist") { b.begin_list(); return; }
    if (c.a == "endlist") { b.end_list(); return; }
    throw std::logic_error("unknown command " + c.a);
  }
  const std::string h = c.head();
  if (h == "bool") { b.boolean(to_i64(c[1]) != 0); return; }
  if (h == "int") { b.int64(to_i64(c[1])); return; }
  if (h == "real") { b.float64(to_f64(c[1])); return; }
  if (h == "complex") { b.complex(std::complex<double>(to_f64(c[1]), to_f64(c[2]))); return; }
  if (h == "str") { b.string(bytes_of(c)); return; }
  if (h == "bytes") { b.bytestring(bytes_of(c)); return; }
  if (h == "tag") { b.tag((int8_t)to_i64(c[1])); return; }
  if (h == "index") { b.index(to_i64(c[1])); return; }
  throw std::logic_error("unknown command " + c.str());
}

static std::string handle(const Sx& cs) {
  if (cs[1].a != "lb") throw std::logic_error("unknown op " + cs[1].a);
  const Sx& opts = cs[2];
  if (opts.head() != "opts") throw std::logic_error("opts expected");
  int64_t initial = to_i64(opts[1]);
  double resize = (double)to_i64(opts[2]) / 100.0;
  if (cs[3].head() != "form") throw std::logic_error("form expected");
  FormPtr form = mkform(cs[3][1], util::Parameters(), FormKey(nullptr));
  const Sx& cmds = cs[4];
  if (cmds.head() != "cmds") throw std::logic_error("cmds expected");
  if (getenv("LB_SOURCE")) {
    LayoutBuilder b0(form, ArrayBuilderOptions(initial, resize), false);
    std::cerr << b0.vm_source() << std::endl;
  }
  LayoutBuilder b(form, ArrayBuilderOptions(initial, resize));     // may throw: the whole line is (id err CLASS)
  std::vector<std::pair<size_t, ContentPtr>> snaps;   // kept alive until the end
  std::string ev = "(events";
  for (size_t i = 1; i < cmds.size(); i++) {
    const Sx& c = cmds[i];
    size_t pos = i - 1;
    try {
      if (c.is("snapshot")) {
        ContentPtr s = b.snapshot();
        std::string d = dump(s);
        snaps.push_back(std::make_pair(pos, s));
        ev += " (s " + std::to_string(pos) + " " + std::to_string(b.length()) + " " + std::to_string(s->length()) + " " + d + ")";
      } else {
        apply(b, c);
      }
    } catch (std::invalid_argument& e) {
      if (getenv("DRV_VERBOSE")) std::cerr << cs[0].a << " @" << pos << ": " << e.what() << std::endl;
      ev += " (e " + std::to_string(pos) + " value)";
    } catch (std::logic_error& e) {
      throw;                                  // bad case syntax: whole line is 'bad'
    } catch (std::runtime_error& e) {
      if (getenv("DRV_VERBOSE")) std::cerr << cs[0].a << " @" << pos << ": " << e.what() << std::endl;
      ev += " (e " + std::to_string(pos) + " runtime)";
    } catch (std::exception& e) {
      ev += " (e " + std::to_string(pos) + " other)";
    }
  }
  ev += ")";
  std::string fin = "(final";
  for (auto& p : snaps)
    fin += " (" + std::to_string(p.first) + " " + std::to_string(p.second->length()) + " " + dump(p.second) + ")";
  fin += ")";
  return ev + " " + fin;
}

int main() { return run_cases(handle); }
