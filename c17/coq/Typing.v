(** Element typing: when a nested-list value has a (core) type; the depth of the leaves of a value;
    the minmax depth of a type computed with the C++ loop.  MODEL ONLY: no proofs in this file. *)
From Coq Require Import ZArith List Bool.
From AwkV Require Import Base Layout Valid Types.
From AwkTypes Require Import Json Forms.
Import ListNotations.
Open Scope Z_scope.

Definition name_eqb (a b : name) : bool := list_eqb Z.eqb a b.

(* [has_typeb t v]: v is a legal element of an array whose item type is t.
   numbers/booleans at the leaves according to the dtype; lists (of the regular size, if regular);
   None only under an option; records with the keys in order, tuples positionally; strings as a unit;
   a union value belongs to some alternative; nothing has the unknown type. *)
Fixpoint has_typeb (t : ty) (v : value) {struct t} : bool :=
  match t with
  | TNum dt =>
      match v with
      | VBool _ => dtype_eqb dt DBool
      | VNum _ => negb (dtype_eqb dt DBool)
      | _ => false
      end
  | TUnk => false
  | TList sz (Some isstr) _ =>
      match v with
      | VStr i s => Bool.eqb i isstr && match sz with Some n => zlen s =? n | None => true end
      | _ => false
      end
  | TList sz None t' =>
      match v with
      | VList l => forallb (has_typeb t') l && match sz with Some n => zlen l =? n | None => true end
      | _ => false
      end
  | TOpt t' => match v with VNone => true | _ => has_typeb t' v end
  | TRec (Some ks) ts =>
      match v with
      | VRec fs =>
          list_eqb name_eqb (map fst fs) ks &&
          (fix go (ts : list ty) (vs : list value) {struct ts} : bool :=
             match ts, vs with
             | [], [] => true
             | t0 :: ts', v0 :: vs' => has_typeb t0 v0 && go ts' vs'
             | _, _ => false
             end) ts (map snd fs)
      | _ => false
      end
  | TRec None ts =>
      match v with
      | VTup vs =>
          (fix go (ts : list ty) (vs : list value) {struct ts} : bool :=
             match ts, vs with
             | [], [] => true
             | t0 :: ts', v0 :: vs' => has_typeb t0 v0 && go ts' vs'
             | _, _ => false
             end) ts vs
      | _ => false
      end
  | TUnion ts =>
      (fix ex (ts : list ty) : bool :=
         match ts with
         | [] => false
         | t0 :: ts' => has_typeb t0 v || ex ts'
         end) ts
  end.

Definition has_type (t : ty) (v : value) : Prop := has_typeb t v = true.

(* [leaf_depth_in lo hi v]: every number / boolean / string in v sits at a list depth d with lo <= d <= hi,
   where the elements of the array itself are at depth 1; a missing value, an empty list and a record without
   fields have no leaves.  Records do not add depth. *)
Fixpoint leaf_depth_in (lo hi : Z) (v : value) {struct v} : bool :=
  match v with
  | VNum _ | VBool _ | VStr _ _ => (lo <=? 1) && (1 <=? hi)
  | VNone => true
  | VList l => forallb (leaf_depth_in (lo - 1) (hi - 1)) l
  | VRec fs => forallb (fun kv => leaf_depth_in lo hi (snd kv)) fs
  | VTup vs => forallb (leaf_depth_in lo hi) vs
  end.

(* minmax_depth of a type, with the loop of RecordForm / UnionForm::minmax_depth *)
Fixpoint minmax_ty (t : ty) : Z * Z :=
  match t with
  | TNum _ | TUnk => (1, 1)
  | TList _ (Some _) _ => (1, 1)
  | TList _ None t' => let mm := minmax_ty t' in (fst mm + 1, snd mm + 1)
  | TOpt t' => minmax_ty t'
  | TRec _ ts | TUnion ts => minmax_fold (map minmax_ty ts)
  end.
