(** KLemmas.v -- lemmas about the monad, checked access and loop combinators of Kernels.v *)
From Coq Require Import ZArith List Bool Lia ZifyBool.
From AwkV Require Import Base.
From AwkKernels Require Import Kernels.
Import ListNotations.
Open Scope Z_scope.

(** * lists *)
Lemma zlen_nil {A} : zlen (@nil A) = 0. Proof. reflexivity. Qed.
Lemma zlen_cons {A} (x : A) l : zlen (x :: l) = zlen l + 1.
Proof. unfold zlen. cbn [length]. lia. Qed.
Lemma zlen_app {A} (l m : list A) : zlen (l ++ m) = zlen l + zlen m.
Proof. unfold zlen. rewrite app_length. lia. Qed.
Lemma zlen_nonneg {A} (l : list A) : 0 <= zlen l.
Proof. unfold zlen. lia. Qed.
Lemma zlen_map {A B} (f : A -> B) l : zlen (map f l) = zlen l.
Proof. unfold zlen. now rewrite map_length. Qed.

Lemma length_set_nth l n v : length (set_nth l n v) = length l.
Proof. revert n; induction l; intros [|n]; cbn; auto. Qed.
Lemma zlen_set_nth l n v : zlen (set_nth l n v) = zlen l.
Proof. unfold zlen. now rewrite length_set_nth. Qed.

Lemma nth_error_set_nth_eq l n v : (n < length l)%nat -> nth_error (set_nth l n v) n = Some v.
Proof. revert n; induction l; intros [|n] H; cbn in *; try lia; auto. apply IHl; lia. Qed.
Lemma nth_error_set_nth_neq l n m v : n <> m -> nth_error (set_nth l n v) m = nth_error l m.
Proof.
  revert n m; induction l; intros [|n] [|m] H; cbn; auto; try congruence.
Qed.

Lemma set_nth_app_r l m n v : (length l <= n)%nat -> set_nth (l ++ m) n v = l ++ set_nth m (n - length l) v.
Proof.
  revert n; induction l; intros n H; cbn in *.
  - now rewrite Nat.sub_0_r.
  - destruct n; [lia|]. cbn. f_equal. apply IHl. lia.
Qed.
Lemma set_nth_app_l l m n v : (n < length l)%nat -> set_nth (l ++ m) n v = set_nth l n v ++ m.
Proof.
  revert n; induction l; intros n H; cbn in *; [lia|].
  destruct n; cbn; auto. f_equal. apply IHl. lia.
Qed.
Lemma set_nth_skipn_0 l n v : (n < length l)%nat -> set_nth (skipn n l) 0 v = v :: skipn (S n) l.
Proof.
  revert n; induction l; intros n H; cbn in *; [lia|].
  destruct n; cbn; auto. apply IHl. lia.
Qed.

(** * iota *)
Lemma iota_nat_length s n : length (iota_nat s n) = n.
Proof. revert s; induction n; intros; cbn; auto. Qed.
Lemma iota_nat_snoc s n : iota_nat s (S n) = iota_nat s n ++ [s + Z.of_nat n].
Proof.
  revert s; induction n; intros s.
  - cbn. f_equal. lia.
  - change (iota_nat s (S (S n))) with (s :: iota_nat (s + 1) (S n)).
    rewrite IHn. cbn [iota_nat app]. do 2 f_equal. f_equal. lia.
Qed.
Lemma iota_length n : length (iota n) = Z.to_nat n.
Proof. apply iota_nat_length. Qed.
Lemma iota_snoc n : 0 <= n -> iota (n + 1) = iota n ++ [n].
Proof.
  intros H. unfold iota. replace (Z.to_nat (n + 1)) with (S (Z.to_nat n)) by lia.
  rewrite iota_nat_snoc. do 2 f_equal. lia.
Qed.
Lemma iota_0 : iota 0 = []. Proof. reflexivity. Qed.
Lemma in_iota_nat x s n : In x (iota_nat s n) <-> s <= x < s + Z.of_nat n.
Proof.
  revert s; induction n; intros s; cbn [iota_nat In].
  - lia.
  - rewrite IHn. lia.
Qed.
Lemma in_iota x n : In x (iota n) <-> 0 <= x < n.
Proof. unfold iota. rewrite in_iota_nat. lia. Qed.

(** * checked access *)
Lemma kget_inv l i x : kget l i = KOk x -> 0 <= i < zlen l /\ nth_error l (Z.to_nat i) = Some x.
Proof.
  unfold kget, get. destruct (i <? 0) eqn:E; [discriminate|].
  destruct (nth_error l (Z.to_nat i)) eqn:N; [|discriminate].
  intros H; inversion H; subst. split; auto.
  assert (Z.to_nat i < length l)%nat by (apply nth_error_Some; congruence).
  unfold zlen. lia.
Qed.
Lemma kget_ok l i : 0 <= i < zlen l -> exists x, kget l i = KOk x /\ nth_error l (Z.to_nat i) = Some x.
Proof.
  intros H. unfold kget, get. destruct (i <? 0) eqn:E; [lia|].
  destruct (nth_error l (Z.to_nat i)) eqn:N; [eauto|].
  apply nth_error_None in N. unfold zlen in H. lia.
Qed.
Lemma kget_nth l i d : 0 <= i < zlen l -> kget l i = KOk (nth (Z.to_nat i) l d).
Proof.
  intros H. destruct (kget_ok l i H) as (x & -> & N). f_equal. symmetry. now apply nth_error_nth.
Qed.
Lemma kget_not_err l i m : kget l i <> KErr m.
Proof. unfold kget. destruct (get l i); congruence. Qed.
Lemma kget_oob l i : kget l i = KOob <-> ~ (0 <= i < zlen l).
Proof.
  split.
  - intros H C. destruct (kget_ok l i C) as (x & E & _). congruence.
  - intros H. destruct (kget l i) eqn:E; auto.
    + apply kget_inv in E. tauto.
    + exfalso. eapply kget_not_err; eauto.
Qed.
Lemma kupd_ok l i v : 0 <= i < zlen l -> kupd l i v = KOk (set_nth l (Z.to_nat i) v).
Proof. intros H. unfold kupd. destruct ((0 <=? i) && (i <? zlen l)) eqn:E; auto. lia. Qed.
Lemma kupd_inv l i v l' : kupd l i v = KOk l' -> 0 <= i < zlen l /\ l' = set_nth l (Z.to_nat i) v.
Proof.
  unfold kupd. destruct ((0 <=? i) && (i <? zlen l)) eqn:E; [|discriminate].
  intros H; inversion H. split; auto. lia.
Qed.
Lemma kupd_not_err l i v m : kupd l i v <> KErr m.
Proof. unfold kupd. destruct ((0 <=? i) && (i <? zlen l)); congruence. Qed.
Lemma kupd_oob l i v : kupd l i v = KOob <-> ~ (0 <= i < zlen l).
Proof.
  unfold kupd. destruct ((0 <=? i) && (i <? zlen l)) eqn:E; split; intros; try congruence; lia.
Qed.
Lemma kupd_zlen l i v l' : kupd l i v = KOk l' -> zlen l' = zlen l.
Proof. intros H. apply kupd_inv in H. destruct H as (_ & ->). apply zlen_set_nth. Qed.

Lemma kget_app_l l m i : 0 <= i < zlen l -> kget (l ++ m) i = kget l i.
Proof.
  intros H. destruct (kget_ok l i H) as (x & -> & N).
  destruct (kget_ok (l ++ m) i) as (y & -> & N2). { rewrite zlen_app. pose proof (zlen_nonneg m). lia. }
  rewrite nth_error_app1 in N2 by (unfold zlen in H; lia). congruence.
Qed.
Lemma kget_app_r l m i : zlen l <= i -> kget (l ++ m) i = kget m (i - zlen l).
Proof.
  intros H. unfold kget, get.
  pose proof (zlen_nonneg l).
  destruct (i <? 0) eqn:E1; [lia|]. destruct (i - zlen l <? 0) eqn:E2; [lia|].
  rewrite nth_error_app2 by (unfold zlen in *; lia).
  replace (Z.to_nat i - length l)%nat with (Z.to_nat (i - zlen l)) by (unfold zlen; lia). reflexivity.
Qed.

(** * wrap *)
Lemma wrap_ideal v : wrap TIdeal v = v. Proof. reflexivity. Qed.
Lemma wrap_TI_id b v : 0 < b -> - 2 ^ (b - 1) <= v < 2 ^ (b - 1) -> wrap (TI b) v = v.
Proof.
  intros Hb H. unfold wrap.
  assert (E : 2 ^ b = 2 * 2 ^ (b - 1)).
  { replace b with (Z.succ (b - 1)) at 1 by lia. rewrite Z.pow_succ_r by lia. reflexivity. }
  rewrite E. rewrite Z.mod_small by lia. lia.
Qed.
Lemma wrap_TU_id b v : 0 <= v < 2 ^ b -> wrap (TU b) v = v.
Proof. intros H. unfold wrap. now apply Z.mod_small. Qed.
Lemma wrap_TB_id v : v = 0 \/ v = 1 -> wrap TB v = v.
Proof. intros [->| ->]; reflexivity. Qed.
Lemma wrap_idem t v : wrap t (wrap t v) = wrap t v.
Proof.
  destruct t; cbn [wrap]; auto.
  - destruct (v =? 0); reflexivity.
  - destruct (Z.eq_dec (2 ^ bits) 0) as [E|E].
    + rewrite E. rewrite !Zmod_0_r. lia.
    + replace ((v + 2 ^ (bits - 1)) mod 2 ^ bits - 2 ^ (bits - 1) + 2 ^ (bits - 1))
        with ((v + 2 ^ (bits - 1)) mod 2 ^ bits) by lia.
      rewrite Z.mod_mod by assumption. reflexivity.
  - destruct (Z.eq_dec (2 ^ bits) 0) as [E|E].
    + rewrite E. rewrite !Zmod_0_r. reflexivity.
    + now rewrite Z.mod_mod.
Qed.

(** * monad *)
Lemma kbind_ok {A B} (r : kres A) (f : A -> kres B) b :
  kbind r f = KOk b -> exists a, r = KOk a /\ f a = KOk b.
Proof. destruct r; cbn; intros; try discriminate; eauto. Qed.

(** * kfor *)
Section KFor.
  Context {S : Type}.
  Variable body : Z -> S -> kres S.

  (** total correctness with an invariant: every iteration succeeds *)
  Lemma kfor_nat_inv (P : Z -> S -> Prop) n i s :
    P i s ->
    (forall j s, i <= j < i + Z.of_nat n -> P j s -> exists s', body j s = KOk s' /\ P (j + 1) s') ->
    exists s', kfor_nat n i body s = KOk s' /\ P (i + Z.of_nat n) s'.
  Proof.
    revert i s; induction n; intros i s H0 Hstep.
    - exists s. cbn [kfor_nat]. split; auto. now replace (i + Z.of_nat 0) with i by lia.
    - cbn [kfor_nat]. destruct (Hstep i s) as (s' & E & P'); [lia|auto|].
      rewrite E. cbn [kbind].
      destruct (IHn (i + 1) s' P') as (s'' & E' & P'').
      + intros j s0 Hj. apply Hstep. lia.
      + exists s''. split; auto. now replace (i + Z.of_nat (Datatypes.S n)) with (i + 1 + Z.of_nat n) by lia.
  Qed.

  Lemma kfor_inv (P : Z -> S -> Prop) lo hi s :
    lo <= hi -> P lo s ->
    (forall j s, lo <= j < hi -> P j s -> exists s', body j s = KOk s' /\ P (j + 1) s') ->
    exists s', kfor lo hi body s = KOk s' /\ P hi s'.
  Proof.
    intros Hle H0 Hstep. unfold kfor.
    destruct (kfor_nat_inv P (Z.to_nat (hi - lo)) lo s H0) as (s' & E & P').
    - intros j s0 Hj. apply Hstep. lia.
    - exists s'. split; auto.
      assert (Q : lo + Z.of_nat (Z.to_nat (hi - lo)) = hi) by lia. now rewrite Q in P'.
  Qed.

  (** partial: the loop never goes out of bounds if no iteration does (errors allowed) *)
  Lemma kfor_nat_noob (P : Z -> S -> Prop) n i s :
    P i s ->
    (forall j s, i <= j < i + Z.of_nat n -> P j s ->
       body j s <> KOob /\ forall s', body j s = KOk s' -> P (j + 1) s') ->
    kfor_nat n i body s <> KOob /\
    forall s', kfor_nat n i body s = KOk s' -> P (i + Z.of_nat n) s'.
  Proof.
    revert i s; induction n; intros i s H0 Hstep.
    - cbn [kfor_nat]. split; [congruence|]. intros s' E; inversion E; subst.
      now replace (i + Z.of_nat 0) with i by lia.
    - cbn [kfor_nat]. destruct (Hstep i s) as (N & Pn); [lia|auto|].
      destruct (body i s) as [s1| |] eqn:E; cbn [kbind]; [|split; congruence|congruence].
      destruct (IHn (i + 1) s1 (Pn _ eq_refl)) as (N' & P').
      + intros j s0 Hj. apply Hstep. lia.
      + split; auto. intros s' E'. replace (i + Z.of_nat (Datatypes.S n)) with (i + 1 + Z.of_nat n) by lia. auto.
  Qed.

  Lemma kfor_noob (P : Z -> S -> Prop) lo hi s :
    P lo s ->
    (forall j s, lo <= j < hi -> P j s ->
       body j s <> KOob /\ forall s', body j s = KOk s' -> P (j + 1) s') ->
    kfor lo hi body s <> KOob /\
    forall s', kfor lo hi body s = KOk s' -> lo <= hi -> P hi s'.
  Proof.
    intros H0 Hstep. unfold kfor.
    destruct (kfor_nat_noob P (Z.to_nat (hi - lo)) lo s H0) as (N & P').
    - intros j s0 Hj. apply Hstep. lia.
    - split; auto. intros s' E Hle. specialize (P' s' E).
      assert (Q : lo + Z.of_nat (Z.to_nat (hi - lo)) = hi) by lia. now rewrite Q in P'.
  Qed.

  Lemma kfor_empty lo hi s : hi <= lo -> kfor lo hi body s = KOk s.
  Proof. intros H. unfold kfor. replace (Z.to_nat (hi - lo)) with O by lia. reflexivity. Qed.
End KFor.

Lemma kfor_nat_ext {S} (b1 b2 : Z -> S -> kres S) n i s :
  (forall j s, i <= j < i + Z.of_nat n -> b1 j s = b2 j s) -> kfor_nat n i b1 s = kfor_nat n i b2 s.
Proof.
  revert i s; induction n; intros i s H; cbn [kfor_nat]; auto.
  rewrite H by lia. destruct (b2 i s); cbn [kbind]; auto. apply IHn. intros; apply H; lia.
Qed.
Lemma kfor_ext {S} (b1 b2 : Z -> S -> kres S) lo hi s :
  (forall j s, lo <= j < hi -> b1 j s = b2 j s) -> kfor lo hi b1 s = kfor lo hi b2 s.
Proof. intros H. unfold kfor. apply kfor_nat_ext. intros; apply H; lia. Qed.

(** * kfill *)
(** the result of filling cells [off, off+n) of [out] with [g 0 .. g (n-1)] *)
Definition filled (off n : Z) (g : Z -> Z) (out : list Z) : list Z :=
  firstn (Z.to_nat off) out ++ map g (iota n) ++ skipn (Z.to_nat (off + n)) out.

Lemma filled_0 off g out : 0 <= off -> filled off 0 g out = out.
Proof.
  intros H. unfold filled. rewrite iota_0. cbn [map app]. rewrite Z.add_0_r. apply firstn_skipn.
Qed.

Lemma filled_step off j g out :
  0 <= off -> 0 <= j -> off + j < zlen out ->
  set_nth (filled off j g out) (Z.to_nat (off + j)) (g j) = filled off (j + 1) g out.
Proof.
  intros Hoff Hj Hlt. unfold filled.
  assert (L1 : length (firstn (Z.to_nat off) out) = Z.to_nat off).
  { apply firstn_length_le. unfold zlen in Hlt. lia. }
  rewrite set_nth_app_r by (rewrite L1; lia).
  rewrite set_nth_app_r by (rewrite map_length, iota_length, L1; lia).
  rewrite map_length, iota_length, L1.
  replace (Z.to_nat (off + j) - Z.to_nat off - Z.to_nat j)%nat with O by lia.
  rewrite set_nth_skipn_0 by (unfold zlen in Hlt; lia).
  rewrite iota_snoc by lia. rewrite map_app. cbn [map]. rewrite <- !app_assoc. cbn [app].
  do 3 f_equal. f_equal. lia.
Qed.

Lemma zlen_filled off n g out : 0 <= off -> 0 <= n -> off + n <= zlen out -> zlen (filled off n g out) = zlen out.
Proof.
  intros. unfold filled. rewrite !zlen_app, zlen_map. unfold zlen in *.
  rewrite iota_length, firstn_length, skipn_length. lia.
Qed.

(** k_spec of every kfill-shaped kernel *)
Lemma kfill_spec off n f g out :
  0 <= off -> off + n <= zlen out ->
  (forall i, 0 <= i < n -> f i = KOk (g i)) ->
  kfill off n f out = KOk (filled off (Z.max 0 n) g out).
Proof.
  intros Hoff Hlen Hf. unfold kfill.
  destruct (Z_le_gt_dec n 0) as [Hn|Hn].
  - rewrite kfor_empty by lia. rewrite Z.max_l by lia. now rewrite filled_0.
  - rewrite Z.max_r by lia.
    destruct (kfor_inv (fun i out0 => let* v := f i in kupd out0 (off + i) v)
                (fun j o => o = filled off j g out) 0 n out) as (s' & E & P); try lia.
    + now rewrite filled_0.
    + intros j s Hj ->. rewrite (Hf j Hj). cbn [kbind].
      rewrite kupd_ok by (rewrite zlen_filled; lia).
      eexists; split; eauto. apply filled_step; lia.
    + now rewrite E, P.
Qed.

(** k_safe of every kfill-shaped kernel (f may report errors) *)
Lemma kfill_safe off n f out :
  0 <= off -> off + n <= zlen out ->
  (forall i, 0 <= i < n -> f i <> KOob) ->
  kfill off n f out <> KOob.
Proof.
  intros Hoff Hlen Hf. unfold kfill.
  apply (kfor_noob _ (fun _ o => zlen o = zlen out) 0 n out); auto.
  intros j s Hj Hs. specialize (Hf j Hj).
  destruct (f j) as [v| |]; cbn [kbind]; try congruence.
  - split.
    + intros C. apply kupd_oob in C. lia.
    + intros s' E. apply kupd_zlen in E. lia.
  - split; congruence.
Qed.

(** a failing cell makes the whole loop fail with the first error *)
Lemma kfill_ok_inv off n f out out' :
  kfill off n f out = KOk out' -> forall i, 0 <= i < n -> exists v, f i = KOk v.
Proof.
  assert (G : forall m i0 o o', kfor_nat m i0 (fun i out0 => let* v := f i in kupd out0 (off + i) v) o = KOk o' ->
                 forall i, i0 <= i < i0 + Z.of_nat m -> exists v, f i = KOk v).
  { induction m; intros i0 o o' E i Hi; [lia|].
    cbn [kfor_nat] in E. apply kbind_ok in E. destruct E as (o1 & E1 & E2).
    apply kbind_ok in E1. destruct E1 as (v & Ev & _).
    destruct (Z.eq_dec i i0) as [->|]; eauto. eapply IHm; eauto. lia. }
  intros E i Hi. unfold kfill, kfor in E. eapply G; eauto. lia.
Qed.

(** * kchecks *)
Lemma kchecks_ok n check :
  (forall i, 0 <= i < n -> check i = KOk tt) -> kchecks n check = KOk tt.
Proof.
  intros H. unfold kchecks. destruct (Z_le_gt_dec n 0).
  - now rewrite kfor_empty by lia.
  - destruct (kfor_inv (fun i (_ : unit) => check i) (fun _ _ => True) 0 n tt) as ([] & E & _); auto; try lia.
    intros j [] Hj _. exists tt. auto.
Qed.
Lemma kchecks_ok_inv n check :
  kchecks n check = KOk tt -> forall i, 0 <= i < n -> check i = KOk tt.
Proof.
  unfold kchecks, kfor.
  assert (G : forall m i0, kfor_nat m i0 (fun i (_ : unit) => check i) tt = KOk tt ->
                 forall i, i0 <= i < i0 + Z.of_nat m -> check i = KOk tt).
  { induction m; intros i0 E i Hi; [lia|].
    cbn [kfor_nat] in E. apply kbind_ok in E. destruct E as ([] & E1 & E2).
    destruct (Z.eq_dec i i0) as [->|]; auto. apply (IHm (i0 + 1)); auto. lia. }
  intros E i Hi. apply (G _ 0 E). lia.
Qed.
Lemma kchecks_safe n check :
  (forall i, 0 <= i < n -> check i <> KOob) -> kchecks n check <> KOob.
Proof.
  intros H. unfold kchecks.
  apply (kfor_noob _ (fun _ _ => True) 0 n tt); auto.
Qed.

Lemma kcheck_ok b m : kcheck b m = KOk tt <-> b = false.
Proof. unfold kcheck. destruct b; split; congruence. Qed.
Lemma kcheck_noob b m : kcheck b m <> KOob.
Proof. unfold kcheck. destruct b; congruence. Qed.
