(** C11 property theorems (statements only; proofs are in Proofs_C11.v). *)
From AwkV Require Import Layout Valid Proofs_C11.

(* The model of validityerror (checks in the C++ order) accepts exactly the layouts
   satisfying the declarative documented rules. *)
Theorem validity_exact : forall c, valid_b c = true <-> Valid None c.
Proof. exact (fun c => validity_exact_gen c None). Qed.
Print Assumptions validity_exact.
