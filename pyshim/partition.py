# awkward._ext.PartitionedArray / IrregularlyPartitionedArray substitutes (by value).
import operator

from pyshim import core
from pyshim import content as C
from pyshim.core import hx, e_int, e_optint, e_bool, e_str, e_ints, d_int, d_str
from pyshim.nodes import FILENAME_SUFFIX


class PartitionedArray(object):
    pass


class IrregularlyPartitionedArray(PartitionedArray):
    def __init__(self, partitions, stops=None):
        parts = [C._content_arg(p) for p in partitions]
        if stops is None:
            total = 0
            stops = []
            for p in parts:
                total += len(p)
                stops.append(total)
        else:
            stops = [operator.index(s) for s in stops]
        self._partitions = parts
        self._stops = stops
        # constructor checks are C++'s
        core.request("part len " + self._sx(True))

    @classmethod
    def _wrap(cls, partitions, stops):
        self = cls.__new__(cls)
        self._partitions = partitions
        self._stops = stops
        return self

    def _sx(self, skel=False):
        return "(part %s%s)" % (e_ints(self._stops), "".join(" " + p._sx(skel) for p in self._partitions))

    @staticmethod
    def _rd(t):
        return IrregularlyPartitionedArray._wrap([C.fromsx(x) for x in t[2:]], [int(s) for s in t[1]])

    def _req(self, method, *args):
        body = "part " + method + " " + self._sx(False)
        if args:
            body += " " + " ".join(args)
        return core.request(body)

    stops = property(lambda self: list(self._stops))
    partitions = property(lambda self: list(self._partitions))
    numpartitions = property(lambda self: len(self._partitions))

    def partition(self, partitionid):
        i = operator.index(partitionid)
        if not (0 <= i < len(self._partitions)):
            raise ValueError("partitionid out of range for PartitionedArray" + FILENAME_SUFFIX)
        return self._partitions[i]

    def start(self, partitionid):
        return d_int(core.request("part start " + self._sx(True) + " " + e_int(partitionid)))

    def stop(self, partitionid):
        return d_int(core.request("part stop " + self._sx(True) + " " + e_int(partitionid)))

    def partitionid_index_at(self, at):
        t = core.request("part partitionid_index_at " + self._sx(True) + " " + e_int(at))
        return (int(t[0]), int(t[1]))

    def repartition(self, stops):
        return self._rd(self._req("repartition", e_ints(stops)))

    def __len__(self):
        return d_int(core.request("part len " + self._sx(True)))

    def __repr__(self):
        return d_str(self._req("tostring"))

    def tojson(self, *args, **kwargs):
        tofile = ("destination" in kwargs) or (len(args) > 0 and isinstance(args[0], str))
        names = ["destination", "pretty", "maxdecimals", "buffersize"] if tofile else ["pretty", "maxdecimals"]
        opts = dict(zip(names, args))
        opts.update(kwargs)
        md = opts.get("maxdecimals")
        md = "-1" if md is None else e_int(md)
        out = d_str(self._req("tojson", e_bool(opts.get("pretty", False)), md))
        if tofile:
            with open(opts["destination"], "wb") as f:
                f.write(out.encode("utf-8", "surrogateescape"))
            return None
        return out

    def getitem_at(self, at):
        return C.fromsx(self._req("getitem_at", e_int(at)))

    def getitem_range(self, start, stop, step):
        return self._rd(self._req("getitem_range", e_optint(start), e_optint(stop), e_optint(step)))

    def copy_to(self, ptr_lib):
        return self._rd(self._req("copy_to", e_str(ptr_lib)))
