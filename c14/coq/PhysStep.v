(** C14 — [step_sub]: what one builder method may do to the GrowableBuffers of the tree (all builder classes, all
    commands, all options). *)
From Coq Require Import ZArith List Bool Lia.
From AwkV Require Import Base Layout.
From AwkBuilder Require Import Builder GbLemmas Invariant Phys.
Import ListNotations.
Open Scope Z_scope.

Lemma fe_refl g : fe g g.
Proof. right. apply ext_refl. Qed.

Lemma SubR_same_bufs b1 b2 x : bufs b1 = bufs b2 -> SubR b1 x -> SubR b2 x.
Proof. intros E S. destruct x; cbn [SubR] in *; rewrite <- E; exact S. Qed.

Lemma at_nth_some {A B} (f : A -> B) l : forall i r, at_nth f l i = Some r -> exists x, nth_error l i = Some x /\ r = f x.
Proof.
  induction l as [|a t IH]; intros [|i] r H; cbn in *; try discriminate.
  - inversion H. eauto.
  - apply IH. exact H.
Qed.

Lemma Sub_flat_upd cs : forall i x y,
  nth_error cs i = Some x -> Sub (bufs y) (bufs x) -> Sub (flat_map bufs (upd_nth cs i y)) (flat_map bufs cs).
Proof.
  induction cs as [|a t IH]; intros [|i] x y H S; cbn in H; try discriminate.
  - inversion H; subst. cbn [upd_nth flat_map]. apply Sub_app; [exact S|apply Sub_refl].
  - cbn [upd_nth flat_map]. apply Sub_app; [apply Sub_refl|]. eapply IH; eauto.
Qed.

Lemma Sub_flat_snoc cs nb : Forall fresh (bufs nb) -> Sub (flat_map bufs (cs ++ [nb])) (flat_map bufs cs).
Proof.
  intro F. rewrite flat_map_app. cbn [flat_map]. rewrite app_nil_r. apply Sub_app_fresh; [exact F|apply Sub_refl].
Qed.

Lemma flat_unknowns cs n : flat_map bufs (cs ++ repeat (BUnknown 0) n) = flat_map bufs cs.
Proof. rewrite flat_map_app. induction n; cbn in *; [apply app_nil_r|exact IHn]. Qed.

Lemma nth_z_error {A} (l : list A) i x : nth_z l i = Some x -> nth_error l (Z.to_nat i) = Some x.
Proof. unfold nth_z. destruct (i <? 0); [discriminate|auto]. Qed.

Lemma nth_error_app_l {A} (l m : list A) i x : nth_error l i = Some x -> nth_error (l ++ m) i = Some x.
Proof. intro H. rewrite nth_error_app1; [exact H|]. apply nth_error_Some. congruence. Qed.

Section WithOpts.
Variable o : opts.

(* a child reached through contents_[i], with the parent rebuilt by [k] around the updated vector *)
Lemma child_sub (f : builder -> sres) cs i r (k : list builder -> builder) b :
  at_nth f cs i = Some r -> Forall (fun x => SubR x (f x)) cs ->
  (forall cs', Sub (flat_map bufs cs') (flat_map bufs cs) -> Sub (bufs (k cs')) (bufs b)) ->
  SubR b (mu r (fun y => k (upd_nth cs i y))) /\ SubR b (dr r (fun y => k (upd_nth cs i y))).
Proof.
  intros H F K. apply at_nth_some in H. destruct H as (x & Hx & ->).
  rewrite Forall_forall in F. pose proof (F x (nth_error_In _ _ Hx)) as S.
  split; [eapply SubR_mu|eapply SubR_dr]; try exact S; intros y Sy; apply K; eapply Sub_flat_upd; eauto.
Qed.

Lemma fill_loop_sub (f : builder -> sres) len cs :
  Forall (fun x => SubR x (f x)) cs ->
  Sub (flat_map bufs (fst (fill_loop f len cs))) (flat_map bufs cs).
Proof.
  induction 1 as [|c t Hc _ IH]; [apply Sub_refl|]. cbn [fill_loop].
  assert (forall c1 (e : option err), (if blen c =? len
            then match f c with SOk c' ret => (pick c' ret, None) | SErr e c' => (c', Some e) end
            else (c, None)) = (c1, e) -> Sub (bufs c1) (bufs c)) as G.
  { intros c1 e. destruct (blen c =? len).
    - destruct (f c); cbn [SubR] in Hc; intro E; inversion E; subst; tauto.
    - intro E; inversion E; subst. apply Sub_refl. }
  destruct (if blen c =? len then _ else _) as [c1 [e|]] eqn:E.
  - cbn [fst flat_map]. apply Sub_app; [eapply G; eauto|apply Sub_refl].
  - destruct (negb (blen c1 =? len + 1)).
    + cbn [fst flat_map]. apply Sub_app; [eapply G; eauto|apply Sub_refl].
    + destruct (fill_loop f len t) as [t' e']. cbn [fst flat_map] in *. apply Sub_app; [eapply G; eauto|exact IH].
Qed.

Ltac ok2 := cbn [SubR pick]; split.

Theorem step_sub b : forall c, SubR b (step o b c).
Proof.
  induction b using builder_ind'; intro c.
  - (* Unknown *)
    cbn [step]. destruct (kind_of c); try apply SubR_err; try apply unknown_start_sub.
    ok2; apply Sub_nil.
  - (* Bool *)
    destruct c; cbn [step kind_of]; try apply SubR_err; try apply option_null_sub; try apply union_wrap_sub.
    apply SubR_withgb; [apply Sub_refl|]. intros g' E. ok2; cbn [bufs]; apply Sub_cons; try apply Sub_nil; apply (gb_append_fe _ _ _ _ E).
  - (* Int *)
    destruct c; cbn [step kind_of]; try apply SubR_err; try apply option_null_sub; try apply union_wrap_sub.
    + apply SubR_withgb; [apply Sub_refl|]. intros g' E. ok2; cbn [bufs]; apply Sub_cons; try apply Sub_nil; apply (gb_append_fe _ _ _ _ E).
    + apply SubR_withgb; [apply Sub_refl|]. intros gf E. apply SubR_withgb; [apply Sub_refl|]. intros gf' E'.
      ok2; [apply Sub_refl|]. cbn [bufs]. apply Sub_fresh; [|apply Sub_nil].
      apply (gb_append_fe _ _ _ _ E'). eapply gb_convert_fresh; eauto.
  - (* Float *)
    destruct c; cbn [step kind_of]; try apply SubR_err; try apply option_null_sub; try apply union_wrap_sub.
    + apply SubR_withgb; [apply Sub_refl|]. intros g' E. ok2; cbn [bufs]; apply Sub_cons; try apply Sub_nil; apply (gb_append_fe _ _ _ _ E).
    + apply SubR_withgb; [apply Sub_refl|]. intros g' E. ok2; cbn [bufs]; apply Sub_cons; try apply Sub_nil; apply (gb_append_fe _ _ _ _ E).
  - (* String *)
    destruct c; cbn [step kind_of]; try apply SubR_err; try apply option_null_sub; try apply union_wrap_sub.
    destruct (Bool.eqb e isstr); [|apply union_wrap_sub].
    apply SubR_withb; [apply Sub_refl|]. intros b' E. apply string_after_fe in E.
    destruct E as (o' & c' & -> & F1 & F2 & _). ok2; cbn [bufs]; (apply Sub_cons; [exact F1|apply Sub_cons; [exact F2|apply Sub_nil]]).
  - (* Option *)
    specialize (IHb c). cbn [step].
    assert (forall i' y, fe idx i' -> Sub (bufs y) (bufs b) -> Sub (bufs (BOption i' y)) (bufs (BOption idx b))) as K.
    { intros i' y F S. cbn [bufs]. apply Sub_cons; auto. }
    destruct (active b); cbn [negb].
    + destruct (kind_of c); try (eapply SubR_dr; [exact IHb|intros; apply K; [apply fe_refl|assumption]]).
      destruct (step o b c) as [ct' ret|e ct']; cbn [SubR] in IHb.
      * destruct IHb as [S1 S2]. destruct (blen ct' =? blen b).
        -- ok2; apply K; auto using fe_refl.
        -- apply SubR_withgb; [apply K; auto using fe_refl|]. intros i' E. ok2; apply K; auto; apply (gb_append_fe _ _ _ _ E).
      * apply K; auto using fe_refl.
    + destruct (kind_of c); try apply SubR_err.
      * apply SubR_withgb; [apply Sub_refl|]. intros i' E. ok2; apply K; try apply Sub_refl; apply (gb_append_fe _ _ _ _ E).
      * destruct (step o b c) as [ct' ret|e ct']; cbn [SubR] in IHb.
        -- destruct IHb as [S1 S2]. apply SubR_withgb; [apply K; auto using fe_refl|]. intros i' E.
           ok2; apply K; auto; apply (gb_append_fe _ _ _ _ E).
        -- apply K; auto using fe_refl.
      * eapply SubR_mu; [exact IHb|intros; apply K; [apply fe_refl|assumption]].
  - (* List *)
    specialize (IHb c). cbn [step].
    assert (forall a' y bg, fe offs a' -> Sub (bufs y) (bufs b) -> Sub (bufs (BList a' y bg)) (bufs (BList offs b begun))) as K.
    { intros a' y bg F S. cbn [bufs]. apply Sub_cons; auto. }
    destruct begun; cbn [negb].
    + destruct c; try (eapply SubR_mu; [exact IHb|intros; apply K; [apply fe_refl|assumption]]);
        try (eapply SubR_dr; [exact IHb|intros; apply K; [apply fe_refl|assumption]]).
      destruct (active b); cbn [negb]; [eapply SubR_mu; [exact IHb|intros; apply K; [apply fe_refl|assumption]]|].
      apply SubR_withgb; [apply Sub_refl|]. intros a' E. ok2; apply K; try apply Sub_refl; apply (gb_append_fe _ _ _ _ E).
    + destruct c; cbn [kind_of]; try apply SubR_err; try apply option_null_sub; try apply union_wrap_sub.
      ok2; apply K; try apply Sub_refl; apply fe_refl.
  - (* Record *)
    assert (Forall (fun x => SubR x (step o x c)) cs) as F by (eapply Forall_impl; [|exact H]; intros x Hx; apply Hx).
    assert (Forall (fun x => SubR x (step o x CNull)) cs) as FN by (eapply Forall_impl; [|exact H]; intros x Hx; apply Hx).
    pose (b := BRecord cs keys rn nullp len begun ni ntt).
    assert (forall r, at_nth (fun x => step o x c) cs (Z.to_nat ni) = Some r ->
              forall k', (forall cs', bufs (k' cs') = flat_map bufs cs') ->
              SubR b (mu r (fun y => k' (upd_nth cs (Z.to_nat ni) y))) /\ SubR b (dr r (fun y => k' (upd_nth cs (Z.to_nat ni) y)))) as CH.
    { intros r Hr k' Hk. eapply child_sub; eauto. intros cs' S. rewrite Hk. exact S. }
    assert (forall (site : sres -> (builder -> builder) -> sres) (always : bool),
              (site = mu \/ site = dr) ->
              SubR b (match nth_z cs ni, at_nth (fun x => step o x c) cs (Z.to_nat ni) with
                      | Some x, Some r => if always || active x
                                          then dr r (fun x0 => BRecord (upd_nth cs (Z.to_nat ni) x0) keys rn nullp len begun ni ntt)
                                          else site r (fun x0 => BRecord (upd_nth cs (Z.to_nat ni) x0) keys rn nullp len begun ni ntt)
                      | _, _ => SErr EOob b
                      end)) as CHILD.
    { intros site always Hs. destruct (nth_z cs ni); [|apply SubR_err].
      destruct (at_nth (fun x => step o x c) cs (Z.to_nat ni)) as [r|] eqn:Er; [|apply SubR_err].
      destruct (CH r eq_refl (fun cs' => BRecord cs' keys rn nullp len begun ni ntt) (fun _ => eq_refl)) as [M D].
      destruct (always || active b0); [exact D|]. destruct Hs as [-> | ->]; assumption. }
    destruct c; cbn [step]; fold b;
      try (destruct (negb begun); [first [apply SubR_err|apply option_null_sub|apply union_wrap_sub]|];
           destruct (ni =? -1); [apply SubR_err|]; apply CHILD; auto).
    + (* beginrecord *)
      destruct (if len =? -1 then _ else _) as [[len1 rn1] nullp1].
      destruct (negb begun && _); [ok2; apply Sub_refl|].
      destruct (negb begun); [eapply SubR_same_bufs; [|apply union_wrap_sub]; reflexivity|].
      destruct (ni =? -1); [apply Sub_refl|].
      destruct (nth_z cs ni); [|apply Sub_refl].
      destruct (at_nth (fun x => step o x (CBeginRecord nm)) cs (Z.to_nat ni)) as [r|] eqn:Er; [|apply Sub_refl].
      destruct (CH r eq_refl (fun cs' => BRecord cs' keys rn1 nullp1 len1 begun ni ntt) (fun _ => eq_refl)) as [M D].
      destruct (active b0); assumption.
    + (* field *)
      destruct (negb begun); [apply SubR_err|].
      destruct (if ni =? -1 then _ else _) as [[|]|]; [|apply CHILD; auto|apply SubR_err].
      destruct (rr_find k keys ntt); [ok2; apply Sub_refl|].
      apply SubR_withb; [apply Sub_refl|]. intros nb En.
      assert (Forall fresh (bufs nb)) as Fn.
      { destruct (len =? 0); [inversion En; constructor|].
        destruct (gb_full o (-1) len) as [g|] eqn:Eg; [|discriminate]. cbn [bind] in En. inversion En; subst. cbn [bufs].
        constructor; [eapply gb_full_fresh; eauto|constructor]. }
      ok2; cbn [bufs]; now apply Sub_flat_snoc.
    + (* endrecord *)
      destruct (negb begun); [apply SubR_err|].
      destruct (if ni =? -1 then _ else _) as [[|]|]; [|apply CHILD; auto|apply SubR_err].
      pose proof (fill_loop_sub (fun x => step o x CNull) len cs FN) as S.
      destruct (fill_loop (fun x => step o x CNull) len cs) as [cs' [e|]]; cbn [fst] in S; [exact S|ok2; exact S].
  - (* Tuple *)
    assert (Forall (fun x => SubR x (step o x c)) cs) as F by (eapply Forall_impl; [|exact H]; intros x Hx; apply Hx).
    assert (Forall (fun x => SubR x (step o x CNull)) cs) as FN by (eapply Forall_impl; [|exact H]; intros x Hx; apply Hx).
    pose (b := BTuple cs len begun ni).
    assert (forall r, at_nth (fun x => step o x c) cs (Z.to_nat ni) = Some r ->
              forall k', (forall cs', bufs (k' cs') = flat_map bufs cs') ->
              SubR b (mu r (fun y => k' (upd_nth cs (Z.to_nat ni) y))) /\ SubR b (dr r (fun y => k' (upd_nth cs (Z.to_nat ni) y)))) as CH.
    { intros r Hr k' Hk. eapply child_sub; eauto. intros cs' S. rewrite Hk. exact S. }
    assert (forall (site : sres -> (builder -> builder) -> sres) (always : bool),
              (site = mu \/ site = dr) ->
              SubR b (match nth_z cs ni, at_nth (fun x => step o x c) cs (Z.to_nat ni) with
                      | Some x, Some r => if always || active x
                                          then dr r (fun x0 => BTuple (upd_nth cs (Z.to_nat ni) x0) len begun ni)
                                          else site r (fun x0 => BTuple (upd_nth cs (Z.to_nat ni) x0) len begun ni)
                      | _, _ => SErr EOob b
                      end)) as CHILD.
    { intros site always Hs. destruct (nth_z cs ni); [|apply SubR_err].
      destruct (at_nth (fun x => step o x c) cs (Z.to_nat ni)) as [r|] eqn:Er; [|apply SubR_err].
      destruct (CH r eq_refl (fun cs' => BTuple cs' len begun ni) (fun _ => eq_refl)) as [M D].
      destruct (always || active b0); [exact D|]. destruct Hs as [-> | ->]; assumption. }
    destruct c; cbn [step]; fold b;
      try (destruct (negb begun); [first [apply SubR_err|apply option_null_sub|apply union_wrap_sub]|];
           destruct (ni =? -1); [apply SubR_err|]; apply CHILD; auto).
    + (* begintuple *)
      destruct (n <? 0); [apply SubR_err|].
      destruct (if len =? -1 then _ else _) as [cs1 len1] eqn:E1.
      assert (flat_map bufs cs1 = flat_map bufs cs /\ (forall i x, nth_error cs i = Some x -> nth_error cs1 i = Some x)) as [EB EN].
      { destruct (len =? -1); inversion E1; subst; [split; [apply flat_unknowns|intros; now apply nth_error_app_l]|auto]. }
      destruct (negb begun && _); [ok2; unfold b; cbn [bufs]; rewrite EB; apply Sub_refl|].
      destruct (negb begun); [eapply SubR_same_bufs; [|apply union_wrap_sub]; unfold b; cbn [bufs]; exact EB|].
      destruct (ni =? -1); [unfold b; cbn [SubR bufs]; rewrite EB; apply Sub_refl|].
      destruct (nth_z cs1 ni); [|unfold b; cbn [SubR bufs]; rewrite EB; apply Sub_refl].
      destruct (at_nth (fun x => step o x (CBeginTuple n)) cs (Z.to_nat ni)) as [r|] eqn:Er; [|unfold b; cbn [SubR bufs]; rewrite EB; apply Sub_refl].
      apply at_nth_some in Er. destruct Er as (x & Hx & ->).
      rewrite Forall_forall in F. pose proof (F x (nth_error_In _ _ Hx)) as S.
      assert (forall y, Sub (bufs y) (bufs x) -> Sub (bufs (BTuple (upd_nth cs1 (Z.to_nat ni) y) len1 begun ni)) (bufs b)) as K.
      { intros y Sy. unfold b. cbn [bufs]. rewrite <- EB. eapply Sub_flat_upd; eauto. }
      destruct (active b0); [eapply SubR_dr|eapply SubR_mu]; eauto.
    + (* index *)
      destruct (negb begun); [apply SubR_err|].
      destruct (if ni =? -1 then _ else _) as [[|]|]; [|apply CHILD; auto|apply SubR_err].
      destruct ((i <? 0) || _); [apply SubR_err|ok2; apply Sub_refl].
    + (* endtuple *)
      destruct (negb begun); [apply SubR_err|].
      destruct (if ni =? -1 then _ else _) as [[|]|]; [|apply CHILD; auto|apply SubR_err].
      pose proof (fill_loop_sub (fun x => step o x CNull) len cs FN) as S.
      destruct (fill_loop (fun x => step o x CNull) len cs) as [cs' [e|]]; cbn [fst] in S; [exact S|ok2; exact S].
  - (* Union *)
    assert (Forall (fun x => SubR x (step o x c)) cs) as F by (eapply Forall_impl; [|exact H]; intros x Hx; apply Hx).
    pose (b := BUnion tags idx cs cur).
    assert (forall t' i' cs' cur', fe tags t' -> fe idx i' -> Sub (flat_map bufs cs') (flat_map bufs cs) ->
              Sub (bufs (BUnion t' i' cs' cur')) (bufs b)) as K.
    { intros t' i' cs' cur' Ft Fi S. cbn [bufs]. apply Sub_cons; [exact Ft|]. apply Sub_cons; [exact Fi|exact S]. }
    cbn [step]; fold b.
    destruct (negb (cur =? -1)).
    + (* active: forward to contents_[current_] *)
      destruct (nth_z cs cur); [|apply SubR_err].
      destruct (at_nth (fun x => step o x c) cs (Z.to_nat cur)) as [r|] eqn:Er; [|apply SubR_err].
      destruct (child_sub (fun x => step o x c) cs (Z.to_nat cur) r (fun cs' => BUnion tags idx cs' cur) b Er F
                  (fun cs' S => K tags idx cs' cur (fe_refl _) (fe_refl _) S)) as [M D].
      destruct (kind_of c); try exact D.
      apply at_nth_some in Er. destruct Er as (x & Hx & ->).
      rewrite Forall_forall in F. pose proof (F x (nth_error_In _ _ Hx)) as S.
      destruct (step o x c) as [x' ret|e x']; cbn [SubR] in S.
      * destruct S as [S1 _].
        assert (Sub (flat_map bufs (upd_nth cs (Z.to_nat cur) x')) (flat_map bufs cs)) as SU by (eapply Sub_flat_upd; eauto).
        destruct (blen x' =? blen b0); [ok2; apply K; auto using fe_refl|].
        apply SubR_withgb; [apply K; auto using fe_refl|]. intros t' Et.
        apply SubR_withgb; [apply K; auto using fe_refl; apply (gb_append_fe _ _ _ _ Et)|]. intros i' Ei.
        ok2; apply K; auto; first [apply (gb_append_fe _ _ _ _ Et)|apply (gb_append_fe _ _ _ _ Ei)].
      * apply K; auto using fe_refl. eapply Sub_flat_upd; eauto.
    + destruct (kind_of c) eqn:Ek; try apply SubR_err; try apply option_null_sub.
      * (* atom *)
        assert (forall i len0 cs', Sub (flat_map bufs cs') (flat_map bufs cs) ->
                  SubR b (withgb (gb_append o tags (Z.of_nat i)) (BUnion tags idx cs' cur) (fun tags' =>
                          withgb (gb_append o idx len0) (BUnion tags' idx cs' cur) (fun idx' =>
                          SOk (BUnion tags' idx' cs' cur) None)))) as AFTER.
        { intros i len0 cs' S. apply SubR_withgb; [apply K; auto using fe_refl|]. intros t' Et.
          apply SubR_withgb; [apply K; auto using fe_refl; apply (gb_append_fe _ _ _ _ Et)|]. intros i' Ei.
          ok2; apply K; auto; first [apply (gb_append_fe _ _ _ _ Et)|apply (gb_append_fe _ _ _ _ Ei)]. }
        destruct (find_app (fun x => step o x c) (takes c) cs 0) as [[[i x] r]|] eqn:Ef.
        -- apply find_app_spec in Ef. destruct Ef as (pre & post & Ecs & -> & T & ->).
           assert (nth_error cs (0 + length pre) = Some x) as Hx by (subst cs; cbn; rewrite nth_error_app2, Nat.sub_diag by lia; reflexivity).
           rewrite Forall_forall in F. pose proof (F x (nth_error_In _ _ Hx)) as S.
           destruct (step o x c) as [x' ret|e x']; cbn [SubR] in S.
           ++ apply AFTER. eapply Sub_flat_upd; [exact Hx|tauto].
           ++ apply K; auto using fe_refl. eapply Sub_flat_upd; eauto.
        -- assert (SubR b (withb (fresh_after o c) b (fun nb =>
                     withgb (gb_append o tags (Z.of_nat (length cs))) (BUnion tags idx (cs ++ [nb]) cur) (fun tags' =>
                     withgb (gb_append o idx 0) (BUnion tags' idx (cs ++ [nb]) cur) (fun idx' =>
                     SOk (BUnion tags' idx' (cs ++ [nb]) cur) None))))) as FRESH.
           { apply SubR_withb; [apply Sub_refl|]. intros nb En. apply AFTER. apply Sub_flat_snoc. eapply fresh_after_fresh; eauto. }
           destruct c; try discriminate Ek; try exact FRESH.
           destruct (find_app (fun x => x) is_int cs 0) as [[[i x] r]|] eqn:Eg; [|exact FRESH].
           apply find_app_spec in Eg. destruct Eg as (pre & post & Ecs & -> & T & ->).
           destruct x; try discriminate T.
           assert (nth_error cs (0 + length pre) = Some (BInt buf)) as Hx by (subst cs; cbn; rewrite nth_error_app2, Nat.sub_diag by lia; reflexivity).
           apply SubR_withgb; [apply Sub_refl|]. intros gf Egf. apply gb_convert_fresh in Egf.
           assert (forall g', fresh g' -> Sub (flat_map bufs (upd_nth cs (0 + length pre) (BFloat g'))) (flat_map bufs cs)) as SF.
           { intros g' Fg. eapply Sub_flat_upd; [exact Hx|]. cbn [bufs]. apply Sub_fresh; [exact Fg|apply Sub_nil]. }
           apply SubR_withgb; [apply K; auto using fe_refl|]. intros gf' Egf'.
           apply AFTER. apply SF. apply (gb_append_fe _ _ _ _ Egf'). exact Egf.
      * (* begin *)
        destruct (find_app (fun x => step o x c) (takes c) cs 0) as [[[i x] r]|] eqn:Ef.
        -- apply find_app_spec in Ef. destruct Ef as (pre & post & Ecs & -> & T & ->).
           assert (nth_error cs (0 + length pre) = Some x) as Hx by (subst cs; cbn; rewrite nth_error_app2, Nat.sub_diag by lia; reflexivity).
           rewrite Forall_forall in F. pose proof (F x (nth_error_In _ _ Hx)) as S.
           destruct (step o x c) as [x' ret|e x']; cbn [SubR] in S.
           ++ ok2; apply K; auto using fe_refl; (eapply Sub_flat_upd; [exact Hx|tauto]).
           ++ apply K; auto using fe_refl. eapply Sub_flat_upd; eauto.
        -- assert (SubR b (withb (fresh_after o c) b (fun nb => SOk (BUnion tags idx (cs ++ [nb]) (Z.of_nat (length cs))) None))) as FRESH.
           { apply SubR_withb; [apply Sub_refl|]. intros nb En. ok2; apply K; auto using fe_refl; apply Sub_flat_snoc; eapply fresh_after_fresh; eauto. }
           destruct c; try discriminate Ek; try exact FRESH.
           destruct (n <? 0); [|exact FRESH]. cbn [SubR]. apply K; auto using fe_refl. apply Sub_flat_snoc. constructor.
Qed.

(* ------------------------------------------------------------------ clear *)
Lemma mapMs_clear_fresh (f : builder -> res builder) cs :
  Forall (fun x => forall x', f x = Ok x' -> Forall fresh (bufs x')) cs ->
  forall cs', mapMs f cs = Ok cs' -> Forall fresh (flat_map bufs cs').
Proof.
  induction 1 as [|x t Hx _ IH]; intros cs' E; cbn [mapMs] in E.
  - inversion E. constructor.
  - destruct (f x) as [x'|] eqn:Ex; [|discriminate]. cbn [bind] in E.
    destruct (mapMs f t) as [t'|] eqn:Et; [|discriminate]. cbn [bind] in E. inversion E; subst.
    cbn [flat_map]. apply Forall_app. split; [now apply Hx|now apply IH].
Qed.

(* clear() re-allocates every buffer: nothing a snapshot holds is touched *)
Theorem clear_fresh b : forall b', clear o b = Ok b' -> Forall fresh (bufs b').
Proof.
  induction b using builder_ind'; intros b' E; cbn [clear] in E.
  - inversion E. constructor.
  - destruct (gb_clear o g) as [g'|] eqn:Eg; [|discriminate]. inversion E. cbn. constructor; [eapply gb_clear_fresh; eauto|constructor].
  - destruct (gb_clear o g) as [g'|] eqn:Eg; [|discriminate]. inversion E. cbn. constructor; [eapply gb_clear_fresh; eauto|constructor].
  - destruct (gb_clear o g) as [g'|] eqn:Eg; [|discriminate]. inversion E. cbn. constructor; [eapply gb_clear_fresh; eauto|constructor].
  - unfold offsets0 in E. destruct (gb_empty o) as [g0|] eqn:E0; [|discriminate]. cbn [bind] in E.
    destruct (gb_append o g0 0) as [g1|] eqn:E1; [|discriminate]. cbn [bind] in E.
    destruct (gb_clear o b) as [g2|] eqn:E2; [|discriminate]. cbn [bind] in E. inversion E. cbn [bufs].
    constructor; [apply (gb_append_fe _ _ _ _ E1); eapply gb_empty_fresh; eauto|constructor; [eapply gb_clear_fresh; eauto|constructor]].
  - destruct (gb_clear o idx) as [g'|] eqn:Eg; [|discriminate]. cbn [bind] in E.
    destruct (clear o b) as [c'|] eqn:Ec; [|discriminate]. cbn [bind] in E. inversion E. cbn [bufs].
    constructor; [eapply gb_clear_fresh; eauto|now apply IHb].
  - unfold offsets0 in E. destruct (gb_empty o) as [g0|] eqn:E0; [|discriminate]. cbn [bind] in E.
    destruct (gb_append o g0 0) as [g1|] eqn:E1; [|discriminate]. cbn [bind] in E.
    destruct (clear o b) as [c'|] eqn:Ec; [|discriminate]. cbn [bind] in E. inversion E. cbn [bufs].
    constructor; [apply (gb_append_fe _ _ _ _ E1); eapply gb_empty_fresh; eauto|now apply IHb].
  - inversion E. constructor.
  - inversion E. constructor.
  - destruct (gb_clear o tags) as [t'|] eqn:Et; [|discriminate]. cbn [bind] in E.
    destruct (gb_clear o idx) as [i'|] eqn:Ei; [|discriminate]. cbn [bind] in E.
    destruct (mapMs (clear o) cs) as [cs'|] eqn:Ec; [|discriminate]. cbn [bind] in E. inversion E. cbn [bufs].
    constructor; [eapply gb_clear_fresh; eauto|constructor; [eapply gb_clear_fresh; eauto|]].
    eapply mapMs_clear_fresh; eauto.
Qed.

End WithOpts.
