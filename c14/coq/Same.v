(** C14 — logical equality of builder states: same tree, same buffer contents; capacity, the contents of unused
    cells and the allocation identities may differ.  (Definitions used by equal_states_equal_snapshots and
    growth_irrelevant.) *)
From Coq Require Import ZArith List Bool Lia.
From AwkV Require Import Base Layout.
From AwkBuilder Require Import Builder.
Import ListNotations.
Open Scope Z_scope.

Definition gb_same (g1 g2 : gb) : Prop := gb_list g1 = gb_list g2 /\ glen g1 = glen g2.
Fixpoint same (b1 b2 : builder) {struct b1} : Prop :=
  match b1, b2 with
  | BUnknown n, BUnknown m => n = m
  | BBool g, BBool h | BInt g, BInt h | BFloat g, BFloat h => gb_same g h
  | BString e a b, BString e' a' b' => e = e' /\ gb_same a a' /\ gb_same b b'
  | BOption i c, BOption i' c' => gb_same i i' /\ same c c'
  | BList a c bg, BList a' c' bg' => gb_same a a' /\ same c c' /\ bg = bg'
  | BRecord cs ks rn np len bg ni ntt, BRecord cs' ks' rn' np' len' bg' ni' ntt' =>
      (fix all (l m : list builder) : Prop :=
         match l, m with [], [] => True | x :: t, y :: u => same x y /\ all t u | _, _ => False end) cs cs' /\
      ks = ks' /\ rn = rn' /\ np = np' /\ len = len' /\ bg = bg' /\ ni = ni' /\ ntt = ntt'
  | BTuple cs len bg ni, BTuple cs' len' bg' ni' =>
      (fix all (l m : list builder) : Prop :=
         match l, m with [], [] => True | x :: t, y :: u => same x y /\ all t u | _, _ => False end) cs cs' /\
      len = len' /\ bg = bg' /\ ni = ni'
  | BUnion t i cs cur, BUnion t' i' cs' cur' =>
      gb_same t t' /\ gb_same i i' /\
      (fix all (l m : list builder) : Prop :=
         match l, m with [], [] => True | x :: t, y :: u => same x y /\ all t u | _, _ => False end) cs cs' /\
      cur = cur'
  | _, _ => False
  end.

