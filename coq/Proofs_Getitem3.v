(** Slicing, part 3: the layout-level [getitem_model] computes the value-level [getitem_spec]
    (values AND error status) for slice tuples of basic items on the fragment [gfrag]. *)
From Coq Require Import ZArith List Bool Lia ZifyBool.
From AwkV Require Import Base Layout LayoutInd Valid Types AtAxis Carry Ops_Getitem Typing Proofs_Typing
                         Proofs_Lists Proofs_ToList Proofs_Carry Proofs_CarryValid Proofs_AtAxis Proofs_AtAxisOps
                         Proofs_C01 Proofs_Getitem Proofs_Getitem2.
Import ListNotations.
Open Scope Z_scope.
Ltac Zify.zify_post_hook ::= Z.to_euclidean_division_equations.

(* ---------------------------------------------------------------- types up to the placement of options *)
(* The specification keeps track of result types without recording where an option came from (the
   values carry the [VNone]s); the model's result layouts have their option nodes.  The two agree up to
   erasure of [TOpt]. *)
Fixpoint er (t : ty) : ty :=
  match t with
  | TNum d => TNum d
  | TUnk => TUnk
  | TList sz str t' => TList sz str (er t')
  | TOpt t' => er t'
  | TRec ks ts => TRec ks (map er ts)
  | TUnion ts => TUnion (map er ts)
  end.

Lemma er_so_ty t : er (so_ty t) = er t.
Proof. induction t; cbn [so_ty er]; auto. Qed.
Lemma so_ty_nonopt t u : so_ty t <> TOpt u.
Proof. induction t; cbn [so_ty]; try discriminate. exact IHt. Qed.
Lemma er_nonopt t u : er t <> TOpt u.
Proof. induction t; cbn [er]; try discriminate. exact IHt. Qed.

(* what [so_ty T] looks like, read off a type with the same erasure *)
Lemma er_view T U :
  er T = er U ->
  match so_ty U with
  | TNum d => so_ty T = TNum d
  | TUnk => so_ty T = TUnk
  | TList sz str u => exists t, so_ty T = TList sz str t /\ er t = er u
  | TOpt _ => False
  | TRec ks us => exists ts, so_ty T = TRec ks ts /\ map er ts = map er us
  | TUnion us => exists ts, so_ty T = TUnion ts /\ map er ts = map er us
  end.
Proof.
  intros H. rewrite <- (er_so_ty T), <- (er_so_ty U) in H.
  pose proof (so_ty_nonopt T) as HT. pose proof (so_ty_nonopt U) as HU.
  destruct (so_ty U) as [d| |sz str u|u|ks us|us]; destruct (so_ty T) as [d'| |sz' str' t|t|ks' ts|ts];
    cbn [er] in H; try discriminate; try (exfalso; eapply HT; reflexivity); try (exfalso; eapply HU; reflexivity);
    try (exfalso; eapply er_nonopt; (exact H || (symmetry; exact H))).
  - inversion H. reflexivity.
  - reflexivity.
  - inversion H; subst. eauto.
  - inversion H; subst. eauto.
  - inversion H; subst. eauto.
Qed.

(* The type the specification is called with is the layout's type, possibly under more options
   (the model has already unwrapped an option node whose missing entries the specification carries along) *)
Inductive optwrap : ty -> ty -> Prop :=
| ow_refl T : optwrap T T
| ow_opt T U : optwrap T U -> optwrap (TOpt T) U.
Lemma ow_so_ty T U : optwrap T U -> so_ty T = so_ty U.
Proof. induction 1; [reflexivity|exact IHoptwrap]. Qed.
Lemma ow_er T U : optwrap T U -> er T = er U.
Proof. induction 1; [reflexivity|exact IHoptwrap]. Qed.
Lemma ow_strip T U : optwrap T (TOpt U) -> optwrap T U.
Proof.
  intros H. remember (TOpt U) as V eqn:EV. induction H as [T|T V H IH].
  - subst. apply ow_opt, ow_refl.
  - apply ow_opt, IH, EV.
Qed.
Lemma ow_minmax T U : optwrap T U -> minmax T = minmax U.
Proof. induction 1; [reflexivity|exact IHoptwrap]. Qed.

(* induction on types that sees through the field lists *)
Section TyInd.
  Variable P : ty -> Prop.
  Hypothesis HNum : forall d, P (TNum d).
  Hypothesis HUnk : P TUnk.
  Hypothesis HList : forall sz str t, P t -> P (TList sz str t).
  Hypothesis HOpt : forall t, P t -> P (TOpt t).
  Hypothesis HRec : forall ks ts, Forall P ts -> P (TRec ks ts).
  Hypothesis HUnion : forall ts, Forall P ts -> P (TUnion ts).
  Fixpoint ty_ind' (t : ty) : P t :=
    match t with
    | TNum d => HNum d
    | TUnk => HUnk
    | TList sz str t' => HList sz str t' (ty_ind' t')
    | TOpt t' => HOpt t' (ty_ind' t')
    | TRec ks ts => HRec ks ts ((fix go (l : list ty) : Forall P l :=
                                   match l with [] => Forall_nil P | x :: xs => Forall_cons x (ty_ind' x) (go xs) end) ts)
    | TUnion ts => HUnion ts ((fix go (l : list ty) : Forall P l :=
                                 match l with [] => Forall_nil P | x :: xs => Forall_cons x (ty_ind' x) (go xs) end) ts)
    end.
End TyInd.

(* the depth queries do not see options *)
Lemma minmax_er t : minmax (er t) = minmax t.
Proof.
  induction t as [d| |sz str t IH|t IH|ks ts IH|ts IH] using ty_ind'; cbn [er minmax]; auto.
  - destruct str; [reflexivity|]. rewrite IH. reflexivity.
  - assert (Hm : map minmax (map er ts) = map minmax ts).
    { rewrite map_map. apply map_ext_in. intros x Hx. rewrite Forall_forall in IH. apply IH, Hx. }
    destruct ts as [|t0 rest]; [reflexivity|]. cbn [map] in Hm |- *. inversion IH as [|? ? H0 _]; subst.
    injection Hm as Hm0 Hm1. rewrite H0, Hm1. reflexivity.
  - assert (Hm : map minmax (map er ts) = map minmax ts).
    { rewrite map_map. apply map_ext_in. intros x Hx. rewrite Forall_forall in IH. apply IH, Hx. }
    destruct ts as [|t0 rest]; [reflexivity|]. cbn [map] in Hm |- *. inversion IH as [|? ? H0 _]; subst.
    injection Hm as Hm0 Hm1. rewrite H0, Hm1. reflexivity.
Qed.
Lemma minmax_er_eq T U : er T = er U -> minmax T = minmax U.
Proof. intros H. rewrite <- (minmax_er T), H. apply minmax_er. Qed.
Lemma minmax_so_ty t : minmax (so_ty t) = minmax t.
Proof. induction t; cbn [so_ty minmax]; auto. Qed.

Definition tdepth (t : ty) : Z := snd (minmax t).
Lemma tdepth_list T sz t : so_ty T = TList sz None t -> minmax T = (fst (minmax t) + 1, snd (minmax t) + 1).
Proof. intros H. rewrite <- (minmax_so_ty T), H. cbn [minmax]. destruct (minmax t); reflexivity. Qed.
Lemma tdepth_list' T sz t : so_ty T = TList sz None t -> tdepth T = tdepth t + 1.
Proof. intros H. unfold tdepth. rewrite (tdepth_list T sz t H). reflexivity. Qed.

(* ---------------------------------------------------------------- the fragment *)
(* 1-d numeric leaves; ListOffset / ListArray / RegularArray at any depth; IndexedArray and the option
   encodings; records; parameter nodes without __array__.
   [rec_fields_ok]: a record directly under an IndexedArray / option node has no field that is itself an
   IndexedArray / option node (projecting such a field would put an option node directly under another
   one: the model does not simplify, so the projected layout would leave the valid layouts). *)
Fixpoint rec_fields_ok (c : content) : bool :=
  match c with
  | Par _ _ c' => rec_fields_ok c'
  | Record cs _ _ =>
      (fix all (l : list content) : bool :=
         match l with [] => true | f :: fs => negb (optionlike f) && rec_fields_ok f && all fs end) cs
  | _ => true
  end.
Lemma rec_fields_ok_all cs :
  (fix all (l : list content) : bool :=
     match l with [] => true | f :: fs => negb (optionlike f) && rec_fields_ok f && all fs end) cs = true <->
  Forall (fun f => optionlike f = false /\ rec_fields_ok f = true) cs.
Proof.
  induction cs as [|x xs IH]; [split; constructor|]. rewrite !andb_true_iff, IH, negb_true_iff. split.
  - intros [[? ?] ?]. constructor; auto.
  - intros H. inversion H as [|? ? [? ?] ?]; auto.
Qed.
Fixpoint gfrag (c : content) : bool :=
  match c with
  | Numpy _ shape _ => match shape with [_] => true | _ => false end
  | Empty => true
  | ListOffset _ _ c' | ListA _ _ _ c' | Regular c' _ _ => gfrag c'
  | Indexed _ _ c' | IndexedOption _ _ c' | ByteMasked _ _ c' | BitMasked _ _ _ _ c' | Unmasked c' =>
      rec_fields_ok c' && gfrag c'
  | Par None _ c' => gfrag c'
  | Record cs _ _ =>
      (fix all (l : list content) : bool := match l with [] => true | x :: xs => gfrag x && all xs end) cs
  | _ => false
  end.
Lemma gfrag_all cs :
  (fix all (l : list content) : bool := match l with [] => true | x :: xs => gfrag x && all xs end) cs = true <->
  Forall (fun x => gfrag x = true) cs.
Proof.
  induction cs as [|x xs IH]; [split; constructor|]. rewrite andb_true_iff, IH. split.
  - intros [? ?]. constructor; assumption.
  - intros H. inversion H; auto.
Qed.
Lemma gfrag_Record cs ks n : gfrag (Record cs ks n) = true <-> Forall (fun x => gfrag x = true) cs.
Proof. cbn [gfrag]. apply gfrag_all. Qed.

Lemma carry_rec_fields_ok c : forall ix c', carry c ix = Ok c' -> rec_fields_ok c' = rec_fields_ok c.
Proof.
  induction c as [dt shape data| |w o c IHc|w s e c IHc|c size zl IHc|w ix0 c IHc|w ix0 c IHc|m vw c IHc
                 |m vw lsb n c IHc|c IHc|w t ix0 cs IHcs|cs ks n IHcs|arr rn c IHc] using content_ind';
    intros ix c' H; try rewrite carry_Record in H; cbn [carry] in H.
  - destruct shape as [|n dims]; [discriminate|]. apply bind_Ok in H as (rows & _ & H). inversion H. reflexivity.
  - destruct ix; [|discriminate]. inversion H. reflexivity.
  - apply bind_Ok in H as (s & _ & H). apply bind_Ok in H as (e & _ & H). inversion H. reflexivity.
  - apply bind_Ok in H as (s' & _ & H). apply bind_Ok in H as (e' & _ & H). inversion H. reflexivity.
  - apply bind_Ok in H as (nx & _ & H). apply bind_Ok in H as (c'' & Hc & H). inversion H. reflexivity.
  - apply bind_Ok in H as (j & _ & H). inversion H. reflexivity.
  - apply bind_Ok in H as (j & _ & H). inversion H. reflexivity.
  - apply bind_Ok in H as (m' & _ & H). apply bind_Ok in H as (c'' & Hc & H). inversion H. reflexivity.
  - apply bind_Ok in H as (bm & _ & H). apply bind_Ok in H as (m' & _ & H).
    apply bind_Ok in H as (c'' & Hc & H). inversion H. reflexivity.
  - apply bind_Ok in H as (c'' & Hc & H). inversion H. reflexivity.
  - apply bind_Ok in H as (t' & _ & H). apply bind_Ok in H as (j & _ & H). inversion H. reflexivity.
  - destruct (forallb _ ix); [|discriminate]. apply bind_Ok in H as (cs' & Hcs & H). inversion H. cbn [rec_fields_ok].
    clear H H1. revert cs' Hcs. induction IHcs as [|x xs Hx _ IH]; intros cs' Hcs; cbn [mapM] in Hcs.
    + inversion Hcs. reflexivity.
    + apply bind_Ok in Hcs as (y & Hy & Hcs). apply bind_Ok in Hcs as (ys & Hys & Hcs). inversion Hcs; subst.
      destruct (carry_class _ _ _ Hy) as [-> _]. rewrite (Hx _ _ Hy), (IH _ Hys). reflexivity.
  - apply bind_Ok in H as (c'' & Hc & H). inversion H. cbn [rec_fields_ok]. apply (IHc _ _ Hc).
Qed.

Lemma carry_gfrag c : forall ix c', carry c ix = Ok c' -> gfrag c' = gfrag c.
Proof.
  induction c as [dt shape data| |w o c IHc|w s e c IHc|c size zl IHc|w ix0 c IHc|w ix0 c IHc|m vw c IHc
                 |m vw lsb n c IHc|c IHc|w t ix0 cs IHcs|cs ks n IHcs|arr rn c IHc] using content_ind';
    intros ix c' H; try rewrite carry_Record in H; cbn [carry] in H.
  - destruct shape as [|n dims]; [discriminate|]. apply bind_Ok in H as (rows & _ & H). inversion H.
    cbn [gfrag]. destruct dims; reflexivity.
  - destruct ix; [|discriminate]. inversion H. reflexivity.
  - apply bind_Ok in H as (s & _ & H). apply bind_Ok in H as (e & _ & H). inversion H. reflexivity.
  - apply bind_Ok in H as (s' & _ & H). apply bind_Ok in H as (e' & _ & H). inversion H. reflexivity.
  - apply bind_Ok in H as (nx & _ & H). apply bind_Ok in H as (c'' & Hc & H). inversion H.
    cbn [gfrag]. apply (IHc _ _ Hc).
  - apply bind_Ok in H as (j & _ & H). inversion H. reflexivity.
  - apply bind_Ok in H as (j & _ & H). inversion H. reflexivity.
  - apply bind_Ok in H as (m' & _ & H). apply bind_Ok in H as (c'' & Hc & H). inversion H. cbn [gfrag]. rewrite (IHc _ _ Hc), (carry_rec_fields_ok _ _ _ Hc). reflexivity.
  - apply bind_Ok in H as (bm & _ & H). apply bind_Ok in H as (m' & _ & H).
    apply bind_Ok in H as (c'' & Hc & H). inversion H. cbn [gfrag]. rewrite (IHc _ _ Hc), (carry_rec_fields_ok _ _ _ Hc). reflexivity.
  - apply bind_Ok in H as (c'' & Hc & H). inversion H. cbn [gfrag]. rewrite (IHc _ _ Hc), (carry_rec_fields_ok _ _ _ Hc). reflexivity.
  - apply bind_Ok in H as (t' & _ & H). apply bind_Ok in H as (j & _ & H). inversion H. reflexivity.
  - destruct (forallb _ ix); [|discriminate]. apply bind_Ok in H as (cs' & Hcs & H). inversion H.
    apply eq_true_iff_eq. rewrite !gfrag_Record. clear H H1. revert cs' Hcs.
    induction IHcs as [|x xs Hx _ IH]; intros cs' Hcs; cbn [mapM] in Hcs.
    + inversion Hcs. split; constructor.
    + apply bind_Ok in Hcs as (y & Hy & Hcs). apply bind_Ok in Hcs as (ys & Hys & Hcs). inversion Hcs; subst.
      specialize (IH _ Hys). split; intros HF; inversion HF; subst; constructor.
      * rewrite <- (Hx _ _ Hy). assumption.
      * apply IH. assumption.
      * rewrite (Hx _ _ Hy). assumption.
      * apply IH. assumption.
  - apply bind_Ok in H as (c'' & Hc & H). inversion H. cbn [gfrag]. destruct arr; [reflexivity|]. apply (IHc _ _ Hc).
Qed.

Lemma gfrag_frag1 c : gfrag c = true -> frag1 c = true.
Proof.
  induction c using content_ind'; cbn [gfrag frag1]; auto; try discriminate;
    try (intros Hf; apply andb_true_iff in Hf as [_ Hf]; auto).
  - intros Hf. apply gfrag_all in Hf. apply frag1_all. rewrite Forall_forall in *. intros x Hx. apply H; auto.
  - destruct arr; [discriminate|]. exact IHc.
Qed.

Lemma er_is_rec T U : er T = er U -> is_rec T = is_rec U.
Proof.
  intros H. pose proof (er_view T U H) as Hv. unfold is_rec.
  destruct (so_ty U); try contradiction; try (rewrite Hv; reflexivity); destruct Hv as (? & -> & _); reflexivity.
Qed.

(* ---------------------------------------------------------------- wrapper nodes above a list node *)
Fixpoint wd (c : content) : nat :=
  match c with
  | Indexed _ _ c' | IndexedOption _ _ c' | ByteMasked _ _ c' | BitMasked _ _ _ _ c' | Unmasked c' | Par _ _ c' => S (wd c')
  | _ => O
  end.

Lemma carry_wd c : forall ix c', carry c ix = Ok c' -> wd c' = wd c.
Proof.
  induction c as [dt shape data| |w o c IHc|w s e c IHc|c size zl IHc|w ix0 c IHc|w ix0 c IHc|m vw c IHc
                 |m vw lsb n c IHc|c IHc|w t ix0 cs IHcs|cs ks n IHcs|arr rn c IHc] using content_ind';
    intros ix c' H; cbn [carry] in H.
  - destruct shape as [|n dims]; [discriminate|]. apply bind_Ok in H as (rows & _ & H). inversion H. reflexivity.
  - destruct ix; [|discriminate]. inversion H. reflexivity.
  - apply bind_Ok in H as (s & _ & H). apply bind_Ok in H as (e & _ & H). inversion H. reflexivity.
  - apply bind_Ok in H as (s' & _ & H). apply bind_Ok in H as (e' & _ & H). inversion H. reflexivity.
  - apply bind_Ok in H as (nx & _ & H). apply bind_Ok in H as (c'' & Hc & H). inversion H. reflexivity.
  - apply bind_Ok in H as (j & _ & H). inversion H. reflexivity.
  - apply bind_Ok in H as (j & _ & H). inversion H. reflexivity.
  - apply bind_Ok in H as (m' & _ & H). apply bind_Ok in H as (c'' & Hc & H). inversion H. cbn [wd]. rewrite (IHc _ _ Hc). reflexivity.
  - apply bind_Ok in H as (bm & _ & H). apply bind_Ok in H as (m' & _ & H).
    apply bind_Ok in H as (c'' & Hc & H). inversion H. cbn [wd]. rewrite (IHc _ _ Hc). reflexivity.
  - apply bind_Ok in H as (c'' & Hc & H). inversion H. cbn [wd]. rewrite (IHc _ _ Hc). reflexivity.
  - apply bind_Ok in H as (t' & _ & H). apply bind_Ok in H as (j & _ & H). inversion H. reflexivity.
  - destruct (forallb _ ix); [|discriminate]. apply bind_Ok in H as (cs' & _ & H). inversion H. reflexivity.
  - apply bind_Ok in H as (c'' & Hc & H). inversion H. cbn [wd]. rewrite (IHc _ _ Hc). reflexivity.
Qed.

(* validity bounds the number of wrappers: at most Par, one of Indexed/option, Par *)
Lemma wd_nonoption p c : Valid p c -> optionlike c = false -> (wd c <= 1)%nat.
Proof.
  intros HV Ho. destruct c; cbn [wd]; try lia; try discriminate.
  inversion HV; subst. rewrite optionlike_Par in Ho.
  match goal with H : forall a r x, c <> Par a r x |- _ => rename H into Hnp end.
  destruct c; cbn [wd]; try lia; try discriminate. exfalso. eapply Hnp. reflexivity.
Qed.
Lemma wd_nonpar p c : Valid p c -> (forall a r x, c <> Par a r x) -> (wd c <= 2)%nat.
Proof.
  intros HV Hnp. destruct c; cbn [wd]; try lia; inversion HV; subst;
    try (match goal with Hv : Valid None ?c', Ho : optionlike ?c' = false |- _ => pose proof (wd_nonoption None c' Hv Ho); lia end).
  exfalso. eapply Hnp. reflexivity.
Qed.
Lemma valid_wd p c : Valid p c -> (wd c <= 3)%nat.
Proof.
  intros HV. destruct c; try (apply Nat.le_trans with 2%nat; [eapply wd_nonpar; [exact HV|discriminate]|lia]).
  inversion HV; subst. cbn [wd].
  match goal with Hv : Valid arr c, Hn : forall a r x, c <> Par a r x |- _ => pose proof (wd_nonpar arr c Hv Hn) end. lia.
Qed.

(* ---------------------------------------------------------------- the refinement relation *)
Definition R (n : Z) (m : res content) (s : res (ty * list value)) : Prop :=
  match m with
  | Ok c' => exists t' ws, s = Ok (t', ws) /\ er t' = er (type_of c') /\ to_list c' = Ok ws /\ zlen ws = n
  | Err e => e = EValue /\ s = Err EValue
  end.

Definition basic_item (it : item) : bool := match it with IAt _ | IRange _ _ _ => true | _ => false end.

Lemma se_at_list fs T xs head tail sz u ls adv :
  positional head = true -> so_ty T = TList sz None u -> mapM as_list xs = Ok ls ->
  se_ fs T xs (head :: tail) adv = sg fs None sz u ls (head :: tail) adv.
Proof.
  intros Hp Hs Hl. rewrite se_down; [|exact Hp|unfold is_rec; rewrite Hs; reflexivity].
  unfold list_elem_ty, str_of_ty. rewrite Hs, Hl. reflexivity.
Qed.
Lemma se_at_leaf fs T xs head tail adv :
  positional head = true -> (exists d, so_ty T = TNum d) \/ so_ty T = TUnk ->
  se_ fs T xs (head :: tail) adv = Err EValue.
Proof.
  intros Hp Hs. rewrite se_down; [|exact Hp|unfold is_rec; destruct Hs as [[d ->]| ->]; reflexivity].
  unfold list_elem_ty. destruct Hs as [[d ->]| ->]; reflexivity.
Qed.

(* ---------------------------------------------------------------- one positional item at a list node *)
Lemma gfrag_list_content c bs cc :
  gfrag c = true -> lnode c = true -> list_bounds c = Ok (bs, cc) -> gfrag cc = true.
Proof.
  intros Hfr Hn Hb. destruct c; try discriminate; cbn [list_bounds] in Hb; cbn [gfrag] in Hfr.
  - destruct offsets; inversion Hb; subst; exact Hfr.
  - destruct (_ <? _); inversion Hb; subst; exact Hfr.
  - destruct (_ <? _); inversion Hb; subst; exact Hfr.
Qed.

Lemma lnode_view2 c T xs :
  Valid None c -> gfrag c = true -> lnode c = true -> to_list c = Ok xs -> optwrap T (type_of c) ->
  exists bs cc vs0 ls,
    list_bounds c = Ok (bs, cc) /\ Valid None cc /\ gfrag cc = true /\ to_list cc = Ok vs0 /\
    mapM (cut1 vs0) bs = Ok ls /\ xs = map VList ls /\ so_ty T = TList (rsize c) None (type_of cc).
Proof.
  intros HV Hfr Hn Hl HT.
  destruct (lnode_view c xs HV Hn Hl) as (bs & cc & vs0 & ls & Hb & HVc & Hl0 & Hcut & -> & Hty).
  exists bs, cc, vs0, ls. repeat split; try assumption; [eapply gfrag_list_content; eassumption|].
  rewrite (ow_so_ty _ _ HT), Hty. reflexivity.
Qed.

Lemma wrap_at_err n i e : wrap_at n i = Err e -> e = EValue.
Proof. unfold wrap_at. destruct (_ && _); [discriminate|]. intros H. inversion H. reflexivity. Qed.
Lemma szchk_err sz i e : szchk sz i = Err e -> e = EValue.
Proof.
  destruct sz as [n|]; cbn [szchk]; [|discriminate]. destruct (wrap_at n i) eqn:E; cbn [rmap]; [discriminate|].
  intros H. inversion H; subst. eapply wrap_at_err, E.
Qed.
Lemma at_model_err i bs e : mapM (at_model i) bs = Err e -> e = EValue.
Proof.
  intros H. apply mapM_Err in H as (ab & _ & H). unfold at_model in H.
  destruct (wrap_at (snd ab - fst ab) i) eqn:E; cbn [bind] in H; [discriminate|]. inversion H; subst. eapply wrap_at_err, E.
Qed.

Section ListNode.
  Variables (tail : list item).
  (* the induction hypothesis for the rest of the tuple, for all sufficient fuels *)
  Variable (Nm Ns : nat) (K : Z).
  (* side condition on the element type that the rest of the tuple needs *)
  Variable Q : ty -> Prop.
  Hypothesis IH : forall fm fs c T xs, (Nm <= fm)%nat -> (Ns <= fs)%nat -> tdepth T <= K -> Q T ->
    Valid None c -> gfrag c = true -> to_list c = Ok xs -> optwrap T (type_of c) ->
    R (zlen xs) (gn fm c tail None) (se_ fs T xs tail None).

  Lemma list_node_IAt fm fs c T xs i : (Nm <= fm)%nat -> (Ns <= fs)%nat -> tdepth T <= K + 1 ->
    (forall sz t, so_ty T = TList sz None t -> Q t) ->
    Valid None c -> gfrag c = true -> lnode c = true -> to_list c = Ok xs -> optwrap T (type_of c) ->
    R (zlen xs) (gn (S fm) c (IAt i :: tail) None) (se_ (S fs) T xs (IAt i :: tail) None).
  Proof.
    intros Hfm Hfs HK HQ HV Hfr Hn Hl HT.
    destruct (lnode_view2 c T xs HV Hfr Hn Hl HT) as (bs & cc & vs0 & ls & Hb & HVc & Hfc & Hl0 & Hcut & -> & HsT).
    set (t := type_of cc) in *.
    assert (HKt : tdepth t <= K) by (rewrite (tdepth_list' _ _ _ HsT) in HK; lia).
    assert (HQt : Q t) by (eapply HQ, HsT).
    rewrite (se_at_list _ _ _ (IAt i) _ _ _ _ _ eq_refl HsT (as_list_lists ls)).
    rewrite gn_list_IAt by exact Hn. rewrite sg_IAt by (rewrite has_none_somes; reflexivity). rewrite Hb. cbn [bind fst snd].
    destruct (szchk (rsize c) i) as [[]|e] eqn:Esz; cbn [bind]; [|apply szchk_err in Esz; subst; split; reflexivity].
    rewrite present_somes. fold (at_spec i). fold (at_model i).
    destruct (at_step vs0 bs ls i Hcut) as [Hs Hr]. rewrite Hs.
    destruct (mapM (at_model i) bs) as [ks|e] eqn:Hks; cbn [bind]; [|apply at_model_err in Hks; subst; split; reflexivity].
    specialize (Hr ks eq_refl).
    destruct (carry_spec cc vs0 ks HVc Hl0) as (nc & Hnc & Hlnc & Hcl); [rewrite <- (to_list_len _ _ Hl0); exact Hr|].
    destruct (gather_ok vs0 ks Hr) as [xs' Hxs']. rewrite Hnc, Hxs'. cbn [bind]. rewrite Hxs' in Hlnc.
    assert (HVn : Valid None nc).
    { apply (carry_valid cc vs0 ks nc HVc Hl0); [rewrite <- (to_list_len _ _ Hl0); exact Hr|exact Hnc]. }
    assert (Hfn : gfrag nc = true) by (rewrite (carry_gfrag _ _ _ Hnc); exact Hfc).
    assert (Hetn : optwrap t (type_of nc)) by (rewrite (carry_type_of _ _ _ Hnc); apply ow_refl).
    pose proof (IH fm fs nc t xs' Hfm Hfs HKt HQt HVn Hfn Hlnc Hetn) as HR. cbn [present_adv].
    assert (Hlen : zlen xs' = zlen ls).
    { rewrite (mapM_zlen _ _ _ Hxs'), (mapM_zlen _ _ _ Hks). symmetry. apply (mapM_zlen _ _ _ Hcut). }
    rewrite zlen_map.
    destruct (gn fm nc tail None) as [c'|e]; cbn [R] in *.
    - destruct HR as (t' & ws & -> & Ht' & Hl' & Hz). cbn [bind fst snd].
      rewrite reinsert_somes by (apply zlen_eq_length; lia). exists t', ws. repeat split; try assumption. lia.
    - destruct HR as [-> ->]. split; reflexivity.
  Qed.

  Lemma list_node_IRange fm fs c T xs a b st : (Nm <= fm)%nat -> (Ns <= fs)%nat -> tdepth T <= K + 1 ->
    (forall sz t, so_ty T = TList sz None t -> Q t) ->
    Valid None c -> gfrag c = true -> lnode c = true -> to_list c = Ok xs -> optwrap T (type_of c) ->
    R (zlen xs) (gn (S fm) c (IRange a b st :: tail) None) (se_ (S fs) T xs (IRange a b st :: tail) None).
  Proof.
    intros Hfm Hfs HK HQ HV Hfr Hn Hl HT.
    destruct (lnode_view2 c T xs HV Hfr Hn Hl HT) as (bs & cc & vs0 & ls & Hb & HVc & Hfc & Hl0 & Hcut & -> & HsT).
    set (t := type_of cc) in *.
    assert (HKt : tdepth t <= K) by (rewrite (tdepth_list' _ _ _ HsT) in HK; lia).
    assert (HQt : Q t) by (eapply HQ, HsT).
    rewrite (se_at_list _ _ _ (IRange a b st) _ _ _ _ _ eq_refl HsT (as_list_lists ls)).
    rewrite gn_list_IRange by exact Hn. rewrite sg_IRange, Hb. cbn [bind fst snd]. cbv zeta.
    destruct (stepof st =? 0) eqn:Es; [split; reflexivity|].
    destruct (rng_step vs0 bs ls a b (stepof st) ltac:(lia) Hcut) as (pk & Hpk & Hpick & Hrange & Hzpk).
    rewrite Hpick. cbn [bind]. rewrite unopt_somes, counts_somes.
    change (map (fun ab : Z * Z => map (fun j => fst ab + j) (py_indices (snd ab - fst ab) a b (stepof st))) bs)
      with (map (rng_model a b (stepof st)) bs).
    set (pm := map (rng_model a b (stepof st)) bs) in *.
    destruct (carry_spec cc vs0 (concat pm) HVc Hl0) as (nc & Hnc & Hlnc & Hcl); [rewrite <- (to_list_len _ _ Hl0); exact Hrange|].
    rewrite mapM_concat, Hpk in Hlnc. cbn [rmap] in Hlnc. rewrite Hnc. cbn [bind adv_range].
    assert (HVn : Valid None nc).
    { apply (carry_valid cc vs0 (concat pm) nc HVc Hl0); [rewrite <- (to_list_len _ _ Hl0); exact Hrange|exact Hnc]. }
    assert (Hfn : gfrag nc = true) by (rewrite (carry_gfrag _ _ _ Hnc); exact Hfc).
    assert (Hetn : optwrap t (type_of nc)) by (rewrite (carry_type_of _ _ _ Hnc); apply ow_refl).
    pose proof (IH fm fs nc t (concat pk) Hfm Hfs HKt HQt HVn Hfn Hlnc Hetn) as HR.
    rewrite (mapM_mapM_lens _ _ _ Hpk). rewrite zlen_map.
    destruct (gn fm nc tail None) as [c'|e]; cbn [R] in *.
    - destruct HR as (t' & ws & -> & Ht' & Hl' & Hz). cbn [bind fst snd].
      rewrite zlen_concat in Hz.
      rewrite regrouped_somes by (rewrite regroup_length, map_length; reflexivity).
      exists (TList None None t'), (map VList (regroup (map zlen pk) ws)). split; [reflexivity|]. split; [|split].
      + cbn [type_of type_of_p strflag er]. f_equal. exact Ht'.
      + apply to_list_regroup; [exact Hl'|apply map_zlen_nonneg|exact Hz].
      + rewrite zlen_map. unfold zlen at 1. rewrite regroup_length, map_length. fold (zlen pk). lia.
    - destruct HR as [-> ->]. split; reflexivity.
  Qed.
End ListNode.

(* ---------------------------------------------------------------- a positional item at a leaf *)
Lemma leaf_positional fm fs c T xs head tail :
  gfrag c = true -> lnode c = false -> wd c = O -> optwrap T (type_of c) -> is_rec T = false -> positional head = true ->
  R (zlen xs) (gn (S fm) c (head :: tail) None) (se_ fs T xs (head :: tail) None).
Proof.
  intros Hfr Hn Hw HT Hrec Hp. pose proof (er_view T _ (ow_er _ _ HT)) as Hv.
  destruct c; try discriminate.
  3:{ exfalso. unfold is_rec in Hrec. rewrite (ow_so_ty _ _ HT) in Hrec. cbn in Hrec. discriminate. }
  - cbn [gfrag] in Hfr. destruct shape as [|n [|? ?]]; try discriminate.
    rewrite gn_numpy1 by exact Hp. cbn [type_of type_of_p tl numpy_ty so_ty] in Hv.
    rewrite se_at_leaf; [split; reflexivity|exact Hp|left; eauto].
  - rewrite gn_empty by exact Hp. cbn [type_of type_of_p so_ty] in Hv.
    rewrite se_at_leaf; [split; reflexivity|exact Hp|right; exact Hv].
Qed.

(* ---------------------------------------------------------------- a positional item at a wrapper node *)
Lemma R_err n m e : R n m (Err e) -> exists e', m = Err e' /\ e' = EValue /\ e = EValue.
Proof.
  destruct m as [c'|e']; cbn [R].
  - intros (? & ? & H & _). discriminate.
  - intros [-> H]. inversion H. eauto.
Qed.

Lemma as_list_nonone ys : forall lp,
  mapM as_list ys = Ok lp -> (forall y, In y ys -> y <> VNone) -> exists pl, lp = map Some pl.
Proof.
  induction ys as [|y ys IH]; intros lp H Hn; cbn [mapM] in H.
  - inversion H. exists []. reflexivity.
  - apply bind_Ok in H as (o & Ho & H). apply bind_Ok in H as (lp' & Hlp' & H). inversion H; subst.
    destruct (IH lp' Hlp') as [pl ->]; [intros z Hz; apply Hn; right; exact Hz|].
    destruct o as [l|].
    + exists (l :: pl). reflexivity.
    + exfalso. apply (Hn y (or_introl eq_refl)). destruct y; try discriminate. reflexivity.
Qed.
Lemma as_list_err ys e : mapM as_list ys = Err e -> e = EValue.
Proof. intros H. apply mapM_Err in H as (y & _ & H). destruct y; try discriminate; inversion H; reflexivity. Qed.
Lemma list_elem_ty_err T e : list_elem_ty T = Err e -> e = EValue.
Proof. unfold list_elem_ty. destruct (so_ty T) as [| |? [?|] ?| | |]; try discriminate; intros H; inversion H; reflexivity. Qed.

Lemma bind_Ok_id {A} (m : res A) : (do r <- m; Ok r) = m.
Proof. destruct m; reflexivity. Qed.

Section Wrapper.
  Variables (head : item) (tail : list item).
  Hypothesis Hbasic : basic_item head = true.
  Hypothesis Hnoarr : has_array tail = false.
  Let Hpos : positional head = true.
  Proof. destruct head; try discriminate; reflexivity. Qed.

  Variables (fm fs : nat) (c : content) (T : ty).
  (* what is known for nodes with fewer wrappers *)
  Hypothesis IHp : forall p xs,
    Valid None p -> gfrag p = true -> (wd p < wd c)%nat -> to_list p = Ok xs -> optwrap T (type_of p) ->
    R (zlen xs) (gn fm p (head :: tail) None) (se_ (S fs) T xs (head :: tail) None).

  Lemma indexed_step xs :
    Valid None c -> gfrag c = true -> (exists w ix c0, c = Indexed w ix c0) -> to_list c = Ok xs -> optwrap T (type_of c) ->
    R (zlen xs) (gn (S fm) c (head :: tail) None) (se_ (S fs) T xs (head :: tail) None).
  Proof.
    intros HV Hfr (w & ix & c0 & ->) Hl HT. inversion HV; subst.
    rewrite to_list_Indexed in Hl. apply bind_Ok in Hl as (vs0 & Hl0 & Hl).
    match goal with H : Forall _ ix |- _ => rename H into Hix end.
    destruct (carry_spec c0 vs0 ix) as (p & Hp & Hlp & _); [assumption..|]. rewrite Hl in Hlp.
    rewrite gn_Indexed by exact Hpos. rewrite Hp. cbn [bind].
    apply IHp; try assumption.
    - eapply carry_valid; eassumption.
    - rewrite (carry_gfrag _ _ _ Hp). cbn [gfrag] in Hfr. apply andb_true_iff in Hfr as [_ Hfr]. exact Hfr.
    - rewrite (carry_wd _ _ _ Hp). cbn [wd]. lia.
    - rewrite (carry_type_of _ _ _ Hp). exact HT.
  Qed.

  Lemma par_step xs :
    Valid None c -> gfrag c = true -> (exists a rn c0, c = Par a rn c0) -> to_list c = Ok xs -> optwrap T (type_of c) ->
    R (zlen xs) (gn (S fm) c (head :: tail) None) (se_ (S fs) T xs (head :: tail) None).
  Proof.
    intros HV Hfr (a & rn & c0 & ->) Hl HT. cbn [gfrag] in Hfr. destruct a; [discriminate|]. inversion HV; subst.
    rewrite to_list_Par in Hl. apply bind_Ok in Hl as (vs0 & Hl0 & Hl). inversion Hl; subst.
    rewrite gn_Par by exact Hpos.
    replace (do r <- gn fm c0 (head :: tail) None;
             match head, tail, strflag None with
             | (IRange _ _ _ | IArray _), [], Some _ => Ok (Par None rn r)
             | _, _, _ => Ok r
             end) with (gn fm c0 (head :: tail) None).
    2:{ symmetry. destruct head; try discriminate; destruct tail; apply bind_Ok_id. }
    apply IHp; try assumption. cbn [wd]. lia.
  Qed.

  Lemma option_step xs :
    Valid None c -> gfrag c = true -> is_opt c = true -> to_list c = Ok xs -> optwrap T (type_of c) -> is_rec T = false ->
    R (zlen xs) (gn (S fm) c (head :: tail) None) (se_ (S fs) T xs (head :: tail) None).
  Proof.
    intros HV Hfr Ho Hl HT Hrec.
    destruct (option_view c xs HV Ho Hl) as (ix & vs0 & Hoi & HVc & Hno & Hl0 & Hpick & Hty).
    destruct (pick_present vs0 ix xs Hpick) as (ys & Hys & ->).
    pose proof (gather_range_inv _ _ _ Hys) as Hrange. rewrite (to_list_len _ _ Hl0) in Hrange.
    destruct (carry_spec (opt_content c) vs0 _ HVc Hl0 Hrange) as (p & Hp & Hlp & _). rewrite Hys in Hlp.
    assert (HVp : Valid None p) by (eapply carry_valid; eassumption).
    assert (Hfc : gfrag (opt_content c) = true) by (destruct c; try discriminate; cbn [gfrag] in Hfr; apply andb_true_iff in Hfr as [_ Hfr]; exact Hfr).
    assert (Hfp : gfrag p = true) by (rewrite (carry_gfrag _ _ _ Hp); exact Hfc).
    assert (Hwp : (wd p < wd c)%nat) by (rewrite (carry_wd _ _ _ Hp); destruct c; try discriminate; cbn [wd opt_content]; lia).
    assert (HTp : optwrap T (type_of p)) by (rewrite (carry_type_of _ _ _ Hp); apply ow_strip; rewrite <- Hty; exact HT).
    assert (Hnn : forall y, In y ys -> y <> VNone).
    { apply (nonone_values p ys HVp (gfrag_frag1 _ Hfp)); [|exact Hlp].
      destruct (carry_class _ _ _ Hp) as [-> _]. exact Hno. }
    pose proof (IHp p ys HVp Hfp Hwp Hlp HTp) as HR.
    rewrite gn_option by assumption. rewrite Hoi. cbn [bind fst adv_present]. rewrite Hp. cbn [bind].
    rewrite se_down in HR |- * by assumption.
    assert (Hlen : length ys = ntrue (keys_ix ix)) by (rewrite ntrue_keys_ix; apply (mapM_length _ _ _ Hys)).
    assert (Hz : zlen (bmerge VNone (keys_ix ix) ys) = zlen ix).
    { unfold zlen. rewrite bmerge_length by exact Hlen. unfold keys_ix. rewrite map_length. reflexivity. }
    destruct (list_elem_ty T) as [[sz t]|e] eqn:Elt; cbn [bind fst snd] in HR |- *.
    2:{ apply R_err in HR as (e' & -> & -> & ->). split; reflexivity. }
    rewrite (mapM_bmerge as_list VNone None (keys_ix ix) eq_refl ys Hlen).
    destruct (mapM as_list ys) as [lp|e] eqn:Elp; cbn [bind rmap] in HR |- *.
    2:{ apply R_err in HR as (e' & -> & -> & ->). split; reflexivity. }
    destruct (as_list_nonone ys lp Elp Hnn) as [pl ->].
    assert (Hlpl : length pl = ntrue (keys_ix ix)).
    { rewrite <- Hlen. apply mapM_length in Elp. rewrite map_length in Elp. exact Elp. }
    set (ls := bmerge None (keys_ix ix) (map Some pl)).
    assert (Hsg : sg (S fs) (str_of_ty T) sz t ls (head :: tail) None =
                  do r <- sg (S fs) (str_of_ty T) sz t (map Some pl) (head :: tail) None; Ok (fst r, reinsert ls (snd r))).
    { rewrite <- (present_bmerge (keys_ix ix) pl Hlpl). fold ls.
      destruct head; try discriminate; [apply sg_present_IAt, Hnoarr|apply sg_present_IRange]. }
    rewrite Hsg. rewrite Hz.
    destruct (gn fm p (head :: tail) None) as [c'|e]; cbn [R bind] in *.
    - destruct HR as (t' & ws & -> & Ht' & Hl' & Hzw). cbn [bind fst snd].
      assert (Hlw : length ws = ntrue (keys_ix ix)) by (rewrite <- Hlen; apply zlen_eq_length; exact Hzw).
      exists t', (reinsert ls ws). split; [reflexivity|]. split; [exact Ht'|].
      rewrite reinsert_bmerge. unfold ls. rewrite (keys_bmerge _ _ Hlpl). split.
      + apply to_list_outindex; assumption.
      + unfold zlen. rewrite bmerge_length by exact Hlw. unfold keys_ix. rewrite map_length. reflexivity.
    - destruct HR as [-> ->]. split; reflexivity.
  Qed.
End Wrapper.

(* ---------------------------------------------------------------- the tuple induction *)
Section Positional.
  Variables (head : item) (tail : list item).
  Hypothesis Hbasic : basic_item head = true.
  Hypothesis Hnoarr : has_array tail = false.
  Variable (Nm Ns : nat) (K : Z).
  Variable Q : ty -> Prop.
  Hypothesis IH : forall fm fs c T xs, (Nm <= fm)%nat -> (Ns <= fs)%nat -> tdepth T <= K -> Q T ->
    Valid None c -> gfrag c = true -> to_list c = Ok xs -> optwrap T (type_of c) ->
    R (zlen xs) (gn fm c tail None) (se_ fs T xs tail None).

  Lemma positional_step : forall k fm fs c T xs,
    (wd c <= k)%nat -> (k + 1 + Nm <= fm)%nat -> (1 + Ns <= fs)%nat -> tdepth T <= K + 1 ->
    is_rec T = false -> (forall sz t, so_ty T = TList sz None t -> Q t) ->
    Valid None c -> gfrag c = true -> to_list c = Ok xs -> optwrap T (type_of c) ->
    R (zlen xs) (gn fm c (head :: tail) None) (se_ fs T xs (head :: tail) None).
  Proof.
    induction k as [|k IHk]; intros fm fs c T xs Hw Hfm Hfs HK Hrec HQ HV Hfr Hl HT;
      (destruct fm as [|fm]; [lia|]); (destruct fs as [|fs]; [lia|]).
    - destruct (lnode c) eqn:Hn.
      + destruct head; try discriminate.
        * eapply list_node_IAt; [exact IH|lia|lia|assumption..].
        * eapply list_node_IRange; [exact IH|lia|lia|assumption..].
      + apply leaf_positional; try assumption; [lia|]. destruct head; try discriminate; reflexivity.
    - assert (IHp : forall p xs0, Valid None p -> gfrag p = true -> (wd p < wd c)%nat -> to_list p = Ok xs0 ->
                      optwrap T (type_of p) ->
                      R (zlen xs0) (gn fm p (head :: tail) None) (se_ (S fs) T xs0 (head :: tail) None)).
      { intros p xs0 HVp Hfp Hwp Hlp HTp. apply IHk; try assumption; lia. }
      destruct c; cbn [gfrag] in Hfr; try discriminate.
      + apply leaf_positional; try assumption; try reflexivity. destruct head; try discriminate; reflexivity.
      + apply leaf_positional; try assumption; try reflexivity. destruct head; try discriminate; reflexivity.
      + destruct head; try discriminate;
          [eapply list_node_IAt|eapply list_node_IRange]; try exact IH; try assumption; try reflexivity; lia.
      + destruct head; try discriminate;
          [eapply list_node_IAt|eapply list_node_IRange]; try exact IH; try assumption; try reflexivity; lia.
      + destruct head; try discriminate;
          [eapply list_node_IAt|eapply list_node_IRange]; try exact IH; try assumption; try reflexivity; lia.
      + eapply indexed_step; try eassumption. eauto.
      + eapply option_step; try eassumption. reflexivity.
      + eapply option_step; try eassumption. reflexivity.
      + eapply option_step; try eassumption. reflexivity.
      + eapply option_step; try eassumption. reflexivity.
      + apply leaf_positional; try assumption; try reflexivity. destruct head; try discriminate; reflexivity.
      + eapply par_step; try eassumption. eauto.
  Qed.
End Positional.

