(** C08: numbers_to_type (ak.values_astype) through the structural recursion of every node class:
    the model result has exactly the values the specification [astype_spec] gives, and the type
    [astype_ty].  Fragment: [astype_frag] below (no UnionArray — the specification is undefined on
    union types — and well-formed string / char parameters; implied by [valid_b] + "no union"). *)
From Coq Require Import ZArith List Bool Lia ZifyBool.
From AwkV Require Import Base Layout LayoutInd Valid Types Carry.
From AwkV Require Proofs_Carry.
From AwkMerge Require Import Merge Lemmas_C08 Proofs_C08 Proofs_SU.
Import ListNotations.
Open Scope Z_scope.

(* ================================================================ the fragment *)
(* content of a string node as far as numbers_to_type is concerned: a NumpyArray tagged char / byte
   (any dtype, any shape: weaker than [is_chars]) *)
Definition chars_like (c : content) : bool :=
  match c with
  | Par (Some AChar) _ (Numpy _ _ _) | Par (Some AByte) _ (Numpy _ _ _) => true
  | _ => false
  end.

(* [p] = __array__ parameter of the enclosing Par node.
   - no UnionArray anywhere ([astype_v] is [Err EValue] on a union type);
   - __array__ = "string"/"bytestring" only on a list node whose content is a char/byte NumpyArray;
   - a NumpyArray is not directly tagged "char"/"byte"/"string"/"bytestring" outside a string.
   Nothing else: no validity of offsets / indexes / masks / lengths is assumed. *)
Fixpoint afrag (p : option akind) (c : content) {struct c} : bool :=
  match c with
  | Numpy _ _ _ => match p with None | Some ACategorical => true | _ => false end
  | Empty => negb (is_strk p)
  | ListOffset _ _ c' => if is_strk p then chars_like c' else afrag None c'
  | ListA _ _ _ c' => if is_strk p then chars_like c' else afrag None c'
  | Regular c' _ _ => if is_strk p then chars_like c' else afrag None c'
  | Indexed _ _ c' => negb (is_strk p) && afrag None c'
  | IndexedOption _ _ c' => negb (is_strk p) && afrag None c'
  | ByteMasked _ _ c' => negb (is_strk p) && afrag None c'
  | BitMasked _ _ _ _ c' => negb (is_strk p) && afrag None c'
  | Unmasked c' => negb (is_strk p) && afrag None c'
  | Union _ _ _ _ => false
  | Record cs _ _ =>
      negb (is_strk p) &&
      (fix all (l : list content) : bool :=
         match l with [] => true | x :: xs => afrag None x && all xs end) cs
  | Par a _ c' => negb (is_strk p) && afrag a c'
  end.
Definition astype_frag (c : content) : bool := afrag None c.

(* ================================================================ counter-examples outside the fragment *)
Definition stmt_b (dst : dtype) (c : content) : bool :=
  match to_list c, astype_model dst c with
  | Ok vs, Ok c' =>
      match to_list c', astype_spec dst (type_of c) vs with
      | Ok a, Ok b => list_eqb value_eqb a b
      | _, _ => false
      end && ty_eqb (type_of c') (astype_ty dst (type_of c))
  | _, _ => true
  end.

(* a VALID layout: the specification [astype_v] is not defined on union types (the model recurses into the
   alternatives, as the C++ does) *)
Example astype_union_refuted :
  let c := Union I64 [0] [0] [Numpy DInt64 [1] [DZ 1]] in
  valid_b c = true /\ to_list c = Ok [VNum (DZ 1)] /\
  astype_model DUInt8 c = Ok (Union I64 [0] [0] [Numpy DUInt8 [1] [DZ 1]]) /\
  astype_spec DUInt8 (type_of c) [VNum (DZ 1)] = Err EValue.
Proof. vm_compute. repeat split; reflexivity. Qed.
(* INVALID layouts (valid_b = false): a NumpyArray directly tagged "char" is returned unchanged *)
Example astype_char_numpy_refuted :
  let c := Par (Some AChar) None (Numpy DInt64 [1] [DZ 300]) in
  valid_b c = false /\ astype_model DUInt8 c = Ok c /\
  astype_spec DUInt8 (type_of c) [VNum (DZ 300)] = Ok [VNum (DZ 44)] /\ stmt_b DUInt8 c = false.
Proof. vm_compute. repeat split; reflexivity. Qed.
(* a "string" whose content is not tagged "char": the characters are cast *)
Example astype_untagged_string_refuted :
  let c := Par (Some AString) None (ListOffset I64 [0; 1] (Numpy DInt64 [1] [DZ 300])) in
  valid_b c = false /\ to_list c = Ok [VStr true [300]] /\
  rmap to_list (astype_model DUInt8 c) = Ok (Ok [VStr true [44]]) /\
  astype_spec DUInt8 (type_of c) [VStr true [300]] = Ok [VStr true [300]] /\ stmt_b DUInt8 c = false.
Proof. vm_compute. repeat split; reflexivity. Qed.
(* "string" on something that is not a list node *)
Example astype_string_on_indexed_refuted :
  let c := Par (Some AString) None
             (Indexed I64 [0] (ListOffset I64 [0; 1] (Par (Some AChar) None (Numpy DUInt8 [1] [DZ 3])))) in
  valid_b c = false /\ to_list c = Ok [VStr true [3]] /\
  astype_spec DInt64 (type_of c) [VStr true [3]] = Err EValue /\ stmt_b DInt64 c = false.
Proof. vm_compute. repeat split; reflexivity. Qed.
Example astype_string_on_numpy_refuted :
  let c := Par (Some AString) None (Numpy DInt64 [1; 1] [DZ 65]) in
  valid_b c = false /\ to_list c = Ok [VStr true [65]] /\ stmt_b DUInt8 c = false.
Proof. vm_compute. repeat split; reflexivity. Qed.

(* ================================================================ generic lemmas *)
Lemma mapM_id {A} (l : list A) : mapM (fun v => Ok v) l = Ok l.
Proof. rewrite (mapM_Ok (fun v => v)). now rewrite map_id. Qed.

Lemma mapM_nat {X A B} (h1 : X -> res A) (h2 : X -> res B) (F : A -> res B) xs ys :
  (forall x y, In x xs -> h1 x = Ok y -> exists y', h2 x = Ok y' /\ F y = Ok y') ->
  mapM h1 xs = Ok ys -> exists ys', mapM h2 xs = Ok ys' /\ mapM F ys = Ok ys'.
Proof.
  revert ys. induction xs as [|x xs IH]; intros ys HN H; cbn [mapM] in *.
  - inversion H; subst. exists []. split; reflexivity.
  - apply bind_ok in H. destruct H as (y & Hy & H). apply bind_ok in H. destruct H as (ys0 & Hys & H).
    inversion H; subst. clear H.
    destruct (HN x y (or_introl eq_refl) Hy) as (y' & Hy' & HF).
    destruct (IH ys0) as (ys' & Hys' & HFs); [intros; eapply HN; eauto; now right|exact Hys|].
    exists (y' :: ys'). rewrite Hy', Hys'. cbn [bind mapM]. rewrite HF, HFs. split; reflexivity.
Qed.

Lemma mapM_firstn {A B} (F : A -> res B) n : forall l l',
  mapM F l = Ok l' -> mapM F (firstn n l) = Ok (firstn n l').
Proof.
  induction n as [|n IH]; intros l l' H; [reflexivity|].
  destruct l as [|x xs]; cbn [mapM] in H.
  - inversion H; subst. reflexivity.
  - apply bind_ok in H. destruct H as (y & Hy & H). apply bind_ok in H. destruct H as (ys & Hys & H).
    inversion H; subst. cbn [firstn mapM]. rewrite Hy, (IH _ _ Hys). reflexivity.
Qed.
Lemma mapM_skipn {A B} (F : A -> res B) n : forall l l',
  mapM F l = Ok l' -> mapM F (skipn n l) = Ok (skipn n l').
Proof.
  induction n as [|n IH]; intros l l' H; [exact H|].
  destruct l as [|x xs]; cbn [mapM] in H.
  - inversion H; subst. reflexivity.
  - apply bind_ok in H. destruct H as (y & Hy & H). apply bind_ok in H. destruct H as (ys & Hys & H).
    inversion H; subst. cbn [skipn]. apply IH. exact Hys.
Qed.

Lemma slice_nat {A B} (F : A -> res B) l l' a b r :
  mapM F l = Ok l' -> slice l a b = Ok r -> exists r', slice l' a b = Ok r' /\ mapM F r = Ok r'.
Proof.
  intros HM HS. apply slice_ok in HS. destruct HS as (H1 & H2 & ->).
  pose proof (mapM_zlen _ _ _ HM) as HL.
  exists (take (b - a) (drop a l')). split; [apply slice_in; lia|].
  unfold take, drop. apply mapM_firstn, mapM_skipn. exact HM.
Qed.

Lemma cut1_nat {A B} (F : A -> res B) l l' ab r :
  mapM F l = Ok l' -> cut1 l ab = Ok r -> exists r', cut1 l' ab = Ok r' /\ mapM F r = Ok r'.
Proof.
  intros HM. destruct ab as [a b]. unfold cut1. destruct (a =? b).
  - intros H; inversion H; subst. exists []. split; reflexivity.
  - apply slice_nat. exact HM.
Qed.

Lemma chunks_nat_nat {A B} (F : A -> res B) n k : forall l l',
  mapM F l = Ok l' -> mapM (mapM F) (chunks_nat l n k) = Ok (chunks_nat l' n k).
Proof.
  induction k as [|k IH]; intros l l' HM; cbn [chunks_nat mapM]; [reflexivity|].
  unfold take. rewrite (mapM_firstn F _ _ _ HM). cbn [bind]. fold (@take A n l) (@take B n l').
  rewrite (IH (drop n l) (drop n l')); [reflexivity|]. unfold drop. apply mapM_skipn. exact HM.
Qed.

Lemma chunks_nat' {A B} (F : A -> res B) l l' size zl ch :
  mapM F l = Ok l' -> chunks l size zl = Ok ch ->
  exists ch', chunks l' size zl = Ok ch' /\ mapM (mapM F) ch = Ok ch'.
Proof.
  intros HM. pose proof (mapM_zlen _ _ _ HM) as HL. unfold chunks. rewrite HL.
  destruct (size <? 0); [discriminate|]. destruct (size =? 0).
  - destruct (zl <? 0); [discriminate|]. intros H; inversion H; subst.
    eexists. split; [reflexivity|]. rewrite mapM_map. cbn [mapM]. apply (mapM_Ok (fun _ : Z => @nil B)).
  - intros H; inversion H; subst. eexists. split; [reflexivity|]. apply chunks_nat_nat. exact HM.
Qed.

(* ================================================================ the value-level cast, node by node *)
Lemma astype_none_inv dst t v' : astype_v dst t VNone = Ok v' -> v' = VNone.
Proof.
  destruct t as [dt| |s [b|] t|t|ks ts|ts]; cbn [astype_v]; intros H; try discriminate; inversion H; reflexivity.
Qed.
Lemma astype_opt_lift dst t v v' : astype_v dst t v = Ok v' -> astype_v dst (TOpt t) v = Ok v'.
Proof.
  intros H. destruct v; cbn [astype_v]; try exact H.
  apply astype_none_inv in H. now subst.
Qed.

Lemma astype_list_wrap dst s t ch : forall ch',
  mapM (mapM (astype_v dst t)) ch = Ok ch' ->
  mapM (astype_v dst (TList s None t)) (map VList ch) = Ok (map VList ch').
Proof.
  induction ch as [|l ch IH]; intros ch' H; cbn [mapM map] in *.
  - inversion H; subst. reflexivity.
  - apply bind_ok in H. destruct H as (y & Hy & H). apply bind_ok in H. destruct H as (ys & Hys & H).
    inversion H; subst. rewrite (IH _ Hys). cbn [astype_v]. rewrite Hy. reflexivity.
Qed.

Lemma pick_opt_nat dst t vs0 vs0' b i v :
  mapM (astype_v dst t) vs0 = Ok vs0' -> pick_opt vs0 b i = Ok v ->
  exists v', pick_opt vs0' b i = Ok v' /\ astype_v dst (TOpt t) v = Ok v'.
Proof.
  intros HM. unfold pick_opt. destruct b.
  - intros HG. destruct (get_mapM _ _ _ _ _ HM HG) as (y & Hy & HG').
    exists y. split; [exact HG'|]. apply astype_opt_lift. exact Hy.
  - intros H; inversion H; subst. exists VNone. split; reflexivity.
Qed.

Lemma mapM_opt_lift dst t vs vs' :
  mapM (astype_v dst t) vs = Ok vs' -> mapM (astype_v dst (TOpt t)) vs = Ok vs'.
Proof.
  intros H. apply Forall2_mapM. apply mapM_ok_Forall2 in H.
  induction H as [|a b l l' Hab _ IH]; constructor; [apply astype_opt_lift; exact Hab|exact IH].
Qed.

(* ---------------------------------------------------------------- n-d NumpyArray *)
Lemma numpy_ty_astype dst dt dims : astype_ty dst (numpy_ty dt dims) = numpy_ty dst dims.
Proof. induction dims as [|d ds IH]; cbn [numpy_ty astype_ty]; [reflexivity|]. now rewrite IH. Qed.

Lemma nest_nat dst dt dims : forall count ls ls' vs,
  mapM (astype_v dst (TNum dt)) ls = Ok ls' -> nest dims count ls = Ok vs ->
  exists vs', nest dims count ls' = Ok vs' /\ mapM (astype_v dst (numpy_ty dt dims)) vs = Ok vs'.
Proof.
  induction dims as [|d ds IH]; intros count ls ls' vs HM HN; cbn [nest numpy_ty] in *.
  - inversion HN; subst. exists ls'. split; [reflexivity|exact HM].
  - apply bind_ok in HN. destruct HN as (inner & Hi & HN). apply bind_ok in HN. destruct HN as (ch & Hch & HN).
    inversion HN; subst. clear HN.
    destruct (IH _ _ _ _ HM Hi) as (inner' & Hi' & HMi).
    destruct (chunks_nat' _ _ _ _ _ _ HMi Hch) as (ch' & Hch' & HMc).
    exists (map VList ch'). rewrite Hi'. cbn [bind]. rewrite Hch'. cbn [bind]. split; [reflexivity|].
    apply astype_list_wrap. exact HMc.
Qed.

Lemma leaves_cast dt dst dd r :
  mapM (cast_datum dt dst) dd = Ok r ->
  mapM (astype_v dst (TNum dt)) (map (leaf dt) dd) = Ok (map (leaf dst) r).
Proof.
  intros Hr. rewrite mapM_map. apply mapM_ok_Forall2 in Hr. apply Forall2_mapM.
  induction Hr as [|d y ds ys Hdy _ IH]; cbn [map]; [constructor|]. constructor; [|exact IH].
  cbn beta. rewrite <- astype_leaf, Hdy. reflexivity.
Qed.

Lemma astype_numpy_nd dst dt sh data vs dd r :
  to_list (Numpy dt sh data) = Ok vs -> slice data 0 (prodZ sh) = Ok dd -> mapM (cast_datum dt dst) dd = Ok r ->
  exists vs', to_list (Numpy dst sh r) = Ok vs' /\ mapM (astype_v dst (numpy_ty dt (tl sh))) vs = Ok vs'.
Proof.
  intros HT HS HR. cbn [to_list] in *. destruct sh as [|n dims]; [discriminate|].
  destruct (existsb (fun d => d <? 0) (n :: dims)) eqn:E1; [discriminate|].
  destruct (zlen data <? prodZ (n :: dims)) eqn:E2; [discriminate|].
  apply bind_ok in HT. destruct HT as (vs1 & HN & HT). inversion HT; subst vs1. clear HT.
  apply slice_ok in HS. destruct HS as (H0 & HP & ->).
  rewrite Z.sub_0_r in HR. unfold drop in HR. cbn [Z.to_nat skipn] in HR.
  pose proof (mapM_zlen _ _ _ HR) as HL. rewrite zlen_take in HL by lia.
  destruct (nest_nat dst dt dims n _ _ _ (leaves_cast _ _ _ _ HR) HN) as (vs' & HN' & HM).
  exists vs'. split; [|exact HM].
  destruct (zlen r <? prodZ (n :: dims)) eqn:E3; [lia|].
  rewrite (take_all r) by lia. rewrite HN'. reflexivity.
Qed.

(* ---------------------------------------------------------------- RecordArray *)
Definition go_tup (dst : dtype) :=
  fix go (ts : list ty) (xs : list value) {struct ts} : res (list value) :=
    match ts, xs with
    | [], [] => Ok []
    | t1 :: ts', x :: xs' => do y <- astype_v dst t1 x; do ys <- go ts' xs'; Ok (y :: ys)
    | _, _ => Err EValue
    end.
Definition go_rec (dst : dtype) :=
  fix go (ts : list ty) (fs : list (name * value)) {struct ts} : res (list (name * value)) :=
    match ts, fs with
    | [], [] => Ok []
    | t1 :: ts', (k, x) :: fs' => do y <- astype_v dst t1 x; do ys <- go ts' fs'; Ok ((k, y) :: ys)
    | _, _ => Err EValue
    end.
Lemma astype_v_tup dst ks ts xs : astype_v dst (TRec ks ts) (VTup xs) = rmap VTup (go_tup dst ts xs).
Proof. reflexivity. Qed.
Lemma astype_v_rec dst ks ts fs : astype_v dst (TRec ks ts) (VRec fs) = rmap VRec (go_rec dst ts fs).
Proof. reflexivity. Qed.

(* column-wise relation between the field values before / after *)
Inductive colrel (dst : dtype) : list ty -> list (list value) -> list (list value) -> Prop :=
| cr_nil : colrel dst [] [] []
| cr_cons t ts v vs v' vs' :
    mapM (astype_v dst t) v = Ok v' -> colrel dst ts vs vs' -> colrel dst (t :: ts) (v :: vs) (v' :: vs').

Lemma cols_nat dst ts vss vss' i : colrel dst ts vss vss' -> forall xs,
  mapM (fun col : list value => get col i) vss = Ok xs ->
  exists xs', mapM (fun col : list value => get col i) vss' = Ok xs' /\ length xs' = length xs /\
              go_tup dst ts xs = Ok xs' /\
              forall ks : list name, length ks = length xs -> go_rec dst ts (zip ks xs) = Ok (zip ks xs').
Proof.
  induction 1 as [|t ts v vs v' vs' Hv _ IH]; intros xs HM; cbn [mapM] in *.
  - inversion HM; subst. exists []. repeat split. intros [|k ks] Hk; [reflexivity|discriminate].
  - apply bind_ok in HM. destruct HM as (x & Hx & HM). apply bind_ok in HM. destruct HM as (xs0 & Hxs & HM).
    inversion HM; subst. clear HM.
    destruct (get_mapM _ _ _ _ _ Hv Hx) as (y & Hy & Hg).
    destruct (IH _ Hxs) as (xs' & Hxs' & Hlen & Htup & Hrec).
    exists (y :: xs'). rewrite Hg, Hxs'. cbn [bind]. split; [reflexivity|]. split; [cbn [length]; now rewrite Hlen|].
    split.
    + cbn [go_tup]. rewrite Hy. cbn [bind]. fold (go_tup dst). rewrite Htup. reflexivity.
    + intros [|k ks] Hk; [discriminate|]. cbn [length] in Hk. cbn [zip go_rec]. rewrite Hy. cbn [bind].
      fold (go_rec dst). rewrite (Hrec ks) by lia. reflexivity.
Qed.

Lemma row_nat dst ts vss vss' ks i v :
  colrel dst ts vss vss' -> Layout.row ks vss i = Ok v ->
  exists v', Layout.row ks vss' i = Ok v' /\ astype_v dst (TRec ks ts) v = Ok v'.
Proof.
  intros HC HR. unfold Layout.row in *. apply bind_ok in HR. destruct HR as (xs & Hxs & HR).
  destruct (cols_nat _ _ _ _ i HC _ Hxs) as (xs' & Hxs' & Hlen & Htup & Hrec).
  rewrite Hxs'. cbn [bind]. destruct ks as [ks|].
  - rewrite Hlen. destruct (Nat.eqb (length ks) (length xs)) eqn:E; [|discriminate].
    inversion HR; subst. apply Nat.eqb_eq in E.
    eexists. split; [reflexivity|]. rewrite astype_v_rec, (Hrec ks E). reflexivity.
  - inversion HR; subst. eexists. split; [reflexivity|]. rewrite astype_v_tup, Htup. reflexivity.
Qed.

Lemma afrag_all_forallb cs :
  (fix all (l : list content) : bool :=
     match l with [] => true | x :: xs => afrag None x && all xs end) cs = forallb (afrag None) cs.
Proof. induction cs as [|x xs IH]; cbn; [reflexivity|]. now rewrite IH. Qed.
Lemma astype_all_mapM dst cs :
  (fix all (l : list content) : res (list content) :=
     match l with
     | [] => Ok []
     | x :: xs => do y <- astype_p dst None x; do ys <- all xs; Ok (y :: ys)
     end) cs = mapM (astype_p dst None) cs.
Proof. induction cs as [|x xs IH]; cbn [mapM]; [reflexivity|]. now rewrite IH. Qed.

(* ---------------------------------------------------------------- strings *)
Lemma strk_flag p : is_strk p = true -> exists b, strflag p = Some b.
Proof. destruct p as [[]|]; cbn; intros H; try discriminate; eauto. Qed.
Lemma nostrk_flag p : is_strk p = false -> strflag p = None.
Proof. destruct p as [[]|]; cbn; intros H; try discriminate; reflexivity. Qed.
Lemma chars_like_astype dst c : chars_like c = true -> astype_p dst None c = Ok c.
Proof.
  destruct c as [| | | | | | | | | | | |a rn c]; try discriminate.
  destruct a as [[]|]; try discriminate; destruct c; try discriminate; reflexivity.
Qed.
Lemma str_frag_ty a c : is_strk a = true -> afrag a c = true -> exists s b t, type_of_p a c = TList s (Some b) t.
Proof.
  intros Ha. destruct (strk_flag _ Ha) as [b Hb].
  destruct c; cbn [afrag type_of_p]; rewrite ?Ha, ?Hb; cbn [negb andb]; intros H; try discriminate; eauto.
  destruct a as [[]|]; discriminate.
Qed.

(* ================================================================ the structural recursion *)
Definition P_astype (dst : dtype) (c : content) : Prop := forall p vs c',
  afrag p c = true -> to_list c = Ok vs -> astype_p dst p c = Ok c' ->
  exists vs', to_list c' = Ok vs' /\ mapM (astype_v dst (type_of_p p c)) vs = Ok vs' /\
              type_of_p p c' = astype_ty dst (type_of_p p c).

(* the children of a record *)
Lemma fields_nat dst cs : Forall (P_astype dst) cs -> forall vss cs',
  forallb (afrag None) cs = true -> mapM to_list cs = Ok vss -> mapM (astype_p dst None) cs = Ok cs' ->
  exists vss', mapM to_list cs' = Ok vss' /\ colrel dst (map (type_of_p None) cs) vss vss' /\
               map (type_of_p None) cs' = map (astype_ty dst) (map (type_of_p None) cs).
Proof.
  induction 1 as [|x xs Hx _ IH]; intros vss cs' HF HT HA; cbn [mapM forallb map] in *.
  - inversion HT; inversion HA; subst. exists []. repeat split. constructor.
  - apply andb_true_iff in HF. destruct HF as [HF1 HF2].
    apply bind_ok in HT. destruct HT as (v & Hv & HT). apply bind_ok in HT. destruct HT as (vs0 & Hvs & HT).
    apply bind_ok in HA. destruct HA as (y & Hy & HA). apply bind_ok in HA. destruct HA as (ys & Hys & HA).
    inversion HT; inversion HA; subst. clear HT HA.
    destruct (Hx None v y HF1 Hv Hy) as (v' & Hv' & HM & HTy).
    destruct (IH _ _ HF2 Hvs Hys) as (vss' & Hvss' & HC & HTys).
    exists (v' :: vss'). cbn [mapM map]. rewrite Hv', Hvss'. cbn [bind]. split; [reflexivity|]. split.
    + constructor; assumption.
    + rewrite HTy, HTys. reflexivity.
Qed.

Ltac open_list HF HT HA vs0 Hvs0 ch Hch c0 Hc0 :=
  cbn [to_list astype_p] in HT, HA;
  apply bind_ok in HT; destruct HT as (vs0 & Hvs0 & HT); apply rmap_ok in HT; destruct HT as (ch & Hch & ->);
  apply rmap_ok in HA; destruct HA as (c0 & Hc0 & ->).

Ltac str_list HF HT HA Es :=
  cbn [astype_p] in HA; rewrite (chars_like_astype _ _ HF) in HA; inversion HA; subst;
  let b := fresh "b" in let Hb := fresh "Hb" in
  destruct (strk_flag _ Es) as [b Hb];
  eexists; split; [exact HT|]; cbn [type_of_p]; rewrite Hb; cbn [astype_v astype_ty];
  split; [apply mapM_id|reflexivity].

Lemma astype_structural dst c : P_astype dst c.
Proof.
  induction c using content_ind'; intros p vs c' HF HT HA; cbn [afrag] in HF.
  - (* Numpy *)
    assert (Hp : astype_p dst p (Numpy dt shape data) =
                 match shape with
                 | [] => Err EValue
                 | _ => do dd <- slice data 0 (prodZ shape); do r <- mapM (cast_datum dt dst) dd; Ok (Numpy dst shape r)
                 end) by (destruct p as [[]|]; try discriminate; reflexivity).
    rewrite Hp in HA. clear Hp. destruct shape as [|n dims]; [discriminate|].
    apply bind_ok in HA. destruct HA as (dd & Hdd & HA). apply bind_ok in HA. destruct HA as (r & Hr & HA).
    inversion HA; subst c'. clear HA.
    destruct (astype_numpy_nd dst _ _ _ _ _ _ HT Hdd Hr) as (vs' & HT' & HM).
    exists vs'. split; [exact HT'|]. split; [exact HM|].
    cbn [type_of_p tl]. now rewrite numpy_ty_astype.
  - (* Empty *)
    cbn [to_list astype_p] in *. inversion HT; inversion HA; subst.
    exists []. repeat split.
  - (* ListOffset *)
    destruct (is_strk p) eqn:Es; [str_list HF HT HA Es|].
    open_list HF HT HA vs0 Hvs0 ch Hch c0 Hc0.
    destruct (IHc None _ _ HF Hvs0 Hc0) as (vs0' & HT' & HM & HTy).
    unfold cut in Hch. destruct o as [|o0 o']; [discriminate|].
    destruct (mapM_nat (cut1 vs0) (cut1 vs0') (mapM (astype_v dst (type_of_p None c))) _ _
                (fun x y _ => cut1_nat _ _ _ x y HM) Hch) as (ch' & Hch' & HMc).
    exists (map VList ch'). cbn [to_list type_of_p astype_ty]. rewrite HT', (nostrk_flag _ Es), HTy. cbn [bind astype_ty].
    unfold cut. rewrite Hch'. split; [reflexivity|]. split; [|reflexivity]. apply astype_list_wrap. exact HMc.
  - (* ListA *)
    destruct (is_strk p) eqn:Es; [str_list HF HT HA Es|].
    open_list HF HT HA vs0 Hvs0 ch Hch c0 Hc0.
    destruct (IHc None _ _ HF Hvs0 Hc0) as (vs0' & HT' & HM & HTy).
    unfold cut2 in Hch. destruct (zlen e <? zlen s) eqn:El; [discriminate|].
    destruct (mapM_nat (cut1 vs0) (cut1 vs0') (mapM (astype_v dst (type_of_p None c))) _ _
                (fun x y _ => cut1_nat _ _ _ x y HM) Hch) as (ch' & Hch' & HMc).
    exists (map VList ch'). cbn [to_list type_of_p astype_ty]. rewrite HT', (nostrk_flag _ Es), HTy. cbn [bind astype_ty].
    unfold cut2. rewrite El, Hch'. split; [reflexivity|]. split; [|reflexivity]. apply astype_list_wrap. exact HMc.
  - (* Regular *)
    destruct (is_strk p) eqn:Es; [str_list HF HT HA Es|].
    open_list HF HT HA vs0 Hvs0 ch Hch c0 Hc0.
    destruct (IHc None _ _ HF Hvs0 Hc0) as (vs0' & HT' & HM & HTy).
    destruct (chunks_nat' _ _ _ _ _ _ HM Hch) as (ch' & Hch' & HMc).
    exists (map VList ch'). cbn [to_list type_of_p astype_ty]. rewrite HT', (nostrk_flag _ Es), HTy. cbn [bind astype_ty].
    rewrite Hch'. split; [reflexivity|]. split; [|reflexivity]. apply astype_list_wrap. exact HMc.
  - (* Indexed *)
    apply andb_true_iff in HF. destruct HF as [_ HF]. cbn [to_list astype_p] in HT, HA.
    apply bind_ok in HT. destruct HT as (vs0 & Hvs0 & HT). apply rmap_ok in HA. destruct HA as (c0 & Hc0 & ->).
    destruct (IHc None _ _ HF Hvs0 Hc0) as (vs0' & HT' & HM & HTy).
    destruct (mapM_nat (get vs0) (get vs0') (astype_v dst (type_of_p None c)) ix vs) as (vs' & Hvs' & HMv); [|exact HT|].
    { intros x y _ Hg. destruct (get_mapM _ _ _ _ _ HM Hg) as (y' & Hy' & Hg'). eauto. }
    exists vs'. cbn [to_list type_of_p]. rewrite HT'. cbn [bind]. auto.
  - (* IndexedOption *)
    apply andb_true_iff in HF. destruct HF as [_ HF]. cbn [to_list astype_p] in HT, HA.
    apply bind_ok in HT. destruct HT as (vs0 & Hvs0 & HT). apply rmap_ok in HA. destruct HA as (c0 & Hc0 & ->).
    destruct (IHc None _ _ HF Hvs0 Hc0) as (vs0' & HT' & HM & HTy).
    destruct (mapM_nat (fun i => pick_opt vs0 (0 <=? i) i) (fun i => pick_opt vs0' (0 <=? i) i)
                (astype_v dst (TOpt (type_of_p None c))) ix vs) as (vs' & Hvs' & HMv); [|exact HT|].
    { intros x y _ Hg. eapply pick_opt_nat; eauto. }
    exists vs'. cbn [to_list type_of_p astype_ty]. rewrite HT', HTy. cbn [bind]. auto.
  - (* ByteMasked *)
    apply andb_true_iff in HF. destruct HF as [_ HF]. cbn [to_list astype_p] in HT, HA.
    apply bind_ok in HT. destruct HT as (vs0 & Hvs0 & HT). apply rmap_ok in HA. destruct HA as (c0 & Hc0 & ->).
    destruct (IHc None _ _ HF Hvs0 Hc0) as (vs0' & HT' & HM & HTy).
    destruct (mapM_nat (fun im : Z * Z => let (i, b) := im in pick_opt vs0 (Bool.eqb (negb (b =? 0)) vw) i)
                (fun im : Z * Z => let (i, b) := im in pick_opt vs0' (Bool.eqb (negb (b =? 0)) vw) i)
                (astype_v dst (TOpt (type_of_p None c))) (zip (iota (zlen m)) m) vs) as (vs' & Hvs' & HMv); [|exact HT|].
    { intros [i b] y _ Hg. eapply pick_opt_nat; eauto. }
    exists vs'. cbn [to_list type_of_p astype_ty]. rewrite HT', HTy. cbn [bind]. auto.
  - (* BitMasked: the result is a ByteMaskedArray *)
    apply andb_true_iff in HF. destruct HF as [_ HF]. cbn [to_list astype_p] in HT, HA.
    apply bind_ok in HT. destruct HT as (vs0 & Hvs0 & HT).
    apply bind_ok in HA. destruct HA as (bm & Hbm & HA). apply rmap_ok in HA. destruct HA as (c0 & Hc0 & ->).
    destruct (n <? 0) eqn:En; [discriminate|].
    rewrite (Proofs_Carry.bitmask_as_bytemask vs0 m vw lsb n bm Hbm) in HT by lia.
    destruct (IHc None _ _ HF Hvs0 Hc0) as (vs0' & HT' & HM & HTy).
    destruct (mapM_nat (fun im : Z * Z => let (i, b) := im in pick_opt vs0 (Bool.eqb (negb (b =? 0)) vw) i)
                (fun im : Z * Z => let (i, b) := im in pick_opt vs0' (Bool.eqb (negb (b =? 0)) vw) i)
                (astype_v dst (TOpt (type_of_p None c))) (zip (iota (zlen bm)) bm) vs) as (vs' & Hvs' & HMv); [|exact HT|].
    { intros [i b] y _ Hg. eapply pick_opt_nat; eauto. }
    exists vs'. cbn [to_list type_of_p astype_ty]. rewrite HT', HTy. cbn [bind]. auto.
  - (* Unmasked *)
    apply andb_true_iff in HF. destruct HF as [_ HF]. cbn [to_list astype_p] in HT, HA.
    apply rmap_ok in HA. destruct HA as (c0 & Hc0 & ->).
    destruct (IHc None _ _ HF HT Hc0) as (vs' & HT' & HM & HTy).
    exists vs'. cbn [to_list type_of_p astype_ty]. rewrite HTy. split; [exact HT'|]. split; [|reflexivity].
    apply mapM_opt_lift. exact HM.
  - (* Union: not in the fragment *)
    discriminate.
  - (* Record *)
    apply andb_true_iff in HF. destruct HF as [_ HF]. rewrite afrag_all_forallb in HF.
    cbn [to_list astype_p] in HT, HA. rewrite all_fix_to_list in HT. rewrite astype_all_mapM in HA.
    apply bind_ok in HT. destruct HT as (vss & Hvss & HT). apply rmap_ok in HA. destruct HA as (cs' & Hcs' & ->).
    destruct (n <? 0) eqn:En; [discriminate|].
    destruct (fields_nat dst cs H _ _ HF Hvss Hcs') as (vss' & Hvss' & HC & HTys).
    destruct (mapM_nat (Layout.row ks vss) (Layout.row ks vss')
                (astype_v dst (TRec ks (map (type_of_p None) cs))) _ vs
                (fun x y _ => row_nat dst _ _ _ ks x y HC) HT) as (vs' & Hvs' & HMv).
    exists vs'. cbn [to_list type_of_p astype_ty]. rewrite all_fix_to_list, Hvss', En, HTys. cbn [bind]. auto.
  - (* Par *)
    apply andb_true_iff in HF. destruct HF as [_ HF]. cbn [to_list astype_p] in HT, HA.
    apply bind_ok in HT. destruct HT as (vs0 & Hvs0 & HT). apply rmap_ok in HA. destruct HA as (c0 & Hc0 & ->).
    destruct (IHc arr _ _ HF Hvs0 Hc0) as (vs0' & HT' & HM & HTy).
    cbn [type_of_p]. destruct (is_strk arr) eqn:Es.
    + destruct (str_frag_ty _ _ Es HF) as (s & b & t & Hty). rewrite Hty in *.
      cbn [astype_v] in HM. rewrite mapM_id in HM. inversion HM; subst vs0'.
      exists vs. cbn [to_list]. rewrite HT'. cbn [bind]. split; [exact HT|]. split; [|exact HTy].
      cbn [astype_v]. apply mapM_id.
    + exists vs0'. cbn [to_list]. rewrite HT'. cbn [bind].
      destruct arr as [[]|]; try discriminate; inversion HT; subst; auto.
Qed.

(* ================================================================ the property *)
Theorem astype_only_casts_pf : forall dst c vs c',
  astype_frag c = true ->
  to_list c = Ok vs -> astype_model dst c = Ok c' ->
  exists vs', to_list c' = Ok vs' /\ astype_spec dst (type_of c) vs = Ok vs' /\ type_of c' = astype_ty dst (type_of c).
Proof. intros dst c vs c' HF HT HA. exact (astype_structural dst c None vs c' HF HT HA). Qed.

(* ================================================================ valid layouts without unions are in the fragment *)
Lemma is_chars_like k c : is_chars k c = true -> chars_like c = true.
Proof.
  destruct c as [| | | | | | | | | | | |a rn c]; try discriminate.
  destruct a as [a|]; [|discriminate]. destruct c; try discriminate.
  destruct a; cbn [chars_like]; try reflexivity; intros H; cbn [is_chars] in H;
    destruct dt; try discriminate; destruct shape as [|? [|? ?]]; try discriminate; destruct k; discriminate.
Qed.
Lemma paramcheck_nolist p c : paramcheck p c = true -> list_content c = None -> p = None.
Proof. destruct p as [[]|]; cbn [paramcheck]; intros H HL; try discriminate; try reflexivity; rewrite HL in H; discriminate. Qed.
Lemma paramcheck_list p c c' :
  paramcheck p c = true -> list_content c = Some c' ->
  (is_strk p = true /\ chars_like c' = true) \/ p = None.
Proof.
  destruct p as [[]|]; cbn [paramcheck is_strk]; intros H HL; try discriminate; try (right; reflexivity);
    rewrite HL in H; left; split; try reflexivity; eapply is_chars_like; exact H.
Qed.

Lemma valid_all_Forall cs :
  (fix all (l : list content) : bool :=
     match l with [] => true | x :: xs => validb None x && all xs end) cs = forallb (validb None) cs.
Proof. induction cs as [|x xs IH]; cbn; [reflexivity|]. now rewrite IH. Qed.

Lemma valid_nounion_afrag c : forall p,
  validb p c = true -> has_union (type_of_p p c) = false -> afrag p c = true.
Proof.
  induction c using content_ind'; intros p HV HU; cbn [validb afrag type_of_p has_union] in *;
    repeat match type of HV with _ && _ = true => apply andb_true_iff in HV; destruct HV as [HV ?] end.
  - rewrite (paramcheck_nolist _ _ HV eq_refl). reflexivity.
  - rewrite (paramcheck_nolist _ _ HV eq_refl). reflexivity.
  - destruct (paramcheck_list _ _ _ HV eq_refl) as [[Hs Hc]| ->]; [now rewrite Hs|]. cbn [is_strk] in *. auto.
  - destruct (paramcheck_list _ _ _ HV eq_refl) as [[Hs Hc]| ->]; [now rewrite Hs|]. cbn [is_strk] in *. auto.
  - destruct (paramcheck_list _ _ _ HV eq_refl) as [[Hs Hc]| ->]; [now rewrite Hs|]. cbn [is_strk] in *. auto.
  - rewrite (paramcheck_nolist _ _ HV eq_refl). cbn [is_strk negb andb]. auto.
  - rewrite (paramcheck_nolist _ _ HV eq_refl). cbn [is_strk negb andb]. auto.
  - rewrite (paramcheck_nolist _ _ HV eq_refl). cbn [is_strk negb andb]. auto.
  - rewrite (paramcheck_nolist _ _ HV eq_refl). cbn [is_strk negb andb]. auto.
  - rewrite (paramcheck_nolist _ _ HV eq_refl). cbn [is_strk negb andb]. auto.
  - discriminate.
  - rewrite (paramcheck_nolist _ _ HV eq_refl). cbn [is_strk negb andb].
    rewrite afrag_all_forallb. rewrite valid_all_Forall in *.
    match goal with Hall : forallb (validb None) cs = true |- _ => rename Hall into HA end.
    clear -H HA HU. induction H as [|x xs Hx _ IH]; [reflexivity|].
    cbn [forallb map existsb] in *. apply andb_true_iff in HA. destruct HA as [HA1 HA2].
    apply orb_false_iff in HU. destruct HU as [HU1 HU2].
    rewrite (Hx None HA1 HU1), (IH HA2 HU2). reflexivity.
  - destruct p; [discriminate|]. cbn [is_strk negb andb]. destruct c; try discriminate; apply IHc; assumption.
Qed.

(* the same property stated on valid layouts whose type contains no union *)
Theorem astype_only_casts_valid_pf : forall dst c vs c',
  valid_b c = true -> has_union (type_of c) = false ->
  to_list c = Ok vs -> astype_model dst c = Ok c' ->
  exists vs', to_list c' = Ok vs' /\ astype_spec dst (type_of c) vs = Ok vs' /\ type_of c' = astype_ty dst (type_of c).
Proof.
  intros dst c vs c' HV HU. apply astype_only_casts_pf. apply valid_nounion_afrag; assumption.
Qed.

(* ================================================================ a non-trivial layout in the fragment *)
(* list of option of record {a: 2-d numpy (int64 [_,2]), b: list of float64, s: string} -> uint8 *)
Example astype_example :
  let str := Par (Some AString) None
               (ListOffset I64 [0; 2; 3] (Par (Some AChar) None (Numpy DUInt8 [3] [DZ 104; DZ 105; DZ 33]))) in
  let rec := Par None (Some [112])
               (Record [Numpy DInt64 [2; 2] [DZ 1; DZ 300; DZ (-1); DZ 4];
                        ListOffset I64 [0; 1; 3] (Numpy DFloat64 [3] [DZ 7; DZ 8; DZ 9]);
                        str] (Some [[97]; [98]; [115]]) 2) in
  let c := ListOffset I64 [0; 2; 2; 3] (IndexedOption I64 [1; -1; 0] rec) in
  astype_frag c = true /\ valid_b c = true /\ has_union (type_of c) = false /\
  to_list c =
    Ok [VList [VRec [([97], VList [VNum (DZ (-1)); VNum (DZ 4)]); ([98], VList [VNum (DZ 8); VNum (DZ 9)]); ([115], VStr true [33])];
               VNone];
        VList [];
        VList [VRec [([97], VList [VNum (DZ 1); VNum (DZ 300)]); ([98], VList [VNum (DZ 7)]); ([115], VStr true [104; 105])]]] /\
  (do c' <- astype_model DUInt8 c; to_list c') =
    Ok [VList [VRec [([97], VList [VNum (DZ 255); VNum (DZ 4)]); ([98], VList [VNum (DZ 8); VNum (DZ 9)]); ([115], VStr true [33])];
               VNone];
        VList [];
        VList [VRec [([97], VList [VNum (DZ 1); VNum (DZ 44)]); ([98], VList [VNum (DZ 7)]); ([115], VStr true [104; 105])]]] /\
  rmap type_of (astype_model DUInt8 c) =
    Ok (TList None None (TOpt (TRec (Some [[97]; [98]; [115]])
          [TList (Some 2) None (TNum DUInt8); TList None None (TNum DUInt8); TList None (Some true) (TNum DUInt8)]))).
Proof. vm_compute. repeat split; reflexivity. Qed.

(* a BitMaskedArray comes back as a ByteMaskedArray with the same values *)
Example astype_bitmasked_example :
  let c := BitMasked [5] true true 4 (Numpy DInt64 [4] [DZ 1; DZ 2; DZ 300; DZ 4]) in
  astype_frag c = true /\
  astype_model DUInt8 c = Ok (ByteMasked [1; 0; 1; 0] true (Numpy DUInt8 [4] [DZ 1; DZ 2; DZ 44; DZ 4])) /\
  to_list c = Ok [VNum (DZ 1); VNone; VNum (DZ 300); VNone] /\
  (do c' <- astype_model DUInt8 c; to_list c') = Ok [VNum (DZ 1); VNone; VNum (DZ 44); VNone].
Proof. vm_compute. repeat split; reflexivity. Qed.

Print Assumptions astype_only_casts_pf.
Print Assumptions astype_only_casts_valid_pf.
