(** C17b, forms once more: the fragment on which a gather keeps the Form EXACTLY (no ListOffsetArray / BitMaskedArray
    on the path the gather rebuilds); array[["k1", ...]] at the level of Form::type with parameters. *)
From Coq Require Import ZArith List Bool Lia ZifyBool String.
From AwkV Require Import Base Layout LayoutInd Valid Types Carry AtAxis Ops_Getitem Proofs_Lists Proofs_ToList
                         Proofs_Carry Proofs_C11.
From AwkTypes Require Import Json Forms TypeStr Typing Proofs_Depth Proofs_Types Proofs_Typing Examples_C17
                             Proofs_C17b_Elem Proofs_C17b_ElemRange Proofs_C17b_ElemField.
Import ListNotations.
Open Scope Z_scope.
Ltac Zify.zify_post_hook ::= Z.to_euclidean_division_equations.

(* ---------------------------------------------------------------- exact form preservation *)
(* the nodes a gather rebuilds: RegularArray, ByteMaskedArray, UnmaskedArray, RecordArray fields, parameter nodes;
   it stops at ListArray / IndexedArray / IndexedOptionArray / UnionArray / leaves (content kept as is).  On that
   path a ListOffsetArray becomes a ListArray and a BitMaskedArray a ByteMaskedArray: everything else keeps its Form. *)
Fixpoint carry_form_stable (c : content) : bool :=
  match c with
  | Numpy _ _ _ | Empty | ListA _ _ _ _ | Indexed _ _ _ | IndexedOption _ _ _ | Union _ _ _ _ => true
  | ListOffset _ _ _ | BitMasked _ _ _ _ _ => false
  | Regular c' _ _ | ByteMasked _ _ c' | Unmasked c' | Par _ _ c' => carry_form_stable c'
  | Record cs _ _ => forallb carry_form_stable cs
  end.

Lemma carry_all_forms_exact (cs : list content) ix :
  Forall (fun c => carry_form_stable c = true -> forall ix c', carry c ix = Ok c' -> forall a r, form_of_p a r c' = form_of_p a r c) cs ->
  forallb carry_form_stable cs = true ->
  forall cs',
    (fix all (l : list content) : res (list content) :=
       match l with
       | [] => Ok []
       | x :: xs => do y <- carry x ix; do ys <- all xs; Ok (y :: ys)
       end) cs = Ok cs' ->
    map (form_of_p None None) cs' = map (form_of_p None None) cs.
Proof.
  induction 1 as [|c cs Hc Hcs IH]; intros Hs cs' H.
  - inversion H. reflexivity.
  - cbn [forallb] in Hs. apply andb_true_iff in Hs as [Hs1 Hs2].
    destruct (carry c ix) as [y|] eqn:Ey; [|discriminate]. cbn [bind] in H.
    match type of H with bind ?X _ = _ => destruct X as [ys|] eqn:Eys end; [|discriminate].
    cbn [bind] in H. inversion H; subst. cbn [map]. rewrite (Hc Hs1 ix y Ey None None), (IH Hs2 ys eq_refl). reflexivity.
Qed.

Theorem carry_preserves_form_exact_thm c : carry_form_stable c = true -> forall ix c', carry c ix = Ok c' ->
  forall a r, form_of_p a r c' = form_of_p a r c.
Proof.
  induction c as [ | | | | | | | | | | w t ix cs HF | cs ks n HF | ] using content_ind'; intros Hs ix' c' H a r;
    cbn [carry_form_stable] in Hs; try discriminate Hs; cbn [carry] in H.
  - destruct shape as [|n dims]; [discriminate|].
    destruct (mapM _ ix') as [rows|]; [|discriminate]. cbn [bind] in H. inversion H; subst. reflexivity.
  - destruct ix'; inversion H; reflexivity.
  - destruct (gather s ix'); [|discriminate]. cbn [bind] in H.
    destruct (gather e ix'); [|discriminate]. cbn [bind] in H. inversion H; subst. reflexivity.
  - destruct (mapM _ ix') as [next|]; [|discriminate]. cbn [bind] in H.
    destruct (carry c (concat next)) as [c''|] eqn:Ec; [|discriminate]. cbn [bind] in H. inversion H; subst.
    cbn [form_of_p]. rewrite (IHc Hs _ _ Ec None None). reflexivity.
  - destruct (gather ix ix'); [|discriminate]. cbn [bind] in H. inversion H; subst. reflexivity.
  - destruct (gather ix ix'); [|discriminate]. cbn [bind] in H. inversion H; subst. reflexivity.
  - destruct (gather m ix'); [|discriminate]. cbn [bind] in H.
    destruct (carry c ix') as [c''|] eqn:Ec; [|discriminate]. cbn [bind] in H. inversion H; subst.
    cbn [form_of_p]. rewrite (IHc Hs _ _ Ec None None). reflexivity.
  - destruct (carry c ix') as [c''|] eqn:Ec; [|discriminate]. cbn [bind] in H. inversion H; subst.
    cbn [form_of_p]. rewrite (IHc Hs _ _ Ec None None). reflexivity.
  - destruct (gather t ix'); [|discriminate]. cbn [bind] in H.
    destruct (gather (take (zlen t) ix) ix'); [|discriminate]. cbn [bind] in H. inversion H; subst. reflexivity.
  - destruct (forallb _ ix'); [|discriminate].
    match type of H with bind ?X _ = _ => destruct X as [cs'|] eqn:Ecs end; [|discriminate].
    cbn [bind] in H. inversion H; subst. cbn [form_of_p]. f_equal.
    apply (carry_all_forms_exact cs ix'); [exact HF|exact Hs|exact Ecs].
  - destruct (carry c ix') as [c''|] eqn:Ec; [|discriminate]. cbn [bind] in H. inversion H; subst.
    cbn [form_of_p]. apply (IHc Hs _ _ Ec).
Qed.

Theorem crange_preserves_form_exact_thm c a b c' :
  carry_form_stable c = true -> crange c a b = Ok c' -> form_of c' = form_of c.
Proof. intros Hs H. exact (carry_preserves_form_exact_thm c Hs _ _ H None None). Qed.

(* a second slice is always form-exact: the result of a gather is in the fragment *)
Theorem carry_result_form_stable_thm c : forall ix c', carry c ix = Ok c' -> carry_form_stable c' = true.
Proof.
  induction c as [ | | | | | | | | | | w t ix cs HF | cs ks n HF | ] using content_ind'; intros ix' c' H; cbn [carry] in H.
  - destruct shape as [|n dims]; [discriminate|].
    destruct (mapM _ ix') as [rows|]; [|discriminate]. cbn [bind] in H. inversion H; subst. reflexivity.
  - destruct ix'; inversion H; reflexivity.
  - destruct (gather (removelast o) ix'); [|discriminate]. cbn [bind] in H.
    destruct (gather (tl o) ix'); [|discriminate]. cbn [bind] in H. inversion H; subst. reflexivity.
  - destruct (gather s ix'); [|discriminate]. cbn [bind] in H.
    destruct (gather e ix'); [|discriminate]. cbn [bind] in H. inversion H; subst. reflexivity.
  - destruct (mapM _ ix') as [next|]; [|discriminate]. cbn [bind] in H.
    destruct (carry c (concat next)) as [c''|] eqn:Ec; [|discriminate]. cbn [bind] in H. inversion H; subst.
    cbn [carry_form_stable]. exact (IHc _ _ Ec).
  - destruct (gather ix ix'); [|discriminate]. cbn [bind] in H. inversion H; subst. reflexivity.
  - destruct (gather ix ix'); [|discriminate]. cbn [bind] in H. inversion H; subst. reflexivity.
  - destruct (gather m ix'); [|discriminate]. cbn [bind] in H.
    destruct (carry c ix') as [c''|] eqn:Ec; [|discriminate]. cbn [bind] in H. inversion H; subst.
    cbn [carry_form_stable]. exact (IHc _ _ Ec).
  - destruct (bytemask_of_bits m lsb n) as [bm|]; [|discriminate]. cbn [bind] in H.
    destruct (gather bm ix'); [|discriminate]. cbn [bind] in H.
    destruct (carry c ix') as [c''|] eqn:Ec; [|discriminate]. cbn [bind] in H. inversion H; subst.
    cbn [carry_form_stable]. exact (IHc _ _ Ec).
  - destruct (carry c ix') as [c''|] eqn:Ec; [|discriminate]. cbn [bind] in H. inversion H; subst.
    cbn [carry_form_stable]. exact (IHc _ _ Ec).
  - destruct (gather t ix'); [|discriminate]. cbn [bind] in H.
    destruct (gather (take (zlen t) ix) ix'); [|discriminate]. cbn [bind] in H. inversion H; subst. reflexivity.
  - destruct (forallb _ ix'); [|discriminate].
    match type of H with bind ?X _ = _ => destruct X as [cs'|] eqn:Ecs end; [|discriminate].
    cbn [bind] in H. inversion H; subst. cbn [carry_form_stable].
    clear H. revert cs' Ecs. induction HF as [|c cs Hc _ IH]; intros cs' Ecs.
    + inversion Ecs. reflexivity.
    + destruct (carry c ix') as [y|] eqn:Ey; [|discriminate]. cbn [bind] in Ecs.
      match type of Ecs with bind ?X _ = _ => destruct X as [ys|] eqn:Eys end; [|discriminate].
      cbn [bind] in Ecs. inversion Ecs; subst. cbn [forallb]. rewrite (Hc _ _ Ey), (IH ys eq_refl). reflexivity.
  - destruct (carry c ix') as [c''|] eqn:Ec; [|discriminate]. cbn [bind] in H. inversion H; subst.
    cbn [carry_form_stable]. exact (IHc _ _ Ec).
Qed.

Theorem second_slice_form_exact_thm c ix c1 ix2 c2 :
  carry c ix = Ok c1 -> carry c1 ix2 = Ok c2 -> form_of c2 = form_of c1.
Proof.
  intros H1 H2. exact (carry_preserves_form_exact_thm c1 (carry_result_form_stable_thm c ix c1 H1) ix2 c2 H2 None None).
Qed.

Example ex_form_exact :
  carry_form_stable ex_layout = false /\
  (do c1 <- crange ex_layout 0 2; do c2 <- crange c1 1 2; Ok (form_of c1 = form_of ex_layout, form_of c2 = form_of c1)) <> Err EValue /\
  exists c1 c2, crange ex_layout 0 2 = Ok c1 /\ crange c1 1 2 = Ok c2 /\ form_of c2 = form_of c1 /\ form_of c1 <> form_of ex_layout.
Proof.
  split; [reflexivity|]. split; [vm_compute; discriminate|]. do 2 eexists. split; [vm_compute; reflexivity|].
  split; [vm_compute; reflexivity|]. split; [reflexivity|]. vm_compute. discriminate.
Qed.

(* ---------------------------------------------------------------- array[["k1", ...]] on types with parameters *)
Fixpoint projs_rty (ks : list name) (t : rty) {struct t} : res rty :=
  match t with
  | RRec _ _ keys l =>
      do l' <- mapM (fun k => do i <- field_pos keys (zlen l) k; get l i) ks;
      Ok (RRec [] [] (match keys with Some _ => Some ks | None => None end) l')
  | RList _ _ t' => rmap (RList [] []) (projs_rty ks t')
  | RReg _ _ n t' => rmap (RReg [] [] n) (projs_rty ks t')
  | ROpt _ _ t' => rmap (ROpt [] []) (projs_rty ks t')
  | _ => Err EValue
  end.

Lemma projs_rty_set_params ks p t : projs_rty ks (rty_set_params p t) = projs_rty ks t.
Proof. destruct t; reflexivity. Qed.

Lemma type_of_form_indexed_projs ts ks m w f t0 t :
  type_of_form ts f = Ok t0 -> type_of_form ts (FIndexed m w f) = Ok t -> projs_rty ks t = projs_rty ks t0.
Proof.
  intros H0 H. cbn [type_of_form] in H. rewrite H0 in H. cbn [bind] in H.
  destruct (rty_params t0), (m_params m); inversion H; subst; try reflexivity; apply projs_rty_set_params.
Qed.

Lemma fields_pick_rtypes {B} (F : B -> res rty) (cs : list B) keys l ks : forall fs,
  mapM_id (map F cs) = Ok l ->
  mapM (fun k => do i <- field_pos keys (zlen cs) k; get cs i) ks = Ok fs ->
  exists l', mapM (fun k => do i <- field_pos keys (zlen l) k; get l i) ks = Ok l' /\ mapM_id (map F fs) = Ok l'.
Proof.
  intros fs Hl. revert fs. induction ks as [|k ks IH]; intros fs H.
  - inversion H. exists []. split; reflexivity.
  - rewrite mapM_cons in H. apply bind_Ok in H as (f & Hf & H). apply bind_Ok in H as (fs' & Hfs & H). inversion H; subst.
    apply bind_Ok in Hf as (i & Hi & Hf). destruct (IH _ Hfs) as (l' & Hl' & Hm).
    destruct (mapM_id_get' F cs l i f Hl Hf) as (tf & Htf & Hg).
    exists (tf :: l'). split.
    + rewrite mapM_cons. rewrite (mapM_id_zlen _ _ Hl), zlen_map, Hi. cbn [bind]. rewrite Hg. cbn [bind].
      rewrite (mapM_id_zlen _ _ Hl), zlen_map in Hl'. rewrite Hl'. reflexivity.
    + cbn [map mapM_id]. rewrite Htf. cbn [bind]. rewrite Hm. reflexivity.
Qed.

Theorem fields_content_rtype_thm ts ks c : forall r c' t,
  fields_content ks c = Ok c' -> type_of_form ts (form_of_p None r c) = Ok t ->
  exists t', projs_rty ks t = Ok t' /\ type_of_form ts (form_of c') = Ok t'.
Proof.
  induction c as [ | | | | | | | | | | w tg ix cs HF | cs keys n HF | ] using content_ind'; intros r c' t H Ht;
    cbn [fields_content] in H; try discriminate H.
  - apply rmap_Ok in H as (c0 & Hc0 & ->). cbn [form_of_p type_of_form] in Ht. apply bind_Ok in Ht as (t0 & Ht0 & Ht).
    inversion Ht; subst. destruct (IHc None _ _ Hc0 Ht0) as (t0' & Hp & Ht0').
    exists (RList [] [] t0'). split; [cbn [projs_rty]; rewrite Hp; reflexivity|].
    unfold form_of in *. cbn [form_of_p type_of_form]. rewrite Ht0'. reflexivity.
  - apply rmap_Ok in H as (c0 & Hc0 & ->). cbn [form_of_p type_of_form] in Ht. apply bind_Ok in Ht as (t0 & Ht0 & Ht).
    inversion Ht; subst. destruct (IHc None _ _ Hc0 Ht0) as (t0' & Hp & Ht0').
    exists (RList [] [] t0'). split; [cbn [projs_rty]; rewrite Hp; reflexivity|].
    unfold form_of in *. cbn [form_of_p type_of_form]. rewrite Ht0'. reflexivity.
  - apply rmap_Ok in H as (c0 & Hc0 & ->). cbn [form_of_p type_of_form] in Ht. apply bind_Ok in Ht as (t0 & Ht0 & Ht).
    inversion Ht; subst. destruct (IHc None _ _ Hc0 Ht0) as (t0' & Hp & Ht0').
    exists (RReg [] [] size t0'). split; [cbn [projs_rty]; rewrite Hp; reflexivity|].
    unfold form_of in *. cbn [form_of_p type_of_form]. rewrite Ht0'. reflexivity.
  - apply rmap_Ok in H as (c0 & Hc0 & ->). cbn [form_of_p] in Ht.
    destruct (type_of_form ts (form_of_p None None c)) as [t0|] eqn:Ht0; [|cbn [type_of_form] in Ht; rewrite Ht0 in Ht; discriminate Ht].
    rewrite (type_of_form_indexed_projs ts ks _ _ _ t0 t Ht0 Ht).
    destruct (IHc None _ _ Hc0 Ht0) as (t0' & Hp & Ht0'). exists t0'. split; [exact Hp|].
    unfold form_of in *. cbn [form_of_p type_of_form]. rewrite Ht0'. cbn [bind meta_of m_params params_of app].
    destruct (rty_params t0'); reflexivity.
  - apply rmap_Ok in H as (c0 & Hc0 & ->). cbn [form_of_p type_of_form] in Ht. apply bind_Ok in Ht as (t0 & Ht0 & Ht).
    inversion Ht; subst. destruct (IHc None _ _ Hc0 Ht0) as (t0' & Hp & Ht0').
    exists (ROpt [] [] t0'). split; [cbn [projs_rty]; rewrite Hp; reflexivity|].
    unfold form_of in *. cbn [form_of_p type_of_form]. rewrite Ht0'. reflexivity.
  - apply rmap_Ok in H as (c0 & Hc0 & ->). cbn [form_of_p type_of_form] in Ht. apply bind_Ok in Ht as (t0 & Ht0 & Ht).
    inversion Ht; subst. destruct (IHc None _ _ Hc0 Ht0) as (t0' & Hp & Ht0').
    exists (ROpt [] [] t0'). split; [cbn [projs_rty]; rewrite Hp; reflexivity|].
    unfold form_of in *. cbn [form_of_p type_of_form]. rewrite Ht0'. reflexivity.
  - apply rmap_Ok in H as (c0 & Hc0 & ->). cbn [form_of_p type_of_form] in Ht. apply bind_Ok in Ht as (t0 & Ht0 & Ht).
    inversion Ht; subst. destruct (IHc None _ _ Hc0 Ht0) as (t0' & Hp & Ht0').
    exists (ROpt [] [] t0'). split; [cbn [projs_rty]; rewrite Hp; reflexivity|].
    unfold form_of in *. cbn [form_of_p type_of_form]. rewrite Ht0'. reflexivity.
  - apply rmap_Ok in H as (c0 & Hc0 & ->). cbn [form_of_p type_of_form] in Ht. apply bind_Ok in Ht as (t0 & Ht0 & Ht).
    inversion Ht; subst. destruct (IHc None _ _ Hc0 Ht0) as (t0' & Hp & Ht0').
    exists (ROpt [] [] t0'). split; [cbn [projs_rty]; rewrite Hp; reflexivity|].
    unfold form_of in *. cbn [form_of_p type_of_form]. rewrite Ht0'. reflexivity.
  - (* Record *)
    apply bind_Ok in H as (fs & Hfs & H). inversion H; subst.
    cbn [form_of_p type_of_form] in Ht. apply bind_Ok in Ht as (l & Hl & Ht). inversion Ht; subst.
    rewrite map_map in Hl.
    destruct (fields_pick_rtypes (fun c => type_of_form ts (form_of_p None None c)) cs keys l ks fs Hl Hfs) as (l' & Hl' & Hm).
    eexists. split; [cbn [projs_rty]; rewrite Hl'; reflexivity|].
    unfold form_of. cbn [form_of_p type_of_form]. rewrite map_map, Hm. reflexivity.
  - destruct arr; [discriminate H|]. cbn [form_of_p por] in Ht. exact (IHc _ _ _ H Ht).
Qed.

Theorem getitem_fields_rtype_thm ts ks c c' t :
  fields_content ks c = Ok c' -> type_of_form ts (form_of c) = Ok t ->
  exists t', projs_rty ks t = Ok t' /\ type_of_form ts (form_of c') = Ok t'.
Proof. apply fields_content_rtype_thm. Qed.

Example ex_fields_rtype :
  (do c' <- fields_content [[121]; [120]] ex_param_layout; rmap type_tostring (type_of_form [(s_string, p_string)] (form_of c'))) =
    Ok (bytes_of_string "option[var * {""y"": string, ""x"": 2 * int64}]"%string) /\
  (do t <- type_of_form [(s_string, p_string)] (form_of ex_param_layout); rmap type_tostring (projs_rty [[121]; [120]] t)) =
    Ok (bytes_of_string "option[var * {""y"": string, ""x"": 2 * int64}]"%string).
Proof. split; vm_compute; reflexivity. Qed.

(* ---------------------------------------------------------------- the item list covers the whole item type *)
(* not only the actual elements: EVERY value of the array's item type matches one of the listed items *)
Theorem items_cover_type_thm ts c :
  Valid None c ->
  exists l, item_types ts (form_of c) = Ok l /\
            forall v, has_type (type_of c) v -> existsb (fun it => Proofs_C17b_Elem.item_matches it v) l = true.
Proof. intros HV. exact (Proofs_C17b_Elem.item_types_cover ts c None None HV). Qed.

(* the converse holds only up to the regular size, which is not part of an item: a list of the wrong length
   matches the IArray item of a RegularArray but does not have its type *)
Example items_converse_regular_refuted :
  let c := Regular (Numpy DInt64 [6] [DZ 1; DZ 2; DZ 3; DZ 4; DZ 5; DZ 6]) 3 0 in
  validb None c = true /\
  (do l <- item_types [] (form_of c); Ok (existsb (fun it => Proofs_C17b_Elem.item_matches it (VList [VNum (DZ 1)])) l)) = Ok true /\
  has_typeb (type_of c) (VList [VNum (DZ 1)]) = false /\
  has_typeb (type_of c) (VList [VNum (DZ 1); VNum (DZ 2); VNum (DZ 3)]) = true.
Proof. vm_compute. repeat split. Qed.

(* ... and up to the string unit: the IArray item of an array of strings is the uint8 "char" leaf type, which a plain
   list of numbers matches as well (item_matches accepts a list whose elements have the erased item type), although
   the array's item type is "string" *)
Example items_converse_string_refuted :
  let c := Par (Some AString) None (ListOffset I64 [0; 2] (Par (Some AChar) None (Numpy DUInt8 [2] [DZ 104; DZ 105]))) in
  validb None c = true /\
  (do l <- item_types [] (form_of c); Ok (map (fun v => existsb (fun it => Proofs_C17b_Elem.item_matches it v) l)
                                              [VStr true [104; 105]; VList [VNum (DZ 104)]; VStr false [104]])) = Ok [true; true; false] /\
  map (has_typeb (type_of c)) [VStr true [104; 105]; VList [VNum (DZ 104)]; VStr false [104]] = [true; false; false].
Proof. vm_compute. repeat split. Qed.
