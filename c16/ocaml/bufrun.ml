(* bufrun: the extracted C16 model (Buffers.v) as a voter.
   input : (id buffers LAYOUT (impl (form FORMSX) (len N) (container (ID ATTR DTYPE (v...))...) (trace (ID N)...)
                                     (rt ok DUMP | err | none)))
   output: (id agree FEATURES) | (id modeldiff WHAT ...) | (id viol WHAT ...) | (id skip REASON) | (id bad (...))
   Compared: model form == implementation form; container keys and contents; the lengths _form_to_layout was called
   with (trace) == [needs]; from_buffers(model container) == the implementation's round-tripped dump (physically),
   or both refuse; value / type of the round-tripped dump == the input's through the extracted to_list / type_of. *)
open C16model
open Sx
open Rd

let z = z_of_sx
let zs l = String.concat " " (List.map string_of_z l)

(* ---------------------------------------------------------------- printing layouts in the syntax of the dumps *)
let string_of_width = function I32 -> "i32" | U32 -> "u32" | I64 -> "i64"
let string_of_dtype = function
  | DBool -> "bool" | DInt8 -> "int8" | DInt16 -> "int16" | DInt32 -> "int32" | DInt64 -> "int64"
  | DUInt8 -> "uint8" | DUInt16 -> "uint16" | DUInt32 -> "uint32" | DUInt64 -> "uint64"
  | DFloat32 -> "float32" | DFloat64 -> "float64"
let string_of_akind = function
  | None -> "none" | Some AString -> "string" | Some ABytestring -> "bytestring" | Some AChar -> "char"
  | Some AByte -> "byte" | Some ACategorical -> "categorical"
let b01 b = if b then "1" else "0"
let data_str dt l =
  String.concat " " (List.map (fun d -> match dt, d with
      | DBool, DZ x -> if x = Z0 then "0" else "1"
      | _ -> string_of_datum d) l)
let rec string_of_content (c : content) : string =
  match c with
  | Numpy (dt, sh, data) -> Printf.sprintf "(np %s (%s) (%s))" (string_of_dtype dt) (zs sh) (data_str dt data)
  | Empty -> "(empty)"
  | ListOffset (w, o, c') -> Printf.sprintf "(lo %s (%s) %s)" (string_of_width w) (zs o) (string_of_content c')
  | ListA (w, s, e, c') -> Printf.sprintf "(la %s (%s) (%s) %s)" (string_of_width w) (zs s) (zs e) (string_of_content c')
  | Regular (c', size, zl) ->
    (* the dumps print the length the C++ node reports: len(content) / size unless size = 0 *)
    Printf.sprintf "(reg %s %s %s)" (string_of_z size) (string_of_z (clen c)) (string_of_content c')
  | Indexed (w, ix, c') -> Printf.sprintf "(ix %s (%s) %s)" (string_of_width w) (zs ix) (string_of_content c')
  | IndexedOption (w, ix, c') -> Printf.sprintf "(ixo %s (%s) %s)" (string_of_width w) (zs ix) (string_of_content c')
  | ByteMasked (m, vw, c') -> Printf.sprintf "(bym (%s) %s %s)" (zs m) (b01 vw) (string_of_content c')
  | BitMasked (m, vw, lsb, n, c') ->
    Printf.sprintf "(bim (%s) %s %s %s %s)" (zs m) (b01 vw) (b01 lsb) (string_of_z n) (string_of_content c')
  | Unmasked c' -> Printf.sprintf "(unm %s)" (string_of_content c')
  | Union (w, t, ix, cs) ->
    Printf.sprintf "(un %s (%s) (%s)%s)" (string_of_width w) (zs t) (zs ix)
      (String.concat "" (List.map (fun x -> " " ^ string_of_content x) cs))
  | Record (cs, ks, n) ->
    Printf.sprintf "(rec %s %s%s)" (string_of_z n)
      (match ks with None -> "tuple" | Some l -> "(" ^ String.concat " " (List.map string_of_name l) ^ ")")
      (String.concat "" (List.map (fun x -> " " ^ string_of_content x) cs))
  | Par (a, r, c') ->
    Printf.sprintf "(par %s %s %s)" (string_of_akind a) (match r with None -> "none" | Some n -> string_of_name n)
      (string_of_content c')

(* ---------------------------------------------------------------- forms *)
let rec form_of_sx (x : Sx.t) : form =
  match x with
  | L [A "fnp"; A dt; inner; fk] -> FNumpy (dtype_of dt, zs_of_sx inner, z fk)
  | L [A "fempty"; fk] -> FEmpty (z fk)
  | L [A "flo"; A w; f; fk] -> FListOffset (width_of w, form_of_sx f, z fk)
  | L [A "fla"; A w; f; fk] -> FList (width_of w, form_of_sx f, z fk)
  | L [A "freg"; f; size; fk] -> FRegular (form_of_sx f, z size, z fk)
  | L [A "fix"; A w; f; fk] -> FIndexed (width_of w, form_of_sx f, z fk)
  | L [A "fixo"; A w; f; fk] -> FIndexedOption (width_of w, form_of_sx f, z fk)
  | L [A "fbym"; f; vw; fk] -> FByteMasked (form_of_sx f, bool_of_sx vw, z fk)
  | L [A "fbim"; f; vw; lsb; fk] -> FBitMasked (form_of_sx f, bool_of_sx vw, bool_of_sx lsb, z fk)
  | L [A "funm"; f; fk] -> FUnmasked (form_of_sx f, z fk)
  | L (A "fun" :: A w :: fk :: fs) -> FUnion (width_of w, List.map form_of_sx fs, z fk)
  | L (A "frec" :: fk :: ks :: fs) ->
    let keys = match ks with
      | A "tuple" -> None
      | L l -> Some (List.map (function A k -> name_of_string k | _ -> bad "key") l)
      | _ -> bad "keys" in
    FRecord (List.map form_of_sx fs, keys, z fk)
  | L [A "fpar"; A arr; A rn; f] ->
    FPar (akind_of arr, (if rn = "none" then None else Some (name_of_string rn)), form_of_sx f)
  | _ -> bad ("form: " ^ Sx.to_string x)

let rec string_of_form (f : form) : string =
  let k = string_of_z in
  match f with
  | FNumpy (dt, inner, fk) -> Printf.sprintf "(fnp %s (%s) %s)" (string_of_dtype dt) (zs inner) (k fk)
  | FEmpty fk -> Printf.sprintf "(fempty %s)" (k fk)
  | FListOffset (w, f', fk) -> Printf.sprintf "(flo %s %s %s)" (string_of_width w) (string_of_form f') (k fk)
  | FList (w, f', fk) -> Printf.sprintf "(fla %s %s %s)" (string_of_width w) (string_of_form f') (k fk)
  | FRegular (f', size, fk) -> Printf.sprintf "(freg %s %s %s)" (string_of_form f') (k size) (k fk)
  | FIndexed (w, f', fk) -> Printf.sprintf "(fix %s %s %s)" (string_of_width w) (string_of_form f') (k fk)
  | FIndexedOption (w, f', fk) -> Printf.sprintf "(fixo %s %s %s)" (string_of_width w) (string_of_form f') (k fk)
  | FByteMasked (f', vw, fk) -> Printf.sprintf "(fbym %s %s %s)" (string_of_form f') (b01 vw) (k fk)
  | FBitMasked (f', vw, lsb, fk) -> Printf.sprintf "(fbim %s %s %s %s)" (string_of_form f') (b01 vw) (b01 lsb) (k fk)
  | FUnmasked (f', fk) -> Printf.sprintf "(funm %s %s)" (string_of_form f') (k fk)
  | FUnion (w, fs, fk) ->
    Printf.sprintf "(fun %s %s%s)" (string_of_width w) (k fk) (String.concat "" (List.map (fun x -> " " ^ string_of_form x) fs))
  | FRecord (fs, ks, fk) ->
    Printf.sprintf "(frec %s %s%s)" (k fk)
      (match ks with None -> "tuple" | Some l -> "(" ^ String.concat " " (List.map string_of_name l) ^ ")")
      (String.concat "" (List.map (fun x -> " " ^ string_of_form x) fs))
  | FPar (a, r, f') ->
    Printf.sprintf "(fpar %s %s %s)" (string_of_akind a) (match r with None -> "none" | Some n -> string_of_name n)
      (string_of_form f')

(* ---------------------------------------------------------------- containers *)
let attr_name = function
  | AOffsets -> "offsets" | AStarts -> "starts" | AStops -> "stops" | AIndex -> "index" | AMask -> "mask"
  | ATags -> "tags" | AData -> "data"
let entry_string ((fk, a), b) =
  match b with
  | BIdx l -> Printf.sprintf "(%s %s idx (%s))" (string_of_z fk) (attr_name a) (zs l)
  | BData (dt, l) -> Printf.sprintf "(%s %s %s (%s))" (string_of_z fk) (attr_name a) (string_of_dtype dt) (data_str dt l)
(* implementation entry (ID ATTR DTYPE (v...)) normalised to the same text *)
let impl_entry_string (x : Sx.t) : string =
  match x with
  | L [A fk; A attr; A dt; L vals] ->
    if attr = "data" then
      let d = dtype_of dt in
      Printf.sprintf "(%s %s %s (%s))" fk attr dt (data_str d (List.map datum_of_sx vals))
    else Printf.sprintf "(%s %s idx (%s))" fk attr (zs (List.map z_of_sx vals))
  | _ -> bad ("container entry: " ^ Sx.to_string x)

let field name (l : Sx.t list) : Sx.t list option =
  let rec go = function
    | [] -> None
    | L (A n :: rest) :: _ when n = name -> Some rest
    | _ :: tl -> go tl in
  go l

let norm s = String.concat " " (List.filter (fun x -> x <> "") (String.split_on_char ' ' s))

let run (id : string) (lay : Sx.t) (impl : Sx.t list) : string =
  let c = content_of_sx lay in
  if not (valid_b c) then Printf.sprintf "(%s skip invalid-input)" id else
  let ((mf, mlen), mct) = to_buffers c in
  let diffs = ref [] in
  let add s = diffs := s :: !diffs in
  (* 1. form *)
  (match field "form" impl with
   | Some [f] ->
     let fi = string_of_form (form_of_sx f) and fm = string_of_form mf in
     if fi <> fm then add (Printf.sprintf "(form (impl %s) (model %s))" fi fm)
   | _ -> bad "no form");
  (* 2. length *)
  (match field "len" impl with
   | Some [n] -> if z n <> mlen then add (Printf.sprintf "(len (impl %s) (model %s))" (Sx.to_string n) (string_of_z mlen))
   | _ -> bad "no len");
  (* 3. container: same keys, same contents *)
  (match field "container" impl with
   | Some es ->
     let ie = List.sort compare (List.map impl_entry_string es) in
     let me = List.sort compare (List.map entry_string mct) in
     if ie <> me then begin
       let only a b = List.filter (fun x -> not (List.mem x b)) a in
       add (Printf.sprintf "(container (impl-only %s) (model-only %s))" (String.concat " " (only ie me)) (String.concat " " (only me ie)))
     end
   | None -> bad "no container");
  (* 4. recomputed lengths *)
  (match field "trace" impl with
   | Some tr ->
     let it = List.map (function L [fk; n] -> (z fk, z n) | _ -> bad "trace") tr in
     let (mt, _) = needs false (to_ftree c None) mlen Z0 in
     let s l = String.concat " " (List.map (fun (a, b) -> "(" ^ string_of_z a ^ " " ^ string_of_z b ^ ")") l) in
     (* the implementation stops at the first refusal: its trace is a prefix of the model's *)
     let rec prefix a b = match a, b with
       | [], _ -> true
       | x :: xs, y :: ys -> x = y && prefix xs ys
       | _ -> false in
     let complete = (match field "rt" impl with Some (A "ok" :: _) -> true | _ -> false) in
     if (complete && it <> mt) || not (prefix it mt) then add (Printf.sprintf "(trace (impl %s) (model %s))" (s it) (s mt))
   | None -> ());
  (* 5. from_buffers *)
  let mr = from_buffers ((mf, mlen), mct) in
  let viol = ref [] in
  (match field "rt" impl, mr with
   | Some [A "ok"; d], Ok c' ->
     let ds = norm (Sx.to_string d) and ms = norm (string_of_content c') in
     if ds <> ms then add (Printf.sprintf "(roundtrip (impl %s) (model %s))" ds ms);
     (* value and type through the extracted semantics *)
     let ci = content_of_sx d in
     let v0 = obs_of_list (to_list c) and v1 = obs_of_list (to_list ci) in
     if not (obs_eq v0 v1) then viol := Printf.sprintf "(value (in %s) (out %s))" (string_of_obs v0) (string_of_obs v1) :: !viol;
     if type_of c <> type_of ci then viol := "(type)" :: !viol
   | Some [A "ok"; d], Err _ -> add (Printf.sprintf "(roundtrip (impl ok %s) (model err))" (norm (Sx.to_string d)))
   | Some (A "err" :: _), Ok c' -> add (Printf.sprintf "(roundtrip (impl err) (model ok %s))" (string_of_content c'))
   | Some (A "err" :: _), Err EOob -> add "(roundtrip (impl err) (model oob))"
   | Some (A "err" :: _), Err _ -> ()
   | _ -> bad "no rt");
  let feat = (match mr with Ok _ -> "ok" | Err EValue -> "refused" | Err EOob -> "oob" | Err EFuel -> "fuel") in
  if !viol <> [] then Printf.sprintf "(%s viol %s)" id (String.concat " " !viol)
  else if !diffs <> [] then Printf.sprintf "(%s modeldiff %s)" id (String.concat " " (List.rev !diffs))
  else Printf.sprintf "(%s agree %s)" id feat

let () =
  try
    while true do
      let line = input_line stdin in
      if String.length line > 0 && line.[0] <> '#' then begin
        let id = ref "?" in
        (try
           match Sx.parse line with
           | L [A i; A "buffers"; lay; L (A "impl" :: impl)] -> id := i; print_endline (run i lay impl)
           | L [A i; A "val"; d] -> Printf.printf "(%s value %s)\n" i (string_of_obs (obs_of_dump d))
           | _ -> bad "case syntax"
         with
         | Bad s -> Printf.printf "(%s bad (%s))\n" !id s
         | Sx.Parse s -> Printf.printf "(%s bad (parse %s))\n" !id s
         | Stack_overflow -> Printf.printf "(%s bad (stack overflow))\n" !id
         | Not_found -> Printf.printf "(%s bad (not found))\n" !id
         | Failure s -> Printf.printf "(%s bad (failure %s))\n" !id s)
      end
    done
  with End_of_file -> ()
