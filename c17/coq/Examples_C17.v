(** Non-vacuity: the hypotheses of the C17 theorems are satisfiable by non-trivial inputs, and the statements
    compute to what one expects on them (tests, not theorems). *)
From Coq Require Import ZArith List Bool String.
From AwkV Require Import Base Layout Valid Types Carry Proofs_C11.
From AwkTypes Require Import Json Forms TypeStr Typing Proofs_Depth Proofs_Types Proofs_Typing Proofs_Json Proofs_Parse.
Import ListNotations.
Open Scope Z_scope.

(* [[{"x": 1, "y": "ab"}, {"x": 2, "y": None}], []] : var * {"x": int64, "y": option[string]}, sliced at offset 1 below *)
Definition ex_layout : content :=
  ListOffset I64 [0; 2; 2]
    (Record [Numpy DInt64 [2] [DZ 1; DZ 2];
             IndexedOption I32 [0; -1]
               (Par (Some AString) None (ListOffset I32 [0; 2] (Par (Some AChar) None (Numpy DUInt8 [2] [DZ 97; DZ 98]))))]
            (Some [[120]; [121]]) 2).

Example ex_valid : Valid None ex_layout.
Proof. apply (validity_exact_gen ex_layout None). vm_compute. reflexivity. Qed.

Example ex_to_list : to_list ex_layout =
  Ok [VList [VRec [([120], VNum (DZ 1)); ([121], VStr true [97; 98])];
             VRec [([120], VNum (DZ 2)); ([121], VNone)]];
      VList []].
Proof. vm_compute. reflexivity. Qed.

Example ex_type_string :
  rmap type_tostring (type_of_form [(s_string, p_string)] (form_of ex_layout)) =
  Ok (bytes_of_string "var * {""x"": int64, ""y"": option[string]}"%string).
Proof. vm_compute. reflexivity. Qed.

Example ex_typed : exists vs, to_list ex_layout = Ok vs /\ Forall (has_type (type_of ex_layout)) vs.
Proof. eexists. split; [exact ex_to_list|]. exact (to_list_typed_thm _ _ ex_valid ex_to_list). Qed.

Example ex_range : exists c', crange ex_layout 1 2 = Ok c' /\ type_of c' = type_of ex_layout.
Proof. eexists. split; [vm_compute; reflexivity|reflexivity]. Qed.

Example ex_minmax : c_minmax_depth None ex_layout = (2, 2).
Proof. vm_compute. reflexivity. Qed.

(* a form with parameters, a form key and identities that is well-formed *)
Definition ex_form : form :=
  FRecord (mkmeta true [(k_record, JStr [80; 116]); ([122], JArr [JInt 1; JDbl [49; 46; 53]; JNull])] (Some [107]))
          (Some [[97]; [98]])
          [FListOffset meta0 Fi64 (FNumpy meta0 [2; 3] 8 (dtype_to_format (FD DFloat64)) (FD DFloat64));
           FUnion meta0 Fi8 Fu32 [FEmpty meta0; FVirtual meta0 None true]].

Example ex_form_wf : form_wf ex_form = true.
Proof. vm_compute. reflexivity. Qed.

Example ex_form_roundtrip : form_fromjson (form_tojson false ex_form) = Ok ex_form.
Proof. exact (form_json_roundtrip_thm ex_form false ex_form_wf). Qed.

(* a printable type using every production *)
Definition ex_type : rty :=
  RRec [(k_record, JStr [80; 116])] [] (Some [[97; 34; 98]; [99]])
       [ROpt [] [] (RList [] [] (RReg [] [] 3 (RNum [] [] (FD DInt64))));
        RUnion [] [] [t_string; ROpt [] [] (RNum [] [] FComplex128); RRec [] [] None [RUnk [] []; t_bytes];
                      RRec [] [] (Some []) []]].

Example ex_printable : printable ex_type = true.
Proof. vm_compute. reflexivity. Qed.

Example ex_print : type_tostring ex_type =
  bytes_of_string "Pt[""a\""b"": option[var * 3 * int64], ""c"": union[string, ?complex128, (unknown, bytes), {}]]"%string.
Proof. vm_compute. reflexivity. Qed.

Example ex_parse : type_parse (type_tostring ex_type) = Ok ex_type.
Proof. exact (type_print_parse_roundtrip_thm ex_type ex_printable). Qed.
