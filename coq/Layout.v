(** Layout: one constructor per C++ node class; [to_list] is the semantics
    (what ak.to_list returns).  No proofs in this file. *)
From AwkV Require Export Base.

Inductive width := I32 | U32 | I64.
Inductive dtype := DBool | DInt8 | DInt16 | DInt32 | DInt64
                 | DUInt8 | DUInt16 | DUInt32 | DUInt64 | DFloat32 | DFloat64.
(* numeric leaves: integers (also integer-valued floats) plus the float specials *)
Inductive datum := DZ (z : Z) | DNaN | DInf (neg : bool).

Definition name := list Z.   (* field / record names as byte codes *)
Inductive akind := AString | ABytestring | AChar | AByte | ACategorical.

Inductive value :=
| VNum (d : datum)
| VBool (b : bool)
| VStr (isstr : bool) (s : list Z)     (* string (true) / bytestring (false) as a unit *)
| VNone
| VList (l : list value)
| VRec (fs : list (name * value))
| VTup (vs : list value).

Inductive content :=
| Numpy (dt : dtype) (shape : list Z) (data : list datum)   (* contiguous row-major; shape nonempty *)
| Empty
| ListOffset (w : width) (offsets : list Z) (c : content)
| ListA (w : width) (starts stops : list Z) (c : content)
| Regular (c : content) (size zeros_length : Z)
| Indexed (w : width) (index : list Z) (c : content)
| IndexedOption (w : width) (index : list Z) (c : content)
| ByteMasked (mask : list Z) (valid_when : bool) (c : content)
| BitMasked (mask : list Z) (valid_when lsb : bool) (len : Z) (c : content)
| Unmasked (c : content)
| Union (w : width) (tags index : list Z) (cs : list content)
| Record (cs : list content) (keys : option (list name)) (len : Z)
| Par (arr : option akind) (recname : option name) (c : content).  (* node parameters *)

Definition prodZ (l : list Z) : Z := fold_right Z.mul 1 l.

Fixpoint clen (c : content) : Z :=
  match c with
  | Numpy _ shape _ => match shape with [] => 0 | n :: _ => n end
  | Empty => 0
  | ListOffset _ o _ => zlen o - 1
  | ListA _ s _ _ => zlen s
  | Regular c' size zl => if size =? 0 then zl else clen c' / size
  | Indexed _ ix _ => zlen ix
  | IndexedOption _ ix _ => zlen ix
  | ByteMasked m _ _ => zlen m
  | BitMasked _ _ _ n _ => n
  | Unmasked c' => clen c'
  | Union _ t _ _ => zlen t
  | Record _ _ n => n
  | Par _ _ c' => clen c'
  end.

(* ---- per-node helpers of the semantics (top-level so lemmas can target them) ---- *)

Definition cut1 {A} (vs : list A) (ab : Z * Z) : res (list A) :=
  let (a, b) := ab in if a =? b then Ok [] else slice vs a b.
(* ListOffset: [vs[o_i : o_{i+1}]] *)
Definition cut {A} (vs : list A) (o : list Z) : res (list (list A)) :=
  match o with [] => Err EValue | _ => mapM (cut1 vs) (pairs o) end.
(* ListArray: [vs[s_i : e_i]], start = stop means empty whatever the value *)
Definition cut2 {A} (vs : list A) (s e : list Z) : res (list (list A)) :=
  if zlen e <? zlen s then Err EValue else mapM (cut1 vs) (zip s e).

Definition chunks {A} (vs : list A) (size zl : Z) : res (list (list A)) :=
  if size <? 0 then Err EValue
  else if size =? 0 then (if zl <? 0 then Err EValue else Ok (map (fun _ => []) (iota zl)))
  else Ok (chunks_nat vs size (Z.to_nat (zlen vs / size))).

Definition bit_at (m : list Z) (lsb : bool) (i : Z) : res bool :=
  do byte <- get m (i / 8);
  let k := i mod 8 in
  Ok (Z.testbit byte (if lsb then k else 7 - k)).

Definition pick_opt (vs : list value) (valid : bool) (i : Z) : res value :=
  if valid then get vs i else Ok VNone.

(* shape handling of an n-d Numpy leaf: nest a flat list of leaves by the inner dims *)
Fixpoint nest (dims : list Z) (count : Z) (vs : list value) : res (list value) :=
  match dims with
  | [] => Ok vs
  | d :: ds =>
      do inner <- nest ds (count * d) vs;
      do ch <- chunks inner d count;
      Ok (map VList ch)
  end.

Definition leaf (dt : dtype) (d : datum) : value :=
  match dt with
  | DBool => match d with DZ z => VBool (negb (z =? 0)) | _ => VBool true end
  | _ => VNum d
  end.

Definition bytes_of (v : value) : res (list Z) :=
  match v with
  | VList l => mapM (fun x => match x with VNum (DZ z) => Ok z | _ => Err EValue end) l
  | _ => Err EValue
  end.

Definition row (named : option (list name)) (cols : list (list value)) (i : Z) : res value :=
  do vs <- mapM (fun col => get col i) cols;
  match named with
  | Some ks => if Nat.eqb (length ks) (length vs) then Ok (VRec (zip ks vs)) else Err EValue
  | None => Ok (VTup vs)
  end.

Fixpoint to_list (c : content) : res (list value) :=
  match c with
  | Numpy dt shape data =>
      match shape with
      | [] => Err EValue
      | n :: dims =>
          if existsb (fun d => d <? 0) shape then Err EValue else
          if zlen data <? prodZ shape then Err EValue else
          do vs <- nest dims n (map (leaf dt) (take (prodZ shape) data));
          Ok vs
      end
  | Empty => Ok []
  | ListOffset _ o c' => do vs <- to_list c'; rmap (map VList) (cut vs o)
  | ListA _ s e c' => do vs <- to_list c'; rmap (map VList) (cut2 vs s e)
  | Regular c' size zl => do vs <- to_list c'; rmap (map VList) (chunks vs size zl)
  | Indexed _ ix c' => do vs <- to_list c'; mapM (get vs) ix
  | IndexedOption _ ix c' =>
      do vs <- to_list c'; mapM (fun i => pick_opt vs (0 <=? i) i) ix
  | ByteMasked m vw c' =>
      do vs <- to_list c';
      mapM (fun im : Z * Z => let (i, b) := im in pick_opt vs (Bool.eqb (negb (b =? 0)) vw) i)
           (zip (iota (zlen m)) m)
  | BitMasked m vw lsb n c' =>
      do vs <- to_list c';
      if n <? 0 then Err EValue else
      mapM (fun i => do b <- bit_at m lsb i; pick_opt vs (Bool.eqb b vw) i) (iota n)
  | Unmasked c' => to_list c'
  | Union _ t ix cs =>
      do vss <- (fix all (l : list content) : res (list (list value)) :=
                   match l with
                   | [] => Ok []
                   | x :: xs => do v <- to_list x; do vs <- all xs; Ok (v :: vs)
                   end) cs;
      if zlen ix <? zlen t then Err EValue else
      mapM (fun ti : Z * Z => let (tg, i) := ti in do vs <- get vss tg; get vs i) (zip t ix)
  | Record cs ks n =>
      do vss <- (fix all (l : list content) : res (list (list value)) :=
                   match l with
                   | [] => Ok []
                   | x :: xs => do v <- to_list x; do vs <- all xs; Ok (v :: vs)
                   end) cs;
      if n <? 0 then Err EValue else
      mapM (row ks vss) (iota n)
  | Par arr _ c' =>
      do vs <- to_list c';
      match arr with
      | Some AString => mapM (fun v => rmap (VStr true) (bytes_of v)) vs
      | Some ABytestring => mapM (fun v => rmap (VStr false) (bytes_of v)) vs
      | _ => Ok vs
      end
  end.

(* ---- decidable equality on values (used by the correspondence runner) ---- *)
Definition datum_eqb (a b : datum) : bool :=
  match a, b with
  | DZ x, DZ y => x =? y
  | DNaN, DNaN => true
  | DInf x, DInf y => Bool.eqb x y
  | _, _ => false
  end.

Fixpoint value_eqb (a b : value) : bool :=
  match a, b with
  | VNum x, VNum y => datum_eqb x y
  | VBool x, VBool y => Bool.eqb x y
  | VStr i s, VStr j t => Bool.eqb i j && list_eqb Z.eqb s t
  | VNone, VNone => true
  | VList l, VList m =>
      (fix go (l m : list value) : bool :=
         match l, m with
         | [], [] => true
         | x :: xs, y :: ys => value_eqb x y && go xs ys
         | _, _ => false
         end) l m
  | VRec f, VRec g =>
      (fix go (l m : list (name * value)) : bool :=
         match l, m with
         | [], [] => true
         | (k, x) :: xs, (k', y) :: ys => list_eqb Z.eqb k k' && value_eqb x y && go xs ys
         | _, _ => false
         end) f g
  | VTup l, VTup m =>
      (fix go (l m : list value) : bool :=
         match l, m with
         | [], [] => true
         | x :: xs, y :: ys => value_eqb x y && go xs ys
         | _, _ => false
         end) l m
  | _, _ => false
  end.
