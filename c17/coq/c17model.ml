
(** val negb : bool -> bool **)

let negb = function
| true -> false
| false -> true

type nat =
| O
| S of nat

(** val fst : ('a1 * 'a2) -> 'a1 **)

let fst = function
| (x, _) -> x

(** val snd : ('a1 * 'a2) -> 'a2 **)

let snd = function
| (_, y) -> y

(** val length : 'a1 list -> nat **)

let rec length = function
| [] -> O
| _ :: l' -> S (length l')

(** val app : 'a1 list -> 'a1 list -> 'a1 list **)

let rec app l m =
  match l with
  | [] -> m
  | a :: l1 -> a :: (app l1 m)

type comparison =
| Eq
| Lt
| Gt

(** val compOpp : comparison -> comparison **)

let compOpp = function
| Eq -> Eq
| Lt -> Gt
| Gt -> Lt

type uint =
| Nil
| D0 of uint
| D1 of uint
| D2 of uint
| D3 of uint
| D4 of uint
| D5 of uint
| D6 of uint
| D7 of uint
| D8 of uint
| D9 of uint

type signed_int =
| Pos of uint
| Neg of uint

(** val revapp : uint -> uint -> uint **)

let rec revapp d d' =
  match d with
  | Nil -> d'
  | D0 d0 -> revapp d0 (D0 d')
  | D1 d0 -> revapp d0 (D1 d')
  | D2 d0 -> revapp d0 (D2 d')
  | D3 d0 -> revapp d0 (D3 d')
  | D4 d0 -> revapp d0 (D4 d')
  | D5 d0 -> revapp d0 (D5 d')
  | D6 d0 -> revapp d0 (D6 d')
  | D7 d0 -> revapp d0 (D7 d')
  | D8 d0 -> revapp d0 (D8 d')
  | D9 d0 -> revapp d0 (D9 d')

(** val rev : uint -> uint **)

let rev d =
  revapp d Nil

module Little =
 struct
  (** val double : uint -> uint **)

  let rec double = function
  | Nil -> Nil
  | D0 d0 -> D0 (double d0)
  | D1 d0 -> D2 (double d0)
  | D2 d0 -> D4 (double d0)
  | D3 d0 -> D6 (double d0)
  | D4 d0 -> D8 (double d0)
  | D5 d0 -> D0 (succ_double d0)
  | D6 d0 -> D2 (succ_double d0)
  | D7 d0 -> D4 (succ_double d0)
  | D8 d0 -> D6 (succ_double d0)
  | D9 d0 -> D8 (succ_double d0)

  (** val succ_double : uint -> uint **)

  and succ_double = function
  | Nil -> D1 Nil
  | D0 d0 -> D1 (double d0)
  | D1 d0 -> D3 (double d0)
  | D2 d0 -> D5 (double d0)
  | D3 d0 -> D7 (double d0)
  | D4 d0 -> D9 (double d0)
  | D5 d0 -> D1 (succ_double d0)
  | D6 d0 -> D3 (succ_double d0)
  | D7 d0 -> D5 (succ_double d0)
  | D8 d0 -> D7 (succ_double d0)
  | D9 d0 -> D9 (succ_double d0)
 end

module Coq__1 = struct
 (** val add : nat -> nat -> nat **)
 let rec add n0 m =
   match n0 with
   | O -> m
   | S p -> S (add p m)
end
include Coq__1

type positive =
| XI of positive
| XO of positive
| XH

type n =
| N0
| Npos of positive

type z =
| Z0
| Zpos of positive
| Zneg of positive

(** val eqb : bool -> bool -> bool **)

let eqb b1 b2 =
  if b1 then b2 else if b2 then false else true

module Nat =
 struct
  (** val eqb : nat -> nat -> bool **)

  let rec eqb n0 m =
    match n0 with
    | O -> (match m with
            | O -> true
            | S _ -> false)
    | S n' -> (match m with
               | O -> false
               | S m' -> eqb n' m')
 end

module Pos =
 struct
  (** val succ : positive -> positive **)

  let rec succ = function
  | XI p -> XO (succ p)
  | XO p -> XI p
  | XH -> XO XH

  (** val add : positive -> positive -> positive **)

  let rec add x y =
    match x with
    | XI p ->
      (match y with
       | XI q -> XO (add_carry p q)
       | XO q -> XI (add p q)
       | XH -> XO (succ p))
    | XO p ->
      (match y with
       | XI q -> XI (add p q)
       | XO q -> XO (add p q)
       | XH -> XI p)
    | XH -> (match y with
             | XI q -> XO (succ q)
             | XO q -> XI q
             | XH -> XO XH)

  (** val add_carry : positive -> positive -> positive **)

  and add_carry x y =
    match x with
    | XI p ->
      (match y with
       | XI q -> XI (add_carry p q)
       | XO q -> XO (add_carry p q)
       | XH -> XI (succ p))
    | XO p ->
      (match y with
       | XI q -> XO (add_carry p q)
       | XO q -> XI (add p q)
       | XH -> XO (succ p))
    | XH ->
      (match y with
       | XI q -> XI (succ q)
       | XO q -> XO (succ q)
       | XH -> XI XH)

  (** val pred_double : positive -> positive **)

  let rec pred_double = function
  | XI p -> XI (XO p)
  | XO p -> XI (pred_double p)
  | XH -> XH

  (** val pred_N : positive -> n **)

  let pred_N = function
  | XI p -> Npos (XO p)
  | XO p -> Npos (pred_double p)
  | XH -> N0

  (** val mul : positive -> positive -> positive **)

  let rec mul x y =
    match x with
    | XI p -> add y (XO (mul p y))
    | XO p -> XO (mul p y)
    | XH -> y

  (** val compare_cont : comparison -> positive -> positive -> comparison **)

  let rec compare_cont r x y =
    match x with
    | XI p ->
      (match y with
       | XI q -> compare_cont r p q
       | XO q -> compare_cont Gt p q
       | XH -> Gt)
    | XO p ->
      (match y with
       | XI q -> compare_cont Lt p q
       | XO q -> compare_cont r p q
       | XH -> Gt)
    | XH -> (match y with
             | XH -> r
             | _ -> Lt)

  (** val compare : positive -> positive -> comparison **)

  let compare =
    compare_cont Eq

  (** val eqb : positive -> positive -> bool **)

  let rec eqb p q =
    match p with
    | XI p0 -> (match q with
                | XI q0 -> eqb p0 q0
                | _ -> false)
    | XO p0 -> (match q with
                | XO q0 -> eqb p0 q0
                | _ -> false)
    | XH -> (match q with
             | XH -> true
             | _ -> false)

  (** val testbit : positive -> n -> bool **)

  let rec testbit p n0 =
    match p with
    | XI p0 -> (match n0 with
                | N0 -> true
                | Npos n1 -> testbit p0 (pred_N n1))
    | XO p0 -> (match n0 with
                | N0 -> false
                | Npos n1 -> testbit p0 (pred_N n1))
    | XH -> (match n0 with
             | N0 -> true
             | Npos _ -> false)

  (** val iter_op : ('a1 -> 'a1 -> 'a1) -> positive -> 'a1 -> 'a1 **)

  let rec iter_op op p a =
    match p with
    | XI p0 -> op a (iter_op op p0 (op a a))
    | XO p0 -> iter_op op p0 (op a a)
    | XH -> a

  (** val to_nat : positive -> nat **)

  let to_nat x =
    iter_op Coq__1.add x (S O)

  (** val of_succ_nat : nat -> positive **)

  let rec of_succ_nat = function
  | O -> XH
  | S x -> succ (of_succ_nat x)

  (** val to_little_uint : positive -> uint **)

  let rec to_little_uint = function
  | XI p0 -> Little.succ_double (to_little_uint p0)
  | XO p0 -> Little.double (to_little_uint p0)
  | XH -> D1 Nil

  (** val to_uint : positive -> uint **)

  let to_uint p =
    rev (to_little_uint p)
 end

module N =
 struct
  (** val testbit : n -> n -> bool **)

  let testbit a n0 =
    match a with
    | N0 -> false
    | Npos p -> Pos.testbit p n0
 end

module Z =
 struct
  (** val double : z -> z **)

  let double = function
  | Z0 -> Z0
  | Zpos p -> Zpos (XO p)
  | Zneg p -> Zneg (XO p)

  (** val succ_double : z -> z **)

  let succ_double = function
  | Z0 -> Zpos XH
  | Zpos p -> Zpos (XI p)
  | Zneg p -> Zneg (Pos.pred_double p)

  (** val pred_double : z -> z **)

  let pred_double = function
  | Z0 -> Zneg XH
  | Zpos p -> Zpos (Pos.pred_double p)
  | Zneg p -> Zneg (XI p)

  (** val pos_sub : positive -> positive -> z **)

  let rec pos_sub x y =
    match x with
    | XI p ->
      (match y with
       | XI q -> double (pos_sub p q)
       | XO q -> succ_double (pos_sub p q)
       | XH -> Zpos (XO p))
    | XO p ->
      (match y with
       | XI q -> pred_double (pos_sub p q)
       | XO q -> double (pos_sub p q)
       | XH -> Zpos (Pos.pred_double p))
    | XH ->
      (match y with
       | XI q -> Zneg (XO q)
       | XO q -> Zneg (Pos.pred_double q)
       | XH -> Z0)

  (** val add : z -> z -> z **)

  let add x y =
    match x with
    | Z0 -> y
    | Zpos x' ->
      (match y with
       | Z0 -> x
       | Zpos y' -> Zpos (Pos.add x' y')
       | Zneg y' -> pos_sub x' y')
    | Zneg x' ->
      (match y with
       | Z0 -> x
       | Zpos y' -> pos_sub y' x'
       | Zneg y' -> Zneg (Pos.add x' y'))

  (** val opp : z -> z **)

  let opp = function
  | Z0 -> Z0
  | Zpos x0 -> Zneg x0
  | Zneg x0 -> Zpos x0

  (** val sub : z -> z -> z **)

  let sub m n0 =
    add m (opp n0)

  (** val mul : z -> z -> z **)

  let mul x y =
    match x with
    | Z0 -> Z0
    | Zpos x' ->
      (match y with
       | Z0 -> Z0
       | Zpos y' -> Zpos (Pos.mul x' y')
       | Zneg y' -> Zneg (Pos.mul x' y'))
    | Zneg x' ->
      (match y with
       | Z0 -> Z0
       | Zpos y' -> Zneg (Pos.mul x' y')
       | Zneg y' -> Zpos (Pos.mul x' y'))

  (** val compare : z -> z -> comparison **)

  let compare x y =
    match x with
    | Z0 -> (match y with
             | Z0 -> Eq
             | Zpos _ -> Lt
             | Zneg _ -> Gt)
    | Zpos x' -> (match y with
                  | Zpos y' -> Pos.compare x' y'
                  | _ -> Gt)
    | Zneg x' ->
      (match y with
       | Zneg y' -> compOpp (Pos.compare x' y')
       | _ -> Lt)

  (** val leb : z -> z -> bool **)

  let leb x y =
    match compare x y with
    | Gt -> false
    | _ -> true

  (** val ltb : z -> z -> bool **)

  let ltb x y =
    match compare x y with
    | Lt -> true
    | _ -> false

  (** val eqb : z -> z -> bool **)

  let eqb x y =
    match x with
    | Z0 -> (match y with
             | Z0 -> true
             | _ -> false)
    | Zpos p -> (match y with
                 | Zpos q -> Pos.eqb p q
                 | _ -> false)
    | Zneg p -> (match y with
                 | Zneg q -> Pos.eqb p q
                 | _ -> false)

  (** val to_nat : z -> nat **)

  let to_nat = function
  | Zpos p -> Pos.to_nat p
  | _ -> O

  (** val of_nat : nat -> z **)

  let of_nat = function
  | O -> Z0
  | S n1 -> Zpos (Pos.of_succ_nat n1)

  (** val to_int : z -> signed_int **)

  let to_int = function
  | Z0 -> Pos (D0 Nil)
  | Zpos p -> Pos (Pos.to_uint p)
  | Zneg p -> Neg (Pos.to_uint p)

  (** val pos_div_eucl : positive -> z -> z * z **)

  let rec pos_div_eucl a b =
    match a with
    | XI a' ->
      let (q, r) = pos_div_eucl a' b in
      let r' = add (mul (Zpos (XO XH)) r) (Zpos XH) in
      if ltb r' b
      then ((mul (Zpos (XO XH)) q), r')
      else ((add (mul (Zpos (XO XH)) q) (Zpos XH)), (sub r' b))
    | XO a' ->
      let (q, r) = pos_div_eucl a' b in
      let r' = mul (Zpos (XO XH)) r in
      if ltb r' b
      then ((mul (Zpos (XO XH)) q), r')
      else ((add (mul (Zpos (XO XH)) q) (Zpos XH)), (sub r' b))
    | XH -> if leb (Zpos (XO XH)) b then (Z0, (Zpos XH)) else ((Zpos XH), Z0)

  (** val div_eucl : z -> z -> z * z **)

  let div_eucl a b =
    match a with
    | Z0 -> (Z0, Z0)
    | Zpos a' ->
      (match b with
       | Z0 -> (Z0, a)
       | Zpos _ -> pos_div_eucl a' b
       | Zneg b' ->
         let (q, r) = pos_div_eucl a' (Zpos b') in
         (match r with
          | Z0 -> ((opp q), Z0)
          | _ -> ((opp (add q (Zpos XH))), (add b r))))
    | Zneg a' ->
      (match b with
       | Z0 -> (Z0, a)
       | Zpos _ ->
         let (q, r) = pos_div_eucl a' b in
         (match r with
          | Z0 -> ((opp q), Z0)
          | _ -> ((opp (add q (Zpos XH))), (sub b r)))
       | Zneg b' -> let (q, r) = pos_div_eucl a' (Zpos b') in (q, (opp r)))

  (** val div : z -> z -> z **)

  let div a b =
    let (q, _) = div_eucl a b in q

  (** val modulo : z -> z -> z **)

  let modulo a b =
    let (_, r) = div_eucl a b in r

  (** val odd : z -> bool **)

  let odd = function
  | Z0 -> false
  | Zpos p -> (match p with
               | XO _ -> false
               | _ -> true)
  | Zneg p -> (match p with
               | XO _ -> false
               | _ -> true)

  (** val testbit : z -> z -> bool **)

  let testbit a = function
  | Z0 -> odd a
  | Zpos p ->
    (match a with
     | Z0 -> false
     | Zpos a0 -> Pos.testbit a0 (Npos p)
     | Zneg a0 -> negb (N.testbit (Pos.pred_N a0) (Npos p)))
  | Zneg _ -> false
 end

(** val tl : 'a1 list -> 'a1 list **)

let tl = function
| [] -> []
| _ :: m -> m

(** val nth_error : 'a1 list -> nat -> 'a1 option **)

let rec nth_error l = function
| O -> (match l with
        | [] -> None
        | x :: _ -> Some x)
| S n1 -> (match l with
           | [] -> None
           | _ :: l0 -> nth_error l0 n1)

(** val removelast : 'a1 list -> 'a1 list **)

let rec removelast = function
| [] -> []
| a :: l0 -> (match l0 with
              | [] -> []
              | _ :: _ -> a :: (removelast l0))

(** val concat : 'a1 list list -> 'a1 list **)

let rec concat = function
| [] -> []
| x :: l0 -> app x (concat l0)

(** val map : ('a1 -> 'a2) -> 'a1 list -> 'a2 list **)

let rec map f = function
| [] -> []
| a :: t -> (f a) :: (map f t)

(** val flat_map : ('a1 -> 'a2 list) -> 'a1 list -> 'a2 list **)

let rec flat_map f = function
| [] -> []
| x :: t -> app (f x) (flat_map f t)

(** val fold_left : ('a1 -> 'a2 -> 'a1) -> 'a2 list -> 'a1 -> 'a1 **)

let rec fold_left f l a0 =
  match l with
  | [] -> a0
  | b :: t -> fold_left f t (f a0 b)

(** val fold_right : ('a2 -> 'a1 -> 'a1) -> 'a1 -> 'a2 list -> 'a1 **)

let rec fold_right f a0 = function
| [] -> a0
| b :: t -> f b (fold_right f a0 t)

(** val existsb : ('a1 -> bool) -> 'a1 list -> bool **)

let rec existsb f = function
| [] -> false
| a :: l0 -> (||) (f a) (existsb f l0)

(** val forallb : ('a1 -> bool) -> 'a1 list -> bool **)

let rec forallb f = function
| [] -> true
| a :: l0 -> (&&) (f a) (forallb f l0)

(** val filter : ('a1 -> bool) -> 'a1 list -> 'a1 list **)

let rec filter f = function
| [] -> []
| x :: l0 -> if f x then x :: (filter f l0) else filter f l0

(** val find : ('a1 -> bool) -> 'a1 list -> 'a1 option **)

let rec find f = function
| [] -> None
| x :: tl0 -> if f x then Some x else find f tl0

(** val firstn : nat -> 'a1 list -> 'a1 list **)

let rec firstn n0 l =
  match n0 with
  | O -> []
  | S n1 -> (match l with
             | [] -> []
             | a :: l0 -> a :: (firstn n1 l0))

(** val skipn : nat -> 'a1 list -> 'a1 list **)

let rec skipn n0 l =
  match n0 with
  | O -> l
  | S n1 -> (match l with
             | [] -> []
             | _ :: l0 -> skipn n1 l0)

type err =
| EValue
| EOob
| EFuel

type 'a res =
| Ok of 'a
| Err of err

(** val bind : 'a1 res -> ('a1 -> 'a2 res) -> 'a2 res **)

let bind r f =
  match r with
  | Ok a -> f a
  | Err e -> Err e

(** val rmap : ('a1 -> 'a2) -> 'a1 res -> 'a2 res **)

let rmap f = function
| Ok a -> Ok (f a)
| Err e -> Err e

(** val mapM : ('a1 -> 'a2 res) -> 'a1 list -> 'a2 list res **)

let rec mapM f = function
| [] -> Ok []
| x :: xs -> bind (f x) (fun y -> bind (mapM f xs) (fun ys -> Ok (y :: ys)))

(** val zlen : 'a1 list -> z **)

let zlen l =
  Z.of_nat (length l)

(** val get : 'a1 list -> z -> 'a1 res **)

let get l i =
  if Z.ltb i Z0
  then Err EOob
  else (match nth_error l (Z.to_nat i) with
        | Some x -> Ok x
        | None -> Err EOob)

(** val take : z -> 'a1 list -> 'a1 list **)

let take n0 l =
  firstn (Z.to_nat n0) l

(** val drop : z -> 'a1 list -> 'a1 list **)

let drop n0 l =
  skipn (Z.to_nat n0) l

(** val slice : 'a1 list -> z -> z -> 'a1 list res **)

let slice l a b =
  if (&&) ((&&) (Z.leb Z0 a) (Z.leb a b)) (Z.leb b (zlen l))
  then Ok (take (Z.sub b a) (drop a l))
  else Err EOob

(** val iota_nat : z -> nat -> z list **)

let rec iota_nat start = function
| O -> []
| S n' -> start :: (iota_nat (Z.add start (Zpos XH)) n')

(** val iota : z -> z list **)

let iota n0 =
  iota_nat Z0 (Z.to_nat n0)

(** val range : z -> z -> z list **)

let range a b =
  iota_nat a (Z.to_nat (Z.sub b a))

(** val zip : 'a1 list -> 'a2 list -> ('a1 * 'a2) list **)

let rec zip l m =
  match l with
  | [] -> []
  | x :: xs -> (match m with
                | [] -> []
                | y :: ys -> (x, y) :: (zip xs ys))

(** val pairs : z list -> (z * z) list **)

let rec pairs = function
| [] -> []
| a :: t -> (match t with
             | [] -> []
             | b :: _ -> (a, b) :: (pairs t))

(** val list_eqb : ('a1 -> 'a1 -> bool) -> 'a1 list -> 'a1 list -> bool **)

let rec list_eqb eqb0 l m =
  match l with
  | [] -> (match m with
           | [] -> true
           | _ :: _ -> false)
  | x :: xs ->
    (match m with
     | [] -> false
     | y :: ys -> (&&) (eqb0 x y) (list_eqb eqb0 xs ys))

(** val chunks_nat : 'a1 list -> z -> nat -> 'a1 list list **)

let rec chunks_nat vs n0 = function
| O -> []
| S k -> (take n0 vs) :: (chunks_nat (drop n0 vs) n0 k)

type width =
| I32
| U32
| I64

type dtype =
| DBool
| DInt8
| DInt16
| DInt32
| DInt64
| DUInt8
| DUInt16
| DUInt32
| DUInt64
| DFloat32
| DFloat64

type datum =
| DZ of z
| DNaN
| DInf of bool

type name = z list

type akind =
| AString
| ABytestring
| AChar
| AByte
| ACategorical

type value =
| VNum of datum
| VBool of bool
| VStr of bool * z list
| VNone
| VList of value list
| VRec of (name * value) list
| VTup of value list

type content =
| Numpy of dtype * z list * datum list
| Empty
| ListOffset of width * z list * content
| ListA of width * z list * z list * content
| Regular of content * z * z
| Indexed of width * z list * content
| IndexedOption of width * z list * content
| ByteMasked of z list * bool * content
| BitMasked of z list * bool * bool * z * content
| Unmasked of content
| Union of width * z list * z list * content list
| Record of content list * name list option * z
| Par of akind option * name option * content

(** val prodZ : z list -> z **)

let prodZ l =
  fold_right Z.mul (Zpos XH) l

(** val clen : content -> z **)

let rec clen = function
| Numpy (_, shape, _) -> (match shape with
                          | [] -> Z0
                          | n0 :: _ -> n0)
| Empty -> Z0
| ListOffset (_, o, _) -> Z.sub (zlen o) (Zpos XH)
| ListA (_, s, _, _) -> zlen s
| Regular (c', size, zl) -> if Z.eqb size Z0 then zl else Z.div (clen c') size
| Indexed (_, ix, _) -> zlen ix
| IndexedOption (_, ix, _) -> zlen ix
| ByteMasked (m, _, _) -> zlen m
| BitMasked (_, _, _, n0, _) -> n0
| Unmasked c' -> clen c'
| Union (_, t, _, _) -> zlen t
| Record (_, _, n0) -> n0
| Par (_, _, c') -> clen c'

(** val cut1 : 'a1 list -> (z * z) -> 'a1 list res **)

let cut1 vs = function
| (a, b) -> if Z.eqb a b then Ok [] else slice vs a b

(** val cut : 'a1 list -> z list -> 'a1 list list res **)

let cut vs o = match o with
| [] -> Err EValue
| _ :: _ -> mapM (cut1 vs) (pairs o)

(** val cut2 : 'a1 list -> z list -> z list -> 'a1 list list res **)

let cut2 vs s e =
  if Z.ltb (zlen e) (zlen s) then Err EValue else mapM (cut1 vs) (zip s e)

(** val chunks : 'a1 list -> z -> z -> 'a1 list list res **)

let chunks vs size zl =
  if Z.ltb size Z0
  then Err EValue
  else if Z.eqb size Z0
       then if Z.ltb zl Z0
            then Err EValue
            else Ok (map (fun _ -> []) (iota zl))
       else Ok (chunks_nat vs size (Z.to_nat (Z.div (zlen vs) size)))

(** val bit_at : z list -> bool -> z -> bool res **)

let bit_at m lsb i =
  bind (get m (Z.div i (Zpos (XO (XO (XO XH)))))) (fun byte ->
    let k = Z.modulo i (Zpos (XO (XO (XO XH)))) in
    Ok (Z.testbit byte (if lsb then k else Z.sub (Zpos (XI (XI XH))) k)))

(** val pick_opt : value list -> bool -> z -> value res **)

let pick_opt vs valid i =
  if valid then get vs i else Ok VNone

(** val nest : z list -> z -> value list -> value list res **)

let rec nest dims count vs =
  match dims with
  | [] -> Ok vs
  | d :: ds ->
    bind (nest ds (Z.mul count d) vs) (fun inner ->
      bind (chunks inner d count) (fun ch -> Ok (map (fun x -> VList x) ch)))

(** val leaf : dtype -> datum -> value **)

let leaf dt d =
  match dt with
  | DBool ->
    (match d with
     | DZ z0 -> VBool (negb (Z.eqb z0 Z0))
     | _ -> VBool true)
  | _ -> VNum d

(** val bytes_of : value -> z list res **)

let bytes_of = function
| VList l ->
  mapM (fun x ->
    match x with
    | VNum d -> (match d with
                 | DZ z0 -> Ok z0
                 | _ -> Err EValue)
    | _ -> Err EValue) l
| _ -> Err EValue

(** val row : name list option -> value list list -> z -> value res **)

let row named cols i =
  bind (mapM (fun col -> get col i) cols) (fun vs ->
    match named with
    | Some ks ->
      if Nat.eqb (length ks) (length vs)
      then Ok (VRec (zip ks vs))
      else Err EValue
    | None -> Ok (VTup vs))

(** val to_list : content -> value list res **)

let rec to_list = function
| Numpy (dt, shape, data) ->
  (match shape with
   | [] -> Err EValue
   | n0 :: dims ->
     if existsb (fun d -> Z.ltb d Z0) shape
     then Err EValue
     else if Z.ltb (zlen data) (prodZ shape)
          then Err EValue
          else bind (nest dims n0 (map (leaf dt) (take (prodZ shape) data)))
                 (fun vs -> Ok vs))
| Empty -> Ok []
| ListOffset (_, o, c') ->
  bind (to_list c') (fun vs -> rmap (map (fun x -> VList x)) (cut vs o))
| ListA (_, s, e, c') ->
  bind (to_list c') (fun vs -> rmap (map (fun x -> VList x)) (cut2 vs s e))
| Regular (c', size, zl) ->
  bind (to_list c') (fun vs ->
    rmap (map (fun x -> VList x)) (chunks vs size zl))
| Indexed (_, ix, c') -> bind (to_list c') (fun vs -> mapM (get vs) ix)
| IndexedOption (_, ix, c') ->
  bind (to_list c') (fun vs -> mapM (fun i -> pick_opt vs (Z.leb Z0 i) i) ix)
| ByteMasked (m, vw, c') ->
  bind (to_list c') (fun vs ->
    mapM (fun im ->
      let (i, b) = im in pick_opt vs (eqb (negb (Z.eqb b Z0)) vw) i)
      (zip (iota (zlen m)) m))
| BitMasked (m, vw, lsb, n0, c') ->
  bind (to_list c') (fun vs ->
    if Z.ltb n0 Z0
    then Err EValue
    else mapM (fun i ->
           bind (bit_at m lsb i) (fun b -> pick_opt vs (eqb b vw) i))
           (iota n0))
| Unmasked c' -> to_list c'
| Union (_, t, ix, cs) ->
  bind
    (let rec all = function
     | [] -> Ok []
     | x :: xs ->
       bind (to_list x) (fun v -> bind (all xs) (fun vs -> Ok (v :: vs)))
     in all cs) (fun vss ->
    if Z.ltb (zlen ix) (zlen t)
    then Err EValue
    else mapM (fun ti ->
           let (tg, i) = ti in bind (get vss tg) (fun vs -> get vs i))
           (zip t ix))
| Record (cs, ks, n0) ->
  bind
    (let rec all = function
     | [] -> Ok []
     | x :: xs ->
       bind (to_list x) (fun v -> bind (all xs) (fun vs -> Ok (v :: vs)))
     in all cs) (fun vss ->
    if Z.ltb n0 Z0 then Err EValue else mapM (row ks vss) (iota n0))
| Par (arr, _, c') ->
  bind (to_list c') (fun vs ->
    match arr with
    | Some a ->
      (match a with
       | AString ->
         mapM (fun v -> rmap (fun x -> VStr (true, x)) (bytes_of v)) vs
       | ABytestring ->
         mapM (fun v -> rmap (fun x -> VStr (false, x)) (bytes_of v)) vs
       | _ -> Ok vs)
    | None -> Ok vs)

(** val datum_eqb : datum -> datum -> bool **)

let datum_eqb a b =
  match a with
  | DZ x -> (match b with
             | DZ y -> Z.eqb x y
             | _ -> false)
  | DNaN -> (match b with
             | DNaN -> true
             | _ -> false)
  | DInf x -> (match b with
               | DInf y -> eqb x y
               | _ -> false)

(** val value_eqb : value -> value -> bool **)

let rec value_eqb a b =
  match a with
  | VNum x -> (match b with
               | VNum y -> datum_eqb x y
               | _ -> false)
  | VBool x -> (match b with
                | VBool y -> eqb x y
                | _ -> false)
  | VStr (i, s) ->
    (match b with
     | VStr (j, t) -> (&&) (eqb i j) (list_eqb Z.eqb s t)
     | _ -> false)
  | VNone -> (match b with
              | VNone -> true
              | _ -> false)
  | VList l ->
    (match b with
     | VList m ->
       let rec go l0 m0 =
         match l0 with
         | [] -> (match m0 with
                  | [] -> true
                  | _ :: _ -> false)
         | x :: xs ->
           (match m0 with
            | [] -> false
            | y :: ys -> (&&) (value_eqb x y) (go xs ys))
       in go l m
     | _ -> false)
  | VRec f ->
    (match b with
     | VRec g ->
       let rec go l m =
         match l with
         | [] -> (match m with
                  | [] -> true
                  | _ :: _ -> false)
         | p :: xs ->
           let (k, x) = p in
           (match m with
            | [] -> false
            | p0 :: ys ->
              let (k', y) = p0 in
              (&&) ((&&) (list_eqb Z.eqb k k') (value_eqb x y)) (go xs ys))
       in go f g
     | _ -> false)
  | VTup l ->
    (match b with
     | VTup m ->
       let rec go l0 m0 =
         match l0 with
         | [] -> (match m0 with
                  | [] -> true
                  | _ :: _ -> false)
         | x :: xs ->
           (match m0 with
            | [] -> false
            | y :: ys -> (&&) (value_eqb x y) (go xs ys))
       in go l m
     | _ -> false)

(** val strip : content -> content **)

let rec strip c = match c with
| Par (_, _, c') -> strip c'
| _ -> c

(** val optionlike : content -> bool **)

let optionlike c =
  match strip c with
  | Indexed (_, _, _) -> true
  | IndexedOption (_, _, _) -> true
  | ByteMasked (_, _, _) -> true
  | BitMasked (_, _, _, _, _) -> true
  | Unmasked _ -> true
  | _ -> false

(** val unionlike : content -> bool **)

let unionlike c =
  match strip c with
  | Union (_, _, _, _) -> true
  | _ -> false

(** val pair_okb : z -> (z * z) -> bool **)

let pair_okb lc = function
| (a, b) ->
  (||) (Z.eqb a b) ((&&) ((&&) (Z.leb a b) (Z.leb Z0 a)) (Z.leb b lc))

(** val is_chars : akind -> content -> bool **)

let is_chars k = function
| Par (arr, _, c0) ->
  (match arr with
   | Some k' ->
     (match c0 with
      | Numpy (dt, shape, _) ->
        (match dt with
         | DUInt8 ->
           (match shape with
            | [] -> false
            | _ :: l ->
              (match l with
               | [] ->
                 (match k with
                  | AChar -> (match k' with
                              | AChar -> true
                              | _ -> false)
                  | AByte -> (match k' with
                              | AByte -> true
                              | _ -> false)
                  | _ -> false)
               | _ :: _ -> false))
         | _ -> false)
      | _ -> false)
   | None -> false)
| _ -> false

(** val list_content : content -> content option **)

let list_content = function
| ListOffset (_, _, c') -> Some c'
| ListA (_, _, _, c') -> Some c'
| Regular (c', _, _) -> Some c'
| _ -> None

(** val paramcheck : akind option -> content -> bool **)

let paramcheck p c =
  match p with
  | Some a ->
    (match a with
     | AString ->
       (match list_content c with
        | Some c' -> is_chars AChar c'
        | None -> false)
     | ABytestring ->
       (match list_content c with
        | Some c' -> is_chars AByte c'
        | None -> false)
     | _ -> false)
  | None -> true

(** val is_strk : akind option -> bool **)

let is_strk = function
| Some a -> (match a with
             | AString -> true
             | ABytestring -> true
             | _ -> false)
| None -> false

(** val union_okb : z list -> (z * z) -> bool **)

let union_okb lens = function
| (t, i) ->
  (&&) ((&&) (Z.leb Z0 t) (Z.leb Z0 i))
    (match get lens t with
     | Ok lc -> Z.ltb i lc
     | Err _ -> false)

(** val validb : akind option -> content -> bool **)

let rec validb p c = match c with
| Numpy (_, shape, data) ->
  (&&) (paramcheck p c)
    (match shape with
     | [] -> false
     | _ :: _ ->
       (&&) (forallb (fun d -> Z.leb Z0 d) shape)
         (Z.leb (prodZ shape) (zlen data)))
| Empty -> paramcheck p c
| ListOffset (_, o, c') ->
  (&&)
    ((&&) ((&&) (paramcheck p c) (Z.leb (Zpos XH) (zlen o)))
      (forallb (pair_okb (clen c')) (pairs o)))
    (if is_strk p then true else validb None c')
| ListA (_, s, e, c') ->
  (&&)
    ((&&) ((&&) (paramcheck p c) (Z.leb (zlen s) (zlen e)))
      (forallb (pair_okb (clen c')) (zip s e)))
    (if is_strk p then true else validb None c')
| Regular (c', size, zl) ->
  (&&) ((&&) ((&&) (paramcheck p c) (Z.leb Z0 size)) (Z.leb Z0 zl))
    (if is_strk p then true else validb None c')
| Indexed (_, ix, c') ->
  (&&)
    ((&&)
      ((&&) (paramcheck p c)
        (forallb (fun i -> (&&) (Z.leb Z0 i) (Z.ltb i (clen c'))) ix))
      (negb (optionlike c'))) (validb None c')
| IndexedOption (_, ix, c') ->
  (&&)
    ((&&) ((&&) (paramcheck p c) (forallb (fun i -> Z.ltb i (clen c')) ix))
      (negb (optionlike c'))) (validb None c')
| ByteMasked (m, _, c') ->
  (&&)
    ((&&) ((&&) (paramcheck p c) (Z.leb (zlen m) (clen c')))
      (negb (optionlike c'))) (validb None c')
| BitMasked (m, _, _, n0, c') ->
  (&&)
    ((&&)
      ((&&)
        ((&&) ((&&) (paramcheck p c) (Z.leb Z0 n0))
          (Z.leb n0 (Z.mul (zlen m) (Zpos (XO (XO (XO XH)))))))
        (Z.leb n0 (clen c'))) (negb (optionlike c'))) (validb None c')
| Unmasked c' ->
  (&&) ((&&) (paramcheck p c) (negb (optionlike c'))) (validb None c')
| Union (_, t, ix, cs) ->
  (&&)
    ((&&)
      ((&&) ((&&) (paramcheck p c) (negb (existsb unionlike cs)))
        (Z.leb (zlen t) (zlen ix)))
      (forallb (union_okb (map clen cs)) (zip t ix)))
    (let rec all = function
     | [] -> true
     | x :: xs -> (&&) (validb None x) (all xs)
     in all cs)
| Record (cs, _, n0) ->
  (&&)
    ((&&)
      ((&&) ((&&) (paramcheck p c) (Z.leb Z0 n0))
        (forallb (fun x -> Z.leb n0 (clen x)) cs))
      (match c with
       | Record (_, keys, _) ->
         (match keys with
          | Some ks -> Nat.eqb (length ks) (length cs)
          | None -> true)
       | _ -> true))
    (let rec all = function
     | [] -> true
     | x :: xs -> (&&) (validb None x) (all xs)
     in all cs)
| Par (arr, _, c') ->
  (match p with
   | Some _ -> false
   | None -> (match c' with
              | Par (_, _, _) -> false
              | _ -> validb arr c'))

(** val valid_b : content -> bool **)

let valid_b c =
  validb None c

type ty =
| TNum of dtype
| TUnk
| TList of z option * bool option * ty
| TOpt of ty
| TRec of name list option * ty list
| TUnion of ty list

(** val numpy_ty : dtype -> z list -> ty **)

let rec numpy_ty dt = function
| [] -> TNum dt
| d :: ds -> TList ((Some d), None, (numpy_ty dt ds))

(** val strflag : akind option -> bool option **)

let strflag = function
| Some a ->
  (match a with
   | AString -> Some true
   | ABytestring -> Some false
   | _ -> None)
| None -> None

(** val type_of_p : akind option -> content -> ty **)

let rec type_of_p p = function
| Numpy (dt, shape, _) -> numpy_ty dt (tl shape)
| Empty -> TUnk
| ListOffset (_, _, c') -> TList (None, (strflag p), (type_of_p None c'))
| ListA (_, _, _, c') -> TList (None, (strflag p), (type_of_p None c'))
| Regular (c', size, _) ->
  TList ((Some size), (strflag p), (type_of_p None c'))
| Indexed (_, _, c') -> type_of_p None c'
| IndexedOption (_, _, c') -> TOpt (type_of_p None c')
| ByteMasked (_, _, c') -> TOpt (type_of_p None c')
| BitMasked (_, _, _, _, c') -> TOpt (type_of_p None c')
| Unmasked c' -> TOpt (type_of_p None c')
| Union (_, _, _, cs) -> TUnion (map (type_of_p None) cs)
| Record (cs, ks, _) -> TRec (ks, (map (type_of_p None) cs))
| Par (arr, _, c') -> type_of_p arr c'

(** val type_of : content -> ty **)

let type_of c =
  type_of_p None c

(** val gather : 'a1 list -> z list -> 'a1 list res **)

let gather l ix =
  mapM (get l) ix

(** val bytemask_of_bits : z list -> bool -> z -> z list res **)

let bytemask_of_bits m lsb n0 =
  mapM (fun i ->
    bind (bit_at m lsb i) (fun b -> Ok (if b then Zpos XH else Z0))) 
    (iota n0)

(** val carry : content -> z list -> content res **)

let rec carry c ix =
  match c with
  | Numpy (dt, shape, data) ->
    (match shape with
     | [] -> Err EValue
     | n0 :: dims ->
       let rs = prodZ dims in
       bind
         (mapM (fun i ->
           if (&&) (Z.leb Z0 i) (Z.ltb i n0)
           then slice data (Z.mul i rs) (Z.mul (Z.add i (Zpos XH)) rs)
           else Err EOob) ix) (fun rows -> Ok (Numpy (dt,
         ((zlen ix) :: dims), (concat rows)))))
  | Empty -> (match ix with
              | [] -> Ok Empty
              | _ :: _ -> Err EOob)
  | ListOffset (w, o, c') ->
    bind (gather (removelast o) ix) (fun s ->
      bind (gather (tl o) ix) (fun e -> Ok (ListA (w, s, e, c'))))
  | ListA (w, s, e, c') ->
    bind (gather s ix) (fun s' ->
      bind (gather e ix) (fun e' -> Ok (ListA (w, s', e', c'))))
  | Regular (c', size, zl) ->
    let n0 = if Z.eqb size Z0 then zl else Z.div (clen c') size in
    bind
      (mapM (fun i ->
        if (&&) (Z.leb Z0 i) (Z.ltb i n0)
        then Ok (range (Z.mul i size) (Z.mul (Z.add i (Zpos XH)) size))
        else Err EOob) ix) (fun next ->
      bind (carry c' (concat next)) (fun c'' -> Ok (Regular (c'', size,
        (zlen ix)))))
  | Indexed (w, ix', c') ->
    bind (gather ix' ix) (fun j -> Ok (Indexed (w, j, c')))
  | IndexedOption (w, ix', c') ->
    bind (gather ix' ix) (fun j -> Ok (IndexedOption (w, j, c')))
  | ByteMasked (m, vw, c') ->
    bind (gather m ix) (fun m' ->
      bind (carry c' ix) (fun c'' -> Ok (ByteMasked (m', vw, c''))))
  | BitMasked (m, vw, lsb, n0, c') ->
    bind (bytemask_of_bits m lsb n0) (fun bm ->
      bind (gather bm ix) (fun m' ->
        bind (carry c' ix) (fun c'' -> Ok (ByteMasked (m', vw, c'')))))
  | Unmasked c' -> bind (carry c' ix) (fun c'' -> Ok (Unmasked c''))
  | Union (w, t, ix', cs) ->
    bind (gather t ix) (fun t' ->
      bind (gather (take (zlen t) ix') ix) (fun j -> Ok (Union (w, t', j,
        cs))))
  | Record (cs, ks, n0) ->
    if forallb (fun i -> (&&) (Z.leb Z0 i) (Z.ltb i n0)) ix
    then bind
           (let rec all = function
            | [] -> Ok []
            | x :: xs ->
              bind (carry x ix) (fun y ->
                bind (all xs) (fun ys -> Ok (y :: ys)))
            in all cs) (fun cs' -> Ok (Record (cs', ks, (zlen ix))))
    else Err EOob
  | Par (a, r, c') -> bind (carry c' ix) (fun c'' -> Ok (Par (a, r, c'')))

(** val crange : content -> z -> z -> content res **)

let crange c a b =
  carry c (range a b)

type bytes = z list

(** val bytes_eqb : bytes -> bytes -> bool **)

let bytes_eqb a b =
  list_eqb Z.eqb a b

(** val bytes_ltb : bytes -> bytes -> bool **)

let rec bytes_ltb a b =
  match a with
  | [] -> (match b with
           | [] -> false
           | _ :: _ -> true)
  | x :: xs ->
    (match b with
     | [] -> false
     | y :: ys ->
       if Z.ltb x y
       then true
       else if Z.ltb y x then false else bytes_ltb xs ys)

(** val cstr : bytes -> bytes **)

let rec cstr = function
| [] -> []
| c :: r -> if Z.eqb c Z0 then [] else c :: (cstr r)

(** val is_prefix : bytes -> bytes -> bool **)

let rec is_prefix s t =
  match s with
  | [] -> true
  | x :: xs ->
    (match t with
     | [] -> false
     | y :: ys -> (&&) (Z.eqb x y) (is_prefix xs ys))

type json =
| JNull
| JBool of bool
| JInt of z
| JDbl of bytes
| JStr of bytes
| JArr of json list
| JObj of (bytes * json) list

(** val jfind : bytes -> (bytes * json) list -> json option **)

let rec jfind k = function
| [] -> None
| p :: r -> let (k', v) = p in if bytes_eqb k' k then Some v else jfind k r

(** val is_int32 : z -> bool **)

let is_int32 z0 =
  (&&)
    (Z.leb (Zneg (XO (XO (XO (XO (XO (XO (XO (XO (XO (XO (XO (XO (XO (XO (XO
      (XO (XO (XO (XO (XO (XO (XO (XO (XO (XO (XO (XO (XO (XO (XO (XO
      XH)))))))))))))))))))))))))))))))) z0)
    (Z.leb z0 (Zpos (XI (XI (XI (XI (XI (XI (XI (XI (XI (XI (XI (XI (XI (XI
      (XI (XI (XI (XI (XI (XI (XI (XI (XI (XI (XI (XI (XI (XI (XI (XI
      XH))))))))))))))))))))))))))))))))

(** val uint_digits : uint -> bytes **)

let rec uint_digits = function
| Nil -> []
| D0 r -> (Zpos (XO (XO (XO (XO (XI XH)))))) :: (uint_digits r)
| D1 r -> (Zpos (XI (XO (XO (XO (XI XH)))))) :: (uint_digits r)
| D2 r -> (Zpos (XO (XI (XO (XO (XI XH)))))) :: (uint_digits r)
| D3 r -> (Zpos (XI (XI (XO (XO (XI XH)))))) :: (uint_digits r)
| D4 r -> (Zpos (XO (XO (XI (XO (XI XH)))))) :: (uint_digits r)
| D5 r -> (Zpos (XI (XO (XI (XO (XI XH)))))) :: (uint_digits r)
| D6 r -> (Zpos (XO (XI (XI (XO (XI XH)))))) :: (uint_digits r)
| D7 r -> (Zpos (XI (XI (XI (XO (XI XH)))))) :: (uint_digits r)
| D8 r -> (Zpos (XO (XO (XO (XI (XI XH)))))) :: (uint_digits r)
| D9 r -> (Zpos (XI (XO (XO (XI (XI XH)))))) :: (uint_digits r)

(** val dec_of_Z : z -> bytes **)

let dec_of_Z z0 =
  match Z.to_int z0 with
  | Pos u -> uint_digits u
  | Neg u -> (Zpos (XI (XO (XI (XI (XO XH)))))) :: (uint_digits u)

(** val hexdigit : z -> z **)

let hexdigit n0 =
  if Z.ltb n0 (Zpos (XO (XI (XO XH))))
  then Z.add (Zpos (XO (XO (XO (XO (XI XH)))))) n0
  else Z.add (Zpos (XI (XI (XI (XO (XI XH)))))) n0

(** val escape_char : z -> bytes **)

let escape_char c =
  if Z.eqb c (Zpos (XO (XI (XO (XO (XO XH))))))
  then (Zpos (XO (XO (XI (XI (XI (XO XH))))))) :: ((Zpos (XO (XI (XO (XO (XO
         XH)))))) :: [])
  else if Z.eqb c (Zpos (XO (XO (XI (XI (XI (XO XH)))))))
       then (Zpos (XO (XO (XI (XI (XI (XO XH))))))) :: ((Zpos (XO (XO (XI (XI
              (XI (XO XH))))))) :: [])
       else if Z.eqb c (Zpos (XO (XO (XO XH))))
            then (Zpos (XO (XO (XI (XI (XI (XO XH))))))) :: ((Zpos (XO (XI
                   (XO (XO (XO (XI XH))))))) :: [])
            else if Z.eqb c (Zpos (XO (XO (XI XH))))
                 then (Zpos (XO (XO (XI (XI (XI (XO XH))))))) :: ((Zpos (XO
                        (XI (XI (XO (XO (XI XH))))))) :: [])
                 else if Z.eqb c (Zpos (XO (XI (XO XH))))
                      then (Zpos (XO (XO (XI (XI (XI (XO XH))))))) :: ((Zpos
                             (XO (XI (XI (XI (XO (XI XH))))))) :: [])
                      else if Z.eqb c (Zpos (XI (XO (XI XH))))
                           then (Zpos (XO (XO (XI (XI (XI (XO
                                  XH))))))) :: ((Zpos (XO (XI (XO (XO (XI (XI
                                  XH))))))) :: [])
                           else if Z.eqb c (Zpos (XI (XO (XO XH))))
                                then (Zpos (XO (XO (XI (XI (XI (XO
                                       XH))))))) :: ((Zpos (XO (XO (XI (XO
                                       (XI (XI XH))))))) :: [])
                                else if Z.ltb c (Zpos (XO (XO (XO (XO (XO
                                          XH))))))
                                     then (Zpos (XO (XO (XI (XI (XI (XO
                                            XH))))))) :: ((Zpos (XI (XO (XI
                                            (XO (XI (XI XH))))))) :: ((Zpos
                                            (XO (XO (XO (XO (XI
                                            XH)))))) :: ((Zpos (XO (XO (XO
                                            (XO (XI
                                            XH)))))) :: ((hexdigit
                                                           (Z.div c (Zpos (XO
                                                             (XO (XO (XO
                                                             XH))))))) :: (
                                            (hexdigit
                                              (Z.modulo c (Zpos (XO (XO (XO
                                                (XO XH))))))) :: [])))))
                                     else c :: []

(** val quote : bytes -> bytes **)

let quote s =
  (Zpos (XO (XI (XO (XO (XO
    XH)))))) :: (app (flat_map escape_char s) ((Zpos (XO (XI (XO (XO (XO
                  XH)))))) :: []))

(** val sep_concat : bytes -> bytes list -> bytes **)

let rec sep_concat sep = function
| [] -> []
| p :: rest ->
  (match rest with
   | [] -> p
   | _ :: _ -> app p (app sep (sep_concat sep rest)))

(** val json_print : json -> bytes **)

let rec json_print = function
| JNull ->
  (Zpos (XO (XI (XI (XI (XO (XI XH))))))) :: ((Zpos (XI (XO (XI (XO (XI (XI
    XH))))))) :: ((Zpos (XO (XO (XI (XI (XO (XI XH))))))) :: ((Zpos (XO (XO
    (XI (XI (XO (XI XH))))))) :: [])))
| JBool b ->
  if b
  then (Zpos (XO (XO (XI (XO (XI (XI XH))))))) :: ((Zpos (XO (XI (XO (XO (XI
         (XI XH))))))) :: ((Zpos (XI (XO (XI (XO (XI (XI XH))))))) :: ((Zpos
         (XI (XO (XI (XO (XO (XI XH))))))) :: [])))
  else (Zpos (XO (XI (XI (XO (XO (XI XH))))))) :: ((Zpos (XI (XO (XO (XO (XO
         (XI XH))))))) :: ((Zpos (XO (XO (XI (XI (XO (XI XH))))))) :: ((Zpos
         (XI (XI (XO (XO (XI (XI XH))))))) :: ((Zpos (XI (XO (XI (XO (XO (XI
         XH))))))) :: []))))
| JInt z0 -> dec_of_Z z0
| JDbl t -> t
| JStr s -> quote s
| JArr l ->
  (Zpos (XI (XI (XO (XI (XI (XO
    XH))))))) :: (app
                   (sep_concat ((Zpos (XO (XO (XI (XI (XO XH)))))) :: [])
                     (map json_print l)) ((Zpos (XI (XO (XI (XI (XI (XO
                   XH))))))) :: []))
| JObj m ->
  (Zpos (XI (XI (XO (XI (XI (XI
    XH))))))) :: (app
                   (sep_concat ((Zpos (XO (XO (XI (XI (XO XH)))))) :: [])
                     (let rec go = function
                      | [] -> []
                      | p :: r ->
                        let (k, v) = p in
                        (app (quote k) ((Zpos (XO (XI (XO (XI (XI
                          XH)))))) :: (json_print v))) :: (go r)
                      in go m)) ((Zpos (XI (XO (XI (XI (XI (XI
                   XH))))))) :: []))

(** val pset : bytes -> 'a1 -> (bytes * 'a1) list -> (bytes * 'a1) list **)

let rec pset k v m = match m with
| [] -> (k, v) :: []
| p :: r ->
  let (k', v') = p in
  if bytes_ltb k k'
  then (k, v) :: m
  else if bytes_ltb k' k then (k', v') :: (pset k v r) else (k, v) :: r

(** val perase : bytes -> (bytes * 'a1) list -> (bytes * 'a1) list **)

let rec perase k = function
| [] -> []
| p :: r ->
  let (k', v') = p in if bytes_eqb k' k then r else (k', v') :: (perase k r)

(** val pfind : bytes -> (bytes * 'a1) list -> 'a1 option **)

let rec pfind k = function
| [] -> None
| p :: r -> let (k', v) = p in if bytes_eqb k' k then Some v else pfind k r

(** val psorted : (bytes * 'a1) list -> bool **)

let rec psorted = function
| [] -> true
| p :: r ->
  let (k, _) = p in
  (match r with
   | [] -> true
   | p0 :: _ -> let (k', _) = p0 in (&&) (bytes_ltb k k') (psorted r))

(** val k_class : z list **)

let k_class =
  (Zpos (XI (XI (XO (XO (XO (XI XH))))))) :: ((Zpos (XO (XO (XI (XI (XO (XI
    XH))))))) :: ((Zpos (XI (XO (XO (XO (XO (XI XH))))))) :: ((Zpos (XI (XI
    (XO (XO (XI (XI XH))))))) :: ((Zpos (XI (XI (XO (XO (XI (XI
    XH))))))) :: []))))

(** val k_has_identifier : z list **)

let k_has_identifier =
  (Zpos (XO (XO (XO (XI (XO (XI XH))))))) :: ((Zpos (XI (XO (XO (XO (XO (XI
    XH))))))) :: ((Zpos (XI (XI (XO (XO (XI (XI XH))))))) :: ((Zpos (XI (XI
    (XI (XI (XI (XO XH))))))) :: ((Zpos (XI (XO (XO (XI (XO (XI
    XH))))))) :: ((Zpos (XO (XO (XI (XO (XO (XI XH))))))) :: ((Zpos (XI (XO
    (XI (XO (XO (XI XH))))))) :: ((Zpos (XO (XI (XI (XI (XO (XI
    XH))))))) :: ((Zpos (XO (XO (XI (XO (XI (XI XH))))))) :: ((Zpos (XI (XO
    (XO (XI (XO (XI XH))))))) :: ((Zpos (XO (XI (XI (XO (XO (XI
    XH))))))) :: ((Zpos (XI (XO (XO (XI (XO (XI XH))))))) :: ((Zpos (XI (XO
    (XI (XO (XO (XI XH))))))) :: ((Zpos (XO (XI (XO (XO (XI (XI
    XH))))))) :: [])))))))))))))

(** val k_has_identities : z list **)

let k_has_identities =
  (Zpos (XO (XO (XO (XI (XO (XI XH))))))) :: ((Zpos (XI (XO (XO (XO (XO (XI
    XH))))))) :: ((Zpos (XI (XI (XO (XO (XI (XI XH))))))) :: ((Zpos (XI (XI
    (XI (XI (XI (XO XH))))))) :: ((Zpos (XI (XO (XO (XI (XO (XI
    XH))))))) :: ((Zpos (XO (XO (XI (XO (XO (XI XH))))))) :: ((Zpos (XI (XO
    (XI (XO (XO (XI XH))))))) :: ((Zpos (XO (XI (XI (XI (XO (XI
    XH))))))) :: ((Zpos (XO (XO (XI (XO (XI (XI XH))))))) :: ((Zpos (XI (XO
    (XO (XI (XO (XI XH))))))) :: ((Zpos (XO (XO (XI (XO (XI (XI
    XH))))))) :: ((Zpos (XI (XO (XO (XI (XO (XI XH))))))) :: ((Zpos (XI (XO
    (XI (XO (XO (XI XH))))))) :: ((Zpos (XI (XI (XO (XO (XI (XI
    XH))))))) :: [])))))))))))))

(** val k_parameters : z list **)

let k_parameters =
  (Zpos (XO (XO (XO (XO (XI (XI XH))))))) :: ((Zpos (XI (XO (XO (XO (XO (XI
    XH))))))) :: ((Zpos (XO (XI (XO (XO (XI (XI XH))))))) :: ((Zpos (XI (XO
    (XO (XO (XO (XI XH))))))) :: ((Zpos (XI (XO (XI (XI (XO (XI
    XH))))))) :: ((Zpos (XI (XO (XI (XO (XO (XI XH))))))) :: ((Zpos (XO (XO
    (XI (XO (XI (XI XH))))))) :: ((Zpos (XI (XO (XI (XO (XO (XI
    XH))))))) :: ((Zpos (XO (XI (XO (XO (XI (XI XH))))))) :: ((Zpos (XI (XI
    (XO (XO (XI (XI XH))))))) :: [])))))))))

(** val k_form_key : z list **)

let k_form_key =
  (Zpos (XO (XI (XI (XO (XO (XI XH))))))) :: ((Zpos (XI (XI (XI (XI (XO (XI
    XH))))))) :: ((Zpos (XO (XI (XO (XO (XI (XI XH))))))) :: ((Zpos (XI (XO
    (XI (XI (XO (XI XH))))))) :: ((Zpos (XI (XI (XI (XI (XI (XO
    XH))))))) :: ((Zpos (XI (XI (XO (XI (XO (XI XH))))))) :: ((Zpos (XI (XO
    (XI (XO (XO (XI XH))))))) :: ((Zpos (XI (XO (XO (XI (XI (XI
    XH))))))) :: [])))))))

(** val k_primitive : z list **)

let k_primitive =
  (Zpos (XO (XO (XO (XO (XI (XI XH))))))) :: ((Zpos (XO (XI (XO (XO (XI (XI
    XH))))))) :: ((Zpos (XI (XO (XO (XI (XO (XI XH))))))) :: ((Zpos (XI (XO
    (XI (XI (XO (XI XH))))))) :: ((Zpos (XI (XO (XO (XI (XO (XI
    XH))))))) :: ((Zpos (XO (XO (XI (XO (XI (XI XH))))))) :: ((Zpos (XI (XO
    (XO (XI (XO (XI XH))))))) :: ((Zpos (XO (XI (XI (XO (XI (XI
    XH))))))) :: ((Zpos (XI (XO (XI (XO (XO (XI XH))))))) :: []))))))))

(** val k_format : z list **)

let k_format =
  (Zpos (XO (XI (XI (XO (XO (XI XH))))))) :: ((Zpos (XI (XI (XI (XI (XO (XI
    XH))))))) :: ((Zpos (XO (XI (XO (XO (XI (XI XH))))))) :: ((Zpos (XI (XO
    (XI (XI (XO (XI XH))))))) :: ((Zpos (XI (XO (XO (XO (XO (XI
    XH))))))) :: ((Zpos (XO (XO (XI (XO (XI (XI XH))))))) :: [])))))

(** val k_itemsize : z list **)

let k_itemsize =
  (Zpos (XI (XO (XO (XI (XO (XI XH))))))) :: ((Zpos (XO (XO (XI (XO (XI (XI
    XH))))))) :: ((Zpos (XI (XO (XI (XO (XO (XI XH))))))) :: ((Zpos (XI (XO
    (XI (XI (XO (XI XH))))))) :: ((Zpos (XI (XI (XO (XO (XI (XI
    XH))))))) :: ((Zpos (XI (XO (XO (XI (XO (XI XH))))))) :: ((Zpos (XO (XI
    (XO (XI (XI (XI XH))))))) :: ((Zpos (XI (XO (XI (XO (XO (XI
    XH))))))) :: [])))))))

(** val k_inner_shape : z list **)

let k_inner_shape =
  (Zpos (XI (XO (XO (XI (XO (XI XH))))))) :: ((Zpos (XO (XI (XI (XI (XO (XI
    XH))))))) :: ((Zpos (XO (XI (XI (XI (XO (XI XH))))))) :: ((Zpos (XI (XO
    (XI (XO (XO (XI XH))))))) :: ((Zpos (XO (XI (XO (XO (XI (XI
    XH))))))) :: ((Zpos (XI (XI (XI (XI (XI (XO XH))))))) :: ((Zpos (XI (XI
    (XO (XO (XI (XI XH))))))) :: ((Zpos (XO (XO (XO (XI (XO (XI
    XH))))))) :: ((Zpos (XI (XO (XO (XO (XO (XI XH))))))) :: ((Zpos (XO (XO
    (XO (XO (XI (XI XH))))))) :: ((Zpos (XI (XO (XI (XO (XO (XI
    XH))))))) :: []))))))))))

(** val k_contents : z list **)

let k_contents =
  (Zpos (XI (XI (XO (XO (XO (XI XH))))))) :: ((Zpos (XI (XI (XI (XI (XO (XI
    XH))))))) :: ((Zpos (XO (XI (XI (XI (XO (XI XH))))))) :: ((Zpos (XO (XO
    (XI (XO (XI (XI XH))))))) :: ((Zpos (XI (XO (XI (XO (XO (XI
    XH))))))) :: ((Zpos (XO (XI (XI (XI (XO (XI XH))))))) :: ((Zpos (XO (XO
    (XI (XO (XI (XI XH))))))) :: ((Zpos (XI (XI (XO (XO (XI (XI
    XH))))))) :: [])))))))

(** val k_content : z list **)

let k_content =
  (Zpos (XI (XI (XO (XO (XO (XI XH))))))) :: ((Zpos (XI (XI (XI (XI (XO (XI
    XH))))))) :: ((Zpos (XO (XI (XI (XI (XO (XI XH))))))) :: ((Zpos (XO (XO
    (XI (XO (XI (XI XH))))))) :: ((Zpos (XI (XO (XI (XO (XO (XI
    XH))))))) :: ((Zpos (XO (XI (XI (XI (XO (XI XH))))))) :: ((Zpos (XO (XO
    (XI (XO (XI (XI XH))))))) :: []))))))

(** val k_offsets : z list **)

let k_offsets =
  (Zpos (XI (XI (XI (XI (XO (XI XH))))))) :: ((Zpos (XO (XI (XI (XO (XO (XI
    XH))))))) :: ((Zpos (XO (XI (XI (XO (XO (XI XH))))))) :: ((Zpos (XI (XI
    (XO (XO (XI (XI XH))))))) :: ((Zpos (XI (XO (XI (XO (XO (XI
    XH))))))) :: ((Zpos (XO (XO (XI (XO (XI (XI XH))))))) :: ((Zpos (XI (XI
    (XO (XO (XI (XI XH))))))) :: []))))))

(** val k_starts : z list **)

let k_starts =
  (Zpos (XI (XI (XO (XO (XI (XI XH))))))) :: ((Zpos (XO (XO (XI (XO (XI (XI
    XH))))))) :: ((Zpos (XI (XO (XO (XO (XO (XI XH))))))) :: ((Zpos (XO (XI
    (XO (XO (XI (XI XH))))))) :: ((Zpos (XO (XO (XI (XO (XI (XI
    XH))))))) :: ((Zpos (XI (XI (XO (XO (XI (XI XH))))))) :: [])))))

(** val k_stops : z list **)

let k_stops =
  (Zpos (XI (XI (XO (XO (XI (XI XH))))))) :: ((Zpos (XO (XO (XI (XO (XI (XI
    XH))))))) :: ((Zpos (XI (XI (XI (XI (XO (XI XH))))))) :: ((Zpos (XO (XO
    (XO (XO (XI (XI XH))))))) :: ((Zpos (XI (XI (XO (XO (XI (XI
    XH))))))) :: []))))

(** val k_size : z list **)

let k_size =
  (Zpos (XI (XI (XO (XO (XI (XI XH))))))) :: ((Zpos (XI (XO (XO (XI (XO (XI
    XH))))))) :: ((Zpos (XO (XI (XO (XI (XI (XI XH))))))) :: ((Zpos (XI (XO
    (XI (XO (XO (XI XH))))))) :: [])))

(** val k_index : z list **)

let k_index =
  (Zpos (XI (XO (XO (XI (XO (XI XH))))))) :: ((Zpos (XO (XI (XI (XI (XO (XI
    XH))))))) :: ((Zpos (XO (XO (XI (XO (XO (XI XH))))))) :: ((Zpos (XI (XO
    (XI (XO (XO (XI XH))))))) :: ((Zpos (XO (XO (XO (XI (XI (XI
    XH))))))) :: []))))

(** val k_mask : z list **)

let k_mask =
  (Zpos (XI (XO (XI (XI (XO (XI XH))))))) :: ((Zpos (XI (XO (XO (XO (XO (XI
    XH))))))) :: ((Zpos (XI (XI (XO (XO (XI (XI XH))))))) :: ((Zpos (XI (XI
    (XO (XI (XO (XI XH))))))) :: [])))

(** val k_valid_when : z list **)

let k_valid_when =
  (Zpos (XO (XI (XI (XO (XI (XI XH))))))) :: ((Zpos (XI (XO (XO (XO (XO (XI
    XH))))))) :: ((Zpos (XO (XO (XI (XI (XO (XI XH))))))) :: ((Zpos (XI (XO
    (XO (XI (XO (XI XH))))))) :: ((Zpos (XO (XO (XI (XO (XO (XI
    XH))))))) :: ((Zpos (XI (XI (XI (XI (XI (XO XH))))))) :: ((Zpos (XI (XI
    (XI (XO (XI (XI XH))))))) :: ((Zpos (XO (XO (XO (XI (XO (XI
    XH))))))) :: ((Zpos (XI (XO (XI (XO (XO (XI XH))))))) :: ((Zpos (XO (XI
    (XI (XI (XO (XI XH))))))) :: [])))))))))

(** val k_lsb_order : z list **)

let k_lsb_order =
  (Zpos (XO (XO (XI (XI (XO (XI XH))))))) :: ((Zpos (XI (XI (XO (XO (XI (XI
    XH))))))) :: ((Zpos (XO (XI (XO (XO (XO (XI XH))))))) :: ((Zpos (XI (XI
    (XI (XI (XI (XO XH))))))) :: ((Zpos (XI (XI (XI (XI (XO (XI
    XH))))))) :: ((Zpos (XO (XI (XO (XO (XI (XI XH))))))) :: ((Zpos (XO (XO
    (XI (XO (XO (XI XH))))))) :: ((Zpos (XI (XO (XI (XO (XO (XI
    XH))))))) :: ((Zpos (XO (XI (XO (XO (XI (XI XH))))))) :: []))))))))

(** val k_tags : z list **)

let k_tags =
  (Zpos (XO (XO (XI (XO (XI (XI XH))))))) :: ((Zpos (XI (XO (XO (XO (XO (XI
    XH))))))) :: ((Zpos (XI (XI (XI (XO (XO (XI XH))))))) :: ((Zpos (XI (XI
    (XO (XO (XI (XI XH))))))) :: [])))

(** val k_form : z list **)

let k_form =
  (Zpos (XO (XI (XI (XO (XO (XI XH))))))) :: ((Zpos (XI (XI (XI (XI (XO (XI
    XH))))))) :: ((Zpos (XO (XI (XO (XO (XI (XI XH))))))) :: ((Zpos (XI (XO
    (XI (XI (XO (XI XH))))))) :: [])))

(** val k_has_length : z list **)

let k_has_length =
  (Zpos (XO (XO (XO (XI (XO (XI XH))))))) :: ((Zpos (XI (XO (XO (XO (XO (XI
    XH))))))) :: ((Zpos (XI (XI (XO (XO (XI (XI XH))))))) :: ((Zpos (XI (XI
    (XI (XI (XI (XO XH))))))) :: ((Zpos (XO (XO (XI (XI (XO (XI
    XH))))))) :: ((Zpos (XI (XO (XI (XO (XO (XI XH))))))) :: ((Zpos (XO (XI
    (XI (XI (XO (XI XH))))))) :: ((Zpos (XI (XI (XI (XO (XO (XI
    XH))))))) :: ((Zpos (XO (XO (XI (XO (XI (XI XH))))))) :: ((Zpos (XO (XO
    (XO (XI (XO (XI XH))))))) :: [])))))))))

(** val k_array : z list **)

let k_array =
  (Zpos (XI (XI (XI (XI (XI (XO XH))))))) :: ((Zpos (XI (XI (XI (XI (XI (XO
    XH))))))) :: ((Zpos (XI (XO (XO (XO (XO (XI XH))))))) :: ((Zpos (XO (XI
    (XO (XO (XI (XI XH))))))) :: ((Zpos (XO (XI (XO (XO (XI (XI
    XH))))))) :: ((Zpos (XI (XO (XO (XO (XO (XI XH))))))) :: ((Zpos (XI (XO
    (XO (XI (XI (XI XH))))))) :: ((Zpos (XI (XI (XI (XI (XI (XO
    XH))))))) :: ((Zpos (XI (XI (XI (XI (XI (XO XH))))))) :: []))))))))

(** val k_record : z list **)

let k_record =
  (Zpos (XI (XI (XI (XI (XI (XO XH))))))) :: ((Zpos (XI (XI (XI (XI (XI (XO
    XH))))))) :: ((Zpos (XO (XI (XO (XO (XI (XI XH))))))) :: ((Zpos (XI (XO
    (XI (XO (XO (XI XH))))))) :: ((Zpos (XI (XI (XO (XO (XO (XI
    XH))))))) :: ((Zpos (XI (XI (XI (XI (XO (XI XH))))))) :: ((Zpos (XO (XI
    (XO (XO (XI (XI XH))))))) :: ((Zpos (XO (XO (XI (XO (XO (XI
    XH))))))) :: ((Zpos (XI (XI (XI (XI (XI (XO XH))))))) :: ((Zpos (XI (XI
    (XI (XI (XI (XO XH))))))) :: [])))))))))

(** val k_categorical : z list **)

let k_categorical =
  (Zpos (XI (XI (XI (XI (XI (XO XH))))))) :: ((Zpos (XI (XI (XI (XI (XI (XO
    XH))))))) :: ((Zpos (XI (XI (XO (XO (XO (XI XH))))))) :: ((Zpos (XI (XO
    (XO (XO (XO (XI XH))))))) :: ((Zpos (XO (XO (XI (XO (XI (XI
    XH))))))) :: ((Zpos (XI (XO (XI (XO (XO (XI XH))))))) :: ((Zpos (XI (XI
    (XI (XO (XO (XI XH))))))) :: ((Zpos (XI (XI (XI (XI (XO (XI
    XH))))))) :: ((Zpos (XO (XI (XO (XO (XI (XI XH))))))) :: ((Zpos (XI (XO
    (XO (XI (XO (XI XH))))))) :: ((Zpos (XI (XI (XO (XO (XO (XI
    XH))))))) :: ((Zpos (XI (XO (XO (XO (XO (XI XH))))))) :: ((Zpos (XO (XO
    (XI (XI (XO (XI XH))))))) :: ((Zpos (XI (XI (XI (XI (XI (XO
    XH))))))) :: ((Zpos (XI (XI (XI (XI (XI (XO XH))))))) :: []))))))))))))))

(** val c_NumpyArray : z list **)

let c_NumpyArray =
  (Zpos (XO (XI (XI (XI (XO (XO XH))))))) :: ((Zpos (XI (XO (XI (XO (XI (XI
    XH))))))) :: ((Zpos (XI (XO (XI (XI (XO (XI XH))))))) :: ((Zpos (XO (XO
    (XO (XO (XI (XI XH))))))) :: ((Zpos (XI (XO (XO (XI (XI (XI
    XH))))))) :: ((Zpos (XI (XO (XO (XO (XO (XO XH))))))) :: ((Zpos (XO (XI
    (XO (XO (XI (XI XH))))))) :: ((Zpos (XO (XI (XO (XO (XI (XI
    XH))))))) :: ((Zpos (XI (XO (XO (XO (XO (XI XH))))))) :: ((Zpos (XI (XO
    (XO (XI (XI (XI XH))))))) :: [])))))))))

(** val c_RecordArray : z list **)

let c_RecordArray =
  (Zpos (XO (XI (XO (XO (XI (XO XH))))))) :: ((Zpos (XI (XO (XI (XO (XO (XI
    XH))))))) :: ((Zpos (XI (XI (XO (XO (XO (XI XH))))))) :: ((Zpos (XI (XI
    (XI (XI (XO (XI XH))))))) :: ((Zpos (XO (XI (XO (XO (XI (XI
    XH))))))) :: ((Zpos (XO (XO (XI (XO (XO (XI XH))))))) :: ((Zpos (XI (XO
    (XO (XO (XO (XO XH))))))) :: ((Zpos (XO (XI (XO (XO (XI (XI
    XH))))))) :: ((Zpos (XO (XI (XO (XO (XI (XI XH))))))) :: ((Zpos (XI (XO
    (XO (XO (XO (XI XH))))))) :: ((Zpos (XI (XO (XO (XI (XI (XI
    XH))))))) :: []))))))))))

(** val c_ListOffsetArray : z list **)

let c_ListOffsetArray =
  (Zpos (XO (XO (XI (XI (XO (XO XH))))))) :: ((Zpos (XI (XO (XO (XI (XO (XI
    XH))))))) :: ((Zpos (XI (XI (XO (XO (XI (XI XH))))))) :: ((Zpos (XO (XO
    (XI (XO (XI (XI XH))))))) :: ((Zpos (XI (XI (XI (XI (XO (XO
    XH))))))) :: ((Zpos (XO (XI (XI (XO (XO (XI XH))))))) :: ((Zpos (XO (XI
    (XI (XO (XO (XI XH))))))) :: ((Zpos (XI (XI (XO (XO (XI (XI
    XH))))))) :: ((Zpos (XI (XO (XI (XO (XO (XI XH))))))) :: ((Zpos (XO (XO
    (XI (XO (XI (XI XH))))))) :: ((Zpos (XI (XO (XO (XO (XO (XO
    XH))))))) :: ((Zpos (XO (XI (XO (XO (XI (XI XH))))))) :: ((Zpos (XO (XI
    (XO (XO (XI (XI XH))))))) :: ((Zpos (XI (XO (XO (XO (XO (XI
    XH))))))) :: ((Zpos (XI (XO (XO (XI (XI (XI XH))))))) :: []))))))))))))))

(** val c_ListOffsetArray64 : z list **)

let c_ListOffsetArray64 =
  (Zpos (XO (XO (XI (XI (XO (XO XH))))))) :: ((Zpos (XI (XO (XO (XI (XO (XI
    XH))))))) :: ((Zpos (XI (XI (XO (XO (XI (XI XH))))))) :: ((Zpos (XO (XO
    (XI (XO (XI (XI XH))))))) :: ((Zpos (XI (XI (XI (XI (XO (XO
    XH))))))) :: ((Zpos (XO (XI (XI (XO (XO (XI XH))))))) :: ((Zpos (XO (XI
    (XI (XO (XO (XI XH))))))) :: ((Zpos (XI (XI (XO (XO (XI (XI
    XH))))))) :: ((Zpos (XI (XO (XI (XO (XO (XI XH))))))) :: ((Zpos (XO (XO
    (XI (XO (XI (XI XH))))))) :: ((Zpos (XI (XO (XO (XO (XO (XO
    XH))))))) :: ((Zpos (XO (XI (XO (XO (XI (XI XH))))))) :: ((Zpos (XO (XI
    (XO (XO (XI (XI XH))))))) :: ((Zpos (XI (XO (XO (XO (XO (XI
    XH))))))) :: ((Zpos (XI (XO (XO (XI (XI (XI XH))))))) :: ((Zpos (XO (XI
    (XI (XO (XI XH)))))) :: ((Zpos (XO (XO (XI (XO (XI
    XH)))))) :: []))))))))))))))))

(** val c_ListOffsetArrayU32 : z list **)

let c_ListOffsetArrayU32 =
  (Zpos (XO (XO (XI (XI (XO (XO XH))))))) :: ((Zpos (XI (XO (XO (XI (XO (XI
    XH))))))) :: ((Zpos (XI (XI (XO (XO (XI (XI XH))))))) :: ((Zpos (XO (XO
    (XI (XO (XI (XI XH))))))) :: ((Zpos (XI (XI (XI (XI (XO (XO
    XH))))))) :: ((Zpos (XO (XI (XI (XO (XO (XI XH))))))) :: ((Zpos (XO (XI
    (XI (XO (XO (XI XH))))))) :: ((Zpos (XI (XI (XO (XO (XI (XI
    XH))))))) :: ((Zpos (XI (XO (XI (XO (XO (XI XH))))))) :: ((Zpos (XO (XO
    (XI (XO (XI (XI XH))))))) :: ((Zpos (XI (XO (XO (XO (XO (XO
    XH))))))) :: ((Zpos (XO (XI (XO (XO (XI (XI XH))))))) :: ((Zpos (XO (XI
    (XO (XO (XI (XI XH))))))) :: ((Zpos (XI (XO (XO (XO (XO (XI
    XH))))))) :: ((Zpos (XI (XO (XO (XI (XI (XI XH))))))) :: ((Zpos (XI (XO
    (XI (XO (XI (XO XH))))))) :: ((Zpos (XI (XI (XO (XO (XI
    XH)))))) :: ((Zpos (XO (XI (XO (XO (XI XH)))))) :: [])))))))))))))))))

(** val c_ListOffsetArray32 : z list **)

let c_ListOffsetArray32 =
  (Zpos (XO (XO (XI (XI (XO (XO XH))))))) :: ((Zpos (XI (XO (XO (XI (XO (XI
    XH))))))) :: ((Zpos (XI (XI (XO (XO (XI (XI XH))))))) :: ((Zpos (XO (XO
    (XI (XO (XI (XI XH))))))) :: ((Zpos (XI (XI (XI (XI (XO (XO
    XH))))))) :: ((Zpos (XO (XI (XI (XO (XO (XI XH))))))) :: ((Zpos (XO (XI
    (XI (XO (XO (XI XH))))))) :: ((Zpos (XI (XI (XO (XO (XI (XI
    XH))))))) :: ((Zpos (XI (XO (XI (XO (XO (XI XH))))))) :: ((Zpos (XO (XO
    (XI (XO (XI (XI XH))))))) :: ((Zpos (XI (XO (XO (XO (XO (XO
    XH))))))) :: ((Zpos (XO (XI (XO (XO (XI (XI XH))))))) :: ((Zpos (XO (XI
    (XO (XO (XI (XI XH))))))) :: ((Zpos (XI (XO (XO (XO (XO (XI
    XH))))))) :: ((Zpos (XI (XO (XO (XI (XI (XI XH))))))) :: ((Zpos (XI (XI
    (XO (XO (XI XH)))))) :: ((Zpos (XO (XI (XO (XO (XI
    XH)))))) :: []))))))))))))))))

(** val c_ListArray : z list **)

let c_ListArray =
  (Zpos (XO (XO (XI (XI (XO (XO XH))))))) :: ((Zpos (XI (XO (XO (XI (XO (XI
    XH))))))) :: ((Zpos (XI (XI (XO (XO (XI (XI XH))))))) :: ((Zpos (XO (XO
    (XI (XO (XI (XI XH))))))) :: ((Zpos (XI (XO (XO (XO (XO (XO
    XH))))))) :: ((Zpos (XO (XI (XO (XO (XI (XI XH))))))) :: ((Zpos (XO (XI
    (XO (XO (XI (XI XH))))))) :: ((Zpos (XI (XO (XO (XO (XO (XI
    XH))))))) :: ((Zpos (XI (XO (XO (XI (XI (XI XH))))))) :: []))))))))

(** val c_ListArray64 : z list **)

let c_ListArray64 =
  (Zpos (XO (XO (XI (XI (XO (XO XH))))))) :: ((Zpos (XI (XO (XO (XI (XO (XI
    XH))))))) :: ((Zpos (XI (XI (XO (XO (XI (XI XH))))))) :: ((Zpos (XO (XO
    (XI (XO (XI (XI XH))))))) :: ((Zpos (XI (XO (XO (XO (XO (XO
    XH))))))) :: ((Zpos (XO (XI (XO (XO (XI (XI XH))))))) :: ((Zpos (XO (XI
    (XO (XO (XI (XI XH))))))) :: ((Zpos (XI (XO (XO (XO (XO (XI
    XH))))))) :: ((Zpos (XI (XO (XO (XI (XI (XI XH))))))) :: ((Zpos (XO (XI
    (XI (XO (XI XH)))))) :: ((Zpos (XO (XO (XI (XO (XI
    XH)))))) :: []))))))))))

(** val c_ListArrayU32 : z list **)

let c_ListArrayU32 =
  (Zpos (XO (XO (XI (XI (XO (XO XH))))))) :: ((Zpos (XI (XO (XO (XI (XO (XI
    XH))))))) :: ((Zpos (XI (XI (XO (XO (XI (XI XH))))))) :: ((Zpos (XO (XO
    (XI (XO (XI (XI XH))))))) :: ((Zpos (XI (XO (XO (XO (XO (XO
    XH))))))) :: ((Zpos (XO (XI (XO (XO (XI (XI XH))))))) :: ((Zpos (XO (XI
    (XO (XO (XI (XI XH))))))) :: ((Zpos (XI (XO (XO (XO (XO (XI
    XH))))))) :: ((Zpos (XI (XO (XO (XI (XI (XI XH))))))) :: ((Zpos (XI (XO
    (XI (XO (XI (XO XH))))))) :: ((Zpos (XI (XI (XO (XO (XI
    XH)))))) :: ((Zpos (XO (XI (XO (XO (XI XH)))))) :: [])))))))))))

(** val c_ListArray32 : z list **)

let c_ListArray32 =
  (Zpos (XO (XO (XI (XI (XO (XO XH))))))) :: ((Zpos (XI (XO (XO (XI (XO (XI
    XH))))))) :: ((Zpos (XI (XI (XO (XO (XI (XI XH))))))) :: ((Zpos (XO (XO
    (XI (XO (XI (XI XH))))))) :: ((Zpos (XI (XO (XO (XO (XO (XO
    XH))))))) :: ((Zpos (XO (XI (XO (XO (XI (XI XH))))))) :: ((Zpos (XO (XI
    (XO (XO (XI (XI XH))))))) :: ((Zpos (XI (XO (XO (XO (XO (XI
    XH))))))) :: ((Zpos (XI (XO (XO (XI (XI (XI XH))))))) :: ((Zpos (XI (XI
    (XO (XO (XI XH)))))) :: ((Zpos (XO (XI (XO (XO (XI
    XH)))))) :: []))))))))))

(** val c_RegularArray : z list **)

let c_RegularArray =
  (Zpos (XO (XI (XO (XO (XI (XO XH))))))) :: ((Zpos (XI (XO (XI (XO (XO (XI
    XH))))))) :: ((Zpos (XI (XI (XI (XO (XO (XI XH))))))) :: ((Zpos (XI (XO
    (XI (XO (XI (XI XH))))))) :: ((Zpos (XO (XO (XI (XI (XO (XI
    XH))))))) :: ((Zpos (XI (XO (XO (XO (XO (XI XH))))))) :: ((Zpos (XO (XI
    (XO (XO (XI (XI XH))))))) :: ((Zpos (XI (XO (XO (XO (XO (XO
    XH))))))) :: ((Zpos (XO (XI (XO (XO (XI (XI XH))))))) :: ((Zpos (XO (XI
    (XO (XO (XI (XI XH))))))) :: ((Zpos (XI (XO (XO (XO (XO (XI
    XH))))))) :: ((Zpos (XI (XO (XO (XI (XI (XI XH))))))) :: [])))))))))))

(** val c_IndexedOptionArray : z list **)

let c_IndexedOptionArray =
  (Zpos (XI (XO (XO (XI (XO (XO XH))))))) :: ((Zpos (XO (XI (XI (XI (XO (XI
    XH))))))) :: ((Zpos (XO (XO (XI (XO (XO (XI XH))))))) :: ((Zpos (XI (XO
    (XI (XO (XO (XI XH))))))) :: ((Zpos (XO (XO (XO (XI (XI (XI
    XH))))))) :: ((Zpos (XI (XO (XI (XO (XO (XI XH))))))) :: ((Zpos (XO (XO
    (XI (XO (XO (XI XH))))))) :: ((Zpos (XI (XI (XI (XI (XO (XO
    XH))))))) :: ((Zpos (XO (XO (XO (XO (XI (XI XH))))))) :: ((Zpos (XO (XO
    (XI (XO (XI (XI XH))))))) :: ((Zpos (XI (XO (XO (XI (XO (XI
    XH))))))) :: ((Zpos (XI (XI (XI (XI (XO (XI XH))))))) :: ((Zpos (XO (XI
    (XI (XI (XO (XI XH))))))) :: ((Zpos (XI (XO (XO (XO (XO (XO
    XH))))))) :: ((Zpos (XO (XI (XO (XO (XI (XI XH))))))) :: ((Zpos (XO (XI
    (XO (XO (XI (XI XH))))))) :: ((Zpos (XI (XO (XO (XO (XO (XI
    XH))))))) :: ((Zpos (XI (XO (XO (XI (XI (XI
    XH))))))) :: [])))))))))))))))))

(** val c_IndexedOptionArray64 : z list **)

let c_IndexedOptionArray64 =
  (Zpos (XI (XO (XO (XI (XO (XO XH))))))) :: ((Zpos (XO (XI (XI (XI (XO (XI
    XH))))))) :: ((Zpos (XO (XO (XI (XO (XO (XI XH))))))) :: ((Zpos (XI (XO
    (XI (XO (XO (XI XH))))))) :: ((Zpos (XO (XO (XO (XI (XI (XI
    XH))))))) :: ((Zpos (XI (XO (XI (XO (XO (XI XH))))))) :: ((Zpos (XO (XO
    (XI (XO (XO (XI XH))))))) :: ((Zpos (XI (XI (XI (XI (XO (XO
    XH))))))) :: ((Zpos (XO (XO (XO (XO (XI (XI XH))))))) :: ((Zpos (XO (XO
    (XI (XO (XI (XI XH))))))) :: ((Zpos (XI (XO (XO (XI (XO (XI
    XH))))))) :: ((Zpos (XI (XI (XI (XI (XO (XI XH))))))) :: ((Zpos (XO (XI
    (XI (XI (XO (XI XH))))))) :: ((Zpos (XI (XO (XO (XO (XO (XO
    XH))))))) :: ((Zpos (XO (XI (XO (XO (XI (XI XH))))))) :: ((Zpos (XO (XI
    (XO (XO (XI (XI XH))))))) :: ((Zpos (XI (XO (XO (XO (XO (XI
    XH))))))) :: ((Zpos (XI (XO (XO (XI (XI (XI XH))))))) :: ((Zpos (XO (XI
    (XI (XO (XI XH)))))) :: ((Zpos (XO (XO (XI (XO (XI
    XH)))))) :: [])))))))))))))))))))

(** val c_IndexedOptionArray32 : z list **)

let c_IndexedOptionArray32 =
  (Zpos (XI (XO (XO (XI (XO (XO XH))))))) :: ((Zpos (XO (XI (XI (XI (XO (XI
    XH))))))) :: ((Zpos (XO (XO (XI (XO (XO (XI XH))))))) :: ((Zpos (XI (XO
    (XI (XO (XO (XI XH))))))) :: ((Zpos (XO (XO (XO (XI (XI (XI
    XH))))))) :: ((Zpos (XI (XO (XI (XO (XO (XI XH))))))) :: ((Zpos (XO (XO
    (XI (XO (XO (XI XH))))))) :: ((Zpos (XI (XI (XI (XI (XO (XO
    XH))))))) :: ((Zpos (XO (XO (XO (XO (XI (XI XH))))))) :: ((Zpos (XO (XO
    (XI (XO (XI (XI XH))))))) :: ((Zpos (XI (XO (XO (XI (XO (XI
    XH))))))) :: ((Zpos (XI (XI (XI (XI (XO (XI XH))))))) :: ((Zpos (XO (XI
    (XI (XI (XO (XI XH))))))) :: ((Zpos (XI (XO (XO (XO (XO (XO
    XH))))))) :: ((Zpos (XO (XI (XO (XO (XI (XI XH))))))) :: ((Zpos (XO (XI
    (XO (XO (XI (XI XH))))))) :: ((Zpos (XI (XO (XO (XO (XO (XI
    XH))))))) :: ((Zpos (XI (XO (XO (XI (XI (XI XH))))))) :: ((Zpos (XI (XI
    (XO (XO (XI XH)))))) :: ((Zpos (XO (XI (XO (XO (XI
    XH)))))) :: [])))))))))))))))))))

(** val c_IndexedArray : z list **)

let c_IndexedArray =
  (Zpos (XI (XO (XO (XI (XO (XO XH))))))) :: ((Zpos (XO (XI (XI (XI (XO (XI
    XH))))))) :: ((Zpos (XO (XO (XI (XO (XO (XI XH))))))) :: ((Zpos (XI (XO
    (XI (XO (XO (XI XH))))))) :: ((Zpos (XO (XO (XO (XI (XI (XI
    XH))))))) :: ((Zpos (XI (XO (XI (XO (XO (XI XH))))))) :: ((Zpos (XO (XO
    (XI (XO (XO (XI XH))))))) :: ((Zpos (XI (XO (XO (XO (XO (XO
    XH))))))) :: ((Zpos (XO (XI (XO (XO (XI (XI XH))))))) :: ((Zpos (XO (XI
    (XO (XO (XI (XI XH))))))) :: ((Zpos (XI (XO (XO (XO (XO (XI
    XH))))))) :: ((Zpos (XI (XO (XO (XI (XI (XI XH))))))) :: [])))))))))))

(** val c_IndexedArray64 : z list **)

let c_IndexedArray64 =
  (Zpos (XI (XO (XO (XI (XO (XO XH))))))) :: ((Zpos (XO (XI (XI (XI (XO (XI
    XH))))))) :: ((Zpos (XO (XO (XI (XO (XO (XI XH))))))) :: ((Zpos (XI (XO
    (XI (XO (XO (XI XH))))))) :: ((Zpos (XO (XO (XO (XI (XI (XI
    XH))))))) :: ((Zpos (XI (XO (XI (XO (XO (XI XH))))))) :: ((Zpos (XO (XO
    (XI (XO (XO (XI XH))))))) :: ((Zpos (XI (XO (XO (XO (XO (XO
    XH))))))) :: ((Zpos (XO (XI (XO (XO (XI (XI XH))))))) :: ((Zpos (XO (XI
    (XO (XO (XI (XI XH))))))) :: ((Zpos (XI (XO (XO (XO (XO (XI
    XH))))))) :: ((Zpos (XI (XO (XO (XI (XI (XI XH))))))) :: ((Zpos (XO (XI
    (XI (XO (XI XH)))))) :: ((Zpos (XO (XO (XI (XO (XI
    XH)))))) :: [])))))))))))))

(** val c_IndexedArrayU32 : z list **)

let c_IndexedArrayU32 =
  (Zpos (XI (XO (XO (XI (XO (XO XH))))))) :: ((Zpos (XO (XI (XI (XI (XO (XI
    XH))))))) :: ((Zpos (XO (XO (XI (XO (XO (XI XH))))))) :: ((Zpos (XI (XO
    (XI (XO (XO (XI XH))))))) :: ((Zpos (XO (XO (XO (XI (XI (XI
    XH))))))) :: ((Zpos (XI (XO (XI (XO (XO (XI XH))))))) :: ((Zpos (XO (XO
    (XI (XO (XO (XI XH))))))) :: ((Zpos (XI (XO (XO (XO (XO (XO
    XH))))))) :: ((Zpos (XO (XI (XO (XO (XI (XI XH))))))) :: ((Zpos (XO (XI
    (XO (XO (XI (XI XH))))))) :: ((Zpos (XI (XO (XO (XO (XO (XI
    XH))))))) :: ((Zpos (XI (XO (XO (XI (XI (XI XH))))))) :: ((Zpos (XI (XO
    (XI (XO (XI (XO XH))))))) :: ((Zpos (XI (XI (XO (XO (XI
    XH)))))) :: ((Zpos (XO (XI (XO (XO (XI XH)))))) :: []))))))))))))))

(** val c_IndexedArray32 : z list **)

let c_IndexedArray32 =
  (Zpos (XI (XO (XO (XI (XO (XO XH))))))) :: ((Zpos (XO (XI (XI (XI (XO (XI
    XH))))))) :: ((Zpos (XO (XO (XI (XO (XO (XI XH))))))) :: ((Zpos (XI (XO
    (XI (XO (XO (XI XH))))))) :: ((Zpos (XO (XO (XO (XI (XI (XI
    XH))))))) :: ((Zpos (XI (XO (XI (XO (XO (XI XH))))))) :: ((Zpos (XO (XO
    (XI (XO (XO (XI XH))))))) :: ((Zpos (XI (XO (XO (XO (XO (XO
    XH))))))) :: ((Zpos (XO (XI (XO (XO (XI (XI XH))))))) :: ((Zpos (XO (XI
    (XO (XO (XI (XI XH))))))) :: ((Zpos (XI (XO (XO (XO (XO (XI
    XH))))))) :: ((Zpos (XI (XO (XO (XI (XI (XI XH))))))) :: ((Zpos (XI (XI
    (XO (XO (XI XH)))))) :: ((Zpos (XO (XI (XO (XO (XI
    XH)))))) :: [])))))))))))))

(** val c_ByteMaskedArray : z list **)

let c_ByteMaskedArray =
  (Zpos (XO (XI (XO (XO (XO (XO XH))))))) :: ((Zpos (XI (XO (XO (XI (XI (XI
    XH))))))) :: ((Zpos (XO (XO (XI (XO (XI (XI XH))))))) :: ((Zpos (XI (XO
    (XI (XO (XO (XI XH))))))) :: ((Zpos (XI (XO (XI (XI (XO (XO
    XH))))))) :: ((Zpos (XI (XO (XO (XO (XO (XI XH))))))) :: ((Zpos (XI (XI
    (XO (XO (XI (XI XH))))))) :: ((Zpos (XI (XI (XO (XI (XO (XI
    XH))))))) :: ((Zpos (XI (XO (XI (XO (XO (XI XH))))))) :: ((Zpos (XO (XO
    (XI (XO (XO (XI XH))))))) :: ((Zpos (XI (XO (XO (XO (XO (XO
    XH))))))) :: ((Zpos (XO (XI (XO (XO (XI (XI XH))))))) :: ((Zpos (XO (XI
    (XO (XO (XI (XI XH))))))) :: ((Zpos (XI (XO (XO (XO (XO (XI
    XH))))))) :: ((Zpos (XI (XO (XO (XI (XI (XI XH))))))) :: []))))))))))))))

(** val c_BitMaskedArray : z list **)

let c_BitMaskedArray =
  (Zpos (XO (XI (XO (XO (XO (XO XH))))))) :: ((Zpos (XI (XO (XO (XI (XO (XI
    XH))))))) :: ((Zpos (XO (XO (XI (XO (XI (XI XH))))))) :: ((Zpos (XI (XO
    (XI (XI (XO (XO XH))))))) :: ((Zpos (XI (XO (XO (XO (XO (XI
    XH))))))) :: ((Zpos (XI (XI (XO (XO (XI (XI XH))))))) :: ((Zpos (XI (XI
    (XO (XI (XO (XI XH))))))) :: ((Zpos (XI (XO (XI (XO (XO (XI
    XH))))))) :: ((Zpos (XO (XO (XI (XO (XO (XI XH))))))) :: ((Zpos (XI (XO
    (XO (XO (XO (XO XH))))))) :: ((Zpos (XO (XI (XO (XO (XI (XI
    XH))))))) :: ((Zpos (XO (XI (XO (XO (XI (XI XH))))))) :: ((Zpos (XI (XO
    (XO (XO (XO (XI XH))))))) :: ((Zpos (XI (XO (XO (XI (XI (XI
    XH))))))) :: [])))))))))))))

(** val c_UnmaskedArray : z list **)

let c_UnmaskedArray =
  (Zpos (XI (XO (XI (XO (XI (XO XH))))))) :: ((Zpos (XO (XI (XI (XI (XO (XI
    XH))))))) :: ((Zpos (XI (XO (XI (XI (XO (XI XH))))))) :: ((Zpos (XI (XO
    (XO (XO (XO (XI XH))))))) :: ((Zpos (XI (XI (XO (XO (XI (XI
    XH))))))) :: ((Zpos (XI (XI (XO (XI (XO (XI XH))))))) :: ((Zpos (XI (XO
    (XI (XO (XO (XI XH))))))) :: ((Zpos (XO (XO (XI (XO (XO (XI
    XH))))))) :: ((Zpos (XI (XO (XO (XO (XO (XO XH))))))) :: ((Zpos (XO (XI
    (XO (XO (XI (XI XH))))))) :: ((Zpos (XO (XI (XO (XO (XI (XI
    XH))))))) :: ((Zpos (XI (XO (XO (XO (XO (XI XH))))))) :: ((Zpos (XI (XO
    (XO (XI (XI (XI XH))))))) :: []))))))))))))

(** val c_UnionArray : z list **)

let c_UnionArray =
  (Zpos (XI (XO (XI (XO (XI (XO XH))))))) :: ((Zpos (XO (XI (XI (XI (XO (XI
    XH))))))) :: ((Zpos (XI (XO (XO (XI (XO (XI XH))))))) :: ((Zpos (XI (XI
    (XI (XI (XO (XI XH))))))) :: ((Zpos (XO (XI (XI (XI (XO (XI
    XH))))))) :: ((Zpos (XI (XO (XO (XO (XO (XO XH))))))) :: ((Zpos (XO (XI
    (XO (XO (XI (XI XH))))))) :: ((Zpos (XO (XI (XO (XO (XI (XI
    XH))))))) :: ((Zpos (XI (XO (XO (XO (XO (XI XH))))))) :: ((Zpos (XI (XO
    (XO (XI (XI (XI XH))))))) :: [])))))))))

(** val c_UnionArray8_64 : z list **)

let c_UnionArray8_64 =
  (Zpos (XI (XO (XI (XO (XI (XO XH))))))) :: ((Zpos (XO (XI (XI (XI (XO (XI
    XH))))))) :: ((Zpos (XI (XO (XO (XI (XO (XI XH))))))) :: ((Zpos (XI (XI
    (XI (XI (XO (XI XH))))))) :: ((Zpos (XO (XI (XI (XI (XO (XI
    XH))))))) :: ((Zpos (XI (XO (XO (XO (XO (XO XH))))))) :: ((Zpos (XO (XI
    (XO (XO (XI (XI XH))))))) :: ((Zpos (XO (XI (XO (XO (XI (XI
    XH))))))) :: ((Zpos (XI (XO (XO (XO (XO (XI XH))))))) :: ((Zpos (XI (XO
    (XO (XI (XI (XI XH))))))) :: ((Zpos (XO (XO (XO (XI (XI
    XH)))))) :: ((Zpos (XI (XI (XI (XI (XI (XO XH))))))) :: ((Zpos (XO (XI
    (XI (XO (XI XH)))))) :: ((Zpos (XO (XO (XI (XO (XI
    XH)))))) :: [])))))))))))))

(** val c_UnionArray8_U32 : z list **)

let c_UnionArray8_U32 =
  (Zpos (XI (XO (XI (XO (XI (XO XH))))))) :: ((Zpos (XO (XI (XI (XI (XO (XI
    XH))))))) :: ((Zpos (XI (XO (XO (XI (XO (XI XH))))))) :: ((Zpos (XI (XI
    (XI (XI (XO (XI XH))))))) :: ((Zpos (XO (XI (XI (XI (XO (XI
    XH))))))) :: ((Zpos (XI (XO (XO (XO (XO (XO XH))))))) :: ((Zpos (XO (XI
    (XO (XO (XI (XI XH))))))) :: ((Zpos (XO (XI (XO (XO (XI (XI
    XH))))))) :: ((Zpos (XI (XO (XO (XO (XO (XI XH))))))) :: ((Zpos (XI (XO
    (XO (XI (XI (XI XH))))))) :: ((Zpos (XO (XO (XO (XI (XI
    XH)))))) :: ((Zpos (XI (XI (XI (XI (XI (XO XH))))))) :: ((Zpos (XI (XO
    (XI (XO (XI (XO XH))))))) :: ((Zpos (XI (XI (XO (XO (XI
    XH)))))) :: ((Zpos (XO (XI (XO (XO (XI XH)))))) :: []))))))))))))))

(** val c_UnionArray8_32 : z list **)

let c_UnionArray8_32 =
  (Zpos (XI (XO (XI (XO (XI (XO XH))))))) :: ((Zpos (XO (XI (XI (XI (XO (XI
    XH))))))) :: ((Zpos (XI (XO (XO (XI (XO (XI XH))))))) :: ((Zpos (XI (XI
    (XI (XI (XO (XI XH))))))) :: ((Zpos (XO (XI (XI (XI (XO (XI
    XH))))))) :: ((Zpos (XI (XO (XO (XO (XO (XO XH))))))) :: ((Zpos (XO (XI
    (XO (XO (XI (XI XH))))))) :: ((Zpos (XO (XI (XO (XO (XI (XI
    XH))))))) :: ((Zpos (XI (XO (XO (XO (XO (XI XH))))))) :: ((Zpos (XI (XO
    (XO (XI (XI (XI XH))))))) :: ((Zpos (XO (XO (XO (XI (XI
    XH)))))) :: ((Zpos (XI (XI (XI (XI (XI (XO XH))))))) :: ((Zpos (XI (XI
    (XO (XO (XI XH)))))) :: ((Zpos (XO (XI (XO (XO (XI
    XH)))))) :: [])))))))))))))

(** val c_EmptyArray : z list **)

let c_EmptyArray =
  (Zpos (XI (XO (XI (XO (XO (XO XH))))))) :: ((Zpos (XI (XO (XI (XI (XO (XI
    XH))))))) :: ((Zpos (XO (XO (XO (XO (XI (XI XH))))))) :: ((Zpos (XO (XO
    (XI (XO (XI (XI XH))))))) :: ((Zpos (XI (XO (XO (XI (XI (XI
    XH))))))) :: ((Zpos (XI (XO (XO (XO (XO (XO XH))))))) :: ((Zpos (XO (XI
    (XO (XO (XI (XI XH))))))) :: ((Zpos (XO (XI (XO (XO (XI (XI
    XH))))))) :: ((Zpos (XI (XO (XO (XO (XO (XI XH))))))) :: ((Zpos (XI (XO
    (XO (XI (XI (XI XH))))))) :: [])))))))))

(** val c_VirtualArray : z list **)

let c_VirtualArray =
  (Zpos (XO (XI (XI (XO (XI (XO XH))))))) :: ((Zpos (XI (XO (XO (XI (XO (XI
    XH))))))) :: ((Zpos (XO (XI (XO (XO (XI (XI XH))))))) :: ((Zpos (XO (XO
    (XI (XO (XI (XI XH))))))) :: ((Zpos (XI (XO (XI (XO (XI (XI
    XH))))))) :: ((Zpos (XI (XO (XO (XO (XO (XI XH))))))) :: ((Zpos (XO (XO
    (XI (XI (XO (XI XH))))))) :: ((Zpos (XI (XO (XO (XO (XO (XO
    XH))))))) :: ((Zpos (XO (XI (XO (XO (XI (XI XH))))))) :: ((Zpos (XO (XI
    (XO (XO (XI (XI XH))))))) :: ((Zpos (XI (XO (XO (XO (XO (XI
    XH))))))) :: ((Zpos (XI (XO (XO (XI (XI (XI XH))))))) :: [])))))))))))

(** val c_UnrecognizedListOffsetArray : z list **)

let c_UnrecognizedListOffsetArray =
  (Zpos (XI (XO (XI (XO (XI (XO XH))))))) :: ((Zpos (XO (XI (XI (XI (XO (XI
    XH))))))) :: ((Zpos (XO (XI (XO (XO (XI (XI XH))))))) :: ((Zpos (XI (XO
    (XI (XO (XO (XI XH))))))) :: ((Zpos (XI (XI (XO (XO (XO (XI
    XH))))))) :: ((Zpos (XI (XI (XI (XI (XO (XI XH))))))) :: ((Zpos (XI (XI
    (XI (XO (XO (XI XH))))))) :: ((Zpos (XO (XI (XI (XI (XO (XI
    XH))))))) :: ((Zpos (XI (XO (XO (XI (XO (XI XH))))))) :: ((Zpos (XO (XI
    (XO (XI (XI (XI XH))))))) :: ((Zpos (XI (XO (XI (XO (XO (XI
    XH))))))) :: ((Zpos (XO (XO (XI (XO (XO (XI XH))))))) :: ((Zpos (XO (XO
    (XI (XI (XO (XO XH))))))) :: ((Zpos (XI (XO (XO (XI (XO (XI
    XH))))))) :: ((Zpos (XI (XI (XO (XO (XI (XI XH))))))) :: ((Zpos (XO (XO
    (XI (XO (XI (XI XH))))))) :: ((Zpos (XI (XI (XI (XI (XO (XO
    XH))))))) :: ((Zpos (XO (XI (XI (XO (XO (XI XH))))))) :: ((Zpos (XO (XI
    (XI (XO (XO (XI XH))))))) :: ((Zpos (XI (XI (XO (XO (XI (XI
    XH))))))) :: ((Zpos (XI (XO (XI (XO (XO (XI XH))))))) :: ((Zpos (XO (XO
    (XI (XO (XI (XI XH))))))) :: ((Zpos (XI (XO (XO (XO (XO (XO
    XH))))))) :: ((Zpos (XO (XI (XO (XO (XI (XI XH))))))) :: ((Zpos (XO (XI
    (XO (XO (XI (XI XH))))))) :: ((Zpos (XI (XO (XO (XO (XO (XI
    XH))))))) :: ((Zpos (XI (XO (XO (XI (XI (XI
    XH))))))) :: []))))))))))))))))))))))))))

(** val c_UnrecognizedListArray : z list **)

let c_UnrecognizedListArray =
  (Zpos (XI (XO (XI (XO (XI (XO XH))))))) :: ((Zpos (XO (XI (XI (XI (XO (XI
    XH))))))) :: ((Zpos (XO (XI (XO (XO (XI (XI XH))))))) :: ((Zpos (XI (XO
    (XI (XO (XO (XI XH))))))) :: ((Zpos (XI (XI (XO (XO (XO (XI
    XH))))))) :: ((Zpos (XI (XI (XI (XI (XO (XI XH))))))) :: ((Zpos (XI (XI
    (XI (XO (XO (XI XH))))))) :: ((Zpos (XO (XI (XI (XI (XO (XI
    XH))))))) :: ((Zpos (XI (XO (XO (XI (XO (XI XH))))))) :: ((Zpos (XO (XI
    (XO (XI (XI (XI XH))))))) :: ((Zpos (XI (XO (XI (XO (XO (XI
    XH))))))) :: ((Zpos (XO (XO (XI (XO (XO (XI XH))))))) :: ((Zpos (XO (XO
    (XI (XI (XO (XO XH))))))) :: ((Zpos (XI (XO (XO (XI (XO (XI
    XH))))))) :: ((Zpos (XI (XI (XO (XO (XI (XI XH))))))) :: ((Zpos (XO (XO
    (XI (XO (XI (XI XH))))))) :: ((Zpos (XI (XO (XO (XO (XO (XO
    XH))))))) :: ((Zpos (XO (XI (XO (XO (XI (XI XH))))))) :: ((Zpos (XO (XI
    (XO (XO (XI (XI XH))))))) :: ((Zpos (XI (XO (XO (XO (XO (XI
    XH))))))) :: ((Zpos (XI (XO (XO (XI (XI (XI
    XH))))))) :: []))))))))))))))))))))

(** val c_UnrecognizedIndexedArray : z list **)

let c_UnrecognizedIndexedArray =
  (Zpos (XI (XO (XI (XO (XI (XO XH))))))) :: ((Zpos (XO (XI (XI (XI (XO (XI
    XH))))))) :: ((Zpos (XO (XI (XO (XO (XI (XI XH))))))) :: ((Zpos (XI (XO
    (XI (XO (XO (XI XH))))))) :: ((Zpos (XI (XI (XO (XO (XO (XI
    XH))))))) :: ((Zpos (XI (XI (XI (XI (XO (XI XH))))))) :: ((Zpos (XI (XI
    (XI (XO (XO (XI XH))))))) :: ((Zpos (XO (XI (XI (XI (XO (XI
    XH))))))) :: ((Zpos (XI (XO (XO (XI (XO (XI XH))))))) :: ((Zpos (XO (XI
    (XO (XI (XI (XI XH))))))) :: ((Zpos (XI (XO (XI (XO (XO (XI
    XH))))))) :: ((Zpos (XO (XO (XI (XO (XO (XI XH))))))) :: ((Zpos (XI (XO
    (XO (XI (XO (XO XH))))))) :: ((Zpos (XO (XI (XI (XI (XO (XI
    XH))))))) :: ((Zpos (XO (XO (XI (XO (XO (XI XH))))))) :: ((Zpos (XI (XO
    (XI (XO (XO (XI XH))))))) :: ((Zpos (XO (XO (XO (XI (XI (XI
    XH))))))) :: ((Zpos (XI (XO (XI (XO (XO (XI XH))))))) :: ((Zpos (XO (XO
    (XI (XO (XO (XI XH))))))) :: ((Zpos (XI (XO (XO (XO (XO (XO
    XH))))))) :: ((Zpos (XO (XI (XO (XO (XI (XI XH))))))) :: ((Zpos (XO (XI
    (XO (XO (XI (XI XH))))))) :: ((Zpos (XI (XO (XO (XO (XO (XI
    XH))))))) :: ((Zpos (XI (XO (XO (XI (XI (XI
    XH))))))) :: [])))))))))))))))))))))))

(** val c_UnrecognizedIndexedOptionArray : z list **)

let c_UnrecognizedIndexedOptionArray =
  (Zpos (XI (XO (XI (XO (XI (XO XH))))))) :: ((Zpos (XO (XI (XI (XI (XO (XI
    XH))))))) :: ((Zpos (XO (XI (XO (XO (XI (XI XH))))))) :: ((Zpos (XI (XO
    (XI (XO (XO (XI XH))))))) :: ((Zpos (XI (XI (XO (XO (XO (XI
    XH))))))) :: ((Zpos (XI (XI (XI (XI (XO (XI XH))))))) :: ((Zpos (XI (XI
    (XI (XO (XO (XI XH))))))) :: ((Zpos (XO (XI (XI (XI (XO (XI
    XH))))))) :: ((Zpos (XI (XO (XO (XI (XO (XI XH))))))) :: ((Zpos (XO (XI
    (XO (XI (XI (XI XH))))))) :: ((Zpos (XI (XO (XI (XO (XO (XI
    XH))))))) :: ((Zpos (XO (XO (XI (XO (XO (XI XH))))))) :: ((Zpos (XI (XO
    (XO (XI (XO (XO XH))))))) :: ((Zpos (XO (XI (XI (XI (XO (XI
    XH))))))) :: ((Zpos (XO (XO (XI (XO (XO (XI XH))))))) :: ((Zpos (XI (XO
    (XI (XO (XO (XI XH))))))) :: ((Zpos (XO (XO (XO (XI (XI (XI
    XH))))))) :: ((Zpos (XI (XO (XI (XO (XO (XI XH))))))) :: ((Zpos (XO (XO
    (XI (XO (XO (XI XH))))))) :: ((Zpos (XI (XI (XI (XI (XO (XO
    XH))))))) :: ((Zpos (XO (XO (XO (XO (XI (XI XH))))))) :: ((Zpos (XO (XO
    (XI (XO (XI (XI XH))))))) :: ((Zpos (XI (XO (XO (XI (XO (XI
    XH))))))) :: ((Zpos (XI (XI (XI (XI (XO (XI XH))))))) :: ((Zpos (XO (XI
    (XI (XI (XO (XI XH))))))) :: ((Zpos (XI (XO (XO (XO (XO (XO
    XH))))))) :: ((Zpos (XO (XI (XO (XO (XI (XI XH))))))) :: ((Zpos (XO (XI
    (XO (XO (XI (XI XH))))))) :: ((Zpos (XI (XO (XO (XO (XO (XI
    XH))))))) :: ((Zpos (XI (XO (XO (XI (XI (XI
    XH))))))) :: [])))))))))))))))))))))))))))))

(** val c_UnrecognizedUnionArray : z list **)

let c_UnrecognizedUnionArray =
  (Zpos (XI (XO (XI (XO (XI (XO XH))))))) :: ((Zpos (XO (XI (XI (XI (XO (XI
    XH))))))) :: ((Zpos (XO (XI (XO (XO (XI (XI XH))))))) :: ((Zpos (XI (XO
    (XI (XO (XO (XI XH))))))) :: ((Zpos (XI (XI (XO (XO (XO (XI
    XH))))))) :: ((Zpos (XI (XI (XI (XI (XO (XI XH))))))) :: ((Zpos (XI (XI
    (XI (XO (XO (XI XH))))))) :: ((Zpos (XO (XI (XI (XI (XO (XI
    XH))))))) :: ((Zpos (XI (XO (XO (XI (XO (XI XH))))))) :: ((Zpos (XO (XI
    (XO (XI (XI (XI XH))))))) :: ((Zpos (XI (XO (XI (XO (XO (XI
    XH))))))) :: ((Zpos (XO (XO (XI (XO (XO (XI XH))))))) :: ((Zpos (XI (XO
    (XI (XO (XI (XO XH))))))) :: ((Zpos (XO (XI (XI (XI (XO (XI
    XH))))))) :: ((Zpos (XI (XO (XO (XI (XO (XI XH))))))) :: ((Zpos (XI (XI
    (XI (XI (XO (XI XH))))))) :: ((Zpos (XO (XI (XI (XI (XO (XI
    XH))))))) :: ((Zpos (XI (XO (XO (XO (XO (XO XH))))))) :: ((Zpos (XO (XI
    (XO (XO (XI (XI XH))))))) :: ((Zpos (XO (XI (XO (XO (XI (XI
    XH))))))) :: ((Zpos (XI (XO (XO (XO (XO (XI XH))))))) :: ((Zpos (XI (XO
    (XO (XI (XI (XI XH))))))) :: [])))))))))))))))))))))

(** val s_string : z list **)

let s_string =
  (Zpos (XI (XI (XO (XO (XI (XI XH))))))) :: ((Zpos (XO (XO (XI (XO (XI (XI
    XH))))))) :: ((Zpos (XO (XI (XO (XO (XI (XI XH))))))) :: ((Zpos (XI (XO
    (XO (XI (XO (XI XH))))))) :: ((Zpos (XO (XI (XI (XI (XO (XI
    XH))))))) :: ((Zpos (XI (XI (XI (XO (XO (XI XH))))))) :: [])))))

(** val s_bytestring : z list **)

let s_bytestring =
  (Zpos (XO (XI (XO (XO (XO (XI XH))))))) :: ((Zpos (XI (XO (XO (XI (XI (XI
    XH))))))) :: ((Zpos (XO (XO (XI (XO (XI (XI XH))))))) :: ((Zpos (XI (XO
    (XI (XO (XO (XI XH))))))) :: ((Zpos (XI (XI (XO (XO (XI (XI
    XH))))))) :: ((Zpos (XO (XO (XI (XO (XI (XI XH))))))) :: ((Zpos (XO (XI
    (XO (XO (XI (XI XH))))))) :: ((Zpos (XI (XO (XO (XI (XO (XI
    XH))))))) :: ((Zpos (XO (XI (XI (XI (XO (XI XH))))))) :: ((Zpos (XI (XI
    (XI (XO (XO (XI XH))))))) :: [])))))))))

(** val s_char : z list **)

let s_char =
  (Zpos (XI (XI (XO (XO (XO (XI XH))))))) :: ((Zpos (XO (XO (XO (XI (XO (XI
    XH))))))) :: ((Zpos (XI (XO (XO (XO (XO (XI XH))))))) :: ((Zpos (XO (XI
    (XO (XO (XI (XI XH))))))) :: [])))

(** val s_byte : z list **)

let s_byte =
  (Zpos (XO (XI (XO (XO (XO (XI XH))))))) :: ((Zpos (XI (XO (XO (XI (XI (XI
    XH))))))) :: ((Zpos (XO (XO (XI (XO (XI (XI XH))))))) :: ((Zpos (XI (XO
    (XI (XO (XO (XI XH))))))) :: [])))

(** val s_categorical : z list **)

let s_categorical =
  (Zpos (XI (XI (XO (XO (XO (XI XH))))))) :: ((Zpos (XI (XO (XO (XO (XO (XI
    XH))))))) :: ((Zpos (XO (XO (XI (XO (XI (XI XH))))))) :: ((Zpos (XI (XO
    (XI (XO (XO (XI XH))))))) :: ((Zpos (XI (XI (XI (XO (XO (XI
    XH))))))) :: ((Zpos (XI (XI (XI (XI (XO (XI XH))))))) :: ((Zpos (XO (XI
    (XO (XO (XI (XI XH))))))) :: ((Zpos (XI (XO (XO (XI (XO (XI
    XH))))))) :: ((Zpos (XI (XI (XO (XO (XO (XI XH))))))) :: ((Zpos (XI (XO
    (XO (XO (XO (XI XH))))))) :: ((Zpos (XO (XO (XI (XI (XO (XI
    XH))))))) :: []))))))))))

type iform =
| Fi8
| Fu8
| Fi32
| Fu32
| Fi64

(** val iform_eqb : iform -> iform -> bool **)

let iform_eqb a b =
  match a with
  | Fi8 -> (match b with
            | Fi8 -> true
            | _ -> false)
  | Fu8 -> (match b with
            | Fu8 -> true
            | _ -> false)
  | Fi32 -> (match b with
             | Fi32 -> true
             | _ -> false)
  | Fu32 -> (match b with
             | Fu32 -> true
             | _ -> false)
  | Fi64 -> (match b with
             | Fi64 -> true
             | _ -> false)

(** val form2str : iform -> bytes **)

let form2str = function
| Fi8 ->
  (Zpos (XI (XO (XO (XI (XO (XI XH))))))) :: ((Zpos (XO (XO (XO (XI (XI
    XH)))))) :: [])
| Fu8 ->
  (Zpos (XI (XO (XI (XO (XI (XI XH))))))) :: ((Zpos (XO (XO (XO (XI (XI
    XH)))))) :: [])
| Fi32 ->
  (Zpos (XI (XO (XO (XI (XO (XI XH))))))) :: ((Zpos (XI (XI (XO (XO (XI
    XH)))))) :: ((Zpos (XO (XI (XO (XO (XI XH)))))) :: []))
| Fu32 ->
  (Zpos (XI (XO (XI (XO (XI (XI XH))))))) :: ((Zpos (XI (XI (XO (XO (XI
    XH)))))) :: ((Zpos (XO (XI (XO (XO (XI XH)))))) :: []))
| Fi64 ->
  (Zpos (XI (XO (XO (XI (XO (XI XH))))))) :: ((Zpos (XO (XI (XI (XO (XI
    XH)))))) :: ((Zpos (XO (XO (XI (XO (XI XH)))))) :: []))

(** val str2form : bytes -> iform res **)

let str2form s =
  if is_prefix s (form2str Fi8)
  then Ok Fi8
  else if is_prefix s (form2str Fu8)
       then Ok Fu8
       else if is_prefix s (form2str Fi32)
            then Ok Fi32
            else if is_prefix s (form2str Fu32)
                 then Ok Fu32
                 else if is_prefix s (form2str Fi64)
                      then Ok Fi64
                      else Err EValue

(** val iform_of_width : width -> iform **)

let iform_of_width = function
| I32 -> Fi32
| U32 -> Fu32
| I64 -> Fi64

type fdtype =
| FD of dtype
| FFloat16
| FFloat128
| FComplex64
| FComplex128
| FComplex256
| FDatetime64
| FTimedelta64
| FNotPrimitive

(** val dtype_eqb : dtype -> dtype -> bool **)

let dtype_eqb a b =
  match a with
  | DBool -> (match b with
              | DBool -> true
              | _ -> false)
  | DInt8 -> (match b with
              | DInt8 -> true
              | _ -> false)
  | DInt16 -> (match b with
               | DInt16 -> true
               | _ -> false)
  | DInt32 -> (match b with
               | DInt32 -> true
               | _ -> false)
  | DInt64 -> (match b with
               | DInt64 -> true
               | _ -> false)
  | DUInt8 -> (match b with
               | DUInt8 -> true
               | _ -> false)
  | DUInt16 -> (match b with
                | DUInt16 -> true
                | _ -> false)
  | DUInt32 -> (match b with
                | DUInt32 -> true
                | _ -> false)
  | DUInt64 -> (match b with
                | DUInt64 -> true
                | _ -> false)
  | DFloat32 -> (match b with
                 | DFloat32 -> true
                 | _ -> false)
  | DFloat64 -> (match b with
                 | DFloat64 -> true
                 | _ -> false)

(** val fdtype_eqb : fdtype -> fdtype -> bool **)

let fdtype_eqb a b =
  match a with
  | FD x -> (match b with
             | FD y -> dtype_eqb x y
             | _ -> false)
  | FFloat16 -> (match b with
                 | FFloat16 -> true
                 | _ -> false)
  | FFloat128 -> (match b with
                  | FFloat128 -> true
                  | _ -> false)
  | FComplex64 -> (match b with
                   | FComplex64 -> true
                   | _ -> false)
  | FComplex128 -> (match b with
                    | FComplex128 -> true
                    | _ -> false)
  | FComplex256 -> (match b with
                    | FComplex256 -> true
                    | _ -> false)
  | FDatetime64 -> (match b with
                    | FDatetime64 -> true
                    | _ -> false)
  | FTimedelta64 -> (match b with
                     | FTimedelta64 -> true
                     | _ -> false)
  | FNotPrimitive -> (match b with
                      | FNotPrimitive -> true
                      | _ -> false)

(** val n_bool : z list **)

let n_bool =
  (Zpos (XO (XI (XO (XO (XO (XI XH))))))) :: ((Zpos (XI (XI (XI (XI (XO (XI
    XH))))))) :: ((Zpos (XI (XI (XI (XI (XO (XI XH))))))) :: ((Zpos (XO (XO
    (XI (XI (XO (XI XH))))))) :: [])))

(** val n_int8 : z list **)

let n_int8 =
  (Zpos (XI (XO (XO (XI (XO (XI XH))))))) :: ((Zpos (XO (XI (XI (XI (XO (XI
    XH))))))) :: ((Zpos (XO (XO (XI (XO (XI (XI XH))))))) :: ((Zpos (XO (XO
    (XO (XI (XI XH)))))) :: [])))

(** val n_int16 : z list **)

let n_int16 =
  (Zpos (XI (XO (XO (XI (XO (XI XH))))))) :: ((Zpos (XO (XI (XI (XI (XO (XI
    XH))))))) :: ((Zpos (XO (XO (XI (XO (XI (XI XH))))))) :: ((Zpos (XI (XO
    (XO (XO (XI XH)))))) :: ((Zpos (XO (XI (XI (XO (XI XH)))))) :: []))))

(** val n_int32 : z list **)

let n_int32 =
  (Zpos (XI (XO (XO (XI (XO (XI XH))))))) :: ((Zpos (XO (XI (XI (XI (XO (XI
    XH))))))) :: ((Zpos (XO (XO (XI (XO (XI (XI XH))))))) :: ((Zpos (XI (XI
    (XO (XO (XI XH)))))) :: ((Zpos (XO (XI (XO (XO (XI XH)))))) :: []))))

(** val n_int64 : z list **)

let n_int64 =
  (Zpos (XI (XO (XO (XI (XO (XI XH))))))) :: ((Zpos (XO (XI (XI (XI (XO (XI
    XH))))))) :: ((Zpos (XO (XO (XI (XO (XI (XI XH))))))) :: ((Zpos (XO (XI
    (XI (XO (XI XH)))))) :: ((Zpos (XO (XO (XI (XO (XI XH)))))) :: []))))

(** val n_uint8 : z list **)

let n_uint8 =
  (Zpos (XI (XO (XI (XO (XI (XI XH))))))) :: ((Zpos (XI (XO (XO (XI (XO (XI
    XH))))))) :: ((Zpos (XO (XI (XI (XI (XO (XI XH))))))) :: ((Zpos (XO (XO
    (XI (XO (XI (XI XH))))))) :: ((Zpos (XO (XO (XO (XI (XI XH)))))) :: []))))

(** val n_uint16 : z list **)

let n_uint16 =
  (Zpos (XI (XO (XI (XO (XI (XI XH))))))) :: ((Zpos (XI (XO (XO (XI (XO (XI
    XH))))))) :: ((Zpos (XO (XI (XI (XI (XO (XI XH))))))) :: ((Zpos (XO (XO
    (XI (XO (XI (XI XH))))))) :: ((Zpos (XI (XO (XO (XO (XI
    XH)))))) :: ((Zpos (XO (XI (XI (XO (XI XH)))))) :: [])))))

(** val n_uint32 : z list **)

let n_uint32 =
  (Zpos (XI (XO (XI (XO (XI (XI XH))))))) :: ((Zpos (XI (XO (XO (XI (XO (XI
    XH))))))) :: ((Zpos (XO (XI (XI (XI (XO (XI XH))))))) :: ((Zpos (XO (XO
    (XI (XO (XI (XI XH))))))) :: ((Zpos (XI (XI (XO (XO (XI
    XH)))))) :: ((Zpos (XO (XI (XO (XO (XI XH)))))) :: [])))))

(** val n_uint64 : z list **)

let n_uint64 =
  (Zpos (XI (XO (XI (XO (XI (XI XH))))))) :: ((Zpos (XI (XO (XO (XI (XO (XI
    XH))))))) :: ((Zpos (XO (XI (XI (XI (XO (XI XH))))))) :: ((Zpos (XO (XO
    (XI (XO (XI (XI XH))))))) :: ((Zpos (XO (XI (XI (XO (XI
    XH)))))) :: ((Zpos (XO (XO (XI (XO (XI XH)))))) :: [])))))

(** val n_float16 : z list **)

let n_float16 =
  (Zpos (XO (XI (XI (XO (XO (XI XH))))))) :: ((Zpos (XO (XO (XI (XI (XO (XI
    XH))))))) :: ((Zpos (XI (XI (XI (XI (XO (XI XH))))))) :: ((Zpos (XI (XO
    (XO (XO (XO (XI XH))))))) :: ((Zpos (XO (XO (XI (XO (XI (XI
    XH))))))) :: ((Zpos (XI (XO (XO (XO (XI XH)))))) :: ((Zpos (XO (XI (XI
    (XO (XI XH)))))) :: []))))))

(** val n_float32 : z list **)

let n_float32 =
  (Zpos (XO (XI (XI (XO (XO (XI XH))))))) :: ((Zpos (XO (XO (XI (XI (XO (XI
    XH))))))) :: ((Zpos (XI (XI (XI (XI (XO (XI XH))))))) :: ((Zpos (XI (XO
    (XO (XO (XO (XI XH))))))) :: ((Zpos (XO (XO (XI (XO (XI (XI
    XH))))))) :: ((Zpos (XI (XI (XO (XO (XI XH)))))) :: ((Zpos (XO (XI (XO
    (XO (XI XH)))))) :: []))))))

(** val n_float64 : z list **)

let n_float64 =
  (Zpos (XO (XI (XI (XO (XO (XI XH))))))) :: ((Zpos (XO (XO (XI (XI (XO (XI
    XH))))))) :: ((Zpos (XI (XI (XI (XI (XO (XI XH))))))) :: ((Zpos (XI (XO
    (XO (XO (XO (XI XH))))))) :: ((Zpos (XO (XO (XI (XO (XI (XI
    XH))))))) :: ((Zpos (XO (XI (XI (XO (XI XH)))))) :: ((Zpos (XO (XO (XI
    (XO (XI XH)))))) :: []))))))

(** val n_float128 : z list **)

let n_float128 =
  (Zpos (XO (XI (XI (XO (XO (XI XH))))))) :: ((Zpos (XO (XO (XI (XI (XO (XI
    XH))))))) :: ((Zpos (XI (XI (XI (XI (XO (XI XH))))))) :: ((Zpos (XI (XO
    (XO (XO (XO (XI XH))))))) :: ((Zpos (XO (XO (XI (XO (XI (XI
    XH))))))) :: ((Zpos (XI (XO (XO (XO (XI XH)))))) :: ((Zpos (XO (XI (XO
    (XO (XI XH)))))) :: ((Zpos (XO (XO (XO (XI (XI XH)))))) :: [])))))))

(** val n_complex64 : z list **)

let n_complex64 =
  (Zpos (XI (XI (XO (XO (XO (XI XH))))))) :: ((Zpos (XI (XI (XI (XI (XO (XI
    XH))))))) :: ((Zpos (XI (XO (XI (XI (XO (XI XH))))))) :: ((Zpos (XO (XO
    (XO (XO (XI (XI XH))))))) :: ((Zpos (XO (XO (XI (XI (XO (XI
    XH))))))) :: ((Zpos (XI (XO (XI (XO (XO (XI XH))))))) :: ((Zpos (XO (XO
    (XO (XI (XI (XI XH))))))) :: ((Zpos (XO (XI (XI (XO (XI
    XH)))))) :: ((Zpos (XO (XO (XI (XO (XI XH)))))) :: []))))))))

(** val n_complex128 : z list **)

let n_complex128 =
  (Zpos (XI (XI (XO (XO (XO (XI XH))))))) :: ((Zpos (XI (XI (XI (XI (XO (XI
    XH))))))) :: ((Zpos (XI (XO (XI (XI (XO (XI XH))))))) :: ((Zpos (XO (XO
    (XO (XO (XI (XI XH))))))) :: ((Zpos (XO (XO (XI (XI (XO (XI
    XH))))))) :: ((Zpos (XI (XO (XI (XO (XO (XI XH))))))) :: ((Zpos (XO (XO
    (XO (XI (XI (XI XH))))))) :: ((Zpos (XI (XO (XO (XO (XI
    XH)))))) :: ((Zpos (XO (XI (XO (XO (XI XH)))))) :: ((Zpos (XO (XO (XO (XI
    (XI XH)))))) :: [])))))))))

(** val n_complex256 : z list **)

let n_complex256 =
  (Zpos (XI (XI (XO (XO (XO (XI XH))))))) :: ((Zpos (XI (XI (XI (XI (XO (XI
    XH))))))) :: ((Zpos (XI (XO (XI (XI (XO (XI XH))))))) :: ((Zpos (XO (XO
    (XO (XO (XI (XI XH))))))) :: ((Zpos (XO (XO (XI (XI (XO (XI
    XH))))))) :: ((Zpos (XI (XO (XI (XO (XO (XI XH))))))) :: ((Zpos (XO (XO
    (XO (XI (XI (XI XH))))))) :: ((Zpos (XO (XI (XO (XO (XI
    XH)))))) :: ((Zpos (XI (XO (XI (XO (XI XH)))))) :: ((Zpos (XO (XI (XI (XO
    (XI XH)))))) :: [])))))))))

(** val n_datetime64 : z list **)

let n_datetime64 =
  (Zpos (XO (XO (XI (XO (XO (XI XH))))))) :: ((Zpos (XI (XO (XO (XO (XO (XI
    XH))))))) :: ((Zpos (XO (XO (XI (XO (XI (XI XH))))))) :: ((Zpos (XI (XO
    (XI (XO (XO (XI XH))))))) :: ((Zpos (XO (XO (XI (XO (XI (XI
    XH))))))) :: ((Zpos (XI (XO (XO (XI (XO (XI XH))))))) :: ((Zpos (XI (XO
    (XI (XI (XO (XI XH))))))) :: ((Zpos (XI (XO (XI (XO (XO (XI
    XH))))))) :: ((Zpos (XO (XI (XI (XO (XI XH)))))) :: ((Zpos (XO (XO (XI
    (XO (XI XH)))))) :: [])))))))))

(** val n_timedelta64 : z list **)

let n_timedelta64 =
  (Zpos (XO (XO (XI (XO (XI (XI XH))))))) :: ((Zpos (XI (XO (XO (XI (XO (XI
    XH))))))) :: ((Zpos (XI (XO (XI (XI (XO (XI XH))))))) :: ((Zpos (XI (XO
    (XI (XO (XO (XI XH))))))) :: ((Zpos (XO (XO (XI (XO (XO (XI
    XH))))))) :: ((Zpos (XI (XO (XI (XO (XO (XI XH))))))) :: ((Zpos (XO (XO
    (XI (XI (XO (XI XH))))))) :: ((Zpos (XO (XO (XI (XO (XI (XI
    XH))))))) :: ((Zpos (XI (XO (XO (XO (XO (XI XH))))))) :: ((Zpos (XO (XI
    (XI (XO (XI XH)))))) :: ((Zpos (XO (XO (XI (XO (XI
    XH)))))) :: []))))))))))

(** val n_unknown : z list **)

let n_unknown =
  (Zpos (XI (XO (XI (XO (XI (XI XH))))))) :: ((Zpos (XO (XI (XI (XI (XO (XI
    XH))))))) :: ((Zpos (XI (XI (XO (XI (XO (XI XH))))))) :: ((Zpos (XO (XI
    (XI (XI (XO (XI XH))))))) :: ((Zpos (XI (XI (XI (XI (XO (XI
    XH))))))) :: ((Zpos (XI (XI (XI (XO (XI (XI XH))))))) :: ((Zpos (XO (XI
    (XI (XI (XO (XI XH))))))) :: []))))))

(** val dtype_to_name : fdtype -> bytes **)

let dtype_to_name = function
| FD d0 ->
  (match d0 with
   | DBool -> n_bool
   | DInt8 -> n_int8
   | DInt16 -> n_int16
   | DInt32 -> n_int32
   | DInt64 -> n_int64
   | DUInt8 -> n_uint8
   | DUInt16 -> n_uint16
   | DUInt32 -> n_uint32
   | DUInt64 -> n_uint64
   | DFloat32 -> n_float32
   | DFloat64 -> n_float64)
| FFloat16 -> n_float16
| FFloat128 -> n_float128
| FComplex64 -> n_complex64
| FComplex128 -> n_complex128
| FComplex256 -> n_complex256
| FDatetime64 -> n_datetime64
| FTimedelta64 -> n_timedelta64
| FNotPrimitive -> n_unknown

(** val name_to_dtype : bytes -> fdtype **)

let name_to_dtype s =
  if bytes_eqb s n_bool
  then FD DBool
  else if bytes_eqb s n_int8
       then FD DInt8
       else if bytes_eqb s n_int16
            then FD DInt16
            else if bytes_eqb s n_int32
                 then FD DInt32
                 else if bytes_eqb s n_int64
                      then FD DInt64
                      else if bytes_eqb s n_uint8
                           then FD DUInt8
                           else if bytes_eqb s n_uint16
                                then FD DUInt16
                                else if bytes_eqb s n_uint32
                                     then FD DUInt32
                                     else if bytes_eqb s n_uint64
                                          then FD DUInt64
                                          else if bytes_eqb s n_float16
                                               then FFloat16
                                               else if bytes_eqb s n_float32
                                                    then FD DFloat32
                                                    else if bytes_eqb s
                                                              n_float64
                                                         then FD DFloat64
                                                         else if bytes_eqb s
                                                                   n_float128
                                                              then FFloat128
                                                              else if 
                                                                    bytes_eqb
                                                                    s
                                                                    n_complex64
                                                                   then 
                                                                    FComplex64
                                                                   else 
                                                                    if 
                                                                    bytes_eqb
                                                                    s
                                                                    n_complex128
                                                                    then 
                                                                    FComplex128
                                                                    else 
                                                                    if 
                                                                    bytes_eqb
                                                                    s
                                                                    n_complex256
                                                                    then 
                                                                    FComplex256
                                                                    else 
                                                                    if 
                                                                    is_prefix
                                                                    n_datetime64
                                                                    s
                                                                    then 
                                                                    FDatetime64
                                                                    else 
                                                                    if 
                                                                    is_prefix
                                                                    n_timedelta64
                                                                    s
                                                                    then 
                                                                    FTimedelta64
                                                                    else 
                                                                    FNotPrimitive

(** val dtype_to_format : fdtype -> bytes **)

let dtype_to_format = function
| FD d0 ->
  (match d0 with
   | DBool -> (Zpos (XI (XI (XI (XI (XI XH)))))) :: []
   | DInt8 -> (Zpos (XO (XI (XO (XO (XO (XI XH))))))) :: []
   | DInt16 -> (Zpos (XO (XO (XO (XI (XO (XI XH))))))) :: []
   | DInt32 -> (Zpos (XI (XO (XO (XI (XO (XI XH))))))) :: []
   | DInt64 -> (Zpos (XO (XO (XI (XI (XO (XI XH))))))) :: []
   | DUInt8 -> (Zpos (XO (XI (XO (XO (XO (XO XH))))))) :: []
   | DUInt16 -> (Zpos (XO (XO (XO (XI (XO (XO XH))))))) :: []
   | DUInt32 -> (Zpos (XI (XO (XO (XI (XO (XO XH))))))) :: []
   | DUInt64 -> (Zpos (XO (XO (XI (XI (XO (XO XH))))))) :: []
   | DFloat32 -> (Zpos (XO (XI (XI (XO (XO (XI XH))))))) :: []
   | DFloat64 -> (Zpos (XO (XO (XI (XO (XO (XI XH))))))) :: [])
| FFloat16 -> (Zpos (XI (XO (XI (XO (XO (XI XH))))))) :: []
| FFloat128 -> (Zpos (XI (XI (XI (XO (XO (XI XH))))))) :: []
| FComplex64 ->
  (Zpos (XO (XI (XO (XI (XI (XO XH))))))) :: ((Zpos (XO (XI (XI (XO (XO (XI
    XH))))))) :: [])
| FComplex128 ->
  (Zpos (XO (XI (XO (XI (XI (XO XH))))))) :: ((Zpos (XO (XO (XI (XO (XO (XI
    XH))))))) :: [])
| FComplex256 ->
  (Zpos (XO (XI (XO (XI (XI (XO XH))))))) :: ((Zpos (XI (XI (XI (XO (XO (XI
    XH))))))) :: [])
| FDatetime64 -> (Zpos (XI (XO (XI (XI (XO (XO XH))))))) :: []
| FTimedelta64 -> (Zpos (XI (XO (XI (XI (XO (XI XH))))))) :: []
| FNotPrimitive -> []

(** val dtype_to_itemsize : fdtype -> z **)

let dtype_to_itemsize = function
| FD d0 ->
  (match d0 with
   | DBool -> Zpos XH
   | DInt8 -> Zpos XH
   | DInt16 -> Zpos (XO XH)
   | DInt32 -> Zpos (XO (XO XH))
   | DUInt8 -> Zpos XH
   | DUInt16 -> Zpos (XO XH)
   | DUInt32 -> Zpos (XO (XO XH))
   | DFloat32 -> Zpos (XO (XO XH))
   | _ -> Zpos (XO (XO (XO XH))))
| FFloat16 -> Zpos (XO XH)
| FFloat128 -> Zpos (XO (XO (XO (XO XH))))
| FComplex128 -> Zpos (XO (XO (XO (XO XH))))
| FComplex256 -> Zpos (XO (XO (XO (XO (XO XH)))))
| FNotPrimitive -> Z0
| _ -> Zpos (XO (XO (XO XH)))

(** val signed_of_size : z -> fdtype **)

let signed_of_size n0 =
  if Z.eqb n0 (Zpos XH)
  then FD DInt8
  else if Z.eqb n0 (Zpos (XO XH))
       then FD DInt16
       else if Z.eqb n0 (Zpos (XO (XO XH)))
            then FD DInt32
            else if Z.eqb n0 (Zpos (XO (XO (XO XH))))
                 then FD DInt64
                 else FNotPrimitive

(** val unsigned_of_size : z -> fdtype **)

let unsigned_of_size n0 =
  if Z.eqb n0 (Zpos XH)
  then FD DUInt8
  else if Z.eqb n0 (Zpos (XO XH))
       then FD DUInt16
       else if Z.eqb n0 (Zpos (XO (XO XH)))
            then FD DUInt32
            else if Z.eqb n0 (Zpos (XO (XO (XO XH))))
                 then FD DUInt64
                 else FNotPrimitive

(** val format_to_dtype : bytes -> z -> fdtype **)

let format_to_dtype format itemsize =
  let body = fun fmt ->
    match fmt with
    | [] -> FNotPrimitive
    | z0 :: l ->
      (match z0 with
       | Zpos p ->
         (match p with
          | XI p0 ->
            (match p0 with
             | XI p1 ->
               (match p1 with
                | XI p2 ->
                  (match p2 with
                   | XI p3 ->
                     (match p3 with
                      | XI p4 ->
                        (match p4 with
                         | XH ->
                           (match l with
                            | [] -> FD DBool
                            | _ :: _ -> FNotPrimitive)
                         | _ -> FNotPrimitive)
                      | _ -> FNotPrimitive)
                   | XO p3 ->
                     (match p3 with
                      | XO p4 ->
                        (match p4 with
                         | XI p5 ->
                           (match p5 with
                            | XH ->
                              (match l with
                               | [] -> FFloat128
                               | _ :: _ -> FNotPrimitive)
                            | _ -> FNotPrimitive)
                         | _ -> FNotPrimitive)
                      | _ -> FNotPrimitive)
                   | XH -> FNotPrimitive)
                | XO p2 ->
                  (match p2 with
                   | XO p3 ->
                     (match p3 with
                      | XO p4 ->
                        (match p4 with
                         | XI p5 ->
                           (match p5 with
                            | XH ->
                              (match l with
                               | [] -> unsigned_of_size itemsize
                               | _ :: _ -> FNotPrimitive)
                            | _ -> FNotPrimitive)
                         | _ -> FNotPrimitive)
                      | _ -> FNotPrimitive)
                   | _ -> FNotPrimitive)
                | XH -> FNotPrimitive)
             | XO p1 ->
               (match p1 with
                | XI p2 ->
                  (match p2 with
                   | XI p3 ->
                     (match p3 with
                      | XO p4 ->
                        (match p4 with
                         | XI p5 ->
                           (match p5 with
                            | XH ->
                              (match l with
                               | [] -> FTimedelta64
                               | _ :: _ -> FNotPrimitive)
                            | _ -> FNotPrimitive)
                         | XO p5 ->
                           (match p5 with
                            | XH ->
                              (match l with
                               | [] -> FDatetime64
                               | _ :: _ -> FNotPrimitive)
                            | _ -> FNotPrimitive)
                         | XH -> FNotPrimitive)
                      | _ -> FNotPrimitive)
                   | XO p3 ->
                     (match p3 with
                      | XO p4 ->
                        (match p4 with
                         | XI p5 ->
                           (match p5 with
                            | XH ->
                              (match l with
                               | [] -> FFloat16
                               | _ :: _ -> FNotPrimitive)
                            | _ -> FNotPrimitive)
                         | _ -> FNotPrimitive)
                      | _ -> FNotPrimitive)
                   | XH -> FNotPrimitive)
                | XO p2 ->
                  (match p2 with
                   | XI p3 ->
                     (match p3 with
                      | XO p4 ->
                        (match p4 with
                         | XI p5 ->
                           (match p5 with
                            | XH ->
                              (match l with
                               | [] -> signed_of_size itemsize
                               | _ :: _ -> FNotPrimitive)
                            | _ -> FNotPrimitive)
                         | XO p5 ->
                           (match p5 with
                            | XH ->
                              (match l with
                               | [] -> unsigned_of_size itemsize
                               | _ :: _ -> FNotPrimitive)
                            | _ -> FNotPrimitive)
                         | XH -> FNotPrimitive)
                      | _ -> FNotPrimitive)
                   | XO p3 ->
                     (match p3 with
                      | XI p4 ->
                        (match p4 with
                         | XI p5 ->
                           (match p5 with
                            | XH ->
                              (match l with
                               | [] -> signed_of_size itemsize
                               | _ :: _ -> FNotPrimitive)
                            | _ -> FNotPrimitive)
                         | XO p5 ->
                           (match p5 with
                            | XH ->
                              (match l with
                               | [] -> unsigned_of_size itemsize
                               | _ :: _ -> FNotPrimitive)
                            | _ -> FNotPrimitive)
                         | XH -> FNotPrimitive)
                      | _ -> FNotPrimitive)
                   | XH -> FNotPrimitive)
                | XH -> FNotPrimitive)
             | XH -> FNotPrimitive)
          | XO p0 ->
            (match p0 with
             | XI p1 ->
               (match p1 with
                | XI p2 ->
                  (match p2 with
                   | XO p3 ->
                     (match p3 with
                      | XO p4 ->
                        (match p4 with
                         | XI p5 ->
                           (match p5 with
                            | XH ->
                              (match l with
                               | [] -> FD DFloat32
                               | _ :: _ -> FNotPrimitive)
                            | _ -> FNotPrimitive)
                         | _ -> FNotPrimitive)
                      | _ -> FNotPrimitive)
                   | _ -> FNotPrimitive)
                | XO p2 ->
                  (match p2 with
                   | XI p3 ->
                     (match p3 with
                      | XI p4 ->
                        (match p4 with
                         | XO p5 ->
                           (match p5 with
                            | XH ->
                              (match l with
                               | [] -> FNotPrimitive
                               | z1 :: l0 ->
                                 (match z1 with
                                  | Zpos p6 ->
                                    (match p6 with
                                     | XI p7 ->
                                       (match p7 with
                                        | XI p8 ->
                                          (match p8 with
                                           | XI p9 ->
                                             (match p9 with
                                              | XO p10 ->
                                                (match p10 with
                                                 | XO p11 ->
                                                   (match p11 with
                                                    | XI p12 ->
                                                      (match p12 with
                                                       | XH ->
                                                         (match l0 with
                                                          | [] -> FComplex256
                                                          | _ :: _ ->
                                                            FNotPrimitive)
                                                       | _ -> FNotPrimitive)
                                                    | _ -> FNotPrimitive)
                                                 | _ -> FNotPrimitive)
                                              | _ -> FNotPrimitive)
                                           | _ -> FNotPrimitive)
                                        | _ -> FNotPrimitive)
                                     | XO p7 ->
                                       (match p7 with
                                        | XI p8 ->
                                          (match p8 with
                                           | XI p9 ->
                                             (match p9 with
                                              | XO p10 ->
                                                (match p10 with
                                                 | XO p11 ->
                                                   (match p11 with
                                                    | XI p12 ->
                                                      (match p12 with
                                                       | XH ->
                                                         (match l0 with
                                                          | [] -> FComplex64
                                                          | _ :: _ ->
                                                            FNotPrimitive)
                                                       | _ -> FNotPrimitive)
                                                    | _ -> FNotPrimitive)
                                                 | _ -> FNotPrimitive)
                                              | _ -> FNotPrimitive)
                                           | _ -> FNotPrimitive)
                                        | XO p8 ->
                                          (match p8 with
                                           | XI p9 ->
                                             (match p9 with
                                              | XO p10 ->
                                                (match p10 with
                                                 | XO p11 ->
                                                   (match p11 with
                                                    | XI p12 ->
                                                      (match p12 with
                                                       | XH ->
                                                         (match l0 with
                                                          | [] -> FComplex128
                                                          | _ :: _ ->
                                                            FNotPrimitive)
                                                       | _ -> FNotPrimitive)
                                                    | _ -> FNotPrimitive)
                                                 | _ -> FNotPrimitive)
                                              | _ -> FNotPrimitive)
                                           | _ -> FNotPrimitive)
                                        | XH -> FNotPrimitive)
                                     | XH -> FNotPrimitive)
                                  | _ -> FNotPrimitive))
                            | _ -> FNotPrimitive)
                         | _ -> FNotPrimitive)
                      | _ -> FNotPrimitive)
                   | XO p3 ->
                     (match p3 with
                      | XO p4 ->
                        (match p4 with
                         | XI p5 ->
                           (match p5 with
                            | XH ->
                              (match l with
                               | [] -> signed_of_size itemsize
                               | _ :: _ -> FNotPrimitive)
                            | _ -> FNotPrimitive)
                         | XO p5 ->
                           (match p5 with
                            | XH ->
                              (match l with
                               | [] -> unsigned_of_size itemsize
                               | _ :: _ -> FNotPrimitive)
                            | _ -> FNotPrimitive)
                         | XH -> FNotPrimitive)
                      | _ -> FNotPrimitive)
                   | XH -> FNotPrimitive)
                | XH -> FNotPrimitive)
             | XO p1 ->
               (match p1 with
                | XI p2 ->
                  (match p2 with
                   | XI p3 ->
                     (match p3 with
                      | XO p4 ->
                        (match p4 with
                         | XI p5 ->
                           (match p5 with
                            | XH ->
                              (match l with
                               | [] -> signed_of_size itemsize
                               | _ :: _ -> FNotPrimitive)
                            | _ -> FNotPrimitive)
                         | XO p5 ->
                           (match p5 with
                            | XH ->
                              (match l with
                               | [] -> unsigned_of_size itemsize
                               | _ :: _ -> FNotPrimitive)
                            | _ -> FNotPrimitive)
                         | XH -> FNotPrimitive)
                      | _ -> FNotPrimitive)
                   | XO p3 ->
                     (match p3 with
                      | XO p4 ->
                        (match p4 with
                         | XI p5 ->
                           (match p5 with
                            | XH ->
                              (match l with
                               | [] -> FD DFloat64
                               | _ :: _ -> FNotPrimitive)
                            | _ -> FNotPrimitive)
                         | _ -> FNotPrimitive)
                      | _ -> FNotPrimitive)
                   | XH -> FNotPrimitive)
                | XO p2 ->
                  (match p2 with
                   | XI p3 ->
                     (match p3 with
                      | XO p4 ->
                        (match p4 with
                         | XI p5 ->
                           (match p5 with
                            | XH ->
                              (match l with
                               | [] -> signed_of_size itemsize
                               | _ :: _ -> FNotPrimitive)
                            | _ -> FNotPrimitive)
                         | XO p5 ->
                           (match p5 with
                            | XH ->
                              (match l with
                               | [] -> unsigned_of_size itemsize
                               | _ :: _ -> FNotPrimitive)
                            | _ -> FNotPrimitive)
                         | XH -> FNotPrimitive)
                      | _ -> FNotPrimitive)
                   | _ -> FNotPrimitive)
                | XH -> FNotPrimitive)
             | XH -> FNotPrimitive)
          | XH -> FNotPrimitive)
       | _ -> FNotPrimitive)
  in
  (match format with
   | [] -> body format
   | e :: rest ->
     (match rest with
      | [] -> body format
      | _ :: _ ->
        if (||) (Z.eqb e (Zpos (XO (XO (XI (XI (XI XH)))))))
             (Z.eqb e (Zpos (XI (XO (XI (XI (XI XH)))))))
        then body rest
        else if Z.eqb e (Zpos (XO (XI (XI (XI (XI XH))))))
             then FNotPrimitive
             else body format))

type params = (bytes * json) list

type fmeta = { m_hid : bool; m_params : params; m_key : bytes option }

(** val meta0 : fmeta **)

let meta0 =
  { m_hid = false; m_params = []; m_key = None }

type form =
| FNumpy of fmeta * z list * z * bytes * fdtype
| FEmpty of fmeta
| FListOffset of fmeta * iform * form
| FList of fmeta * iform * iform * form
| FRegular of fmeta * form * z
| FIndexed of fmeta * iform * form
| FIndexedOption of fmeta * iform * form
| FByteMasked of fmeta * iform * form * bool
| FBitMasked of fmeta * iform * form * bool * bool
| FUnmasked of fmeta * form
| FUnion of fmeta * iform * iform * form list
| FRecord of fmeta * bytes list option * form list
| FVirtual of fmeta * form option * bool

(** val akind_name : akind -> bytes **)

let akind_name = function
| AString -> s_string
| ABytestring -> s_bytestring
| AChar -> s_char
| AByte -> s_byte
| ACategorical -> s_categorical

(** val params_of : akind option -> name option -> params **)

let params_of a r =
  app
    (match a with
     | Some k -> (k_array, (JStr (akind_name k))) :: []
     | None -> [])
    (match r with
     | Some n0 -> (k_record, (JStr n0)) :: []
     | None -> [])

(** val meta_of : akind option -> name option -> fmeta **)

let meta_of a r =
  { m_hid = false; m_params = (params_of a r); m_key = None }

(** val por : 'a1 option -> 'a1 option -> 'a1 option **)

let por outer inner =
  match outer with
  | Some _ -> outer
  | None -> inner

(** val form_of_p : akind option -> name option -> content -> form **)

let rec form_of_p a r = function
| Numpy (dt, shape, _) ->
  FNumpy ((meta_of a r), (tl shape), (dtype_to_itemsize (FD dt)),
    (dtype_to_format (FD dt)), (FD dt))
| Empty -> FEmpty (meta_of a r)
| ListOffset (w, _, c') ->
  FListOffset ((meta_of a r), (iform_of_width w), (form_of_p None None c'))
| ListA (w, _, _, c') ->
  FList ((meta_of a r), (iform_of_width w), (iform_of_width w),
    (form_of_p None None c'))
| Regular (c', size, _) ->
  FRegular ((meta_of a r), (form_of_p None None c'), size)
| Indexed (w, _, c') ->
  FIndexed ((meta_of a r), (iform_of_width w), (form_of_p None None c'))
| IndexedOption (w, _, c') ->
  FIndexedOption ((meta_of a r), (match w with
                                  | I32 -> Fi32
                                  | _ -> Fi64), (form_of_p None None c'))
| ByteMasked (_, vw, c') ->
  FByteMasked ((meta_of a r), Fi8, (form_of_p None None c'), vw)
| BitMasked (_, vw, lsb, _, c') ->
  FBitMasked ((meta_of a r), Fu8, (form_of_p None None c'), vw, lsb)
| Unmasked c' -> FUnmasked ((meta_of a r), (form_of_p None None c'))
| Union (w, _, _, cs) ->
  FUnion ((meta_of a r), Fi8, (iform_of_width w),
    (map (form_of_p None None) cs))
| Record (cs, ks, _) ->
  FRecord ((meta_of a r), ks, (map (form_of_p None None) cs))
| Par (a', r', c') -> form_of_p (por a a') (por r r') c'

(** val form_of : content -> form **)

let form_of c =
  form_of_p None None c

(** val kMaxInt64 : z **)

let kMaxInt64 =
  Zpos (XI (XI (XI (XI (XI (XI (XI (XI (XI (XI (XI (XI (XI (XI (XI (XI (XI
    (XI (XI (XI (XI (XI (XI (XI (XI (XI (XI (XI (XI (XI (XI (XI (XI (XI (XI
    (XI (XI (XI (XI (XI (XI (XI (XI (XI (XI (XI (XI (XI (XI (XI (XI (XI (XI
    (XI (XI (XI (XI (XI (XI (XI (XI (XI
    XH))))))))))))))))))))))))))))))))))))))))))))))))))))))))))))))

(** val param_is_str : params -> bytes -> bytes -> bool **)

let param_is_str ps key s =
  match pfind key ps with
  | Some j -> (match j with
               | JStr t -> bytes_eqb t s
               | _ -> false)
  | None -> false

(** val is_string_params : params -> bool **)

let is_string_params ps =
  (||) (param_is_str ps k_array s_string)
    (param_is_str ps k_array s_bytestring)

(** val mapM_id : 'a1 res list -> 'a1 list res **)

let rec mapM_id = function
| [] -> Ok []
| x :: xs -> bind x (fun y -> bind (mapM_id xs) (fun ys -> Ok (y :: ys)))

(** val depth_scan : z -> z res list -> z res **)

let rec depth_scan d0 = function
| [] -> Ok d0
| r :: rest ->
  bind r (fun d -> if Z.eqb d0 d then depth_scan d0 rest else Ok (Zneg XH))

(** val all_regular : bool res list -> bool res **)

let rec all_regular = function
| [] -> Ok true
| r :: rest -> bind r (fun b -> if b then all_regular rest else Ok false)

(** val f_purelist_depth : form -> z res **)

let rec f_purelist_depth = function
| FNumpy (_, inner, _, _, _) -> Ok (Z.add (zlen inner) (Zpos XH))
| FListOffset (m, _, c) ->
  if is_string_params m.m_params
  then Ok (Zpos XH)
  else bind (f_purelist_depth c) (fun d -> Ok (Z.add d (Zpos XH)))
| FList (m, _, _, c) ->
  if is_string_params m.m_params
  then Ok (Zpos XH)
  else bind (f_purelist_depth c) (fun d -> Ok (Z.add d (Zpos XH)))
| FRegular (m, c, _) ->
  if is_string_params m.m_params
  then Ok (Zpos XH)
  else bind (f_purelist_depth c) (fun d -> Ok (Z.add d (Zpos XH)))
| FIndexed (_, _, c) -> f_purelist_depth c
| FIndexedOption (_, _, c) -> f_purelist_depth c
| FByteMasked (_, _, c, _) -> f_purelist_depth c
| FBitMasked (_, _, c, _, _) -> f_purelist_depth c
| FUnmasked (_, c) -> f_purelist_depth c
| FUnion (_, _, _, cs) ->
  (match map f_purelist_depth cs with
   | [] -> Ok (Zneg XH)
   | r0 :: rest -> bind r0 (fun d0 -> depth_scan d0 rest))
| FVirtual (_, f0, _) ->
  (match f0 with
   | Some g -> f_purelist_depth g
   | None -> Err EValue)
| _ -> Ok (Zpos XH)

(** val minmax_fold : (z * z) list -> z * z **)

let minmax_fold l = match l with
| [] -> (Z0, Z0)
| _ :: _ ->
  fold_left (fun acc mm ->
    ((if Z.ltb (fst mm) (fst acc) then fst mm else fst acc),
    (if Z.ltb (snd acc) (snd mm) then snd mm else snd acc))) l (kMaxInt64, Z0)

(** val f_minmax_depth : form -> (z * z) res **)

let rec f_minmax_depth = function
| FNumpy (_, inner, _, _, _) ->
  Ok ((Z.add (zlen inner) (Zpos XH)), (Z.add (zlen inner) (Zpos XH)))
| FEmpty _ -> Ok ((Zpos XH), (Zpos XH))
| FListOffset (m, _, c) ->
  if is_string_params m.m_params
  then Ok ((Zpos XH), (Zpos XH))
  else bind (f_minmax_depth c) (fun mm -> Ok ((Z.add (fst mm) (Zpos XH)),
         (Z.add (snd mm) (Zpos XH))))
| FList (m, _, _, c) ->
  if is_string_params m.m_params
  then Ok ((Zpos XH), (Zpos XH))
  else bind (f_minmax_depth c) (fun mm -> Ok ((Z.add (fst mm) (Zpos XH)),
         (Z.add (snd mm) (Zpos XH))))
| FRegular (m, c, _) ->
  if is_string_params m.m_params
  then Ok ((Zpos XH), (Zpos XH))
  else bind (f_minmax_depth c) (fun mm -> Ok ((Z.add (fst mm) (Zpos XH)),
         (Z.add (snd mm) (Zpos XH))))
| FIndexed (_, _, c) -> f_minmax_depth c
| FIndexedOption (_, _, c) -> f_minmax_depth c
| FByteMasked (_, _, c, _) -> f_minmax_depth c
| FBitMasked (_, _, c, _, _) -> f_minmax_depth c
| FUnmasked (_, c) -> f_minmax_depth c
| FUnion (_, _, _, cs) ->
  bind (mapM_id (map f_minmax_depth cs)) (fun l -> Ok (minmax_fold l))
| FRecord (_, _, cs) ->
  bind (mapM_id (map f_minmax_depth cs)) (fun l -> Ok (minmax_fold l))
| FVirtual (_, f0, _) ->
  (match f0 with
   | Some g -> f_minmax_depth g
   | None -> Err EValue)

(** val branch_fold : (bool * z) list -> bool * z **)

let branch_fold l =
  fold_left (fun acc bd ->
    let mind = if Z.eqb (snd acc) (Zneg XH) then snd bd else snd acc in
    let anyb = (||) ((||) (fst acc) (fst bd)) (negb (Z.eqb mind (snd bd))) in
    (anyb, (if Z.ltb (snd bd) mind then snd bd else mind))) l (false, (Zneg
    XH))

(** val f_branch_depth : form -> (bool * z) res **)

let rec f_branch_depth = function
| FNumpy (_, inner, _, _, _) -> Ok (false, (Z.add (zlen inner) (Zpos XH)))
| FEmpty _ -> Ok (false, (Zpos XH))
| FListOffset (m, _, c) ->
  if is_string_params m.m_params
  then Ok (false, (Zpos XH))
  else bind (f_branch_depth c) (fun bd -> Ok ((fst bd),
         (Z.add (snd bd) (Zpos XH))))
| FList (m, _, _, c) ->
  if is_string_params m.m_params
  then Ok (false, (Zpos XH))
  else bind (f_branch_depth c) (fun bd -> Ok ((fst bd),
         (Z.add (snd bd) (Zpos XH))))
| FRegular (m, c, _) ->
  if is_string_params m.m_params
  then Ok (false, (Zpos XH))
  else bind (f_branch_depth c) (fun bd -> Ok ((fst bd),
         (Z.add (snd bd) (Zpos XH))))
| FIndexed (_, _, c) -> f_branch_depth c
| FIndexedOption (_, _, c) -> f_branch_depth c
| FByteMasked (_, _, c, _) -> f_branch_depth c
| FBitMasked (_, _, c, _, _) -> f_branch_depth c
| FUnmasked (_, c) -> f_branch_depth c
| FUnion (_, _, _, cs) ->
  bind (mapM_id (map f_branch_depth cs)) (fun l -> Ok (branch_fold l))
| FRecord (_, _, cs) ->
  (match cs with
   | [] -> Ok (false, (Zpos XH))
   | _ :: _ ->
     bind (mapM_id (map f_branch_depth cs)) (fun l -> Ok (branch_fold l)))
| FVirtual (_, f0, _) ->
  (match f0 with
   | Some g -> f_branch_depth g
   | None -> Err EValue)

(** val f_purelist_isregular : form -> bool res **)

let rec f_purelist_isregular = function
| FListOffset (_, _, _) -> Ok false
| FList (_, _, _, _) -> Ok false
| FRegular (_, c, _) -> f_purelist_isregular c
| FIndexed (_, _, c) -> f_purelist_isregular c
| FIndexedOption (_, _, c) -> f_purelist_isregular c
| FByteMasked (_, _, c, _) -> f_purelist_isregular c
| FBitMasked (_, _, c, _, _) -> f_purelist_isregular c
| FUnmasked (_, c) -> f_purelist_isregular c
| FUnion (_, _, _, cs) -> all_regular (map f_purelist_isregular cs)
| FVirtual (_, f0, _) ->
  (match f0 with
   | Some g -> f_purelist_isregular g
   | None -> Err EValue)
| _ -> Ok true

(** val tuple_keys : nat -> bytes list **)

let tuple_keys n0 =
  map dec_of_Z (iota_nat Z0 n0)

(** val keys_intersect : bytes list list -> bytes list **)

let keys_intersect = function
| [] -> []
| k0 :: rest ->
  fold_left (fun out tmp -> filter (fun k -> existsb (bytes_eqb k) tmp) out)
    rest k0

(** val f_keys : form -> bytes list res **)

let rec f_keys = function
| FListOffset (_, _, c) -> f_keys c
| FList (_, _, _, c) -> f_keys c
| FRegular (_, c, _) -> f_keys c
| FIndexed (_, _, c) -> f_keys c
| FIndexedOption (_, _, c) -> f_keys c
| FByteMasked (_, _, c, _) -> f_keys c
| FBitMasked (_, _, c, _, _) -> f_keys c
| FUnmasked (_, c) -> f_keys c
| FUnion (_, _, _, cs) ->
  bind (mapM_id (map f_keys cs)) (fun l -> Ok (keys_intersect l))
| FRecord (_, keys, cs) ->
  (match keys with
   | Some ks -> Ok ks
   | None -> Ok (tuple_keys (length cs)))
| FVirtual (_, f0, _) ->
  (match f0 with
   | Some g -> f_keys g
   | None -> Err EValue)
| _ -> Ok []

(** val f_numfields : form -> z res **)

let rec f_numfields = function
| FListOffset (_, _, c) -> f_numfields c
| FList (_, _, _, c) -> f_numfields c
| FRegular (_, c, _) -> f_numfields c
| FIndexed (_, _, c) -> f_numfields c
| FIndexedOption (_, _, c) -> f_numfields c
| FByteMasked (_, _, c, _) -> f_numfields c
| FBitMasked (_, _, c, _, _) -> f_numfields c
| FUnmasked (_, c) -> f_numfields c
| FUnion (_, _, _, cs) ->
  bind (mapM_id (map f_keys cs)) (fun l -> Ok (zlen (keys_intersect l)))
| FRecord (_, _, cs) -> Ok (zlen cs)
| FVirtual (_, f0, _) ->
  (match f0 with
   | Some g -> f_numfields g
   | None -> Err EValue)
| _ -> Ok (Zneg XH)

(** val is_string_kind : akind option -> bool **)

let is_string_kind = function
| Some a0 -> (match a0 with
              | AString -> true
              | ABytestring -> true
              | _ -> false)
| None -> false

(** val c_purelist_depth : akind option -> content -> z **)

let rec c_purelist_depth a = function
| Numpy (_, shape, _) -> zlen shape
| ListOffset (_, _, c') ->
  if is_string_kind a
  then Zpos XH
  else Z.add (c_purelist_depth None c') (Zpos XH)
| ListA (_, _, _, c') ->
  if is_string_kind a
  then Zpos XH
  else Z.add (c_purelist_depth None c') (Zpos XH)
| Regular (c', _, _) ->
  if is_string_kind a
  then Zpos XH
  else Z.add (c_purelist_depth None c') (Zpos XH)
| Indexed (_, _, c') -> c_purelist_depth None c'
| IndexedOption (_, _, c') -> c_purelist_depth None c'
| ByteMasked (_, _, c') -> c_purelist_depth None c'
| BitMasked (_, _, _, _, c') -> c_purelist_depth None c'
| Unmasked c' -> c_purelist_depth None c'
| Union (_, _, _, cs) ->
  (match map (c_purelist_depth None) cs with
   | [] -> Zneg XH
   | d0 :: rest -> if forallb (Z.eqb d0) rest then d0 else Zneg XH)
| Par (a', _, c') -> c_purelist_depth (por a a') c'
| _ -> Zpos XH

(** val c_minmax_depth : akind option -> content -> z * z **)

let rec c_minmax_depth a = function
| Numpy (_, shape, _) -> ((zlen shape), (zlen shape))
| Empty -> ((Zpos XH), (Zpos XH))
| ListOffset (_, _, c') ->
  if is_string_kind a
  then ((Zpos XH), (Zpos XH))
  else let mm = c_minmax_depth None c' in
       ((Z.add (fst mm) (Zpos XH)), (Z.add (snd mm) (Zpos XH)))
| ListA (_, _, _, c') ->
  if is_string_kind a
  then ((Zpos XH), (Zpos XH))
  else let mm = c_minmax_depth None c' in
       ((Z.add (fst mm) (Zpos XH)), (Z.add (snd mm) (Zpos XH)))
| Regular (c', _, _) ->
  if is_string_kind a
  then ((Zpos XH), (Zpos XH))
  else let mm = c_minmax_depth None c' in
       ((Z.add (fst mm) (Zpos XH)), (Z.add (snd mm) (Zpos XH)))
| Indexed (_, _, c') -> c_minmax_depth None c'
| IndexedOption (_, _, c') -> c_minmax_depth None c'
| ByteMasked (_, _, c') -> c_minmax_depth None c'
| BitMasked (_, _, _, _, c') -> c_minmax_depth None c'
| Unmasked c' -> c_minmax_depth None c'
| Union (_, _, _, cs) -> minmax_fold (map (c_minmax_depth None) cs)
| Record (cs, _, _) -> minmax_fold (map (c_minmax_depth None) cs)
| Par (a', _, c') -> c_minmax_depth (por a a') c'

(** val c_branch_depth : akind option -> content -> bool * z **)

let rec c_branch_depth a = function
| Numpy (_, shape, _) -> (false, (zlen shape))
| Empty -> (false, (Zpos XH))
| ListOffset (_, _, c') ->
  if is_string_kind a
  then (false, (Zpos XH))
  else let bd = c_branch_depth None c' in
       ((fst bd), (Z.add (snd bd) (Zpos XH)))
| ListA (_, _, _, c') ->
  if is_string_kind a
  then (false, (Zpos XH))
  else let bd = c_branch_depth None c' in
       ((fst bd), (Z.add (snd bd) (Zpos XH)))
| Regular (c', _, _) ->
  if is_string_kind a
  then (false, (Zpos XH))
  else let bd = c_branch_depth None c' in
       ((fst bd), (Z.add (snd bd) (Zpos XH)))
| Indexed (_, _, c') -> c_branch_depth None c'
| IndexedOption (_, _, c') -> c_branch_depth None c'
| ByteMasked (_, _, c') -> c_branch_depth None c'
| BitMasked (_, _, _, _, c') -> c_branch_depth None c'
| Unmasked c' -> c_branch_depth None c'
| Union (_, _, _, cs) -> branch_fold (map (c_branch_depth None) cs)
| Record (cs, _, _) ->
  (match cs with
   | [] -> (false, (Zpos XH))
   | _ :: _ -> branch_fold (map (c_branch_depth None) cs))
| Par (a', _, c') -> c_branch_depth (por a a') c'

(** val c_purelist_isregular : content -> bool **)

let rec c_purelist_isregular = function
| ListOffset (_, _, _) -> false
| ListA (_, _, _, _) -> false
| Regular (c', _, _) -> c_purelist_isregular c'
| Indexed (_, _, c') -> c_purelist_isregular c'
| IndexedOption (_, _, c') -> c_purelist_isregular c'
| ByteMasked (_, _, c') -> c_purelist_isregular c'
| BitMasked (_, _, _, _, c') -> c_purelist_isregular c'
| Unmasked c' -> c_purelist_isregular c'
| Union (_, _, _, cs) -> forallb c_purelist_isregular cs
| Par (_, _, c') -> c_purelist_isregular c'
| _ -> true

(** val c_keys : content -> bytes list **)

let rec c_keys = function
| ListOffset (_, _, c') -> c_keys c'
| ListA (_, _, _, c') -> c_keys c'
| Regular (c', _, _) -> c_keys c'
| Indexed (_, _, c') -> c_keys c'
| IndexedOption (_, _, c') -> c_keys c'
| ByteMasked (_, _, c') -> c_keys c'
| BitMasked (_, _, _, _, c') -> c_keys c'
| Unmasked c' -> c_keys c'
| Union (_, _, _, cs) -> keys_intersect (map c_keys cs)
| Record (cs, keys, _) ->
  (match keys with
   | Some ks -> ks
   | None -> tuple_keys (length cs))
| Par (_, _, c') -> c_keys c'
| _ -> []

(** val c_numfields : content -> z **)

let rec c_numfields = function
| ListOffset (_, _, c') -> c_numfields c'
| ListA (_, _, _, c') -> c_numfields c'
| Regular (c', _, _) -> c_numfields c'
| Indexed (_, _, c') -> c_numfields c'
| IndexedOption (_, _, c') -> c_numfields c'
| ByteMasked (_, _, c') -> c_numfields c'
| BitMasked (_, _, _, _, c') -> c_numfields c'
| Unmasked c' -> c_numfields c'
| Union (_, _, _, cs) -> zlen (keys_intersect (map c_keys cs))
| Record (cs, _, _) -> zlen cs
| Par (_, _, c') -> c_numfields c'
| _ -> Zneg XH

(** val np_ok : content -> bool **)

let rec np_ok = function
| Numpy (_, shape, _) -> (match shape with
                          | [] -> false
                          | _ :: _ -> true)
| Empty -> true
| ListOffset (_, _, c') -> np_ok c'
| ListA (_, _, _, c') -> np_ok c'
| Regular (c', _, _) -> np_ok c'
| Indexed (_, _, c') -> np_ok c'
| IndexedOption (_, _, c') -> np_ok c'
| ByteMasked (_, _, c') -> np_ok c'
| BitMasked (_, _, _, _, c') -> np_ok c'
| Unmasked c' -> np_ok c'
| Union (_, _, _, cs) -> forallb np_ok cs
| Record (cs, _, _) -> forallb np_ok cs
| Par (_, _, c') -> np_ok c'

(** val nonul : bytes -> bool **)

let nonul s =
  forallb (fun c -> negb (Z.eqb c Z0)) s

(** val meta_wf : fmeta -> bool **)

let meta_wf m =
  (&&)
    ((&&) (psorted m.m_params)
      (forallb (fun kv -> nonul (fst kv)) m.m_params))
    (match m.m_key with
     | Some k -> nonul k
     | None -> true)

(** val width3 : iform -> bool **)

let width3 = function
| Fi8 -> false
| Fu8 -> false
| _ -> true

(** val form_wf : form -> bool **)

let rec form_wf = function
| FNumpy (m, inner, itemsize, format, dt) ->
  (&&)
    ((&&)
      ((&&) ((&&) (meta_wf m) (forallb is_int32 inner))
        (negb (fdtype_eqb dt FNotPrimitive)))
      (Z.eqb itemsize (dtype_to_itemsize dt)))
    (bytes_eqb format (dtype_to_format dt))
| FEmpty m -> meta_wf m
| FListOffset (m, o, c) -> (&&) ((&&) (meta_wf m) (width3 o)) (form_wf c)
| FList (m, s, e, c) ->
  (&&) ((&&) ((&&) (meta_wf m) (width3 s)) (iform_eqb s e)) (form_wf c)
| FRegular (m, c, size) -> (&&) ((&&) (meta_wf m) (is_int32 size)) (form_wf c)
| FIndexed (m, i, c) -> (&&) ((&&) (meta_wf m) (width3 i)) (form_wf c)
| FIndexedOption (m, i, c) ->
  (&&)
    ((&&) (meta_wf m) (match i with
                       | Fi32 -> true
                       | Fi64 -> true
                       | _ -> false)) (form_wf c)
| FByteMasked (m, _, c, _) -> (&&) (meta_wf m) (form_wf c)
| FBitMasked (m, _, c, _, _) -> (&&) (meta_wf m) (form_wf c)
| FUnmasked (m, c) -> (&&) (meta_wf m) (form_wf c)
| FUnion (m, t, i, cs) ->
  (&&) ((&&) ((&&) (meta_wf m) (iform_eqb t Fi8)) (width3 i))
    (forallb form_wf cs)
| FRecord (m, ks, cs) ->
  (&&) ((&&) (meta_wf m) (forallb form_wf cs))
    (match ks with
     | Some ks0 -> (&&) (Nat.eqb (length ks0) (length cs)) (forallb nonul ks0)
     | None -> true)
| FVirtual (m, g, _) ->
  (&&) (meta_wf m) (match g with
                    | Some g' -> form_wf g'
                    | None -> true)

(** val j_identities : bool -> fmeta -> (bytes * json) list **)

let j_identities verbose m =
  if (||) verbose m.m_hid
  then (k_has_identities, (JBool m.m_hid)) :: []
  else []

(** val j_parameters : bool -> fmeta -> (bytes * json) list **)

let j_parameters verbose m =
  match m.m_params with
  | [] -> if verbose then (k_parameters, (JObj [])) :: [] else []
  | p :: l ->
    (k_parameters, (JObj
      (map (fun kv -> ((cstr (fst kv)), (snd kv))) (p :: l)))) :: []

(** val j_form_key : bool -> fmeta -> (bytes * json) list **)

let j_form_key verbose m =
  match m.m_key with
  | Some k -> (k_form_key, (JStr k)) :: []
  | None -> if verbose then (k_form_key, JNull) :: [] else []

(** val j_tail : bool -> fmeta -> (bytes * json) list **)

let j_tail verbose m =
  app (j_identities verbose m)
    (app (j_parameters verbose m) (j_form_key verbose m))

(** val is_plain_meta : fmeta -> bool **)

let is_plain_meta m =
  (&&)
    ((&&) (negb m.m_hid) (match m.m_params with
                          | [] -> true
                          | _ :: _ -> false))
    (match m.m_key with
     | Some _ -> false
     | None -> true)

(** val form_tojson_part : bool -> bool -> form -> json **)

let rec form_tojson_part verbose toplevel f =
  let sub0 = form_tojson_part verbose false in
  (match f with
   | FNumpy (m, inner, itemsize, format, dt) ->
     let p = dtype_to_name dt in
     if (||)
          ((||) ((||) verbose toplevel)
            (negb (match inner with
                   | [] -> true
                   | _ :: _ -> false))) (negb (is_plain_meta m))
     then JObj
            (app ((k_class, (JStr c_NumpyArray)) :: [])
              (app
                (if (||) verbose
                      (negb (match inner with
                             | [] -> true
                             | _ :: _ -> false))
                 then (k_inner_shape, (JArr
                        (map (fun x -> JInt x) inner))) :: []
                 else [])
                (app ((k_itemsize, (JInt itemsize)) :: ((k_format, (JStr
                  format)) :: ((k_primitive, (JStr p)) :: [])))
                  (j_tail verbose m))))
     else JStr p
   | FEmpty m -> JObj ((k_class, (JStr c_EmptyArray)) :: (j_tail verbose m))
   | FListOffset (m, o, c) ->
     JObj
       (app ((k_class, (JStr
         (match o with
          | Fi32 -> c_ListOffsetArray32
          | Fu32 -> c_ListOffsetArrayU32
          | Fi64 -> c_ListOffsetArray64
          | _ -> c_UnrecognizedListOffsetArray))) :: ((k_offsets, (JStr
         (form2str o))) :: ((k_content, (sub0 c)) :: []))) (j_tail verbose m))
   | FList (m, s, e, c) ->
     JObj
       (app ((k_class, (JStr
         (match s with
          | Fi32 -> c_ListArray32
          | Fu32 -> c_ListArrayU32
          | Fi64 -> c_ListArray64
          | _ -> c_UnrecognizedListArray))) :: ((k_starts, (JStr
         (form2str s))) :: ((k_stops, (JStr (form2str e))) :: ((k_content,
         (sub0 c)) :: [])))) (j_tail verbose m))
   | FRegular (m, c, size) ->
     JObj
       (app ((k_class, (JStr c_RegularArray)) :: ((k_content,
         (sub0 c)) :: ((k_size, (JInt size)) :: []))) (j_tail verbose m))
   | FIndexed (m, i, c) ->
     JObj
       (app ((k_class, (JStr
         (match i with
          | Fi32 -> c_IndexedArray32
          | Fu32 -> c_IndexedArrayU32
          | Fi64 -> c_IndexedArray64
          | _ -> c_UnrecognizedIndexedArray))) :: ((k_index, (JStr
         (form2str i))) :: ((k_content, (sub0 c)) :: []))) (j_tail verbose m))
   | FIndexedOption (m, i, c) ->
     JObj
       (app ((k_class, (JStr
         (match i with
          | Fi32 -> c_IndexedOptionArray32
          | Fi64 -> c_IndexedOptionArray64
          | _ -> c_UnrecognizedIndexedOptionArray))) :: ((k_index, (JStr
         (form2str i))) :: ((k_content, (sub0 c)) :: []))) (j_tail verbose m))
   | FByteMasked (m, k, c, vw) ->
     JObj
       (app ((k_class, (JStr c_ByteMaskedArray)) :: ((k_mask, (JStr
         (form2str k))) :: ((k_content, (sub0 c)) :: ((k_valid_when, (JBool
         vw)) :: [])))) (j_tail verbose m))
   | FBitMasked (m, k, c, vw, lsb) ->
     JObj
       (app ((k_class, (JStr c_BitMaskedArray)) :: ((k_mask, (JStr
         (form2str k))) :: ((k_content, (sub0 c)) :: ((k_valid_when, (JBool
         vw)) :: ((k_lsb_order, (JBool lsb)) :: []))))) (j_tail verbose m))
   | FUnmasked (m, c) ->
     JObj
       (app ((k_class, (JStr c_UnmaskedArray)) :: ((k_content,
         (sub0 c)) :: [])) (j_tail verbose m))
   | FUnion (m, t, i, cs) ->
     JObj
       (app ((k_class, (JStr
         (match i with
          | Fi32 -> c_UnionArray8_32
          | Fu32 -> c_UnionArray8_U32
          | Fi64 -> c_UnionArray8_64
          | _ -> c_UnrecognizedUnionArray))) :: ((k_tags, (JStr
         (form2str t))) :: ((k_index, (JStr (form2str i))) :: ((k_contents,
         (JArr (map sub0 cs))) :: [])))) (j_tail verbose m))
   | FRecord (m, keys, cs) ->
     (match keys with
      | Some ks ->
        JObj
          (app ((k_class, (JStr c_RecordArray)) :: ((k_contents, (JObj
            (let rec go cs0 ks0 =
               match cs0 with
               | [] -> []
               | c :: cs' ->
                 (match ks0 with
                  | [] -> []
                  | k :: ks' -> ((cstr k), (sub0 c)) :: (go cs' ks'))
             in go cs ks))) :: [])) (j_tail verbose m))
      | None ->
        JObj
          (app ((k_class, (JStr c_RecordArray)) :: ((k_contents, (JArr
            (map sub0 cs))) :: [])) (j_tail verbose m)))
   | FVirtual (m, g, hl) ->
     JObj
       (app ((k_class, (JStr c_VirtualArray)) :: ((k_form,
         (match g with
          | Some g' -> sub0 g'
          | None -> JNull)) :: ((k_has_length, (JBool hl)) :: [])))
         (j_tail verbose m)))

(** val form_tojson : bool -> form -> json **)

let form_tojson verbose f =
  form_tojson_part verbose true f

(** val jfind_map :
    (json -> 'a1) -> bytes -> (bytes * json) list -> 'a1 option **)

let rec jfind_map f k = function
| [] -> None
| p :: r ->
  let (k', v) = p in if bytes_eqb k' k then Some (f v) else jfind_map f k r

(** val get_hid : (bytes * json) list -> bool res **)

let get_hid m =
  match jfind k_has_identifier m with
  | Some j -> (match j with
               | JBool b -> Ok b
               | _ -> Err EValue)
  | None ->
    (match jfind k_has_identities m with
     | Some j -> (match j with
                  | JBool b -> Ok b
                  | _ -> Err EValue)
     | None -> Ok false)

(** val get_params : (bytes * json) list -> params res **)

let get_params m =
  match jfind k_parameters m with
  | Some j ->
    (match j with
     | JObj ps ->
       Ok (fold_left (fun acc kv -> pset (cstr (fst kv)) (snd kv) acc) ps [])
     | _ -> Err EValue)
  | None -> Ok []

(** val get_form_key : (bytes * json) list -> bytes option res **)

let get_form_key m =
  match jfind k_form_key m with
  | Some j ->
    (match j with
     | JNull -> Ok None
     | JStr s -> Ok (Some (cstr s))
     | _ -> Err EValue)
  | None -> Ok None

(** val get_meta : (bytes * json) list -> fmeta res **)

let get_meta m =
  bind (get_hid m) (fun h ->
    bind (get_params m) (fun p ->
      bind (get_form_key m) (fun f -> Ok { m_hid = h; m_params = p; m_key =
        f })))

(** val get_iform :
    iform option -> bytes -> (bytes * json) list -> iform res **)

let get_iform preset field m =
  match jfind field m with
  | Some j ->
    (match j with
     | JStr s ->
       bind (str2form (cstr s)) (fun tmp ->
         match preset with
         | Some p -> if iform_eqb p tmp then Ok tmp else Err EValue
         | None -> Ok tmp)
     | _ -> (match preset with
             | Some p -> Ok p
             | None -> Err EValue))
  | None -> (match preset with
             | Some p -> Ok p
             | None -> Err EValue)

(** val get_bool : bytes -> (bytes * json) list -> bool res **)

let get_bool field m =
  match jfind field m with
  | Some j -> (match j with
               | JBool b -> Ok b
               | _ -> Err EValue)
  | None -> Err EValue

(** val from_primitive_name : bytes -> form res **)

let from_primitive_name s =
  let dt = name_to_dtype (cstr s) in
  (match dt with
   | FNotPrimitive -> Err EValue
   | _ ->
     Ok (FNumpy (meta0, [], (dtype_to_itemsize dt), (dtype_to_format dt), dt)))

(** val width_preset :
    bytes -> bytes -> bytes -> bytes -> bytes -> iform option option **)

let width_preset cls generic c64 cU32 c32 =
  if bytes_eqb cls generic
  then Some None
  else if bytes_eqb cls c64
       then Some (Some Fi64)
       else if bytes_eqb cls cU32
            then Some (Some Fu32)
            else if bytes_eqb cls c32 then Some (Some Fi32) else None

(** val width_preset2 :
    bytes -> bytes -> bytes -> bytes -> iform option option **)

let width_preset2 cls generic c64 c32 =
  if bytes_eqb cls generic
  then Some None
  else if bytes_eqb cls c64
       then Some (Some Fi64)
       else if bytes_eqb cls c32 then Some (Some Fi32) else None

(** val req : 'a1 res option -> 'a1 res **)

let req = function
| Some r -> r
| None -> Err EValue

(** val fromjson_obj :
    (json -> form res) -> (bytes * json) list -> form res **)

let fromjson_obj rec0 m =
  match jfind k_class m with
  | Some j ->
    (match j with
     | JStr cls0 ->
       let cls = cstr cls0 in
       bind (get_meta m) (fun mt ->
         let content0 = req (jfind_map rec0 k_content m) in
         if bytes_eqb cls c_NumpyArray
         then bind
                (match jfind k_primitive m with
                 | Some j0 ->
                   (match j0 with
                    | JStr p ->
                      bind (from_primitive_name p) (fun tmp ->
                        match tmp with
                        | FNumpy (_, _, itemsize, format, _) ->
                          Ok (format, itemsize)
                        | _ -> Err EValue)
                    | _ ->
                      (match jfind k_format m with
                       | Some j1 ->
                         (match j1 with
                          | JStr fmt ->
                            (match jfind k_itemsize m with
                             | Some j2 ->
                               (match j2 with
                                | JInt n0 ->
                                  if is_int32 n0
                                  then Ok ((cstr fmt), n0)
                                  else Err EValue
                                | _ -> Err EValue)
                             | None -> Err EValue)
                          | _ -> Err EValue)
                       | None -> Err EValue))
                 | None ->
                   (match jfind k_format m with
                    | Some j0 ->
                      (match j0 with
                       | JStr fmt ->
                         (match jfind k_itemsize m with
                          | Some j1 ->
                            (match j1 with
                             | JInt n0 ->
                               if is_int32 n0
                               then Ok ((cstr fmt), n0)
                               else Err EValue
                             | _ -> Err EValue)
                          | None -> Err EValue)
                       | _ -> Err EValue)
                    | None -> Err EValue)) (fun fi ->
                let (format, itemsize) = fi in
                bind
                  (match jfind k_inner_shape m with
                   | Some j0 ->
                     (match j0 with
                      | JArr l ->
                        mapM (fun x ->
                          match x with
                          | JInt n0 ->
                            if is_int32 n0 then Ok n0 else Err EValue
                          | _ -> Err EValue) l
                      | _ -> Ok [])
                   | None -> Ok []) (fun s -> Ok (FNumpy (mt, s, itemsize,
                  format, (format_to_dtype format itemsize)))))
         else if bytes_eqb cls c_RecordArray
              then req
                     (jfind_map (fun v ->
                       match v with
                       | JArr l ->
                         bind (mapM_id (map rec0 l)) (fun cs -> Ok (FRecord
                           (mt, None, cs)))
                       | JObj fs ->
                         bind (mapM_id (map (fun kv -> rec0 (snd kv)) fs))
                           (fun cs -> Ok (FRecord (mt, (Some
                           (map (fun kv -> cstr (fst kv)) fs)), cs)))
                       | _ -> Err EValue) k_contents m)
              else (match width_preset cls c_ListOffsetArray
                            c_ListOffsetArray64 c_ListOffsetArrayU32
                            c_ListOffsetArray32 with
                    | Some pre ->
                      bind (get_iform pre k_offsets m) (fun o ->
                        bind content0 (fun c -> Ok (FListOffset (mt, o, c))))
                    | None ->
                      (match width_preset cls c_ListArray c_ListArray64
                               c_ListArrayU32 c_ListArray32 with
                       | Some pre ->
                         bind (get_iform pre k_starts m) (fun s ->
                           bind (get_iform pre k_stops m) (fun e ->
                             bind content0 (fun c -> Ok (FList (mt, s, e, c)))))
                       | None ->
                         if bytes_eqb cls c_RegularArray
                         then bind content0 (fun c ->
                                match jfind k_size m with
                                | Some j0 ->
                                  (match j0 with
                                   | JInt n0 ->
                                     if is_int32 n0
                                     then Ok (FRegular (mt, c, n0))
                                     else Err EValue
                                   | _ -> Err EValue)
                                | None -> Err EValue)
                         else (match width_preset2 cls c_IndexedOptionArray
                                       c_IndexedOptionArray64
                                       c_IndexedOptionArray32 with
                               | Some pre ->
                                 bind (get_iform pre k_index m) (fun i ->
                                   bind content0 (fun c -> Ok (FIndexedOption
                                     (mt, i, c))))
                               | None ->
                                 (match width_preset cls c_IndexedArray
                                          c_IndexedArray64 c_IndexedArrayU32
                                          c_IndexedArray32 with
                                  | Some pre ->
                                    bind (get_iform pre k_index m) (fun i ->
                                      bind content0 (fun c -> Ok (FIndexed
                                        (mt, i, c))))
                                  | None ->
                                    if bytes_eqb cls c_ByteMaskedArray
                                    then bind (get_iform None k_mask m)
                                           (fun k ->
                                           bind content0 (fun c ->
                                             bind (get_bool k_valid_when m)
                                               (fun vw -> Ok (FByteMasked
                                               (mt, k, c, vw)))))
                                    else if bytes_eqb cls c_BitMaskedArray
                                         then bind (get_iform None k_mask m)
                                                (fun k ->
                                                bind content0 (fun c ->
                                                  bind
                                                    (get_bool k_valid_when m)
                                                    (fun vw ->
                                                    bind
                                                      (get_bool k_lsb_order m)
                                                      (fun lsb -> Ok
                                                      (FBitMasked (mt, k, c,
                                                      vw, lsb))))))
                                         else if bytes_eqb cls c_UnmaskedArray
                                              then bind content0 (fun c -> Ok
                                                     (FUnmasked (mt, c)))
                                              else (match width_preset cls
                                                            c_UnionArray
                                                            c_UnionArray8_64
                                                            c_UnionArray8_U32
                                                            c_UnionArray8_32 with
                                                    | Some pre ->
                                                      bind
                                                        (get_iform
                                                          (match pre with
                                                           | Some _ ->
                                                             Some Fi8
                                                           | None -> None)
                                                          k_tags m) (fun t ->
                                                        bind
                                                          (get_iform pre
                                                            k_index m)
                                                          (fun i ->
                                                          req
                                                            (jfind_map
                                                              (fun v ->
                                                              match v with
                                                              | JArr l ->
                                                                bind
                                                                  (mapM_id
                                                                    (map rec0
                                                                    l))
                                                                  (fun cs ->
                                                                  Ok (FUnion
                                                                  (mt, t, i,
                                                                  cs)))
                                                              | _ ->
                                                                Err EValue)
                                                              k_contents m)))
                                                    | None ->
                                                      if bytes_eqb cls
                                                           c_EmptyArray
                                                      then Ok (FEmpty mt)
                                                      else if bytes_eqb cls
                                                                c_VirtualArray
                                                           then bind
                                                                  (req
                                                                    (jfind_map
                                                                    (fun v ->
                                                                    match v with
                                                                    | JNull ->
                                                                    Ok None
                                                                    | _ ->
                                                                    bind
                                                                    (rec0 v)
                                                                    (fun g ->
                                                                    Ok (Some
                                                                    g)))
                                                                    k_form m))
                                                                  (fun g ->
                                                                  bind
                                                                    (get_bool
                                                                    k_has_length
                                                                    m)
                                                                    (fun hl ->
                                                                    Ok
                                                                    (FVirtual
                                                                    (mt, g,
                                                                    hl))))
                                                           else Err EValue))))))
     | _ -> Err EValue)
  | None -> Err EValue

(** val form_fromjson : json -> form res **)

let rec form_fromjson = function
| JStr s -> from_primitive_name s
| JObj m -> fromjson_obj form_fromjson m
| _ -> Err EValue

type rty =
| RNum of params * bytes * fdtype
| RUnk of params * bytes
| RList of params * bytes * rty
| RReg of params * bytes * z * rty
| ROpt of params * bytes * rty
| RRec of params * bytes * bytes list option * rty list
| RUnion of params * bytes * rty list

(** val rty_params : rty -> params **)

let rty_params = function
| RNum (p, _, _) -> p
| RUnk (p, _) -> p
| RList (p, _, _) -> p
| RReg (p, _, _, _) -> p
| ROpt (p, _, _) -> p
| RRec (p, _, _, _) -> p
| RUnion (p, _, _) -> p

(** val rty_set_params : params -> rty -> rty **)

let rty_set_params p = function
| RNum (_, s, d) -> RNum (p, s, d)
| RUnk (_, s) -> RUnk (p, s)
| RList (_, s, t') -> RList (p, s, t')
| RReg (_, s, n0, t') -> RReg (p, s, n0, t')
| ROpt (_, s, t') -> ROpt (p, s, t')
| RRec (_, s, k, l) -> RRec (p, s, k, l)
| RUnion (_, s, l) -> RUnion (p, s, l)

type typestrs = (bytes * bytes) list

(** val gettypestr : params -> typestrs -> bytes **)

let gettypestr p ts =
  let look = fun key ->
    match pfind key p with
    | Some j ->
      (match j with
       | JNull -> None
       | JBool _ -> None
       | JInt _ -> None
       | JDbl _ -> None
       | JStr name0 -> pfind (cstr name0) ts
       | _ -> None)
    | None -> None
  in
  (match look k_record with
   | Some s -> s
   | None -> (match look k_array with
              | Some s -> s
              | None -> []))

(** val setparameter : bytes -> json -> params -> params **)

let setparameter k v p =
  match v with
  | JNull -> perase k p
  | _ -> pset k v p

(** val categorical_fix : params -> params -> bool -> params **)

let categorical_fix formp p erase_array =
  if param_is_str formp k_array s_categorical
  then pset k_categorical (JBool true)
         (if erase_array then perase k_array p else p)
  else p

(** val type_of_form : typestrs -> form -> rty res **)

let rec type_of_form ts = function
| FNumpy (m, inner, _, _, dt) ->
  (match dt with
   | FNotPrimitive -> Err EValue
   | _ ->
     let s = gettypestr m.m_params ts in
     Ok
     (fold_right (fun d t -> RReg ([], s, d, t)) (RNum (m.m_params, s, dt))
       inner))
| FEmpty m -> Ok (RUnk (m.m_params, (gettypestr m.m_params ts)))
| FListOffset (m, _, c) ->
  bind (type_of_form ts c) (fun t -> Ok (RList (m.m_params,
    (gettypestr m.m_params ts), t)))
| FList (m, _, _, c) ->
  bind (type_of_form ts c) (fun t -> Ok (RList (m.m_params,
    (gettypestr m.m_params ts), t)))
| FRegular (m, c, size) ->
  bind (type_of_form ts c) (fun t -> Ok (RReg (m.m_params,
    (gettypestr m.m_params ts), size, t)))
| FIndexed (m, _, c) ->
  bind (type_of_form ts c) (fun out ->
    let mine = m.m_params in
    (match rty_params out with
     | [] ->
       (match mine with
        | [] -> Ok out
        | _ :: _ -> Ok (rty_set_params (categorical_fix mine mine true) out))
     | p :: l ->
       (match mine with
        | [] -> Ok out
        | _ :: _ ->
          let merged =
            fold_left (fun acc kv ->
              if bytes_eqb (fst kv) k_array
              then acc
              else setparameter (fst kv) (snd kv) acc) mine (p :: l)
          in
          Ok (rty_set_params (categorical_fix mine merged false) out))))
| FIndexedOption (m, _, c) ->
  bind (type_of_form ts c) (fun t ->
    let p = m.m_params in
    Ok (ROpt ((categorical_fix p p true), (gettypestr p ts), t)))
| FByteMasked (m, _, c, _) ->
  bind (type_of_form ts c) (fun t -> Ok (ROpt (m.m_params,
    (gettypestr m.m_params ts), t)))
| FBitMasked (m, _, c, _, _) ->
  bind (type_of_form ts c) (fun t -> Ok (ROpt (m.m_params,
    (gettypestr m.m_params ts), t)))
| FUnmasked (m, c) ->
  bind (type_of_form ts c) (fun t -> Ok (ROpt (m.m_params,
    (gettypestr m.m_params ts), t)))
| FUnion (m, _, _, cs) ->
  bind (mapM_id (map (type_of_form ts) cs)) (fun l -> Ok (RUnion (m.m_params,
    (gettypestr m.m_params ts), l)))
| FRecord (m, ks, cs) ->
  bind (mapM_id (map (type_of_form ts) cs)) (fun l -> Ok (RRec (m.m_params,
    (gettypestr m.m_params ts), ks, l)))
| FVirtual (_, f0, _) ->
  (match f0 with
   | Some g -> type_of_form ts g
   | None -> Err EValue)

(** val strflag_params : params -> bool option **)

let strflag_params p =
  if param_is_str p k_array s_string
  then Some true
  else if param_is_str p k_array s_bytestring then Some false else None

(** val erase : rty -> ty **)

let rec erase = function
| RNum (_, _, dt) -> (match dt with
                      | FD d -> TNum d
                      | _ -> TUnk)
| RUnk (_, _) -> TUnk
| RList (p, _, t') -> TList (None, (strflag_params p), (erase t'))
| RReg (p, _, n0, t') -> TList ((Some n0), (strflag_params p), (erase t'))
| ROpt (_, _, t') -> TOpt (erase t')
| RRec (_, _, ks, l) -> TRec (ks, (map erase l))
| RUnion (_, _, l) -> TUnion (map erase l)

(** val p_parameters_eq : z list **)

let p_parameters_eq =
  (Zpos (XO (XO (XO (XO (XI (XI XH))))))) :: ((Zpos (XI (XO (XO (XO (XO (XI
    XH))))))) :: ((Zpos (XO (XI (XO (XO (XI (XI XH))))))) :: ((Zpos (XI (XO
    (XO (XO (XO (XI XH))))))) :: ((Zpos (XI (XO (XI (XI (XO (XI
    XH))))))) :: ((Zpos (XI (XO (XI (XO (XO (XI XH))))))) :: ((Zpos (XO (XO
    (XI (XO (XI (XI XH))))))) :: ((Zpos (XI (XO (XI (XO (XO (XI
    XH))))))) :: ((Zpos (XO (XI (XO (XO (XI (XI XH))))))) :: ((Zpos (XI (XI
    (XO (XO (XI (XI XH))))))) :: ((Zpos (XI (XO (XI (XI (XI
    XH)))))) :: ((Zpos (XI (XI (XO (XI (XI (XI XH))))))) :: [])))))))))))

(** val p_categorical_open : z list **)

let p_categorical_open =
  (Zpos (XI (XI (XO (XO (XO (XI XH))))))) :: ((Zpos (XI (XO (XO (XO (XO (XI
    XH))))))) :: ((Zpos (XO (XO (XI (XO (XI (XI XH))))))) :: ((Zpos (XI (XO
    (XI (XO (XO (XI XH))))))) :: ((Zpos (XI (XI (XI (XO (XO (XI
    XH))))))) :: ((Zpos (XI (XI (XI (XI (XO (XI XH))))))) :: ((Zpos (XO (XI
    (XO (XO (XI (XI XH))))))) :: ((Zpos (XI (XO (XO (XI (XO (XI
    XH))))))) :: ((Zpos (XI (XI (XO (XO (XO (XI XH))))))) :: ((Zpos (XI (XO
    (XO (XO (XO (XI XH))))))) :: ((Zpos (XO (XO (XI (XI (XO (XI
    XH))))))) :: ((Zpos (XI (XI (XO (XI (XI (XO XH))))))) :: ((Zpos (XO (XO
    (XI (XO (XI (XI XH))))))) :: ((Zpos (XI (XO (XO (XI (XI (XI
    XH))))))) :: ((Zpos (XO (XO (XO (XO (XI (XI XH))))))) :: ((Zpos (XI (XO
    (XI (XO (XO (XI XH))))))) :: ((Zpos (XI (XO (XI (XI (XI
    XH)))))) :: []))))))))))))))))

(** val p_var_star : z list **)

let p_var_star =
  (Zpos (XO (XI (XI (XO (XI (XI XH))))))) :: ((Zpos (XI (XO (XO (XO (XO (XI
    XH))))))) :: ((Zpos (XO (XI (XO (XO (XI (XI XH))))))) :: ((Zpos (XO (XO
    (XO (XO (XO XH)))))) :: ((Zpos (XO (XI (XO (XI (XO XH)))))) :: ((Zpos (XO
    (XO (XO (XO (XO XH)))))) :: [])))))

(** val p_lvar_star : z list **)

let p_lvar_star =
  (Zpos (XI (XI (XO (XI (XI (XO XH))))))) :: ((Zpos (XO (XI (XI (XO (XI (XI
    XH))))))) :: ((Zpos (XI (XO (XO (XO (XO (XI XH))))))) :: ((Zpos (XO (XI
    (XO (XO (XI (XI XH))))))) :: ((Zpos (XO (XO (XO (XO (XO
    XH)))))) :: ((Zpos (XO (XI (XO (XI (XO XH)))))) :: ((Zpos (XO (XO (XO (XO
    (XO XH)))))) :: []))))))

(** val p_star : z list **)

let p_star =
  (Zpos (XO (XO (XO (XO (XO XH)))))) :: ((Zpos (XO (XI (XO (XI (XO
    XH)))))) :: ((Zpos (XO (XO (XO (XO (XO XH)))))) :: []))

(** val p_option_open : z list **)

let p_option_open =
  (Zpos (XI (XI (XI (XI (XO (XI XH))))))) :: ((Zpos (XO (XO (XO (XO (XI (XI
    XH))))))) :: ((Zpos (XO (XO (XI (XO (XI (XI XH))))))) :: ((Zpos (XI (XO
    (XO (XI (XO (XI XH))))))) :: ((Zpos (XI (XI (XI (XI (XO (XI
    XH))))))) :: ((Zpos (XO (XI (XI (XI (XO (XI XH))))))) :: ((Zpos (XI (XI
    (XO (XI (XI (XO XH))))))) :: []))))))

(** val p_union_open : z list **)

let p_union_open =
  (Zpos (XI (XO (XI (XO (XI (XI XH))))))) :: ((Zpos (XO (XI (XI (XI (XO (XI
    XH))))))) :: ((Zpos (XI (XO (XO (XI (XO (XI XH))))))) :: ((Zpos (XI (XI
    (XI (XI (XO (XI XH))))))) :: ((Zpos (XO (XI (XI (XI (XO (XI
    XH))))))) :: ((Zpos (XI (XI (XO (XI (XI (XO XH))))))) :: [])))))

(** val p_struct_open : z list **)

let p_struct_open =
  (Zpos (XI (XI (XO (XO (XI (XI XH))))))) :: ((Zpos (XO (XO (XI (XO (XI (XI
    XH))))))) :: ((Zpos (XO (XI (XO (XO (XI (XI XH))))))) :: ((Zpos (XI (XO
    (XI (XO (XI (XI XH))))))) :: ((Zpos (XI (XI (XO (XO (XO (XI
    XH))))))) :: ((Zpos (XO (XO (XI (XO (XI (XI XH))))))) :: ((Zpos (XI (XI
    (XO (XI (XI (XO XH))))))) :: ((Zpos (XI (XI (XO (XI (XI (XO
    XH))))))) :: [])))))))

(** val p_tuple_open : z list **)

let p_tuple_open =
  (Zpos (XO (XO (XI (XO (XI (XI XH))))))) :: ((Zpos (XI (XO (XI (XO (XI (XI
    XH))))))) :: ((Zpos (XO (XO (XO (XO (XI (XI XH))))))) :: ((Zpos (XO (XO
    (XI (XI (XO (XI XH))))))) :: ((Zpos (XI (XO (XI (XO (XO (XI
    XH))))))) :: ((Zpos (XI (XI (XO (XI (XI (XO XH))))))) :: ((Zpos (XI (XI
    (XO (XI (XI (XO XH))))))) :: []))))))

(** val p_comma : z list **)

let p_comma =
  (Zpos (XO (XO (XI (XI (XO XH)))))) :: ((Zpos (XO (XO (XO (XO (XO
    XH)))))) :: [])

(** val p_colon : z list **)

let p_colon =
  (Zpos (XO (XI (XO (XI (XI XH)))))) :: ((Zpos (XO (XO (XO (XO (XO
    XH)))))) :: [])

(** val p_mid : z list **)

let p_mid =
  (Zpos (XI (XO (XI (XI (XI (XO XH))))))) :: ((Zpos (XO (XO (XI (XI (XO
    XH)))))) :: ((Zpos (XO (XO (XO (XO (XO XH)))))) :: ((Zpos (XI (XI (XO (XI
    (XI (XO XH))))))) :: [])))

(** val p_close_comma : z list **)

let p_close_comma =
  (Zpos (XI (XO (XI (XI (XI (XO XH))))))) :: ((Zpos (XO (XO (XI (XI (XO
    XH)))))) :: ((Zpos (XO (XO (XO (XO (XO XH)))))) :: []))

(** val is_categorical : params -> bool **)

let is_categorical p =
  match pfind k_categorical p with
  | Some j -> (match j with
               | JBool b -> b
               | _ -> false)
  | None -> false

(** val parameters_empty : params -> bool **)

let parameters_empty p = match p with
| [] -> true
| _ :: l -> (match l with
             | [] -> is_categorical p
             | _ :: _ -> false)

(** val wrap_categorical : params -> bytes -> bytes **)

let wrap_categorical p out =
  if is_categorical p
  then app p_categorical_open
         (app out ((Zpos (XI (XO (XI (XI (XI (XO XH))))))) :: []))
  else out

(** val string_parameters : params -> bytes **)

let string_parameters p =
  app p_parameters_eq
    (app
      (sep_concat p_comma
        (map (fun kv ->
          app (quote (fst kv)) (app p_colon (json_print (snd kv))))
          (filter (fun kv -> negb (bytes_eqb (fst kv) k_categorical)) p)))
      ((Zpos (XI (XO (XI (XI (XI (XI XH))))))) :: []))

(** val is_alpha_ : z -> bool **)

let is_alpha_ c =
  (||)
    ((||)
      ((&&) (Z.leb (Zpos (XI (XO (XO (XO (XO (XI XH))))))) c)
        (Z.leb c (Zpos (XO (XI (XO (XI (XI (XI XH)))))))))
      ((&&) (Z.leb (Zpos (XI (XO (XO (XO (XO (XO XH))))))) c)
        (Z.leb c (Zpos (XO (XI (XO (XI (XI (XO XH))))))))))
    (Z.eqb c (Zpos (XI (XI (XI (XI (XI (XO XH))))))))

(** val is_alnum_ : z -> bool **)

let is_alnum_ c =
  (||) (is_alpha_ c)
    ((&&) (Z.leb (Zpos (XO (XO (XO (XO (XI XH)))))) c)
      (Z.leb c (Zpos (XI (XO (XO (XI (XI XH))))))))

(** val is_name : bytes -> bool **)

let is_name = function
| [] -> false
| c :: r -> (&&) (is_alpha_ c) (forallb is_alnum_ r)

(** val datashape_keywords : bytes list **)

let datashape_keywords =
  ((Zpos (XO (XI (XI (XO (XI (XI XH))))))) :: ((Zpos (XI (XO (XO (XO (XO (XI
    XH))))))) :: ((Zpos (XO (XI (XO (XO (XI (XI XH))))))) :: []))) :: (((Zpos
    (XI (XI (XI (XI (XO (XI XH))))))) :: ((Zpos (XO (XO (XO (XO (XI (XI
    XH))))))) :: ((Zpos (XO (XO (XI (XO (XI (XI XH))))))) :: ((Zpos (XI (XO
    (XO (XI (XO (XI XH))))))) :: ((Zpos (XI (XI (XI (XI (XO (XI
    XH))))))) :: ((Zpos (XO (XI (XI (XI (XO (XI
    XH))))))) :: [])))))) :: (((Zpos (XO (XI (XO (XO (XO (XI
    XH))))))) :: ((Zpos (XI (XI (XI (XI (XO (XI XH))))))) :: ((Zpos (XI (XI
    (XI (XI (XO (XI XH))))))) :: ((Zpos (XO (XO (XI (XI (XO (XI
    XH))))))) :: [])))) :: (((Zpos (XI (XO (XO (XI (XO (XI
    XH))))))) :: ((Zpos (XO (XI (XI (XI (XO (XI XH))))))) :: ((Zpos (XO (XO
    (XI (XO (XI (XI XH))))))) :: ((Zpos (XO (XO (XO (XI (XI
    XH)))))) :: [])))) :: (((Zpos (XI (XO (XO (XI (XO (XI XH))))))) :: ((Zpos
    (XO (XI (XI (XI (XO (XI XH))))))) :: ((Zpos (XO (XO (XI (XO (XI (XI
    XH))))))) :: ((Zpos (XI (XO (XO (XO (XI XH)))))) :: ((Zpos (XO (XI (XI
    (XO (XI XH)))))) :: []))))) :: (((Zpos (XI (XO (XO (XI (XO (XI
    XH))))))) :: ((Zpos (XO (XI (XI (XI (XO (XI XH))))))) :: ((Zpos (XO (XO
    (XI (XO (XI (XI XH))))))) :: ((Zpos (XI (XI (XO (XO (XI
    XH)))))) :: ((Zpos (XO (XI (XO (XO (XI XH)))))) :: []))))) :: (((Zpos (XI
    (XO (XO (XI (XO (XI XH))))))) :: ((Zpos (XO (XI (XI (XI (XO (XI
    XH))))))) :: ((Zpos (XO (XO (XI (XO (XI (XI XH))))))) :: ((Zpos (XO (XI
    (XI (XO (XI XH)))))) :: ((Zpos (XO (XO (XI (XO (XI
    XH)))))) :: []))))) :: (((Zpos (XI (XO (XO (XI (XO (XI
    XH))))))) :: ((Zpos (XO (XI (XI (XI (XO (XI XH))))))) :: ((Zpos (XO (XO
    (XI (XO (XI (XI XH))))))) :: ((Zpos (XI (XO (XO (XO (XI
    XH)))))) :: ((Zpos (XO (XI (XO (XO (XI XH)))))) :: ((Zpos (XO (XO (XO (XI
    (XI XH)))))) :: [])))))) :: (((Zpos (XI (XO (XI (XO (XI (XI
    XH))))))) :: ((Zpos (XI (XO (XO (XI (XO (XI XH))))))) :: ((Zpos (XO (XI
    (XI (XI (XO (XI XH))))))) :: ((Zpos (XO (XO (XI (XO (XI (XI
    XH))))))) :: ((Zpos (XO (XO (XO (XI (XI XH)))))) :: []))))) :: (((Zpos
    (XI (XO (XI (XO (XI (XI XH))))))) :: ((Zpos (XI (XO (XO (XI (XO (XI
    XH))))))) :: ((Zpos (XO (XI (XI (XI (XO (XI XH))))))) :: ((Zpos (XO (XO
    (XI (XO (XI (XI XH))))))) :: ((Zpos (XI (XO (XO (XO (XI
    XH)))))) :: ((Zpos (XO (XI (XI (XO (XI XH)))))) :: [])))))) :: (((Zpos
    (XI (XO (XI (XO (XI (XI XH))))))) :: ((Zpos (XI (XO (XO (XI (XO (XI
    XH))))))) :: ((Zpos (XO (XI (XI (XI (XO (XI XH))))))) :: ((Zpos (XO (XO
    (XI (XO (XI (XI XH))))))) :: ((Zpos (XI (XI (XO (XO (XI
    XH)))))) :: ((Zpos (XO (XI (XO (XO (XI XH)))))) :: [])))))) :: (((Zpos
    (XI (XO (XI (XO (XI (XI XH))))))) :: ((Zpos (XI (XO (XO (XI (XO (XI
    XH))))))) :: ((Zpos (XO (XI (XI (XI (XO (XI XH))))))) :: ((Zpos (XO (XO
    (XI (XO (XI (XI XH))))))) :: ((Zpos (XO (XI (XI (XO (XI
    XH)))))) :: ((Zpos (XO (XO (XI (XO (XI XH)))))) :: [])))))) :: (((Zpos
    (XI (XO (XI (XO (XI (XI XH))))))) :: ((Zpos (XI (XO (XO (XI (XO (XI
    XH))))))) :: ((Zpos (XO (XI (XI (XI (XO (XI XH))))))) :: ((Zpos (XO (XO
    (XI (XO (XI (XI XH))))))) :: ((Zpos (XI (XO (XO (XO (XI
    XH)))))) :: ((Zpos (XO (XI (XO (XO (XI XH)))))) :: ((Zpos (XO (XO (XO (XI
    (XI XH)))))) :: []))))))) :: (((Zpos (XO (XI (XI (XO (XO (XI
    XH))))))) :: ((Zpos (XO (XO (XI (XI (XO (XI XH))))))) :: ((Zpos (XI (XI
    (XI (XI (XO (XI XH))))))) :: ((Zpos (XI (XO (XO (XO (XO (XI
    XH))))))) :: ((Zpos (XO (XO (XI (XO (XI (XI XH))))))) :: ((Zpos (XI (XO
    (XO (XO (XI XH)))))) :: ((Zpos (XO (XI (XI (XO (XI
    XH)))))) :: []))))))) :: (((Zpos (XO (XI (XI (XO (XO (XI
    XH))))))) :: ((Zpos (XO (XO (XI (XI (XO (XI XH))))))) :: ((Zpos (XI (XI
    (XI (XI (XO (XI XH))))))) :: ((Zpos (XI (XO (XO (XO (XO (XI
    XH))))))) :: ((Zpos (XO (XO (XI (XO (XI (XI XH))))))) :: ((Zpos (XI (XI
    (XO (XO (XI XH)))))) :: ((Zpos (XO (XI (XO (XO (XI
    XH)))))) :: []))))))) :: (((Zpos (XO (XI (XI (XO (XO (XI
    XH))))))) :: ((Zpos (XO (XO (XI (XI (XO (XI XH))))))) :: ((Zpos (XI (XI
    (XI (XI (XO (XI XH))))))) :: ((Zpos (XI (XO (XO (XO (XO (XI
    XH))))))) :: ((Zpos (XO (XO (XI (XO (XI (XI XH))))))) :: ((Zpos (XO (XI
    (XI (XO (XI XH)))))) :: ((Zpos (XO (XO (XI (XO (XI
    XH)))))) :: []))))))) :: (((Zpos (XO (XI (XI (XO (XO (XI
    XH))))))) :: ((Zpos (XO (XO (XI (XI (XO (XI XH))))))) :: ((Zpos (XI (XI
    (XI (XI (XO (XI XH))))))) :: ((Zpos (XI (XO (XO (XO (XO (XI
    XH))))))) :: ((Zpos (XO (XO (XI (XO (XI (XI XH))))))) :: ((Zpos (XI (XO
    (XO (XO (XI XH)))))) :: ((Zpos (XO (XI (XO (XO (XI XH)))))) :: ((Zpos (XO
    (XO (XO (XI (XI XH)))))) :: [])))))))) :: (((Zpos (XO (XO (XI (XO (XO (XI
    XH))))))) :: ((Zpos (XI (XO (XI (XO (XO (XI XH))))))) :: ((Zpos (XI (XI
    (XO (XO (XO (XI XH))))))) :: ((Zpos (XI (XO (XO (XI (XO (XI
    XH))))))) :: ((Zpos (XI (XO (XI (XI (XO (XI XH))))))) :: ((Zpos (XI (XO
    (XO (XO (XO (XI XH))))))) :: ((Zpos (XO (XO (XI (XI (XO (XI
    XH))))))) :: ((Zpos (XI (XI (XO (XO (XI XH)))))) :: ((Zpos (XO (XI (XO
    (XO (XI XH)))))) :: []))))))))) :: (((Zpos (XO (XO (XI (XO (XO (XI
    XH))))))) :: ((Zpos (XI (XO (XI (XO (XO (XI XH))))))) :: ((Zpos (XI (XI
    (XO (XO (XO (XI XH))))))) :: ((Zpos (XI (XO (XO (XI (XO (XI
    XH))))))) :: ((Zpos (XI (XO (XI (XI (XO (XI XH))))))) :: ((Zpos (XI (XO
    (XO (XO (XO (XI XH))))))) :: ((Zpos (XO (XO (XI (XI (XO (XI
    XH))))))) :: ((Zpos (XO (XI (XI (XO (XI XH)))))) :: ((Zpos (XO (XO (XI
    (XO (XI XH)))))) :: []))))))))) :: (((Zpos (XO (XO (XI (XO (XO (XI
    XH))))))) :: ((Zpos (XI (XO (XI (XO (XO (XI XH))))))) :: ((Zpos (XI (XI
    (XO (XO (XO (XI XH))))))) :: ((Zpos (XI (XO (XO (XI (XO (XI
    XH))))))) :: ((Zpos (XI (XO (XI (XI (XO (XI XH))))))) :: ((Zpos (XI (XO
    (XO (XO (XO (XI XH))))))) :: ((Zpos (XO (XO (XI (XI (XO (XI
    XH))))))) :: ((Zpos (XI (XO (XO (XO (XI XH)))))) :: ((Zpos (XO (XI (XO
    (XO (XI XH)))))) :: ((Zpos (XO (XO (XO (XI (XI
    XH)))))) :: [])))))))))) :: (((Zpos (XO (XI (XO (XO (XO (XI
    XH))))))) :: ((Zpos (XI (XO (XO (XI (XO (XI XH))))))) :: ((Zpos (XI (XI
    (XI (XO (XO (XI XH))))))) :: ((Zpos (XO (XI (XI (XI (XO (XI
    XH))))))) :: ((Zpos (XI (XO (XI (XO (XI (XI XH))))))) :: ((Zpos (XI (XO
    (XI (XI (XO (XI XH))))))) :: [])))))) :: (((Zpos (XI (XO (XO (XI (XO (XI
    XH))))))) :: ((Zpos (XO (XI (XI (XI (XO (XI XH))))))) :: ((Zpos (XO (XO
    (XI (XO (XI (XI XH))))))) :: []))) :: (((Zpos (XO (XI (XO (XO (XI (XI
    XH))))))) :: ((Zpos (XI (XO (XI (XO (XO (XI XH))))))) :: ((Zpos (XI (XO
    (XO (XO (XO (XI XH))))))) :: ((Zpos (XO (XO (XI (XI (XO (XI
    XH))))))) :: [])))) :: (((Zpos (XI (XI (XO (XO (XO (XI
    XH))))))) :: ((Zpos (XI (XI (XI (XI (XO (XI XH))))))) :: ((Zpos (XI (XO
    (XI (XI (XO (XI XH))))))) :: ((Zpos (XO (XO (XO (XO (XI (XI
    XH))))))) :: ((Zpos (XO (XO (XI (XI (XO (XI XH))))))) :: ((Zpos (XI (XO
    (XI (XO (XO (XI XH))))))) :: ((Zpos (XO (XO (XO (XI (XI (XI
    XH))))))) :: []))))))) :: (((Zpos (XI (XO (XO (XI (XO (XI
    XH))))))) :: ((Zpos (XO (XI (XI (XI (XO (XI XH))))))) :: ((Zpos (XO (XO
    (XI (XO (XI (XI XH))))))) :: ((Zpos (XO (XO (XO (XO (XI (XI
    XH))))))) :: ((Zpos (XO (XO (XI (XO (XI (XI XH))))))) :: ((Zpos (XO (XI
    (XO (XO (XI (XI XH))))))) :: [])))))) :: (((Zpos (XI (XO (XI (XO (XI (XI
    XH))))))) :: ((Zpos (XI (XO (XO (XI (XO (XI XH))))))) :: ((Zpos (XO (XI
    (XI (XI (XO (XI XH))))))) :: ((Zpos (XO (XO (XI (XO (XI (XI
    XH))))))) :: ((Zpos (XO (XO (XO (XO (XI (XI XH))))))) :: ((Zpos (XO (XO
    (XI (XO (XI (XI XH))))))) :: ((Zpos (XO (XI (XO (XO (XI (XI
    XH))))))) :: []))))))) :: (((Zpos (XI (XI (XO (XO (XI (XI
    XH))))))) :: ((Zpos (XO (XO (XI (XO (XI (XI XH))))))) :: ((Zpos (XO (XI
    (XO (XO (XI (XI XH))))))) :: ((Zpos (XI (XO (XO (XI (XO (XI
    XH))))))) :: ((Zpos (XO (XI (XI (XI (XO (XI XH))))))) :: ((Zpos (XI (XI
    (XI (XO (XO (XI XH))))))) :: [])))))) :: (((Zpos (XI (XI (XO (XO (XO (XI
    XH))))))) :: ((Zpos (XO (XO (XO (XI (XO (XI XH))))))) :: ((Zpos (XI (XO
    (XO (XO (XO (XI XH))))))) :: ((Zpos (XO (XI (XO (XO (XI (XI
    XH))))))) :: [])))) :: (((Zpos (XO (XI (XO (XO (XO (XI
    XH))))))) :: ((Zpos (XI (XO (XO (XI (XI (XI XH))))))) :: ((Zpos (XO (XO
    (XI (XO (XI (XI XH))))))) :: ((Zpos (XI (XO (XI (XO (XO (XI
    XH))))))) :: ((Zpos (XI (XI (XO (XO (XI (XI
    XH))))))) :: []))))) :: (((Zpos (XO (XO (XI (XO (XO (XI
    XH))))))) :: ((Zpos (XI (XO (XO (XO (XO (XI XH))))))) :: ((Zpos (XO (XO
    (XI (XO (XI (XI XH))))))) :: ((Zpos (XI (XO (XI (XO (XO (XI
    XH))))))) :: [])))) :: (((Zpos (XO (XI (XO (XI (XO (XI
    XH))))))) :: ((Zpos (XI (XI (XO (XO (XI (XI XH))))))) :: ((Zpos (XI (XI
    (XI (XI (XO (XI XH))))))) :: ((Zpos (XO (XI (XI (XI (XO (XI
    XH))))))) :: [])))) :: (((Zpos (XO (XI (XI (XO (XI (XI
    XH))))))) :: ((Zpos (XI (XI (XI (XI (XO (XI XH))))))) :: ((Zpos (XI (XO
    (XO (XI (XO (XI XH))))))) :: ((Zpos (XO (XO (XI (XO (XO (XI
    XH))))))) :: [])))) :: (((Zpos (XO (XO (XI (XO (XO (XI
    XH))))))) :: ((Zpos (XI (XO (XO (XO (XO (XI XH))))))) :: ((Zpos (XO (XO
    (XI (XO (XI (XI XH))))))) :: ((Zpos (XI (XO (XI (XO (XO (XI
    XH))))))) :: ((Zpos (XO (XO (XI (XO (XI (XI XH))))))) :: ((Zpos (XI (XO
    (XO (XI (XO (XI XH))))))) :: ((Zpos (XI (XO (XI (XI (XO (XI
    XH))))))) :: ((Zpos (XI (XO (XI (XO (XO (XI
    XH))))))) :: [])))))))) :: (((Zpos (XI (XI (XO (XO (XO (XI
    XH))))))) :: ((Zpos (XI (XO (XO (XO (XO (XI XH))))))) :: ((Zpos (XO (XO
    (XI (XO (XI (XI XH))))))) :: ((Zpos (XI (XO (XI (XO (XO (XI
    XH))))))) :: ((Zpos (XI (XI (XI (XO (XO (XI XH))))))) :: ((Zpos (XI (XI
    (XI (XI (XO (XI XH))))))) :: ((Zpos (XO (XI (XO (XO (XI (XI
    XH))))))) :: ((Zpos (XI (XO (XO (XI (XO (XI XH))))))) :: ((Zpos (XI (XI
    (XO (XO (XO (XI XH))))))) :: ((Zpos (XI (XO (XO (XO (XO (XI
    XH))))))) :: ((Zpos (XO (XO (XI (XI (XO (XI
    XH))))))) :: []))))))))))) :: (((Zpos (XO (XO (XO (XO (XI (XI
    XH))))))) :: ((Zpos (XI (XI (XI (XI (XO (XI XH))))))) :: ((Zpos (XI (XO
    (XO (XI (XO (XI XH))))))) :: ((Zpos (XO (XI (XI (XI (XO (XI
    XH))))))) :: ((Zpos (XO (XO (XI (XO (XI (XI XH))))))) :: ((Zpos (XI (XO
    (XI (XO (XO (XI XH))))))) :: ((Zpos (XO (XI (XO (XO (XI (XI
    XH))))))) :: []))))))) :: []))))))))))))))))))))))))))))))))))

(** val record_name : params -> bytes option **)

let record_name = function
| [] -> None
| p0 :: l ->
  let (k, j) = p0 in
  (match j with
   | JStr s ->
     (match l with
      | [] ->
        if (&&) ((&&) (bytes_eqb k k_record) (is_name (cstr s)))
             (negb (existsb (bytes_eqb (cstr s)) datashape_keywords))
        then Some (cstr s)
        else None
      | _ :: _ -> None)
   | _ -> None)

(** val is_listlike : rty -> bool **)

let is_listlike = function
| RList (_, _, _) -> true
| RReg (_, _, _, _) -> true
| _ -> false

(** val keyed : bytes list -> bytes list -> bytes list **)

let rec keyed ks ts =
  match ks with
  | [] -> []
  | k :: ks' ->
    (match ts with
     | [] -> []
     | x :: ts' -> (app (quote k) (app p_colon x)) :: (keyed ks' ts'))

(** val type_tostring : rty -> bytes **)

let rec type_tostring t =
  let with_ts = fun p s body ->
    match s with
    | [] -> wrap_categorical p body
    | _ :: _ -> wrap_categorical p s
  in
  (match t with
   | RNum (p, s, dt) ->
     with_ts p s
       (if parameters_empty p
        then dtype_to_name dt
        else app (dtype_to_name dt)
               (app ((Zpos (XI (XI (XO (XI (XI (XO XH))))))) :: [])
                 (app (string_parameters p) ((Zpos (XI (XO (XI (XI (XI (XO
                   XH))))))) :: []))))
   | RUnk (p, s) ->
     with_ts p s
       (if parameters_empty p
        then n_unknown
        else app n_unknown
               (app ((Zpos (XI (XI (XO (XI (XI (XO XH))))))) :: [])
                 (app (string_parameters p) ((Zpos (XI (XO (XI (XI (XI (XO
                   XH))))))) :: []))))
   | RList (p, s, t') ->
     with_ts p s
       (if parameters_empty p
        then app p_var_star (type_tostring t')
        else app p_lvar_star
               (app (type_tostring t')
                 (app p_comma
                   (app (string_parameters p) ((Zpos (XI (XO (XI (XI (XI (XO
                     XH))))))) :: [])))))
   | RReg (p, s, n0, t') ->
     with_ts p s
       (if parameters_empty p
        then app (dec_of_Z n0) (app p_star (type_tostring t'))
        else app ((Zpos (XI (XI (XO (XI (XI (XO XH))))))) :: [])
               (app (dec_of_Z n0)
                 (app p_star
                   (app (type_tostring t')
                     (app p_comma
                       (app (string_parameters p) ((Zpos (XI (XO (XI (XI (XI
                         (XO XH))))))) :: [])))))))
   | ROpt (p, s, t') ->
     with_ts p s
       (if parameters_empty p
        then if is_listlike t'
             then app p_option_open
                    (app (type_tostring t') ((Zpos (XI (XO (XI (XI (XI (XO
                      XH))))))) :: []))
             else app ((Zpos (XI (XI (XI (XI (XI XH)))))) :: [])
                    (type_tostring t')
        else app p_option_open
               (app (type_tostring t')
                 (app p_comma
                   (app (string_parameters p) ((Zpos (XI (XO (XI (XI (XI (XO
                     XH))))))) :: [])))))
   | RRec (p, s, ks, l) ->
     let types = map type_tostring l in
     with_ts p s
       (match record_name p with
        | Some name0 ->
          app name0
            (app ((Zpos (XI (XI (XO (XI (XI (XO XH))))))) :: [])
              (app
                (sep_concat p_comma
                  (match ks with
                   | Some ks0 -> keyed ks0 types
                   | None -> types)) ((Zpos (XI (XO (XI (XI (XI (XO
                XH))))))) :: [])))
        | None ->
          if parameters_empty p
          then (match ks with
                | Some ks0 ->
                  app ((Zpos (XI (XI (XO (XI (XI (XI XH))))))) :: [])
                    (app (sep_concat p_comma (keyed ks0 types)) ((Zpos (XI
                      (XO (XI (XI (XI (XI XH))))))) :: []))
                | None ->
                  app ((Zpos (XO (XO (XO (XI (XO XH)))))) :: [])
                    (app (sep_concat p_comma types) ((Zpos (XI (XO (XO (XI
                      (XO XH)))))) :: [])))
          else (match ks with
                | Some ks0 ->
                  app p_struct_open
                    (app (sep_concat p_comma (map quote ks0))
                      (app p_mid
                        (app (sep_concat p_comma types)
                          (app p_close_comma
                            (app (string_parameters p) ((Zpos (XI (XO (XI (XI
                              (XI (XO XH))))))) :: []))))))
                | None ->
                  app p_tuple_open
                    (app (sep_concat p_comma types)
                      (app p_close_comma
                        (app (string_parameters p) ((Zpos (XI (XO (XI (XI (XI
                          (XO XH))))))) :: []))))))
   | RUnion (p, s, l) ->
     with_ts p s
       (app p_union_open
         (app (sep_concat p_comma (map type_tostring l))
           (app
             (if parameters_empty p
              then []
              else app p_comma (string_parameters p)) ((Zpos (XI (XO (XI (XI
             (XI (XO XH))))))) :: [])))))

type item =
| INone
| IScalar of fdtype
| IRecord of rty
| IArray of rty

(** val item_types : typestrs -> form -> item list res **)

let rec item_types ts f = match f with
| FNumpy (m, inner, itemsize, format, dt) ->
  (match inner with
   | [] -> Ok ((IScalar dt) :: [])
   | _ :: rest ->
     bind (type_of_form ts (FNumpy (m, rest, itemsize, format, dt)))
       (fun t -> Ok ((IArray t) :: [])))
| FEmpty _ -> Ok []
| FListOffset (_, _, c) ->
  bind (type_of_form ts c) (fun t -> Ok ((IArray t) :: []))
| FList (_, _, _, c) ->
  bind (type_of_form ts c) (fun t -> Ok ((IArray t) :: []))
| FRegular (_, c, _) ->
  bind (type_of_form ts c) (fun t -> Ok ((IArray t) :: []))
| FIndexed (_, _, c) -> item_types ts c
| FIndexedOption (_, _, c) ->
  bind (item_types ts c) (fun l -> Ok (INone :: l))
| FByteMasked (_, _, c, _) ->
  bind (item_types ts c) (fun l -> Ok (INone :: l))
| FBitMasked (_, _, c, _, _) ->
  bind (item_types ts c) (fun l -> Ok (INone :: l))
| FUnmasked (_, c) -> bind (item_types ts c) (fun l -> Ok (INone :: l))
| FUnion (_, _, _, cs) ->
  bind (mapM_id (map (item_types ts) cs)) (fun ll -> Ok (concat ll))
| FRecord (_, _, _) ->
  bind (type_of_form ts f) (fun t -> Ok ((IRecord t) :: []))
| FVirtual (_, f0, _) ->
  (match f0 with
   | Some g -> item_types ts g
   | None -> Err EValue)

(** val strip_prefix : bytes -> bytes -> bytes option **)

let rec strip_prefix p s =
  match p with
  | [] -> Some s
  | x :: p' ->
    (match s with
     | [] -> None
     | y :: s' -> if Z.eqb x y then strip_prefix p' s' else None)

(** val is_digit : z -> bool **)

let is_digit c =
  (&&) (Z.leb (Zpos (XO (XO (XO (XO (XI XH)))))) c)
    (Z.leb c (Zpos (XI (XO (XO (XI (XI XH)))))))

(** val span : (z -> bool) -> bytes -> bytes * bytes **)

let rec span f s = match s with
| [] -> ([], [])
| c :: r -> if f c then let (a, b) = span f r in ((c :: a), b) else ([], s)

(** val z_of_digits : bytes -> z **)

let z_of_digits ds =
  fold_left (fun acc d ->
    Z.add (Z.mul acc (Zpos (XO (XI (XO XH)))))
      (Z.sub d (Zpos (XO (XO (XO (XO (XI XH)))))))) ds Z0

(** val unhex : z -> z option **)

let unhex c =
  if is_digit c
  then Some (Z.sub c (Zpos (XO (XO (XO (XO (XI XH)))))))
  else if (&&) (Z.leb (Zpos (XI (XO (XO (XO (XO (XO XH))))))) c)
            (Z.leb c (Zpos (XO (XI (XI (XO (XO (XO XH))))))))
       then Some (Z.sub c (Zpos (XI (XI (XI (XO (XI XH)))))))
       else None

(** val unquote_body : nat -> bytes -> (bytes * bytes) res **)

let rec unquote_body fuel s =
  match fuel with
  | O -> Err EFuel
  | S fuel' ->
    (match s with
     | [] -> Err EValue
     | c :: r ->
       let cont = fun x r0 ->
         bind (unquote_body fuel' r0) (fun xr -> Ok ((x :: (fst xr)),
           (snd xr)))
       in
       if Z.eqb c (Zpos (XO (XI (XO (XO (XO XH))))))
       then Ok ([], r)
       else if Z.eqb c (Zpos (XO (XO (XI (XI (XI (XO XH)))))))
            then (match r with
                  | [] -> Err EValue
                  | e :: r1 ->
                    if Z.eqb e (Zpos (XO (XI (XO (XO (XO XH))))))
                    then cont (Zpos (XO (XI (XO (XO (XO XH)))))) r1
                    else if Z.eqb e (Zpos (XO (XO (XI (XI (XI (XO XH)))))))
                         then cont (Zpos (XO (XO (XI (XI (XI (XO XH))))))) r1
                         else if Z.eqb e (Zpos (XO (XI (XO (XO (XO (XI
                                   XH)))))))
                              then cont (Zpos (XO (XO (XO XH)))) r1
                              else if Z.eqb e (Zpos (XO (XI (XI (XO (XO (XI
                                        XH)))))))
                                   then cont (Zpos (XO (XO (XI XH)))) r1
                                   else if Z.eqb e (Zpos (XO (XI (XI (XI (XO
                                             (XI XH)))))))
                                        then cont (Zpos (XO (XI (XO XH)))) r1
                                        else if Z.eqb e (Zpos (XO (XI (XO (XO
                                                  (XI (XI XH)))))))
                                             then cont (Zpos (XI (XO (XI
                                                    XH)))) r1
                                             else if Z.eqb e (Zpos (XO (XO
                                                       (XI (XO (XI (XI
                                                       XH)))))))
                                                  then cont (Zpos (XI (XO (XO
                                                         XH)))) r1
                                                  else if Z.eqb e (Zpos (XI
                                                            (XO (XI (XO (XI
                                                            (XI XH)))))))
                                                       then (match r1 with
                                                             | [] ->
                                                               Err EValue
                                                             | z1 :: l0 ->
                                                               (match l0 with
                                                                | [] ->
                                                                  Err EValue
                                                                | z2 :: l1 ->
                                                                  (match l1 with
                                                                   | [] ->
                                                                    Err EValue
                                                                   | h :: l2 ->
                                                                    (match l2 with
                                                                    | [] ->
                                                                    Err EValue
                                                                    | l :: r2 ->
                                                                    if 
                                                                    (&&)
                                                                    (Z.eqb z1
                                                                    (Zpos (XO
                                                                    (XO (XO
                                                                    (XO (XI
                                                                    XH)))))))
                                                                    (Z.eqb z2
                                                                    (Zpos (XO
                                                                    (XO (XO
                                                                    (XO (XI
                                                                    XH)))))))
                                                                    then 
                                                                    (match 
                                                                    unhex h with
                                                                    | Some a ->
                                                                    (match 
                                                                    unhex l with
                                                                    | Some b ->
                                                                    if 
                                                                    Z.ltb
                                                                    (Z.add
                                                                    (Z.mul a
                                                                    (Zpos (XO
                                                                    (XO (XO
                                                                    (XO
                                                                    XH))))))
                                                                    b) (Zpos
                                                                    (XO (XO
                                                                    (XO (XO
                                                                    (XO
                                                                    XH))))))
                                                                    then 
                                                                    cont
                                                                    (Z.add
                                                                    (Z.mul a
                                                                    (Zpos (XO
                                                                    (XO (XO
                                                                    (XO
                                                                    XH))))))
                                                                    b) r2
                                                                    else 
                                                                    Err EValue
                                                                    | None ->
                                                                    Err EValue)
                                                                    | None ->
                                                                    Err EValue)
                                                                    else 
                                                                    Err EValue))))
                                                       else Err EValue)
            else if Z.ltb c (Zpos (XO (XO (XO (XO (XO XH))))))
                 then Err EValue
                 else cont c r)

(** val unquote : bytes -> (bytes * bytes) res **)

let unquote = function
| [] -> Err EValue
| c :: r ->
  if Z.eqb c (Zpos (XO (XI (XO (XO (XO XH))))))
  then unquote_body (S (length r)) r
  else Err EValue

(** val w_option : z list **)

let w_option =
  (Zpos (XI (XI (XI (XI (XO (XI XH))))))) :: ((Zpos (XO (XO (XO (XO (XI (XI
    XH))))))) :: ((Zpos (XO (XO (XI (XO (XI (XI XH))))))) :: ((Zpos (XI (XO
    (XO (XI (XO (XI XH))))))) :: ((Zpos (XI (XI (XI (XI (XO (XI
    XH))))))) :: ((Zpos (XO (XI (XI (XI (XO (XI XH))))))) :: [])))))

(** val w_union : z list **)

let w_union =
  (Zpos (XI (XO (XI (XO (XI (XI XH))))))) :: ((Zpos (XO (XI (XI (XI (XO (XI
    XH))))))) :: ((Zpos (XI (XO (XO (XI (XO (XI XH))))))) :: ((Zpos (XI (XI
    (XI (XI (XO (XI XH))))))) :: ((Zpos (XO (XI (XI (XI (XO (XI
    XH))))))) :: []))))

(** val w_var : z list **)

let w_var =
  (Zpos (XO (XI (XI (XO (XI (XI XH))))))) :: ((Zpos (XI (XO (XO (XO (XO (XI
    XH))))))) :: ((Zpos (XO (XI (XO (XO (XI (XI XH))))))) :: []))

(** val p_string : z list **)

let p_string =
  (Zpos (XI (XI (XO (XO (XI (XI XH))))))) :: ((Zpos (XO (XO (XI (XO (XI (XI
    XH))))))) :: ((Zpos (XO (XI (XO (XO (XI (XI XH))))))) :: ((Zpos (XI (XO
    (XO (XI (XO (XI XH))))))) :: ((Zpos (XO (XI (XI (XI (XO (XI
    XH))))))) :: ((Zpos (XI (XI (XI (XO (XO (XI XH))))))) :: [])))))

(** val p_bytes : z list **)

let p_bytes =
  (Zpos (XO (XI (XO (XO (XO (XI XH))))))) :: ((Zpos (XI (XO (XO (XI (XI (XI
    XH))))))) :: ((Zpos (XO (XO (XI (XO (XI (XI XH))))))) :: ((Zpos (XI (XO
    (XI (XO (XO (XI XH))))))) :: ((Zpos (XI (XI (XO (XO (XI (XI
    XH))))))) :: []))))

(** val p_char : z list **)

let p_char =
  (Zpos (XI (XI (XO (XO (XO (XI XH))))))) :: ((Zpos (XO (XO (XO (XI (XO (XI
    XH))))))) :: ((Zpos (XI (XO (XO (XO (XO (XI XH))))))) :: ((Zpos (XO (XI
    (XO (XO (XI (XI XH))))))) :: [])))

(** val p_byte : z list **)

let p_byte =
  (Zpos (XO (XI (XO (XO (XO (XI XH))))))) :: ((Zpos (XI (XO (XO (XI (XI (XI
    XH))))))) :: ((Zpos (XO (XO (XI (XO (XI (XI XH))))))) :: ((Zpos (XI (XO
    (XI (XO (XO (XI XH))))))) :: [])))

(** val t_char : rty **)

let t_char =
  RNum (((k_array, (JStr s_char)) :: []), p_char, (FD DUInt8))

(** val t_byte : rty **)

let t_byte =
  RNum (((k_array, (JStr s_byte)) :: []), p_byte, (FD DUInt8))

(** val t_string : rty **)

let t_string =
  RList (((k_array, (JStr s_string)) :: []), p_string, t_char)

(** val t_bytes : rty **)

let t_bytes =
  RList (((k_array, (JStr s_bytestring)) :: []), p_bytes, t_byte)

(** val primitive_names : fdtype list **)

let primitive_names =
  (FD DBool) :: ((FD DInt8) :: ((FD DInt16) :: ((FD DInt32) :: ((FD
    DInt64) :: ((FD DUInt8) :: ((FD DUInt16) :: ((FD DUInt32) :: ((FD
    DUInt64) :: (FFloat16 :: ((FD DFloat32) :: ((FD
    DFloat64) :: (FFloat128 :: (FComplex64 :: (FComplex128 :: (FComplex256 :: (FDatetime64 :: (FTimedelta64 :: [])))))))))))))))))

(** val prim_of_name : bytes -> fdtype option **)

let prim_of_name s =
  find (fun d -> bytes_eqb (dtype_to_name d) s) primitive_names

(** val reserved_words : bytes list **)

let reserved_words =
  ((Zpos (XO (XI (XI (XO (XI (XI XH))))))) :: ((Zpos (XI (XO (XO (XO (XO (XI
    XH))))))) :: ((Zpos (XO (XI (XO (XO (XI (XI XH))))))) :: []))) :: (((Zpos
    (XI (XI (XI (XI (XO (XI XH))))))) :: ((Zpos (XO (XO (XO (XO (XI (XI
    XH))))))) :: ((Zpos (XO (XO (XI (XO (XI (XI XH))))))) :: ((Zpos (XI (XO
    (XO (XI (XO (XI XH))))))) :: ((Zpos (XI (XI (XI (XI (XO (XI
    XH))))))) :: ((Zpos (XO (XI (XI (XI (XO (XI
    XH))))))) :: [])))))) :: (((Zpos (XO (XI (XO (XO (XO (XI
    XH))))))) :: ((Zpos (XI (XI (XI (XI (XO (XI XH))))))) :: ((Zpos (XI (XI
    (XI (XI (XO (XI XH))))))) :: ((Zpos (XO (XO (XI (XI (XO (XI
    XH))))))) :: [])))) :: (((Zpos (XI (XO (XO (XI (XO (XI
    XH))))))) :: ((Zpos (XO (XI (XI (XI (XO (XI XH))))))) :: ((Zpos (XO (XO
    (XI (XO (XI (XI XH))))))) :: ((Zpos (XO (XO (XO (XI (XI
    XH)))))) :: [])))) :: (((Zpos (XI (XO (XO (XI (XO (XI XH))))))) :: ((Zpos
    (XO (XI (XI (XI (XO (XI XH))))))) :: ((Zpos (XO (XO (XI (XO (XI (XI
    XH))))))) :: ((Zpos (XI (XO (XO (XO (XI XH)))))) :: ((Zpos (XO (XI (XI
    (XO (XI XH)))))) :: []))))) :: (((Zpos (XI (XO (XO (XI (XO (XI
    XH))))))) :: ((Zpos (XO (XI (XI (XI (XO (XI XH))))))) :: ((Zpos (XO (XO
    (XI (XO (XI (XI XH))))))) :: ((Zpos (XI (XI (XO (XO (XI
    XH)))))) :: ((Zpos (XO (XI (XO (XO (XI XH)))))) :: []))))) :: (((Zpos (XI
    (XO (XO (XI (XO (XI XH))))))) :: ((Zpos (XO (XI (XI (XI (XO (XI
    XH))))))) :: ((Zpos (XO (XO (XI (XO (XI (XI XH))))))) :: ((Zpos (XO (XI
    (XI (XO (XI XH)))))) :: ((Zpos (XO (XO (XI (XO (XI
    XH)))))) :: []))))) :: (((Zpos (XI (XO (XO (XI (XO (XI
    XH))))))) :: ((Zpos (XO (XI (XI (XI (XO (XI XH))))))) :: ((Zpos (XO (XO
    (XI (XO (XI (XI XH))))))) :: ((Zpos (XI (XO (XO (XO (XI
    XH)))))) :: ((Zpos (XO (XI (XO (XO (XI XH)))))) :: ((Zpos (XO (XO (XO (XI
    (XI XH)))))) :: [])))))) :: (((Zpos (XI (XO (XI (XO (XI (XI
    XH))))))) :: ((Zpos (XI (XO (XO (XI (XO (XI XH))))))) :: ((Zpos (XO (XI
    (XI (XI (XO (XI XH))))))) :: ((Zpos (XO (XO (XI (XO (XI (XI
    XH))))))) :: ((Zpos (XO (XO (XO (XI (XI XH)))))) :: []))))) :: (((Zpos
    (XI (XO (XI (XO (XI (XI XH))))))) :: ((Zpos (XI (XO (XO (XI (XO (XI
    XH))))))) :: ((Zpos (XO (XI (XI (XI (XO (XI XH))))))) :: ((Zpos (XO (XO
    (XI (XO (XI (XI XH))))))) :: ((Zpos (XI (XO (XO (XO (XI
    XH)))))) :: ((Zpos (XO (XI (XI (XO (XI XH)))))) :: [])))))) :: (((Zpos
    (XI (XO (XI (XO (XI (XI XH))))))) :: ((Zpos (XI (XO (XO (XI (XO (XI
    XH))))))) :: ((Zpos (XO (XI (XI (XI (XO (XI XH))))))) :: ((Zpos (XO (XO
    (XI (XO (XI (XI XH))))))) :: ((Zpos (XI (XI (XO (XO (XI
    XH)))))) :: ((Zpos (XO (XI (XO (XO (XI XH)))))) :: [])))))) :: (((Zpos
    (XI (XO (XI (XO (XI (XI XH))))))) :: ((Zpos (XI (XO (XO (XI (XO (XI
    XH))))))) :: ((Zpos (XO (XI (XI (XI (XO (XI XH))))))) :: ((Zpos (XO (XO
    (XI (XO (XI (XI XH))))))) :: ((Zpos (XO (XI (XI (XO (XI
    XH)))))) :: ((Zpos (XO (XO (XI (XO (XI XH)))))) :: [])))))) :: (((Zpos
    (XI (XO (XI (XO (XI (XI XH))))))) :: ((Zpos (XI (XO (XO (XI (XO (XI
    XH))))))) :: ((Zpos (XO (XI (XI (XI (XO (XI XH))))))) :: ((Zpos (XO (XO
    (XI (XO (XI (XI XH))))))) :: ((Zpos (XI (XO (XO (XO (XI
    XH)))))) :: ((Zpos (XO (XI (XO (XO (XI XH)))))) :: ((Zpos (XO (XO (XO (XI
    (XI XH)))))) :: []))))))) :: (((Zpos (XO (XI (XI (XO (XO (XI
    XH))))))) :: ((Zpos (XO (XO (XI (XI (XO (XI XH))))))) :: ((Zpos (XI (XI
    (XI (XI (XO (XI XH))))))) :: ((Zpos (XI (XO (XO (XO (XO (XI
    XH))))))) :: ((Zpos (XO (XO (XI (XO (XI (XI XH))))))) :: ((Zpos (XI (XO
    (XO (XO (XI XH)))))) :: ((Zpos (XO (XI (XI (XO (XI
    XH)))))) :: []))))))) :: (((Zpos (XO (XI (XI (XO (XO (XI
    XH))))))) :: ((Zpos (XO (XO (XI (XI (XO (XI XH))))))) :: ((Zpos (XI (XI
    (XI (XI (XO (XI XH))))))) :: ((Zpos (XI (XO (XO (XO (XO (XI
    XH))))))) :: ((Zpos (XO (XO (XI (XO (XI (XI XH))))))) :: ((Zpos (XI (XI
    (XO (XO (XI XH)))))) :: ((Zpos (XO (XI (XO (XO (XI
    XH)))))) :: []))))))) :: (((Zpos (XO (XI (XI (XO (XO (XI
    XH))))))) :: ((Zpos (XO (XO (XI (XI (XO (XI XH))))))) :: ((Zpos (XI (XI
    (XI (XI (XO (XI XH))))))) :: ((Zpos (XI (XO (XO (XO (XO (XI
    XH))))))) :: ((Zpos (XO (XO (XI (XO (XI (XI XH))))))) :: ((Zpos (XO (XI
    (XI (XO (XI XH)))))) :: ((Zpos (XO (XO (XI (XO (XI
    XH)))))) :: []))))))) :: (((Zpos (XO (XI (XI (XO (XO (XI
    XH))))))) :: ((Zpos (XO (XO (XI (XI (XO (XI XH))))))) :: ((Zpos (XI (XI
    (XI (XI (XO (XI XH))))))) :: ((Zpos (XI (XO (XO (XO (XO (XI
    XH))))))) :: ((Zpos (XO (XO (XI (XO (XI (XI XH))))))) :: ((Zpos (XI (XO
    (XO (XO (XI XH)))))) :: ((Zpos (XO (XI (XO (XO (XI XH)))))) :: ((Zpos (XO
    (XO (XO (XI (XI XH)))))) :: [])))))))) :: (((Zpos (XO (XO (XI (XO (XO (XI
    XH))))))) :: ((Zpos (XI (XO (XI (XO (XO (XI XH))))))) :: ((Zpos (XI (XI
    (XO (XO (XO (XI XH))))))) :: ((Zpos (XI (XO (XO (XI (XO (XI
    XH))))))) :: ((Zpos (XI (XO (XI (XI (XO (XI XH))))))) :: ((Zpos (XI (XO
    (XO (XO (XO (XI XH))))))) :: ((Zpos (XO (XO (XI (XI (XO (XI
    XH))))))) :: ((Zpos (XI (XI (XO (XO (XI XH)))))) :: ((Zpos (XO (XI (XO
    (XO (XI XH)))))) :: []))))))))) :: (((Zpos (XO (XO (XI (XO (XO (XI
    XH))))))) :: ((Zpos (XI (XO (XI (XO (XO (XI XH))))))) :: ((Zpos (XI (XI
    (XO (XO (XO (XI XH))))))) :: ((Zpos (XI (XO (XO (XI (XO (XI
    XH))))))) :: ((Zpos (XI (XO (XI (XI (XO (XI XH))))))) :: ((Zpos (XI (XO
    (XO (XO (XO (XI XH))))))) :: ((Zpos (XO (XO (XI (XI (XO (XI
    XH))))))) :: ((Zpos (XO (XI (XI (XO (XI XH)))))) :: ((Zpos (XO (XO (XI
    (XO (XI XH)))))) :: []))))))))) :: (((Zpos (XO (XO (XI (XO (XO (XI
    XH))))))) :: ((Zpos (XI (XO (XI (XO (XO (XI XH))))))) :: ((Zpos (XI (XI
    (XO (XO (XO (XI XH))))))) :: ((Zpos (XI (XO (XO (XI (XO (XI
    XH))))))) :: ((Zpos (XI (XO (XI (XI (XO (XI XH))))))) :: ((Zpos (XI (XO
    (XO (XO (XO (XI XH))))))) :: ((Zpos (XO (XO (XI (XI (XO (XI
    XH))))))) :: ((Zpos (XI (XO (XO (XO (XI XH)))))) :: ((Zpos (XO (XI (XO
    (XO (XI XH)))))) :: ((Zpos (XO (XO (XO (XI (XI
    XH)))))) :: [])))))))))) :: (((Zpos (XO (XI (XO (XO (XO (XI
    XH))))))) :: ((Zpos (XI (XO (XO (XI (XO (XI XH))))))) :: ((Zpos (XI (XI
    (XI (XO (XO (XI XH))))))) :: ((Zpos (XO (XI (XI (XI (XO (XI
    XH))))))) :: ((Zpos (XI (XO (XI (XO (XI (XI XH))))))) :: ((Zpos (XI (XO
    (XI (XI (XO (XI XH))))))) :: [])))))) :: (((Zpos (XI (XO (XO (XI (XO (XI
    XH))))))) :: ((Zpos (XO (XI (XI (XI (XO (XI XH))))))) :: ((Zpos (XO (XO
    (XI (XO (XI (XI XH))))))) :: []))) :: (((Zpos (XO (XI (XO (XO (XI (XI
    XH))))))) :: ((Zpos (XI (XO (XI (XO (XO (XI XH))))))) :: ((Zpos (XI (XO
    (XO (XO (XO (XI XH))))))) :: ((Zpos (XO (XO (XI (XI (XO (XI
    XH))))))) :: [])))) :: (((Zpos (XI (XI (XO (XO (XO (XI
    XH))))))) :: ((Zpos (XI (XI (XI (XI (XO (XI XH))))))) :: ((Zpos (XI (XO
    (XI (XI (XO (XI XH))))))) :: ((Zpos (XO (XO (XO (XO (XI (XI
    XH))))))) :: ((Zpos (XO (XO (XI (XI (XO (XI XH))))))) :: ((Zpos (XI (XO
    (XI (XO (XO (XI XH))))))) :: ((Zpos (XO (XO (XO (XI (XI (XI
    XH))))))) :: []))))))) :: (((Zpos (XI (XO (XO (XI (XO (XI
    XH))))))) :: ((Zpos (XO (XI (XI (XI (XO (XI XH))))))) :: ((Zpos (XO (XO
    (XI (XO (XI (XI XH))))))) :: ((Zpos (XO (XO (XO (XO (XI (XI
    XH))))))) :: ((Zpos (XO (XO (XI (XO (XI (XI XH))))))) :: ((Zpos (XO (XI
    (XO (XO (XI (XI XH))))))) :: [])))))) :: (((Zpos (XI (XO (XI (XO (XI (XI
    XH))))))) :: ((Zpos (XI (XO (XO (XI (XO (XI XH))))))) :: ((Zpos (XO (XI
    (XI (XI (XO (XI XH))))))) :: ((Zpos (XO (XO (XI (XO (XI (XI
    XH))))))) :: ((Zpos (XO (XO (XO (XO (XI (XI XH))))))) :: ((Zpos (XO (XO
    (XI (XO (XI (XI XH))))))) :: ((Zpos (XO (XI (XO (XO (XI (XI
    XH))))))) :: []))))))) :: (((Zpos (XI (XI (XO (XO (XI (XI
    XH))))))) :: ((Zpos (XO (XO (XI (XO (XI (XI XH))))))) :: ((Zpos (XO (XI
    (XO (XO (XI (XI XH))))))) :: ((Zpos (XI (XO (XO (XI (XO (XI
    XH))))))) :: ((Zpos (XO (XI (XI (XI (XO (XI XH))))))) :: ((Zpos (XI (XI
    (XI (XO (XO (XI XH))))))) :: [])))))) :: (((Zpos (XI (XI (XO (XO (XO (XI
    XH))))))) :: ((Zpos (XO (XO (XO (XI (XO (XI XH))))))) :: ((Zpos (XI (XO
    (XO (XO (XO (XI XH))))))) :: ((Zpos (XO (XI (XO (XO (XI (XI
    XH))))))) :: [])))) :: (((Zpos (XO (XI (XO (XO (XO (XI
    XH))))))) :: ((Zpos (XI (XO (XO (XI (XI (XI XH))))))) :: ((Zpos (XO (XO
    (XI (XO (XI (XI XH))))))) :: ((Zpos (XI (XO (XI (XO (XO (XI
    XH))))))) :: ((Zpos (XI (XI (XO (XO (XI (XI
    XH))))))) :: []))))) :: (((Zpos (XO (XO (XI (XO (XO (XI
    XH))))))) :: ((Zpos (XI (XO (XO (XO (XO (XI XH))))))) :: ((Zpos (XO (XO
    (XI (XO (XI (XI XH))))))) :: ((Zpos (XI (XO (XI (XO (XO (XI
    XH))))))) :: [])))) :: (((Zpos (XO (XI (XO (XI (XO (XI
    XH))))))) :: ((Zpos (XI (XI (XO (XO (XI (XI XH))))))) :: ((Zpos (XI (XI
    (XI (XI (XO (XI XH))))))) :: ((Zpos (XO (XI (XI (XI (XO (XI
    XH))))))) :: [])))) :: (((Zpos (XO (XI (XI (XO (XI (XI
    XH))))))) :: ((Zpos (XI (XI (XI (XI (XO (XI XH))))))) :: ((Zpos (XI (XO
    (XO (XI (XO (XI XH))))))) :: ((Zpos (XO (XO (XI (XO (XO (XI
    XH))))))) :: [])))) :: (((Zpos (XO (XO (XI (XO (XO (XI
    XH))))))) :: ((Zpos (XI (XO (XO (XO (XO (XI XH))))))) :: ((Zpos (XO (XO
    (XI (XO (XI (XI XH))))))) :: ((Zpos (XI (XO (XI (XO (XO (XI
    XH))))))) :: ((Zpos (XO (XO (XI (XO (XI (XI XH))))))) :: ((Zpos (XI (XO
    (XO (XI (XO (XI XH))))))) :: ((Zpos (XI (XO (XI (XI (XO (XI
    XH))))))) :: ((Zpos (XI (XO (XI (XO (XO (XI
    XH))))))) :: [])))))))) :: (((Zpos (XI (XI (XO (XO (XO (XI
    XH))))))) :: ((Zpos (XI (XO (XO (XO (XO (XI XH))))))) :: ((Zpos (XO (XO
    (XI (XO (XI (XI XH))))))) :: ((Zpos (XI (XO (XI (XO (XO (XI
    XH))))))) :: ((Zpos (XI (XI (XI (XO (XO (XI XH))))))) :: ((Zpos (XI (XI
    (XI (XI (XO (XI XH))))))) :: ((Zpos (XO (XI (XO (XO (XI (XI
    XH))))))) :: ((Zpos (XI (XO (XO (XI (XO (XI XH))))))) :: ((Zpos (XI (XI
    (XO (XO (XO (XI XH))))))) :: ((Zpos (XI (XO (XO (XO (XO (XI
    XH))))))) :: ((Zpos (XO (XO (XI (XI (XO (XI
    XH))))))) :: []))))))))))) :: (((Zpos (XO (XO (XO (XO (XI (XI
    XH))))))) :: ((Zpos (XI (XI (XI (XI (XO (XI XH))))))) :: ((Zpos (XI (XO
    (XO (XI (XO (XI XH))))))) :: ((Zpos (XO (XI (XI (XI (XO (XI
    XH))))))) :: ((Zpos (XO (XO (XI (XO (XI (XI XH))))))) :: ((Zpos (XI (XO
    (XI (XO (XO (XI XH))))))) :: ((Zpos (XO (XI (XO (XO (XI (XI
    XH))))))) :: []))))))) :: (((Zpos (XO (XI (XO (XO (XO (XI
    XH))))))) :: ((Zpos (XI (XI (XI (XI (XO (XI XH))))))) :: ((Zpos (XI (XI
    (XI (XI (XO (XI XH))))))) :: ((Zpos (XO (XO (XI (XI (XO (XI
    XH))))))) :: [])))) :: (((Zpos (XI (XO (XO (XI (XO (XI
    XH))))))) :: ((Zpos (XO (XI (XI (XI (XO (XI XH))))))) :: ((Zpos (XO (XO
    (XI (XO (XI (XI XH))))))) :: ((Zpos (XO (XO (XO (XI (XI
    XH)))))) :: [])))) :: (((Zpos (XI (XO (XO (XI (XO (XI XH))))))) :: ((Zpos
    (XO (XI (XI (XI (XO (XI XH))))))) :: ((Zpos (XO (XO (XI (XO (XI (XI
    XH))))))) :: ((Zpos (XI (XO (XO (XO (XI XH)))))) :: ((Zpos (XO (XI (XI
    (XO (XI XH)))))) :: []))))) :: (((Zpos (XI (XO (XO (XI (XO (XI
    XH))))))) :: ((Zpos (XO (XI (XI (XI (XO (XI XH))))))) :: ((Zpos (XO (XO
    (XI (XO (XI (XI XH))))))) :: ((Zpos (XI (XI (XO (XO (XI
    XH)))))) :: ((Zpos (XO (XI (XO (XO (XI XH)))))) :: []))))) :: (((Zpos (XI
    (XO (XO (XI (XO (XI XH))))))) :: ((Zpos (XO (XI (XI (XI (XO (XI
    XH))))))) :: ((Zpos (XO (XO (XI (XO (XI (XI XH))))))) :: ((Zpos (XO (XI
    (XI (XO (XI XH)))))) :: ((Zpos (XO (XO (XI (XO (XI
    XH)))))) :: []))))) :: (((Zpos (XI (XO (XI (XO (XI (XI
    XH))))))) :: ((Zpos (XI (XO (XO (XI (XO (XI XH))))))) :: ((Zpos (XO (XI
    (XI (XI (XO (XI XH))))))) :: ((Zpos (XO (XO (XI (XO (XI (XI
    XH))))))) :: ((Zpos (XO (XO (XO (XI (XI XH)))))) :: []))))) :: (((Zpos
    (XI (XO (XI (XO (XI (XI XH))))))) :: ((Zpos (XI (XO (XO (XI (XO (XI
    XH))))))) :: ((Zpos (XO (XI (XI (XI (XO (XI XH))))))) :: ((Zpos (XO (XO
    (XI (XO (XI (XI XH))))))) :: ((Zpos (XI (XO (XO (XO (XI
    XH)))))) :: ((Zpos (XO (XI (XI (XO (XI XH)))))) :: [])))))) :: (((Zpos
    (XI (XO (XI (XO (XI (XI XH))))))) :: ((Zpos (XI (XO (XO (XI (XO (XI
    XH))))))) :: ((Zpos (XO (XI (XI (XI (XO (XI XH))))))) :: ((Zpos (XO (XO
    (XI (XO (XI (XI XH))))))) :: ((Zpos (XI (XI (XO (XO (XI
    XH)))))) :: ((Zpos (XO (XI (XO (XO (XI XH)))))) :: [])))))) :: (((Zpos
    (XI (XO (XI (XO (XI (XI XH))))))) :: ((Zpos (XI (XO (XO (XI (XO (XI
    XH))))))) :: ((Zpos (XO (XI (XI (XI (XO (XI XH))))))) :: ((Zpos (XO (XO
    (XI (XO (XI (XI XH))))))) :: ((Zpos (XO (XI (XI (XO (XI
    XH)))))) :: ((Zpos (XO (XO (XI (XO (XI XH)))))) :: [])))))) :: (((Zpos
    (XO (XI (XI (XO (XO (XI XH))))))) :: ((Zpos (XO (XO (XI (XI (XO (XI
    XH))))))) :: ((Zpos (XI (XI (XI (XI (XO (XI XH))))))) :: ((Zpos (XI (XO
    (XO (XO (XO (XI XH))))))) :: ((Zpos (XO (XO (XI (XO (XI (XI
    XH))))))) :: ((Zpos (XI (XO (XO (XO (XI XH)))))) :: ((Zpos (XO (XI (XI
    (XO (XI XH)))))) :: []))))))) :: (((Zpos (XO (XI (XI (XO (XO (XI
    XH))))))) :: ((Zpos (XO (XO (XI (XI (XO (XI XH))))))) :: ((Zpos (XI (XI
    (XI (XI (XO (XI XH))))))) :: ((Zpos (XI (XO (XO (XO (XO (XI
    XH))))))) :: ((Zpos (XO (XO (XI (XO (XI (XI XH))))))) :: ((Zpos (XI (XI
    (XO (XO (XI XH)))))) :: ((Zpos (XO (XI (XO (XO (XI
    XH)))))) :: []))))))) :: (((Zpos (XO (XI (XI (XO (XO (XI
    XH))))))) :: ((Zpos (XO (XO (XI (XI (XO (XI XH))))))) :: ((Zpos (XI (XI
    (XI (XI (XO (XI XH))))))) :: ((Zpos (XI (XO (XO (XO (XO (XI
    XH))))))) :: ((Zpos (XO (XO (XI (XO (XI (XI XH))))))) :: ((Zpos (XO (XI
    (XI (XO (XI XH)))))) :: ((Zpos (XO (XO (XI (XO (XI
    XH)))))) :: []))))))) :: (((Zpos (XO (XI (XI (XO (XO (XI
    XH))))))) :: ((Zpos (XO (XO (XI (XI (XO (XI XH))))))) :: ((Zpos (XI (XI
    (XI (XI (XO (XI XH))))))) :: ((Zpos (XI (XO (XO (XO (XO (XI
    XH))))))) :: ((Zpos (XO (XO (XI (XO (XI (XI XH))))))) :: ((Zpos (XI (XO
    (XO (XO (XI XH)))))) :: ((Zpos (XO (XI (XO (XO (XI XH)))))) :: ((Zpos (XO
    (XO (XO (XI (XI XH)))))) :: [])))))))) :: (((Zpos (XI (XI (XO (XO (XO (XI
    XH))))))) :: ((Zpos (XI (XI (XI (XI (XO (XI XH))))))) :: ((Zpos (XI (XO
    (XI (XI (XO (XI XH))))))) :: ((Zpos (XO (XO (XO (XO (XI (XI
    XH))))))) :: ((Zpos (XO (XO (XI (XI (XO (XI XH))))))) :: ((Zpos (XI (XO
    (XI (XO (XO (XI XH))))))) :: ((Zpos (XO (XO (XO (XI (XI (XI
    XH))))))) :: ((Zpos (XO (XI (XI (XO (XI XH)))))) :: ((Zpos (XO (XO (XI
    (XO (XI XH)))))) :: []))))))))) :: (((Zpos (XI (XI (XO (XO (XO (XI
    XH))))))) :: ((Zpos (XI (XI (XI (XI (XO (XI XH))))))) :: ((Zpos (XI (XO
    (XI (XI (XO (XI XH))))))) :: ((Zpos (XO (XO (XO (XO (XI (XI
    XH))))))) :: ((Zpos (XO (XO (XI (XI (XO (XI XH))))))) :: ((Zpos (XI (XO
    (XI (XO (XO (XI XH))))))) :: ((Zpos (XO (XO (XO (XI (XI (XI
    XH))))))) :: ((Zpos (XI (XO (XO (XO (XI XH)))))) :: ((Zpos (XO (XI (XO
    (XO (XI XH)))))) :: ((Zpos (XO (XO (XO (XI (XI
    XH)))))) :: [])))))))))) :: (((Zpos (XI (XI (XO (XO (XO (XI
    XH))))))) :: ((Zpos (XI (XI (XI (XI (XO (XI XH))))))) :: ((Zpos (XI (XO
    (XI (XI (XO (XI XH))))))) :: ((Zpos (XO (XO (XO (XO (XI (XI
    XH))))))) :: ((Zpos (XO (XO (XI (XI (XO (XI XH))))))) :: ((Zpos (XI (XO
    (XI (XO (XO (XI XH))))))) :: ((Zpos (XO (XO (XO (XI (XI (XI
    XH))))))) :: ((Zpos (XO (XI (XO (XO (XI XH)))))) :: ((Zpos (XI (XO (XI
    (XO (XI XH)))))) :: ((Zpos (XO (XI (XI (XO (XI
    XH)))))) :: [])))))))))) :: (((Zpos (XO (XO (XI (XO (XO (XI
    XH))))))) :: ((Zpos (XI (XO (XO (XO (XO (XI XH))))))) :: ((Zpos (XO (XO
    (XI (XO (XI (XI XH))))))) :: ((Zpos (XI (XO (XI (XO (XO (XI
    XH))))))) :: ((Zpos (XO (XO (XI (XO (XI (XI XH))))))) :: ((Zpos (XI (XO
    (XO (XI (XO (XI XH))))))) :: ((Zpos (XI (XO (XI (XI (XO (XI
    XH))))))) :: ((Zpos (XI (XO (XI (XO (XO (XI XH))))))) :: ((Zpos (XO (XI
    (XI (XO (XI XH)))))) :: ((Zpos (XO (XO (XI (XO (XI
    XH)))))) :: [])))))))))) :: (((Zpos (XO (XO (XI (XO (XI (XI
    XH))))))) :: ((Zpos (XI (XO (XO (XI (XO (XI XH))))))) :: ((Zpos (XI (XO
    (XI (XI (XO (XI XH))))))) :: ((Zpos (XI (XO (XI (XO (XO (XI
    XH))))))) :: ((Zpos (XO (XO (XI (XO (XO (XI XH))))))) :: ((Zpos (XI (XO
    (XI (XO (XO (XI XH))))))) :: ((Zpos (XO (XO (XI (XI (XO (XI
    XH))))))) :: ((Zpos (XO (XO (XI (XO (XI (XI XH))))))) :: ((Zpos (XI (XO
    (XO (XO (XO (XI XH))))))) :: ((Zpos (XO (XI (XI (XO (XI
    XH)))))) :: ((Zpos (XO (XO (XI (XO (XI
    XH)))))) :: []))))))))))) :: (((Zpos (XI (XO (XI (XO (XI (XI
    XH))))))) :: ((Zpos (XO (XI (XI (XI (XO (XI XH))))))) :: ((Zpos (XI (XI
    (XO (XI (XO (XI XH))))))) :: ((Zpos (XO (XI (XI (XI (XO (XI
    XH))))))) :: ((Zpos (XI (XI (XI (XI (XO (XI XH))))))) :: ((Zpos (XI (XI
    (XI (XO (XI (XI XH))))))) :: ((Zpos (XO (XI (XI (XI (XO (XI
    XH))))))) :: []))))))) :: (((Zpos (XI (XO (XI (XO (XI (XI
    XH))))))) :: ((Zpos (XO (XI (XI (XI (XO (XI XH))))))) :: ((Zpos (XI (XO
    (XO (XI (XO (XI XH))))))) :: ((Zpos (XI (XI (XI (XI (XO (XI
    XH))))))) :: ((Zpos (XO (XI (XI (XI (XO (XI
    XH))))))) :: []))))) :: (((Zpos (XI (XI (XO (XO (XI (XI
    XH))))))) :: ((Zpos (XO (XO (XI (XO (XI (XI XH))))))) :: ((Zpos (XO (XI
    (XO (XO (XI (XI XH))))))) :: ((Zpos (XI (XO (XI (XO (XI (XI
    XH))))))) :: ((Zpos (XI (XI (XO (XO (XO (XI XH))))))) :: ((Zpos (XO (XO
    (XI (XO (XI (XI XH))))))) :: [])))))) :: (((Zpos (XO (XO (XI (XO (XI (XI
    XH))))))) :: ((Zpos (XI (XO (XI (XO (XI (XI XH))))))) :: ((Zpos (XO (XO
    (XO (XO (XI (XI XH))))))) :: ((Zpos (XO (XO (XI (XI (XO (XI
    XH))))))) :: ((Zpos (XI (XO (XI (XO (XO (XI
    XH))))))) :: []))))) :: (((Zpos (XO (XI (XO (XO (XO (XI
    XH))))))) :: ((Zpos (XI (XO (XO (XI (XI (XI XH))))))) :: ((Zpos (XO (XO
    (XI (XO (XI (XI XH))))))) :: ((Zpos (XI (XO (XI (XO (XO (XI
    XH))))))) :: [])))) :: (((Zpos (XI (XI (XO (XO (XO (XI
    XH))))))) :: ((Zpos (XI (XO (XO (XO (XO (XI XH))))))) :: ((Zpos (XO (XO
    (XI (XO (XI (XI XH))))))) :: ((Zpos (XI (XO (XI (XO (XO (XI
    XH))))))) :: ((Zpos (XI (XI (XI (XO (XO (XI XH))))))) :: ((Zpos (XI (XI
    (XI (XI (XO (XI XH))))))) :: ((Zpos (XO (XI (XO (XO (XI (XI
    XH))))))) :: ((Zpos (XI (XO (XO (XI (XO (XI XH))))))) :: ((Zpos (XI (XI
    (XO (XO (XO (XI XH))))))) :: ((Zpos (XI (XO (XO (XO (XO (XI
    XH))))))) :: ((Zpos (XO (XO (XI (XI (XO (XI
    XH))))))) :: []))))))))))) :: []))))))))))))))))))))))))))))))))))))))))))))))))))))))))))

(** val parse_list :
    (bytes -> (rty * bytes) res) -> nat -> z -> bytes -> (rty list * bytes)
    res **)

let rec parse_list sub0 fuel close s =
  match fuel with
  | O -> Err EFuel
  | S fuel' ->
    bind (sub0 s) (fun tr ->
      match snd tr with
      | [] -> Err EValue
      | c' :: r' ->
        if Z.eqb c' close
        then Ok (((fst tr) :: []), r')
        else (match strip_prefix p_comma (snd tr) with
              | Some rest ->
                bind (parse_list sub0 fuel' close rest) (fun lr -> Ok
                  (((fst tr) :: (fst lr)), (snd lr)))
              | None -> Err EValue))

(** val parse_items :
    (bytes -> (rty * bytes) res) -> nat -> z -> bytes -> (rty list * bytes)
    res **)

let parse_items sub0 fuel close s = match s with
| [] -> Err EValue
| c :: r -> if Z.eqb c close then Ok ([], r) else parse_list sub0 fuel close s

(** val parse_fields :
    (bytes -> (rty * bytes) res) -> nat -> z -> bytes -> ((bytes * rty)
    list * bytes) res **)

let rec parse_fields sub0 fuel close s =
  match fuel with
  | O -> Err EFuel
  | S fuel' ->
    bind (unquote s) (fun kr ->
      match strip_prefix p_colon (snd kr) with
      | Some s1 ->
        bind (sub0 s1) (fun tr ->
          match snd tr with
          | [] -> Err EValue
          | c' :: r' ->
            if Z.eqb c' close
            then Ok ((((fst kr), (fst tr)) :: []), r')
            else (match strip_prefix p_comma (snd tr) with
                  | Some rest ->
                    bind (parse_fields sub0 fuel' close rest) (fun lr -> Ok
                      ((((fst kr), (fst tr)) :: (fst lr)), (snd lr)))
                  | None -> Err EValue))
      | None -> Err EValue)

(** val parse_fielditems :
    (bytes -> (rty * bytes) res) -> nat -> z -> bytes -> ((bytes * rty)
    list * bytes) res **)

let parse_fielditems sub0 fuel close s = match s with
| [] -> Err EValue
| c :: r ->
  if Z.eqb c close then Ok ([], r) else parse_fields sub0 fuel close s

(** val opt_branch :
    (bytes -> (rty * bytes) res) -> bytes -> (rty * bytes) res **)

let opt_branch sub0 r =
  bind (sub0 r) (fun tr ->
    if is_listlike (fst tr)
    then Err EValue
    else Ok ((ROpt ([], [], (fst tr))), (snd tr)))

(** val brace_branch :
    (bytes -> (rty * bytes) res) -> nat -> bytes -> (rty * bytes) res **)

let brace_branch sub0 fuel r =
  bind (parse_fielditems sub0 fuel (Zpos (XI (XO (XI (XI (XI (XI XH))))))) r)
    (fun fr -> Ok ((RRec ([], [], (Some (map fst (fst fr))),
    (map snd (fst fr)))), (snd fr)))

(** val paren_branch :
    (bytes -> (rty * bytes) res) -> nat -> bytes -> (rty * bytes) res **)

let paren_branch sub0 fuel r =
  bind (parse_items sub0 fuel (Zpos (XI (XO (XO (XI (XO XH)))))) r)
    (fun lr -> Ok ((RRec ([], [], None, (fst lr))), (snd lr)))

(** val num_branch :
    (bytes -> (rty * bytes) res) -> bytes -> (rty * bytes) res **)

let num_branch sub0 s =
  let (ds, rest) = span is_digit s in
  (match strip_prefix p_star rest with
   | Some rest' ->
     bind (sub0 rest') (fun tr -> Ok ((RReg ([], [], (z_of_digits ds),
       (fst tr))), (snd tr)))
   | None -> Err EValue)

(** val plain_word :
    (bytes -> (rty * bytes) res) -> bytes -> bytes -> (rty * bytes) res **)

let plain_word sub0 w rest =
  if bytes_eqb w w_var
  then (match strip_prefix p_star rest with
        | Some rest' ->
          bind (sub0 rest') (fun tr -> Ok ((RList ([], [], (fst tr))),
            (snd tr)))
        | None -> Err EValue)
  else if bytes_eqb w p_string
       then Ok (t_string, rest)
       else if bytes_eqb w p_bytes
            then Ok (t_bytes, rest)
            else if bytes_eqb w p_char
                 then Ok (t_char, rest)
                 else if bytes_eqb w p_byte
                      then Ok (t_byte, rest)
                      else if bytes_eqb w n_unknown
                           then Ok ((RUnk ([], [])), rest)
                           else (match prim_of_name w with
                                 | Some dt -> Ok ((RNum ([], [], dt)), rest)
                                 | None -> Err EValue)

(** val bracket_branch :
    (bytes -> (rty * bytes) res) -> nat -> bytes -> bytes -> (rty * bytes) res **)

let bracket_branch sub0 fuel w rest1 =
  if bytes_eqb w w_option
  then bind (sub0 rest1) (fun tr ->
         match snd tr with
         | [] -> Err EValue
         | c :: rest2 ->
           if Z.eqb c (Zpos (XI (XO (XI (XI (XI (XO XH)))))))
           then if is_listlike (fst tr)
                then Ok ((ROpt ([], [], (fst tr))), rest2)
                else Err EValue
           else Err EValue)
  else if bytes_eqb w w_union
       then bind
              (parse_items sub0 fuel (Zpos (XI (XO (XI (XI (XI (XO XH)))))))
                rest1) (fun lr -> Ok ((RUnion ([], [], (fst lr))), (snd lr)))
       else if existsb (bytes_eqb w) reserved_words
            then Err EValue
            else let p = (k_record, (JStr w)) :: [] in
                 (match rest1 with
                  | [] -> Err EValue
                  | c :: rest2 ->
                    if Z.eqb c (Zpos (XO (XI (XO (XO (XO XH))))))
                    then bind
                           (parse_fields sub0 fuel (Zpos (XI (XO (XI (XI (XI
                             (XO XH))))))) rest1) (fun fr -> Ok ((RRec (p,
                           [], (Some (map fst (fst fr))),
                           (map snd (fst fr)))), (snd fr)))
                    else if Z.eqb c (Zpos (XI (XO (XI (XI (XI (XO XH)))))))
                         then Ok ((RRec (p, [], (Some []), [])), rest2)
                         else bind
                                (parse_list sub0 fuel (Zpos (XI (XO (XI (XI
                                  (XI (XO XH))))))) rest1) (fun lr -> Ok
                                ((RRec (p, [], None, (fst lr))), (snd lr))))

(** val word_branch :
    (bytes -> (rty * bytes) res) -> nat -> bytes -> bytes -> (rty * bytes) res **)

let word_branch sub0 fuel w rest = match rest with
| [] -> plain_word sub0 w rest
| c1 :: rest1 ->
  if Z.eqb c1 (Zpos (XI (XI (XO (XI (XI (XO XH)))))))
  then bracket_branch sub0 fuel w rest1
  else plain_word sub0 w rest

(** val parse_ty : nat -> bytes -> (rty * bytes) res **)

let rec parse_ty fuel s =
  match fuel with
  | O -> Err EFuel
  | S fuel' ->
    let sub0 = parse_ty fuel' in
    (match s with
     | [] -> Err EValue
     | c :: r ->
       if Z.eqb c (Zpos (XI (XI (XI (XI (XI XH))))))
       then opt_branch sub0 r
       else if Z.eqb c (Zpos (XI (XI (XO (XI (XI (XI XH)))))))
            then brace_branch sub0 fuel' r
            else if Z.eqb c (Zpos (XO (XO (XO (XI (XO XH))))))
                 then paren_branch sub0 fuel' r
                 else if is_digit c
                      then num_branch sub0 s
                      else if is_alpha_ c
                           then let (w, rest) = span is_alnum_ s in
                                word_branch sub0 fuel' w rest
                           else Err EValue)

(** val type_parse : bytes -> rty res **)

let type_parse s =
  bind (parse_ty (S (length s)) s) (fun tr ->
    match snd tr with
    | [] -> Ok (fst tr)
    | _ :: _ -> Err EValue)

(** val key_ok : bytes -> bool **)

let key_ok k =
  forallb (fun c ->
    (&&) (Z.leb Z0 c) (Z.leb c (Zpos (XI (XI (XI (XI (XI (XI (XI XH))))))))))
    k

(** val hardcoded : rty -> bool **)

let hardcoded = function
| RNum (p, ts', dt) ->
  (match p with
   | [] -> false
   | p0 :: l ->
     let (k, j) = p0 in
     (match j with
      | JStr s ->
        (match l with
         | [] ->
           (match dt with
            | FD d ->
              (match d with
               | DUInt8 ->
                 (&&) (bytes_eqb k k_array)
                   ((||) ((&&) (bytes_eqb s s_char) (bytes_eqb ts' p_char))
                     ((&&) (bytes_eqb s s_byte) (bytes_eqb ts' p_byte)))
               | _ -> false)
            | _ -> false)
         | _ :: _ -> false)
      | _ -> false))
| RList (p, ts', t0) ->
  (match p with
   | [] -> false
   | p0 :: l ->
     let (k, j) = p0 in
     (match j with
      | JStr s ->
        (match l with
         | [] ->
           (match t0 with
            | RNum (p1, ts'', dt) ->
              (match p1 with
               | [] -> false
               | p2 :: l0 ->
                 let (k', j0) = p2 in
                 (match j0 with
                  | JStr s' ->
                    (match l0 with
                     | [] ->
                       (match dt with
                        | FD d ->
                          (match d with
                           | DUInt8 ->
                             (&&)
                               ((&&) (bytes_eqb k k_array)
                                 (bytes_eqb k' k_array))
                               ((||)
                                 ((&&)
                                   ((&&)
                                     ((&&) (bytes_eqb s s_string)
                                       (bytes_eqb s' s_char))
                                     (bytes_eqb ts' p_string))
                                   (bytes_eqb ts'' p_char))
                                 ((&&)
                                   ((&&)
                                     ((&&) (bytes_eqb s s_bytestring)
                                       (bytes_eqb s' s_byte))
                                     (bytes_eqb ts' p_bytes))
                                   (bytes_eqb ts'' p_byte)))
                           | _ -> false)
                        | _ -> false)
                     | _ :: _ -> false)
                  | _ -> false))
            | _ -> false)
         | _ :: _ -> false)
      | _ -> false))
| _ -> false

(** val printable : rty -> bool **)

let rec printable t =
  (||) (hardcoded t)
    (match t with
     | RNum (p, ts, dt) ->
       (match p with
        | [] ->
          (match ts with
           | [] -> negb (fdtype_eqb dt FNotPrimitive)
           | _ :: _ -> false)
        | _ :: _ -> false)
     | RUnk (p, ts) ->
       (match p with
        | [] -> (match ts with
                 | [] -> true
                 | _ :: _ -> false)
        | _ :: _ -> false)
     | RList (p, ts, t') ->
       (match p with
        | [] -> (match ts with
                 | [] -> printable t'
                 | _ :: _ -> false)
        | _ :: _ -> false)
     | RReg (p, ts, n0, t') ->
       (match p with
        | [] ->
          (match ts with
           | [] -> (&&) (Z.leb Z0 n0) (printable t')
           | _ :: _ -> false)
        | _ :: _ -> false)
     | ROpt (p, ts, t') ->
       (match p with
        | [] -> (match ts with
                 | [] -> printable t'
                 | _ :: _ -> false)
        | _ :: _ -> false)
     | RRec (p, ts, ks, l) ->
       (match ts with
        | [] ->
          (&&)
            ((&&) (forallb printable l)
              (match ks with
               | Some ks0 ->
                 (&&) (Nat.eqb (length ks0) (length l)) (forallb key_ok ks0)
               | None -> true))
            (match p with
             | [] -> true
             | p0 :: l0 ->
               let (k, j) = p0 in
               (match j with
                | JStr w ->
                  (match l0 with
                   | [] ->
                     (&&)
                       ((&&) ((&&) (bytes_eqb k k_record) (is_name w))
                         (negb (existsb (bytes_eqb w) reserved_words)))
                       (match ks with
                        | Some _ -> true
                        | None -> (match l with
                                   | [] -> false
                                   | _ :: _ -> true))
                   | _ :: _ -> false)
                | _ -> false))
        | _ :: _ -> false)
     | RUnion (p, ts, l) ->
       (match p with
        | [] -> (match ts with
                 | [] -> forallb printable l
                 | _ :: _ -> false)
        | _ :: _ -> false))

(** val name_eqb : name -> name -> bool **)

let name_eqb a b =
  list_eqb Z.eqb a b

(** val has_typeb : ty -> value -> bool **)

let rec has_typeb t v =
  match t with
  | TNum dt ->
    (match v with
     | VNum _ -> negb (dtype_eqb dt DBool)
     | VBool _ -> dtype_eqb dt DBool
     | _ -> false)
  | TUnk -> false
  | TList (sz, str, t') ->
    (match str with
     | Some isstr ->
       (match v with
        | VStr (i, s) ->
          (&&) (eqb i isstr)
            (match sz with
             | Some n0 -> Z.eqb (zlen s) n0
             | None -> true)
        | _ -> false)
     | None ->
       (match v with
        | VList l ->
          (&&) (forallb (has_typeb t') l)
            (match sz with
             | Some n0 -> Z.eqb (zlen l) n0
             | None -> true)
        | _ -> false))
  | TOpt t' -> (match v with
                | VNone -> true
                | _ -> has_typeb t' v)
  | TRec (keys, ts) ->
    (match keys with
     | Some ks ->
       (match v with
        | VRec fs ->
          (&&) (list_eqb name_eqb (map fst fs) ks)
            (let rec go ts0 vs =
               match ts0 with
               | [] -> (match vs with
                        | [] -> true
                        | _ :: _ -> false)
               | t0 :: ts' ->
                 (match vs with
                  | [] -> false
                  | v0 :: vs' -> (&&) (has_typeb t0 v0) (go ts' vs'))
             in go ts (map snd fs))
        | _ -> false)
     | None ->
       (match v with
        | VTup vs ->
          let rec go ts0 vs0 =
            match ts0 with
            | [] -> (match vs0 with
                     | [] -> true
                     | _ :: _ -> false)
            | t0 :: ts' ->
              (match vs0 with
               | [] -> false
               | v0 :: vs' -> (&&) (has_typeb t0 v0) (go ts' vs'))
          in go ts vs
        | _ -> false))
  | TUnion ts ->
    let rec ex = function
    | [] -> false
    | t0 :: ts' -> (||) (has_typeb t0 v) (ex ts')
    in ex ts

(** val leaf_depth_in : z -> z -> value -> bool **)

let rec leaf_depth_in lo hi = function
| VNone -> true
| VList l ->
  forallb (leaf_depth_in (Z.sub lo (Zpos XH)) (Z.sub hi (Zpos XH))) l
| VRec fs -> forallb (fun kv -> leaf_depth_in lo hi (snd kv)) fs
| VTup vs -> forallb (leaf_depth_in lo hi) vs
| _ -> (&&) (Z.leb lo (Zpos XH)) (Z.leb (Zpos XH) hi)

(** val minmax_ty : ty -> z * z **)

let rec minmax_ty = function
| TList (_, str, t') ->
  (match str with
   | Some _ -> ((Zpos XH), (Zpos XH))
   | None ->
     let mm = minmax_ty t' in
     ((Z.add (fst mm) (Zpos XH)), (Z.add (snd mm) (Zpos XH))))
| TOpt t' -> minmax_ty t'
| TRec (_, ts) -> minmax_fold (map minmax_ty ts)
| TUnion ts -> minmax_fold (map minmax_ty ts)
| _ -> ((Zpos XH), (Zpos XH))
