(** Base: error monad, checked list access, small list library. Model files
    contain no proofs; lemmas about these definitions live in BaseLemmas.v. *)
From Coq Require Export ZArith List Bool Lia.
Export ListNotations.
Open Scope Z_scope.

Inductive err := EValue | EOob | EFuel.
Inductive res (A : Type) := Ok (a : A) | Err (e : err).
Arguments Ok {A} a.
Arguments Err {A} e.

Definition bind {A B} (r : res A) (f : A -> res B) : res B :=
  match r with Ok a => f a | Err e => Err e end.
Notation "'do' x <- r ; k" := (bind r (fun x => k))
  (at level 200, x pattern, r at level 100, k at level 200).
Definition rmap {A B} (f : A -> B) (r : res A) : res B :=
  match r with Ok a => Ok (f a) | Err e => Err e end.

Fixpoint mapM {A B} (f : A -> res B) (l : list A) : res (list B) :=
  match l with
  | [] => Ok []
  | x :: xs => do y <- f x; do ys <- mapM f xs; Ok (y :: ys)
  end.

Definition zlen {A} (l : list A) : Z := Z.of_nat (length l).

(* checked read: EOob outside [0,len) *)
Definition get {A} (l : list A) (i : Z) : res A :=
  if i <? 0 then Err EOob else
  match nth_error l (Z.to_nat i) with Some x => Ok x | None => Err EOob end.

Definition take {A} (n : Z) (l : list A) := firstn (Z.to_nat n) l.
Definition drop {A} (n : Z) (l : list A) := skipn (Z.to_nat n) l.

(* checked slice l[a:b]: EOob unless 0<=a<=b<=len *)
Definition slice {A} (l : list A) (a b : Z) : res (list A) :=
  if (0 <=? a) && (a <=? b) && (b <=? zlen l) then Ok (take (b - a) (drop a l))
  else Err EOob.

Fixpoint iota_nat (start : Z) (n : nat) : list Z :=
  match n with O => [] | S n' => start :: iota_nat (start + 1) n' end.
Definition iota (n : Z) : list Z := iota_nat 0 (Z.to_nat n).
Definition range (a b : Z) : list Z := iota_nat a (Z.to_nat (b - a)).

Fixpoint zip {A B} (l : list A) (m : list B) : list (A * B) :=
  match l, m with x :: xs, y :: ys => (x, y) :: zip xs ys | _, _ => [] end.

Definition last_or {A} (l : list A) (d : A) : A := last l d.

(* pairs (o_i, o_{i+1}) of consecutive entries *)
Fixpoint pairs (o : list Z) : list (Z * Z) :=
  match o with
  | a :: ((b :: _) as t) => (a, b) :: pairs t
  | _ => []
  end.

Definition sumZ (l : list Z) : Z := fold_right Z.add 0 l.
Definition allb {A} (f : A -> bool) (l : list A) : bool := forallb f l.

Fixpoint list_eqb {A} (eqb : A -> A -> bool) (l m : list A) : bool :=
  match l, m with
  | [], [] => true
  | x :: xs, y :: ys => eqb x y && list_eqb eqb xs ys
  | _, _ => false
  end.

Definition opt_eqb {A} (eqb : A -> A -> bool) (a b : option A) : bool :=
  match a, b with
  | None, None => true
  | Some x, Some y => eqb x y
  | _, _ => false
  end.

(* chunks of a fixed size: [vs[0:n]; vs[n:2n]; ...] (count chunks) *)
Fixpoint chunks_nat {A} (vs : list A) (n : Z) (count : nat) : list (list A) :=
  match count with
  | O => []
  | S k => take n vs :: chunks_nat (drop n vs) n k
  end.
