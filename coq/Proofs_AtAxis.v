(** T4: the layout-level "apply at an axis" combinator [model_ax] refines the value-level
    specification [spec_ax]: same value, same error status, never EOob / EFuel. *)
From Coq Require Import ZArith List Bool Lia ZifyBool.
From AwkV Require Import Base Layout LayoutInd Valid Types AtAxis Typing Proofs_Typing Proofs_C11
                         Proofs_Lists Proofs_ToList Proofs_Carry.
Import ListNotations.
Open Scope Z_scope.

(* ---------------------------------------------------------------- the fragment *)
(* [frag1]: 1-d leaves, no unions (strings allowed); [frag]: the same with n-d leaves
   ([expand] maps [frag] into [frag1]) *)
Fixpoint frag1 (c : content) : bool :=
  match c with
  | Numpy _ shape _ => match shape with [_] => true | _ => false end
  | Empty => true
  | ListOffset _ _ c' | ListA _ _ _ c' | Regular c' _ _ | Indexed _ _ c' | IndexedOption _ _ c'
  | ByteMasked _ _ c' | BitMasked _ _ _ _ c' | Unmasked c' | Par _ _ c' => frag1 c'
  | Union _ _ _ _ => false
  | Record cs _ _ =>
      (fix all (l : list content) : bool := match l with [] => true | x :: xs => frag1 x && all xs end) cs
  end.
Fixpoint frag (c : content) : bool :=
  match c with
  | Numpy _ _ _ | Empty => true
  | ListOffset _ _ c' | ListA _ _ _ c' | Regular c' _ _ | Indexed _ _ c' | IndexedOption _ _ c'
  | ByteMasked _ _ c' | BitMasked _ _ _ _ c' | Unmasked c' | Par _ _ c' => frag c'
  | Union _ _ _ _ => false
  | Record cs _ _ =>
      (fix all (l : list content) : bool := match l with [] => true | x :: xs => frag x && all xs end) cs
  end.
Lemma frag1_all cs :
  (fix all (l : list content) : bool := match l with [] => true | x :: xs => frag1 x && all xs end) cs = true <->
  Forall (fun x => frag1 x = true) cs.
Proof.
  induction cs as [|x xs IH]; [split; constructor|]. rewrite andb_true_iff, IH. split.
  - intros [? ?]. constructor; assumption.
  - intros H. inversion H; auto.
Qed.
Lemma frag_all cs :
  (fix all (l : list content) : bool := match l with [] => true | x :: xs => frag x && all xs end) cs = true <->
  Forall (fun x => frag x = true) cs.
Proof.
  induction cs as [|x xs IH]; [split; constructor|]. rewrite andb_true_iff, IH. split.
  - intros [? ?]. constructor; assumption.
  - intros H. inversion H; auto.
Qed.

(* ---------------------------------------------------------------- axis resolution *)
Lemma resolve_err t d axis e : resolve_axis t d axis = Err e -> e = EValue.
Proof.
  unfold resolve_axis. destruct (0 <=? axis); [discriminate|]. destruct (minmax t) as [mn mx].
  destruct (mn =? mx).
  - destruct (mx + axis <? 0); [congruence|discriminate].
  - destruct (mn + axis =? 0); [congruence|discriminate].
Qed.
Lemma resolve_idem t d axis ax : 0 <= d -> resolve_axis t d axis = Ok ax -> resolve_axis t d ax = Ok ax.
Proof.
  intros Hd. unfold resolve_axis. destruct (0 <=? axis) eqn:E.
  - intros H. inversion H; subst. rewrite E. reflexivity.
  - destruct (minmax t) as [mn mx]. destruct (mn =? mx) eqn:Em.
    + destruct (mx + axis <? 0) eqn:E2; [discriminate|]. intros H. inversion H; subst.
      destruct (0 <=? d + mx + axis) eqn:E3; [reflexivity|lia].
    + destruct (mn + axis =? 0) eqn:E2; [discriminate|]. intros H. inversion H; subst.
      rewrite E, E2. reflexivity.
Qed.

(* ---------------------------------------------------------------- unfolding the three recursions *)
Section Unfold.
  Variable f : ty -> list value -> res value.
  Variable g : option akind -> content -> res content.
  Variable unk : res content.
  Variables (unk_ok : bool) (fchk : ty -> bool) (str_ok : bool).

  Definition check_all (d ax : Z) (ts : list ty) : res unit :=
    (fix all (l : list ty) : res unit :=
       match l with [] => Ok tt | x :: xs => do _ <- check_ax unk_ok fchk str_ok x d ax; all xs end) ts.
  Definition check_body (t : ty) (d ax : Z) : res unit :=
    match t with
    | TNum _ => Err EValue
    | TUnk => if unk_ok then Ok tt else Err EValue
    | TList _ str t' =>
        if ax =? d + 1 then
          (if fchk t' && (str_ok || match str with None => true | Some _ => false end) then Ok tt else Err EValue)
        else check_ax unk_ok fchk str_ok t' (d + 1) ax
    | TOpt t' => check_ax unk_ok fchk str_ok t' d ax
    | TRec _ ts => check_all d ax ts
    | TUnion ts => check_all d ax ts
    end.
  Lemma check_ax_eq t d axis :
    check_ax unk_ok fchk str_ok t d axis = do ax <- resolve_axis t d axis; check_body t d ax.
  Proof. destruct t; reflexivity. Qed.
  Lemma check_all_cons d ax t ts :
    check_all d ax (t :: ts) = do _ <- check_ax unk_ok fchk str_ok t d ax; check_all d ax ts.
  Proof. reflexivity. Qed.

  Fixpoint tup_go (d ax : Z) (ts : list ty) (xs : list value) : res (list value) :=
    match ts, xs with
    | [], [] => Ok []
    | t1 :: ts', x :: xs' => do y <- spec_v f t1 d ax x; do ys <- tup_go d ax ts' xs'; Ok (y :: ys)
    | _, _ => Err EValue
    end.
  Fixpoint rec_go (d ax : Z) (ts : list ty) (fs : list (name * value)) : res (list (name * value)) :=
    match ts, fs with
    | [], [] => Ok []
    | t1 :: ts', (k, x) :: fs' => do y <- spec_v f t1 d ax x; do ys <- rec_go d ax ts' fs'; Ok ((k, y) :: ys)
    | _, _ => Err EValue
    end.
  Definition spec_body (t : ty) (d ax : Z) (v : value) : res value :=
    match t with
    | TNum _ | TUnk => Err EValue
    | TList _ _ t' =>
        let go (l : list value) :=
          if ax =? d + 1 then f t' l else rmap VList (mapM (spec_v f t' (d + 1) ax) l) in
        match v with
        | VList l => go l
        | VStr _ s => go (chars_of s)
        | _ => Err EValue
        end
    | TOpt t' => match v with VNone => Ok VNone | _ => spec_v f t' d ax v end
    | TRec _ ts =>
        match v with
        | VRec fs => rmap VRec (rec_go d ax ts fs)
        | VTup xs => rmap VTup (tup_go d ax ts xs)
        | _ => Err EValue
        end
    | TUnion _ => Err EValue
    end.
  Lemma tup_go_eq d ax ts xs :
    (fix go (ts : list ty) (xs : list value) : res (list value) :=
       match ts, xs with
       | [], [] => Ok []
       | t1 :: ts', x :: xs' => do y <- spec_v f t1 d ax x; do ys <- go ts' xs'; Ok (y :: ys)
       | _, _ => Err EValue
       end) ts xs = tup_go d ax ts xs.
  Proof. revert xs. induction ts as [|t ts IH]; intros [|x xs]; try reflexivity. cbn [tup_go]. rewrite <- IH. reflexivity. Qed.
  Lemma rec_go_eq d ax ts fs :
    (fix go (ts : list ty) (fs : list (name * value)) : res (list (name * value)) :=
       match ts, fs with
       | [], [] => Ok []
       | t1 :: ts', (k, x) :: fs' => do y <- spec_v f t1 d ax x; do ys <- go ts' fs'; Ok ((k, y) :: ys)
       | _, _ => Err EValue
       end) ts fs = rec_go d ax ts fs.
  Proof.
    revert fs. induction ts as [|t ts IH]; intros [|[k x] fs]; try reflexivity. cbn [rec_go]. rewrite <- IH. reflexivity.
  Qed.
  Lemma spec_v_eq t d axis v :
    spec_v f t d axis v = do ax <- resolve_axis t d axis; spec_body t d ax v.
  Proof.
    destruct t; try reflexivity.
    cbn [spec_v spec_body]. destruct (resolve_axis _ d axis) as [ax|]; [|reflexivity]. cbn [bind].
    destruct v; try reflexivity.
    - rewrite <- rec_go_eq. reflexivity.
    - rewrite <- tup_go_eq. reflexivity.
  Qed.

  Definition model_body (p : option akind) (c : content) (d ax : Z) : res content :=
    match c with
    | Numpy _ _ _ => Err EValue
    | Empty => unk
    | ListOffset w o c' =>
        if ax =? d + 1 then gs g str_ok p c else rmap (ListOffset w o) (model_axp g unk str_ok None c' (d + 1) ax)
    | ListA w s e c' =>
        if ax =? d + 1 then gs g str_ok p c else rmap (ListA w s e) (model_axp g unk str_ok None c' (d + 1) ax)
    | Regular c' size zl =>
        if ax =? d + 1 then gs g str_ok p c else rmap (fun x => Regular x size zl) (model_axp g unk str_ok None c' (d + 1) ax)
    | Indexed w ix c' => rmap (Indexed w ix) (model_axp g unk str_ok None c' d ax)
    | IndexedOption w ix c' => rmap (IndexedOption w ix) (model_axp g unk str_ok None c' d ax)
    | ByteMasked m vw c' => rmap (ByteMasked m vw) (model_axp g unk str_ok None c' d ax)
    | BitMasked m vw lsb n c' => rmap (BitMasked m vw lsb n) (model_axp g unk str_ok None c' d ax)
    | Unmasked c' => rmap Unmasked (model_axp g unk str_ok None c' d ax)
    | Union w t ix cs => rmap (Union w t ix) (mapM (fun x => model_axp g unk str_ok None x d ax) cs)
    | Record cs ks n => rmap (fun cs' => Record cs' ks n) (mapM (fun x => model_axp g unk str_ok None x d ax) cs)
    | Par a r c' => model_axp g unk str_ok a c' d ax
    end.
  Lemma model_axp_eq p c d axis :
    model_axp g unk str_ok p c d axis = do ax <- resolve_axis (type_of_p p c) d axis; model_body p c d ax.
  Proof.
    destruct c; try reflexivity.
    - cbn [model_axp model_body]. destruct (resolve_axis _ d axis) as [ax|]; [|reflexivity]. cbn [bind]. f_equal.
      induction cs as [|x xs IH]; [reflexivity|]. cbn [mapM]. rewrite <- IH. reflexivity.
    - cbn [model_axp model_body]. destruct (resolve_axis _ d axis) as [ax|]; [|reflexivity]. cbn [bind]. f_equal.
      induction cs as [|x xs IH]; [reflexivity|]. cbn [mapM]. rewrite <- IH. reflexivity.
  Qed.

  (* re-resolving an already resolved axis changes nothing *)
  Lemma check_ax_resolved t d axis ax :
    0 <= d -> resolve_axis t d axis = Ok ax ->
    check_ax unk_ok fchk str_ok t d ax = check_ax unk_ok fchk str_ok t d axis.
  Proof. intros Hd H. rewrite !check_ax_eq, H, (resolve_idem _ _ _ _ Hd H). reflexivity. Qed.
  Lemma spec_v_resolved t d axis ax v :
    0 <= d -> resolve_axis t d axis = Ok ax -> spec_v f t d ax v = spec_v f t d axis v.
  Proof. intros Hd H. rewrite !spec_v_eq, H, (resolve_idem _ _ _ _ Hd H). reflexivity. Qed.
  Lemma model_axp_resolved p c d axis ax :
    0 <= d -> resolve_axis (type_of_p p c) d axis = Ok ax ->
    model_axp g unk str_ok p c d ax = model_axp g unk str_ok p c d axis.
  Proof. intros Hd H. rewrite !model_axp_eq, H, (resolve_idem _ _ _ _ Hd H). reflexivity. Qed.
End Unfold.

(* ---------------------------------------------------------------- value-level commutation lemmas *)
Lemma mapM_square {A B C} (P : A -> res B) (Q : A -> res C) (S : B -> res C) l vs :
  (forall x v, In x l -> P x = Ok v -> exists w, Q x = Ok w /\ S v = Ok w) ->
  mapM P l = Ok vs -> exists ws, mapM Q l = Ok ws /\ mapM S vs = Ok ws.
Proof.
  revert vs. induction l as [|x l IH]; intros vs H Hp; cbn [mapM] in Hp.
  - inversion Hp; subst. exists []. split; reflexivity.
  - apply bind_Ok in Hp as (v & Hv & Hp). apply bind_Ok in Hp as (vs' & Hvs' & Hp). inversion Hp; subst.
    destruct (H x v (or_introl eq_refl) Hv) as (w & Hq & Hs).
    destruct (IH vs') as (ws & Hqs & Hss); [intros y u Hy; apply H; right; exact Hy|exact Hvs'|].
    exists (w :: ws). cbn [mapM]. rewrite Hq, Hqs, Hs, Hss. split; reflexivity.
Qed.

Lemma gather_all {A} (l : list A) : mapM (get l) (iota (zlen l)) = Ok l.
Proof.
  pose proof (zlen_nonneg l).
  replace (iota (zlen l)) with (range 0 (zlen l)) by (unfold range, iota; rewrite Z.sub_0_r; reflexivity).
  rewrite gather_range by lia. rewrite slice_ok by lia. rewrite Z.sub_0_r. unfold drop. cbn [Z.to_nat skipn].
  rewrite take_all by lia. reflexivity.
Qed.

(* a RegularArray's chunks as cuts at the bounds list_bounds computes *)
Lemma chunks_as_cuts {A} (vs : list A) size zl ch :
  chunks vs size zl = Ok ch ->
  mapM (cut1 vs) (map (fun i => (i * size, (i + 1) * size)) (iota (zlen ch))) = Ok ch.
Proof.
  intros H. rewrite mapM_map. transitivity (mapM (get ch) (iota (zlen ch))); [|apply gather_all]. apply mapM_ext_in. intros i Hi. apply iota_In' in Hi.
  rewrite (chunks_get _ _ _ _ i H Hi). unfold cut1.
  destruct (i * size =? (i + 1) * size) eqn:E; [|reflexivity].
  pose proof (chunks_zlen _ _ _ _ H) as [Hs _]. assert (size = 0) by lia. subst size.
  rewrite !Z.mul_0_r. rewrite slice_ok by (pose proof (zlen_nonneg vs); lia). reflexivity.
Qed.

Section Commute.
  Variable F : value -> res value.

  Lemma cut1_mapM vs0 ws0 ab l :
    mapM F vs0 = Ok ws0 -> cut1 vs0 ab = Ok l -> exists l', cut1 ws0 ab = Ok l' /\ mapM F l = Ok l'.
  Proof.
    intros HF. destruct ab as [a b]. unfold cut1. destruct (a =? b).
    - intros H. inversion H; subst. exists []. split; reflexivity.
    - intros H. pose proof (slice_inv _ _ _ _ H) as (H1 & H2 & H3 & _).
      pose proof (mapM_zlen _ _ _ HF) as Hz.
      rewrite <- gather_range in H by lia.
      rewrite <- gather_range by lia. rewrite <- (mapM_gather_ok F vs0 ws0 (range a b) l HF H).
      destruct (gather_ok ws0 (range a b)) as [l' Hl'].
      { apply Forall_forall. intros i Hi. apply range_In in Hi. lia. }
      exists l'. rewrite (mapM_gather_ok F vs0 ws0 (range a b) l HF H). split; exact Hl'.
  Qed.

  Lemma cuts_mapM vs0 ws0 bs ls :
    mapM F vs0 = Ok ws0 -> mapM (cut1 vs0) bs = Ok ls ->
    exists ls', mapM (cut1 ws0) bs = Ok ls' /\ mapM (fun l => rmap VList (mapM F l)) ls = Ok (map VList ls').
  Proof.
    intros HF H.
    destruct (mapM_square (cut1 vs0) (cut1 ws0) (mapM F) bs ls) as (ls' & H1 & H2); [|exact H|].
    { intros ab l _ Hl. destruct (cut1_mapM vs0 ws0 ab l HF Hl) as (l' & ? & ?). eauto. }
    exists ls'. split; [exact H1|]. rewrite mapM_rmap, H2. reflexivity.
  Qed.

  Definition optF (v : value) : res value := match v with VNone => Ok VNone | _ => F v end.

  Lemma pick_square vs0 ws0 b i v :
    mapM F vs0 = Ok ws0 -> (forall x, In x vs0 -> x <> VNone) -> pick_opt vs0 b i = Ok v ->
    exists w, pick_opt ws0 b i = Ok w /\ optF v = Ok w.
  Proof.
    intros HF Hnn. unfold pick_opt. destruct b.
    - intros Hg. pose proof (get_In _ _ _ Hg) as Hin. destruct (mapM_Ok_In F vs0 ws0 v HF Hin) as (w & Hw & _).
      exists w. rewrite (mapM_get F vs0 ws0 i HF), Hg. cbn [bind]. split; [exact Hw|].
      specialize (Hnn v Hin). destruct v; try exact Hw. congruence.
    - intros H. inversion H; subst. exists VNone. split; reflexivity.
  Qed.

  Lemma optF_nonone vs0 ws0 :
    mapM F vs0 = Ok ws0 -> (forall x, In x vs0 -> x <> VNone) -> mapM optF vs0 = Ok ws0.
  Proof.
    intros HF Hnn. rewrite <- HF. apply mapM_ext_in. intros v Hv. specialize (Hnn v Hv).
    destruct v; try reflexivity. congruence.
  Qed.
End Commute.

(* records: one function per column *)
Fixpoint tupF (Fs : list (value -> res value)) (xs : list value) : res (list value) :=
  match Fs, xs with
  | [], [] => Ok []
  | F1 :: Fs', x :: xs' => do y <- F1 x; do ys <- tupF Fs' xs'; Ok (y :: ys)
  | _, _ => Err EValue
  end.
Fixpoint recF (Fs : list (value -> res value)) (fs : list (name * value)) : res (list (name * value)) :=
  match Fs, fs with
  | [], [] => Ok []
  | F1 :: Fs', (k, x) :: fs' => do y <- F1 x; do ys <- recF Fs' fs'; Ok ((k, y) :: ys)
  | _, _ => Err EValue
  end.
Lemma tup_go_tupF f d ax ts xs : tup_go f d ax ts xs = tupF (map (fun t => spec_v f t d ax) ts) xs.
Proof. revert xs. induction ts as [|t ts IH]; intros [|x xs]; try reflexivity. cbn [tup_go map tupF]. rewrite IH. reflexivity. Qed.
Lemma rec_go_recF f d ax ts fs : rec_go f d ax ts fs = recF (map (fun t => spec_v f t d ax) ts) fs.
Proof.
  revert fs. induction ts as [|t ts IH]; intros [|[k x] fs]; try reflexivity. cbn [rec_go map recF]. rewrite IH. reflexivity.
Qed.
Lemma recF_zip Fs : forall ks xs ys,
  tupF Fs xs = Ok ys -> length ks = length xs -> recF Fs (zip ks xs) = Ok (zip ks ys).
Proof.
  induction Fs as [|F1 Fs IH]; intros ks xs ys H Hlen.
  - destruct xs; [|discriminate]. inversion H; subst. destruct ks; [reflexivity|discriminate].
  - destruct xs as [|x xs]; [discriminate|]. cbn [tupF] in H.
    apply bind_Ok in H as (y & Hy & H). apply bind_Ok in H as (ys' & Hys & H). inversion H; subst.
    destruct ks as [|k ks]; [discriminate|]. cbn [zip recF]. rewrite Hy. cbn [bind].
    rewrite (IH ks xs ys' Hys) by (cbn in Hlen; lia). reflexivity.
Qed.
Lemma tupF_length Fs : forall xs ys, tupF Fs xs = Ok ys -> length ys = length xs.
Proof.
  induction Fs as [|F1 Fs IH]; intros [|x xs] ys H; try discriminate.
  - inversion H; reflexivity.
  - cbn [tupF] in H. apply bind_Ok in H as (y & Hy & H). apply bind_Ok in H as (ys' & Hys & H). inversion H; subst.
    cbn [length]. f_equal. eapply IH, Hys.
Qed.

Inductive cols_rel : list (value -> res value) -> list (list value) -> list (list value) -> Prop :=
| cols_nil : cols_rel [] [] []
| cols_cons F Fs col vss wcol wss :
    mapM F col = Ok wcol -> cols_rel Fs vss wss -> cols_rel (F :: Fs) (col :: vss) (wcol :: wss).

Lemma fields_commute Fs vss wss i : cols_rel Fs vss wss -> forall xs,
  mapM (fun col : list value => get col i) vss = Ok xs ->
  exists ys, mapM (fun col : list value => get col i) wss = Ok ys /\ tupF Fs xs = Ok ys.
Proof.
  induction 1 as [|F Fs col vss wcol wss HF Hrel IH]; intros xs Hx.
  - inversion Hx; subst. exists []. split; reflexivity.
  - cbn [mapM] in Hx. apply bind_Ok in Hx as (x & Hgx & Hx). apply bind_Ok in Hx as (xs' & Hxs' & Hx). inversion Hx; subst.
    destruct (IH xs' Hxs') as (ys & Hys & Ht).
    pose proof (get_In _ _ _ Hgx) as Hin. destruct (mapM_Ok_In F col wcol x HF Hin) as (y & Hy & _).
    exists (y :: ys). cbn [mapM tupF]. rewrite (mapM_get F col wcol i HF), Hgx. cbn [bind]. rewrite Hy, Hys, Ht. split; reflexivity.
Qed.

Definition recS (Fs : list (value -> res value)) (v : value) : res value :=
  match v with
  | VRec fs => rmap VRec (recF Fs fs)
  | VTup xs => rmap VTup (tupF Fs xs)
  | _ => Err EValue
  end.
Lemma row_commute Fs ks vss wss i v :
  cols_rel Fs vss wss -> row ks vss i = Ok v -> exists w, row ks wss i = Ok w /\ recS Fs v = Ok w.
Proof.
  intros Hrel. unfold row. intros H. apply bind_Ok in H as (xs & Hxs & H).
  destruct (fields_commute Fs vss wss i Hrel xs Hxs) as (ys & Hys & Ht). rewrite Hys. cbn [bind].
  pose proof (tupF_length _ _ _ Ht) as Hlen.
  destruct ks as [k|].
  - destruct (Nat.eqb (length k) (length xs)) eqn:E; [|discriminate]. inversion H; subst.
    rewrite Hlen, E. apply Nat.eqb_eq in E. eexists. split; [reflexivity|]. cbn [recS].
    rewrite (recF_zip Fs k xs ys Ht E). reflexivity.
  - inversion H; subst. eexists. split; [reflexivity|]. cbn [recS]. rewrite Ht. reflexivity.
Qed.

(* ---------------------------------------------------------------- typing facts used below *)
Lemma has_type_list_inv sz t v :
  has_type (TList sz None t) v -> exists l, v = VList l /\ Forall (has_type t) l.
Proof.
  unfold has_type. cbn [has_typeb]. destruct v; try discriminate. intros H. apply andb_true_iff in H as [H _].
  exists l. split; [reflexivity|]. apply Forall_forall. intros x Hx. rewrite forallb_forall in H. apply H, Hx.
Qed.

Lemma optionlike_Par a r c : optionlike (Par a r c) = optionlike c.
Proof. reflexivity. Qed.

Lemma typed_nonone c : forall p, frag1 c = true -> optionlike c = false -> has_typeb (type_of_p p c) VNone = false.
Proof.
  induction c using content_ind'; intros p Hfr Ho; cbn [type_of_p]; try reflexivity; try discriminate.
  - cbn [frag1] in Hfr. destruct shape as [|x [|? ?]]; try discriminate. reflexivity.
  - destruct (strflag p); reflexivity.
  - destruct (strflag p); reflexivity.
  - destruct (strflag p); reflexivity.
  - destruct ks; reflexivity.
  - rewrite optionlike_Par in Ho. apply IHc; assumption.
Qed.

Lemma nonone_values c vs :
  Valid None c -> frag1 c = true -> optionlike c = false -> to_list c = Ok vs -> forall x, In x vs -> x <> VNone.
Proof.
  intros HV Hfr Ho Hl x Hx ->. pose proof (to_list_typed_thm c vs HV Hl) as Ht.
  rewrite Forall_forall in Ht. specialize (Ht VNone Hx). unfold has_type, type_of in Ht.
  rewrite (typed_nonone c None Hfr Ho) in Ht. discriminate.
Qed.

Lemma Valid_param p c : Valid p c -> p = None \/ is_strk p = true.
Proof.
  intros H. destruct p as [[]|]; auto; exfalso; inversion H; subst;
    match goal with Hp : ParamOk _ _ |- _ => exact Hp end.
Qed.

(* ---------------------------------------------------------------- the refinement *)
Definition refines (m : res content) (chk : res unit) (sv : res (list value)) : Prop :=
  match m with
  | Ok c' => chk = Ok tt /\ exists ws, sv = Ok ws /\ to_list c' = Ok ws
  | Err EValue => chk = Err EValue
  | Err _ => False
  end.

Lemma refines_rmap (K : content -> content) m chk sv0 sv :
  refines m chk sv0 ->
  (forall c' ws0, to_list c' = Ok ws0 -> sv0 = Ok ws0 -> exists ws, sv = Ok ws /\ to_list (K c') = Ok ws) ->
  refines (rmap K m) chk sv.
Proof.
  intros H HK. destruct m as [c'|[]]; cbn [rmap refines] in *; auto.
  destruct H as (Hc & ws0 & Hs & Ht). split; [exact Hc|]. eapply HK; eassumption.
Qed.

Section Generic.
  Variable f : ty -> list value -> res value.
  Variable g : option akind -> content -> res content.
  Variable unk : res content.
  Variables (unk_ok : bool) (fchk : ty -> bool) (str_ok : bool).

  (* (Hg) the action on a list node's buffers computes the action on each of its lists *)
  Hypothesis Hg : forall p c cc vs,
    Valid p c -> list_content c = Some cc -> to_list c = Ok vs -> fchk (type_of cc) = true ->
    (is_strk p = true -> str_ok = true) ->
    exists c', g p c = Ok c' /\
               to_list c' = mapM (fun v => match v with VList l => f (type_of cc) l | _ => Err EValue end) vs.
  (* where the element type is not acceptable the layout-level action refuses, too *)
  Hypothesis Hgchk : forall p c cc,
    Valid p c -> list_content c = Some cc -> fchk (type_of cc) = false -> g p c = Err EValue.
  (* (Hf) the value-level action is total on well-typed lists *)
  Hypothesis Hf : forall t l, fchk t = true -> Forall (has_type t) l -> exists v, f t l = Ok v.
  (* (Hunk) below an EmptyArray *)
  Hypothesis Hunk : if unk_ok then exists c', unk = Ok c' /\ to_list c' = Ok [] else unk = Err EValue.

  Notation MA := (model_axp g unk str_ok).
  Notation CA := (check_ax unk_ok fchk str_ok).
  Notation SV := (spec_v f).
  Notation MB := (model_body g unk str_ok).
  Notation CB := (check_body unk_ok fchk str_ok).
  Notation SB := (spec_body f).

  Lemma refines_resolve p c d axis vs :
    (forall ax, resolve_axis (type_of_p p c) d axis = Ok ax ->
                refines (MB p c d ax) (CB (type_of_p p c) d ax) (mapM (SB (type_of_p p c) d ax) vs)) ->
    refines (MA p c d axis) (CA (type_of_p p c) d axis) (mapM (SV (type_of_p p c) d axis) vs).
  Proof.
    intros H. rewrite model_axp_eq, check_ax_eq.
    destruct (resolve_axis (type_of_p p c) d axis) as [ax|e] eqn:Er.
    - cbn [bind]. rewrite (mapM_ext_in (SV (type_of_p p c) d axis) (SB (type_of_p p c) d ax)).
      + apply H. reflexivity.
      + intros v _. rewrite spec_v_eq, Er. reflexivity.
    - apply resolve_err in Er. subst e. reflexivity.
  Qed.

  (* nodes that do not change the type (IndexedArray, parameter-less Par) *)
  Lemma refines_transparent p c t0 d axis vs (M : Z -> res content) :
    0 <= d -> type_of_p p c = t0 -> (forall ax, MB p c d ax = M ax) ->
    (forall ax, resolve_axis t0 d axis = Ok ax -> refines (M ax) (CA t0 d ax) (mapM (SV t0 d ax) vs)) ->
    refines (MA p c d axis) (CA t0 d axis) (mapM (SV t0 d axis) vs).
  Proof.
    intros Hd Ht HM H. rewrite model_axp_eq, Ht.
    destruct (resolve_axis t0 d axis) as [ax|e] eqn:Er.
    - cbn [bind]. rewrite HM. rewrite <- (check_ax_resolved unk_ok fchk str_ok t0 d axis ax Hd Er).
      rewrite (mapM_ext_in (SV t0 d axis) (SV t0 d ax)).
      + apply H. reflexivity.
      + intros v _. symmetry. apply spec_v_resolved; assumption.
    - rewrite check_ax_eq, Er. apply resolve_err in Er. subst e. reflexivity.
  Qed.

  Lemma SB_list_at sz str t' d ax v :
    (ax =? d + 1) = true ->
    SB (TList sz str t') d ax v =
    match v with VList l => f t' l | VStr _ s => f t' (chars_of s) | _ => Err EValue end.
  Proof. intros E. cbn [spec_body]. rewrite E. destruct v; reflexivity. Qed.
  Lemma SB_list_below sz str t' d ax l :
    (ax =? d + 1) = false -> SB (TList sz str t') d ax (VList l) = rmap VList (mapM (SV t' (d + 1) ax) l).
  Proof. intros E. cbn [spec_body]. rewrite E. reflexivity. Qed.

  (* the axis sits at this list node (no string parameter) *)
  Lemma at_axis_none c cc sz vs :
    Valid None c -> list_content c = Some cc -> type_of_p None c = TList sz None (type_of_p None cc) ->
    to_list c = Ok vs ->
    refines (gs g str_ok None c)
            (if fchk (type_of_p None cc) && (str_ok || true) then Ok tt else Err EValue)
            (mapM (fun v => match v with
                            | VList l => f (type_of_p None cc) l
                            | VStr _ s => f (type_of_p None cc) (chars_of s)
                            | _ => Err EValue end) vs).
  Proof.
    intros HV Hc Ht Hl. unfold gs. cbn [is_strk andb]. rewrite orb_true_r, andb_true_r.
    destruct (fchk (type_of_p None cc)) eqn:Efc.
    - destruct (Hg None c cc vs HV Hc Hl Efc) as (c' & Hgc & Hlc); [discriminate|].
      rewrite Hgc. cbn [refines]. split; [reflexivity|].
      pose proof (to_list_typed_thm c vs HV Hl) as Hty. unfold type_of in Hty. rewrite Ht in Hty.
      destruct (mapM_total (fun v => match v with
                                     | VList l => f (type_of_p None cc) l
                                     | VStr _ s => f (type_of_p None cc) (chars_of s)
                                     | _ => Err EValue end) vs) as [ws Hws].
      { intros v Hv. rewrite Forall_forall in Hty. destruct (has_type_list_inv _ _ _ (Hty v Hv)) as (l & -> & Hl0).
        apply Hf; assumption. }
      exists ws. split; [exact Hws|]. rewrite Hlc, <- Hws. apply mapM_ext_in. intros v Hv.
      rewrite Forall_forall in Hty. destruct (has_type_list_inv _ _ _ (Hty v Hv)) as (l & -> & _). reflexivity.
    - rewrite (Hgchk None c cc HV Hc Efc). reflexivity.
  Qed.

  (* ... or below it *)
  Lemma below_list (K : content -> content) c0 t0 d ax vs0 bs ls sz :
    (forall c' ws0 ls', to_list c' = Ok ws0 -> zlen ws0 = zlen vs0 -> mapM (cut1 ws0) bs = Ok ls' ->
                        to_list (K c') = Ok (map VList ls')) ->
    (ax =? d + 1) = false -> mapM (cut1 vs0) bs = Ok ls ->
    refines (MA None c0 (d + 1) ax) (CA t0 (d + 1) ax) (mapM (SV t0 (d + 1) ax) vs0) ->
    refines (rmap K (MA None c0 (d + 1) ax)) (CA t0 (d + 1) ax) (mapM (SB (TList sz None t0) d ax) (map VList ls)).
  Proof.
    intros HK Eax Hcut IH. eapply refines_rmap; [exact IH|].
    intros c' ws0 Hc' HF.
    destruct (cuts_mapM (SV t0 (d + 1) ax) vs0 ws0 bs ls HF Hcut) as (ls' & Hls' & Hm).
    exists (map VList ls'). split.
    - rewrite mapM_map, <- Hm. apply mapM_ext_in. intros l _. apply SB_list_below, Eax.
    - eapply HK; [exact Hc'|apply (mapM_zlen _ _ _ HF)|exact Hls'].
  Qed.

  (* option nodes *)
  Lemma below_option (K : content -> content) {I} c0 t0 d ax vs0 vs (ixs : list I) (b : I -> bool) (idx : I -> Z) :
    (forall x, In x vs0 -> x <> VNone) ->
    (forall c' ws0 ws, to_list c' = Ok ws0 -> zlen ws0 = zlen vs0 -> mapM (fun i => pick_opt ws0 (b i) (idx i)) ixs = Ok ws ->
                       to_list (K c') = Ok ws) ->
    mapM (fun i => pick_opt vs0 (b i) (idx i)) ixs = Ok vs ->
    refines (MA None c0 d ax) (CA t0 d ax) (mapM (SV t0 d ax) vs0) ->
    refines (rmap K (MA None c0 d ax)) (CA t0 d ax) (mapM (SB (TOpt t0) d ax) vs).
  Proof.
    intros Hnn HK Hvs IH. eapply refines_rmap; [exact IH|].
    intros c' ws0 Hc' HF.
    destruct (mapM_square (fun i => pick_opt vs0 (b i) (idx i)) (fun i => pick_opt ws0 (b i) (idx i))
                          (optF (SV t0 d ax)) ixs vs) as (ws & Hq & Hs); [|exact Hvs|].
    { intros i v _ Hp. eapply pick_square; eassumption. }
    exists ws. split; [exact Hs|]. eapply HK; [exact Hc'|apply (mapM_zlen _ _ _ HF)|exact Hq].
  Qed.

  (* the fields of a record, in order *)
  Lemma rec_fields d ax : forall cs vss,
    Forall (fun x => forall vs, to_list x = Ok vs ->
                     refines (MA None x d ax) (CA (type_of_p None x) d ax) (mapM (SV (type_of_p None x) d ax) vs)) cs ->
    mapM to_list cs = Ok vss ->
    match mapM (fun x => MA None x d ax) cs with
    | Ok cs' => check_all unk_ok fchk str_ok d ax (map (type_of_p None) cs) = Ok tt /\
                exists wss, mapM to_list cs' = Ok wss /\
                            cols_rel (map (fun t => SV t d ax) (map (type_of_p None) cs)) vss wss
    | Err EValue => check_all unk_ok fchk str_ok d ax (map (type_of_p None) cs) = Err EValue
    | Err _ => False
    end.
  Proof.
    induction cs as [|x xs IH]; intros vss HF Hv.
    - inversion Hv; subst. cbn. split; [reflexivity|]. exists []. split; [reflexivity|constructor].
    - cbn [mapM] in Hv. apply bind_Ok in Hv as (col & Hcol & Hv). apply bind_Ok in Hv as (vss' & Hvss' & Hv). inversion Hv; subst.
      inversion HF as [|? ? Hx Hxs]; subst. specialize (Hx col Hcol). specialize (IH vss' Hxs Hvss').
      cbn [mapM map]. rewrite check_all_cons.
      destruct (MA None x d ax) as [x'|[]]; cbn [refines bind] in *; try contradiction.
      + destruct Hx as (Hchk & ws & Hs & Ht). rewrite Hchk. cbn [bind].
        destruct (mapM (fun x0 => MA None x0 d ax) xs) as [xs'|[]]; cbn [bind] in *; try contradiction.
        * destruct IH as (Hchks & wss & Hwss & Hrel). split; [exact Hchks|].
          exists (ws :: wss). cbn [mapM]. rewrite Ht, Hwss. split; [reflexivity|]. constructor; assumption.
        * exact IH.
      + rewrite Hx. reflexivity.
  Qed.

  (* string / bytestring nodes: the character buffer below is not a place an axis can point to *)
  Lemma chars_model k rn dt n dd d a : MA None (Par (Some k) rn (Numpy dt [n] dd)) d a = Err EValue.
  Proof.
    rewrite model_axp_eq. destruct (resolve_axis _ d a) as [ax|e] eqn:E; [|apply resolve_err in E; subst; reflexivity].
    cbn [bind model_body]. rewrite model_axp_eq.
    destruct (resolve_axis _ d ax) as [ax'|e] eqn:E'; [reflexivity|apply resolve_err in E'; subst; reflexivity].
  Qed.
  Lemma chars_check dt d a : CA (TNum dt) d a = Err EValue.
  Proof.
    rewrite check_ax_eq. destruct (resolve_axis _ d a) as [ax|e] eqn:E; [reflexivity|apply resolve_err in E; subst; reflexivity].
  Qed.

  Lemma bytes_of_chars l s : bytes_of (VList l) = Ok s -> l = chars_of s.
  Proof.
    cbn [bytes_of]. unfold chars_of. revert s. induction l as [|x l IH]; intros s H; cbn [mapM] in H.
    - inversion H. reflexivity.
    - apply bind_Ok in H as (z & Hz & H). apply bind_Ok in H as (s' & Hs' & H). inversion H; subst.
      cbn [map]. rewrite <- (IH s' Hs'). destruct x as [[] | | | | | |]; try discriminate. inversion Hz. reflexivity.
  Qed.

  Lemma string_node p rn c0 vs d axis :
    is_strk p = true -> Valid p c0 -> 0 <= d -> to_list (Par p rn c0) = Ok vs ->
    refines (MA p c0 d axis) (CA (type_of_p p c0) d axis) (mapM (SV (type_of_p p c0) d axis) vs).
  Proof.
    intros Es HV Hd Hl.
    assert (Hp : ParamOk p c0) by (inversion HV; subst; try assumption; discriminate).
    destruct (ParamOk_str p c0 Hp Es) as (cc & k & rn' & n & dd & Hcc & Hccdef & Hk).
    rewrite to_list_Par in Hl. apply bind_Ok in Hl as (raw & Hraw & Hl).
    assert (Hcook : exists b, strflag p = Some b /\ mapM (fun v => rmap (VStr b) (bytes_of v)) raw = Ok vs).
    { destruct p as [[]|]; try discriminate; eexists; split; try reflexivity; exact Hl. }
    destruct Hcook as (b & Hb & Hcook). clear Hl.
    (* raw values are lists of character codes *)
    assert (Hshape : exists ls, raw = map VList ls).
    { destruct c0; try discriminate.
      - rewrite to_list_ListOffset in Hraw. apply bind_Ok in Hraw as (? & _ & H). apply rmap_Ok in H as (ls & _ & ->). eauto.
      - rewrite to_list_ListA in Hraw. apply bind_Ok in Hraw as (? & _ & H). apply rmap_Ok in H as (ls & _ & ->). eauto.
      - rewrite to_list_Regular in Hraw. apply bind_Ok in Hraw as (? & _ & H). apply rmap_Ok in H as (ls & _ & ->). eauto. }
    destruct Hshape as (ls & ->).
    assert (Hty : exists sz, type_of_p p c0 = TList sz (Some b) (TNum DUInt8) /\
                  forall ax, MB p c0 d ax = if ax =? d + 1 then gs g str_ok p c0 else Err EValue).
    { destruct c0; try discriminate; cbn [list_content] in Hcc; inversion Hcc; subst; cbn [type_of_p model_body];
        rewrite Hb; eexists; (split; [reflexivity|]); intros ax; destruct (ax =? d + 1); try reflexivity;
        rewrite chars_model; reflexivity. }
    destruct Hty as (sz & Ht & HMB).
    apply refines_resolve. intros ax _. rewrite Ht, HMB. cbn [check_body].
    destruct (ax =? d + 1) eqn:Eax.
    - unfold gs. rewrite Es. cbn [andb]. destruct str_ok eqn:Eso; cbn [negb orb].
      + rewrite andb_true_r.
        assert (Htc : type_of cc = TNum DUInt8) by (subst cc; reflexivity).
        destruct (fchk (TNum DUInt8)) eqn:Efc.
        * destruct (Hg p c0 cc (map VList ls) HV Hcc Hraw) as (c' & Hgc & Hlc); [rewrite Htc; exact Efc|auto|].
          rewrite Hgc. cbn [refines]. split; [reflexivity|]. rewrite Htc in Hlc.
          assert (Heq : mapM (SB (TList sz (Some b) (TNum DUInt8)) d ax) vs =
                        mapM (fun v => match v with VList l => f (TNum DUInt8) l | _ => Err EValue end) (map VList ls)).
          { rewrite (mapM_mapM _ _ _ _ Hcook). apply mapM_ext_in. intros v Hv.
            destruct (mapM_Ok_In _ _ _ _ Hcook Hv) as (y & Hy & _). apply in_map_iff in Hv as (l & <- & _).
            apply rmap_Ok in Hy as (s & Hs & ->). rewrite Hs. cbn [rmap bind]. rewrite SB_list_at by exact Eax.
            rewrite (bytes_of_chars l s Hs). reflexivity. }
          rewrite Heq, <- Hlc.
          destruct (mapM_total (fun v => match v with VList l => f (TNum DUInt8) l | _ => Err EValue end) (map VList ls)) as [ws Hws].
          { intros v Hv. pose proof Hv as Hv'. apply in_map_iff in Hv as (l & <- & _).
            destruct (mapM_Ok_In _ _ _ _ Hcook Hv') as (y & Hy & _). apply rmap_Ok in Hy as (s & Hs & _).
            apply Hf; [exact Efc|]. rewrite (bytes_of_chars l s Hs). apply Forall_forall. intros x Hx.
            apply in_map_iff in Hx as (z & <- & _). reflexivity. }
          exists ws. rewrite Hlc. split; exact Hws.
        * rewrite (Hgchk p c0 cc HV Hcc); [reflexivity|]. rewrite Htc. exact Efc.
      + rewrite andb_false_r. reflexivity.
    - cbn [refines]. apply chars_check.
  Qed.
