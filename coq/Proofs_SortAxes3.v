(** C06, sort along a non-innermost axis (Ops_SortAxes.v), part 3: the list node at the axis ([sort_axes_g]),
    the at-axis descent, and the theorems about [sort_axes_model]:
    refinement of [sort_spec] (values and error status) for every axis, the fragment on which the model never
    declines, checked accesses never fail, layout independence. *)
From Coq Require Import ZArith List Bool Lia ZifyBool Permutation.
From AwkV Require Import Base Layout LayoutInd Valid Types AtAxis Carry Ops_Sort Ops_SortAxes Ops_Reduce Typing Proofs_Typing
                         Proofs_C11 Proofs_Lists Proofs_ToList Proofs_Carry Proofs_CarryValid Proofs_AtAxis Proofs_AtAxisOps
                         Proofs_Sort Proofs_C06 Proofs_SortRef Proofs_SortRef2 Proofs_SortCols Proofs_Reduce Proofs_Reduce2
                         Proofs_Closure Proofs_Closure4 Proofs_SortAxes Proofs_SortAxes2.
Import ListNotations.
Open Scope Z_scope.
Ltac Zify.zify_post_hook ::= Z.to_euclidean_division_equations.

(* ---------------------------------------------------------------- the list node at the axis *)
Definition sgrp (se : Z * Z) : list (Z * Z) := map (fun j => (j, fst se + j)) (iota (snd se - fst se)).

Lemma sort_axes_g_eq asc p c :
  sort_axes_g asc p c =
  do bc <- list_bounds c;
  if negb (saxty (type_of (snd bc))) then Err EValue else
  do out <- sax asc None (expand (snd bc)) (map sgrp (fst bc));
  Ok (ListOffset I64 (offsets_from 0 (map zlen (map sgrp (fst bc)))) out).
Proof. reflexivity. Qed.

Lemma saxty_reducible t : saxty t = true -> reducible t = true.
Proof.
  induction t as [| |sz str t' IH|t' IH| |]; cbn [saxty reducible]; try discriminate; auto.
  - destruct str; [discriminate|]. exact IH.
  - destruct t'; try discriminate. reflexivity.
Qed.

Lemma sgrp_lens asc t vs0 : forall bs ls outs,
  mapM (cut1 vs0) bs = Ok ls -> mapM (fun l => sortcols asc false t (enumv l)) ls = Ok outs ->
  map zlen (map sgrp bs) = map zlen (map (map snd) outs).
Proof.
  induction bs as [|se bs IH]; intros ls outs Hcut Hper; cbn [mapM] in Hcut.
  - inversion Hcut; subst. cbn [mapM] in Hper. inversion Hper. reflexivity.
  - apply bind_Ok in Hcut as (l & Hl' & Hcut). apply bind_Ok in Hcut as (ls' & Hls' & Hcut). inversion Hcut; subst.
    cbn [mapM] in Hper. apply bind_Ok in Hper as (o & Ho & Hper). apply bind_Ok in Hper as (outs' & Houts' & Hper). inversion Hper; subst.
    cbn [map]. f_equal; [|apply (IH ls' outs' Hls' Houts')].
    pose proof (cut1_zlen _ _ _ Hl') as Hz. pose proof (zlen_nonneg l).
    unfold sgrp. rewrite !zlen_map, zlen_iota by lia. apply sortcols_length in Ho.
    unfold enumv in Ho. rewrite zip_length, length_iota_zlen, Nat.min_id in Ho. unfold zlen in *. lia.
Qed.

Lemma sax_Hg asc : forall p c cc vs,
  Valid p c -> list_content c = Some cc -> to_list c = Ok vs -> saxty (type_of cc) = true ->
  (is_strk p = true -> false = true) ->
  exists c', sort_axes_g asc p c = Ok c' /\
             to_list c' = mapM (fun v => match v with VList l => sortcols_f asc false (type_of cc) l | _ => Err EValue end) vs.
Proof.
  intros p c cc vs HV Hc Hl Hs Hstr.
  assert (Es : is_strk p = false) by (destruct (is_strk p); [discriminate (Hstr eq_refl)|reflexivity]).
  pose proof (list_node_content p c cc HV Hc Es) as HVc.
  pose proof (reducible_frag cc None HVc (saxty_reducible _ Hs)) as Hfrag.
  destruct (list_bounds_spec c cc vs Hc Hl) as (bs & vs0 & ls & Hb & Hl0 & Hcut & ->).
  assert (Hr : in_range (zlen vs0) (map sgrp bs)).
  { intros G HG [j pos] Hjp. cbn [snd]. apply in_map_iff in HG as ([s e] & <- & Hse). unfold sgrp in Hjp. cbn [fst snd] in Hjp.
    apply in_map_iff in Hjp as (j' & Hj' & Hin). inversion Hj'; subst. apply iota_In' in Hin.
    destruct (mapM_Ok_In _ _ _ _ Hcut Hse) as (l & Hl' & _). unfold cut1 in Hl'.
    destruct (s =? e) eqn:Ese; [lia|]. pose proof (slice_inv _ _ _ _ Hl') as (H1 & H2 & H3 & _). lia. }
  destruct (sax_all asc (expand cc) None (map sgrp bs) vs0) as (out & outs & Hsax & HVo & Hsp & Hto).
  { apply expand_valid; assumption. }
  { apply expand_frag1; assumption. }
  { fold (type_of (expand cc)). rewrite expand_type_of by assumption. exact Hs. }
  { rewrite expand_to_list by assumption. exact Hl0. }
  { exact Hr. }
  fold (type_of (expand cc)) in Hsp. rewrite expand_type_of in Hsp by assumption.
  (* per list *)
  assert (Hper : mapM (fun l => sortcols asc false (type_of cc) (enumv l)) ls = Ok outs).
  { rewrite (mapM_mapM _ _ _ _ Hcut). rewrite <- Hsp. unfold sax_spec. rewrite mapM_map. apply mapM_ext_in. intros se Hse.
    destruct (mapM_Ok_In _ _ _ _ Hcut Hse) as (l & Hl' & _). rewrite Hl'. cbn [bind].
    unfold sgrp. rewrite (gatherG_cut _ _ _ Hl'). reflexivity. }
  exists (ListOffset I64 (offsets_from 0 (map zlen (map sgrp bs))) out). split.
  { rewrite sort_axes_g_eq, Hb. cbn [bind fst snd]. rewrite Hs. cbn [negb]. rewrite Hsax. reflexivity. }
  rewrite to_list_ListOffset, Hto. cbn [bind].
  rewrite (cut_concat_lens (map (map snd) outs)).
  - cbn [rmap]. rewrite mapM_map. symmetry.
    rewrite (mapM_ext_in _ (fun l => do o <- sortcols asc false (type_of cc) (enumv l); Ok (VList (map snd o)))) by (intros l _; reflexivity).
    rewrite <- (mapM_mapM _ (fun o : list (Z * value) => Ok (VList (map snd o))) _ _ Hper). rewrite mapM_pure, map_map. reflexivity.
  - rewrite (sgrp_lens asc (type_of cc) vs0 bs ls outs Hcut Hper). reflexivity.
Qed.

Lemma sax_Hgchk asc : forall p c cc,
  Valid p c -> list_content c = Some cc -> saxty (type_of cc) = false -> sort_axes_g asc p c = Err EValue.
Proof.
  intros p c cc _ Hc Hs. rewrite sort_axes_g_eq. destruct (list_bounds c) as [[bs cc']|e] eqn:Eb; cbn [bind].
  - rewrite (list_bounds_content _ _ _ _ Eb Hc). cbn [snd]. rewrite Hs. reflexivity.
  - rewrite (list_bounds_err _ _ Eb). reflexivity.
Qed.

Lemma sax_Hf asc : forall t l, saxty t = true -> Forall (has_type t) l -> exists v, sortcols_f asc false t l = Ok v.
Proof.
  intros t l Hs Hty. unfold sortcols_f. destruct (sortcols_total asc t Hs (enumv l)) as [out Hout].
  - apply Forall_forall. intros [j v] Hin. apply zip_In in Hin as [_ Hin]. rewrite Forall_forall in Hty. apply Hty, Hin.
  - rewrite Hout. cbn [bind]. eauto.
Qed.

Lemma sort_axes_ax_refines asc c ax vs :
  Valid None c -> frag c = true -> to_list c = Ok vs ->
  refines (model_ax (sort_axes_g asc) (Ok Empty) false c ax)
          (check_ax true saxty false (type_of c) 0 ax)
          (mapM (spec_v (sortcols_f asc false) (type_of c) 0 ax) vs).
Proof.
  intros HV Hfr Hl. unfold model_ax.
  pose proof (model_axp_refines (sortcols_f asc false) (sort_axes_g asc) (Ok Empty) true saxty false
                (sax_Hg asc) (sax_Hgchk asc) (sax_Hf asc)
                (ex_intro _ Empty (conj eq_refl eq_refl)) (expand c) 0 ax vs
                (expand_valid c HV Hfr) (expand_frag1 c HV Hfr) (Z.le_refl 0)) as H.
  rewrite (expand_to_list c HV Hfr), (expand_type_of c HV Hfr) in H. exact (H Hl).
Qed.

(* ---------------------------------------------------------------- the type-level checks *)
(* what the model accepts the specification accepts *)
Lemma check_sax_sortable t : forall d ax, styp t = true ->
  check_ax true saxty false t d ax = Ok tt -> check_ax true sortable true t d ax = Ok tt.
Proof.
  induction t as [| |sz str t' IH|t' IH| |]; intros d ax Hs; cbn [styp] in Hs; try discriminate;
    rewrite !check_ax_eq; destruct (resolve_axis _ d ax) as [ax'|]; try discriminate; cbn [bind check_body orb]; try discriminate.
  - destruct (ax' =? d + 1); [|apply IH, Hs]. rewrite !andb_true_r.
    destruct (saxty t') eqn:E; [|discriminate]. intros _. rewrite (saxty_sortable _ E). reflexivity.
  - apply IH, Hs.
Qed.
(* on the handled types the model accepts what the specification accepts *)
Lemma check_sortable_sax t : forall d ax, saxty t = true ->
  check_ax true sortable true t d ax = Ok tt -> check_ax true saxty false t d ax = Ok tt.
Proof.
  induction t as [| |sz str t' IH|t' IH| |]; intros d ax Hs; try discriminate;
    rewrite !check_ax_eq; destruct (resolve_axis _ d ax) as [ax'|]; try discriminate; cbn [bind check_body orb]; try discriminate.
  - apply saxty_list in Hs as [-> Hs]. destruct (ax' =? d + 1); [|apply IH, Hs]. rewrite Hs. reflexivity.
  - apply saxty_opt in Hs as [dt ->]. rewrite !check_ax_eq. destruct (resolve_axis _ d ax'); cbn [bind check_body]; auto.
Qed.

(* ---------------------------------------------------------------- the theorems *)
Definition saxfrag (c : content) : bool := sfrag c.

(* "modelled": [sort_axes_model] does not answer [Err EFuel] (its way of declining) *)
Definition sort_axes_modelled (asc : bool) (axis : Z) (c : content) : bool :=
  match sort_axes_model asc axis c with Err EFuel => false | _ => true end.

Lemma sax_top asc c vs :
  Valid None c -> frag c = true -> to_list c = Ok vs -> saxty (type_of c) = true ->
  exists c' out, sax asc None (expand c) [map (fun j => (j, j)) (iota (clen (expand c)))] = Ok c' /\
                 sortcols asc false (type_of c) (enumv vs) = Ok out /\ to_list c' = Ok (map snd out).
Proof.
  intros HV Hfr Hl Hs.
  pose proof (expand_valid c HV Hfr) as HVe. pose proof (expand_to_list c HV Hfr) as Hle. rewrite Hl in Hle.
  rewrite <- (to_list_length (expand c) None vs HVe Hle).
  destruct (sax_all asc (expand c) None [map (fun j => (j, j)) (iota (zlen vs))] vs) as (c' & outs & Hsax & _ & Hsp & Hto).
  - exact HVe.
  - apply expand_frag1; assumption.
  - fold (type_of (expand c)). rewrite expand_type_of by assumption. exact Hs.
  - exact Hle.
  - intros G [<-|[]] [j q] Hjq. cbn [snd]. apply in_map_iff in Hjq as (j' & Hj' & Hin). inversion Hj'; subst. apply iota_In' in Hin. exact Hin.
  - fold (type_of (expand c)) in Hsp. rewrite expand_type_of in Hsp by assumption.
    unfold sax_spec in Hsp. cbn [mapM] in Hsp. rewrite gatherG_enum in Hsp. cbn [bind] in Hsp.
    change (enum vs) with (enumv vs) in Hsp.
    destruct (sortcols asc false (type_of c) (enumv vs)) as [out|] eqn:Eo; [|discriminate]. cbn [bind] in Hsp. inversion Hsp; subst.
    exists c', out. split; [exact Hsax|]. split; [reflexivity|]. rewrite Hto. cbn [map concat]. rewrite app_nil_r. reflexivity.
Qed.

Theorem sort_axes_refines_spec_partial : forall asc axis c vs,
  Valid None c -> saxfrag c = true -> to_list c = Ok vs -> sort_axes_modelled asc axis c = true ->
  obs (sort_axes_model asc axis c) = sort_spec asc false axis (type_of c) vs.
Proof.
  intros asc axis c vs HV Hsf Hl Hm. unfold saxfrag, sfrag in Hsf. apply andb_true_iff in Hsf as [Hfr Hne].
  unfold sort_axes_modelled in Hm. unfold sort_axes_model, sort_spec in *.
  destruct (resolve_axis (type_of c) 0 axis) as [ax|e]; cbn [bind] in *; [|reflexivity].
  destruct (sortable (type_of c)) eqn:Hs; cbn [negb] in *; [|reflexivity].
  destruct (ax =? 0) eqn:E0.
  - destruct (saxty (type_of c)) eqn:Hst; [|discriminate].
    destruct (sax_top asc c vs HV Hfr Hl Hst) as (c' & out & Hsax & Hout & Hto).
    rewrite Hsax, Hout. cbn [obs bind]. exact Hto.
  - pose proof (styp_of_layout c None HV Hne Hs) as Hst. fold (type_of c) in Hst.
    pose proof (sort_axes_ax_refines asc c ax vs HV Hfr Hl) as HR. unfold spec_ax.
    destruct (model_ax (sort_axes_g asc) (Ok Empty) false c ax) as [r|[]]; cbn [refines] in HR; try contradiction.
    + destruct HR as (Hchk & ws & Hws & Hr). rewrite (check_sax_sortable _ 0 ax Hst Hchk). cbn [bind obs]. rewrite Hr, Hws. reflexivity.
    + destruct (check_ax true sortable true (type_of c) 0 ax) as [u|e]; [discriminate|]. reflexivity.
Qed.

(* the fragment on which the model never declines: the whole type is lists (not strings) over numbers with
   option nodes on the leaves only -- for EVERY axis (legal or not) *)
Theorem sort_axes_modelled_on_fragment : forall asc axis c vs,
  Valid None c -> saxfrag c = true -> to_list c = Ok vs -> saxty (type_of c) = true ->
  sort_axes_modelled asc axis c = true.
Proof.
  intros asc axis c vs HV Hsf Hl Hst. unfold saxfrag, sfrag in Hsf. apply andb_true_iff in Hsf as [Hfr Hne].
  unfold sort_axes_modelled, sort_axes_model.
  destruct (resolve_axis (type_of c) 0 axis) as [ax|e] eqn:Er; cbn [bind]; [|apply resolve_err in Er; subst e; reflexivity].
  rewrite (saxty_sortable _ Hst). cbn [negb]. destruct (ax =? 0) eqn:E0.
  - rewrite Hst. destruct (sax_top asc c vs HV Hfr Hl Hst) as (c' & out & Hsax & _). rewrite Hsax. reflexivity.
  - pose proof (sort_axes_ax_refines asc c ax vs HV Hfr Hl) as HR.
    destruct (model_ax (sort_axes_g asc) (Ok Empty) false c ax) as [r|[]]; cbn [refines] in HR; try contradiction; [reflexivity|].
    destruct (check_ax true sortable true (type_of c) 0 ax) as [[]|e] eqn:Ec; [|destruct e; try reflexivity].
    + rewrite (check_sortable_sax _ 0 ax Hst Ec) in HR. discriminate.
    + exfalso. pose proof (check_err sortable _ 0 ax EFuel (saxty_styp _ Hst) Ec). discriminate.
Qed.

Corollary sort_axes_refines_spec_on_fragment : forall asc axis c vs,
  Valid None c -> saxfrag c = true -> to_list c = Ok vs -> saxty (type_of c) = true ->
  obs (sort_axes_model asc axis c) = sort_spec asc false axis (type_of c) vs.
Proof.
  intros asc axis c vs HV Hsf Hl Hst. apply sort_axes_refines_spec_partial; try assumption.
  eapply sort_axes_modelled_on_fragment; eassumption.
Qed.

(* no checked access (get / slice / carry / lookup by row number) ever fails on a valid layout of the fragment: the model
   answers a layout that has a value, or the specification's own refusal [Err EValue] (illegal axis, records), or
   declines ([Err EFuel], exactly when [sort_axes_modelled] is false) *)
Theorem sort_axes_never_out_of_bounds : forall asc axis c vs,
  Valid None c -> saxfrag c = true -> to_list c = Ok vs ->
  sort_axes_model asc axis c <> Err EOob /\
  (sort_axes_modelled asc axis c = true -> sort_axes_model asc axis c <> Err EFuel) /\
  (forall c', sort_axes_model asc axis c = Ok c' -> exists ws, to_list c' = Ok ws).
Proof.
  intros asc axis c vs HV Hsf Hl. unfold saxfrag, sfrag in Hsf. apply andb_true_iff in Hsf as [Hfr Hne].
  split; [|split].
  2:{ unfold sort_axes_modelled. intros H E. rewrite E in H. discriminate. }
  - unfold sort_axes_model.
    destruct (resolve_axis (type_of c) 0 axis) as [ax|e] eqn:Er; cbn [bind]; [|apply resolve_err in Er; subst e; discriminate].
    destruct (sortable (type_of c)) eqn:Hs; cbn [negb]; [|discriminate]. destruct (ax =? 0) eqn:E0.
    + destruct (saxty (type_of c)) eqn:Hst; [|discriminate].
      destruct (sax_top asc c vs HV Hfr Hl Hst) as (c' & out & Hsax & _). rewrite Hsax. discriminate.
    + pose proof (styp_of_layout c None HV Hne Hs) as Hst. fold (type_of c) in Hst.
      pose proof (sort_axes_ax_refines asc c ax vs HV Hfr Hl) as HR.
      destruct (model_ax (sort_axes_g asc) (Ok Empty) false c ax) as [r|[]]; cbn [refines] in HR; try contradiction; [discriminate|].
      destruct (check_ax true sortable true (type_of c) 0 ax) as [u|e] eqn:Ec; [discriminate|].
      rewrite (check_err sortable _ 0 ax e Hst Ec). discriminate.
  - intros c' Hc'. unfold sort_axes_model in Hc'.
    destruct (resolve_axis (type_of c) 0 axis) as [ax|e] eqn:Er; cbn [bind] in Hc'; [|discriminate].
    destruct (sortable (type_of c)) eqn:Hs; cbn [negb] in Hc'; [|discriminate]. destruct (ax =? 0) eqn:E0.
    + destruct (saxty (type_of c)) eqn:Hst; [|discriminate].
      destruct (sax_top asc c vs HV Hfr Hl Hst) as (c'' & out & Hsax & _ & Hto). rewrite Hsax in Hc'. inversion Hc'; subst. eauto.
    + pose proof (sort_axes_ax_refines asc c ax vs HV Hfr Hl) as HR.
      destruct (model_ax (sort_axes_g asc) (Ok Empty) false c ax) as [r|[]]; cbn [refines] in HR; try contradiction.
      * inversion Hc'; subst. destruct HR as (_ & ws & _ & Hto). eauto.
      * destruct (check_ax true sortable true (type_of c) 0 ax); discriminate.
Qed.

(* ---------------------------------------------------------------- layout independence (C02) *)
Theorem layout_independent_sort_axes : forall asc axis a b vs,
  Valid None a -> Valid None b -> saxfrag a = true -> saxfrag b = true ->
  to_list a = Ok vs -> to_list b = Ok vs -> type_of a = type_of b ->
  sort_axes_modelled asc axis a = true -> sort_axes_modelled asc axis b = true ->
  obs (sort_axes_model asc axis a) = obs (sort_axes_model asc axis b).
Proof.
  intros asc axis a b vs HVa HVb Hfa Hfb Hla Hlb Hty Hma Hmb.
  rewrite (sort_axes_refines_spec_partial asc axis a vs), (sort_axes_refines_spec_partial asc axis b vs), Hty;
    try assumption. reflexivity.
Qed.
(* ... in particular on the handled types, for every axis *)
Corollary layout_independent_sort_axes_on_fragment : forall asc axis a b vs,
  Valid None a -> Valid None b -> saxfrag a = true -> saxfrag b = true ->
  to_list a = Ok vs -> to_list b = Ok vs -> type_of a = type_of b -> saxty (type_of a) = true ->
  obs (sort_axes_model asc axis a) = obs (sort_axes_model asc axis b).
Proof.
  intros asc axis a b vs HVa HVb Hfa Hfb Hla Hlb Hty Hst.
  apply (layout_independent_sort_axes asc axis a b vs); try assumption.
  - eapply sort_axes_modelled_on_fragment; eassumption.
  - eapply sort_axes_modelled_on_fragment; try eassumption. rewrite <- Hty. exact Hst.
Qed.

(* ---------------------------------------------------------------- the combined model [sort_model_all] *)
Definition sort_all_modelled (asc argsort : bool) (axis : Z) (c : content) : bool :=
  match sort_model_all asc argsort axis c with Err EFuel => false | _ => true end.

(* sort / argsort, every axis: innermost axis by [sort_model], the others (sort only) by [sort_axes_model] *)
Theorem sort_all_refines_spec_partial : forall asc argsort axis c vs,
  Valid None c -> saxfrag c = true -> to_list c = Ok vs -> sort_all_modelled asc argsort axis c = true ->
  obs (sort_model_all asc argsort axis c) = sort_spec asc argsort axis (type_of c) vs.
Proof.
  intros asc argsort axis c vs HV Hsf Hl Hm. unfold sort_all_modelled, sort_model_all in *. destruct argsort.
  - apply Proofs_SortRef2.sort_refines_spec_partial; assumption.
  - assert (G : sort_modelled asc false axis c = true -> obs (sort_model asc false axis c) = sort_spec asc false axis (type_of c) vs)
      by (intros Hmm; apply Proofs_SortRef2.sort_refines_spec_partial; assumption).
    unfold sort_modelled in G.
    destruct (sort_model asc false axis c) as [r|[]]; try (apply G; reflexivity).
    apply sort_axes_refines_spec_partial; assumption.
Qed.

(* sort (values) is modelled for every axis on the handled types *)
Theorem sort_all_modelled_on_fragment : forall asc axis c vs,
  Valid None c -> saxfrag c = true -> to_list c = Ok vs -> saxty (type_of c) = true ->
  sort_all_modelled asc false axis c = true.
Proof.
  intros asc axis c vs HV Hsf Hl Hst. unfold sort_all_modelled, sort_model_all.
  destruct (sort_model asc false axis c) as [r|[]]; try reflexivity.
  exact (sort_axes_modelled_on_fragment asc axis c vs HV Hsf Hl Hst).
Qed.

Corollary sort_all_refines_spec_on_fragment : forall asc axis c vs,
  Valid None c -> saxfrag c = true -> to_list c = Ok vs -> saxty (type_of c) = true ->
  obs (sort_model_all asc false axis c) = sort_spec asc false axis (type_of c) vs.
Proof.
  intros asc axis c vs HV Hsf Hl Hst. apply sort_all_refines_spec_partial; try assumption.
  eapply sort_all_modelled_on_fragment; eassumption.
Qed.

(* ---------------------------------------------------------------- instances *)
(* ragged, three levels: [[[3, None, 1], [2]], [], [[0, 9], [7], [5, 6, nan]]] as ListOffsetArray over a ListArray with a
   gap over a ByteMaskedArray: an empty list, a missing leaf, a NaN *)
Definition sax_ex : content :=
  ListOffset I64 [0; 2; 2; 5]
    (ListA I64 [0; 4; 5; 7; 8] [3; 5; 7; 8; 11]
       (ByteMasked [1; 0; 1; 1; 1; 1; 1; 1; 1; 1; 1] true
          (Numpy DFloat64 [11] [DZ 3; DZ 99; DZ 1; DZ 77; DZ 2; DZ 0; DZ 9; DZ 7; DZ 5; DZ 6; DNaN]))).
Definition sax_ex_vs : list value :=
  [VList [VList [VNum (DZ 3); VNone; VNum (DZ 1)]; VList [VNum (DZ 2)]];
   VList [];
   VList [VList [VNum (DZ 0); VNum (DZ 9)]; VList [VNum (DZ 7)]; VList [VNum (DZ 5); VNum (DZ 6); VNum DNaN]]].

(* hypotheses of every theorem above hold; axis 0 (= -3): the first inner lists of the two non-empty outer lists are
   sorted column by column (3|0, None|9, 1|-), the missing value after the 9; axis 1 descending: inside each outer list *)
Example sort_axes_refines_spec_partial_ex :
  validb None sax_ex = true /\ saxfrag sax_ex = true /\ to_list sax_ex = Ok sax_ex_vs /\
  sort_axes_modelled true 0 sax_ex = true /\ sort_axes_modelled false 1 sax_ex = true /\
  obs (sort_axes_model true 0 sax_ex)
  = Ok [VList [VList [VNum (DZ 0); VNum (DZ 9); VNum (DZ 1)]; VList [VNum (DZ 2)]];
        VList [];
        VList [VList [VNum (DZ 3); VNone]; VList [VNum (DZ 7)]; VList [VNum (DZ 5); VNum (DZ 6); VNum DNaN]]] /\
  obs (sort_axes_model true 0 sax_ex) = sort_spec true false 0 (type_of sax_ex) sax_ex_vs /\
  obs (sort_axes_model true (-3) sax_ex) = obs (sort_axes_model true 0 sax_ex) /\
  obs (sort_axes_model false 1 sax_ex)
  = Ok [VList [VList [VNum (DZ 3); VNone; VNum (DZ 1)]; VList [VNum (DZ 2)]];
        VList [];
        VList [VList [VNum (DZ 7); VNum (DZ 9)]; VList [VNum (DZ 5)]; VList [VNum (DZ 0); VNum (DZ 6); VNum DNaN]]] /\
  obs (sort_axes_model false 1 sax_ex) = sort_spec false false 1 (type_of sax_ex) sax_ex_vs.
Proof. vm_compute. repeat split. Qed.

(* the type is in the never-declined fragment; every axis from -4 to 3 is answered (the illegal ones by Err EValue) *)
Example sort_axes_modelled_on_fragment_ex :
  saxty (type_of sax_ex) = true /\
  forallb (fun ax => sort_axes_modelled true ax sax_ex && sort_axes_modelled false ax sax_ex) [-4; -3; -2; -1; 0; 1; 2; 3] = true /\
  obs (sort_axes_model true 3 sax_ex) = Err EValue /\ sort_spec true false 3 (type_of sax_ex) sax_ex_vs = Err EValue /\
  obs (sort_axes_model true 2 sax_ex) = sort_spec true false 2 (type_of sax_ex) sax_ex_vs.
Proof. vm_compute. repeat split. Qed.

(* declined: an option-type list between the axis and the leaves (axes 0, 1), a string node at / below the axis;
   the innermost axis of the first is answered *)
Example sort_axes_declines_ex :
  let c := ListOffset I64 [0; 2; 3] (IndexedOption I64 [1; -1; 0] (ListOffset I64 [0; 2; 3] (Numpy DInt64 [3] [DZ 2; DZ 1; DZ 3]))) in
  let s := ListOffset I64 [0; 2; 3]
             (Par (Some AString) None (ListOffset I64 [0; 1; 3; 4] (Par (Some AChar) None (Numpy DUInt8 [4] [DZ 98; DZ 97; DZ 98; DZ 99])))) in
  validb None c = true /\ saxfrag c = true /\ saxty (type_of c) = false /\
  sort_axes_model true 0 c = Err EFuel /\ sort_axes_model true 1 c = Err EFuel /\ sort_axes_modelled true 2 c = true /\
  validb None s = true /\ saxfrag s = true /\
  sort_axes_model true 0 s = Err EFuel /\ sort_axes_model true 1 s = Err EFuel /\ sort_axes_model true 2 s = Err EFuel.
Proof. vm_compute. repeat split. Qed.

(* the answer is a valid layout with a value: what the gathering back builds at axis 0 *)
Example sort_axes_never_out_of_bounds_ex :
  sort_axes_model true 0 sax_ex
  = Ok (ListOffset I64 [0; 2; 2; 5]
          (ListA I64 [0; 5; 3; 6; 7] [3; 6; 5; 7; 10]
             (IndexedOption I64 [0; 2; 3; 1; -1; 4; 5; 6; 7; 8]
                (Numpy DFloat64 [9] [DZ 0; DZ 3; DZ 9; DZ 1; DZ 2; DZ 7; DZ 5; DZ 6; DNaN])))) /\
  (do r <- sort_axes_model true 0 sax_ex; Ok (validb None r)) = Ok true.
Proof. vm_compute. repeat split. Qed.

(* the same value as ListOffsetArray32 (offsets not from zero) over a RegularArray-free IndexedOptionArray: same answers *)
Example layout_independent_sort_axes_ex :
  let b := ListOffset I32 [1; 3; 3; 6]
             (ListOffset U32 [0; 1; 4; 5; 7; 8; 11]
                (IndexedOption I64 [9; 0; -1; 1; 2; 3; 4; 5; 6; 7; 8]
                   (Numpy DFloat64 [10] [DZ 3; DZ 1; DZ 2; DZ 0; DZ 9; DZ 7; DZ 5; DZ 6; DNaN; DZ 42]))) in
  validb None b = true /\ saxfrag b = true /\ to_list b = Ok sax_ex_vs /\ type_of b = type_of sax_ex /\
  forallb (fun ax => match obs (sort_axes_model true ax sax_ex), obs (sort_axes_model true ax b) with
                     | Ok x, Ok y => list_eqb value_eqb x y
                     | Err _, Err _ => true
                     | _, _ => false
                     end) [-3; -2; -1; 0; 1; 2; 3] = true.
Proof. vm_compute. repeat split. Qed.

(* the combined model: axis 2 (innermost) through [sort_model], axes 0 and 1 through [sort_axes_model]; argsort along a
   non-innermost axis stays declined *)
Example sort_all_refines_spec_partial_ex :
  forallb (fun ax => sort_all_modelled true false ax sax_ex) [-3; -2; -1; 0; 1; 2] = true /\
  sort_model true false 0 sax_ex = Err EFuel /\ sort_model true false 1 sax_ex = Err EFuel /\
  sort_model_all true false 2 sax_ex = sort_model true false 2 sax_ex /\
  sort_model_all true false 0 sax_ex = sort_axes_model true 0 sax_ex /\
  sort_model_all true true 0 sax_ex = Err EFuel /\
  obs (sort_model_all false false (-2) sax_ex) = sort_spec false false (-2) (type_of sax_ex) sax_ex_vs.
Proof. vm_compute. repeat split. Qed.
