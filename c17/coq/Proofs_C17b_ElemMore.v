(** C17b, more on elements: range slicing and integer indexing commute (element i of c[a:b] is element a+i of c:
    same value, same type with parameters); a missing value only where the type allows it; the item list of
    [item_types] is an over-approximation (UnmaskedArray lists INone but never yields None). *)
From Coq Require Import ZArith List Bool Lia ZifyBool String.
From AwkV Require Import Base Layout LayoutInd Valid Types Carry AtAxis Ops_Getitem Proofs_Lists Proofs_ToList
                         Proofs_Carry Proofs_CarryValid Proofs_C11.
From AwkTypes Require Import Json Forms TypeStr Typing Proofs_Depth Proofs_Types Proofs_Typing Examples_C17
                             Proofs_C17b_Elem Proofs_C17b_ElemRange Proofs_C17b_ElemAt.
Import ListNotations.
Open Scope Z_scope.
Ltac Zify.zify_post_hook ::= Z.to_euclidean_division_equations.

(* ---------------------------------------------------------------- c[a:b][i] = c[a+i] *)
Theorem range_then_at_thm c vs a b i :
  Valid None c -> to_list c = Ok vs -> 0 <= a -> a <= b -> b <= clen c -> - (b - a) <= i < b - a ->
  exists c' e1 e2 v,
    crange c a b = Ok c' /\
    getitem_model [IAt i] c' = Ok e1 /\
    getitem_model [IAt (if i <? 0 then b + i else a + i)] c = Ok e2 /\
    to_list e1 = Ok [v] /\ to_list e2 = Ok [v] /\
    get vs (if i <? 0 then b + i else a + i) = Ok v /\ has_type (type_of c) v /\
    type_of e1 = type_of e2 /\
    (forall ts, type_of_form ts (form_of e1) = type_of_form ts (form_of e2)) /\
    (forall ts, item_types ts (form_of e1) = item_types ts (form_of e2)).
Proof.
  intros HV Hl Ha Hab Hb Hi.
  destruct (range_slice_thm c vs a b HV Hl Ha Hab Hb) as (c' & ws & Hc & HV' & Hn & Hs & Hl' & _ & Ht & Hrt & Hit).
  assert (Hi' : - clen c' <= i < clen c') by (clear - Hn Hi; lia).
  destruct (getitem_at_model_elem_thm i c' ws HV' Hl' Hi') as (e1 & v & He1 & _ & Hle1 & Hg1 & _ & Hte1 & _).
  set (j := if i <? 0 then b + i else a + i).
  assert (Hj : - clen c <= j < clen c) by (unfold j; clear - Hi Ha Hab Hb; destruct (i <? 0) eqn:E; lia).
  destruct (getitem_at_model_elem_thm j c vs HV Hl Hj) as (e2 & v2 & He2 & _ & Hle2 & Hg2 & Hty & Hte2 & _).
  assert (Hjn : (j <? 0) = false) by (unfold j; clear - Hi Ha Hab Hb; destruct (i <? 0) eqn:E; lia). rewrite Hjn in Hg2.
  assert (Hvv : v2 = v).
  { rewrite Hn in Hg1.
    assert (Hk : 0 <= (if i <? 0 then i + (b - a) else i) < b - a) by (clear - Hi; destruct (i <? 0) eqn:E; lia).
    rewrite (get_slice vs a b ws _ Hs Hk) in Hg1.
    replace (a + (if i <? 0 then i + (b - a) else i)) with j in Hg1 by (unfold j; clear; destruct (i <? 0); lia).
    congruence. }
  subst v2. exists c', e1, e2, v. repeat split; try assumption.
  - congruence.
  - intros ts. destruct (getitem_at_model_type_thm i c' e1 He1) as (_ & H1 & _).
    destruct (getitem_at_model_type_thm j c e2 He2) as (_ & H2 & _). rewrite H1, H2. apply Hrt.
  - intros ts. destruct (getitem_at_model_type_thm i c' e1 He1) as (_ & _ & H1 & _).
    destruct (getitem_at_model_type_thm j c e2 He2) as (_ & _ & H2 & _). rewrite H1, H2. apply Hit.
Qed.

(* ---------------------------------------------------------------- None only where the type allows it *)
Theorem none_only_if_type_allows_thm c vs :
  Valid None c -> to_list c = Ok vs -> has_typeb (type_of c) VNone = false -> ~ In VNone vs.
Proof.
  intros HV Hl Hn Hin. pose proof (to_list_typed_thm c vs HV Hl) as HT. rewrite Forall_forall in HT.
  specialize (HT _ Hin). unfold has_type in HT. congruence.
Qed.

(* the item list is NOT minimal: UnmaskedArray has option type, [item_types] lists INone (as UnmaskedForm's type
   is an OptionType), but no UnmaskedArray over a content whose type excludes None ever yields None *)
Theorem unmasked_none_never_hit_thm c vs ts :
  np_ok c = true -> to_list (Unmasked c) = Ok vs -> Valid None c -> has_typeb (type_of c) VNone = false ->
  (exists l, item_types ts (form_of (Unmasked c)) = Ok (INone :: l)) /\ ~ In VNone vs.
Proof.
  intros Hn Hl HV Hno. split.
  - destruct (item_types_total_thm ts c Hn) as (l & Hl0). exists l. unfold form_of in *. cbn [form_of_p item_types].
    rewrite Hl0. reflexivity.
  - cbn [to_list] in Hl. exact (none_only_if_type_allows_thm c vs HV Hl Hno).
Qed.

Example item_types_minimal_refuted :
  let c := Unmasked (Numpy DInt64 [2] [DZ 1; DZ 2]) in
  validb None c = true /\ item_types [] (form_of c) = Ok [INone; IScalar (FD DInt64)] /\
  to_list c = Ok [VNum (DZ 1); VNum (DZ 2)] /\
  (forall d vs, to_list (Unmasked (Numpy DInt64 [zlen d] d)) = Ok vs -> ~ In VNone vs).
Proof.
  split; [reflexivity|]. split; [reflexivity|]. split; [reflexivity|].
  intros d vs Hl Hin. cbn [to_list] in Hl. fold (to_list (Numpy DInt64 [zlen d] d)) in Hl.
  apply to_list_Numpy_inv in Hl as (n & dims & Hs & _ & _ & Hn). inversion Hs; subst. cbn [nest] in Hn. inversion Hn; subst.
  apply in_map_iff in Hin as (x & Hx & _). discriminate Hx.
Qed.

(* a masked array over EmptyArray lists INone but has no element at all *)
Example item_types_masked_empty :
  item_types [] (form_of (ByteMasked [] true Empty)) = Ok [INone] /\
  forall m vw vs, Valid None (ByteMasked m vw Empty) -> to_list (ByteMasked m vw Empty) = Ok vs -> vs = [].
Proof.
  split; [reflexivity|]. intros m vw vs HV Hl. inversion HV; subst. cbn [clen] in *.
  assert (m = []) by (apply zlen_0_nil; pose proof (zlen_nonneg m); lia). subst m.
  cbn in Hl. inversion Hl. reflexivity.
Qed.

(* ... while on the example layout using every item kind, every listed item is hit by some element *)
Example ex_items_all_hit :
  (do vs <- to_list ex_items_layout; do l <- item_types [] (form_of ex_items_layout);
   Ok (length l, forallb (fun it => existsb (item_matches it) vs) l, forallb (fun v => existsb (fun it => item_matches it v) l) vs))
  = Ok (5%nat, true, true).
Proof. vm_compute. reflexivity. Qed.

(* ---------------------------------------------------------------- examples *)
Example ex_range_then_at : exists c' e1 e2 v, crange ex_param_layout 1 3 = Ok c' /\
  getitem_model [IAt (-1)] c' = Ok e1 /\ getitem_model [IAt 2] ex_param_layout = Ok e2 /\
  to_list e1 = Ok [v] /\ to_list e2 = Ok [v] /\
  v = VList [VRec [([120], VList [VNum (DZ 5); VNum (DZ 6)]); ([121], VStr true [99])]] /\
  forall ts, type_of_form ts (form_of e1) = type_of_form ts (form_of e2).
Proof.
  do 4 eexists. split; [vm_compute; reflexivity|]. split; [vm_compute; reflexivity|]. split; [vm_compute; reflexivity|].
  split; [vm_compute; reflexivity|]. split; [vm_compute; reflexivity|]. split; [reflexivity|].
  intros ts. reflexivity.
Qed.
