(** C15 — JSON model.  MODEL ONLY: no proofs in this file.

    [ev]             SAX events, the interface between awkward's own logic and the
                     lexical layer (RapidJSON upstream; the clean-room shim here).
    [tojson_events]  Content::tojson_part per node class (src/libawkward/array/*.cpp),
                     including the substitutions of ToJson*::real (io/json.cpp).
    [json_value]     folds an event sequence back into an [AwkV.Layout.value].
    [wf]             well-formed event sequence = exactly one complete value.
    [render]         compact writer (what Writer<>::Null/Bool/Int64/Double/String/Key/
                     Start*/End* of the shim put into the stream).  The separator is decided
                     from the previous event instead of the writer's level stack; the two
                     coincide on well-formed sequences (checked against the implementation on
                     every generated case).
    [parse]          SAX reader with kParseStopWhenDoneFlag (one document, rest returned).
    [do_parse]       the concatenated-documents loop of io/json.cpp with Handler's
                     string substitutions and its incomplete / invalid distinction.

    [jv]             the documented rendering of a value (tuples as objects, strings, the
                     substitution strings); [frag15], [u64ok], [bytes_ok], [printable] and the
                     text-shape predicates at the end are vocabulary of the theorem statements.

    The lexical layer modelled here is the clean-room RapidJSON substitute
    impl/rapidjson_shim (RapidJSON itself is absent from the sandbox).
    Bytes are [Z] (0..255); texts are [list Z]; end of list = the terminating NUL. *)
From AwkV Require Import Base Layout Valid.

Definition bytes := list Z.

(* payload of a "real" event: integer-valued, special, or any other double (abstract) *)
Inductive rnum := RZ (z : Z) | RNaN | RInf (neg : bool) | RFrac.

Inductive ev :=
| ENull | EBool (b : bool) | EInt (z : Z) | EReal (r : rnum) | EStr (s : bytes)
| ESA | EEA | ESO | EEO | EKey (s : bytes).

(* user-chosen strings (nullptr = None) *)
Record jopts := { nan_s : option bytes; inf_s : option bytes; minf_s : option bytes }.

(* ------------------------------------------------------------------ decimal *)
(* least significant digit first; fuel = bit length, always enough *)
Fixpoint rdigits (fuel : nat) (n : Z) : list Z :=
  match fuel with
  | O => [48 + n mod 10]
  | S f => if n <? 10 then [48 + n] else (48 + n mod 10) :: rdigits f (n / 10)
  end.
Definition dec_nat (n : Z) : list Z := rev (rdigits (Z.to_nat (Z.log2 n)) n).
(* std::to_string((long long)i) *)
Definition dec (z : Z) : list Z := if z <? 0 then 45 :: dec_nat (- z) else dec_nat z.

Definition is_digit (c : Z) : bool := (48 <=? c) && (c <=? 57).

(* consume digits: value so far, number of digits consumed, rest *)
Fixpoint read_digits (bs : list Z) (acc cnt : Z) : Z * Z * list Z :=
  match bs with
  | c :: r => if is_digit c then read_digits r (10 * acc + (c - 48)) (cnt + 1) else (acc, cnt, bs)
  | [] => (acc, cnt, [])
  end.

(* ------------------------------------------------------------------ tojson: leaves *)
(* (int64_t) of a uint64_t, NumpyArray::tojson_integer<uint64_t> *)
Definition wrap64 (z : Z) : Z :=
  let m := z mod 18446744073709551616 in if m <? 9223372036854775808 then m else m - 18446744073709551616.

(* ToJsonString::real / ToJsonPrettyString::real / ToJsonFile::real *)
Definition real_ev (o : jopts) (d : datum) : ev :=
  match d with
  | DZ z => EReal (RZ z)
  | DNaN => match nan_s o with Some s => EStr s | None => EReal RNaN end
  | DInf false => match inf_s o with Some s => EStr s | None => EReal (RInf false) end
  | DInf true => match minf_s o with Some s => EStr s | None => EReal (RInf true) end
  end.

(* NumpyArray::tojson_part: switch (dtype_) -> tojson_boolean / tojson_integer<T> / tojson_real<T> *)
Definition scalar_ev (o : jopts) (dt : dtype) (d : datum) : ev :=
  match dt with
  | DBool => EBool (match d with DZ z => negb (z =? 0) | _ => true end)
  | DFloat32 | DFloat64 => real_ev o d
  | DUInt64 => match d with DZ z => EInt (wrap64 z) | _ => real_ev o d end
  | _ => match d with DZ z => EInt z | _ => real_ev o d end   (* non-integral datum in an integer buffer: cannot occur *)
  end.

(* tojson_string reinterprets the buffer as chars: modelled for 1-byte items only *)
Definition byte_of (dt : dtype) (d : datum) : res Z :=
  match dt, d with
  | DUInt8, DZ z | DInt8, DZ z | DBool, DZ z => Ok (z mod 256)
  | _, _ => Err EValue
  end.
Definition str_of (dt : dtype) (ds : list datum) : res (list ev) :=
  do bs <- mapM (byte_of dt) ds; Ok [EStr bs].

Definition is_charp (p : option akind) : bool :=
  match p with Some AChar | Some AByte => true | _ => false end.

(* block of an n-d NumpyArray with the remaining dimensions [dims] over the flat items [ds]
   (tojson_boolean/integer/real/string: ndim 0 -> scalar, 1 -> loop / string, else recurse) *)
Fixpoint np_block (o : jopts) (chars : bool) (dt : dtype) (dims : list Z) (ds : list datum) : res (list ev) :=
  match dims with
  | [] => match ds with
          | d :: _ => if chars then str_of dt [d] else Ok [scalar_ev o dt d]
          | [] => Err EOob
          end
  | n :: dims' =>
      match dims', chars with
      | [], true => do s <- slice ds 0 n; str_of dt s
      | _, _ =>
          let p := prodZ dims' in
          do xs <- mapM (fun k => do sub <- slice ds (k * p) ((k + 1) * p); np_block o chars dt dims' sub) (iota n);
          Ok (ESA :: concat xs ++ [EEA])
      end
  end.

(* ------------------------------------------------------------------ tojson: nodes *)
(* the __array__ parameter in force: build() lets an outer non-null value override *)
Definition eff (p arr : option akind) : option akind := match p with Some _ => p | None => arr end.

(* is this node (seen through parameter wrappers and UnmaskedArray, which delegates
   tojson_part) a 1-d NumpyArray tagged char/byte?  Its range then prints as one string. *)
Fixpoint chars_of (p : option akind) (c : content) : option (dtype * list datum) :=
  match c with
  | Par arr _ c' => chars_of (eff p arr) c'
  | Unmasked c' => chars_of None c'
  | Numpy dt [_] data => if is_charp p then Some (dt, data) else None
  | _ => None
  end.

(* X.getitem_range_nowrap(a, b).tojson_part(builder, true), given the per-item function of X *)
Definition range_events (item : Z -> res (list ev)) (chars : option (dtype * list datum)) (a b : Z)
  : res (list ev) :=
  match chars with
  | Some (dt, data) => if a =? b then Ok [EStr []] else do ds <- slice data a b; str_of dt ds
  | None => do xs <- mapM item (range a b); Ok (ESA :: concat xs ++ [EEA])
  end.

(* contents_[tag] *)
Definition pick_nth {A} (f : content -> res A) : list content -> nat -> res A :=
  fix go (l : list content) (k : nat) {struct l} : res A :=
    match l, k with
    | x :: _, O => f x
    | _ :: xs, S k' => go xs k'
    | [], _ => Err EOob
    end.

(* for (j < cols) { builder.field(keys[j]); contents_[j].getitem_at_nowrap(i).tojson_part(builder, true); } *)
Definition fields_ev (f : content -> res (list ev)) : list content -> list bytes -> res (list ev) :=
  fix go (l : list content) (kl : list bytes) {struct l} : res (list ev) :=
    match l, kl with
    | [], _ => Ok []
    | x :: xs, k :: kl' => do e <- f x; do r <- go xs kl'; Ok (EKey k :: e ++ r)
    | _ :: _, [] => Err EValue
    end.

Definition tuple_keys (n : nat) : list bytes := map dec (iota (Z.of_nat n)).

(* [item o p c i] = events of  c.getitem_at_nowrap(i).tojson_part(builder, true),
   [p] = the __array__ parameter of [c] itself *)
Fixpoint item (o : jopts) (p : option akind) (c : content) (i : Z) {struct c} : res (list ev) :=
  match c with
  | Par arr _ c' => item o (eff p arr) c' i
  | Numpy dt shape data =>
      match shape with
      | [] => Err EValue
      | _ :: dims =>
          let sz := prodZ dims in
          do sub <- slice data (i * sz) ((i + 1) * sz);
          np_block o (is_charp p) dt dims sub
      end
  | Empty => Err EOob
  | ListOffset _ offs c' =>
      do a <- get offs i; do b <- get offs (i + 1);
      range_events (item o None c') (chars_of None c') a b
  | ListA _ starts stops c' =>
      do a <- get starts i; do b <- get stops i;
      range_events (item o None c') (chars_of None c') a b
  | Regular c' size _ =>
      range_events (item o None c') (chars_of None c') (i * size) ((i + 1) * size)
  | Indexed _ ix c' => do j <- get ix i; item o None c' j
  | IndexedOption _ ix c' => do j <- get ix i; if j <? 0 then Ok [ENull] else item o None c' j
  | ByteMasked m vw c' =>
      do b <- get m i; if Bool.eqb (negb (b =? 0)) vw then item o None c' i else Ok [ENull]
  | BitMasked m vw lsb _ c' =>
      do b <- bit_at m lsb i; if Bool.eqb b vw then item o None c' i else Ok [ENull]
  | Unmasked c' => item o None c' i
  | Union _ tags ix cs =>
      do t <- get tags i; do j <- get ix i;
      if t <? 0 then Err EOob else pick_nth (fun x => item o None x j) cs (Z.to_nat t)
  | Record cs ks _ =>
      let keys := match ks with Some k => k | None => tuple_keys (length cs) end in
      do body <- fields_ev (fun x => item o None x i) cs keys;
      Ok (ESO :: body ++ [EEO])
  end.

(* Content::tojson: tojson_part(builder, true) of the whole array *)
Definition tojson_events (o : jopts) (c : content) : res (list ev) :=
  range_events (item o None c) (chars_of None c) 0 (clen c).

(* ------------------------------------------------------------------ events -> value *)
Definition datum_of (r : rnum) : res datum :=
  match r with RZ z => Ok (DZ z) | RNaN => Ok DNaN | RInf n => Ok (DInf n) | RFrac => Err EValue end.

Fixpoint jval (fuel : nat) (evs : list ev) {struct fuel} : res (value * list ev) :=
  match fuel with
  | O => Err EFuel
  | S f =>
      match evs with
      | ENull :: r => Ok (VNone, r)
      | EBool b :: r => Ok (VBool b, r)
      | EInt z :: r => Ok (VNum (DZ z), r)
      | EReal x :: r => do d <- datum_of x; Ok (VNum d, r)
      | EStr s :: r => Ok (VStr true s, r)
      | ESA :: r => do vr <- jvals f r; Ok (VList (fst vr), snd vr)
      | ESO :: r => do vr <- jkvs f r; Ok (VRec (fst vr), snd vr)
      | _ => Err EValue
      end
  end
with jvals (fuel : nat) (evs : list ev) {struct fuel} : res (list value * list ev) :=
  match fuel with
  | O => Err EFuel
  | S f =>
      match evs with
      | EEA :: r => Ok ([], r)
      | _ => do vr <- jval f evs; do vsr <- jvals f (snd vr); Ok (fst vr :: fst vsr, snd vsr)
      end
  end
with jkvs (fuel : nat) (evs : list ev) {struct fuel} : res (list (name * value) * list ev) :=
  match fuel with
  | O => Err EFuel
  | S f =>
      match evs with
      | EEO :: r => Ok ([], r)
      | EKey k :: r => do vr <- jval f r; do kr <- jkvs f (snd vr); Ok ((k, fst vr) :: fst kr, snd kr)
      | _ => Err EValue
      end
  end.

Definition json_value (evs : list ev) : res (value * list ev) := jval (S (length evs)) evs.

(* ------------------------------------------------------------------ well-formed event sequences *)
Fixpoint wf_val (fuel : nat) (evs : list ev) {struct fuel} : option (list ev) :=
  match fuel with
  | O => None
  | S f =>
      match evs with
      | ENull :: r | EBool _ :: r | EInt _ :: r | EReal _ :: r | EStr _ :: r => Some r
      | ESA :: r => wf_vals f r
      | ESO :: r => wf_kvs f r
      | _ => None
      end
  end
with wf_vals (fuel : nat) (evs : list ev) {struct fuel} : option (list ev) :=
  match fuel with
  | O => None
  | S f =>
      match evs with
      | EEA :: r => Some r
      | _ => match wf_val f evs with Some r => wf_vals f r | None => None end
      end
  end
with wf_kvs (fuel : nat) (evs : list ev) {struct fuel} : option (list ev) :=
  match fuel with
  | O => None
  | S f =>
      match evs with
      | EEO :: r => Some r
      | EKey _ :: r => match wf_val f r with Some r' => wf_kvs f r' | None => None end
      | _ => None
      end
  end.

Definition wf (evs : list ev) : bool :=
  match wf_val (S (length evs)) evs with Some [] => true | _ => false end.

(* leaves that the text form carries exactly: int64 integers, integer-valued doubles
   below 2^53, byte strings *)
Definition is_byte (c : Z) : bool := (0 <=? c) && (c <? 256).
Definition printable_ev (e : ev) : bool :=
  match e with
  | EInt z => (-9223372036854775808 <=? z) && (z <? 9223372036854775808)
  | EReal (RZ z) => (-9007199254740992 <=? z) && (z <=? 9007199254740992)
  | EReal _ => false
  | EStr s | EKey s => forallb is_byte s
  | _ => true
  end.
Definition printable (evs : list ev) : bool := forallb printable_ev evs.

(* ------------------------------------------------------------------ render (compact writer) *)
Definition hexdigit (n : Z) : Z := if n <? 10 then 48 + n else 55 + n.     (* "0123456789ABCDEF" *)

(* Writer::WriteString *)
Definition esc_byte (c : Z) : list Z :=
  if c =? 34 then [92; 34]
  else if c =? 92 then [92; 92]
  else if c =? 8 then [92; 98]
  else if c =? 12 then [92; 102]
  else if c =? 10 then [92; 110]
  else if c =? 13 then [92; 114]
  else if c =? 9 then [92; 116]
  else if c <? 32 then [92; 117; 48; 48; hexdigit (c / 16); hexdigit (c mod 16)]
  else [c].
Definition render_string (s : bytes) : list Z := 34 :: flat_map esc_byte s ++ [34].

(* Writer::Double on an integer-valued double below 10^21: digits ".0"; nothing for nan/inf
   (the writer returns false, which json.cpp ignores) *)
Definition render_real (r : rnum) : list Z :=
  match r with RZ z => dec z ++ [46; 48] | _ => [] end.

Definition tok (e : ev) : list Z :=
  match e with
  | ENull => [110; 117; 108; 108]
  | EBool true => [116; 114; 117; 101]
  | EBool false => [102; 97; 108; 115; 101]
  | EInt z => dec z
  | EReal r => render_real r
  | EStr s | EKey s => render_string s
  | ESA => [91] | EEA => [93] | ESO => [123] | EEO => [125]
  end.

(* what was written last inside the current container *)
Inductive prev := PStart | PKey | PVal.
Definition after (e : ev) : prev :=
  match e with ESA | ESO => PStart | EKey _ => PKey | _ => PVal end.
Definition is_end (e : ev) : bool := match e with EEA | EEO => true | _ => false end.
(* Writer::Prefix: ',' between members, ':' after a key; nothing before a closing bracket *)
Definition sep (p : prev) (e : ev) : list Z :=
  match p with
  | PStart => []
  | PKey => [58]
  | PVal => if is_end e then [] else [44]
  end.
Fixpoint render_from (p : prev) (evs : list ev) : list Z :=
  match evs with
  | [] => []
  | e :: r => sep p e ++ tok e ++ render_from (after e) r
  end.
Definition render (evs : list ev) : list Z := render_from PStart evs.

(* ------------------------------------------------------------------ lexer *)
Definition is_ws (c : Z) : bool := (c =? 32) || (c =? 10) || (c =? 13) || (c =? 9).
Fixpoint skip_ws (bs : list Z) : list Z :=
  match bs with c :: r => if is_ws c then skip_ws r else bs | [] => [] end.

Definition hexv (c : Z) : option Z :=
  if (48 <=? c) && (c <=? 57) then Some (c - 48)
  else if (65 <=? c) && (c <=? 70) then Some (c - 55)
  else if (97 <=? c) && (c <=? 102) then Some (c - 87)
  else None.
(* position where Hex4 stops: first non-hex character *)
Fixpoint hexfail (n : nat) (bs : list Z) : list Z :=
  match n, bs with
  | S n', c :: r => match hexv c with Some _ => hexfail n' r | None => bs end
  | _, _ => bs
  end.
Definition hex4 (a b c d : Z) : option Z :=
  match hexv a, hexv b, hexv c, hexv d with
  | Some x, Some y, Some z, Some w => Some (((x * 16 + y) * 16 + z) * 16 + w)
  | _, _, _, _ => None
  end.

(* Reader::Utf8 *)
Definition utf8 (cp : Z) : list Z :=
  if cp <=? 127 then [cp]
  else if cp <=? 2047 then [192 + cp / 64; 128 + cp mod 64]
  else if cp <=? 65535 then [224 + cp / 4096; 128 + (cp / 64) mod 64; 128 + cp mod 64]
  else [240 + cp / 262144; 128 + (cp / 4096) mod 64; 128 + (cp / 64) mod 64; 128 + cp mod 64].

Inductive sres := SOk (s : bytes) (rest : list Z) | SFail (rest : list Z).
Definition spush (pre : list Z) (r : sres) : sres :=
  match r with SOk s rest => SOk (pre ++ s) rest | SFail rest => SFail rest end.

(* Reader::ParseString after the opening quote.  SFail carries the input from the
   character the reader stopped at. *)
Fixpoint lex_str (bs : list Z) : sres :=
  match bs with
  | [] => SFail []
  | c :: r =>
      if c =? 34 then SOk [] r
      else if c =? 92 then
        match r with
        | [] => SFail []
        | e :: r2 =>
            if e =? 34 then spush [34] (lex_str r2)
            else if e =? 92 then spush [92] (lex_str r2)
            else if e =? 47 then spush [47] (lex_str r2)
            else if e =? 98 then spush [8] (lex_str r2)
            else if e =? 102 then spush [12] (lex_str r2)
            else if e =? 110 then spush [10] (lex_str r2)
            else if e =? 114 then spush [13] (lex_str r2)
            else if e =? 116 then spush [9] (lex_str r2)
            else if e =? 117 then
              match r2 with
              | h1 :: h2 :: h3 :: h4 :: r3 =>
                  match hex4 h1 h2 h3 h4 with
                  | None => SFail (hexfail 4 r2)
                  | Some cp =>
                      if (55296 <=? cp) && (cp <=? 56319) then
                        (* high surrogate: "\u" and a low surrogate must follow *)
                        match r3 with
                        | b1 :: r4 =>
                            if b1 =? 92 then
                              match r4 with
                              | u1 :: r5 =>
                                  if u1 =? 117 then
                                    match r5 with
                                    | g1 :: g2 :: g3 :: g4 :: r6 =>
                                        match hex4 g1 g2 g3 g4 with
                                        | None => SFail (hexfail 4 r5)
                                        | Some cp2 =>
                                            if (56320 <=? cp2) && (cp2 <=? 57343)
                                            then spush (utf8 ((cp - 55296) * 1024 + (cp2 - 56320) + 65536)) (lex_str r6)
                                            else SFail r6
                                        end
                                    | _ => SFail (hexfail 4 r5)
                                    end
                                  else SFail r4
                              | [] => SFail []
                              end
                            else SFail r3
                        | [] => SFail []
                        end
                      else if (56320 <=? cp) && (cp <=? 57343) then SFail r3
                      else spush (utf8 cp) (lex_str r3)
                  end
              | _ => SFail (hexfail 4 r2)
              end
            else SFail r
        end
      else if c <? 32 then SFail bs
      else spush [c] (lex_str r)
  end.

(* parse results: PFail carries the input from the character the reader stopped at *)
Inductive pres := POk (evs : list ev) (rest : list Z) | PFail (rest : list Z) | PFuel.

(* 2^1024 - 2^970: doubles at or above it round to infinity (kParseErrorNumberTooBig) *)
Definition dbl_limit : Z := 2 ^ 1024 - 2 ^ 970.

(* value m * 10^e (m >= 0) as a real payload; None = too big *)
Definition real_of (neg : bool) (m e : Z) : option rnum :=
  let sgn (z : Z) := if neg then - z else z in
  if m =? 0 then Some (RZ 0)
  else if 400 <? e then None
  else if 0 <=? e then
    (let z := m * 10 ^ e in if dbl_limit <=? z then None else Some (RZ (sgn z)))
  else if e <? -1000 then Some RFrac
  else
    (let d := 10 ^ (- e) in
     if dbl_limit * d <=? m then None
     else if m mod d =? 0 then Some (RZ (sgn (m / d))) else Some RFrac).

(* Reader::ParseNumber followed by Handler::Int/Uint/Int64/Uint64/Double
   (Handler::Uint64 casts to int64_t), in the four stages of the reader *)
Definition strip_minus (bs : list Z) : bool * list Z :=
  match bs with c :: r => if c =? 45 then (true, r) else (false, bs) | [] => (false, bs) end.

(* integer part: "0" or [1-9][0-9]* *)
Definition lex_ipart (b1 : list Z) : option (Z * list Z) :=
  match b1 with
  | [] => None
  | c :: r1 =>
      if c =? 48 then Some (0, r1)
      else if (49 <=? c) && (c <=? 57) then (let '(v, _, r) := read_digits b1 0 0 in Some (v, r))
      else None
  end.

(* optional fraction: (is-double, mantissa, number of fraction digits, rest) or the stop position *)
Definition lex_frac (iv : Z) (b2 : list Z) : (bool * Z * Z * list Z) + list Z :=
  match b2 with
  | d :: r2 =>
      if d =? 46 then
        (let '(fv, fc, r3) := read_digits r2 0 0 in
         if fc =? 0 then inr r2 else inl (true, iv * 10 ^ fc + fv, fc, r3))
      else inl (false, iv, 0, b2)
  | [] => inl (false, iv, 0, b2)
  end.

(* optional exponent: (is-double, exponent, rest) or the stop position *)
Definition lex_exp (b3 : list Z) : (bool * Z * list Z) + list Z :=
  match b3 with
  | x :: r3 =>
      if (x =? 101) || (x =? 69) then
        (let (eneg, r4) := match r3 with
                            | s :: r => if s =? 43 then (false, r) else if s =? 45 then (true, r) else (false, r3)
                            | [] => (false, r3)
                            end in
         let '(xv, xc, r5) := read_digits r4 0 0 in
         if xc =? 0 then inr r4 else inl (true, (if eneg then - xv else xv), r5))
      else inl (false, 0, b3)
  | [] => inl (false, 0, b3)
  end.

Definition classify (neg isd : bool) (m fc ex : Z) (b4 : list Z) : pres :=
  let double (mm ee : Z) :=
    match real_of neg mm ee with Some r => POk [EReal r] b4 | None => PFail b4 end in
  if isd then double m (ex - fc)
  else if neg then
    (if m <=? 9223372036854775808 then POk [EInt (- m)] b4 else double m 0)
  else
    (if m <? 18446744073709551616 then POk [EInt (wrap64 m)] b4 else double m 0).

Definition lex_number (bs : list Z) : pres :=
  let (neg, b1) := strip_minus bs in
  match lex_ipart b1 with
  | None => PFail b1
  | Some (iv, b2) =>
      match lex_frac iv b2 with
      | inr stop => PFail stop
      | inl (isd1, m, fc, b3) =>
          match lex_exp b3 with
          | inr stop => PFail stop
          | inl (isd2, ex, b4) => classify neg (isd1 || isd2) m fc ex b4
          end
      end
  end.

(* Consume(is, c1) && Consume(is, c2) && ... *)
Fixpoint lit (expect : list Z) (e : ev) (bs : list Z) : pres :=
  match expect with
  | [] => POk [e] bs
  | x :: xs => match bs with
               | c :: r => if c =? x then lit xs e r else PFail bs
               | [] => PFail []
               end
  end.

(* ------------------------------------------------------------------ parser (recursive descent, fuel) *)
Definition pmap (g : list ev -> list ev) (x : pres) : pres :=
  match x with POk es r => POk (g es) r | _ => x end.

Fixpoint parse_value (fuel : nat) (bs : list Z) {struct fuel} : pres :=
  match fuel with
  | O => PFuel
  | S f =>
      match bs with
      | [] => PFail []
      | c :: r =>
          if c =? 110 then lit [117; 108; 108] ENull r
          else if c =? 116 then lit [114; 117; 101] (EBool true) r
          else if c =? 102 then lit [97; 108; 115; 101] (EBool false) r
          else if c =? 34 then
            match lex_str r with SOk s r' => POk [EStr s] r' | SFail r' => PFail r' end
          else if c =? 91 then
            (let r1 := skip_ws r in
             match r1 with
             | d :: r2 => if d =? 93 then POk [ESA; EEA] r2 else pmap (cons ESA) (parse_elems f r1)
             | [] => PFail []
             end)
          else if c =? 123 then
            (let r1 := skip_ws r in
             match r1 with
             | d :: r2 => if d =? 125 then POk [ESO; EEO] r2 else pmap (cons ESO) (parse_members f r1)
             | [] => PFail []
             end)
          else lex_number bs
      end
  end
(* elements of a non-empty array up to and including ']' (emits EEA) *)
with parse_elems (fuel : nat) (bs : list Z) {struct fuel} : pres :=
  match fuel with
  | O => PFuel
  | S f =>
      match parse_value f bs with
      | POk e r =>
          (let r1 := skip_ws r in
           match r1 with
           | c :: r2 =>
               if c =? 44 then
                 pmap (app e) (parse_elems f (skip_ws r2))
               else if c =? 93 then POk (e ++ [EEA]) r2
               else PFail r1
           | [] => PFail []
           end)
      | x => x
      end
  end
(* members of a non-empty object up to and including '}' (emits EEO) *)
with parse_members (fuel : nat) (bs : list Z) {struct fuel} : pres :=
  match fuel with
  | O => PFuel
  | S f =>
      match bs with
      | c :: r =>
          if c =? 34 then
            match lex_str r with
            | SFail r' => PFail r'
            | SOk k r' =>
                (let r1 := skip_ws r' in
                 match r1 with
                 | d :: r2 =>
                     if d =? 58 then
                       match parse_value f (skip_ws r2) with
                       | POk e r3 =>
                           (let r4 := skip_ws r3 in
                            match r4 with
                            | x :: r5 =>
                                if x =? 44 then
                                  pmap (fun es => EKey k :: e ++ es) (parse_members f (skip_ws r5))
                                else if x =? 125 then POk (EKey k :: e ++ [EEO]) r5
                                else PFail r4
                            | [] => PFail []
                            end)
                       | y => y
                       end
                     else PFail r1
                 | [] => PFail []
                 end)
            end
          else PFail bs
      | [] => PFail []
      end
  end.

(* Reader::Parse<kParseStopWhenDoneFlag>: SkipWs, one value, stop *)
(* two units of fuel per nesting level / element, each of which takes at least one byte *)
Definition fuel_for (bs : list Z) : nat := 2 * length bs + 2.
Definition parse1 (bs : list Z) : pres := parse_value (fuel_for bs) (skip_ws bs).

Definition parse (bs : list Z) : res (list ev * list Z) :=
  match parse1 bs with
  | POk e r => Ok (e, r)
  | PFail _ => Err EValue
  | PFuel => Err EFuel
  end.

(* ------------------------------------------------------------------ Handler and do_parse (io/json.cpp) *)
(* the C string seen by strcmp / field_check(const char* ) *)
Fixpoint cstr (s : list Z) : list Z :=
  match s with c :: r => if c =? 0 then [] else c :: cstr r | [] => [] end.

Definition is_opt (o : option bytes) (s : bytes) : bool :=
  match o with Some t => list_eqb Z.eqb (cstr s) t | None => false end.

(* Handler::String / Handler::Key *)
Definition handler (o : jopts) (e : ev) : ev :=
  match e with
  | EStr s =>
      if is_opt (nan_s o) s then EReal RNaN
      else if is_opt (inf_s o) s then EReal (RInf false)
      else if is_opt (minf_s o) s then EReal (RInf true)
      else EStr s
  | EKey k => EKey (cstr k)
  | _ => e
  end.

Inductive jerr := JIncomplete | JInvalid | JFuel.
Inductive jres := JDocs (docs : list (list ev)) | JErr (e : jerr).

(* while (stream.Peek() != 0) { fully_parsed = reader.Parse<kParseStopWhenDoneFlag>(stream, handler); ... }
   A failed Parse ends the loop quietly only when no event fired and the reader reports
   kParseErrorDocumentEmpty, i.e. nothing but whitespace was left; every other failure throws:
   "incomplete JSON object" when the stream is at its end, "JSON File error at char" otherwise. *)
Fixpoint do_parse_loop (fuel : nat) (o : jopts) (bs : list Z) (acc : list (list ev)) : jres :=
  match fuel with
  | O => JErr JFuel
  | S f =>
      match bs with
      | [] => JDocs (rev acc)
      | _ =>
          match skip_ws bs with
          | [] => JDocs (rev acc)                                  (* kParseErrorDocumentEmpty: break *)
          | _ =>
              match parse1 bs with
              | POk evs rest => do_parse_loop f o rest (map (handler o) evs :: acc)      (* number++ *)
              | PFail [] => JErr JIncomplete
              | PFail _ => JErr JInvalid
              | PFuel => JErr JFuel
              end
          end
      end
  end.

(* on the bytes before the terminating NUL *)
Definition do_parse_text (o : jopts) (bs : list Z) : jres := do_parse_loop (S (length bs)) o bs [].
Definition do_parse (o : jopts) (text : list Z) : jres := do_parse_text o (cstr text).

(* FromJsonString's result: exactly one document is returned unwrapped *)
Inductive fromjson_result := One (d : list ev) | Many (ds : list (list ev)).
Definition unwrap (docs : list (list ev)) : fromjson_result :=
  match docs with [d] => One d | _ => Many docs end.

(* ------------------------------------------------------------------ vocabulary of the theorem statements *)
Definition no_digit_head (rest : list Z) : Prop :=
  match rest with [] => True | c :: _ => is_digit c = false end.


(* what may follow a number token without being absorbed by it *)
Definition num_safe (rest : list Z) : Prop :=
  match rest with [] => True | c :: _ => is_digit c = false /\ c <> 46 /\ c <> 101 /\ c <> 69 end.


Definition all_ws (w : list Z) : Prop := Forall (fun c => is_ws c = true) w.


Definition doc_text (dw : list ev * list Z) : list Z := render (fst dw) ++ snd dw.
Definition docs_text (dws : list (list ev * list Z)) : list Z := concat (map doc_text dws).

(* every document but the last is followed by at least one whitespace character *)
Fixpoint seps_ok (dws : list (list ev * list Z)) : Prop :=
  match dws with
  | [] => True
  | dw :: rest => match rest with [] => True | _ => snd dw <> [] end /\ seps_ok rest
  end.

Definition doc_ok (dw : list ev * list Z) : Prop :=
  wf (fst dw) = true /\ printable (fst dw) = true /\ all_ws (snd dw).


(* ------------------------------------------------------------------ the documented rendering of a value *)
(* records -> objects, tuples -> objects keyed "0","1",..., strings and bytestrings -> strings,
   None -> null, nan/inf -> the chosen strings (left as they are when no string was chosen) *)
Fixpoint jv (o : jopts) (v : value) : value :=
  match v with
  | VNum DNaN => match nan_s o with Some s => VStr true s | None => v end
  | VNum (DInf false) => match inf_s o with Some s => VStr true s | None => v end
  | VNum (DInf true) => match minf_s o with Some s => VStr true s | None => v end
  | VNum (DZ _) | VBool _ | VNone => v
  | VStr _ s => VStr true s
  | VList l => VList (map (jv o) l)
  | VRec fs => VRec (map (fun kv => match kv with (k, x) => (k, jv o x) end) fs)
  | VTup vs => VRec (zip (tuple_keys (length vs)) (map (jv o) vs))
  end.

(* uint64 items that survive the (int64_t) cast of tojson_integer<uint64_t> *)
Definition datum_i64 (d : datum) : bool :=
  match d with DZ z => (0 <=? z) && (z <? 9223372036854775808) | _ => true end.
Fixpoint u64ok (c : content) : bool :=
  match c with
  | Numpy DUInt64 _ data => forallb datum_i64 data
  | Numpy _ _ _ | Empty => true
  | ListOffset _ _ c' | ListA _ _ _ c' | Regular c' _ _ | Indexed _ _ c' | IndexedOption _ _ c'
  | ByteMasked _ _ c' | BitMasked _ _ _ _ c' | Unmasked c' | Par _ _ c' => u64ok c'
  | Union _ _ _ cs | Record cs _ _ =>
      (fix all (l : list content) : bool := match l with [] => true | x :: xs => u64ok x && all xs end) cs
  end.

(* uint8 items are bytes (always so in the implementation; the model's buffers hold unbounded integers) *)
Definition byte_datum (d : datum) : bool := match d with DZ z => is_byte z | _ => false end.

(* the character buffer of a string / bytestring node: a list node whose content is a 1-d uint8
   NumpyArray tagged char / byte (the shape that validityerror demands) *)
Definition str_chars (k : akind) (c : content) : option (list datum) :=
  match list_content c with
  | Some (Par (Some k') _ (Numpy DUInt8 [_] d)) =>
      match k, k' with AString, AChar | ABytestring, AByte => Some d | _, _ => None end
  | _ => None
  end.

(* fragment of Theorem tojson_value_partial: every node class; the only restriction is on the __array__
   parameter: absent, or string / bytestring in the shape validityerror accepts (so no categorical, and no
   char / byte tag outside a string) *)
Fixpoint frag15 (c : content) : bool :=
  match c with
  | Numpy _ _ _ => true
  | Empty => true
  | ListOffset _ _ c' | ListA _ _ _ c' | Regular c' _ _ | Indexed _ _ c' | IndexedOption _ _ c'
  | ByteMasked _ _ c' | BitMasked _ _ _ _ c' | Unmasked c' => frag15 c'
  | Record cs _ _ | Union _ _ _ cs =>
      (fix all (l : list content) : bool := match l with [] => true | x :: xs => frag15 x && all xs end) cs
  | Par None _ c' => frag15 c'
  | Par (Some k) _ c' => match str_chars k c' with Some d => forallb byte_datum d | None => false end
  end.

(* uint8 buffers hold bytes: always so in the implementation; a hypothesis only because the model's
   buffers are unbounded integers *)
Fixpoint bytes_ok (c : content) : bool :=
  match c with
  | Numpy DUInt8 _ data => forallb byte_datum data
  | Numpy _ _ _ | Empty => true
  | ListOffset _ _ c' | ListA _ _ _ c' | Regular c' _ _ | Indexed _ _ c' | IndexedOption _ _ c'
  | ByteMasked _ _ c' | BitMasked _ _ _ _ c' | Unmasked c' | Par _ _ c' => bytes_ok c'
  | Union _ _ _ cs | Record cs _ _ =>
      (fix all (l : list content) : bool := match l with [] => true | x :: xs => bytes_ok x && all xs end) cs
  end.
