
val negb : bool -> bool

type nat =
| O
| S of nat

type ('a, 'b) sum =
| Inl of 'a
| Inr of 'b

val fst : ('a1 * 'a2) -> 'a1

val snd : ('a1 * 'a2) -> 'a2

val length : 'a1 list -> nat

val app : 'a1 list -> 'a1 list -> 'a1 list

type comparison =
| Eq
| Lt
| Gt

val compOpp : comparison -> comparison

val add : nat -> nat -> nat

val mul : nat -> nat -> nat

type positive =
| XI of positive
| XO of positive
| XH

type n =
| N0
| Npos of positive

type z =
| Z0
| Zpos of positive
| Zneg of positive

val eqb : bool -> bool -> bool

module Nat :
 sig
  val eqb : nat -> nat -> bool
 end

module Pos :
 sig
  val succ : positive -> positive

  val add : positive -> positive -> positive

  val add_carry : positive -> positive -> positive

  val pred_double : positive -> positive

  val pred_N : positive -> n

  val mul : positive -> positive -> positive

  val iter : ('a1 -> 'a1) -> 'a1 -> positive -> 'a1

  val size : positive -> positive

  val compare_cont : comparison -> positive -> positive -> comparison

  val compare : positive -> positive -> comparison

  val eqb : positive -> positive -> bool

  val testbit : positive -> n -> bool

  val iter_op : ('a1 -> 'a1 -> 'a1) -> positive -> 'a1 -> 'a1

  val to_nat : positive -> nat

  val of_succ_nat : nat -> positive
 end

module N :
 sig
  val testbit : n -> n -> bool
 end

module Z :
 sig
  val double : z -> z

  val succ_double : z -> z

  val pred_double : z -> z

  val pos_sub : positive -> positive -> z

  val add : z -> z -> z

  val opp : z -> z

  val sub : z -> z -> z

  val mul : z -> z -> z

  val pow_pos : z -> positive -> z

  val pow : z -> z -> z

  val compare : z -> z -> comparison

  val leb : z -> z -> bool

  val ltb : z -> z -> bool

  val eqb : z -> z -> bool

  val to_nat : z -> nat

  val of_nat : nat -> z

  val pos_div_eucl : positive -> z -> z * z

  val div_eucl : z -> z -> z * z

  val div : z -> z -> z

  val modulo : z -> z -> z

  val odd : z -> bool

  val log2 : z -> z

  val testbit : z -> z -> bool
 end

val nth_error : 'a1 list -> nat -> 'a1 option

val rev : 'a1 list -> 'a1 list

val concat : 'a1 list list -> 'a1 list

val map : ('a1 -> 'a2) -> 'a1 list -> 'a2 list

val flat_map : ('a1 -> 'a2 list) -> 'a1 list -> 'a2 list

val fold_right : ('a2 -> 'a1 -> 'a1) -> 'a1 -> 'a2 list -> 'a1

val existsb : ('a1 -> bool) -> 'a1 list -> bool

val forallb : ('a1 -> bool) -> 'a1 list -> bool

val firstn : nat -> 'a1 list -> 'a1 list

val skipn : nat -> 'a1 list -> 'a1 list

type err =
| EValue
| EOob
| EFuel

type 'a res =
| Ok of 'a
| Err of err

val bind : 'a1 res -> ('a1 -> 'a2 res) -> 'a2 res

val rmap : ('a1 -> 'a2) -> 'a1 res -> 'a2 res

val mapM : ('a1 -> 'a2 res) -> 'a1 list -> 'a2 list res

val zlen : 'a1 list -> z

val get : 'a1 list -> z -> 'a1 res

val take : z -> 'a1 list -> 'a1 list

val drop : z -> 'a1 list -> 'a1 list

val slice : 'a1 list -> z -> z -> 'a1 list res

val iota_nat : z -> nat -> z list

val iota : z -> z list

val range : z -> z -> z list

val zip : 'a1 list -> 'a2 list -> ('a1 * 'a2) list

val pairs : z list -> (z * z) list

val list_eqb : ('a1 -> 'a1 -> bool) -> 'a1 list -> 'a1 list -> bool

val chunks_nat : 'a1 list -> z -> nat -> 'a1 list list

type width =
| I32
| U32
| I64

type dtype =
| DBool
| DInt8
| DInt16
| DInt32
| DInt64
| DUInt8
| DUInt16
| DUInt32
| DUInt64
| DFloat32
| DFloat64

type datum =
| DZ of z
| DNaN
| DInf of bool

type name = z list

type akind =
| AString
| ABytestring
| AChar
| AByte
| ACategorical

type value =
| VNum of datum
| VBool of bool
| VStr of bool * z list
| VNone
| VList of value list
| VRec of (name * value) list
| VTup of value list

type content =
| Numpy of dtype * z list * datum list
| Empty
| ListOffset of width * z list * content
| ListA of width * z list * z list * content
| Regular of content * z * z
| Indexed of width * z list * content
| IndexedOption of width * z list * content
| ByteMasked of z list * bool * content
| BitMasked of z list * bool * bool * z * content
| Unmasked of content
| Union of width * z list * z list * content list
| Record of content list * name list option * z
| Par of akind option * name option * content

val prodZ : z list -> z

val clen : content -> z

val cut1 : 'a1 list -> (z * z) -> 'a1 list res

val cut : 'a1 list -> z list -> 'a1 list list res

val cut2 : 'a1 list -> z list -> z list -> 'a1 list list res

val chunks : 'a1 list -> z -> z -> 'a1 list list res

val bit_at : z list -> bool -> z -> bool res

val pick_opt : value list -> bool -> z -> value res

val nest : z list -> z -> value list -> value list res

val leaf : dtype -> datum -> value

val bytes_of : value -> z list res

val row : name list option -> value list list -> z -> value res

val to_list : content -> value list res

val datum_eqb : datum -> datum -> bool

val value_eqb : value -> value -> bool

val strip : content -> content

val optionlike : content -> bool

val unionlike : content -> bool

val pair_okb : z -> (z * z) -> bool

val is_chars : akind -> content -> bool

val list_content : content -> content option

val paramcheck : akind option -> content -> bool

val is_strk : akind option -> bool

val union_okb : z list -> (z * z) -> bool

val validb : akind option -> content -> bool

val valid_b : content -> bool

type bytes = z list

type rnum =
| RZ of z
| RNaN
| RInf of bool
| RFrac

type ev =
| ENull
| EBool of bool
| EInt of z
| EReal of rnum
| EStr of bytes
| ESA
| EEA
| ESO
| EEO
| EKey of bytes

type jopts = { nan_s : bytes option; inf_s : bytes option;
               minf_s : bytes option }

val rdigits : nat -> z -> z list

val dec_nat : z -> z list

val dec : z -> z list

val is_digit : z -> bool

val read_digits : z list -> z -> z -> (z * z) * z list

val wrap64 : z -> z

val real_ev : jopts -> datum -> ev

val scalar_ev : jopts -> dtype -> datum -> ev

val byte_of : dtype -> datum -> z res

val str_of : dtype -> datum list -> ev list res

val is_charp : akind option -> bool

val np_block : jopts -> bool -> dtype -> z list -> datum list -> ev list res

val eff : akind option -> akind option -> akind option

val chars_of : akind option -> content -> (dtype * datum list) option

val range_events :
  (z -> ev list res) -> (dtype * datum list) option -> z -> z -> ev list res

val pick_nth : (content -> 'a1 res) -> content list -> nat -> 'a1 res

val fields_ev :
  (content -> ev list res) -> content list -> bytes list -> ev list res

val tuple_keys : nat -> bytes list

val item : jopts -> akind option -> content -> z -> ev list res

val tojson_events : jopts -> content -> ev list res

val datum_of : rnum -> datum res

val jval : nat -> ev list -> (value * ev list) res

val jvals : nat -> ev list -> (value list * ev list) res

val jkvs : nat -> ev list -> ((name * value) list * ev list) res

val json_value : ev list -> (value * ev list) res

val wf_val : nat -> ev list -> ev list option

val wf_vals : nat -> ev list -> ev list option

val wf_kvs : nat -> ev list -> ev list option

val wf : ev list -> bool

val is_byte : z -> bool

val printable_ev : ev -> bool

val printable : ev list -> bool

val hexdigit : z -> z

val esc_byte : z -> z list

val render_string : bytes -> z list

val render_real : rnum -> z list

val tok : ev -> z list

type prev =
| PStart
| PKey
| PVal

val after : ev -> prev

val is_end : ev -> bool

val sep : prev -> ev -> z list

val render_from : prev -> ev list -> z list

val render : ev list -> z list

val is_ws : z -> bool

val skip_ws : z list -> z list

val hexv : z -> z option

val hexfail : nat -> z list -> z list

val hex4 : z -> z -> z -> z -> z option

val utf8 : z -> z list

type sres =
| SOk of bytes * z list
| SFail of z list

val spush : z list -> sres -> sres

val lex_str : z list -> sres

type pres =
| POk of ev list * z list
| PFail of z list
| PFuel

val dbl_limit : z

val real_of : bool -> z -> z -> rnum option

val strip_minus : z list -> bool * z list

val lex_ipart : z list -> (z * z list) option

val lex_frac : z -> z list -> (((bool * z) * z) * z list, z list) sum

val lex_exp : z list -> ((bool * z) * z list, z list) sum

val classify : bool -> bool -> z -> z -> z -> z list -> pres

val lex_number : z list -> pres

val lit : z list -> ev -> z list -> pres

val pmap : (ev list -> ev list) -> pres -> pres

val parse_value : nat -> z list -> pres

val parse_elems : nat -> z list -> pres

val parse_members : nat -> z list -> pres

val fuel_for : z list -> nat

val parse1 : z list -> pres

val parse : z list -> (ev list * z list) res

val cstr : z list -> z list

val is_opt : bytes option -> bytes -> bool

val handler : jopts -> ev -> ev

type jerr =
| JIncomplete
| JInvalid
| JFuel

type jres =
| JDocs of ev list list
| JErr of jerr

val do_parse_loop : nat -> jopts -> z list -> ev list list -> jres

val do_parse_text : jopts -> z list -> jres

val do_parse : jopts -> z list -> jres

type fromjson_result =
| One of ev list
| Many of ev list list

val unwrap : ev list list -> fromjson_result
