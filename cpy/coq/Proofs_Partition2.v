(** Proofs_Partition2: the combination rules partition.py / reducers.py use when the axis IS the outermost level
    or there is no axis at all (property C18, partitioned half).
      - num(axis -> 0): the sum of the per-partition counts;
      - local_index(axis -> 0): partition k counts on from the sum of the earlier lengths;
      - reducers with axis=None: count / count_nonzero / sum / prod / any / all / min / max of the whole are the
        reducer's own combination of the per-partition results ([red_comb]; the empty min/max - None - is the unit);
        argmin / argmax = first extremum, position offset by the number of FLATTENED items of the earlier
        partitions, ties: the earliest partition wins ([arg_parts] is the loop of reducers.py);
      - flatten(axis=None) / the leaves: a homomorphism for types without records,
        REFUTED for records (field-major order of _util.completely_flatten);
      - reduce(axis=0) on a record type whose fields differ in depth: partition.py's own test sends it to the
        partitions although the axis is the outermost one: REFUTED as a homomorphism. *)
From Coq Require Import ZArith List Bool Lia ZifyBool.
From AwkV Require Import Base Layout Valid Types AtAxis Ops_Struct Ops_Flatten Ops_Option Ops_Reduce Ops_Sort
  Ops_Getitem Ops_Fields Proofs_Lists.
From AwkPy Require Import PySpec Proofs_Partition.
Import ListNotations.
Open Scope Z_scope.

(* ====================================================================== generic fold with any combiner *)
Section HomC.
  Context {R : Type}.
  Variable op : list value -> res R.
  Variable c : R -> R -> R.
  Hypothesis op_app : forall xs ys, op (xs ++ ys) = lift2 c (op xs) (op ys).
  Lemma homc_fold (parts : list (list value)) :
    op (concat parts) = fold_right (fun p acc => lift2 c (op p) acc) (op []) parts.
  Proof. induction parts as [|p r IH]; [reflexivity|]. cbn [concat fold_right]. rewrite op_app, IH. reflexivity. Qed.
End HomC.

(* ====================================================================== num, axis resolving to 0 *)
Definition vadd (a b : value) : value :=
  match a, b with VNum (DZ x), VNum (DZ y) => VNum (DZ (x + y)) | _, _ => VNone end.

Theorem spec_num_top_app_lemma axis t xs ys :
  resolve_axis_top t axis = Ok 0 ->
  spec_num axis t (xs ++ ys) = lift2 vadd (spec_num axis t xs) (spec_num axis t ys).
Proof.
  intro H. unfold spec_num. rewrite H. cbn [bind Z.eqb].
  destruct t; try reflexivity; unfold lift2; cbn [bind vadd]; rewrite zlen_app; reflexivity.
Qed.

Lemma zlen_concat {A} (ls : list (list A)) : zlen (concat ls) = sumZ (map (@zlen A) ls).
Proof.
  induction ls as [|l ls IH]; [reflexivity|]. cbn [concat map]. rewrite zlen_app, IH. reflexivity.
Qed.

(* sum(prepared) of partition.py *)
Theorem spec_num_top_parts_lemma axis t parts :
  resolve_axis_top t axis = Ok 0 -> is_union t = false ->
  spec_num axis t (concat parts) = Ok (VNum (DZ (sumZ (map (@zlen value) parts)))) /\
  spec_num axis t (concat parts) =
    fold_right (fun p acc => lift2 vadd (spec_num axis t p) acc) (spec_num axis t []) parts.
Proof.
  intros H Hu. split.
  - unfold spec_num. rewrite H. cbn [bind Z.eqb]. rewrite zlen_concat.
    destruct t; try reflexivity. discriminate.
  - apply homc_fold. intros. apply spec_num_top_app_lemma, H.
Qed.

(* ====================================================================== local_index, axis resolving to 0 *)
Definition vint (i : Z) : value := VNum (DZ i).
(* the loop of PartitionedArray.localindex: arange(start, start + len(x)); start += len(x) *)
Fixpoint li_parts (start : Z) (parts : list (list value)) : list (list value) :=
  match parts with
  | [] => []
  | p :: r => map vint (range start (start + zlen p)) :: li_parts (start + zlen p) r
  end.

Lemma iota_range n : iota n = range 0 n.
Proof. unfold iota, range. rewrite Z.sub_0_r. reflexivity. Qed.

Lemma range_li_parts parts : forall start,
  map vint (range start (start + zlen (concat parts))) = concat (li_parts start parts).
Proof.
  induction parts as [|p r IH]; intro start.
  - cbn [concat li_parts]. rewrite range_empty by (cbn; lia). reflexivity.
  - cbn [concat li_parts]. rewrite zlen_app.
    pose proof (zlen_nonneg p). pose proof (zlen_nonneg (concat r)).
    rewrite (range_split start (start + zlen p)) by lia.
    rewrite map_app. f_equal. rewrite <- IH. f_equal. f_equal. lia.
Qed.

Theorem spec_local_index_top_parts_lemma axis t parts :
  resolve_axis_top t axis = Ok 0 ->
  spec_local_index axis t (concat parts) = Ok (VList (concat (li_parts 0 parts))).
Proof.
  intro H. unfold spec_local_index. rewrite H. cbn [bind Z.eqb].
  rewrite iota_range. fold vint. rewrite <- range_li_parts. reflexivity.
Qed.

(* two partitions: the second one starts at the length of the first *)
Theorem spec_local_index_top_app_lemma axis t xs ys :
  resolve_axis_top t axis = Ok 0 ->
  spec_local_index axis t (xs ++ ys) =
  lift2 vapp (spec_local_index axis t xs) (Ok (VList (map vint (range (zlen xs) (zlen xs + zlen ys))))).
Proof.
  intro H. unfold spec_local_index. rewrite H. cbn [bind Z.eqb]. unfold lift2. cbn [bind vapp].
  rewrite !iota_range, zlen_app.
  pose proof (zlen_nonneg xs). pose proof (zlen_nonneg ys).
  rewrite (range_split 0 (zlen xs)) by lia. rewrite map_app. reflexivity.
Qed.

(* ====================================================================== reducers, axis=None: closed forms *)
Definition is_arg (r : reducer) : bool := match r with RArgmin | RArgmax => true | _ => false end.
Definition nz (x : Z) : bool := negb (x =? 0).

(* what reduce_leaves returns when it is specified *)
Definition red_leaves (r : reducer) (dt : dtype) (zs : list Z) : value :=
  opt_val (leaf_reduce r (default_mask r) dt (enum zs)).

(* the same, written on the list of integers *)
Definition red_val (r : reducer) (dt : dtype) (zs : list Z) : value :=
  match r with
  | RCount => VNum (DZ (zlen zs))
  | RCountNonzero => VNum (DZ (zlen (filter nz zs)))
  | RSum => VNum (DZ (wrap_acc dt (fold_left Z.add zs 0)))
  | RProd => VNum (DZ (wrap_acc dt (fold_left Z.mul zs 1)))
  | RAny => VBool (existsb nz zs)
  | RAll => VBool (forallb nz zs)
  | RMin => match zs with
            | [] => VNone
            | x :: rest => if is_bool_dt dt then VBool (forallb nz zs) else VNum (DZ (fold_left Z.min rest x))
            end
  | RMax => match zs with
            | [] => VNone
            | x :: rest => if is_bool_dt dt then VBool (existsb nz zs) else VNum (DZ (fold_left Z.max rest x))
            end
  | RArgmin => match argbest Z.ltb None (enum zs) with Some (j, _) => VNum (DZ j) | None => VNone end
  | RArgmax => match argbest Z.gtb None (enum zs) with Some (j, _) => VNum (DZ j) | None => VNone end
  end.

Lemma map_snd_zip_iota {A} (l : list A) : forall s, map snd (zip (iota_nat s (length l)) l) = l.
Proof. induction l as [|x l IH]; intro s; [reflexivity|]. cbn [length iota_nat zip map snd]. rewrite IH. reflexivity. Qed.

Definition enum_from {A} (s : Z) (l : list A) : list (Z * A) := zip (iota_nat s (length l)) l.
Lemma enum_eq {A} (l : list A) : enum l = enum_from 0 l.
Proof. unfold enum, enum_from, iota, zlen. rewrite Nat2Z.id. reflexivity. Qed.
Lemma map_snd_enum' {A} (l : list A) : map snd (enum l) = l.
Proof. rewrite enum_eq. apply map_snd_zip_iota. Qed.
Lemma zlen_enum {A} (l : list A) : zlen (enum l) = zlen l.
Proof. rewrite <- (map_snd_enum' l) at 2. rewrite zlen_map. reflexivity. Qed.
Lemma enum_nil_inv {A} (l : list A) : enum l = [] -> l = [].
Proof. intro H. rewrite <- (map_snd_enum' l), H. reflexivity. Qed.
Lemma enum_cons {A} (x : A) l : enum (x :: l) = (0, x) :: enum_from 1 l.
Proof. rewrite enum_eq. reflexivity. Qed.

Lemma argbest_seeded_some better b l : exists b', argbest better (Some b) l = Some b'.
Proof.
  revert b. induction l as [|[j x] l IH]; intro b; [exists b; reflexivity|].
  cbn [argbest]. destruct b as [bj bx]. destruct (better x bx); apply IH.
Qed.

Theorem red_leaves_val r dt zs : red_leaves r dt zs = red_val r dt zs.
Proof.
  unfold red_leaves.
  pose proof (map_snd_enum' zs) as Hs. pose proof (zlen_enum zs) as Hl.
  destruct r; cbn [default_mask red_val]; unfold leaf_reduce.
  - destruct (enum zs); cbn [opt_val]; rewrite Hl; reflexivity.
  - destruct (enum zs); cbn [opt_val]; rewrite Hs; reflexivity.
  - destruct (enum zs); cbn [opt_val]; rewrite Hs; reflexivity.
  - destruct (enum zs); cbn [opt_val]; rewrite Hs; reflexivity.
  - destruct (enum zs); cbn [opt_val]; rewrite Hs; reflexivity.
  - destruct (enum zs); cbn [opt_val]; rewrite Hs; reflexivity.
  - destruct (enum zs) as [|p l]; cbn [opt_val].
    + cbn in Hs. subst zs. reflexivity.
    + rewrite Hs. destruct zs as [|x rest]; [discriminate|]. destruct dt; reflexivity.
  - destruct (enum zs) as [|p l]; cbn [opt_val].
    + cbn in Hs. subst zs. reflexivity.
    + rewrite Hs. destruct zs as [|x rest]; [discriminate|]. destruct dt; reflexivity.
  - destruct (enum zs) as [|[j x] l] eqn:E; cbn [opt_val]; [reflexivity|].
    cbn [argbest]. destruct (argbest_seeded_some Z.ltb (j, x) l) as [[j' x'] ->]. reflexivity.
  - destruct (enum zs) as [|[j x] l] eqn:E; cbn [opt_val]; [reflexivity|].
    cbn [argbest]. destruct (argbest_seeded_some Z.gtb (j, x) l) as [[j' x'] ->]. reflexivity.
Qed.

(* reduce_leaves = the closed form, or unspecified (float sum / product beyond the exact integers), or - for
   argmin / argmax of nothing - an error *)
Definition float_unspec (r : reducer) (dt : dtype) (zs : list Z) : bool :=
  is_float dt && match r with
                 | RSum => float_limit dt <? fold_left Z.add (map Z.abs zs) 0
                 | RProd => float_limit dt <? fold_left Z.mul (map Z.abs (filter (fun z => negb (z =? 0)) zs)) 1
                 | _ => false
                 end.
Lemma reduce_leaves_val r dt zs :
  reduce_leaves r dt zs =
  if float_unspec r dt zs then Err EFuel
  else if is_arg r then match zs with [] => Err EValue | _ => Ok (red_val r dt zs) end
  else Ok (red_val r dt zs).
Proof.
  unfold reduce_leaves. fold (float_unspec r dt zs). destruct (float_unspec r dt zs); [reflexivity|].
  rewrite <- red_leaves_val. unfold red_leaves.
  destruct r; cbn [is_arg default_mask]; try reflexivity;
    (destruct zs as [|z zs]; [reflexivity|rewrite enum_cons; reflexivity]).
Qed.

(* ====================================================================== the reducer's own combination *)
Definition red_comb (r : reducer) (dt : dtype) (a b : value) : value :=
  match r with
  | RCount | RCountNonzero => vadd a b
  | RSum => match a, b with VNum (DZ x), VNum (DZ y) => VNum (DZ (wrap_acc dt (x + y))) | _, _ => VNone end
  | RProd => match a, b with VNum (DZ x), VNum (DZ y) => VNum (DZ (wrap_acc dt (x * y))) | _, _ => VNone end
  | RAny => match a, b with VBool x, VBool y => VBool (x || y) | _, _ => VNone end
  | RAll => match a, b with VBool x, VBool y => VBool (x && y) | _, _ => VNone end
  | RMin => match a, b with
            | VNone, _ => b
            | _, VNone => a
            | VBool x, VBool y => VBool (x && y)
            | VNum (DZ x), VNum (DZ y) => VNum (DZ (Z.min x y))
            | _, _ => VNone
            end
  | RMax => match a, b with
            | VNone, _ => b
            | _, VNone => a
            | VBool x, VBool y => VBool (x || y)
            | VNum (DZ x), VNum (DZ y) => VNum (DZ (Z.max x y))
            | _, _ => VNone
            end
  | RArgmin | RArgmax => VNone
  end.

Lemma fold_add_acc l : forall a, fold_left Z.add l a = a + fold_left Z.add l 0.
Proof. induction l as [|x l IH]; intro a; cbn [fold_left]; [lia|]. rewrite (IH (a + x)), (IH (0 + x)). lia. Qed.
Lemma fold_mul_acc l : forall a, fold_left Z.mul l a = a * fold_left Z.mul l 1.
Proof. induction l as [|x l IH]; intro a; cbn [fold_left]; [lia|]. rewrite (IH (a * x)), (IH (1 * x)). lia. Qed.
Lemma fold_min_acc l : forall p y, fold_left Z.min l (Z.min p y) = Z.min p (fold_left Z.min l y).
Proof. induction l as [|x l IH]; intros p y; cbn [fold_left]; [reflexivity|]. rewrite <- Z.min_assoc. apply IH. Qed.
Lemma fold_max_acc l : forall p y, fold_left Z.max l (Z.max p y) = Z.max p (fold_left Z.max l y).
Proof. induction l as [|x l IH]; intros p y; cbn [fold_left]; [reflexivity|]. rewrite <- Z.max_assoc. apply IH. Qed.

Lemma wrap_u64_mod z : wrap_u64 z = z mod two64.
Proof. reflexivity. Qed.
Lemma wrap_s64_mod z : (wrap_s64 z) mod two64 = z mod two64.
Proof.
  unfold wrap_s64. rewrite Zminus_mod, Z.mod_mod by (unfold two64; lia).
  rewrite <- Zminus_mod. f_equal. lia.
Qed.
Lemma wrap_s64_congr a b : a mod two64 = b mod two64 -> wrap_s64 a = wrap_s64 b.
Proof.
  intro H. unfold wrap_s64. f_equal.
  rewrite (Z.add_mod a), (Z.add_mod b) by (unfold two64; lia). rewrite H. reflexivity.
Qed.
Lemma wrap_u64_congr a b : a mod two64 = b mod two64 -> wrap_u64 a = wrap_u64 b.
Proof. exact (fun H => H). Qed.

Lemma wrap_acc_add dt x y : wrap_acc dt (x + y) = wrap_acc dt (wrap_acc dt x + wrap_acc dt y).
Proof.
  unfold wrap_acc. destruct (is_float dt); [reflexivity|]. destruct (is_unsigned dt).
  - apply wrap_u64_congr. unfold wrap_u64. rewrite <- Z.add_mod by (unfold two64; lia). reflexivity.
  - apply wrap_s64_congr. rewrite (Z.add_mod (wrap_s64 x)) by (unfold two64; lia).
    rewrite !wrap_s64_mod. rewrite <- Z.add_mod by (unfold two64; lia). reflexivity.
Qed.
Lemma wrap_acc_mul dt x y : wrap_acc dt (x * y) = wrap_acc dt (wrap_acc dt x * wrap_acc dt y).
Proof.
  unfold wrap_acc. destruct (is_float dt); [reflexivity|]. destruct (is_unsigned dt).
  - apply wrap_u64_congr. unfold wrap_u64. rewrite <- Z.mul_mod by (unfold two64; lia). reflexivity.
  - apply wrap_s64_congr. rewrite (Z.mul_mod (wrap_s64 x)) by (unfold two64; lia).
    rewrite !wrap_s64_mod. rewrite <- Z.mul_mod by (unfold two64; lia). reflexivity.
Qed.

(* two partitions *)
Theorem red_val_app_lemma r dt a b :
  is_arg r = false -> red_val r dt (a ++ b) = red_comb r dt (red_val r dt a) (red_val r dt b).
Proof.
  intro Hr. destruct r; try discriminate Hr; cbn [red_val red_comb vadd].
  - rewrite zlen_app. reflexivity.
  - rewrite filter_app, zlen_app. reflexivity.
  - rewrite fold_left_app, (fold_add_acc b). rewrite wrap_acc_add. reflexivity.
  - rewrite fold_left_app, (fold_mul_acc b). rewrite wrap_acc_mul. reflexivity.
  - rewrite existsb_app. reflexivity.
  - rewrite forallb_app. reflexivity.
  - destruct a as [|x ra]; [destruct (red_val RMin dt b); reflexivity|].
    destruct b as [|y rb].
    + rewrite app_nil_r. destruct (is_bool_dt dt); reflexivity.
    + cbn [app]. destruct (is_bool_dt dt).
      * change (x :: ra ++ y :: rb) with ((x :: ra) ++ (y :: rb)). rewrite forallb_app. reflexivity.
      * rewrite fold_left_app. cbn [fold_left]. rewrite fold_min_acc. reflexivity.
  - destruct a as [|x ra]; [destruct (red_val RMax dt b); reflexivity|].
    destruct b as [|y rb].
    + rewrite app_nil_r. destruct (is_bool_dt dt); reflexivity.
    + cbn [app]. destruct (is_bool_dt dt).
      * change (x :: ra ++ y :: rb) with ((x :: ra) ++ (y :: rb)). rewrite existsb_app. reflexivity.
      * rewrite fold_left_app. cbn [fold_left]. rewrite fold_max_acc. reflexivity.
Qed.

(* any number of partitions: fold the per-partition results with the reducer's combination, starting from the
   result for nothing (0 / 1 / False / True / None) *)
Theorem red_val_parts_lemma r dt (zss : list (list Z)) :
  is_arg r = false ->
  red_val r dt (concat zss) = fold_right (red_comb r dt) (red_val r dt []) (map (red_val r dt) zss).
Proof.
  intro Hr. induction zss as [|zs zss IH]; [reflexivity|].
  cbn [concat map fold_right]. rewrite red_val_app_lemma by exact Hr. rewrite IH. reflexivity.
Qed.

(* the result for nothing is a unit of the combination on results of that reducer *)
Theorem red_comb_unit_lemma r dt zs :
  is_arg r = false ->
  red_comb r dt (red_val r dt zs) (red_val r dt []) = red_val r dt zs /\
  red_comb r dt (red_val r dt []) (red_val r dt zs) = red_val r dt zs.
Proof.
  intro Hr. split.
  - rewrite <- red_val_app_lemma by exact Hr. rewrite app_nil_r. reflexivity.
  - rewrite <- red_val_app_lemma by exact Hr. reflexivity.
Qed.

(* ====================================================================== argmin / argmax over partitions *)
(* the loop of reducers.py (argmin/argmax, axis=None, PartitionedArray): [start] counts the flattened items seen,
   an empty partition is skipped, a later partition replaces the best only when STRICTLY better *)
Fixpoint arg_parts (better : Z -> Z -> bool) (start : Z) (best : option (Z * Z)) (zss : list (list Z))
  : option (Z * Z) :=
  match zss with
  | [] => best
  | p :: rest =>
      let best' :=
        match argbest better None (enum p) with
        | None => best
        | Some (j, x) =>
            match best with
            | None => Some (start + j, x)
            | Some (_, bx) => if better x bx then Some (start + j, x) else best
            end
        end in
      arg_parts better (start + zlen p) best' rest
  end.

Section Arg.
  Variable better : Z -> Z -> bool.
  Hypothesis better_trans : forall x y z, better x y = true -> better y z = true -> better x z = true.
  Hypothesis better_negtrans : forall x y z, better x y = false -> better y z = false -> better x z = false.

  Lemma argbest_app best l1 l2 : argbest better best (l1 ++ l2) = argbest better (argbest better best l1) l2.
  Proof.
    revert best. induction l1 as [|[j x] l1 IH]; intro best; [reflexivity|].
    cbn [app argbest]. destruct best as [[bj bx]|]; [destruct (better x bx)|]; apply IH.
  Qed.

  (* a seeded search = the unseeded one, compared with the seed at the end *)
  Lemma argbest_seed l : forall i bx,
    argbest better (Some (i, bx)) l =
    match argbest better None l with
    | None => Some (i, bx)
    | Some (j, x) => if better x bx then Some (j, x) else Some (i, bx)
    end.
  Proof.
    induction l as [|[j0 x0] l IH]; intros i bx; [reflexivity|].
    cbn [argbest]. rewrite (IH j0 x0).
    destruct (better x0 bx) eqn:E0.
    - destruct (argbest better None l) as [[j x]|]; [|rewrite E0; reflexivity].
      destruct (better x x0) eqn:E1.
      + rewrite (better_trans x x0 bx E1 E0). reflexivity.
      + rewrite E0. reflexivity.
    - rewrite (IH i bx). destruct (argbest better None l) as [[j x]|]; [|rewrite E0; reflexivity].
      destruct (better x x0) eqn:E1.
      + reflexivity.
      + rewrite E0. rewrite (better_negtrans x x0 bx E1 E0). reflexivity.
  Qed.

  Definition shift (k : Z) (p : Z * Z) : Z * Z := (fst p + k, snd p).
  Lemma argbest_shift k l : forall best,
    argbest better (option_map (shift k) best) (map (shift k) l) = option_map (shift k) (argbest better best l).
  Proof.
    induction l as [|[j x] l IH]; intro best; [reflexivity|].
    cbn [map argbest]. destruct best as [[bj bx]|]; cbn [option_map shift fst snd].
    - destruct (better x bx).
      + apply (IH (Some (j, x))).
      + apply (IH (Some (bj, bx))).
    - apply (IH (Some (j, x))).
  Qed.

  Lemma argbest_shift_None k l :
    argbest better None (map (shift k) l) = option_map (shift k) (argbest better None l).
  Proof. exact (argbest_shift k l None). Qed.

  Lemma enum_from_shift (l : list Z) s k : enum_from (s + k) l = map (shift k) (enum_from s l).
  Proof.
    unfold enum_from. revert s. induction l as [|x l IH]; intro s; [reflexivity|].
    cbn [length iota_nat zip map shift fst snd]. f_equal.
    replace (s + k + 1) with (s + 1 + k) by lia. apply IH.
  Qed.

  Lemma enum_from_app (a b : list Z) s : enum_from s (a ++ b) = enum_from s a ++ enum_from (s + zlen a) b.
  Proof.
    unfold enum_from. revert s. induction a as [|x a IH]; intro s.
    - cbn [app length iota_nat zip]. replace (s + zlen (@nil Z)) with s by (cbn; lia). reflexivity.
    - cbn [app length iota_nat zip]. f_equal. rewrite IH. f_equal. f_equal. f_equal. rewrite zlen_cons. lia.
  Qed.

  Lemma arg_parts_gen zss : forall start best,
    arg_parts better start best zss = argbest better best (enum_from start (concat zss)).
  Proof.
    induction zss as [|p rest IH]; intros start best; [reflexivity|].
    cbn [arg_parts concat]. rewrite IH, enum_from_app, argbest_app. f_equal.
    (* the step: one partition *)
    replace (enum_from start p) with (map (shift start) (enum p))
      by (rewrite enum_eq, <- enum_from_shift; f_equal).
    destruct best as [[bi bx]|].
    - rewrite argbest_seed.
      rewrite argbest_shift_None.
      destruct (argbest better None (enum p)) as [[j x]|]; cbn [option_map]; unfold shift; cbn [fst snd]; [|reflexivity].
      replace (j + start) with (start + j) by lia. reflexivity.
    - rewrite argbest_shift_None.
      destruct (argbest better None (enum p)) as [[j x]|]; cbn [option_map]; unfold shift; cbn [fst snd]; [|reflexivity].
      replace (j + start) with (start + j) by lia. reflexivity.
  Qed.

  Lemma arg_parts_argbest zss : arg_parts better 0 None zss = argbest better None (enum (concat zss)).
  Proof. rewrite arg_parts_gen, enum_eq. reflexivity. Qed.
End Arg.

Theorem arg_parts_first_min_lemma zss : arg_parts Z.ltb 0 None zss = argbest Z.ltb None (enum (concat zss)).
Proof. apply arg_parts_argbest; intros x y z; lia. Qed.
Theorem arg_parts_first_max_lemma zss : arg_parts Z.gtb 0 None zss = argbest Z.gtb None (enum (concat zss)).
Proof. apply arg_parts_argbest; intros x y z; lia. Qed.

Definition arg_better (r : reducer) : Z -> Z -> bool := match r with RArgmin => Z.ltb | _ => Z.gtb end.
(* what the partitioned argmin / argmax of reducers.py returns *)
Definition py_arg_parts (r : reducer) (zss : list (list Z)) : res value :=
  match arg_parts (arg_better r) 0 None zss with
  | Some (j, _) => Ok (VNum (DZ j))
  | None => Err EValue               (* "attempt to get argmax of an empty sequence" *)
  end.

Theorem reduce_leaves_arg_parts_lemma r dt (zss : list (list Z)) :
  is_arg r = true -> reduce_leaves r dt (concat zss) = py_arg_parts r zss.
Proof.
  intro Hr. rewrite reduce_leaves_val. unfold py_arg_parts.
  assert (Hf : float_unspec r dt (concat zss) = false).
  { unfold float_unspec. destruct r; try discriminate Hr; apply andb_false_r. }
  rewrite Hf, Hr.
  assert (Hab : arg_parts (arg_better r) 0 None zss = argbest (arg_better r) None (enum (concat zss))).
  { destruct r; try discriminate Hr; cbn [arg_better]; apply arg_parts_argbest; intros x y z; lia. }
  rewrite Hab.
  destruct (concat zss) as [|z0 zs] eqn:Ec; [reflexivity|].
  rewrite enum_cons. cbn [argbest].
  destruct (argbest_seeded_some (arg_better r) (0, z0) (enum_from 1 zs)) as [[j x] Hj]. rewrite Hj.
  destruct r; try discriminate Hr; cbn [red_val arg_better] in *; rewrite enum_cons; cbn [argbest]; rewrite Hj; reflexivity.
Qed.

(* ====================================================================== the leaves of a partitioned array *)
(* _util.completely_flatten: a homomorphism when there is no record (and no union: unspecified) below *)
Definition plain (t : ty) : bool := negb (has_union t) && negb (has_rec t).

Lemma plain_list sz t' : plain (TList sz None t') = plain t'.
Proof. reflexivity. Qed.

Lemma leaves_l_err t : plain t = true -> forall vs e, leaves_l t vs = Err e -> e = EValue.
Proof.
  unfold plain. induction t as [dt| |sz str t' IH|t' IH|ks ts|ts]; intros Hp vs e H; cbn [has_union has_rec] in Hp.
  - discriminate.
  - cbn in H. destruct vs; [discriminate|]. congruence.
  - destruct str as [b|].
    + cbn [leaves_l] in H.
      destruct (mapM (fun v => match v with VStr _ s => Ok (chars s) | _ => Err EValue end) vs) as [ls|e'] eqn:E;
        cbn in H; [discriminate|]. injection H as <-.
      apply mapM_Err in E. destruct E as (x & _ & Hx). destruct x; congruence.
    + cbn [leaves_l] in H.
      destruct (mapM (fun v => match v with VList l => Ok l | _ => Err EValue end) vs) as [ls|e'] eqn:E;
        cbn [bind] in H.
      * apply (IH Hp _ _ H).
      * injection H as <-. apply mapM_Err in E. destruct E as (x & _ & Hx). destruct x; congruence.
  - cbn [leaves_l] in H. apply (IH Hp _ _ H).
  - rewrite andb_false_r in Hp. discriminate.
  - discriminate.
Qed.

Theorem leaves_l_app_lemma t : plain t = true -> forall xs ys,
  leaves_l t (xs ++ ys) = lift2 (@app value) (leaves_l t xs) (leaves_l t ys).
Proof.
  induction t as [dt| |sz str t' IH|t' IH|ks ts|ts]; intros Hp xs ys.
  - reflexivity.
  - cbn [leaves_l]. destruct xs as [|x xs]; [destruct ys; reflexivity|reflexivity].
  - destruct str as [b|].
    + cbn [leaves_l]. rewrite mapM_app. unfold lift2.
      destruct (mapM _ xs) as [a|e]; cbn [bind rmap]; [|reflexivity].
      destruct (mapM _ ys) as [b'|e]; cbn [bind rmap]; [|reflexivity]. rewrite concat_app. reflexivity.
    + cbn [leaves_l]. rewrite mapM_app. unfold lift2.
      destruct (mapM _ xs) as [a|e]; cbn [bind]; [|reflexivity].
      destruct (mapM _ ys) as [b'|e] eqn:Ey; cbn [bind].
      * rewrite concat_app. apply (IH Hp).
      * (* the second partition is not a list of lists: the first one can only fail with the same error *)
        destruct (leaves_l t' (concat a)) as [la|e'] eqn:Ea; cbn [bind].
        -- reflexivity.
        -- apply (leaves_l_err t' Hp) in Ea. subst e'.
           apply mapM_Err in Ey. destruct Ey as (x & _ & Hx). destruct x; congruence.
  - cbn [leaves_l]. rewrite filter_app. apply (IH Hp).
  - unfold plain in Hp. cbn [has_rec] in Hp. rewrite andb_false_r in Hp. discriminate.
  - discriminate.
Qed.

Lemma leaves_l_nil t : plain t = true -> leaves_l t [] = Ok [].
Proof.
  induction t as [dt| |sz str t' IH|t' IH|ks ts|ts]; intro Hp; try reflexivity.
  - destruct str; [reflexivity|]. cbn [leaves_l mapM bind concat]. apply (IH Hp).
  - cbn [leaves_l filter]. apply (IH Hp).
  - unfold plain in Hp. cbn [has_rec] in Hp. rewrite andb_false_r in Hp. discriminate.
  - discriminate.
Qed.

(* ak.flatten(array, axis=None) / ak.ravel of a partitioned array without records *)
Theorem spec_flatten_none_app_lemma t xs ys :
  has_rec t = false ->
  spec_flatten None t (xs ++ ys) = lift2 vapp (spec_flatten None t xs) (spec_flatten None t ys).
Proof.
  intro Hr. unfold spec_flatten, spec_flatten_none.
  destruct (has_union t) eqn:Hu; [reflexivity|].
  destruct (leaf_dts t); [reflexivity|].
  unfold flatten_none_list. rewrite leaves_l_app_lemma by (unfold plain; rewrite Hu, Hr; reflexivity).
  unfold lift2.
  destruct (leaves_l t xs) as [a|e]; cbn [bind rmap]; [|reflexivity].
  destruct (leaves_l t ys) as [b|e]; cbn [bind rmap vapp]; [|reflexivity].
  rewrite map_app. reflexivity.
Qed.
Theorem spec_flatten_none_parts_lemma t parts :
  has_rec t = false -> parts <> [] ->
  spec_flatten None t (concat parts) = rmap vconcat (mapM (spec_flatten None t) parts).
Proof. intro H. apply homv_parts. intros. apply spec_flatten_none_app_lemma, H. Qed.

(* ====================================================================== reducers with axis=None on partitions *)
(* the integer leaves of one partition *)
Definition leaf_ints (t : ty) (vs : list value) : res (list Z) :=
  do ls <- leaves_l t vs; mapM leaf_int ls.

Lemma leaf_ints_concat t parts zss :
  plain t = true -> mapM (leaf_ints t) parts = Ok zss -> leaf_ints t (concat parts) = Ok (concat zss).
Proof.
  intro Hp. revert zss. induction parts as [|p r IH]; intros zss H.
  - cbn in H. injection H as <-. unfold leaf_ints. cbn [concat]. rewrite leaves_l_nil by exact Hp. reflexivity.
  - cbn [mapM] in H. destruct (leaf_ints t p) as [zs|] eqn:Ep; cbn [bind] in H; [|discriminate].
    destruct (mapM (leaf_ints t) r) as [zr|] eqn:Er; cbn [bind] in H; [|discriminate]. injection H as <-.
    specialize (IH zr eq_refl). unfold leaf_ints in *. cbn [concat].
    rewrite leaves_l_app_lemma by exact Hp. unfold lift2.
    destruct (leaves_l t p) as [lp|]; cbn [bind] in *; [|discriminate].
    destruct (leaves_l t (concat r)) as [lr|]; cbn [bind] in *; [|discriminate].
    rewrite mapM_app, Ep, IH. reflexivity.
Qed.

Lemma spec_reduce_none_ints r t dt vs zs :
  single_dt (leaf_dts t) = Some dt -> has_rec t = false -> leaf_ints t vs = Ok zs ->
  spec_reduce_none r t vs = reduce_leaves r dt zs.
Proof.
  intros Hd Hr H. unfold spec_reduce_none, leaf_ints in *. rewrite Hd, Hr.
  destruct (leaves_l t vs) as [ls|]; cbn [bind] in *; [|discriminate]. rewrite H. cbn [bind].
  destruct r; reflexivity.
Qed.

Lemma spec_reduce_none_ok_ints r t dt vs v :
  single_dt (leaf_dts t) = Some dt -> has_rec t = false ->
  spec_reduce_none r t vs = Ok v -> exists zs, leaf_ints t vs = Ok zs /\ reduce_leaves r dt zs = Ok v.
Proof.
  intros Hd Hr H. unfold spec_reduce_none, leaf_ints in *. rewrite Hd, Hr in H.
  destruct (leaves_l t vs) as [ls|]; cbn [bind] in *; [|discriminate].
  destruct (mapM leaf_int ls) as [zs|]; cbn [bind] in *; [|discriminate].
  exists zs. split; [reflexivity|]. destruct r; exact H.
Qed.

(* the whole = the reducer applied to the concatenated leaves of the partitions *)
Theorem spec_reduce_none_concat_lemma r t dt parts zss :
  single_dt (leaf_dts t) = Some dt -> plain t = true ->
  mapM (leaf_ints t) parts = Ok zss ->
  spec_reduce_none r t (concat parts) = reduce_leaves r dt (concat zss).
Proof.
  intros Hd Hp H. apply spec_reduce_none_ints; [exact Hd| |apply leaf_ints_concat; assumption].
  unfold plain in Hp. destruct (has_rec t); [rewrite andb_false_r in Hp; discriminate|reflexivity].
Qed.

Lemma plain_norec t : plain t = true -> has_rec t = false.
Proof. unfold plain. destruct (has_rec t); [rewrite andb_false_r; discriminate|reflexivity]. Qed.

Lemma parts_results r t dt parts vs :
  single_dt (leaf_dts t) = Some dt -> plain t = true -> is_arg r = false ->
  mapM (spec_reduce_none r t) parts = Ok vs ->
  exists zss, mapM (leaf_ints t) parts = Ok zss /\ vs = map (red_val r dt) zss.
Proof.
  intros Hd Hp Hr. revert vs. induction parts as [|p rest IH]; intros vs H.
  - cbn in H. injection H as <-. exists []. split; reflexivity.
  - cbn [mapM] in H. destruct (spec_reduce_none r t p) as [v|] eqn:Ep; cbn [bind] in H; [|discriminate].
    destruct (mapM (spec_reduce_none r t) rest) as [vr|] eqn:Er; cbn [bind] in H; [|discriminate]. injection H as <-.
    destruct (IH vr eq_refl) as (zr & Hzr & ->).
    destruct (spec_reduce_none_ok_ints r t dt p v Hd (plain_norec t Hp) Ep) as (zs & Hzs & Hv).
    exists (zs :: zr). split.
    + cbn [mapM]. rewrite Hzs, Hzr. reflexivity.
    + cbn [map]. f_equal. rewrite reduce_leaves_val in Hv.
      destruct (float_unspec r dt zs); [discriminate|]. rewrite Hr in Hv. congruence.
Qed.

(* count / count_nonzero / sum / prod / any / all / min / max with axis=None: if every partition has a result and
   the whole has one, the whole is the reducer's combination of the per-partition results *)
Theorem reduce_none_parts_lemma r t dt parts vs v :
  single_dt (leaf_dts t) = Some dt -> plain t = true -> is_arg r = false ->
  mapM (spec_reduce_none r t) parts = Ok vs ->
  spec_reduce_none r t (concat parts) = Ok v ->
  v = fold_right (red_comb r dt) (red_val r dt []) vs.
Proof.
  intros Hd Hp Hr Hvs Hv.
  destruct (parts_results r t dt parts vs Hd Hp Hr Hvs) as (zss & Hz & ->).
  rewrite (spec_reduce_none_concat_lemma r t dt parts zss Hd Hp Hz) in Hv.
  rewrite reduce_leaves_val in Hv. destruct (float_unspec r dt (concat zss)); [discriminate|].
  rewrite Hr in Hv. injection Hv as <-. apply red_val_parts_lemma, Hr.
Qed.

(* ... and for integer / Boolean leaves (no float sum / product outside the exact range) the whole HAS that result *)
Theorem reduce_none_parts_exact_lemma r t dt parts vs :
  single_dt (leaf_dts t) = Some dt -> plain t = true -> is_arg r = false -> is_float dt = false ->
  mapM (spec_reduce_none r t) parts = Ok vs ->
  spec_reduce_none r t (concat parts) = Ok (fold_right (red_comb r dt) (red_val r dt []) vs).
Proof.
  intros Hd Hp Hr Hf Hvs.
  destruct (parts_results r t dt parts vs Hd Hp Hr Hvs) as (zss & Hz & ->).
  rewrite (spec_reduce_none_concat_lemma r t dt parts zss Hd Hp Hz).
  rewrite reduce_leaves_val. unfold float_unspec. rewrite Hf. cbn [andb]. rewrite Hr.
  rewrite red_val_parts_lemma by exact Hr. reflexivity.
Qed.

(* argmin / argmax with axis=None: exactly the loop of reducers.py over the flattened partitions *)
Theorem reduce_none_arg_parts_lemma r t dt parts zss :
  single_dt (leaf_dts t) = Some dt -> plain t = true -> is_arg r = true ->
  mapM (leaf_ints t) parts = Ok zss ->
  spec_reduce_none r t (concat parts) = py_arg_parts r zss.
Proof.
  intros Hd Hp Hr Hz. rewrite (spec_reduce_none_concat_lemma r t dt parts zss Hd Hp Hz).
  apply reduce_leaves_arg_parts_lemma, Hr.
Qed.

(* ====================================================================== refuted statements *)
Definition i64' (z : Z) : value := VNum (DZ z).
Definition tint' : ty := TNum DInt64.

(* records: _util.completely_flatten goes FIELD by field over the whole array, so the leaves of the concatenation
   are not the per-partition leaves one after the other  ([(8,-7)] | [(-5,-2)]: 8,-5,-7,-2 against 8,-7,-5,-2).
   (fixed in /repo by db4063a: completely_flatten concatenates the partitions first) *)
Example flatten_none_records_refuted :
  let t := TRec None [tint'; tint'] in
  let xs := [VTup [i64' 8; i64' (-7)]] in
  let ys := [VTup [i64' (-5); i64' (-2)]] in
  spec_flatten None t (xs ++ ys) = Ok (VList [i64' 8; i64' (-5); i64' (-7); i64' (-2)]) /\
  lift2 vapp (spec_flatten None t xs) (spec_flatten None t ys) = Ok (VList [i64' 8; i64' (-7); i64' (-5); i64' (-2)]).
Proof. split; reflexivity. Qed.

(* reducers, axis=0, record type whose fields differ in depth ("branch" in PartitionedArray.reduce): partition.py's
   test "not branch and negaxis == depth" is false, so it reduces every partition separately, although axis 0 IS the
   outermost level ([resolve_axis] gives 0): the two results differ.
   In the implementation this very call is refused on both sides (Content::reduce: "cannot use non-negative axis on a
   nested list structure of variable depth"), so it is a statement about the rule, not a reachable failure.  The
   REACHABLE relative is axis = -(min depth) on such a type (ak.sum([{x:1,y:[10]},{x:2,y:[20,30]}], axis=-1)): the
   eager code reduces the shallow field x across the outermost level and returns the record {x:3, y:[10,50]}, while
   partition.py reduces per partition and fails on the records that come back; [reduce_spec] refuses that axis
   (Err EValue, next example), so the specification is silent there and the theorems above hold vacuously. *)
Example reduce_axis0_branching_record_refuted :
  let t := TRec (Some [[120]; [121]]) [tint'; TList None None tint'] in
  let xs := [VRec [([120], i64' 1); ([121], VList [i64' 10])]] in
  let ys := [VRec [([120], i64' 2); ([121], VList [i64' 20; i64' 30])]] in
  py_reduce_whole t 0 = false /\ axis_inner t 0 = false /\ resolve_axis t 0 0 = Ok 0 /\
  reduce_spec RSum 0 false false t (xs ++ ys) = Ok [VRec [([120], i64' 3); ([121], VList [i64' 30; i64' 30])]] /\
  lift2 (@app value) (reduce_spec RSum 0 false false t xs) (reduce_spec RSum 0 false false t ys)
    = Ok [VRec [([120], i64' 1); ([121], VList [i64' 10])]; VRec [([120], i64' 2); ([121], VList [i64' 20; i64' 30])]].
Proof. repeat split; reflexivity. Qed.

(* what the specification says for axis = -(min depth) on that type: refused, on the whole and on every partition *)
Example reduce_negaxis_branching_record_spec_refuses :
  let t := TRec (Some [[120]; [121]]) [tint'; TList None None tint'] in
  let xs := [VRec [([120], i64' 1); ([121], VList [i64' 10])]] in
  let ys := [VRec [([120], i64' 2); ([121], VList [i64' 20; i64' 30])]] in
  py_reduce_whole t (-1) = false /\ axis_inner t (-1) = true /\
  reduce_spec RSum (-1) false false t (xs ++ ys) = Err EValue /\
  lift2 (@app value) (reduce_spec RSum (-1) false false t xs) (reduce_spec RSum (-1) false false t ys) = Err EValue.
Proof. repeat split; reflexivity. Qed.
