"""C19: AwkwardForth — deterministic, documented, step-independent semantics.

Correspondence: every session line runs through forthdrv (ForthMachine32/64 of /repo through the public API) and
through forthrun (the extracted Rocq model /verif/c19/coq/Forth.v); the observable final states are compared
exactly.  Property-level checks on the implementation alone: one call vs single-stepped vs mixed
step/resume segmentations, small vs default output-growth settings, original vs decompiled() source."""
import os
import re
import subprocess

import common as C
from props import c19gen as G

THEOREMS = []          # filled from Props_C19.v below (kept in sync by build())
COQ_DIR = os.path.join(C.VERIF, 'c19', 'coq')
COQ_LOGICAL = '-R . AwkForth'
NEEDS_SAN = True
BUILD19 = os.path.join(C.BUILD, 'c19')
CORPUS = os.path.join(C.VERIF, 'corpus', 'C19')

RULE = ('grammar-based random AwkwardForth programs (declarations, user words incl. recursion, if/else, do/loop/+loop, '
        'begin/until/while/repeat/again, variables, typed reads incl. varint/zigzag/nbit, output writes) x random input '
        'bytes x {32,64} x stack/recursion/output settings x segmentations {run+finish, begin+stepall, mixed}; plus '
        'fault-provoking programs, compile-error mutants and known-UB seeds; a session is non-trivial when the model '
        'executed it to a final state with a non-empty stack/output or an error code; distinct by session text')
ASSUMPTIONS = [
    'vocabulary not modelled (sessions skipped, counted as unsupported): strings (s" .") and print words (. cr .s), '
    'float reads (f-> d->), N-bit reads with N > 31',
    'C++ undefined behaviour is modelled as the distinct outcome Fault (repeat count * item size overflowing int64, '
    'i/j/k below the do-stack and exit unwinding below the frame stack = exit inside do-loops, call() at the recursion '
    'limit, recursion limit < 1); shift counts are reduced modulo the cell width and signed overflow wraps, as the '
    'x86-64 build does',
    'integer-valued floats only (float outputs receive integers); bool outputs are compared as raw bytes',
    'timing counters and stdout of print words are not observed',
    'sessions whose model evaluation runs out of fuel (non-terminating programs) are not sent to the implementation',
]
TRUSTED_BASE = [
    'Rocq kernel: coqc 8.16.1 (vm_compute used; native_compute not used)',
    'no axioms: every property theorem is closed under the global context (parsed from Print Assumptions on this run)',
    'extraction: ExtrOcamlBasic only, no Extract Constant, Z/positive/nat kept inductive; OCaml 4.13.1; hand-written '
    'reader/printer c19/ocaml/forthrun.ml and ocaml/sx.ml',
    'C++ driver impl/drv/forthdrv.cpp (session syntax, state dump through the public ForthMachine API)',
    'harness: generator harness/props/c19gen.py, comparison and classification in harness/props/c19.py',
    'RapidJSON substitute impl/rapidjson_shim (libawkward is compiled against it)',
    'model vs code: c19/coq/Forth.v is a hand-written model of ForthMachine.cpp / ForthInputBuffer.cpp / '
    'ForthOutputBuffer.cpp, tied to the code by differential testing only',
]


def _theorems():
    p = os.path.join(COQ_DIR, 'Props_C19.v')
    if not os.path.exists(p):
        return []
    return re.findall(r'^Theorem\s+(\w+)', open(p).read(), re.M)


THEOREMS = _theorems()


# ---------------------------------------------------------------- build
def build():
    os.makedirs(BUILD19, exist_ok=True)
    r = C.sh('cd %s && coq_makefile -f _CoqProject -o Makefile.coq >/dev/null && timeout 3000 make -f Makefile.coq -j8 2>&1 | tail -30'
             % COQ_DIR)
    if r.returncode != 0 or 'Error' in r.stdout:
        raise C.BuildError('Rocq build of c19/coq failed:\n' + r.stdout[-3000:])
    r = C.sh('timeout 1200 make -s -C %s/c19/ocaml VERIF=%s' % (C.VERIF, C.VERIF))
    if r.returncode != 0:
        raise C.BuildError('forthrun build failed:\n' + r.stdout[-3000:])
    regenerate_tables()


def regenerate_tables():
    """mini-translator (DESIGN 3.6): the opcode numbering, read-format constants, builtin-word table and reserved
    words are re-read from ForthMachine.cpp on every run and compared INSIDE Rocq with the model's tables."""
    src = open(os.path.join(C.REPO, 'src', 'libawkward', 'forth', 'ForthMachine.cpp')).read()
    defs = dict(re.findall(r'#define\s+((?:CODE|READ|BOUND)_\w+)\s+\(?(0x8 \* \d+|\d+)\)?\s*$', src, re.M))
    if len(defs) < 80:
        raise C.BuildError('table extraction from ForthMachine.cpp failed (%d #defines found)' % len(defs))
    lines = ['From Coq Require Import ZArith List String.', 'From AwkForth Require Import Forth.', 'Open Scope Z_scope.']
    for name, val in sorted(defs.items()):
        if name == 'READ_MASK':
            continue
        v = eval(val.replace('0x8', '8'))
        lines.append('Example table_%s : Forth.%s = %d. Proof. reflexivity. Qed.' % (name, name, v))
    m = re.search(r'generic_builtin_words_\(\{(.*?)\}\);', src, re.S)
    words = re.findall(r'\{"((?:[^"\\]|\\.)*)",\s*(CODE_\w+)\}', m.group(1))
    if len(words) < 35:
        raise C.BuildError('builtin word table extraction failed')
    for i, (w, code) in enumerate(words):
        if code in ('CODE_PRINT', 'CODE_PRINT_CR', 'CODE_PRINT_STACK'):
            lines.append('Example word_%d : in_strings (bytes "%s") unsupported_words = true. Proof. reflexivity. Qed.' % (i, w))
        else:
            lines.append('Example word_%d : lookup_string (bytes "%s") builtin_words = Some Forth.%s. Proof. reflexivity. Qed.' % (i, w, code))
    lines.append('Example word_count : List.length builtin_words = %d%%nat. Proof. reflexivity. Qed.'
                 % sum(1 for w, c in words if c not in ('CODE_PRINT', 'CODE_PRINT_CR', 'CODE_PRINT_STACK')))
    m = re.search(r'reserved_words_\(\{(.*?)\}\);', src, re.S)
    body = re.sub(r'//[^\n]*', '', m.group(1))
    rw = re.findall(r'"((?:[^"\\]|\\.)*)"', body)
    for i, w in enumerate(rw):
        if w in ('\\n',):
            continue
        w2 = w.replace('\\\\', '\\').replace('\\"', '""')
        lines.append('Example reserved_%d : match is_reserved (bytes "%s") with COk true => True | _ => False end. Proof. exact I. Qed.' % (i, w2))
    m = re.search(r'input_parser_words_\(\{(.*?)\}\);', src, re.S)
    pw = re.findall(r'"([^"]*)"', re.sub(r'//[^\n]*', '', m.group(1)))
    lines.append('Example parser_words : List.length input_parser_words = %d%%nat. Proof. reflexivity. Qed.' % len(pw))
    for i, w in enumerate(pw):
        lines.append('Example parser_%d : in_strings (bytes "%s") input_parser_words = true. Proof. reflexivity. Qed.' % (i, w))
    fn = os.path.join(BUILD19, 'Tables_C19.v')
    open(fn, 'w').write('\n'.join(lines) + '\n')
    r = C.sh('cd %s && timeout 600 coqc -R %s AwkForth Tables_C19.v' % (BUILD19, COQ_DIR))
    if r.returncode != 0:
        m = re.search(r'line (\d+)', r.stdout)
        entry = lines[int(m.group(1)) - 1] if m else '?'
        raise C.BuildError('a table of ForthMachine.cpp no longer matches the model: %s\n%s' % (entry, r.stdout[-800:]))


# ---------------------------------------------------------------- session lines
def sx_line(cid, machine, src, inputs, settings, segs):
    sb = ' '.join(str(b) for b in src)
    ins = ' '.join('(%s (%s))' % (n, ' '.join(str(x) for x in bs)) for n, bs in inputs)
    return '(%s %s (src%s) (inputs%s) (settings %d %d %d %d) (segs%s))' % (
        cid, machine, ' ' + sb if sb else '', ' ' + ins if ins else '', settings[0], settings[1], settings[2], settings[3],
        ' ' + ' '.join(segs) if segs else '')


LINE = re.compile(r'^\((\S+) (forth32|forth64) \(src([^)]*)\) (\(inputs.*\)) \(settings (\S+) (\S+) (\S+) (\S+)\) \(segs(.*)\)\)$')


def parse_line(line):
    m = LINE.match(line.strip())
    if not m:
        return None
    src = bytes(int(x) for x in m.group(3).split())
    return dict(id=m.group(1), machine=m.group(2), src=src, inputs=m.group(4),
                settings=tuple(int(m.group(i)) for i in (5, 6, 7, 8)), segs=m.group(9).strip())


STEPCAP = 6000


def segmentations(rng, paused):
    """name -> list of segment atoms; A is the reference (one call, then resume through pauses)"""
    out = {'A': ['run', '(finish 3000)'], 'B': ['begin', '(stepall %d)' % STEPCAP]}
    mixed = ['begin']
    for _ in range(rng.randint(1, 3)):
        mixed.append('(stepall %d)' % rng.randint(0, 9) if rng.random() < 0.7 else '(finish 1)')
    mixed += ['(finish 3000)']
    out['C'] = mixed
    return out


def make_case(pid, machine, src_text, inputs, settings, rng, tags):
    src = src_text.encode('latin-1')
    segs = segmentations(rng, 'pause' in src_text)
    lines = {}
    for k, sg in segs.items():
        lines[k] = sx_line('%s.%s' % (pid, k), machine, src, inputs, settings, sg)
    # growth settings: same program, default-size output buffers (implementation-only check of growth independence)
    lines['G'] = sx_line('%s.G' % pid, machine, src, inputs, (settings[0], settings[1], 1024, 15), segs['A'])
    return C.Case(pid, machine, [src_text], [], dict(lines=lines, tags=tags, src=src_text, inputs=inputs, settings=settings))


# documented-semantics probes: expectations computed from the documentation, NOT from the model (which follows the
# code, casts included).  (machine, source, input bytes of x, expected final stack, signature if the code deviates)
B8 = [1, 2, 3, 4, 5, 6, 7, 8]
SPEC = [
    ('forth64', '7 -2 /mod -7 2 /mod 7 2 / -7 2 mod', [], [-1, -4, 1, -4, 3, 1], None),
    ('forth32', '2147483647 1+ 65536 65536 * -2147483648 1-', [], [-2147483648, 0, 2147483647], None),
    ('forth64', '2147483647 1+ 65536 65536 *', [], [2147483648, 4294967296], None),
    ('forth64', 'input x x i-> stack x !i-> stack', B8, [0x04030201, 0x05060708], None),
    ('forth64', 'input x x h-> stack x B-> stack x !H-> stack', [255, 255, 200, 1, 2], [-1, 200, 258], None),
    ('forth64', 'input x x varint-> stack x zigzag-> stack', [172, 2, 3], [300, -2], None),
    ('forth64', 'input x x q-> stack', B8, [0x0807060504030201], None),
    ('forth64', 'input x x !q-> stack', B8, [0x0102030405060708], None),
    ('forth64', 'input x x Q-> stack', B8, [0x0807060504030201], None),
    ('forth64', 'input x x n-> stack', B8, [0x0807060504030201], None),
    ('forth64', 'input x x I-> stack', [255, 255, 255, 255], [4294967295], None),
    ('forth64', 'input x 2 x #I-> stack', [255, 255, 255, 255, 0, 0, 0, 128], [4294967295, 2147483648], None),
    ('forth64', '1 62 lshift dup 1+ mod', [], [2 ** 62], None),
    ('forth32', '1 30 lshift dup 1+ mod', [], [2 ** 30], None),
    ('forth64', '1 40 lshift dup 2 + swap do i loop', [], [2 ** 40, 2 ** 40 + 1], None),
    ('forth64', '4294967296 -4294967297', [], [4294967296, -4294967297], 'forth-literal-cast-int32'),
    ('forth64', '1 40 lshift negate abs -5 abs', [], [2 ** 40, 5], None),
]


def spec_cases():
    out = []
    for i, (machine, src, bs, stack, sig) in enumerate(SPEC):
        pid = 's%d' % i
        ln = sx_line(pid + '.A', machine, src.encode('latin-1'), [('x', bs)], (1024, 1024, 1024, 15), ['run', '(finish 50)'])
        out.append(C.Case(pid, machine, [src], [], dict(lines={'A': ln}, tags=dict(cls='spec'), src=src, expect_stack=stack,
                                                         sig=sig)))
    return out


def cases(rng, tier):
    n = 330 if tier == 'quick' else 9000
    out = spec_cases()
    for i in range(n):
        pid = 'p%d' % i
        machine = rng.choice(['forth64', 'forth32'])
        k = rng.random()
        tags = {}
        if k < 0.70:
            g = G.ProgGen(rng, allow_exit=rng.random() < 0.12, allow_halt=rng.random() < 0.1,
                          allow_pause=rng.random() < 0.6, big=(tier != 'quick' and rng.random() < 0.05))
            if rng.random() < 0.45:
                g.feat['nodo'] = True
                toks = program_without_do(g)
            else:
                toks = g.program()
            tags = dict(cls='valid', **{f: 1 for f, v in g.feat.items() if v})
            settings = G.gen_settings(rng, tight=rng.random() < 0.15)
        elif k < 0.82:
            name, g, toks = G.fault_program(rng)
            tags = dict(cls='fault', fault=name, **{f: 1 for f, v in g.feat.items() if v})
            settings = G.gen_settings(rng, tight=rng.random() < 0.4)
        elif k < 0.95:
            name, g, toks = G.invalid_program(rng)
            tags = dict(cls='invalid', mutation=name)
            settings = G.gen_settings(rng)
        else:
            if rng.random() < 0.35:
                sig, f = rng.choice(G.UB)
                toks = f(rng)
                tags = dict(cls='ub', ub=sig)
            else:
                toks = rng.choice(G.FIXED_UB)(rng)       # undefined / wrong before the fixes, ordinary programs now
                tags = dict(cls='ub', ub='fixed-since')
            g = G.ProgGen(rng)
            g.nins = 1
            settings = G.gen_settings(rng)
        src = G.render(rng, toks) if tags.get('cls') != 'ub' else ' '.join(toks)
        inputs = G.gen_inputs(rng, max(g.nins, 1 if tags.get('cls') in ('fault', 'ub') else 0))
        out.append(make_case(pid, machine, src, inputs, settings, rng, tags))
    return out


def program_without_do(g):
    """a program whose control flow avoids do-loops (so that stepping is expected to agree on the pinned tree)"""
    orig = g.control

    def control(out, depth, dodepth, in_word, in_do):
        st = g.r.getstate()
        for _ in range(8):
            mark = len(out)
            sd = g.sd
            orig(out, depth, dodepth, in_word, in_do)
            if 'do' not in out[mark:]:
                return
            del out[mark:]
            g.sd = sd
        out.append('1'); g.sd += 1
    g.control = control
    toks = g.program()
    g.feat['do'] = 'do' in toks
    return toks


def replay_cases(path):
    groups = {}
    order = []
    for ln in open(path):
        ln = ln.strip()
        if not ln:
            continue
        if ln.startswith('#'):
            m = re.match(r'^# expected \(stack([^)]*)\)', ln)
            if m and order:
                groups[order[-1]].meta['expect_stack'] = [int(x) for x in m.group(1).split()]
            m = re.match(r'^# signature: (\S+)', ln)
            if m and order and m.group(1) != 'None':
                groups[order[-1]].meta['sig'] = m.group(1)
            continue
        p = parse_line(ln)
        if not p:
            continue
        pid, _, seg = p['id'].partition('.')
        if pid not in groups:
            groups[pid] = C.Case(pid, p['machine'], [p['src'].decode('latin-1')], [],
                                 dict(lines={}, tags=dict(cls='replay'), src=p['src'].decode('latin-1')))
            order.append(pid)
        groups[pid].meta['lines'][seg or 'A'] = ln
    return [groups[p] for p in order]


def corpus_cases():
    out = []
    if os.path.isdir(CORPUS):
        for fn in sorted(os.listdir(CORPUS)):
            if fn.endswith('.case'):
                for c in replay_cases(os.path.join(CORPUS, fn)):
                    c.id = 'k%s_%s' % (fn[:-5].replace('.', '_'), c.id)
                    c.meta['lines'] = {k: re.sub(r'^\(\S+', '(%s.%s' % (c.id, k), v) for k, v in c.meta['lines'].items()}
                    c.meta['tags'] = dict(cls='corpus')
                    out.append(c)
    return out


# ---------------------------------------------------------------- running
def _run_model_chunk(args):
    lines, fixed, fuel = args
    exe = os.path.join(BUILD19, 'forthrun')
    cmd = 'ulimit -s unlimited 2>/dev/null; exec %s %s --fuel %d' % (exe, '--fixed' if fixed else '', fuel)
    p = subprocess.run(cmd, shell=True, input='\n'.join(lines) + '\n', stdout=subprocess.PIPE, stderr=subprocess.PIPE,
                       text=True, timeout=3000)
    if p.returncode != 0:
        raise RuntimeError('forthrun failed rc=%s: %s' % (p.returncode, p.stderr[-2000:]))
    out = {}
    for ol in p.stdout.splitlines():
        m = C.LINE_ID.match(ol)
        if m:
            out[m.group(1)] = ol[len(m.group(1)) + 2:-1]
    return out


def run_model(lines, fixed=False, fuel=400000, workers=8):
    """the extracted model on session lines -> dict id -> result text"""
    if not lines:
        return {}
    n = max(1, min(workers, len(lines) // 50 + 1))
    chunks = [lines[i::n] for i in range(n)]
    from concurrent.futures import ThreadPoolExecutor
    out = {}
    with ThreadPoolExecutor(max_workers=n) as ex:
        for r in ex.map(_run_model_chunk, [(c, fixed, fuel) for c in chunks]):
            out.update(r)
    return out


def run_driver_parallel(lines, san=False, per_case_timeout=10.0, workers=8):
    from concurrent.futures import ThreadPoolExecutor
    n = max(1, min(workers, len(lines) // 200 + 1))
    chunks = [lines[i::n] for i in range(n)]
    res, errs = {}, {}
    with ThreadPoolExecutor(max_workers=n) as ex:
        for r, e in ex.map(lambda ch: C.run_driver(ch, drv='forthdrv', san=san, per_case_timeout=per_case_timeout), chunks):
            res.update(r)
            errs.update(e)
    return res, errs


FLOAT = re.compile(r'f:(-?0x[0-9a-f.]+p[+-]?\d+)')
DECOMP = re.compile(r' \(decomp[^)]*\)')


def canon_impl(res):
    """driver result -> comparable text: drop the decompiled source, print integer-valued hex floats as integers"""
    res = DECOMP.sub('', res)

    def fl(m):
        v = float.fromhex(m.group(1))
        return str(int(v)) if v == int(v) else m.group(0)
    return FLOAT.sub(fl, res)


def decomp_of(res):
    m = re.search(r' \(decomp([^)]*)\)', res)
    return bytes(int(x) for x in m.group(1).split()) if m else None


def observable(res):
    """final state without the per-call return codes (they depend on the segmentation by construction)"""
    return re.sub(r' \(rets[^)]*\)', '', res)


def features(src):
    toks = src.split()
    return dict(do='do' in toks, exit='exit' in toks)


def with_src(line, src_text):
    return re.sub(r'\(src[^)]*\)', '(src %s)' % ' '.join(str(b) for b in src_text.encode('latin-1')), line, 1)


def minimise(lines, src_text, still_fails, budget=60):
    """token-level delta debugging of the program text; lines: the session lines of the finding (same program).
    still_fails(list of lines) -> bool re-runs implementation and model."""
    toks = src_text.replace('\n', ' \n ').split(' ')
    toks = [t for t in ' '.join(toks).replace('\t', ' ').replace('\r', ' ').replace('\x0b', ' ').replace('\x0c', ' ').split(' ') if t]
    n = 2
    while len(toks) >= 2 and budget > 0:
        chunk = max(1, len(toks) // n)
        reduced = False
        for i in range(0, len(toks), chunk):
            cand = toks[:i] + toks[i + chunk:]
            if not cand:
                continue
            budget -= 1
            text = ' '.join(cand)
            if still_fails([with_src(l, text) for l in lines]):
                toks, n, reduced = cand, max(n - 1, 2), True
                break
            if budget <= 0:
                break
        if not reduced:
            if chunk == 1:
                break
            n = min(len(toks), n * 2)
    return ' '.join(toks)


def fails_modeldiff(lines):
    m = run_model(lines, workers=1)
    i, _ = C.run_driver(lines, drv='forthdrv', per_case_timeout=5.0)
    for l in lines:
        sid = C.LINE_ID.match(l).group(1)
        mr, ir = m.get(sid, ''), i.get(sid, '')
        if mr.startswith(('unsupported', 'fuel', 'fault')) or ir.startswith('bad') or not mr:
            continue
        if ir.startswith(('crash', 'timeout')) or canon_impl(ir) != mr:
            return True
    return False


def fails_stepdiff(lines):
    i, _ = C.run_driver(lines, drv='forthdrv', per_case_timeout=5.0)
    obs = [observable(canon_impl(i.get(C.LINE_ID.match(l).group(1), ''))) for l in lines]
    return len(lines) >= 2 and all(o.startswith('ok') for o in obs) and obs[0] != obs[1]


UB_SIG = {2: 'forth-ub-count-overflow', 3: 'forth-ub-negative-rewind', 4: 'forth-ub-div-trap',
          5: 'forth-ub-exit-in-do', 6: 'forth-ub-exit-in-do', 7: 'forth-ub-call-at-depth-limit',
          8: 'forth-ub-recursion-max-0', 9: 'forth-ub-nbit-over-31', 1: 'forth-ub-internal'}


def signature(c, impl, verdict):
    return c.meta.get('sig') if hasattr(c, 'meta') else None


def run(cases, tier, rng):
    replaying = any(c.meta.get('tags', {}).get('cls') == 'replay' for c in cases)
    cases = ([] if replaying else corpus_cases()) + list(cases)
    san = tier == 'thorough'
    lines, owner = [], {}
    for c in cases:
        for k, ln in c.meta['lines'].items():
            lines.append(ln)
            owner['%s.%s' % (c.id, k)] = (c, k)
    C.log('%d sessions of %d programs' % (len(lines), len(cases)))
    model = run_model(lines, fixed=True)      # fixed = the single-step path of the current code
    C.log('model evaluated')
    # do not send (suspected) non-terminating sessions to the implementation
    sendable = [ln for ln in lines if not model.get(C.LINE_ID.match(ln).group(1), 'fuel').startswith('fuel')]
    # sessions whose model outcome is Fault (undefined behaviour of the C++) may corrupt the driver process: they run
    # in a process of their own, so that a later, unrelated session is never blamed for their damage
    ub_lines = [ln for ln in sendable if model[C.LINE_ID.match(ln).group(1)].startswith('fault')]
    ok_lines = [ln for ln in sendable if not model[C.LINE_ID.match(ln).group(1)].startswith('fault')]
    impl, errs = C.run_driver(ok_lines, drv='forthdrv', per_case_timeout=10.0)
    if ub_lines:
        impl_ub, errs_ub = C.run_driver(ub_lines, drv='forthdrv', per_case_timeout=10.0)
        impl.update(impl_ub)
        errs.update(errs_ub)
    C.log('implementation evaluated (%d sessions)' % len(sendable))
    impl_san = {}
    if san:
        safe = [ln for ln in sendable if not model[C.LINE_ID.match(ln).group(1)].startswith('fault')]
        impl_san, errs_san = run_driver_parallel(safe, san=True, per_case_timeout=30.0)
        C.log('sanitizer build evaluated (%d sessions)' % len(safe))

    findings, verd, dist, samples = [], {}, {}, []
    distinct = set()
    corr = {'corr:forth-session': True, 'corr:forth-compile-errors': True, 'prop:step-independence': True,
            'prop:growth-independence': True, 'prop:decompiled-equivalent': True, 'prop:no-crash': True,
            'prop:documented-semantics': True}

    def add(kind, what, clines, sig=None, no_input=False, ob=None):
        clines = list(clines) + ['# signature: %s' % sig]
        findings.append(dict(kind=kind, what=what, case_lines=clines, signature=sig, no_input=no_input,
                             size=sum(len(x) for x in clines)))
        known = sig is not None and any(k.get('property') == 'C19' and k.get('signature') == sig and k.get('status') != 'fixed'
                                        for k in C.load_known())
        if ob and not known:
            corr[ob] = False

    def count(v):
        verd[v] = verd.get(v, 0) + 1

    second = []          # decompiled-source sessions
    for c in cases:
        for t, v in c.meta.get('tags', {}).items():
            dist.setdefault(t, {})
            dist[t][str(v)] = dist[t].get(str(v), 0) + 1
        obs = {}
        for k, ln in c.meta['lines'].items():
            sid = '%s.%s' % (c.id, k)
            mres = model.get(sid)
            if mres is None:
                add('bad', 'forthrun gave no answer for ' + sid, [ln], no_input=True, ob='corr:forth-session')
                count('bad')
                continue
            if mres.startswith('unsupported'):
                count('unsupported')
                continue
            if mres.startswith('fuel'):
                count('model-out-of-fuel')
                continue
            ires = impl.get(sid, 'crash missing')
            if ires.startswith('bad'):
                add('bad', 'forthdrv rejected the session: ' + ires[:200], [ln], no_input=True, ob='corr:forth-session')
                count('bad')
                continue
            if mres.startswith('fault'):
                kind = int(mres.split()[1])
                sig = UB_SIG.get(kind, 'forth-ub-%d' % kind)
                add('viol', 'undefined behaviour in ForthMachine (%s; model outcome Fault %d): implementation answered: %s'
                    % (sig, kind, ires[:160]), [ln, '# impl: ' + ires[:600]] + (['# stderr: ' + errs[sid].replace('\n', '\n# ')] if sid in errs else []),
                    sig=sig, ob='prop:no-crash')
                count('ub')
                count('ub-kind-%d' % kind)
                continue
            if ires.startswith('crash') or ires.startswith('timeout'):
                add('crash', 'forth session: implementation crashed/hung (%s) where the model terminates normally' % ires,
                    [ln, '# model: ' + mres[:600]] + (['# stderr: ' + errs[sid].replace('\n', '\n# ')] if sid in errs else []),
                    ob='prop:no-crash')
                count('crash')
                continue
            ci = canon_impl(ires)
            if k == 'A' and 'expect_stack' in c.meta:
                want = '(stack%s)' % ''.join(' %d' % v for v in c.meta['expect_stack'])
                got = re.search(r'\(stack[^)]*\)', ci)
                if got and got.group(0) == want:
                    count('spec-agree')
                else:
                    add('viol', 'documented semantics: %s "%s" must leave %s, the implementation leaves %s (%s)'
                        % (c.op, c.meta['src'], want, got.group(0) if got else ci[:80], c.meta.get('sig')),
                        [ln, '# expected ' + want, '# impl: ' + ci[:600]], sig=c.meta.get('sig'), ob='prop:documented-semantics')
                    count('spec-viol')
            if ci == mres:
                count('agree')
                obs[k] = observable(ci)
                if san and sid in impl_san and canon_impl(impl_san[sid]) != ci:
                    add('crash', 'sanitizer build differs / reports: ' + impl_san[sid][:200],
                        [ln, '# std: ' + ci[:600], '# san: ' + impl_san[sid][:600], '# stderr: ' + errs_san.get(sid, '').replace('\n', '\n# ')],
                        sig=None if 'AddressSanitizer' in errs_san.get(sid, '') or not errs_san.get(sid, '') else 'forth-ubsan',
                        ob='prop:no-crash')
                    count('san-diff')
                nontriv = ('(stack)' not in mres or re.search(r'\(o\d \w+ \([^)]', mres) or '(err 0)' not in mres) and mres.startswith('ok')
                if nontriv:
                    distinct.add(ln.split(' ', 1)[1])
                    if len(samples) < 6 and k == 'A' and len(ln) < 700:
                        samples.append(ln)
                if k == 'A' and ires.startswith('ok') and c.meta.get('tags', {}).get('cls') != 'corpus':
                    d = decomp_of(ires)
                    p = parse_line(ln)
                    if d is not None and p:
                        dl = re.sub(r'^\(\S+', '(%s.D' % c.id, ln)
                        dl = re.sub(r'\(src[^)]*\)', '(src %s)' % ' '.join(str(b) for b in d), dl, 1)
                        second.append((c, dl, ci))
            else:
                which = 'corr:forth-compile-errors' if (mres.startswith('err compile') or ires.startswith('err compile')) else 'corr:forth-session'
                add('modeldiff', 'correspondence %s broken: model and implementation disagree' % which,
                    [ln, '# impl : ' + ci[:1500], '# model: ' + mres[:1500]], no_input=True, ob=which)
                count('modeldiff')
        # ---- property-level: segmentation independence on the implementation alone
        if 'A' in obs and '(err 0) (ready 1) (done 0)' in obs['A']:
            count('run-cap-reached')                    # more pauses than the resume budget: nothing to compare
        elif 'A' in obs:
            for k in ('B', 'C'):
                if k in obs and obs[k] != obs['A']:
                    unfinished = '(err 0) (ready 1) (done 0)'
                    if unfinished in obs[k]:
                        count('step-cap-reached')       # the step budget ran out before the program ended
                        continue
                    sig = None
                    add('viol', 'single-stepping changes the result: one call gives %s ; segmentation %s gives %s'
                        % (obs['A'][:300], k, obs[k][:300]),
                        [c.meta['lines']['A'], c.meta['lines'][k], '# one call: ' + obs['A'][:800], '# %s       : %s' % (k, obs[k][:800])],
                        sig=sig, ob='prop:step-independence')
                    count('step-dependent')
                    break
            if 'G' in obs and obs['G'] != obs['A']:
                add('viol', 'output-buffer growth settings change the result', [c.meta['lines']['A'], c.meta['lines']['G']],
                    ob='prop:growth-independence')
                count('growth-dependent')
    # ---- decompiled source behaves identically (implementation alone)
    if second:
        res2, errs2 = C.run_driver([s[1] for s in second], drv='forthdrv', per_case_timeout=10.0)
        for c, ln, ref in second:
            sid = '%s.D' % c.id
            r = res2.get(sid, 'crash missing')
            if canon_impl(r) != ref:
                add('viol', 'decompiled() source behaves differently from the original: %s vs %s' % (canon_impl(r)[:200], ref[:200]),
                    [c.meta['lines']['A'], ln], ob='prop:decompiled-equivalent')
                count('decompile-diff')
            else:
                count('decompile-agree')
    # minimise what is not a known kind of defect (token-level delta debugging, bounded)
    nmin = 0
    for f in sorted(findings, key=lambda f: f['size']):
        if f['signature'] is not None or f['kind'] == 'bad' or nmin >= 3:
            continue
        sess = [l for l in f['case_lines'] if l.startswith('(') and parse_line(l)]
        if not sess:
            continue
        src_text = parse_line(sess[0])['src'].decode('latin-1')
        pred = fails_stepdiff if 'single-stepping' in f['what'] else fails_modeldiff if f['kind'] in ('modeldiff', 'crash') else None
        if pred is None or not pred(sess):
            continue
        nmin += 1
        small = minimise(sess, src_text, pred)
        f['case_lines'] = [with_src(l, small) for l in sess] + ['# minimised from: ' + ' '.join(src_text.split())[:600]] + \
            [l for l in f['case_lines'] if l.startswith('#')]
        f['size'] = sum(len(x) for x in f['case_lines'][:len(sess)])
    # keep the smallest representative per (kind, signature / obligation)
    best = {}
    for f in findings:
        key = (f['kind'], str(f['signature']), f['what'].split(':')[0][:40])
        if key not in best or f['size'] < best[key]['size']:
            best[key] = f
    fl = sorted(best.values(), key=lambda f: (f.get('no_input', False), f['size']))
    return dict(findings=fl, corr_obligations=corr, evaluations=len(lines) + len(second), distinct_nontrivial=len(distinct),
                samples=samples, distribution=dist, verdicts=verd,
                extra=dict(programs=len(cases), sessions=len(lines), sent_to_implementation=len(sendable),
                           sanitizer_sessions=len(impl_san)))
