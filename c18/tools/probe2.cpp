#include "drv_common.h"
using namespace drv;
int main() {
  // what the virtual side is left with: IndexedArray over an IndexedOptionArray (not simplified)
  ContentPtr c = build(parse_line("(ix i32 (3 2 1) (ixo i64 (0 3 -1 2) (la u32 (5 2 7 4) (7 4 9 5) (np uint64 (10) (2 5 0 5 5 9 3 0 3 4)))))"));
  try { std::cout << c->sort(1, true, false)->tojson(false, 1) << std::endl; }
  catch (std::exception& e) { std::cout << "unsimplified: " << std::string(e.what()).substr(0, 200) << std::endl; }
  ContentPtr d = c->shallow_simplify();
  try { std::cout << "simplified: " << d->sort(1, true, false)->tojson(false, 1) << std::endl; }
  catch (std::exception& e) { std::cout << "simplified: " << e.what() << std::endl; }
}
