(** C06, sort along a non-innermost axis (Ops_SortAxes.v), part 2: indexed / parameter / list nodes of [sax]
    (one level of the non-local branch: columns, recursion, gathering back), all node classes. *)
From Coq Require Import ZArith List Bool Lia ZifyBool Permutation.
From AwkV Require Import Base Layout LayoutInd Valid Types AtAxis Carry Ops_Sort Ops_SortAxes Ops_Reduce Typing Proofs_Typing
                         Proofs_C11 Proofs_Lists Proofs_ToList Proofs_Carry Proofs_CarryValid Proofs_AtAxis Proofs_AtAxisOps
                         Proofs_Sort Proofs_C06 Proofs_SortRef Proofs_SortRef2 Proofs_SortCols Proofs_Reduce
                         Proofs_Closure Proofs_Closure4 Proofs_SortAxes.
Import ListNotations.
Open Scope Z_scope.
Ltac Zify.zify_post_hook ::= Z.to_euclidean_division_equations.

(* ---------------------------------------------------------------- IndexedArray: positions go through the index *)
Lemma sax_Indexed_eq asc p w ix c groups :
  sax asc p (Indexed w ix c) groups = do gs <- mapM (gatherG ix) groups; sax asc None c gs.
Proof. reflexivity. Qed.

Lemma sax_Indexed asc w ix c : sax_ok asc c -> sax_ok asc (Indexed w ix c).
Proof.
  intros IH p groups vs HV Hfr Hs Hl Hr. inversion HV; subst. cbn [frag1 type_of_p] in *.
  rewrite to_list_Indexed in Hl. apply bind_Ok in Hl as (vs0 & Hl0 & Hl).
  pose proof (mapM_zlen _ _ _ Hl) as Hz. rewrite Hz in Hr.
  destruct (mapM_gatherG ix groups Hr) as [gs Hgs].
  assert (Hr' : in_range (zlen vs0) gs).
  { intros g Hg [j i] Hji. cbn [snd]. destruct (mapM_In_inv _ _ _ _ Hgs Hg) as (G & HG & HgG).
    destruct (gatherG_In _ _ _ _ _ HgG Hji) as (q & _ & Hq).
    pose proof (gather_range_inv _ _ _ Hl) as Hix. rewrite Forall_forall in Hix. apply Hix. eapply get_In, Hq. }
  destruct (IH None gs vs0) as (c' & outs & Hsax & HVc & Hsp & Ht); try assumption.
  exists c', outs. split; [rewrite sax_Indexed_eq, Hgs; exact Hsax|]. split; [exact HVc|]. split; [|exact Ht].
  unfold sax_spec in *. rewrite <- Hsp. rewrite <- (mapM_bind _ _ _ _ Hgs). apply mapM_ext_in. intros G HG.
  destruct (mapM_Ok_In _ _ _ _ Hgs HG) as (g & Hg & _). rewrite Hg. cbn [bind].
  rewrite (gatherG_mapM _ _ _ _ _ Hl Hg). reflexivity.
Qed.

(* ---------------------------------------------------------------- parameters *)
Lemma sax_Par asc a rn c : sax_ok asc c -> sax_ok asc (Par a rn c).
Proof.
  intros IH p groups vs HV Hfr Hs Hl Hr. inversion HV; subst. cbn [frag1 type_of_p sax] in *.
  match goal with H : Valid a c |- _ => rename H into HVc end.
  destruct (Valid_param a c HVc) as [-> | Es].
  - rewrite to_list_Par_None in Hl. apply IH; assumption.
  - exfalso. assert (Hp : ParamOk a c) by (apply Valid_ParamOk; assumption).
    destruct (ParamOk_str a c Hp Es) as (c' & k & rn' & n & d & Hlc & _).
    destruct c; try discriminate; destruct a as [[]|]; try discriminate; cbn [type_of_p strflag saxty] in Hs; discriminate.
Qed.

(* ---------------------------------------------------------------- list nodes *)
Definition seglen (jse : Z * (Z * Z)) : Z := snd (snd jse) - fst (snd jse).

Lemma sax_list_eq asc p c cc groups :
  list_content c = Some cc ->
  sax asc p c groups =
  if is_strk p then Err EValue else
  do bc <- list_bounds c;
  do subs <- mapM (gatherG (fst bc)) groups;
  do inner <- sax asc None cc (concat (map sax_cols subs));
  do outcarry <- sax_back 0 subs;
  do out <- carry inner outcarry;
  Ok (ListOffset I64 (offsets_from 0 (map seglen (concat subs))) out).
Proof. destruct c; try discriminate; intros H; inversion H; reflexivity. Qed.

Lemma sax_back_cons base sub r :
  sax_back base (sub :: r) =
  do rows <- mapM (fun jse : Z * (Z * Z) =>
                     mapM (fun qc : Z * list (Z * Z) => assocZ (fst jse) (snd qc))
                          (zip (iota (seglen jse)) (sax_number base (sax_cols sub)))) sub;
  do rest <- sax_back (base + sax_total (sax_cols sub)) r;
  Ok (concat rows ++ rest).
Proof. reflexivity. Qed.

(* one row: the places of its elements, read in the content's answer, are its rebuilt elements *)
Lemma back_row cols (Os : list (list (Z * value))) pre post j n vs :
  Forall2 same_ids cols Os ->
  mapM (fun pc : Z * list (Z * value) => assocZ j (snd pc)) (zip (iota n) Os) = Ok vs ->
  exists ps, mapM (fun qc : Z * list (Z * Z) => assocZ j (snd qc)) (zip (iota n) (sax_number (zlen pre) cols)) = Ok ps /\
             mapM (get (pre ++ concat (map (map snd) Os) ++ post)) ps = Ok vs.
Proof. intros HF. rewrite !mapM_snd_zip_iota. apply number_lookup, HF. Qed.

Definition row_rel (jse : Z * (Z * Z)) (jl : Z * list value) : Prop := fst jse = fst jl /\ seglen jse = zlen (snd jl).

(* the rows of one group *)
Lemma back_rows cols (Os : list (list (Z * value))) pre post :
  Forall2 same_ids cols Os -> forall sub lsG outG,
  Forall2 row_rel sub lsG -> Forall (fun jl : Z * list value => zlen (snd jl) <= zlen Os) lsG ->
  mapM (rebuild Os) lsG = Ok outG ->
  exists rowsP Rows,
    mapM (fun jse : Z * (Z * Z) =>
            mapM (fun qc : Z * list (Z * Z) => assocZ (fst jse) (snd qc))
                 (zip (iota (seglen jse)) (sax_number (zlen pre) cols))) sub = Ok rowsP /\
    mapM (get (pre ++ concat (map (map snd) Os) ++ post)) (concat rowsP) = Ok (concat Rows) /\
    map snd outG = map VList Rows /\ map zlen Rows = map seglen sub.
Proof.
  intros HF sub lsG outG HR. revert outG. induction HR as [|jse jl sub lsG [Hid Hlen] HR IH]; intros outG Hle Hreb.
  - cbn [mapM] in Hreb. inversion Hreb. exists [], []. repeat split; reflexivity.
  - inversion Hle as [|? ? Hle1 Hle']; subst. cbn [mapM] in Hreb.
    apply bind_Ok in Hreb as (o & Ho & Hreb). apply bind_Ok in Hreb as (outG' & HoutG' & Hreb). inversion Hreb; subst. clear Hreb.
    unfold rebuild in Ho. apply bind_Ok in Ho as (vs & Hvs & Ho). inversion Ho; subst. clear Ho.
    rewrite <- Hid, <- Hlen in Hvs.
    destruct (back_row cols Os pre post (fst jse) (seglen jse) vs HF Hvs) as (ps & Hps & Hgps).
    destruct (IH outG' Hle' HoutG') as (rowsP & Rows & HrowsP & Hg & Hv & Hz).
    exists (ps :: rowsP), (vs :: Rows). split; [|split; [|split]].
    + cbn [mapM]. rewrite Hps. cbn [bind]. rewrite HrowsP. reflexivity.
    + cbn [concat]. rewrite mapM_app, Hgps. cbn [bind]. rewrite Hg. reflexivity.
    + cbn [map snd]. rewrite Hv. reflexivity.
    + cbn [map]. rewrite Hz. f_equal. rewrite (mapM_zlen _ _ _ Hvs), zlen_zip.
      pose proof (zlen_nonneg (snd jl)). rewrite zlen_iota by lia. lia.
Qed.

Lemma concat_concat_snd (Oss : list (list (list (Z * value)))) :
  concat (map (map snd) (concat Oss)) = concat (map (fun Os => concat (map (map snd) Os)) Oss).
Proof. induction Oss as [|Os Oss IH]; [reflexivity|]. cbn [concat map]. rewrite map_app, concat_app, IH. reflexivity. Qed.

Lemma zlen_concat_snd (Os : list (list (Z * value))) : zlen (concat (map (map snd) Os)) = sumZ (map zlen Os).
Proof.
  rewrite <- sumZ_zlen_concat. f_equal. rewrite map_map. apply map_ext. intros o. apply zlen_map.
Qed.

Lemma Forall2_imp {A B} (R1 R2 : A -> B -> Prop) l m :
  (forall a b, R1 a b -> R2 a b) -> Forall2 R1 l m -> Forall2 R2 l m.
Proof. intros H HF. induction HF; constructor; auto. Qed.

Lemma mapS_rows vs0 sub lsG : mapS (cut1 vs0) sub = Ok lsG -> Forall2 row_rel sub lsG.
Proof.
  intros H. apply mapM_Forall2 in H. eapply Forall2_imp; [|exact H]. intros [j se] jl Hjl. cbn [fst snd] in Hjl.
  apply bind_Ok in Hjl as (l & Hl & Hjl). inversion Hjl; subst. split; [reflexivity|].
  unfold seglen. cbn [fst snd]. symmetry. apply (cut1_zlen _ _ _ Hl).
Qed.

(* all groups of one list node *)
Lemma backs_groups asc sz t' vs0 bs ls :
  mapM (cut1 vs0) bs = Ok ls ->
  forall groups subs Oss outs pre post,
  in_range (zlen bs) groups ->
  mapM (gatherG bs) groups = Ok subs ->
  mapM (fun sub => mapM (fun g => do xs <- gatherG vs0 g; sortcols asc false t' xs) (sax_cols sub)) subs = Ok Oss ->
  mapM (fun G => do xs <- gatherG (map VList ls) G; sortcols asc false (TList sz None t') xs) groups = Ok outs ->
  exists ix Rows,
    sax_back (zlen pre) subs = Ok ix /\
    mapM (get (pre ++ concat (map (fun Os => concat (map (map snd) Os)) Oss) ++ post)) ix = Ok (concat Rows) /\
    concat (map (map snd) outs) = map VList Rows /\
    map zlen Rows = map seglen (concat subs).
Proof.
  intros Hcut groups. induction groups as [|G groups IH]; intros subs Oss outs pre post Hr Hsubs HOss Houts.
  - cbn [mapM] in *. inversion Hsubs; subst. cbn [mapM] in HOss. inversion HOss; subst. inversion Houts; subst.
    exists [], []. repeat split; reflexivity.
  - cbn [mapM] in Hsubs. apply bind_Ok in Hsubs as (sub & Hsub & Hsubs). apply bind_Ok in Hsubs as (subs' & Hsubs' & Hsubs).
    inversion Hsubs; subst. clear Hsubs.
    cbn [mapM] in HOss. apply bind_Ok in HOss as (Os & HOs & HOss). apply bind_Ok in HOss as (Oss' & HOss' & HOss).
    inversion HOss; subst. clear HOss.
    cbn [mapM] in Houts. apply bind_Ok in Houts as (outG & HoutG & Houts). apply bind_Ok in Houts as (outs' & Houts' & Houts).
    inversion Houts; subst. clear Houts.
    assert (HrG : forall jp, In jp G -> 0 <= snd jp < zlen ls).
    { intros jp Hjp. rewrite (mapM_zlen _ _ _ Hcut). apply (Hr G (or_introl eq_refl)), Hjp. }
    destruct (gatherG_ok ls G HrG) as [lsG HlsG].
    assert (HmS : mapS (cut1 vs0) sub = Ok lsG).
    { rewrite <- HlsG. symmetry. apply (gatherG_mapM _ _ _ _ _ Hcut Hsub). }
    destruct (cols_column vs0 sub lsG HmS) as [Hmax Hcol].
    change (sub_maxlen sub) with (sax_maxlen sub) in Hmax.
    change (fold_left Z.max (map (fun jl : Z * list value => zlen (snd jl)) lsG) 0) with (maxlen lsG) in Hmax.
    (* the columns *)
    assert (HOs' : mapM (fun q => sortcols asc false t' (coll q lsG)) (iota (maxlen lsG)) = Ok Os).
    { unfold sax_cols in HOs. rewrite mapM_map, Hmax in HOs. rewrite <- HOs. apply mapM_ext_in. intros q Hq.
      apply iota_In' in Hq. change (sax_col q sub) with (sub_col q sub). rewrite (Hcol q) by lia. reflexivity. }
    assert (Hids : Forall2 same_ids (sax_cols sub) Os).
    { apply mapM_Forall2 in HOs. eapply Forall2_imp; [|exact HOs]. intros g o Hgo. cbv beta in Hgo.
      apply bind_Ok in Hgo as (xs & Hxs & Hgo). unfold same_ids. rewrite (sortcols_ids _ _ _ _ _ Hgo). apply (gatherG_fst _ _ _ Hxs). }
    (* the rows *)
    rewrite gatherG_map, HlsG in HoutG. cbn [rmap bind] in HoutG. rewrite sortcols_list, mapM_map in HoutG.
    rewrite (mapM_ext_in _ (fun jl : Z * list value => Ok jl)) in HoutG by (intros [? ?] _; reflexivity).
    rewrite mapM_ok_id in HoutG by reflexivity. cbn [bind] in HoutG. rewrite HOs' in HoutG. cbn [bind] in HoutG.
    assert (Hle : Forall (fun jl : Z * list value => zlen (snd jl) <= zlen Os) lsG).
    { apply Forall_forall. intros jl Hjl. rewrite (mapM_zlen _ _ _ HOs'), zlen_iota by apply maxlen_nonneg. apply maxlen_ge, Hjl. }
    destruct (back_rows (sax_cols sub) Os pre (concat (map (fun Os => concat (map (map snd) Os)) Oss') ++ post) Hids
                sub lsG outG (mapS_rows _ _ _ HmS) Hle HoutG) as (rowsP & RowsG & HrowsP & HgP & HvG & HzG).
    assert (Hr' : in_range (zlen bs) groups) by (intros G' HG'; apply Hr; right; exact HG').
    destruct (IH subs' Oss' outs' (pre ++ concat (map (map snd) Os)) post Hr' Hsubs' HOss' Houts') as (ix & Rows & Hback & Hg & Hv & Hz).
    exists (concat rowsP ++ ix), (RowsG ++ Rows). split; [|split; [|split]].
    + rewrite sax_back_cons, HrowsP. cbn [bind].
      replace (zlen pre + sax_total (sax_cols sub)) with (zlen (pre ++ concat (map (map snd) Os))).
      2:{ rewrite zlen_app, zlen_concat_snd. unfold sax_total. rewrite (same_ids_zlens _ _ Hids). reflexivity. }
      rewrite Hback. reflexivity.
    + cbn [map concat]. rewrite mapM_app. rewrite <- !app_assoc in *. rewrite HgP. cbn [bind]. rewrite Hg. cbn [bind].
      rewrite concat_app. reflexivity.
    + cbn [map concat]. rewrite Hv, HvG, map_app. reflexivity.
    + cbn [concat]. rewrite !map_app, HzG, Hz. reflexivity.
Qed.

Lemma gatherG_typed (P : value -> Prop) vs G xs : Forall P vs -> gatherG vs G = Ok xs -> Forall (fun jv : Z * value => P (snd jv)) xs.
Proof.
  intros HP HG. apply Forall_forall. intros [j v] Hin. cbn [snd]. destruct (gatherG_In _ _ _ _ _ HG Hin) as (q & _ & Hq).
  rewrite Forall_forall in HP. apply HP. eapply get_In, Hq.
Qed.

(* ONE LEVEL of the non-local branch *)
Lemma sax_list asc c cc : list_content c = Some cc -> sax_ok asc cc -> sax_ok asc c.
Proof.
  intros Hc IH p groups vs HV Hfr Hs Hl Hr.
  destruct (Valid_param p c HV) as [-> | Es].
  2:{ exfalso. destruct c; try discriminate; destruct p as [[]|]; try discriminate;
        cbn [type_of_p strflag saxty] in Hs; discriminate. }
  assert (Hsub : Valid None cc /\ frag1 cc = true /\ exists sz, type_of_p None c = TList sz None (type_of_p None cc)).
  { destruct c; try discriminate; cbn [list_content] in Hc; inversion Hc; subst; inversion HV; subst;
      cbn [frag1 type_of_p strflag] in *;
      match goal with H : is_strk None = false -> Valid None _ |- _ => specialize (H eq_refl) end;
      repeat split; auto; eexists; reflexivity. }
  destruct Hsub as (HVc & Hfr' & sz & Hty).
  pose proof (to_list_typed_thm c vs HV Hl) as Htyped. unfold type_of in Htyped.
  rewrite Hty in *. cbn [saxty] in Hs. set (t' := type_of_p None cc) in *.
  destruct (list_bounds_spec c cc vs Hc Hl) as (bs & vs0 & ls & Hb & Hl0 & Hcut & ->).
  rewrite zlen_map, (mapM_zlen _ _ _ Hcut) in Hr.
  destruct (mapM_gatherG bs groups Hr) as [subs Hsubs].
  set (groups' := concat (map sax_cols subs)).
  assert (Hr' : in_range (zlen vs0) groups').
  { intros G' HG' [j pos] Hjp. cbn [snd]. unfold groups' in HG'. apply in_concat in HG' as (L & HL & HG').
    apply in_map_iff in HL as (sub & <- & Hsub). unfold sax_cols in HG'. apply in_map_iff in HG' as (q & <- & Hq).
    apply iota_In' in Hq. unfold sax_col in Hjp. apply in_flat_map in Hjp as ([j' [s e]] & Hjse & Hjp). cbn [fst snd] in Hjp.
    destruct (s + q <? e) eqn:E; [|contradiction]. destruct Hjp as [Hjp|[]]. inversion Hjp; subst. clear Hjp.
    destruct (mapM_In_inv _ _ _ _ Hsubs Hsub) as (G & HGin & HGs).
    destruct (gatherG_In _ _ _ _ _ HGs Hjse) as (k & _ & Hk).
    destruct (mapM_Ok_In _ _ _ _ Hcut (get_In _ _ _ Hk)) as (l & Hl' & _). unfold cut1 in Hl'.
    destruct (s =? e) eqn:Ese; [lia|]. pose proof (slice_inv _ _ _ _ Hl') as (H1 & H2 & H3 & _). lia. }
  destruct (IH None groups' vs0 HVc Hfr' Hs Hl0 Hr') as (inner & outsI & Hsax & HVi & Hspec & Hti).
  unfold sax_spec, groups' in Hspec. rewrite mapM_concat in Hspec. apply rmap_Ok in Hspec as (Oss & HOss & ->).
  rewrite mapM_map in HOss. fold t' in HOss.
  (* the specification answers *)
  assert (Houts : exists outs, sax_spec asc (TList sz None t') (map VList ls) groups = Ok outs).
  { apply mapM_total. intros G HG.
    destruct (gatherG_ok (map VList ls) G) as [xs Hxs].
    { rewrite zlen_map, (mapM_zlen _ _ _ Hcut). apply Hr, HG. }
    rewrite Hxs. cbn [bind]. apply sortcols_total; [cbn [saxty]; exact Hs|]. eapply gatherG_typed; [exact Htyped|exact Hxs]. }
  destruct Houts as [outs Houts].
  destruct (backs_groups asc sz t' vs0 bs ls Hcut groups subs Oss outs [] [] Hr Hsubs HOss Houts)
    as (ix & Rows & Hback & Hgather & Hvals & Hlens).
  cbn [app] in Hgather. rewrite app_nil_r, <- concat_concat_snd in Hgather. change (zlen []) with 0 in Hback.
  set (W := concat (map (map snd) (concat Oss))) in *.
  assert (Hix : Forall (fun i => 0 <= i < clen inner) ix).
  { rewrite <- (to_list_length inner None W HVi Hti). apply (gather_range_inv _ _ _ Hgather). }
  destruct (carry_spec inner W ix HVi Hti Hix) as (out & Hcarry & Hto & Hclen).
  pose proof (carry_valid inner W ix out HVi Hti Hix Hcarry) as HVo.
  exists (ListOffset I64 (offsets_from 0 (map seglen (concat subs))) out), outs. split; [|split; [|split]].
  - rewrite (sax_list_eq _ _ _ _ _ Hc), Hb. cbn [is_strk bind fst]. rewrite Hsubs. cbn [bind]. fold groups'. rewrite Hsax. cbn [bind].
    rewrite Hback. cbn [bind]. rewrite Hcarry. reflexivity.
  - rewrite <- Hlens. apply offsets_valid; [apply zlens_nonneg| |exact HVo].
    rewrite sumZ_zlen_concat, Hclen, (mapM_zlen _ _ _ Hgather). lia.
  - exact Houts.
  - rewrite to_list_ListOffset, Hto, Hgather. cbn [bind]. rewrite (cut_concat_lens Rows) by (symmetry; exact Hlens).
    cbn [rmap]. rewrite Hvals. reflexivity.
Qed.

(* ---------------------------------------------------------------- every node class *)
Theorem sax_all asc c : sax_ok asc c.
Proof.
  induction c as [dt shape data| |w o c IHc|w s e c IHc|c size zl IHc|w ix c IHc|w ix c IHc|m vw c IHc
                 |m vw lsb n c IHc|c IHc|w t ix cs IHcs|cs ks n IHcs|arr rn c IHc] using content_ind'.
  - apply sax_leaf. reflexivity.
  - apply sax_leaf. reflexivity.
  - eapply sax_list; [reflexivity|exact IHc].
  - eapply sax_list; [reflexivity|exact IHc].
  - eapply sax_list; [reflexivity|exact IHc].
  - apply sax_Indexed, IHc.
  - apply sax_leaf. reflexivity.
  - apply sax_leaf. reflexivity.
  - apply sax_leaf. reflexivity.
  - apply sax_leaf. reflexivity.
  - intros p groups vs _ Hfr. discriminate.
  - intros p groups vs _ _ Hs. discriminate.
  - apply sax_Par, IHc.
Qed.
