// Common part of the implementation-side drivers: S-expression reader, layout
// builder (text -> awkward::Content), layout dumper (Content -> text), slice builder.
// Uses only public headers of /repo/include.
#pragma once
#include <cmath>
#include <cstdint>
#include <cstring>
#include <iostream>
#include <sstream>
#include <stdexcept>
#include <string>
#include <vector>
#include <memory>
#include <limits>
#include <csignal>

#include "awkward/Index.h"
#include "awkward/Slice.h"
#include "awkward/Content.h"
#include "awkward/Reducer.h"
#include "awkward/kernel-dispatch.h"
#include "awkward/array/NumpyArray.h"
#include "awkward/array/EmptyArray.h"
#include "awkward/array/ListOffsetArray.h"
#include "awkward/array/ListArray.h"
#include "awkward/array/RegularArray.h"
#include "awkward/array/IndexedArray.h"
#include "awkward/array/ByteMaskedArray.h"
#include "awkward/array/BitMaskedArray.h"
#include "awkward/array/UnmaskedArray.h"
#include "awkward/array/UnionArray.h"
#include "awkward/array/RecordArray.h"
#include "awkward/array/Record.h"
#include "awkward/array/None.h"
#include "awkward/array/VirtualArray.h"

namespace drv {
using namespace awkward;

// ---------------------------------------------------------------- S-expressions
struct Sx {
  bool atom = false;
  std::string a;
  std::vector<Sx> l;
  const Sx& operator[](size_t i) const {
    if (atom || i >= l.size()) throw std::logic_error("sx: index " + std::to_string(i) + " in " + str());
    return l[i];
  }
  size_t size() const { return l.size(); }
  bool is(const char* s) const { return atom && a == s; }
  std::string head() const { return (!atom && !l.empty() && l[0].atom) ? l[0].a : std::string(); }
  std::string str() const {
    if (atom) return a;
    std::string o = "(";
    for (size_t i = 0; i < l.size(); i++) { if (i) o += " "; o += l[i].str(); }
    return o + ")";
  }
};

inline Sx parse_sx(const std::string& s, size_t& p) {
  while (p < s.size() && isspace((unsigned char)s[p])) p++;
  if (p >= s.size()) throw std::logic_error("sx: unexpected end");
  Sx out;
  if (s[p] == '(') {
    p++;
    for (;;) {
      while (p < s.size() && isspace((unsigned char)s[p])) p++;
      if (p >= s.size()) throw std::logic_error("sx: missing )");
      if (s[p] == ')') { p++; break; }
      out.l.push_back(parse_sx(s, p));
    }
  } else if (s[p] == ')') {
    throw std::logic_error("sx: unexpected )");
  } else {
    out.atom = true;
    size_t q = p;
    while (q < s.size() && !isspace((unsigned char)s[q]) && s[q] != '(' && s[q] != ')') q++;
    out.a = s.substr(p, q - p);
    p = q;
  }
  return out;
}
inline Sx parse_line(const std::string& s) { size_t p = 0; return parse_sx(s, p); }

inline int64_t to_i64(const Sx& x) {
  if (!x.atom) throw std::logic_error("sx: integer expected, got " + x.str());
  const std::string& a = x.a;
  if (a == "true") return 1;
  if (a == "false") return 0;
  size_t pos = 0;
  if (!a.empty() && a[0] != '-' && a.size() >= 19) {  // may exceed int64: parse unsigned, wrap
    unsigned long long u = std::stoull(a, &pos);
    if (pos != a.size()) throw std::logic_error("sx: bad integer " + a);
    return (int64_t)u;
  }
  long long v = std::stoll(a, &pos);
  if (pos != a.size()) throw std::logic_error("sx: bad integer " + a);
  return (int64_t)v;
}
inline std::vector<int64_t> to_i64s(const Sx& x) {
  if (x.atom) throw std::logic_error("sx: list expected, got " + x.str());
  std::vector<int64_t> o;
  for (auto& e : x.l) o.push_back(to_i64(e));
  return o;
}
inline double to_f64(const Sx& x) {
  if (x.is("nan")) return std::numeric_limits<double>::quiet_NaN();
  if (x.is("inf")) return std::numeric_limits<double>::infinity();
  if (x.is("-inf")) return -std::numeric_limits<double>::infinity();
  if (x.atom && x.a.size() > 2 && x.a[0] == 'f' && x.a[1] == ':') return std::strtod(x.a.c_str() + 2, nullptr);
  return (double)to_i64(x);
}

// ---------------------------------------------------------------- building
template <typename T>
IndexOf<T> mkindex(const std::vector<int64_t>& v) {
  IndexOf<T> out((int64_t)v.size());
  for (size_t i = 0; i < v.size(); i++) out.setitem_at_nowrap((int64_t)i, (T)v[i]);
  return out;
}

inline util::dtype dtype_of(const std::string& n) {
  if (n == "bool") return util::dtype::boolean;
  util::dtype d = util::name_to_dtype(n);
  if (d == util::dtype::NOT_PRIMITIVE) throw std::logic_error("unknown dtype " + n);
  return d;
}
inline std::string dtype_name(util::dtype d) {
  if (d == util::dtype::boolean) return "bool";
  return util::dtype_to_name(d);
}

inline void store(util::dtype d, void* p, int64_t i, const Sx& x) {
  switch (d) {
    case util::dtype::boolean: ((bool*)p)[i] = to_i64(x) != 0; break;
    case util::dtype::int8: ((int8_t*)p)[i] = (int8_t)to_i64(x); break;
    case util::dtype::int16: ((int16_t*)p)[i] = (int16_t)to_i64(x); break;
    case util::dtype::int32: ((int32_t*)p)[i] = (int32_t)to_i64(x); break;
    case util::dtype::int64: ((int64_t*)p)[i] = (int64_t)to_i64(x); break;
    case util::dtype::uint8: ((uint8_t*)p)[i] = (uint8_t)to_i64(x); break;
    case util::dtype::uint16: ((uint16_t*)p)[i] = (uint16_t)to_i64(x); break;
    case util::dtype::uint32: ((uint32_t*)p)[i] = (uint32_t)to_i64(x); break;
    case util::dtype::uint64: ((uint64_t*)p)[i] = (uint64_t)to_i64(x); break;
    case util::dtype::float32: ((float*)p)[i] = (float)to_f64(x); break;
    case util::dtype::float64: ((double*)p)[i] = to_f64(x); break;
    default: throw std::logic_error("unsupported dtype in driver");
  }
}

inline std::string fmt_double(double v) {
  if (std::isnan(v)) return "nan";
  if (std::isinf(v)) return v > 0 ? "inf" : "-inf";
  if (v == std::floor(v) && std::fabs(v) < 9.0e18) return std::to_string((int64_t)v);
  char buf[64];
  snprintf(buf, sizeof buf, "f:%a", v);
  return buf;
}
inline std::string load(util::dtype d, const void* p, int64_t i) {
  switch (d) {
    case util::dtype::boolean: return ((const bool*)p)[i] ? "1" : "0";
    case util::dtype::int8: return std::to_string((int)((const int8_t*)p)[i]);
    case util::dtype::int16: return std::to_string(((const int16_t*)p)[i]);
    case util::dtype::int32: return std::to_string(((const int32_t*)p)[i]);
    case util::dtype::int64: return std::to_string(((const int64_t*)p)[i]);
    case util::dtype::uint8: return std::to_string((unsigned)((const uint8_t*)p)[i]);
    case util::dtype::uint16: return std::to_string(((const uint16_t*)p)[i]);
    case util::dtype::uint32: return std::to_string(((const uint32_t*)p)[i]);
    case util::dtype::uint64: return std::to_string(((const uint64_t*)p)[i]);
    case util::dtype::float32: return fmt_double((double)((const float*)p)[i]);
    case util::dtype::float64: return fmt_double(((const double*)p)[i]);
    default: return "?";
  }
}

inline ContentPtr mknumpy(util::dtype d, const std::vector<int64_t>& shape,
                          const std::vector<int64_t>& strides_items, int64_t off_items,
                          const Sx& data) {
  int64_t itemsize = util::dtype_to_itemsize(d);
  int64_t n = (int64_t)data.size();
  std::shared_ptr<void> ptr = kernel::malloc<void>(kernel::lib::cpu, (n > 0 ? n : 1) * itemsize);
  for (int64_t i = 0; i < n; i++) store(d, ptr.get(), i, data[i]);
  std::vector<ssize_t> sh, st;
  for (auto s : shape) sh.push_back((ssize_t)s);
  for (auto s : strides_items) st.push_back((ssize_t)(s * itemsize));
  return std::make_shared<NumpyArray>(Identities::none(), util::Parameters(), ptr, sh, st,
                                      (ssize_t)(off_items * itemsize), (ssize_t)itemsize,
                                      util::dtype_to_format(d), d, kernel::lib::cpu);
}

inline std::string quoted(const std::string& s) { return "\"" + s + "\""; }

inline ContentPtr build(const Sx& x);

inline ContentPtrVec build_many(const Sx& x, size_t from) {
  ContentPtrVec out;
  for (size_t i = from; i < x.size(); i++) out.push_back(build(x[i]));
  return out;
}

inline ContentPtr build(const Sx& x) {
  const std::string h = x.head();
  const util::Parameters np;
  IdentitiesPtr noid = Identities::none();
  if (h == "np") {
    util::dtype d = dtype_of(x[1].a);
    std::vector<int64_t> shape = to_i64s(x[2]);
    std::vector<int64_t> strides(shape.size(), 1);
    for (int64_t k = (int64_t)shape.size() - 2; k >= 0; k--) strides[k] = strides[k + 1] * shape[k + 1];
    return mknumpy(d, shape, strides, 0, x[3]);
  }
  if (h == "nps") {
    util::dtype d = dtype_of(x[1].a);
    return mknumpy(d, to_i64s(x[2]), to_i64s(x[3]), to_i64(x[4]), x[5]);
  }
  if (h == "empty") return std::make_shared<EmptyArray>(noid, np);
  if (h == "lo") {
    const std::string w = x[1].a;
    auto o = to_i64s(x[2]);
    ContentPtr c = build(x[3]);
    if (w == "i32") return std::make_shared<ListOffsetArray32>(noid, np, mkindex<int32_t>(o), c);
    if (w == "u32") return std::make_shared<ListOffsetArrayU32>(noid, np, mkindex<uint32_t>(o), c);
    return std::make_shared<ListOffsetArray64>(noid, np, mkindex<int64_t>(o), c);
  }
  if (h == "la") {
    const std::string w = x[1].a;
    auto s = to_i64s(x[2]);
    auto e = to_i64s(x[3]);
    ContentPtr c = build(x[4]);
    if (w == "i32") return std::make_shared<ListArray32>(noid, np, mkindex<int32_t>(s), mkindex<int32_t>(e), c);
    if (w == "u32") return std::make_shared<ListArrayU32>(noid, np, mkindex<uint32_t>(s), mkindex<uint32_t>(e), c);
    return std::make_shared<ListArray64>(noid, np, mkindex<int64_t>(s), mkindex<int64_t>(e), c);
  }
  if (h == "reg") {
    return std::make_shared<RegularArray>(noid, np, build(x[3]), to_i64(x[1]), to_i64(x[2]));
  }
  if (h == "ix") {
    const std::string w = x[1].a;
    auto ix = to_i64s(x[2]);
    ContentPtr c = build(x[3]);
    if (w == "i32") return std::make_shared<IndexedArray32>(noid, np, mkindex<int32_t>(ix), c);
    if (w == "u32") return std::make_shared<IndexedArrayU32>(noid, np, mkindex<uint32_t>(ix), c);
    return std::make_shared<IndexedArray64>(noid, np, mkindex<int64_t>(ix), c);
  }
  if (h == "ixo") {
    const std::string w = x[1].a;
    auto ix = to_i64s(x[2]);
    ContentPtr c = build(x[3]);
    if (w == "i32") return std::make_shared<IndexedOptionArray32>(noid, np, mkindex<int32_t>(ix), c);
    return std::make_shared<IndexedOptionArray64>(noid, np, mkindex<int64_t>(ix), c);
  }
  if (h == "bym") {
    return std::make_shared<ByteMaskedArray>(noid, np, mkindex<int8_t>(to_i64s(x[1])), build(x[3]),
                                             to_i64(x[2]) != 0);
  }
  if (h == "bim") {
    return std::make_shared<BitMaskedArray>(noid, np, mkindex<uint8_t>(to_i64s(x[1])), build(x[5]),
                                            to_i64(x[2]) != 0, to_i64(x[4]), to_i64(x[3]) != 0);
  }
  if (h == "unm") return std::make_shared<UnmaskedArray>(noid, np, build(x[1]));
  if (h == "un") {
    const std::string w = x[1].a;
    auto tags = mkindex<int8_t>(to_i64s(x[2]));
    auto ix = to_i64s(x[3]);
    ContentPtrVec cs = build_many(x, 4);
    if (w == "i32") return std::make_shared<UnionArray8_32>(noid, np, tags, mkindex<int32_t>(ix), cs);
    if (w == "u32") return std::make_shared<UnionArray8_U32>(noid, np, tags, mkindex<uint32_t>(ix), cs);
    return std::make_shared<UnionArray8_64>(noid, np, tags, mkindex<int64_t>(ix), cs);
  }
  if (h == "rec") {
    int64_t len = to_i64(x[1]);
    util::RecordLookupPtr lookup(nullptr);
    if (!x[2].is("tuple")) {
      lookup = std::make_shared<util::RecordLookup>();
      for (auto& k : x[2].l) lookup->push_back(k.a);
    }
    return std::make_shared<RecordArray>(noid, np, build_many(x, 3), lookup, len);
  }
  if (h == "par") {
    ContentPtr c = build(x[3]);
    util::Parameters ps = c->parameters();
    if (!x[1].is("none")) ps["__array__"] = quoted(x[1].a);
    if (!x[2].is("none")) ps["__record__"] = quoted(x[2].is("%empty") ? std::string("") : x[2].a);
    c->setparameters(ps);
    return c;
  }
  throw std::logic_error("build: unknown node " + x.str());
}

// ---------------------------------------------------------------- dumping
template <typename T>
std::string dump_index(const IndexOf<T>& ix) {
  std::string o = "(";
  for (int64_t i = 0; i < ix.length(); i++) {
    if (i) o += " ";
    o += std::to_string((int64_t)ix.getitem_at_nowrap(i));
  }
  return o + ")";
}
inline std::string dump_u64index(const IndexOf<uint32_t>& ix) { return dump_index<uint32_t>(ix); }

inline std::string unquote(const std::string& s) {
  if (s.size() >= 2 && s.front() == '"' && s.back() == '"') return s.substr(1, s.size() - 2);
  return s;
}

inline std::string dump(const ContentPtr& c);

inline std::string dump_raw(const Content* c) {
  if (const NumpyArray* r = dynamic_cast<const NumpyArray*>(c)) {
    util::dtype d = r->dtype();
    if (r->ndim() == 0) {
      return "(scalar " + dtype_name(d) + " " + load(d, (const char*)r->ptr().get() + r->byteoffset(), 0) + ")";
    }
    NumpyArray cont = r->contiguous();
    int64_t n = 1;
    std::string sh = "(";
    for (size_t i = 0; i < cont.shape().size(); i++) {
      if (i) sh += " ";
      sh += std::to_string(cont.shape()[i]);
      n *= cont.shape()[i];
    }
    sh += ")";
    const char* base = (const char*)cont.ptr().get() + cont.byteoffset();
    std::string data = "(";
    for (int64_t i = 0; i < n; i++) { if (i) data += " "; data += load(d, base, i); }
    data += ")";
    return "(np " + dtype_name(d) + " " + sh + " " + data + ")";
  }
  if (dynamic_cast<const EmptyArray*>(c)) return "(empty)";
#define LO(T, W) if (const T* r = dynamic_cast<const T*>(c)) return std::string("(lo " W " ") + dump_index(r->offsets()) + " " + dump(r->content()) + ")";
  LO(ListOffsetArray32, "i32") LO(ListOffsetArrayU32, "u32") LO(ListOffsetArray64, "i64")
#define LA(T, W) if (const T* r = dynamic_cast<const T*>(c)) return std::string("(la " W " ") + dump_index(r->starts()) + " " + dump_index(r->stops()) + " " + dump(r->content()) + ")";
  LA(ListArray32, "i32") LA(ListArrayU32, "u32") LA(ListArray64, "i64")
  if (const RegularArray* r = dynamic_cast<const RegularArray*>(c))
    return "(reg " + std::to_string(r->size()) + " " + std::to_string(r->length()) + " " + dump(r->content()) + ")";
#define IX(T, H, W) if (const T* r = dynamic_cast<const T*>(c)) return std::string("(" H " " W " ") + dump_index(r->index()) + " " + dump(r->content()) + ")";
  IX(IndexedArray32, "ix", "i32") IX(IndexedArrayU32, "ix", "u32") IX(IndexedArray64, "ix", "i64")
  IX(IndexedOptionArray32, "ixo", "i32") IX(IndexedOptionArray64, "ixo", "i64")
  if (const ByteMaskedArray* r = dynamic_cast<const ByteMaskedArray*>(c))
    return "(bym " + dump_index(r->mask()) + " " + (r->valid_when() ? "1" : "0") + " " + dump(r->content()) + ")";
  if (const BitMaskedArray* r = dynamic_cast<const BitMaskedArray*>(c))
    return "(bim " + dump_index(r->mask()) + " " + (r->valid_when() ? "1" : "0") + " " + (r->lsb_order() ? "1" : "0")
           + " " + std::to_string(r->length()) + " " + dump(r->content()) + ")";
  if (const UnmaskedArray* r = dynamic_cast<const UnmaskedArray*>(c)) return "(unm " + dump(r->content()) + ")";
#define UN(T, W) if (const T* r = dynamic_cast<const T*>(c)) { std::string o = std::string("(un " W " ") + dump_index(r->tags()) + " " + dump_index(r->index()); \
    for (auto& k : r->contents()) o += " " + dump(k); return o + ")"; }
  UN(UnionArray8_32, "i32") UN(UnionArray8_U32, "u32") UN(UnionArray8_64, "i64")
  if (const RecordArray* r = dynamic_cast<const RecordArray*>(c)) {
    std::string o = "(rec " + std::to_string(r->length()) + " ";
    if (r->istuple()) o += "tuple";
    else {
      o += "(";
      bool first = true;
      for (auto& k : *r->recordlookup()) { if (!first) o += " "; first = false; o += k; }
      o += ")";
    }
    for (auto& k : r->contents()) o += " " + dump(k);
    return o + ")";
  }
  if (const Record* r = dynamic_cast<const Record*>(c))
    return "(record " + std::to_string(r->at()) + " " + dump(r->array()->shallow_copy()) + ")";
  if (dynamic_cast<const None*>(c)) return "(none)";
  if (const VirtualArray* r = dynamic_cast<const VirtualArray*>(c)) return dump(r->array());
  return "(unknown " + c->classname() + ")";
}

inline std::string dump(const ContentPtr& c) {
  std::string raw = dump_raw(c.get());
  if (dynamic_cast<const Record*>(c.get()) || dynamic_cast<const None*>(c.get())) return raw;
  util::Parameters ps = c->parameters();
  std::string arr = "none", rec = "none";
  auto ia = ps.find("__array__");
  if (ia != ps.end() && ia->second != "null") arr = unquote(ia->second);
  auto ir = ps.find("__record__");
  if (ir != ps.end() && ir->second != "null") rec = unquote(ir->second);
  if (rec.empty()) rec = "%empty";       // a record named by the empty string
  if (arr == "none" && rec == "none") return raw;
  return "(par " + arr + " " + rec + " " + raw + ")";
}

// ---------------------------------------------------------------- slices
inline int64_t bound(const Sx& x) { return x.is("none") ? Slice::none() : to_i64(x); }

inline SliceItemPtr build_item(const Sx& x) {
  if (x.is("ell")) return std::make_shared<SliceEllipsis>();
  if (x.is("newaxis")) return std::make_shared<SliceNewAxis>();
  const std::string h = x.head();
  if (h == "at") return std::make_shared<SliceAt>(to_i64(x[1]));
  if (h == "rng") return std::make_shared<SliceRange>(bound(x[1]), bound(x[2]), bound(x[3]));
  if (h == "arr") {  // (arr (shape...) (i...)) ; a boolean array is (barr ...), see append_barr
    auto shape = to_i64s(x[1]);
    auto v = to_i64s(x[2]);
    std::vector<int64_t> strides(shape.size(), 1);
    for (int64_t k = (int64_t)shape.size() - 2; k >= 0; k--) strides[k] = strides[k + 1] * shape[k + 1];
    return std::make_shared<SliceArray64>(mkindex<int64_t>(v), shape, strides, false);
  }
  if (h == "fld") return std::make_shared<SliceField>(x[1].a);
  if (h == "flds") {
    std::vector<std::string> ks;
    for (size_t i = 1; i < x.size(); i++) ks.push_back(x[i].a);
    return std::make_shared<SliceFields>(ks);
  }
  if (h == "miss") {  // (miss (index...) item)
    auto ix = mkindex<int64_t>(to_i64s(x[1]));
    return std::make_shared<SliceMissing64>(ix, Index8(0), build_item(x[2]));
  }
  if (h == "jag") {  // (jag (offsets...) item)
    return std::make_shared<SliceJagged64>(mkindex<int64_t>(to_i64s(x[1])), build_item(x[2]));
  }
  if (h == "lay") {  // (lay LAYOUT): an awkward array used as an index, converted by the library's own Content::asslice()
    return build(x[1])->asslice();   // (what toslice_part of src/python/content.cpp does for a non-rectilinear array)
  }
  throw std::logic_error("build_item: " + x.str());
}

// (barr (shape...) (0|1 ...)): a rectilinear boolean array; as toslice_part does it becomes numpy.nonzero(array):
// one integer array (1-d, frombool) per dimension, row-major order of the true positions
inline void append_barr(Slice& s, const Sx& x) {
  auto shape = to_i64s(x[1]);
  auto v = to_i64s(x[2]);
  int64_t n = 1;
  for (auto d : shape) n *= d;
  if (shape.empty() || (int64_t)v.size() != n) throw std::logic_error("barr: shape/data mismatch " + x.str());
  std::vector<std::vector<int64_t>> pos(shape.size());
  for (int64_t k = 0; k < n; k++) {
    if (v[k] == 0) continue;
    int64_t rest = k;
    for (int64_t d = (int64_t)shape.size() - 1; d >= 0; d--) { pos[d].push_back(rest % shape[d]); rest /= shape[d]; }
  }
  for (size_t d = 0; d < shape.size(); d++) {
    std::vector<int64_t> sh(1, (int64_t)pos[d].size()), st(1, 1);
    s.append(std::make_shared<SliceArray64>(mkindex<int64_t>(pos[d]), sh, st, true));
  }
}

inline Slice build_slice(const Sx& items) {
  Slice s;
  for (auto& it : items.l) {
    if (it.head() == "barr") append_barr(s, it);
    else s.append(build_item(it));
  }
  s.become_sealed();
  return s;
}

// ---------------------------------------------------------------- main loop helper
// handler: given the parsed case (id op args...), returns the text after "ok".
template <typename F>
int run_cases(F handler) {
  std::ios::sync_with_stdio(false);
  std::string line;
  while (std::getline(std::cin, line)) {
    if (line.empty() || line[0] == '#') continue;
    std::string id = "?";
    try {
      Sx cs = parse_line(line);
      id = cs[0].a;
      std::string out = handler(cs);
      std::cout << "(" << id << " ok " << out << ")" << std::endl;
    } catch (std::domain_error& e) {      // driver-detected impurity (C12)
      std::cout << "(" << id << " impure (" << e.what() << "))" << std::endl;
    } catch (std::invalid_argument& e) {
      if (getenv("DRV_VERBOSE")) std::cerr << id << ": " << e.what() << std::endl;
      std::cout << "(" << id << " err value)" << std::endl;
    } catch (std::logic_error& e) {   // driver-side misuse (bad case syntax)
      std::cout << "(" << id << " bad " << "(" << e.what() << "))" << std::endl;
    } catch (std::runtime_error& e) {
      if (getenv("DRV_VERBOSE")) std::cerr << id << ": " << e.what() << std::endl;
      std::cout << "(" << id << " err runtime)" << std::endl;
    } catch (std::exception& e) {
      std::cout << "(" << id << " err other)" << std::endl;
    }
  }
  return 0;
}

}  // namespace drv
