#pragma once
#include "rapidjson/shim_core.h"
