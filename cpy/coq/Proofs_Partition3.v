(** Proofs_Partition3: reducers with axis=None on a partitioned array WITH records (property C18, partitioned half).
    _util.completely_flatten goes field by field over the whole array, so the leaves of the concatenation are not the
    per-partition leaves one after the other (Proofs_Partition2.flatten_none_records_refuted) - but they are a
    PERMUTATION of them, and count / count_nonzero / sum / prod / any / all / min / max do not depend on the order.
    Hence the per-partition results still combine by the reducer itself.  (argmin / argmax do depend on the order:
    the specification leaves them unspecified on records.) *)
From Coq Require Import ZArith List Bool Lia ZifyBool Permutation.
From AwkV Require Import Base Layout Valid Types AtAxis Ops_Struct Ops_Flatten Ops_Option Ops_Reduce Ops_Sort
  Ops_Getitem Ops_Fields Proofs_Lists.
From AwkPy Require Import PySpec Proofs_Partition Proofs_Partition2.
Import ListNotations.
Open Scope Z_scope.

(* ---------------------------------------------------------------- induction on types *)
Section TyInd.
  Variable P : ty -> Prop.
  Hypothesis HNum : forall dt, P (TNum dt).
  Hypothesis HUnk : P TUnk.
  Hypothesis HList : forall sz str t, P t -> P (TList sz str t).
  Hypothesis HOpt : forall t, P t -> P (TOpt t).
  Hypothesis HRec : forall ks ts, Forall P ts -> P (TRec ks ts).
  Hypothesis HUnion : forall ts, Forall P ts -> P (TUnion ts).
  Fixpoint ty_ind_nested (t : ty) : P t :=
    match t with
    | TNum dt => HNum dt
    | TUnk => HUnk
    | TList sz str t' => HList sz str t' (ty_ind_nested t')
    | TOpt t' => HOpt t' (ty_ind_nested t')
    | TRec ks ts =>
        HRec ks ts ((fix go (l : list ty) : Forall P l :=
                       match l with [] => Forall_nil P | x :: xs => Forall_cons x (ty_ind_nested x) (go xs) end) ts)
    | TUnion ts =>
        HUnion ts ((fix go (l : list ty) : Forall P l :=
                      match l with [] => Forall_nil P | x :: xs => Forall_cons x (ty_ind_nested x) (go xs) end) ts)
    end.
End TyInd.

(* ---------------------------------------------------------------- the record case of leaves_l, named *)
Fixpoint leaves_fields (i : Z) (ts : list ty) (vs : list value) {struct ts} : res (list value) :=
  match ts with
  | [] => Ok []
  | t1 :: r =>
      do col <- mapM (field_of i) vs;
      do a <- leaves_l t1 col;
      do b <- leaves_fields (i + 1) r vs;
      Ok (a ++ b)
  end.

Lemma leaves_l_rec ks ts vs : leaves_l (TRec ks ts) vs = leaves_fields 0 ts vs.
Proof.
  cbn [leaves_l]. generalize 0 as i. induction ts as [|t1 r IH]; intro i; [reflexivity|].
  cbn [leaves_fields]. rewrite <- IH. reflexivity.
Qed.

(* ---------------------------------------------------------------- leaves of a concatenation: a permutation *)
Lemma perm_interleave {A} (a1 a2 b1 b2 : list A) :
  Permutation ((a1 ++ b1) ++ (a2 ++ b2)) ((a1 ++ a2) ++ (b1 ++ b2)).
Proof.
  rewrite <- !app_assoc. apply Permutation_app_head. rewrite !app_assoc. apply Permutation_app_tail.
  apply Permutation_app_comm.
Qed.

Theorem leaves_l_perm_lemma t : has_union t = false -> forall xs ys a b,
  leaves_l t xs = Ok a -> leaves_l t ys = Ok b ->
  exists c, leaves_l t (xs ++ ys) = Ok c /\ Permutation c (a ++ b).
Proof.
  induction t as [dt| |sz str t' IH|t' IH|ks ts IH|ts IH] using ty_ind_nested; intros Hu xs ys a b Ha Hb.
  - cbn in *. injection Ha as <-. injection Hb as <-. eexists. split; [reflexivity|apply Permutation_refl].
  - cbn in *. destruct xs; [|discriminate]. destruct ys; [|discriminate].
    injection Ha as <-. injection Hb as <-. exists []. split; [reflexivity|apply Permutation_refl].
  - destruct str as [s|].
    + cbn [leaves_l] in *. rewrite mapM_app.
      destruct (mapM _ xs) as [lx|]; cbn [rmap] in Ha; [|discriminate]. injection Ha as <-.
      destruct (mapM _ ys) as [ly|]; cbn [rmap] in Hb; [|discriminate]. injection Hb as <-.
      cbn [bind rmap]. rewrite concat_app. eexists. split; [reflexivity|apply Permutation_refl].
    + cbn [leaves_l] in *. rewrite mapM_app.
      destruct (mapM _ xs) as [lx|]; cbn [bind] in Ha; [|discriminate].
      destruct (mapM _ ys) as [ly|]; cbn [bind] in Hb; [|discriminate].
      cbn [bind]. rewrite concat_app. apply (IH Hu _ _ _ _ Ha Hb).
  - cbn [leaves_l] in *. rewrite filter_app. apply (IH Hu _ _ _ _ Ha Hb).
  - rewrite leaves_l_rec in *. cbn [has_union] in Hu.
    revert Hu a b Ha Hb. generalize 0 as i.
    induction IH as [|t1 r Ht1 _ IHr]; intros i Hu a b Ha Hb.
    + cbn in *. injection Ha as <-. injection Hb as <-. exists []. split; [reflexivity|apply Permutation_refl].
    + cbn [existsb] in Hu. apply orb_false_iff in Hu. destruct Hu as [Hu1 Hur].
      cbn [leaves_fields] in *.
      apply bind_Ok in Ha. destruct Ha as (cx & Hcx & Ha).
      apply bind_Ok in Ha. destruct Ha as (a1 & Ha1 & Ha).
      apply bind_Ok in Ha. destruct Ha as (a2 & Ha2 & Ha). injection Ha as <-.
      apply bind_Ok in Hb. destruct Hb as (cy & Hcy & Hb).
      apply bind_Ok in Hb. destruct Hb as (b1 & Hb1 & Hb).
      apply bind_Ok in Hb. destruct Hb as (b2 & Hb2 & Hb). injection Hb as <-.
      rewrite mapM_app, Hcx, Hcy. cbn [bind].
      destruct (Ht1 Hu1 _ _ _ _ Ha1 Hb1) as (c1 & -> & Hp1). cbn [bind].
      destruct (IHr (i + 1) Hur _ _ Ha2 Hb2) as (c2 & -> & Hp2). cbn [bind].
      eexists. split; [reflexivity|].
      eapply Permutation_trans; [apply (Permutation_app Hp1 Hp2)|apply perm_interleave].
  - discriminate.
Qed.

Lemma leaves_l_nil_rec t : has_union t = false -> leaves_l t [] = Ok [].
Proof.
  induction t as [dt| |sz str t' IH|t' IH|ks ts IH|ts IH] using ty_ind_nested; intro Hu; try reflexivity.
  - destruct str; [reflexivity|]. cbn [leaves_l mapM bind concat]. apply (IH Hu).
  - cbn [leaves_l filter]. apply (IH Hu).
  - rewrite leaves_l_rec. cbn [has_union] in Hu. revert Hu. generalize 0 as i.
    induction IH as [|t1 r Ht1 _ IHr]; intros i Hu; [reflexivity|].
    cbn [existsb] in Hu. apply orb_false_iff in Hu. destruct Hu as [Hu1 Hur].
    cbn [leaves_fields mapM bind]. rewrite (Ht1 Hu1). cbn [bind]. rewrite (IHr (i + 1) Hur). reflexivity.
  - discriminate.
Qed.

(* ---------------------------------------------------------------- mapM respects permutations *)
Lemma mapM_perm {A B} (f : A -> res B) (c d : list A) :
  Permutation c d -> forall zs, mapM f d = Ok zs -> exists zs', mapM f c = Ok zs' /\ Permutation zs' zs.
Proof.
  induction 1 as [|x l l' Hp IH|x y l|l l' l'' Hp1 IH1 Hp2 IH2]; intros zs Hz.
  - cbn in *. injection Hz as <-. exists []. split; [reflexivity|constructor].
  - cbn [mapM] in *. apply bind_Ok in Hz. destruct Hz as (y & Hy & Hz).
    apply bind_Ok in Hz. destruct Hz as (ys & Hys & Hz). injection Hz as <-.
    destruct (IH _ Hys) as (zs' & -> & Hp'). rewrite Hy. cbn [bind].
    eexists. split; [reflexivity|]. constructor. exact Hp'.
  - cbn [mapM] in *. apply bind_Ok in Hz. destruct Hz as (a & Ha & Hz).
    apply bind_Ok in Hz. destruct Hz as (r1 & Hr1 & Hz). injection Hz as <-.
    apply bind_Ok in Hr1. destruct Hr1 as (b & Hb & Hr1).
    apply bind_Ok in Hr1. destruct Hr1 as (r & Hr & Hr1). injection Hr1 as <-.
    rewrite Hb, Ha, Hr. cbn [bind]. eexists. split; [reflexivity|]. apply perm_swap.
  - destruct (IH2 _ Hz) as (z1 & Hz1 & Hp1'). destruct (IH1 _ Hz1) as (z2 & Hz2 & Hp2').
    exists z2. split; [exact Hz2|]. eapply Permutation_trans; eassumption.
Qed.

Lemma leaf_ints_perm2 t xs ys a b :
  has_union t = false -> leaf_ints t xs = Ok a -> leaf_ints t ys = Ok b ->
  exists c, leaf_ints t (xs ++ ys) = Ok c /\ Permutation c (a ++ b).
Proof.
  intros Hu Ha Hb. unfold leaf_ints in *.
  apply bind_Ok in Ha. destruct Ha as (la & Hla & Ha).
  apply bind_Ok in Hb. destruct Hb as (lb & Hlb & Hb).
  destruct (leaves_l_perm_lemma t Hu xs ys la lb Hla Hlb) as (lc & -> & Hp). cbn [bind].
  apply (mapM_perm leaf_int lc (la ++ lb) Hp). rewrite mapM_app, Ha, Hb. reflexivity.
Qed.

Lemma leaf_ints_perm t parts zss :
  has_union t = false -> mapM (leaf_ints t) parts = Ok zss ->
  exists c, leaf_ints t (concat parts) = Ok c /\ Permutation c (concat zss).
Proof.
  intro Hu. revert zss. induction parts as [|p r IH]; intros zss H.
  - cbn in H. injection H as <-. exists []. split; [|constructor].
    unfold leaf_ints. cbn [concat]. rewrite leaves_l_nil_rec by exact Hu. reflexivity.
  - cbn [mapM] in H. apply bind_Ok in H. destruct H as (zs & Hzs & H).
    apply bind_Ok in H. destruct H as (zr & Hzr & H). injection H as <-.
    destruct (IH zr Hzr) as (cr & Hcr & Hpr).
    destruct (leaf_ints_perm2 t p (concat r) zs cr Hu Hzs Hcr) as (c & Hc & Hp).
    exists c. split; [exact Hc|]. cbn [concat].
    eapply Permutation_trans; [exact Hp|]. apply Permutation_app_head. exact Hpr.
Qed.

(* ---------------------------------------------------------------- the reducers do not depend on the order *)
Definition omin (l : list Z) : option Z :=
  fold_right (fun x acc => match acc with None => Some x | Some m => Some (Z.min x m) end) None l.
Definition omax (l : list Z) : option Z :=
  fold_right (fun x acc => match acc with None => Some x | Some m => Some (Z.max x m) end) None l.

Lemma omin_fold x rest : omin (x :: rest) = Some (fold_left Z.min rest x).
Proof.
  revert x. induction rest as [|y r IH]; intro x; [reflexivity|].
  change (omin (x :: y :: r)) with (match omin (y :: r) with None => Some x | Some m => Some (Z.min x m) end).
  rewrite IH. cbn [fold_left]. rewrite fold_min_acc. reflexivity.
Qed.
Lemma omax_fold x rest : omax (x :: rest) = Some (fold_left Z.max rest x).
Proof.
  revert x. induction rest as [|y r IH]; intro x; [reflexivity|].
  change (omax (x :: y :: r)) with (match omax (y :: r) with None => Some x | Some m => Some (Z.max x m) end).
  rewrite IH. cbn [fold_left]. rewrite fold_max_acc. reflexivity.
Qed.

Lemma omin_perm a b : Permutation a b -> omin a = omin b.
Proof.
  induction 1 as [|x l l' Hp IH|x y l|l l' l'' Hp1 IH1 Hp2 IH2]; [reflexivity| | |congruence].
  - change (omin (x :: l)) with (match omin l with None => Some x | Some m => Some (Z.min x m) end).
    change (omin (x :: l')) with (match omin l' with None => Some x | Some m => Some (Z.min x m) end).
    rewrite IH. reflexivity.
  - change (omin (y :: x :: l)) with
      (match (match omin l with None => Some x | Some m => Some (Z.min x m) end) with
       | None => Some y | Some m => Some (Z.min y m) end).
    change (omin (x :: y :: l)) with
      (match (match omin l with None => Some y | Some m => Some (Z.min y m) end) with
       | None => Some x | Some m => Some (Z.min x m) end).
    destruct (omin l); f_equal; lia.
Qed.
Lemma omax_perm a b : Permutation a b -> omax a = omax b.
Proof.
  induction 1 as [|x l l' Hp IH|x y l|l l' l'' Hp1 IH1 Hp2 IH2]; [reflexivity| | |congruence].
  - change (omax (x :: l)) with (match omax l with None => Some x | Some m => Some (Z.max x m) end).
    change (omax (x :: l')) with (match omax l' with None => Some x | Some m => Some (Z.max x m) end).
    rewrite IH. reflexivity.
  - change (omax (y :: x :: l)) with
      (match (match omax l with None => Some x | Some m => Some (Z.max x m) end) with
       | None => Some y | Some m => Some (Z.max y m) end).
    change (omax (x :: y :: l)) with
      (match (match omax l with None => Some y | Some m => Some (Z.max y m) end) with
       | None => Some x | Some m => Some (Z.max x m) end).
    destruct (omax l); f_equal; lia.
Qed.

Lemma fold_add_cons x l : fold_left Z.add (x :: l) 0 = x + fold_left Z.add l 0.
Proof. cbn [fold_left]. rewrite fold_add_acc. lia. Qed.
Lemma fold_mul_cons x l : fold_left Z.mul (x :: l) 1 = x * fold_left Z.mul l 1.
Proof. cbn [fold_left]. rewrite fold_mul_acc. lia. Qed.

Lemma sum_perm a b : Permutation a b -> fold_left Z.add a 0 = fold_left Z.add b 0.
Proof.
  induction 1 as [|x l l' Hp IH|x y l|l l' l'' Hp1 IH1 Hp2 IH2]; [reflexivity| | |congruence].
  - rewrite !fold_add_cons, IH. reflexivity.
  - rewrite !fold_add_cons. lia.
Qed.
Lemma prod_perm a b : Permutation a b -> fold_left Z.mul a 1 = fold_left Z.mul b 1.
Proof.
  induction 1 as [|x l l' Hp IH|x y l|l l' l'' Hp1 IH1 Hp2 IH2]; [reflexivity| | |congruence].
  - rewrite !fold_mul_cons, IH. reflexivity.
  - rewrite !fold_mul_cons. ring.
Qed.
Lemma existsb_perm (f : Z -> bool) a b : Permutation a b -> existsb f a = existsb f b.
Proof.
  induction 1 as [|x l l' Hp IH|x y l|l l' l'' Hp1 IH1 Hp2 IH2]; [reflexivity| | |congruence].
  - cbn [existsb]. rewrite IH. reflexivity.
  - cbn [existsb]. destruct (f x), (f y); reflexivity.
Qed.
Lemma forallb_perm (f : Z -> bool) a b : Permutation a b -> forallb f a = forallb f b.
Proof.
  induction 1 as [|x l l' Hp IH|x y l|l l' l'' Hp1 IH1 Hp2 IH2]; [reflexivity| | |congruence].
  - cbn [forallb]. rewrite IH. reflexivity.
  - cbn [forallb]. destruct (f x), (f y); reflexivity.
Qed.
Lemma zlen_filter_perm (f : Z -> bool) a b : Permutation a b -> zlen (filter f a) = zlen (filter f b).
Proof.
  induction 1 as [|x l l' Hp IH|x y l|l l' l'' Hp1 IH1 Hp2 IH2]; [reflexivity| | |congruence].
  - cbn [filter]. destruct (f x); rewrite ?zlen_cons, IH; reflexivity.
  - cbn [filter]. destruct (f x), (f y); rewrite ?zlen_cons; reflexivity.
Qed.

Lemma red_val_min dt zs :
  red_val RMin dt zs =
  match omin zs with None => VNone | Some m => if is_bool_dt dt then VBool (forallb nz zs) else VNum (DZ m) end.
Proof. destruct zs as [|x rest]; [reflexivity|]. rewrite omin_fold. reflexivity. Qed.
Lemma red_val_max dt zs :
  red_val RMax dt zs =
  match omax zs with None => VNone | Some m => if is_bool_dt dt then VBool (existsb nz zs) else VNum (DZ m) end.
Proof. destruct zs as [|x rest]; [reflexivity|]. rewrite omax_fold. reflexivity. Qed.

Theorem red_val_perm_lemma r dt a b :
  is_arg r = false -> Permutation a b -> red_val r dt a = red_val r dt b.
Proof.
  intros Hr Hp. destruct r; try discriminate Hr.
  - cbn [red_val]. unfold zlen. rewrite (Permutation_length Hp). reflexivity.
  - cbn [red_val]. rewrite (zlen_filter_perm nz a b Hp). reflexivity.
  - cbn [red_val]. rewrite (sum_perm a b Hp). reflexivity.
  - cbn [red_val]. rewrite (prod_perm a b Hp). reflexivity.
  - cbn [red_val]. rewrite (existsb_perm nz a b Hp). reflexivity.
  - cbn [red_val]. rewrite (forallb_perm nz a b Hp). reflexivity.
  - rewrite !red_val_min, (omin_perm a b Hp), (forallb_perm nz a b Hp). reflexivity.
  - rewrite !red_val_max, (omax_perm a b Hp), (existsb_perm nz a b Hp). reflexivity.
Qed.

(* ---------------------------------------------------------------- reducers, axis=None, records allowed *)
Lemma spec_reduce_none_ints_rec r t dt vs zs :
  single_dt (leaf_dts t) = Some dt -> is_arg r = false -> leaf_ints t vs = Ok zs ->
  spec_reduce_none r t vs = reduce_leaves r dt zs.
Proof.
  intros Hd Hr H. unfold spec_reduce_none, leaf_ints in *. rewrite Hd.
  destruct (leaves_l t vs) as [ls|]; cbn [bind] in *; [|discriminate]. rewrite H. cbn [bind].
  destruct r; try discriminate Hr; reflexivity.
Qed.

Lemma spec_reduce_none_ok_ints_rec r t dt vs v :
  single_dt (leaf_dts t) = Some dt -> is_arg r = false ->
  spec_reduce_none r t vs = Ok v -> exists zs, leaf_ints t vs = Ok zs /\ reduce_leaves r dt zs = Ok v.
Proof.
  intros Hd Hr H. unfold spec_reduce_none, leaf_ints in *. rewrite Hd in H.
  destruct (leaves_l t vs) as [ls|]; cbn [bind] in *; [|discriminate].
  destruct (mapM leaf_int ls) as [zs|]; cbn [bind] in *; [|discriminate].
  exists zs. split; [reflexivity|]. destruct r; try discriminate Hr; exact H.
Qed.

Lemma parts_results_rec r t dt parts vs :
  single_dt (leaf_dts t) = Some dt -> is_arg r = false ->
  mapM (spec_reduce_none r t) parts = Ok vs ->
  exists zss, mapM (leaf_ints t) parts = Ok zss /\ vs = map (red_val r dt) zss.
Proof.
  intros Hd Hr. revert vs. induction parts as [|p rest IH]; intros vs H.
  - cbn in H. injection H as <-. exists []. split; reflexivity.
  - cbn [mapM] in H. apply bind_Ok in H. destruct H as (v & Ep & H).
    apply bind_Ok in H. destruct H as (vr & Er & H). injection H as <-.
    destruct (IH vr Er) as (zr & Hzr & ->).
    destruct (spec_reduce_none_ok_ints_rec r t dt p v Hd Hr Ep) as (zs & Hzs & Hv).
    exists (zs :: zr). split.
    + cbn [mapM]. rewrite Hzs, Hzr. reflexivity.
    + cbn [map]. f_equal. rewrite reduce_leaves_val in Hv.
      destruct (float_unspec r dt zs); [discriminate|]. rewrite Hr in Hv. congruence.
Qed.

(* if every partition has a result and the whole has one, the whole is the reducer's combination of the parts *)
Theorem reduce_none_parts_records_lemma r t dt parts vs v :
  single_dt (leaf_dts t) = Some dt -> has_union t = false -> is_arg r = false ->
  mapM (spec_reduce_none r t) parts = Ok vs ->
  spec_reduce_none r t (concat parts) = Ok v ->
  v = fold_right (red_comb r dt) (red_val r dt []) vs.
Proof.
  intros Hd Hu Hr Hvs Hv.
  destruct (parts_results_rec r t dt parts vs Hd Hr Hvs) as (zss & Hz & ->).
  destruct (leaf_ints_perm t parts zss Hu Hz) as (c & Hc & Hp).
  rewrite (spec_reduce_none_ints_rec r t dt _ c Hd Hr Hc) in Hv.
  rewrite reduce_leaves_val in Hv. destruct (float_unspec r dt c); [discriminate|].
  rewrite Hr in Hv. injection Hv as <-.
  rewrite (red_val_perm_lemma r dt c (concat zss) Hr Hp). apply red_val_parts_lemma, Hr.
Qed.

(* integer / Boolean leaves: the whole HAS that result *)
Theorem reduce_none_parts_records_exact_lemma r t dt parts vs :
  single_dt (leaf_dts t) = Some dt -> has_union t = false -> is_arg r = false -> is_float dt = false ->
  mapM (spec_reduce_none r t) parts = Ok vs ->
  spec_reduce_none r t (concat parts) = Ok (fold_right (red_comb r dt) (red_val r dt []) vs).
Proof.
  intros Hd Hu Hr Hf Hvs.
  destruct (parts_results_rec r t dt parts vs Hd Hr Hvs) as (zss & Hz & ->).
  destruct (leaf_ints_perm t parts zss Hu Hz) as (c & Hc & Hp).
  rewrite (spec_reduce_none_ints_rec r t dt _ c Hd Hr Hc).
  rewrite reduce_leaves_val. unfold float_unspec. rewrite Hf. cbn [andb]. rewrite Hr.
  rewrite (red_val_perm_lemma r dt c (concat zss) Hr Hp). rewrite red_val_parts_lemma by exact Hr. reflexivity.
Qed.
