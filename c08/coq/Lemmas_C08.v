(** Generic lemmas (error monad, checked access, lists) used by the C08 proofs. *)
From Coq Require Import ZArith List Bool Lia ZifyBool.
From AwkV Require Import Base Layout LayoutInd Valid Types Carry.
Import ListNotations.
Open Scope Z_scope.

Lemma bind_ok {A B} (r : res A) (f : A -> res B) b :
  bind r f = Ok b -> exists a, r = Ok a /\ f a = Ok b.
Proof. destruct r; cbn; intros H; [eauto | discriminate]. Qed.

Lemma rmap_ok {A B} (f : A -> B) (r : res A) b :
  rmap f r = Ok b -> exists a, r = Ok a /\ b = f a.
Proof. destruct r; cbn; intros H; [inversion H; eauto | discriminate]. Qed.

Lemma zlen_app {A} (l m : list A) : zlen (l ++ m) = zlen l + zlen m.
Proof. unfold zlen. rewrite app_length. lia. Qed.
Lemma zlen_nonneg {A} (l : list A) : 0 <= zlen l.
Proof. unfold zlen. lia. Qed.
Lemma zlen_map {A B} (f : A -> B) l : zlen (map f l) = zlen l.
Proof. unfold zlen. now rewrite map_length. Qed.
Lemma zlen_cons {A} (x : A) l : zlen (x :: l) = 1 + zlen l.
Proof. unfold zlen. cbn [length]. lia. Qed.
Lemma zlen_nil {A} : zlen (@nil A) = 0.
Proof. reflexivity. Qed.

(* ---- mapM ---- *)
Lemma mapM_length {A B} (f : A -> res B) l ys : mapM f l = Ok ys -> length ys = length l.
Proof.
  revert ys. induction l as [|x xs IH]; cbn; intros ys H.
  - inversion H. reflexivity.
  - destruct (f x); cbn in H; [|discriminate].
    destruct (mapM f xs); cbn in H; [|discriminate].
    inversion H; subst. cbn. f_equal. apply IH. reflexivity.
Qed.
Lemma mapM_zlen {A B} (f : A -> res B) l ys : mapM f l = Ok ys -> zlen ys = zlen l.
Proof. intros H. unfold zlen. now rewrite (mapM_length _ _ _ H). Qed.

Lemma mapM_app {A B} (f : A -> res B) l m :
  mapM f (l ++ m) = do a <- mapM f l; do b <- mapM f m; Ok (a ++ b).
Proof.
  induction l as [|x xs IH]; cbn.
  - destruct (mapM f m); reflexivity.
  - destruct (f x); cbn; [|reflexivity]. rewrite IH.
    destruct (mapM f xs); cbn; [|reflexivity].
    destruct (mapM f m); reflexivity.
Qed.

Lemma mapM_ext {A B} (f g : A -> res B) l :
  (forall x, In x l -> f x = g x) -> mapM f l = mapM g l.
Proof.
  induction l as [|x xs IH]; cbn; intros H; [reflexivity|].
  rewrite (H x) by auto. rewrite IH by auto. reflexivity.
Qed.

Lemma mapM_map {A B C} (f : B -> res C) (g : A -> B) l : mapM f (map g l) = mapM (fun x => f (g x)) l.
Proof. induction l as [|x xs IH]; cbn; [reflexivity|]. now rewrite IH. Qed.

Lemma mapM_Ok {A B} (f : A -> B) l : mapM (fun x => Ok (f x)) l = Ok (map f l).
Proof. induction l as [|x xs IH]; cbn; [reflexivity|]. now rewrite IH. Qed.

Lemma mapM_ok_Forall2 {A B} (f : A -> res B) l ys :
  mapM f l = Ok ys -> Forall2 (fun x y => f x = Ok y) l ys.
Proof.
  revert ys. induction l as [|x xs IH]; cbn; intros ys H.
  - inversion H. constructor.
  - destruct (f x) eqn:E; cbn in H; [|discriminate].
    destruct (mapM f xs); cbn in H; [|discriminate].
    inversion H; subst. constructor; auto.
Qed.
Lemma Forall2_mapM {A B} (f : A -> res B) l ys :
  Forall2 (fun x y => f x = Ok y) l ys -> mapM f l = Ok ys.
Proof. induction 1; cbn; [reflexivity|]. rewrite H, IHForall2. reflexivity. Qed.

(* ---- get ---- *)
Lemma get_ok {A} (l : list A) i x : get l i = Ok x -> 0 <= i < zlen l /\ nth_error l (Z.to_nat i) = Some x.
Proof.
  unfold get. destruct (i <? 0) eqn:E; [discriminate|].
  destruct (nth_error l (Z.to_nat i)) eqn:N; [|discriminate].
  intros H; inversion H; subst. split; auto.
  assert (Hn : (Z.to_nat i < length l)%nat) by (apply nth_error_Some; congruence).
  unfold zlen. lia.
Qed.
Lemma get_nth {A} (l : list A) i x : 0 <= i -> nth_error l (Z.to_nat i) = Some x -> get l i = Ok x.
Proof. intros Hi N. unfold get. destruct (i <? 0) eqn:E; [lia|]. now rewrite N. Qed.
Lemma get_in_range {A} (l : list A) i : 0 <= i < zlen l -> exists x, get l i = Ok x.
Proof.
  intros H. unfold get. destruct (i <? 0) eqn:E; [lia|].
  destruct (nth_error l (Z.to_nat i)) eqn:N; [eauto|].
  apply nth_error_None in N. unfold zlen in H. lia.
Qed.
Lemma get_app_l {A} (l m : list A) i x : get l i = Ok x -> get (l ++ m) i = Ok x.
Proof.
  intros H. destruct (get_ok _ _ _ H) as [Hr N]. apply get_nth; [lia|].
  rewrite nth_error_app1; auto. unfold zlen in Hr. lia.
Qed.
Lemma get_app_r {A} (l m : list A) i x : 0 <= i -> get m i = Ok x -> get (l ++ m) (i + zlen l) = Ok x.
Proof.
  intros Hi H. destruct (get_ok _ _ _ H) as [Hr N]. apply get_nth; [pose proof (zlen_nonneg l); lia|].
  rewrite nth_error_app2 by (unfold zlen; lia).
  replace (Z.to_nat (i + zlen l) - length l)%nat with (Z.to_nat i) by (unfold zlen; lia). exact N.
Qed.
Lemma get_map {A B} (f : A -> B) l i x : get l i = Ok x -> get (map f l) i = Ok (f x).
Proof.
  intros H. destruct (get_ok _ _ _ H) as [Hr N]. apply get_nth; [lia|].
  rewrite nth_error_map, N. reflexivity.
Qed.
Lemma nth_mapM {A B} (f : A -> res B) l ys n x :
  mapM f l = Ok ys -> nth_error l n = Some x -> exists y, f x = Ok y /\ nth_error ys n = Some y.
Proof.
  intros HM. apply mapM_ok_Forall2 in HM. revert n.
  induction HM; intros [|n] N; cbn in N; try discriminate.
  - inversion N; subst. eexists; split; eauto.
  - apply IHHM in N. exact N.
Qed.
Lemma get_mapM {A B} (f : A -> res B) l ys i x :
  mapM f l = Ok ys -> get l i = Ok x -> exists y, f x = Ok y /\ get ys i = Ok y.
Proof.
  intros HM HG. destruct (get_ok _ _ _ HG) as [Hr N].
  destruct (nth_mapM _ _ _ _ _ HM N) as (y & Hy & Ny).
  exists y. split; auto. apply get_nth; [lia|exact Ny].
Qed.

(* ---- take / drop / slice ---- *)
Lemma take_app_exact {A} (l m : list A) : take (zlen l) (l ++ m) = l.
Proof.
  unfold take, zlen. rewrite Nat2Z.id. rewrite firstn_app, Nat.sub_diag, firstn_all. cbn. apply app_nil_r.
Qed.
Lemma take_all {A} (l : list A) n : zlen l <= n -> take n l = l.
Proof. intros H. unfold take. apply firstn_all2. unfold zlen in H. lia. Qed.
Lemma zlen_take {A} (l : list A) n : 0 <= n <= zlen l -> zlen (take n l) = n.
Proof. intros H. unfold take, zlen in *. rewrite firstn_length. lia. Qed.
Lemma zlen_drop {A} (l : list A) n : 0 <= n <= zlen l -> zlen (drop n l) = zlen l - n.
Proof. intros H. unfold drop, zlen in *. rewrite skipn_length. lia. Qed.
Lemma take_map {A B} (f : A -> B) n l : take n (map f l) = map f (take n l).
Proof. unfold take. apply firstn_map. Qed.
Lemma drop_map {A B} (f : A -> B) n l : drop n (map f l) = map f (drop n l).
Proof. unfold drop. apply skipn_map. Qed.

Lemma slice_ok {A} (l : list A) a b r : slice l a b = Ok r -> 0 <= a <= b /\ b <= zlen l /\ r = take (b - a) (drop a l).
Proof.
  unfold slice. destruct ((0 <=? a) && (a <=? b) && (b <=? zlen l)) eqn:E; [|discriminate].
  intros H; inversion H; subst. repeat split; lia.
Qed.
Lemma slice_in {A} (l : list A) a b : 0 <= a <= b -> b <= zlen l -> slice l a b = Ok (take (b - a) (drop a l)).
Proof.
  intros H1 H2. unfold slice. destruct ((0 <=? a) && (a <=? b) && (b <=? zlen l)) eqn:E; [reflexivity|lia].
Qed.
Lemma slice_zlen {A} (l : list A) a b r : slice l a b = Ok r -> zlen r = b - a.
Proof.
  intros H. apply slice_ok in H. destruct H as (H1 & H2 & ->).
  rewrite zlen_take; [lia|]. rewrite zlen_drop; lia.
Qed.
Lemma slice_map {A B} (f : A -> B) l a b r : slice l a b = Ok r -> slice (map f l) a b = Ok (map f r).
Proof.
  intros H. apply slice_ok in H. destruct H as (H1 & H2 & ->).
  rewrite slice_in; [|lia|rewrite zlen_map; lia]. now rewrite drop_map, take_map.
Qed.
Lemma drop_app_exact {A} (l m : list A) : drop (zlen l) (l ++ m) = m.
Proof.
  unfold drop, zlen. rewrite Nat2Z.id. rewrite skipn_app, Nat.sub_diag, skipn_all. reflexivity.
Qed.
Lemma drop_app_ge {A} (l m : list A) n : zlen l <= n -> drop n (l ++ m) = drop (n - zlen l) m.
Proof.
  intros H. unfold drop, zlen in *. rewrite skipn_app.
  rewrite (skipn_all2 l) by lia. cbn. f_equal. lia.
Qed.
Lemma take_app_le {A} (l m : list A) n : n <= zlen l -> take n (l ++ m) = take n l.
Proof.
  intros H. unfold take, zlen in *. rewrite firstn_app.
  replace (Z.to_nat n - length l)%nat with O by lia. cbn. apply app_nil_r.
Qed.
Lemma drop_app_le {A} (l m : list A) n : 0 <= n <= zlen l -> drop n (l ++ m) = drop n l ++ m.
Proof.
  intros H. unfold drop, zlen in *. rewrite skipn_app.
  replace (Z.to_nat n - length l)%nat with O by lia. reflexivity.
Qed.
(* a slice inside the left / right part of an append *)
Lemma slice_app_l {A} (l m : list A) a b r : slice l a b = Ok r -> slice (l ++ m) a b = Ok r.
Proof.
  intros H. apply slice_ok in H. destruct H as (H1 & H2 & ->).
  rewrite slice_in; [|lia|rewrite zlen_app; pose proof (zlen_nonneg m); lia].
  rewrite drop_app_le by lia. rewrite take_app_le; [reflexivity|]. rewrite zlen_drop; lia.
Qed.
Lemma slice_app_r {A} (l m : list A) a b r :
  slice m a b = Ok r -> slice (l ++ m) (a + zlen l) (b + zlen l) = Ok r.
Proof.
  intros H. apply slice_ok in H. destruct H as (H1 & H2 & ->).
  pose proof (zlen_nonneg l).
  rewrite slice_in; [|lia|rewrite zlen_app; lia].
  rewrite drop_app_ge by lia. f_equal. f_equal; [lia|]. f_equal. lia.
Qed.

(* ---- iota ---- *)
Lemma iota_nat_length s n : length (iota_nat s n) = n.
Proof. revert s. induction n; cbn; intros; [reflexivity|]. now rewrite IHn. Qed.
Lemma zlen_iota n : 0 <= n -> zlen (iota n) = n.
Proof. intros H. unfold zlen, iota. rewrite iota_nat_length. lia. Qed.
Lemma iota_nat_In s n x : In x (iota_nat s n) <-> s <= x < s + Z.of_nat n.
Proof.
  revert s. induction n; cbn [iota_nat In]; intros s.
  - lia.
  - rewrite IHn. lia.
Qed.
Lemma iota_In n x : In x (iota n) <-> 0 <= x < n.
Proof. unfold iota. rewrite iota_nat_In. lia. Qed.
Lemma iota_nat_nth s n k : (k < n)%nat -> nth_error (iota_nat s n) k = Some (s + Z.of_nat k).
Proof.
  revert s k. induction n; intros s [|k] H; cbn; try lia.
  - f_equal. lia.
  - rewrite IHn by lia. f_equal. lia.
Qed.
Lemma get_iota n i : 0 <= i < n -> get (iota n) i = Ok i.
Proof.
  intros H. apply get_nth; [lia|]. unfold iota. rewrite iota_nat_nth by lia. f_equal. lia.
Qed.
Lemma iota_nat_app s n m : iota_nat s (n + m) = iota_nat s n ++ iota_nat (s + Z.of_nat n) m.
Proof.
  revert s. induction n; intros s; cbn [iota_nat plus app].
  - f_equal. lia.
  - rewrite IHn. do 3 f_equal. lia.
Qed.
Lemma iota_nat_shift s d n : iota_nat (s + d) n = map (fun i => i + d) (iota_nat s n).
Proof.
  revert s. induction n; intros s; cbn; [reflexivity|]. f_equal.
  replace (s + d + 1) with (s + 1 + d) by lia. apply IHn.
Qed.

(* ---- zip ---- *)
Lemma zip_app {A B} (l1 l2 : list A) (m1 m2 : list B) :
  length l1 = length m1 -> zip (l1 ++ l2) (m1 ++ m2) = zip l1 m1 ++ zip l2 m2.
Proof.
  revert m1. induction l1 as [|x xs IH]; destruct m1 as [|y ys]; cbn; intros H; try discriminate; auto.
  f_equal. apply IH. lia.
Qed.
Lemma zip_map_l {A B C} (f : A -> B) (l : list A) (m : list C) :
  zip (map f l) m = map (fun p : A * C => (f (fst p), snd p)) (zip l m).
Proof. revert m. induction l; destruct m; cbn; auto. now rewrite IHl. Qed.
Lemma zip_map_r {A B C} (f : B -> C) (l : list A) (m : list B) :
  zip l (map f m) = map (fun p : A * B => (fst p, f (snd p))) (zip l m).
Proof. revert m. induction l; destruct m; cbn; auto. now rewrite IHl. Qed.
Lemma zip_same {A} (l : list A) : zip l l = map (fun x => (x, x)) l.
Proof. induction l; cbn; auto. now rewrite IHl. Qed.

Lemma mapM_get_iota_gen {A} (pre l : list A) :
  mapM (get (pre ++ l)) (iota_nat (zlen pre) (length l)) = Ok l.
Proof.
  revert pre. induction l as [|x xs IH]; intros pre; cbn; [reflexivity|].
  assert (E : get (pre ++ x :: xs) (zlen pre) = Ok x).
  { apply get_nth; [apply zlen_nonneg|]. unfold zlen. rewrite Nat2Z.id.
    rewrite nth_error_app2 by lia. now rewrite Nat.sub_diag. }
  rewrite E. cbn.
  specialize (IH (pre ++ [x])). rewrite <- app_assoc in IH. cbn in IH.
  rewrite zlen_app in IH. change (zlen [x]) with 1 in IH. rewrite IH. reflexivity.
Qed.
Lemma mapM_get_iota {A} (l : list A) : mapM (get l) (iota (zlen l)) = Ok l.
Proof.
  pose proof (mapM_get_iota_gen [] l) as H. cbn in H. unfold iota, zlen. now rewrite Nat2Z.id.
Qed.

(* ---- pointwise reasoning ---- *)
Lemma get_zip {A B} (l : list A) (m : list B) p a b :
  get l p = Ok a -> get m p = Ok b -> get (zip l m) p = Ok (a, b).
Proof.
  intros Ha Hb. destruct (get_ok _ _ _ Ha) as [Hr Na]. destruct (get_ok _ _ _ Hb) as [_ Nb].
  apply get_nth; [lia|]. revert Na Nb. generalize (Z.to_nat p). clear.
  revert m. induction l as [|x xs IH]; intros m n Na Nb; destruct n; destruct m; cbn in *; try discriminate.
  - inversion Na; inversion Nb; reflexivity.
  - eapply IH; eauto.
Qed.
Lemma get_zip_inv {A B} (l : list A) (m : list B) p a b :
  get (zip l m) p = Ok (a, b) -> get l p = Ok a /\ get m p = Ok b.
Proof.
  intros H. destruct (get_ok _ _ _ H) as [Hr N].
  assert (nth_error l (Z.to_nat p) = Some a /\ nth_error m (Z.to_nat p) = Some b) as [Na Nb].
  { revert N. generalize (Z.to_nat p). clear. revert m.
    induction l as [|x xs IH]; intros m n N; destruct m; destruct n; cbn in *; try discriminate.
    - inversion N; auto.
    - eapply IH; eauto. }
  split; apply get_nth; auto; lia.
Qed.
Lemma zlen_zip_ge {A B} (l : list A) (m : list B) : zlen l <= zlen m -> zlen (zip l m) = zlen l.
Proof.
  unfold zlen. revert m. induction l; destruct m; cbn; intros; try lia.
  specialize (IHl m). lia.
Qed.

Lemma mapM_pointwise {A B} (f : A -> res B) l ys :
  zlen l = zlen ys ->
  (forall p x, get l p = Ok x -> exists y, get ys p = Ok y /\ f x = Ok y) ->
  mapM f l = Ok ys.
Proof.
  revert ys. induction l as [|x xs IH]; intros ys HL HP.
  - destruct ys; [reflexivity|]. rewrite zlen_cons, zlen_nil in HL. pose proof (zlen_nonneg ys). lia.
  - destruct ys as [|y ys']; [rewrite zlen_cons, zlen_nil in HL; pose proof (zlen_nonneg xs); lia|].
    cbn [mapM]. destruct (HP 0 x eq_refl) as (y0 & Hy0 & Hf). cbn in Hy0. inversion Hy0; subst y0.
    rewrite Hf. cbn [bind]. rewrite (IH ys'); [reflexivity| |].
    + rewrite !zlen_cons in HL. lia.
    + intros p x' Hx'. destruct (get_ok _ _ _ Hx') as [Hr N].
      destruct (HP (p + 1) x') as (y' & Hy' & Hf').
      { apply get_nth; [lia|]. replace (Z.to_nat (p + 1)) with (S (Z.to_nat p)) by lia. exact N. }
      exists y'. split; auto. destruct (get_ok _ _ _ Hy') as [Hr' N'].
      apply get_nth; [lia|]. replace (Z.to_nat (p + 1)) with (S (Z.to_nat p)) in N' by lia. exact N'.
Qed.

Lemma get_snoc {A} (l : list A) x : get (l ++ [x]) (zlen l) = Ok x.
Proof.
  apply get_nth; [apply zlen_nonneg|]. unfold zlen. rewrite Nat2Z.id, nth_error_app2 by lia.
  now rewrite Nat.sub_diag.
Qed.
Lemma get_lt {A} (l : list A) i x : get l i = Ok x -> 0 <= i < zlen l.
Proof. intros H. apply get_ok in H. tauto. Qed.
