(** C14 — records and tuples: begin_list / begin_tuple / begin_record on an inactive node (through OptionBuilder and
    UnionBuilder layers, creating them when needed), and what the matching end does to those layers. *)
From Coq Require Import ZArith List Bool Lia.
From AwkV Require Import Base Layout.
From AwkBuilder Require Import Builder Spec GbLemmas Invariant StepLemmas AtomStep Push OpenClose RecInv RecRep RecFwd RecAtom.
Import ListNotations.
Open Scope Z_scope.

(* the node after its own begin *)
Definition opened (b : builder) : builder :=
  match b with
  | BList offs c _ => BList offs c true
  | BTuple cs len _ _ => BTuple cs len true (-1)
  | BRecord cs keys rn nullp len _ _ _ => BRecord cs keys rn nullp len true (-1) 0
  | _ => b
  end.

Definition bckind (c : cmd) : option skind :=
  match c with
  | CBeginList => Some SL
  | CBeginTuple n => Some (ST (Z.to_nat n))
  | CBeginRecord nm => Some (SR nm)
  | _ => None
  end.

(* the begin commands of the fragment: non-negative arity *)
Definition bcok (c : cmd) : Prop :=
  match c with
  | CBeginList => True
  | CBeginTuple n => 0 <= n
  | CBeginRecord nm => True
  | _ => False
  end.

Lemma bcok_vstart c : bcok c -> vstart c.
Proof. destruct c; cbn; auto. Qed.
Lemma bcok_kind c : bcok c -> kind_of c = KBegin.
Proof. destruct c; cbn; tauto. Qed.

Lemma rep_unknown0 : rep (BUnknown 0) [].
Proof. cbn [rep]. split; [cbn; lia|split; reflexivity]. Qed.

Lemma tcols_fresh n : forall j, tcols [] (repeat (BUnknown 0) n) j.
Proof. induction n as [|n IH]; intro j; cbn [repeat tcols]; [exact I|]. split; [apply rep_unknown0|apply IH]. Qed.

Lemma find_app_none {A B} (f : A -> B) p l : forall i0, find_app f p l i0 = None -> forallb (fun x => negb (p x)) l = true.
Proof.
  induction l as [|a t IH]; intros i0 H; [reflexivity|]. cbn in H. cbn [forallb].
  destruct (p a); [discriminate|]. cbn. eauto.
Qed.

Section WithOpts.
Variable o : opts.
Hypothesis Ho : good_opts o.

(* ------------------------------------------------------------------ fresh nodes *)
Lemma xfresh_begin bc :
  bcok bc ->
  exists Nc, fresh_after o bc = Ok (opened Nc) /\ rep Nc [] /\ bkind Nc = bckind bc /\ altok Nc = true.
Proof.
  intro B. destruct bc; cbn [bcok] in B; try contradiction.
  - destruct (fresh_list o Ho) as (offs & E & W & L & N).
    exists (BList offs (BUnknown 0) false). rewrite E. refine (conj eq_refl (conj _ (conj eq_refl eq_refl))).
    cbn [rep]. refine (conj eq_refl (conj W _)). exists []. rewrite L. split; [constructor|apply rep_unknown0].
  - exists (BTuple (repeat (BUnknown 0) (Z.to_nat n)) 0 false (-1)). unfold fresh_after. rewrite (neg_ltb n B).
    refine (conj eq_refl (conj _ (conj _ eq_refl))).
    + apply rep_tuple. refine (conj eq_refl (conj eq_refl (conj eq_refl _))). apply tcols_fresh.
    + cbn [bkind bckind]. now rewrite repeat_length.
  - exists (BRecord [] [] (match nm with Some s => s | None => [] end)
                    (match nm with Some _ => false | None => true end) 0 false (-1) 0).
    refine (conj eq_refl (conj _ (conj _ eq_refl))).
    + apply rep_record. exact (conj eq_refl (conj eq_refl (conj eq_refl (conj eq_refl I)))).
    + cbn [bkind bckind]. destruct nm; reflexivity.
Qed.

(* ------------------------------------------------------------------ a closed node that takes / does not take the begin *)
Lemma name_same rn nullp nm :
  (match nm with Some s => negb nullp && name_eqb rn s | None => nullp end) = true <-> rname rn nullp = nm.
Proof.
  unfold rname. destruct nm as [s|], nullp; cbn [negb andb]; split; intro H; try discriminate; auto.
  - apply name_eqb_eq in H. now subst.
  - inversion H. apply name_eqb_refl.
Qed.

Lemma takes_kind x ws bc :
  rep x ws -> bcok bc -> altok x = true -> (takes bc x = true <-> bkind x = bckind bc).
Proof.
  intros R B T.
  destruct x as [n0|g|g|g|e a0 b0|idx0 ct|offs ct bg|cs keys rn nullp len bg ni ntt|cs len bg ni|tags idx0 cs cur]; try discriminate T; destruct bc; cbn [bcok] in B; try contradiction; cbn [takes bkind bckind];
    try (split; intro H; discriminate H); try tauto.
  - apply rep_record in R. destruct R as (_ & -> & _).
    rewrite (nonneg_neq_m1 _ (zlen_nonneg ws)). cbn [orb].
    rewrite (name_same rn nullp nm). split; [now intros ->|now intros [=]].
  - apply rep_tuple in R. destruct R as (_ & -> & _).
    rewrite (nonneg_neq_m1 _ (zlen_nonneg ws)). cbn [orb]. unfold zlen. split.
    + intro H. apply Z.eqb_eq in H. do 2 f_equal. lia.
    + intros [=H]. apply Z.eqb_eq. lia.
Qed.

Lemma open_taken x ws bc :
  rep x ws -> bcok bc -> altok x = true -> bkind x = bckind bc -> step o x bc = SOk (opened x) None.
Proof.
  intros R B T K. pose proof (proj2 (takes_kind x ws bc R B T) K) as Tk.
  destruct x as [n0|g|g|g|e a0 b0|idx0 ct|offs ct bg|cs keys rn nullp len bg ni ntt|cs len bg ni|tags idx0 cs cur]; try discriminate T; destruct bc; cbn [bcok] in B; try contradiction; try discriminate K; try discriminate Tk.
  - destruct R as (-> & _). reflexivity.
  - apply rep_record in R. destruct R as (-> & -> & _).
    cbn [takes] in Tk. rewrite (nonneg_neq_m1 _ (zlen_nonneg ws)) in Tk. cbn [orb] in Tk.
    cbn [step]. rewrite (nonneg_neq_m1 _ (zlen_nonneg ws)). cbv iota beta. rewrite Tk. reflexivity.
  - apply rep_tuple in R. destruct R as (-> & -> & _).
    cbn [takes] in Tk. rewrite (nonneg_neq_m1 _ (zlen_nonneg ws)) in Tk. cbn [orb] in Tk.
    cbn [step]. rewrite (neg_ltb n B), (nonneg_neq_m1 _ (zlen_nonneg ws)). cbv iota beta.
    rewrite Z.eqb_sym, Tk. reflexivity.
Qed.

Lemma open_untaken x ws bc :
  rep x ws -> bcok bc -> altok x = true -> bkind x <> bckind bc -> step o x bc = union_wrap o x bc.
Proof.
  intros R B T K.
  assert (takes bc x = false) as Tk.
  { destruct (takes bc x) eqn:E; [|reflexivity]. apply (takes_kind x ws bc R B T) in E. contradiction. }
  destruct x as [n0|g|g|g|e a0 b0|idx0 ct|offs ct bg|cs keys rn nullp len bg ni ntt|cs len bg ni|tags idx0 cs cur]; try discriminate T.
  - destruct bc; cbn [bcok] in B; try contradiction; reflexivity.
  - destruct bc; cbn [bcok] in B; try contradiction; reflexivity.
  - destruct bc; cbn [bcok] in B; try contradiction; reflexivity.
  - destruct bc; cbn [bcok] in B; try contradiction; reflexivity.
  - destruct R as (-> & _). destruct bc; cbn [bcok] in B; try contradiction; try reflexivity.
  - apply rep_record in R. destruct R as (-> & -> & _).
    destruct bc; cbn [bcok] in B; try contradiction; try reflexivity.
    cbn [takes] in Tk. rewrite (nonneg_neq_m1 _ (zlen_nonneg ws)) in Tk. cbn [orb] in Tk.
    cbn [step]. rewrite (nonneg_neq_m1 _ (zlen_nonneg ws)). cbv iota beta. rewrite Tk. reflexivity.
  - apply rep_tuple in R. destruct R as (-> & -> & _).
    destruct bc; cbn [bcok] in B; try contradiction; try reflexivity.
    cbn [takes] in Tk. rewrite (nonneg_neq_m1 _ (zlen_nonneg ws)) in Tk. cbn [orb] in Tk.
    cbn [step]. rewrite (neg_ltb n B), (nonneg_neq_m1 _ (zlen_nonneg ws)). cbv iota beta.
    rewrite Z.eqb_sym, Tk. reflexivity.
Qed.

(* ------------------------------------------------------------------ what the end does to the layers above *)
Lemma close_opt idx ix ws vs X endc ct' r' v :
  gbwf idx -> gb_list idx = ix -> OptH ix ws vs ->
  active X = true -> blen X = zlen ws -> kind_of endc = KEnd ->
  step o X endc = SOk ct' r' -> rep ct' (ws ++ [v]) -> nonnone v = true ->
  exists u, step o (BOption idx X) endc = SOk u None /\ rep u (vs ++ [v]).
Proof.
  intros W L H AX BX Ke E R N.
  cbn [step]. rewrite AX. cbn [negb]. rewrite Ke, E.
  rewrite (rep_len _ _ R), zlen_snoc, BX.
  replace (zlen ws + 1 =? zlen ws) with false by (symmetry; apply Z.eqb_neq; lia).
  destruct (gb_append_ok o idx (zlen ws) Ho W) as (i' & Ei & Wi' & Li & _). rewrite Ei. cbn [withgb].
  eexists; split; [reflexivity|]. cbn [rep]. split; [exact Wi'|]. exists (ws ++ [v]). split; [|exact R].
  rewrite Li, L. now constructor.
Qed.

Lemma close_uni tags idx pre post hpre hpost ws vs X endc x' r' v :
  gbwf tags -> gbwf idx -> UniH (gb_list tags) (gb_list idx) (hpre ++ ws :: hpost) vs ->
  length hpre = length pre -> ualts pre hpre -> ualts post hpost -> alts_ok (pre ++ x' :: post) ->
  active X = true -> blen X = zlen ws -> kind_of endc = KEnd ->
  step o X endc = SOk x' r' -> rep x' (ws ++ [v]) ->
  exists u, step o (BUnion tags idx (pre ++ X :: post) (zlen pre)) endc = SOk u None /\ rep u (vs ++ [v]).
Proof.
  intros Wt Wi U L A1 A2 AO AX BX Ke E R.
  cbn [step]. rewrite zlen_neq_m1. cbn [negb].
  rewrite nth_z_app, to_nat_zlen, at_nth_app, E, upd_nth_app, Ke.
  rewrite (rep_len _ _ R), zlen_snoc, BX.
  replace (zlen ws + 1 =? zlen ws) with false by (symmetry; apply Z.eqb_neq; lia).
  destruct (gb_append_ok o tags (zlen pre) Ho Wt) as (t' & Et & Wt' & Lt & _). rewrite Et. cbn [withgb].
  destruct (gb_append_ok o idx (zlen ws) Ho Wi) as (i' & Ei & Wi' & Li & _). rewrite Ei. cbn [withgb].
  eexists; split; [reflexivity|]. apply rep_union.
  refine (conj eq_refl (conj Wt' (conj Wi' (conj AO _)))).
  exists (hpre ++ (ws ++ [v]) :: hpost). split.
  - rewrite Lt, Li. replace (zlen pre) with (zlen hpre) by (unfold zlen; now rewrite L). now apply UniH_snoc.
  - apply ualts_app; [exact A1|]. cbn [ualts]. auto.
Qed.

(* ------------------------------------------------------------------ opening *)
Definition closes (c : builder) (vs : list pyval) (K1 : list xframe) (Nc : builder) (h0 : list pyval) : Prop :=
  Forall fok K1 /\ rep Nc h0 /\ altok Nc = true /\
  (forall Nl, blen Nl = zlen h0 -> blen (xplug K1 Nl) = blen c) /\
  forall Nl Nf v endc,
    active Nl = true -> blen Nl = zlen h0 -> kind_of endc = KEnd ->
    step o Nl endc = SOk Nf None -> rep Nf (h0 ++ [v]) -> bkind Nf = bkind Nc -> altok Nf = true -> nonnone v = true ->
    exists c', step o (xplug K1 Nl) endc = SOk c' None /\ rep c' (vs ++ [v]).

(* UnionBuilder::fromsingle + begin *)
Lemma xunion_wrap_begin b vs bc :
  rep b vs -> altok b = true -> bcok bc -> bkind b <> bckind bc ->
  exists u K1 Nc h0,
    union_wrap o b bc = SOk b (Some u) /\ u = xplug K1 (opened Nc) /\ bkind Nc = bckind bc /\ closes b vs K1 Nc h0.
Proof.
  intros R T B K. unfold union_wrap. rewrite (rep_len b vs R). pose proof (zlen_nonneg vs) as Hb.
  destruct (gb_full_ok o 0 (zlen vs) Ho Hb) as (gt & Et & Wt & Lt & Nt & _). rewrite Et. cbn [withgb].
  destruct (gb_arange_ok o (zlen vs) Ho Hb) as (gi & Ei & Wi & Li & Ni & _). rewrite Ei. cbn [withgb].
  destruct (xfresh_begin bc B) as (Nc & Ef & Rn & Kn & Tn). rewrite Ef. cbn [withb]. rewrite (bcok_kind bc B).
  exists (BUnion gt gi [b; opened Nc] 1), [XUni gt gi [b] []], Nc, [].
  split; [reflexivity|split; [reflexivity|split; [exact Kn|]]].
  refine (conj _ (conj Rn (conj Tn (conj _ _)))).
  - constructor; [exact I|constructor].
  - intros Nl _. cbn [xplug blen]. rewrite Nt. symmetry. apply (rep_len b vs R).
  - intros Nl Nf v endc AX BX Ke E Rf Kf Tf Nv. cbn [xplug].
    pose proof (rep_union_single gt gi b vs R T Wt Wi Lt Li) as RU. apply rep_union in RU.
    destruct RU as (_ & _ & _ & _ & vss & U & AL).
    destruct vss as [|h [|? ?]]; cbn [ualts] in AL; try tauto. destruct AL as [Rb _].
    assert (UniH (gb_list gt) (gb_list gi) ([h] ++ [] :: []) vs) as U' by (apply (UniH_alt _ _ [h] vs U)).
    apply (close_uni gt gi [b] [] [h] [] [] vs Nl endc Nf None v Wt Wi U' eq_refl); auto.
    + cbn [ualts]. auto.
    + exact I.
    + split; [cbn [app forallb]; now rewrite T, Tf|].
      unfold skinds. cbn [app flat_map]. rewrite app_nil_r, Kf, Kn.
      destruct (bckind bc) as [k|] eqn:Ek; [|destruct bc; cbn in B; try contradiction; discriminate Ek].
      destruct (bkind b) as [kb|]; cbn [app]; [|repeat constructor; intros []].
      constructor; [|repeat constructor; intros []]. intros [H|[]]. apply K. now rewrite H.
Qed.

Lemma closes_here c vs : rep c vs -> altok c = true -> closes c vs [] c vs.
Proof.
  intros R T. refine (conj (Forall_nil _) (conj R (conj T (conj _ _)))).
  - intros Nl H. cbn [xplug]. rewrite H. symmetry. now apply rep_len.
  - intros Nl Nf v endc AX BX Ke E Rf _ _ _. cbn [xplug]. exists Nf. split; [exact E|exact Rf].
Qed.

Lemma xopen_alt c vs bc :
  rep c vs -> altok c = true -> bcok bc ->
  exists s r K1 Nc h0,
    step o c bc = SOk s r /\ pick s r = xplug K1 (opened Nc) /\ bkind Nc = bckind bc /\ closes c vs K1 Nc h0.
Proof.
  intros R T B. destruct (takes bc c) eqn:Tk.
  - apply (takes_kind c vs bc R B T) in Tk.
    exists (opened c), None, [], c, vs. split; [now apply (open_taken c vs)|].
    split; [reflexivity|split; [exact Tk|now apply closes_here]].
  - assert (bkind c <> bckind bc) as K.
    { intro E. apply (takes_kind c vs bc R B T) in E. congruence. }
    destruct (xunion_wrap_begin c vs bc R T B K) as (u & K1 & Nc & h0 & E & Eu & Kn & C).
    exists c, (Some u), K1, Nc, h0. rewrite (open_untaken c vs bc R B T K). auto.
Qed.

Lemma untaken_notin bc k cs : forall vss,
  ualts cs vss -> forallb altok cs = true -> bcok bc -> forallb (fun x => negb (takes bc x)) cs = true ->
  bckind bc = Some k -> ~ In k (skinds cs).
Proof.
  induction cs as [|c t IH]; intros [|h ht] A T B N Ek; cbn [ualts] in A; try contradiction; [intros []|].
  destruct A as [Rc A]. cbn [forallb] in T, N. apply andb_true_iff in T, N. destruct T as [T1 T2], N as [N1 N2].
  unfold skinds. cbn [flat_map]. fold (skinds t). rewrite in_app_iff. intros [H|H]; [|exact (IH ht A T2 B N2 Ek H)].
  destruct (bkind c) as [kc|] eqn:Ec; [|destruct H]. destruct H as [<-|[]].
  assert (takes bc c = true) as Tk by (apply (takes_kind c h bc Rc B T1); congruence).
  rewrite Tk in N1. discriminate.
Qed.

Lemma xopen_step c : forall vs bc,
  rep c vs -> bcok bc ->
  exists s r K1 Nc h0,
    step o c bc = SOk s r /\ pick s r = xplug K1 (opened Nc) /\ bkind Nc = bckind bc /\ closes c vs K1 Nc h0.
Proof.
  induction c as [n|g|g|g|e a0 b0|idx ct IH|offs ct bg _|cs keys rn nullp len bg ni ntt _|cs len bg ni _|tags idx cs cur _]
    using builder_ind'; intros vs bc R B; try (apply xopen_alt; auto; reflexivity).
  - (* Unknown *)
    destruct (rep_unknown n vs R) as [Hn ->].
    cbn [step]. rewrite (bcok_kind bc B). unfold unknown_start.
    destruct (xfresh_begin bc B) as (Nc & Ef & Rn & Kn & Tn). rewrite Ef. cbn [withb].
    destruct (n =? 0) eqn:E0.
    + apply Z.eqb_eq in E0. subst n. cbn [Z.to_nat repeat].
      exists (BUnknown 0), (Some (opened Nc)), [], Nc, []. split; [reflexivity|split; [reflexivity|split; [exact Kn|]]].
      refine (conj (Forall_nil _) (conj Rn (conj Tn (conj _ _)))).
      * intros Nl H. cbn [xplug blen]. exact H.
      * intros Nl Nf v endc AX BX Ke E Rf _ _ _. cbn [xplug]. exists Nf. split; [exact E|exact Rf].
    + destruct (gb_full_ok o (-1) n Ho Hn) as (g & E & Wg & Lg & Ng & _). rewrite E. cbn [withgb].
      rewrite (bcok_kind bc B).
      exists (BUnknown n), (Some (BOption g (opened Nc))), [XOpt g], Nc, [].
      split; [reflexivity|split; [reflexivity|split; [exact Kn|]]].
      refine (conj _ (conj Rn (conj Tn (conj _ _)))).
      * constructor; [exact I|constructor].
      * intros Nl _. cbn [xplug blen]. exact Ng.
      * intros Nl Nf v endc AX BX Ke Es Rf _ _ Nv. cbn [xplug].
        apply (close_opt g (fill (-1) n) [] (repeat PNone (Z.to_nat n)) Nl endc Nf None v Wg Lg (OptH_nulls n Hn) AX BX Ke Es Rf Nv).
  - (* Option *)
    pose proof R as (Wi & ws & H & Rc). pose proof (rep_inactive ct ws Rc) as Ac.
    destruct (IH ws bc Rc B) as (s & r & K1 & Nc & h0 & Es & Ep & Kn & (C1 & C2 & C3 & C4 & C5)).
    cbn [step]. rewrite Ac. cbn [negb]. rewrite (bcok_kind bc B), Es. cbn [mu].
    exists (BOption idx (pick s r)), None, (XOpt idx :: K1), Nc, h0.
    split; [reflexivity|split; [cbn [pick xplug]; now rewrite Ep|split; [exact Kn|]]].
    refine (conj _ (conj C2 (conj C3 (conj _ _)))).
    + constructor; [exact I|exact C1].
    + intros Nl _. reflexivity.
    + intros Nl Nf v endc AX BX Ke E Rf Kf Tf Nv. cbn [xplug].
      destruct (C5 Nl Nf v endc AX BX Ke E Rf Kf Tf Nv) as (ct' & Ec & Rc').
      apply (close_opt idx (gb_list idx) ws vs (xplug K1 Nl) endc ct' None v Wi eq_refl H); auto.
      * now apply xplug_active.
      * rewrite (C4 Nl BX). now apply rep_len.
  - (* Union *)
    apply rep_union in R. destruct R as (-> & Wt & Wi & AO & vss & U & AL). pose proof AO as [AT AN].
    cbn [step]. change (negb (-1 =? -1)) with false. cbv iota. rewrite (bcok_kind bc B).
    destruct (find_app (fun x => step o x bc) (takes bc) cs 0) as [[[i x] r]|] eqn:F.
    + apply find_app_spec in F. destruct F as (pre & post & -> & -> & Tk & ->).
      destruct (ualts_app_inv pre x post vss AL) as (hpre & ws & hpost & -> & L & A1 & Rx & A2).
      assert (altok x = true) as Tx.
      { rewrite forallb_app in AT. cbn [forallb] in AT. apply andb_true_iff in AT. destruct AT as [_ AT].
        apply andb_true_iff in AT. tauto. }
      pose proof (proj1 (takes_kind x ws bc Rx B Tx) Tk) as Kx.
      rewrite (open_taken x ws bc Rx B Tx Kx). cbn [Nat.add]. rewrite upd_nth_app.
      exists (BUnion tags idx (pre ++ opened x :: post) (Z.of_nat (length pre))), None, [XUni tags idx pre post], x, ws.
      split; [reflexivity|split; [reflexivity|split; [exact Kx|]]].
      refine (conj _ (conj Rx (conj Tx (conj _ _)))).
      * constructor; [exact I|constructor].
      * intros Nl _. reflexivity.
      * intros Nl Nf v endc AX BX Ke E Rf Kf Tf Nv. cbn [xplug].
        apply (close_uni tags idx pre post hpre hpost ws vs Nl endc Nf None v Wt Wi U L A1 A2); auto.
        apply (alts_ok_same pre x Nf post AO Kf Tf).
    + pose proof (find_app_none _ _ _ _ F) as NT.
      assert ((match bc with CReal _ => find_app (fun x => x) is_int cs 0 | _ => None end) = None) as Ec
        by (destruct bc; cbn in B; try contradiction; reflexivity).
      rewrite Ec.
      destruct (xfresh_begin bc B) as (Nc & Ef & Rn & Kn & Tn).
      assert (match bc with
              | CBeginTuple n =>
                  if n <? 0 then SErr EValue (BUnion tags idx (cs ++ [BTuple [] (-1) false (-1)]) (-1)) else
                  withb (fresh_after o bc) (BUnion tags idx cs (-1)) (fun nb =>
                    SOk (BUnion tags idx (cs ++ [nb]) (Z.of_nat (length cs))) None)
              | _ => withb (fresh_after o bc) (BUnion tags idx cs (-1)) (fun nb =>
                    SOk (BUnion tags idx (cs ++ [nb]) (Z.of_nat (length cs))) None)
              end = SOk (BUnion tags idx (cs ++ [opened Nc]) (Z.of_nat (length cs))) None) as Em.
      { rewrite Ef. destruct bc; cbn in B; try contradiction; try reflexivity. now rewrite (neg_ltb n B). }
      destruct bc; cbn [bcok] in B; try contradiction; cbn [kind_of] in *; cbv beta iota; rewrite Em;
        (exists (BUnion tags idx (cs ++ [opened Nc]) (Z.of_nat (length cs))), None, [XUni tags idx cs []], Nc, [];
         split; [reflexivity|split; [reflexivity|split; [exact Kn|]]];
         refine (conj _ (conj Rn (conj Tn (conj _ _))));
         [constructor; [exact I|constructor]
         |intros Nl _; reflexivity
         |intros Nl Nf v endc AX BX Ke E Rf Kf Tf Nv; cbn [xplug];
          apply (close_uni tags idx cs [] vss [] [] vs Nl endc Nf None v Wt Wi (UniH_alt _ _ _ _ U)
                   (eq_sym (ualts_len cs vss AL)) AL I); auto;
          apply (alts_ok_snoc cs Nf AO Tf); intros k Hk; rewrite Kf, Kn in Hk;
          eapply untaken_notin; eauto; cbn; auto]).
Qed.

End WithOpts.
